/-
  The single-call encoders (block_buffer_encoder.c, stream_buffer_encoder.c), the threaded encoder's Block step and the
  .lzma encoder of Model/XzEncode.lean write valid containers: inversion lemmas + Lemmas/XzEncode.lean.
  Kernel proofs, core Lean only.
-/
import XzVerif.Lemmas.XzEncode
import XzVerif.Model.Alone
namespace XzVerif.XzEncode
open XzVerif XzVerif.Vli XzVerif.Container XzVerif.XzDecode

/-! ## inversion of the two Block paths -/

theorem blockEncodeNormal_ok (E : EncEnv) (check : Nat) (fs : List FilterOpts) (data : List UInt8) (avail : Nat)
    (bytes : List UInt8) (hs cs : Nat) (h : blockEncodeNormal E check fs data avail = .ok (bytes, hs, cs)) :
    ∃ hdr, blockHeaderSize 0 (some (lzma2Bound data.length)) (some data.length) fs = .ok hs ∧
      blockHeaderEncodeWith 0 hs check (some cs) (some data.length) fs = .ok hdr ∧
      cs = (E.encPayload fs data).length ∧ bytes = hdr ++ E.encPayload fs data ∧
      cs ≤ lzma2Bound data.length ∧ hs < avail ∧ cs ≤ avail - hs := by
  unfold blockEncodeNormal at h
  simp only [] at h
  cases h1 : blockHeaderSize 0 (some (lzma2Bound data.length)) (some data.length) fs with
  | error e => simp [h1] at h
  | ok hs' =>
    simp only [h1] at h
    by_cases g1 : avail ≤ hs'
    · rw [if_pos g1] at h; simp at h
    rw [if_neg g1] at h
    by_cases g2 : E.rawInit fs ≠ .ok
    · rw [if_pos g2] at h; simp at h
    rw [if_neg g2] at h
    by_cases g3 : (E.encPayload fs data).length > (if avail - hs' > lzma2Bound data.length then lzma2Bound data.length else avail - hs')
    · rw [if_pos g3] at h; simp at h
    rw [if_neg g3] at h
    cases h2 : blockHeaderEncodeWith 0 hs' check (some (E.encPayload fs data).length) (some data.length) fs with
    | error e => simp [h2] at h
    | ok hdr =>
      simp only [h2, Except.ok.injEq, Prod.mk.injEq] at h
      obtain ⟨e1, e2, e3⟩ := h
      subst e2 e3
      refine ⟨hdr, rfl, h2, rfl, e1.symm, ?_, by omega, ?_⟩
      · split at g3 <;> omega
      · split at g3 <;> omega

theorem blockEncodeUncompressed_ok (check : Nat) (data : List UInt8) (avail : Nat) (bytes : List UInt8) (hs cs : Nat)
    (h : blockEncodeUncompressed check data avail = .ok (bytes, hs, cs)) :
    ∃ hdr, blockHeaderSize 0 (some (lzma2Bound data.length)) (some data.length) [.lzma2 DICT_SIZE_MIN] = .ok hs ∧
      blockHeaderEncodeWith 0 hs check (some cs) (some data.length) [.lzma2 DICT_SIZE_MIN] = .ok hdr ∧
      cs = lzma2Bound data.length ∧ bytes = hdr ++ lzma2UncompressedChunks data ∧ hs + cs ≤ avail := by
  unfold blockEncodeUncompressed at h
  simp only [] at h
  cases h1 : blockHeaderSize 0 (some (lzma2Bound data.length)) (some data.length) [.lzma2 DICT_SIZE_MIN] with
  | error e => simp [h1] at h
  | ok hs' =>
    simp only [h1] at h
    by_cases g1 : avail < hs' + lzma2Bound data.length
    · rw [if_pos g1] at h; simp at h
    rw [if_neg g1] at h
    cases h2 : blockHeaderEncodeWith 0 hs' check (some (lzma2Bound data.length)) (some data.length) [.lzma2 DICT_SIZE_MIN] with
    | error e => simp [h2] at h
    | ok hdr =>
      simp only [h2, Except.ok.injEq, Prod.mk.injEq] at h
      obtain ⟨e1, e2, e3⟩ := h
      subst e2 e3
      exact ⟨hdr, rfl, h2, rfl, e1.symm, by omega⟩

theorem forall2_lzma2_min (raws : List Filter) (h : Forall2 FilterMatches [.lzma2 DICT_SIZE_MIN] raws) :
    raws = [⟨FILTER_LZMA2, [0x00]⟩] := by
  cases h with
  | cons hm hrest =>
    cases hrest
    obtain ⟨hid, hpe, -⟩ := hm
    rename_i r
    have hp : propsEncode (.lzma2 DICT_SIZE_MIN) = .ok [0x00] := by decide
    rw [hp] at hpe
    simp only [Except.ok.injEq] at hpe
    cases r
    simp only [FilterOpts.id] at hid
    simp_all

theorem wf_lzma2_min : ∀ o ∈ [FilterOpts.lzma2 DICT_SIZE_MIN], o.wf := by
  intro o ho
  simp only [List.mem_singleton] at ho
  subst ho
  simp [FilterOpts.wf, DICT_SIZE_MIN]

/-- What `block_buffer_encode` returns with LZMA_OK: the three results of its inner step and the final bytes. -/
theorem blockBufferEncode_ok (E : EncEnv) (tc : Bool) (check : Nat) (fs : List FilterOpts) (data : List UInt8) (avail : Nat)
    (b : BlockOut) (h : blockBufferEncode E tc check fs data avail = .ok b) :
    checkIsSupported check = true ∧ lzma2Bound data.length ≠ 0 ∧ checkSize check < avail - avail % 4 ∧
    ∃ bytes hs cs,
      ((tc = true ∧ blockEncodeNormal E check fs data (avail - avail % 4 - checkSize check) = .ok (bytes, hs, cs)) ∨
       blockEncodeUncompressed check data (avail - avail % 4 - checkSize check) = .ok (bytes, hs, cs)) ∧
      b = { bytes := bytes ++ blockPadding cs ++ E.check check data,
            unpadded := blockUnpaddedSize 0 hs check (some cs), uncompressed := data.length } := by
  unfold blockBufferEncode at h
  by_cases g1 : check > CHECK_ID_MAX
  · rw [if_pos g1] at h; simp at h
  rw [if_neg g1] at h
  by_cases g2 : (!checkIsSupported check) = true
  · rw [if_pos g2] at h; simp at h
  rw [if_neg g2] at h
  simp only [] at h
  by_cases g3 : avail - avail % 4 ≤ checkSize check
  · rw [if_pos g3] at h; simp at h
  rw [if_neg g3] at h
  by_cases g4 : lzma2Bound data.length = 0
  · rw [if_pos g4] at h; simp at h
  rw [if_neg g4] at h
  refine ⟨by simpa using g2, g4, by omega, ?_⟩
  cases tc with
  | false =>
    simp only [Bool.false_eq_true, if_false, ne_eq, not_true_eq_false] at h
    cases h1 : blockEncodeUncompressed check data (avail - avail % 4 - checkSize check) with
    | error e => simp [h1] at h
    | ok r =>
      obtain ⟨bytes, hs, cs⟩ := r
      simp only [h1, Except.ok.injEq] at h
      exact ⟨bytes, hs, cs, Or.inr rfl, h.symm⟩
  | true =>
    simp only [if_true] at h
    cases h0 : blockEncodeNormal E check fs data (avail - avail % 4 - checkSize check) with
    | ok r =>
      obtain ⟨bytes, hs, cs⟩ := r
      simp only [h0, Except.ok.injEq] at h
      exact ⟨bytes, hs, cs, Or.inl ⟨rfl, rfl⟩, h.symm⟩
    | error e =>
      simp only [h0] at h
      by_cases ge : e ≠ .bufError
      · rw [if_pos ge] at h; simp at h
      rw [if_neg ge] at h
      cases h1 : blockEncodeUncompressed check data (avail - avail % 4 - checkSize check) with
      | error e => simp [h1] at h
      | ok r =>
        obtain ⟨bytes, hs, cs⟩ := r
        simp only [h1, Except.ok.injEq] at h
        exact ⟨bytes, hs, cs, Or.inr rfl, h.symm⟩

/-- The single-call Block encoder (with or without the attempt to compress) writes a truthful Block. -/
theorem blockBufferEncode_good (DE : Env) (E : EncEnv) (tc : Bool) (check : Nat) (fs : List FilterOpts) (n : Nat)
    (hw : ∀ o ∈ fs, o.wf) (hchain : validateChain (fs.map (·.id)) = .ok n)
    (hck : CheckAgrees DE E) (hpc : PayloadContract DE E fs) (huc : UncompContract DE)
    (data : List UInt8) (avail : Nat) (b : BlockOut) (h : blockBufferEncode E tc check fs data avail = .ok b) :
    GoodBlock DE check data b.bytes b.unpadded ∧ b.uncompressed = data.length := by
  obtain ⟨hsup, hl0, -, bytes, hs, cs, hpath, hb⟩ := blockBufferEncode_ok E tc check fs data avail b h
  subst hb
  refine ⟨?_, rfl⟩
  simp only []
  have hn : data.length ≤ VLI_MAX := by
    have h1 := (lzma2Bound_spec data.length).2 hl0
    have h2 := lzma2Bound_le data.length
    rw [uncompressedChunksSize_eq] at h1
    unfold VLI_MAX; omega
  have hle := lzma2Bound_le data.length
  have hcsm := consts_eval.1
  rcases hpath with ⟨-, hnorm⟩ | hunc
  · obtain ⟨hdr, -, hh, hcs, hbytes, hcl, -, -⟩ := blockEncodeNormal_ok E check fs data _ bytes hs cs hnorm
    have := goodBlock_of_header DE check hs (some cs) (some data.length) fs hdr (E.encPayload fs data) data (E.check check data) n
      hw hh hchain (Or.inr (by rw [hcs])) (Or.inr rfl) (fun raws hr t c hc => hpc raws hr data t c hc) (by omega) hn
      (hck.1 _ _).symm (hck.2 _ _ hsup)
    rw [hbytes, hcs]
    exact this
  · obtain ⟨hdr, -, hh, hcs, hbytes, -⟩ := blockEncodeUncompressed_ok check data _ bytes hs cs hunc
    have hclen : (lzma2UncompressedChunks data).length = cs := by
      rw [lzma2UncompressedChunks_length, hcs, (lzma2Bound_spec data.length).2 hl0]
    have := goodBlock_of_header DE check hs (some cs) (some data.length) [.lzma2 DICT_SIZE_MIN] hdr
      (lzma2UncompressedChunks data) data (E.check check data) 1 wf_lzma2_min hh (by decide)
      (Or.inr (by rw [hclen])) (Or.inr rfl)
      (fun raws hr t c hc => by rw [forall2_lzma2_min raws hr]; exact huc data t c hc) (by omega) hn
      (hck.1 _ _).symm (hck.2 _ _ hsup)
    rw [hbytes]
    rw [hclen] at this
    exact this

/-- The threaded encoder's worker writes a truthful Block. -/
theorem blockEncodeMT_good (DE : Env) (E : EncEnv) (check : Nat) (fs : List FilterOpts) (n : Nat)
    (hw : ∀ o ∈ fs, o.wf) (hchain : validateChain (fs.map (·.id)) = .ok n)
    (hck : CheckAgrees DE E) (hpc : PayloadContract DE E fs) (huc : UncompContract DE)
    (blockSize : Nat) (data : List UInt8) (b : BlockOut) (h : blockEncodeMT E check fs blockSize data = .ok b) :
    GoodBlock DE check data b.bytes b.unpadded ∧ b.uncompressed = data.length := by
  unfold blockEncodeMT at h
  simp only [] at h
  cases h1 : blockHeaderSize 0 (some (blockBufferBound64 blockSize)) (some blockSize) fs with
  | error e => simp [h1] at h
  | ok hs =>
    simp only [h1] at h
    by_cases g : blockEncoderInit E check fs ≠ .ok
    · rw [if_pos g] at h; simp at h
    rw [if_neg g] at h
    have hsup := blockEncoderInit_ok E check fs g
    cases h3 : blockBody E check fs data with
    | error e => simp [h3] at h
    | ok r =>
      obtain ⟨body, cs⟩ := r
      simp only [h3] at h
      obtain ⟨hx, hcs, hcsm, hbody⟩ := blockBody_ok E check fs data body cs h3
      by_cases gf : hs + body.length ≤ blockBufferBound64 blockSize
      · rw [if_pos gf] at h
        cases h2 : blockHeaderEncodeWith 0 hs check (some cs) (some data.length) fs with
        | error e => simp [h2] at h
        | ok hdr =>
          simp only [h2, Except.ok.injEq] at h
          subst h
          refine ⟨?_, rfl⟩
          simp only []
          have := goodBlock_of_header DE check hs (some cs) (some data.length) fs hdr (E.encPayload fs data) data
            (E.check check data) n hw h2 hchain (Or.inr (by rw [hcs])) (Or.inr rfl)
            (fun raws hr t c hc => hpc raws hr data t c hc) (by omega) hx (hck.1 _ _).symm (hck.2 _ _ hsup)
          rw [hbody, hcs]
          simpa [List.append_assoc] using this
      · rw [if_neg gf] at h
        cases h2 : blockBufferEncode E false check fs data (blockBufferBound64 blockSize) with
        | error e => simp [h2] at h
        | ok b' =>
          simp only [h2, Except.ok.injEq] at h
          subst h
          exact blockBufferEncode_good DE E false check fs n hw hchain hck hpc huc data _ b' h2

/-! ## single-call and threaded Stream encoders -/

theorem appendsOk_of_appendAll : ∀ (rs : List IndexRecord) (pre : HashInfo) (a a' : IndexAcc),
    AccOf pre a → indexAppendAll rs a = .ok a' → AppendsOk pre rs := by
  intro rs
  induction rs with
  | nil => intro _ _ _ _ _; trivial
  | cons r rs ih =>
    intro pre a a' hacc h
    simp only [indexAppendAll] at h
    cases h1 : indexAppend a r.unpadded r.uncompressed with
    | error e => simp [h1] at h
    | ok a1 =>
      simp only [h1] at h
      obtain ⟨happ, hacc1⟩ := indexAppend_hash pre a a1 _ _ hacc h1
      rw [AppendsOk_cons]
      exact ⟨happ, ih _ a1 a' hacc1 h⟩

/-- **The single-call Stream encoder writes a valid Stream** (also when it fell back to uncompressed chunks). -/
theorem streamBufferEncode_decodes (DE : Env) (E : EncEnv) (cfg : Cfg) (data out : List UInt8) (avail : Nat)
    (fl : Flags) (cap n : Nat)
    (hw : ∀ o ∈ cfg.filters, o.wf) (hchain : validateChain (cfg.filters.map (·.id)) = .ok n)
    (hck : CheckAgrees DE E) (hpc : PayloadContract DE E cfg.filters) (huc : UncompContract DE)
    (henc : streamBufferEncode E cfg data avail = .ok out) (hcap : data.length ≤ cap) :
    xzDecode DE fl out cap
      = { ret := .streamEnd, out := data, consumed := out.length, events := headerEvents DE fl cfg.check }
    ∧ out.length ≤ avail := by
  unfold streamBufferEncode at henc
  by_cases g1 : cfg.check > CHECK_ID_MAX
  · rw [if_pos g1] at henc; simp at henc
  rw [if_neg g1] at henc
  by_cases g2 : (!checkIsSupported cfg.check) = true
  · rw [if_pos g2] at henc; simp at henc
  rw [if_neg g2] at henc
  by_cases g3 : avail ≤ 2 * STREAM_HEADER_SIZE
  · rw [if_pos g3] at henc; simp at henc
  rw [if_neg g3] at henc
  simp only [] at henc
  cases h1 : streamHeaderEncode { check := cfg.check } with
  | error e => simp [h1] at henc
  | ok hb =>
    simp only [h1] at henc
    have hbl := (streamHeader_roundtrip _ hb [] h1).1
    -- the Block (or none)
    have key : ∀ (bl : BlockList) (bytes : List UInt8) (recs : List IndexRecord),
        bl.bytes = bytes → bl.recs = recs → bl.data = data → (∀ q ∈ bl, GoodBlock DE cfg.check q.1 q.2.1 q.2.2) →
        streamBufferFinish cfg.check hb bytes recs (avail - STREAM_HEADER_SIZE - STREAM_HEADER_SIZE - bytes.length) = .ok out →
        xzDecode DE fl out cap
          = { ret := .streamEnd, out := data, consumed := out.length, events := headerEvents DE fl cfg.check }
        ∧ out.length ≤ hb.length + bytes.length + (avail - STREAM_HEADER_SIZE - STREAM_HEADER_SIZE - bytes.length) + 12 := by
      intro bl bytes recs e1 e2 e3 hgood hrest
      unfold streamBufferFinish at hrest
      cases h2 : indexAppendAll recs {} with
      | error e => simp [h2] at hrest
      | ok acc =>
        simp only [h2] at hrest
        cases h3 : indexBufferEncode recs (avail - STREAM_HEADER_SIZE - STREAM_HEADER_SIZE - bytes.length) with
        | error e => simp [h3] at hrest
        | ok idx =>
          simp only [h3] at hrest
          cases h4 : streamFooterEncode { check := cfg.check } (indexSize recs.length (indexListSize recs)) with
          | error e => simp [h4] at hrest
          | ok ftr =>
            simp only [h4, Except.ok.injEq] at hrest
            subst hrest
            have hidx : idx = indexEncode recs ∧ (indexEncode recs).length ≤ avail - STREAM_HEADER_SIZE - STREAM_HEADER_SIZE - bytes.length := by
              unfold indexBufferEncode at h3
              by_cases gi : avail - STREAM_HEADER_SIZE - STREAM_HEADER_SIZE - bytes.length < indexSize recs.length (indexListSize recs)
              · rw [if_pos gi] at h3; simp at h3
              · rw [if_neg gi] at h3
                simp only [Except.ok.injEq] at h3
                have hcnt := indexAppendAll_count_le _ _ h2
                have := (index_roundtrip recs acc [] hcnt h2).2
                exact ⟨h3.symm, by omega⟩
            have htail : streamTail cfg.check recs = .ok (idx ++ ftr) := by
              unfold streamTail; rw [h4, hidx.1]
            subst e1 e2
            have hap := appendsOk_of_appendAll _ [] {} acc accOf_nil h2
            have := stream_assembled_decodes DE fl cfg.check hb (idx ++ ftr) bl acc cap h1 hgood hap h2 htail (by rw [e3]; exact hcap)
            rw [e3] at this
            have e : hb ++ bl.bytes ++ idx ++ ftr = hb ++ bl.bytes ++ (idx ++ ftr) := by simp
            rw [e]
            refine ⟨this, ?_⟩
            have hf12 := (streamFooter_roundtrip _ _ ftr [] h4).1
            simp only [List.length_append, hf12, hidx.1]
            omega
    have hfin : ∀ bytes : List UInt8, hb.length + bytes.length + (avail - STREAM_HEADER_SIZE - STREAM_HEADER_SIZE - bytes.length) + 12 ≤ avail
        ∨ avail - STREAM_HEADER_SIZE - STREAM_HEADER_SIZE < bytes.length := by
      intro bytes
      unfold STREAM_HEADER_SIZE at g3 ⊢
      omega
    by_cases he : data.isEmpty = true
    · rw [if_pos he] at henc
      simp only [] at henc
      have hd : data = [] := by simpa using he
      obtain ⟨r1, r2⟩ := key [] [] [] rfl rfl (by rw [hd]; rfl) (by intro q hq; simp at hq) henc
      refine ⟨r1, ?_⟩
      rcases hfin [] with hh | hh
      · omega
      · simp at hh
    · rw [if_neg he] at henc
      cases hbk : blockBufferEncode E true cfg.check cfg.filters data (avail - STREAM_HEADER_SIZE - STREAM_HEADER_SIZE) with
      | error e => simp [hbk] at henc
      | ok b =>
        simp only [hbk] at henc
        obtain ⟨hg, hu⟩ := blockBufferEncode_good DE E true cfg.check cfg.filters n hw hchain hck hpc huc data _ b hbk
        obtain ⟨r1, r2⟩ := key [(data, b.bytes, b.unpadded)] b.bytes [⟨b.unpadded, b.uncompressed⟩]
          (by simp [BlockList.bytes]) (by rw [BlockList.recs_cons, hu]; rfl) (by simp [BlockList.data])
          (by intro q hq; simp only [List.mem_singleton] at hq; subst hq; exact hg) henc
        refine ⟨r1, ?_⟩
        -- the Block itself stayed inside its share of the buffer
        obtain ⟨-, -, hcsz, bytes, hs, cs, hpath, hb'⟩ := blockBufferEncode_ok E true cfg.check cfg.filters data _ b hbk
        have hblen : b.bytes.length ≤ avail - STREAM_HEADER_SIZE - STREAM_HEADER_SIZE := by
          have hckl := hck.2 cfg.check data (by simpa using g2)
          have hc4 := (checkSize_facts cfg.check (by unfold CHECK_ID_MAX at g1; omega)).1
          rw [hb']
          simp only [List.length_append, blockPadding_length, hckl]
          rcases hpath with ⟨-, hnorm⟩ | hunc
          · obtain ⟨hdr, -, hh, hcs, hbytes, -, hlt, hfit⟩ := blockEncodeNormal_ok E cfg.check cfg.filters data _ bytes hs cs hnorm
            have hhl := (blockHeader_roundtrip 0 hs cfg.check _ _ _ hdr [] hw hh)
            rw [hbytes, List.length_append, hhl.1, ← hcs]
            have := hhl.2.1
            unfold blockPadLen
            omega
          · obtain ⟨hdr, -, hh, hcs, hbytes, hfit⟩ := blockEncodeUncompressed_ok cfg.check data _ bytes hs cs hunc
            have hhl := (blockHeader_roundtrip 0 hs cfg.check _ _ _ hdr [] wf_lzma2_min hh)
            have hl0 : lzma2Bound data.length ≠ 0 := (blockBufferEncode_ok E true cfg.check cfg.filters data _ b hbk).2.1
            rw [hbytes, List.length_append, hhl.1, lzma2UncompressedChunks_length, ← (lzma2Bound_spec data.length).2 hl0, ← hcs]
            have := hhl.2.1
            unfold blockPadLen
            omega
        rcases hfin b.bytes with hh | hh <;> omega


/-! ## threaded Stream encoder -/

theorem chunksOf_flatten (n : Nat) (hn : 1 ≤ n) : ∀ (fuel : Nat) (l : List UInt8), l.length ≤ fuel →
    (chunksOf n fuel l).flatten = l := by
  intro fuel
  induction fuel with
  | zero =>
    intro l hl
    have : l = [] := List.eq_nil_of_length_eq_zero (by omega)
    subst this
    rfl
  | succ fuel ih =>
    intro l hl
    simp only [chunksOf]
    by_cases he : l.isEmpty = true
    · rw [if_pos he]
      have : l = [] := by simpa using he
      subst this
      rfl
    · rw [if_neg he, List.flatten_cons]
      have hpos : 1 ≤ l.length := by
        cases l with
        | nil => simp at he
        | cons _ _ => simp
      rw [ih (l.drop n) (by rw [List.length_drop]; omega), List.take_append_drop]

theorem flatMap_chunksOf_flatten (n : Nat) (hn : 1 ≤ n) (pieces : List (List UInt8)) :
    (pieces.flatMap fun p => chunksOf n p.length p).flatten = pieces.flatten := by
  induction pieces with
  | nil => rfl
  | cons p ps ih =>
    rw [List.flatMap_cons, List.flatten_append, ih, chunksOf_flatten n hn _ _ (Nat.le_refl _), List.flatten_cons]

/-- **The threaded Stream encoder's container is valid** (the model of its deterministic output: Blocks in input order). -/
theorem streamEncodeMT_decodes (DE : Env) (E : EncEnv) (cfg : Cfg) (blockSize : Nat) (pieces : List (List UInt8))
    (out : List UInt8) (fl : Flags) (cap n : Nat)
    (hw : ∀ o ∈ cfg.filters, o.wf) (hchain : validateChain (cfg.filters.map (·.id)) = .ok n)
    (hck : CheckAgrees DE E) (hpc : PayloadContract DE E cfg.filters) (huc : UncompContract DE)
    (henc : streamEncodeMT E cfg blockSize pieces = .ok out) (hcap : pieces.flatten.length ≤ cap) :
    xzDecode DE fl out cap
      = { ret := .streamEnd, out := pieces.flatten, consumed := out.length, events := headerEvents DE fl cfg.check } := by
  unfold streamEncodeMT at henc
  by_cases g0 : blockSize = 0
  · rw [if_pos g0] at henc; simp at henc
  rw [if_neg g0] at henc
  by_cases g1 : cfg.check > CHECK_ID_MAX
  · rw [if_pos g1] at henc; simp at henc
  rw [if_neg g1] at henc
  by_cases g2 : (!checkIsSupported cfg.check) = true
  · rw [if_pos g2] at henc; simp at henc
  rw [if_neg g2] at henc
  cases h1 : streamHeaderEncode { check := cfg.check } with
  | error e => simp [h1] at henc
  | ok hb =>
    simp only [h1] at henc
    cases h2 : blocksEncode (blockEncodeMT E cfg.check cfg.filters blockSize)
        (pieces.flatMap fun p => chunksOf blockSize p.length p) {} with
    | error e => simp [h2] at henc
    | ok r =>
      obtain ⟨bytes, recs⟩ := r
      simp only [h2] at henc
      cases h3 : streamTail cfg.check recs with
      | error e => simp [h3] at henc
      | ok tail =>
        simp only [h3, Except.ok.injEq] at henc
        subst henc
        obtain ⟨bl, e1, e2, e3, e4, e5, acc', e6⟩ := blocksEncode_good DE cfg.check _
          (fun d b hb => blockEncodeMT_good DE E cfg.check cfg.filters n hw hchain hck hpc huc blockSize d b hb) _ {} [] bytes recs
          accOf_nil h2
        subst e1 e2
        rw [flatMap_chunksOf_flatten blockSize (by omega)] at e3
        rw [← e3] at hcap ⊢
        exact stream_assembled_decodes DE fl cfg.check hb tail bl acc' cap h1 e4 e5 e6 h3 hcap

end XzVerif.XzEncode
