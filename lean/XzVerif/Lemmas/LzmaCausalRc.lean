/-
  Causality of the LZMA decoder model, part 1b: the range-decoder operations and the bit-tree / length / distance decoders of
  Model/Lzma.lean are local in the input (`Loc`, see LzmaCausal.lean).
-/
import XzVerif.Lemmas.LzmaCausal

namespace XzVerif.Lzma
open XzVerif.RangeDec XzVerif.LzDict

/-! ### range-decoder level -/

theorem rcNormalize_withInp (v : St) (b : ByteArray) :
    rcNormalize (St.withInp v b) =
      if v.range < RC_TOP_VALUE then
        if h : v.inPos < b.size then
          .ok () (St.withInp { v with range := ((Rc.mk v.range v.code).shiftIn (b[v.inPos]).toNat).range,
                                      code := ((Rc.mk v.range v.code).shiftIn (b[v.inPos]).toNat).code,
                                      inPos := v.inPos + 1 } b)
        else .error .needInput (St.withInp v b)
      else .ok () (St.withInp v b) := rfl

theorem rcNormalize_div (n : Nat) (v : St) (b : ByteArray) (hge : n ≤ v.inPos) (hr : v.range < RC_TOP_VALUE) :
    MDiv n (rcNormalize (St.withInp v b)) := by
  rw [rcNormalize_withInp, if_pos hr]
  by_cases hb : v.inPos < b.size
  · rw [dif_pos hb]
    left
    show n < v.inPos + 1
    omega
  · rw [dif_neg hb]
    right
    exact ⟨_, rfl, hge⟩

theorem loc_rcNormalize : Loc rcNormalize where
  mono := by
    intro s
    unfold rcNormalize
    split
    · split
      · show s.inPos ≤ s.inPos + 1; omega
      · exact Nat.le_refl _
    · exact Nat.le_refl _
  rel := by
    intro n s s' hrel
    obtain ⟨v, b, b', rfl, rfl, hag⟩ := hrel
    by_cases hr : v.range < RC_TOP_VALUE
    · by_cases hn : v.inPos < n
      · left
        have hb : v.inPos < b.size := Nat.lt_of_lt_of_le hn hag.le
        have hb' : v.inPos < b'.size := Nat.lt_of_lt_of_le hn hag.le'
        have hbyte := hag.eq v.inPos hb hb' hn
        rw [rcNormalize_withInp, rcNormalize_withInp, if_pos hr, if_pos hr, dif_pos hb, dif_pos hb', hbyte]
        exact ⟨rfl, _, b, b', rfl, rfl, hag⟩
      · right
        exact ⟨rcNormalize_div n v b (by omega) hr, rcNormalize_div n v b' (by omega) hr⟩
    · left
      rw [rcNormalize_withInp, rcNormalize_withInp, if_neg hr, if_neg hr]
      exact ⟨rfl, v, b, b', rfl, rfl, hag⟩

/-- a step that replaces range/code by functions of range/code (kept abstract so that the kernel never unfolds the cores) -/
theorem Loc.stepRc {α : Type} (c1 : Nat → Nat → α) (c2 c3 : Nat → Nat → Nat) :
    Loc (fun s : St => EStateM.Result.ok (c1 s.range s.code)
      { s with range := c2 s.range s.code, code := c3 s.range s.code } : M α) :=
  Loc.step (fun s => c1 s.range s.code) (fun s => { s with range := c2 s.range s.code, code := c3 s.range s.code })
    (fun _ _ => rfl) (fun _ _ => rfl) (fun _ => Nat.le_refl _)

/-- the same with one probability read and written -/
theorem Loc.stepBit {α : Type} (idx : Nat) (c1 : Nat → Nat → Nat → α) (c2 c3 c4 : Nat → Nat → Nat → Nat) :
    Loc (fun s : St => EStateM.Result.ok (c1 s.range s.code (s.probs.getD idx 0))
      (St.setProb { s with range := c2 s.range s.code (s.probs.getD idx 0), code := c3 s.range s.code (s.probs.getD idx 0) }
        idx (c4 s.range s.code (s.probs.getD idx 0))) : M α) :=
  Loc.step (fun s => c1 s.range s.code (s.probs.getD idx 0))
    (fun s => St.setProb { s with range := c2 s.range s.code (s.probs.getD idx 0), code := c3 s.range s.code (s.probs.getD idx 0) }
        idx (c4 s.range s.code (s.probs.getD idx 0)))
    (fun _ _ => rfl) (fun _ _ => rfl) (fun _ => Nat.le_refl _)

/-- the part of `rcBit` after the normalisation -/
def bitStep (idx : Nat) : M Nat := fun s =>
  let p := s.probs.getD idx 0
  let r := bitCore (Rc.mk s.range s.code) p
  let s := { s with range := r.2.1.range, code := r.2.1.code }
  .ok r.1 (s.setProb idx r.2.2)

theorem rcBit_eq (idx : Nat) : rcBit idx = (rcNormalize >>= fun _ => bitStep idx) := by
  funext s
  show rcBit idx s = EStateM.bind rcNormalize (fun _ => bitStep idx) s
  unfold rcBit EStateM.bind
  cases rcNormalize s with
  | ok a t => rfl
  | error e t => rfl

theorem loc_bitStep (idx : Nat) : Loc (bitStep idx) :=
  Loc.stepBit idx (fun r c p => (bitCore (Rc.mk r c) p).1) (fun r c p => (bitCore (Rc.mk r c) p).2.1.range)
    (fun r c p => (bitCore (Rc.mk r c) p).2.1.code) (fun r c p => (bitCore (Rc.mk r c) p).2.2)

theorem loc_rcBit (idx : Nat) : Loc (rcBit idx) := by
  rw [rcBit_eq]
  exact Loc.bind loc_rcNormalize (fun _ => loc_bitStep idx)

theorem loc_directStep : Loc (fun s : St =>
      let r := directCore (Rc.mk s.range s.code)
      EStateM.Result.ok r.1 { s with range := r.2.range, code := r.2.code } : M Nat) :=
  Loc.stepRc (fun r c => (directCore (Rc.mk r c)).1) (fun r c => (directCore (Rc.mk r c)).2.range)
    (fun r c => (directCore (Rc.mk r c)).2.code)

theorem loc_rcDirect (n : Nat) : ∀ dest, Loc (rcDirect n dest) := by
  induction n with
  | zero => intro dest; exact Loc.pure dest
  | succ n ih =>
    intro dest
    unfold rcDirect
    exact Loc.bind loc_rcNormalize (fun _ => Loc.bind loc_directStep (fun b => ih _))

theorem loc_bittree (base : Nat) : ∀ n sym, Loc (bittree base n sym)
  | 0, sym => Loc.pure sym
  | n + 1, sym => by
    unfold bittree
    exact Loc.bind (loc_rcBit _) (fun b => loc_bittree base n _)

theorem loc_litMatched (base : Nat) : ∀ n sym offset len, Loc (litMatched base n sym offset len)
  | 0, sym, _, _ => Loc.pure sym
  | n + 1, sym, offset, len => by
    unfold litMatched
    exact Loc.bind (loc_rcBit _) (fun b => loc_litMatched base n _ _ _)

theorem loc_revBittree (base : Nat) : ∀ n sym offset acc, Loc (revBittree base n sym offset acc)
  | 0, _, _, acc => Loc.pure acc
  | n + 1, sym, offset, acc => by
    unfold revBittree
    exact Loc.bind (loc_rcBit _) (fun b => loc_revBittree base n _ _ _)

theorem loc_revAlign : ∀ n sym offset, Loc (revAlign n sym offset)
  | 0, sym, _ => Loc.pure sym
  | n + 1, sym, offset => by
    unfold revAlign
    exact Loc.bind (loc_rcBit _) (fun b => loc_revAlign n _ _)

theorem loc_lenDecode (lenBase posState : Nat) : Loc (lenDecode lenBase posState) := by
  unfold lenDecode
  refine Loc.bind (loc_rcBit _) (fun c => ?_)
  split
  · exact Loc.bind (loc_bittree _ _ _) (fun _ => Loc.pure _)
  · refine Loc.bind (loc_rcBit _) (fun c2 => ?_)
    split
    · exact Loc.bind (loc_bittree _ _ _) (fun _ => Loc.pure _)
    · exact Loc.bind (loc_bittree _ _ _) (fun _ => Loc.pure _)

theorem loc_distDecode (len : Nat) : Loc (distDecode len) := by
  unfold distDecode
  refine Loc.bind (loc_bittree _ _ _) (fun slot1 => ?_)
  simp only []
  split
  · exact Loc.pure _
  · split
    · exact loc_revBittree _ _ _ _ _
    · exact Loc.bind (loc_rcDirect _ _) (fun r => Loc.bind (loc_revAlign _ _ _) (fun a => Loc.pure _))


/-! ### symbol level -/

theorem loc_decodeSymbol (eopmValid : Bool) : Loc (decodeSymbol eopmValid) := by
  unfold decodeSymbol
  refine Loc.bind (Loc.read _ (fun _ _ => rfl)) (fun t => ?_)
  obtain ⟨state, posState, full⟩ := t
  simp only []
  refine Loc.bind (loc_rcBit _) (fun isMatch => ?_)
  split
  · -- literal
    refine Loc.bind (Loc.read _ (fun _ _ => rfl)) (fun base => ?_)
    split
    · refine Loc.bind (Loc.modify _ (fun _ _ => rfl) (fun _ => Nat.le_refl _)) (fun _ => ?_)
      exact Loc.bind (loc_bittree _ _ _) (fun sym => Loc.pure _)
    · refine Loc.bind (Loc.modify _ (fun _ _ => rfl) (fun _ => Nat.le_refl _)) (fun _ => ?_)
      refine Loc.bind (Loc.read _ (fun _ _ => rfl)) (fun mb => ?_)
      exact Loc.bind (loc_litMatched _ _ _ _ _) (fun sym => Loc.pure _)
  · refine Loc.bind (loc_rcBit _) (fun isRep => ?_)
    split
    · -- simple match
      refine Loc.bind (Loc.modify _ (fun _ _ => rfl) (fun _ => Nat.le_refl _)) (fun _ => ?_)
      refine Loc.bind (loc_lenDecode _ _) (fun len => ?_)
      refine Loc.bind (loc_distDecode _) (fun d => ?_)
      refine Loc.bind (Loc.modify _ (fun _ _ => rfl) (fun _ => Nat.le_refl _)) (fun _ => ?_)
      split
      · have hrest : Loc (do
              rcNormalize
              let fin ← (fun s : St => EStateM.Result.ok (s.code == 0) s)
              if fin then throw .streamEnd else throw .dataError : M Pending) := by
          refine Loc.bind loc_rcNormalize (fun _ => ?_)
          refine Loc.bind (Loc.read _ (fun _ _ => rfl)) (fun fin => ?_)
          split
          · exact Loc.throw _
          · exact Loc.throw _
        split
        · exact Loc.bind (Loc.throw _) (fun _ => hrest)
        · exact hrest
      · split
        · exact Loc.throw _
        · exact Loc.pure _
    · -- repeated match
      split
      · exact Loc.throw _
      · refine Loc.bind (loc_rcBit _) (fun isRep0 => ?_)
        refine Loc.bind ?_ (fun isShort => ?_)
        · split
          · exact Loc.bind (loc_rcBit _) (fun isLong => Loc.pure _)
          · refine Loc.bind (loc_rcBit _) (fun isRep1 => ?_)
            have hm : ∀ f : St → St, (∀ s b, f (St.withInp s b) = St.withInp (f s) b) → (∀ s, s.inPos ≤ (f s).inPos) →
                Loc (do modify f; pure false : M Bool) :=
              fun f hf hp => Loc.bind (Loc.modify f hf hp) (fun _ => Loc.pure _)
            split
            · exact hm _ (fun _ _ => rfl) (fun _ => Nat.le_refl _)
            · refine Loc.bind (loc_rcBit _) (fun isRep2 => ?_)
              split
              · exact hm _ (fun _ _ => rfl) (fun _ => Nat.le_refl _)
              · exact hm _ (fun _ _ => rfl) (fun _ => Nat.le_refl _)
        · split
          · exact Loc.bind (Loc.modify _ (fun _ _ => rfl) (fun _ => Nat.le_refl _)) (fun _ => Loc.pure _)
          · refine Loc.bind (Loc.modify _ (fun _ _ => rfl) (fun _ => Nat.le_refl _)) (fun _ => ?_)
            exact Loc.bind (loc_lenDecode _ _) (fun len => Loc.pure _)

theorem loc_symPrelude (ev mf : Bool) : Loc (symPrelude ev mf) := by
  unfold symPrelude
  refine Loc.bind (Loc.read _ (fun _ _ => rfl)) (fun atLimit => ?_)
  split
  · refine Loc.bind loc_rcNormalize (fun _ => ?_)
    refine Loc.bind (Loc.read _ (fun _ _ => rfl)) (fun t => ?_)
    obtain ⟨fin, allow⟩ := t
    simp only []
    split
    · exact Loc.throw _
    · split
      · exact Loc.throw _
      · exact Loc.bind (Loc.modify _ (fun _ _ => rfl) (fun _ => Nat.le_refl _)) (fun _ => Loc.pure _)
  · exact Loc.pure _

theorem doWrite_withInp (p : Pending) (s : St) (b : ByteArray) :
    doWrite p (St.withInp s b) = mapInp b (doWrite p s) := by
  cases p with
  | none => rfl
  | stuck => rfl
  | litWrite sym =>
    show (if s.dp.pos == s.dp.limit then _ else _) = mapInp b (if s.dp.pos == s.dp.limit then _ else _)
    split <;> rfl
  | shortRep =>
    show (if s.dp.pos == s.dp.limit then _ else _) = mapInp b (if s.dp.pos == s.dp.limit then _ else _)
    split <;> rfl
  | copy len =>
    show (if len - s.dp.repeatLeft len != 0 then _ else _) = mapInp b (if len - s.dp.repeatLeft len != 0 then _ else _)
    split <;> rfl

theorem doWrite_inPos (p : Pending) (s : St) : (resSt (doWrite p s)).inPos = s.inPos := by
  cases p with
  | none => rfl
  | stuck => rfl
  | litWrite sym =>
    show St.inPos (resSt (if s.dp.pos == s.dp.limit then _ else _ : EStateM.Result Exit St Unit)) = _
    split <;> rfl
  | shortRep =>
    show St.inPos (resSt (if s.dp.pos == s.dp.limit then _ else _ : EStateM.Result Exit St Unit)) = _
    split <;> rfl
  | copy len =>
    show St.inPos (resSt (if len - s.dp.repeatLeft len != 0 then _ else _ : EStateM.Result Exit St Unit)) = _
    split <;> rfl

theorem loc_doWrite (p : Pending) : Loc (doWrite p) :=
  Loc.of_indep _ (doWrite_withInp p) (fun s => by rw [doWrite_inPos]; exact Nat.le_refl _)

theorem loc_symStep (ev mf : Bool) : Loc (symStep ev mf) := by
  unfold symStep
  refine Loc.bind (loc_symPrelude _ _) (fun ev' => ?_)
  refine Loc.bind (loc_decodeSymbol _) (fun act => ?_)
  exact Loc.bind (loc_doWrite _) (fun _ => Loc.pure _)

theorem loc_symLoop : ∀ fuel ev mf, Loc (symLoop fuel ev mf)
  | 0, _, _ => by unfold symLoop; exact Loc.throw _
  | fuel + 1, ev, mf => by
    unfold symLoop
    exact Loc.bind (loc_symStep _ _) (fun ev' => loc_symLoop fuel _ _)

end XzVerif.Lzma
