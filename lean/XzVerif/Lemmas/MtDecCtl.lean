/-
  Control invariant of the threaded-decoder model (what the main thread's program counter and coder->sequence imply) and
  the joint preservation of data + control invariant by the main-thread transitions outside read_output_and_wait.
-/
import XzVerif.Lemmas.MtDecWorker

namespace XzVerif.MtDec

def seqOfRowK : RowK → Seq
  | .hdr => .blockHeader
  | .canStart => .thrInit
  | .thrRun => .thrRun
  | .drainDirect => .directInit
  | .drainIndex => .indexWait
  | .drainErr => .error

/-- The RowK of a main-thread program counter that is inside (or just behind) read_output_and_wait. -/
def rowKOf : MPc → Option RowK
  | .row k _ => some k
  | .rowWait k _ => some k
  | .rowDone k _ _ => some k
  | .rowOk k _ => some k
  | _ => none

/-- coder->thr is set up but not started yet. -/
def ThrIdle (s : State) (t : Nat) (has : Bool) : Prop :=
  s.thr = some t ∧ t < s.workers.length ∧ idlePc (getW s t).pc ∧ (getW s t).st ≠ .run ∧ (getW s t).hasOut = has ∧
    t ∉ s.threadsFree

structure CtlInv (s : State) : Prop where
  seqCur : (s.seq = .blockInit ∨ (s.seq = .thrInit ∧ s.pc ≠ .init4 ∧ s.pc ≠ .init5) ∨ s.seq = .directInit ∨ s.seq = .directRun ∨ s.seq = .indexWait ∨
            s.seq = .indexDecode) → s.cur < s.blocks.length
  kSync : (s.seq = .indexWait ∨ s.seq = .indexDecode) → (blk s s.cur).kind = .sync
  dirZero : s.seq ≠ .directRun → s.directPos = 0
  qEmpty : (s.seq = .directRun ∨ s.seq = .indexDecode) → s.queue = []
  rowK : ∀ k, rowKOf s.pc = some k → s.seq = seqOfRowK k
  thrLt : s.pc ≠ .ended → ∀ t, s.thr = some t → t < s.workers.length
  thrSeq : ∀ t, s.thr = some t → s.seq = .thrInit ∨ s.seq = .thrRun ∨ s.seq = .error
  endDirect : (∃ i, s.pc = .endSet i .direct ∨ s.pc = .endJoin i .direct) → s.seq = .directInit ∧ s.queue = []
  init3 : s.pc = .init3 → ∃ t, ThrIdle s t false
  init4 : s.pc = .init4 → ∃ t, ThrIdle s t true
  initSeq : (s.pc = .init1 ∨ s.pc = .init2 ∨ s.pc = .init3 ∨ s.pc = .init4 ∨ s.pc = .init5) → s.seq = .thrInit
  tell : ∀ f n, s.pc = .tell f n → s.seq = .thrRun ∧ ∃ t, s.thr = some t ∧ (getW s t).inFilled ≤ f ∧ f ≤ (getW s t).inSize

def Inv (s : State) : Prop := DataInv s ∧ CtlInv s

theorem CtlInv.init (cfg : Cfg) (blocks : List Block) : CtlInv (init cfg blocks) := by
  constructor <;> simp [MtDec.init, rowKOf]

/-- ThrIdle is stable under a worker step on any worker: the only step enabled for an idle-pc worker that is not running
    keeps it idle. Stated for the shape all worker steps have. -/
theorem ThrIdle.setW {s : State} {t : Nat} {has : Bool} (h : ThrIdle s t has) (i : Nat) (w : Worker)
    (hkeep : i = t → idlePc w.pc ∧ w.st ≠ .run ∧ w.hasOut = has) :
    ThrIdle (MtDec.setW s i w) t has := by
  obtain ⟨h1, h2, h3, h4, h5, h6⟩ := h
  refine ⟨h1, by simpa using h2, ?_, ?_, ?_, h6⟩ <;>
  · by_cases e : i = t
    · subst e; rw [getW_setW_same _ _ _ h2]; first | exact (hkeep rfl).1 | exact (hkeep rfl).2.1 | exact (hkeep rfl).2.2
    · rw [getW_setW_ne _ _ _ _ e]; assumption

/-- The worker a label belongs to. -/
def Label.worker? : Label → Option Nat
  | .wLoop i _ | .wDecode i _ _ _ | .wPublish i | .wFin1 i | .wFin2 i | .wFin3 i | .wCleanup i => some i
  | _ => none

/-- What every worker transition looks like from the main thread's point of view. -/
structure WorkerShape (s s' : State) (i : Nat) : Prop where
  hi : i < s.workers.length
  pc : s'.pc = s.pc
  seq : s'.seq = s.seq
  cur : s'.cur = s.cur
  blocks : s'.blocks = s.blocks
  cfg : s'.cfg = s.cfg
  directPos : s'.directPos = s.directPos
  thr : s'.thr = s.thr
  outRev : s'.outRev = s.outRev
  readPos : s'.readPos = s.readPos
  outCap : s'.outCap = s.outCap
  returned : s'.returned = s.returned
  workers : s'.workers = s.workers.set i (getW s' i)
  inFilled : (getW s' i).inFilled = (getW s i).inFilled
  inSize : (getW s' i).inSize = (getW s i).inSize
  qlen : s'.queue.length = s.queue.length
  idle : idlePc (getW s i).pc → (getW s i).st ≠ .run →
    idlePc (getW s' i).pc ∧ (getW s' i).st = (getW s i).st ∧ (getW s' i).hasOut = (getW s i).hasOut
  free : ∀ j ∈ s'.threadsFree, j ∈ s.threadsFree ∨ (j = i ∧ ¬ idlePc (getW s i).pc)
  stExit : (getW s i).st = .exit → (getW s' i).st = .exit

theorem workerShape_of_setW (s : State) (i : Nat) (hi : i < s.workers.length) (w : Worker)
    (h1 : w.inFilled = (getW s i).inFilled) (h2 : w.inSize = (getW s i).inSize)
    (h3 : idlePc (getW s i).pc → (getW s i).st ≠ .run → idlePc w.pc ∧ w.st = (getW s i).st ∧ w.hasOut = (getW s i).hasOut)
    (h4 : (getW s i).st = .exit → w.st = .exit := by intro h; first | exact h | simp_all) :
    WorkerShape s (MtDec.setW s i w) i := by
  have e : getW (MtDec.setW s i w) i = w := getW_setW_same s i w hi
  refine ⟨hi, rfl, rfl, rfl, rfl, rfl, rfl, rfl, rfl, rfl, rfl, rfl, by rw [e]; rfl, by rw [e]; exact h1, by rw [e]; exact h2, rfl,
          by rw [e]; exact h3, fun j hj => Or.inl hj, by rw [e]; exact h4⟩

theorem WorkerShape.congr {s s1 s2 : State} {i : Nat} (h : WorkerShape s s1 i)
    (e1 : s2.pc = s1.pc) (e2 : s2.seq = s1.seq) (e3 : s2.cur = s1.cur) (e4 : s2.blocks = s1.blocks) (e5 : s2.cfg = s1.cfg)
    (e6 : s2.directPos = s1.directPos) (e7 : s2.thr = s1.thr) (e8 : s2.outRev = s1.outRev) (e9 : s2.readPos = s1.readPos)
    (e10 : s2.outCap = s1.outCap) (e11 : s2.returned = s1.returned) (e12 : s2.workers = s1.workers)
    (e13 : s2.queue.length = s1.queue.length)
    (e14 : ∀ j ∈ s2.threadsFree, j ∈ s.threadsFree ∨ (j = i ∧ ¬ idlePc (getW s i).pc)) : WorkerShape s s2 i := by
  have eg : getW s2 i = getW s1 i := by simp [getW, e12]
  exact ⟨h.hi, e1.trans h.pc, e2.trans h.seq, e3.trans h.cur, e4.trans h.blocks, e5.trans h.cfg, e6.trans h.directPos,
    e7.trans h.thr, e8.trans h.outRev, e9.trans h.readPos, e10.trans h.outCap, e11.trans h.returned,
    by rw [e12, eg]; exact h.workers, by rw [eg]; exact h.inFilled, by rw [eg]; exact h.inSize, e13.trans h.qlen,
    by rw [eg]; exact h.idle, e14, by rw [eg]; exact h.stExit⟩

theorem workerDecide_inFilled (w : Worker) : (workerDecide w).inFilled = w.inFilled := by
  unfold workerDecide; split <;> (try split) <;> rfl
theorem workerDecide_inSize (w : Worker) : (workerDecide w).inSize = w.inSize := by
  unfold workerDecide; split <;> (try split) <;> rfl

theorem workerShape_wLoop {s s' : State} {i : Nat} {c : Cause} (hs : step s (.wLoop i c) = some s') : WorkerShape s s' i := by
  simp only [step] at hs
  split at hs
  · rename_i hi
    have key : s' = MtDec.setW s i (workerDecide (getW s i)) := by
      split at hs <;> first
        | (injection hs with hs; exact hs.symm)
        | (split at hs <;> first | (injection hs with hs; exact hs.symm) | cases hs)
        | cases hs
    subst key
    exact workerShape_of_setW s i hi _ (workerDecide_inFilled _) (workerDecide_inSize _)
      (fun _ hst => ⟨workerDecide_idle _ hst, workerDecide_st _, workerDecide_hasOut _⟩)
      (fun h => by rw [workerDecide_st]; exact h)
  · cases hs

theorem workerShape_wDecode {s s' : State} {i a b : Nat} {v : Bool} (hs : step s (.wDecode i a b v) = some s') :
    WorkerShape s s' i := by
  simp only [step] at hs
  split at hs
  case isFalse => cases hs
  rename_i hi
  split at hs
  case h_2 => cases hs
  rename_i lim pu hpc
  have hni : ¬ idlePc (getW s i).pc := by rw [hpc]; simp [idlePc]
  split at hs
  case isFalse => cases hs
  split at hs
  · split at hs
    case isFalse => cases hs
    injection hs with hs; subst hs
    exact workerShape_of_setW s i hi _ rfl rfl (fun h => absurd h hni)
  · split at hs <;> (injection hs with hs; subst hs; exact workerShape_of_setW s i hi _ rfl rfl (fun h => absurd h hni))

theorem workerShape_wPublish {s s' : State} {i : Nat} (hs : step s (.wPublish i) = some s') : WorkerShape s s' i := by
  simp only [step] at hs
  split at hs
  case isFalse => cases hs
  rename_i hg
  simp only [Bool.and_eq_true, decide_eq_true_eq] at hg
  injection hs with hs; subst hs
  have hni : ¬ idlePc (getW s i).pc := by rw [hg.2]; simp [idlePc]
  exact (workerShape_of_setW s i hg.1 { getW s i with pc := .top } rfl rfl (fun h => absurd h hni)).congr
    rfl rfl rfl rfl rfl rfl rfl rfl rfl rfl rfl rfl (by simp [signalMain]) (fun j hj => Or.inl hj)

theorem workerShape_wFin1 {s s' : State} {i : Nat} (hs : step s (.wFin1 i) = some s') : WorkerShape s s' i := by
  simp only [step] at hs
  split at hs
  case isFalse => cases hs
  rename_i hi
  split at hs
  case h_2 => cases hs
  rename_i r hpc
  have hni : ¬ idlePc (getW s i).pc := by rw [hpc]; simp [idlePc]
  injection hs with hs; subst hs
  exact workerShape_of_setW s i hi _ rfl rfl (fun h => absurd h hni)

theorem workerShape_wFin2 {s s' : State} {i : Nat} (hs : step s (.wFin2 i) = some s') : WorkerShape s s' i := by
  simp only [step] at hs
  split at hs
  case isFalse => cases hs
  rename_i hi
  split at hs
  case h_2 => cases hs
  rename_i r hpc
  have hni : ¬ idlePc (getW s i).pc := by rw [hpc]; simp [idlePc]
  injection hs with hs; subst hs
  exact workerShape_of_setW s i hi _ rfl rfl (fun h => absurd h hni)

theorem workerShape_wCleanup {s s' : State} {i : Nat} (hs : step s (.wCleanup i) = some s') : WorkerShape s s' i := by
  simp only [step] at hs
  split at hs
  case isFalse => cases hs
  rename_i hg
  simp only [Bool.and_eq_true, decide_eq_true_eq] at hg
  injection hs with hs; subst hs
  exact workerShape_of_setW s i hg.1 _ rfl rfl (fun _ _ => ⟨trivial, rfl, rfl⟩)

theorem workerShape_wFin3 {s s' : State} {i : Nat} (hs : step s (.wFin3 i) = some s') : WorkerShape s s' i := by
  simp only [step] at hs
  split at hs
  case isFalse => cases hs
  rename_i hi
  split at hs
  case h_2 => cases hs
  rename_i r hpc
  have hni : ¬ idlePc (getW s i).pc := by rw [hpc]; simp [idlePc]
  have base := workerShape_of_setW s i hi { getW s i with hasOut := false, failed := r != END, pc := .top } rfl rfl
    (fun h => absurd h hni)
  injection hs with hs; subst hs
  by_cases hend : r = END
  · subst hend
    refine base.congr rfl rfl rfl rfl rfl rfl rfl rfl rfl rfl rfl rfl (by simp [signalMain]) ?_
    intro j hj
    simp [signalMain] at hj
    rcases hj with rfl | hj
    · exact Or.inr ⟨rfl, hni⟩
    · exact Or.inl hj
  · simp only [hend, if_false]
    split <;> exact base.congr rfl rfl rfl rfl rfl rfl rfl rfl rfl rfl rfl rfl (by simp [signalMain]) (fun j hj => Or.inl hj)

theorem workerShape {s s' : State} {l : Label} {i : Nat} (hl : l.worker? = some i) (hs : step s l = some s') :
    WorkerShape s s' i := by
  cases l <;> simp only [Label.worker?, Option.some.injEq, reduceCtorEq] at hl <;> subst hl
  · exact workerShape_wLoop hs
  · exact workerShape_wDecode hs
  · exact workerShape_wPublish hs
  · exact workerShape_wFin1 hs
  · exact workerShape_wFin2 hs
  · exact workerShape_wFin3 hs
  · exact workerShape_wCleanup hs

theorem WorkerShape.getW_ne {s s' : State} {i j : Nat} (h : WorkerShape s s' i) (hne : i ≠ j) : getW s' j = getW s j := by
  show s'.workers.getD j default = s.workers.getD j default
  rw [h.workers]
  simp [List.getD, List.getElem?_set_ne hne]

theorem WorkerShape.len {s s' : State} {i : Nat} (h : WorkerShape s s' i) : s'.workers.length = s.workers.length := by
  rw [h.workers]; simp

/-- The control invariant is preserved by every worker step. -/
theorem CtlInv.worker {s s' : State} {i : Nat} (h : CtlInv s) (sh : WorkerShape s s' i) : CtlInv s' := by
  have eb : ∀ j, blk s' j = blk s j := fun j => by simp [blk, sh.blocks]
  have thrIdle : ∀ t has, ThrIdle s t has → ThrIdle s' t has := by
    intro t has ⟨h1, h2, h3, h4, h5, h6⟩
    refine ⟨sh.thr.trans h1, by rw [sh.len]; exact h2, ?_, ?_, ?_, ?_⟩
    · by_cases e : i = t
      · subst e; exact (sh.idle h3 h4).1
      · rw [sh.getW_ne e]; exact h3
    · by_cases e : i = t
      · subst e; rw [(sh.idle h3 h4).2.1]; exact h4
      · rw [sh.getW_ne e]; exact h4
    · by_cases e : i = t
      · subst e; rw [(sh.idle h3 h4).2.2]; exact h5
      · rw [sh.getW_ne e]; exact h5
    · intro hm
      rcases sh.free t hm with hm' | ⟨rfl, hni⟩
      · exact h6 hm'
      · exact hni h3
  refine ⟨?_, ?_, ?_, ?_, ?_, ?_, ?_, ?_, ?_, ?_, ?_, ?_⟩
  · rw [sh.seq, sh.pc, sh.cur, sh.blocks]; exact h.seqCur
  · rw [sh.seq, sh.cur, eb]; exact h.kSync
  · rw [sh.seq, sh.directPos]; exact h.dirZero
  · rw [sh.seq]; intro hx
    have := h.qEmpty hx
    have hl := sh.qlen
    rw [this] at hl
    exact List.eq_nil_of_length_eq_zero (by simpa using hl)
  · rw [sh.pc, sh.seq]; exact h.rowK
  · rw [sh.pc, sh.thr, sh.len]; exact h.thrLt
  · rw [sh.thr, sh.seq]; exact h.thrSeq
  · rw [sh.pc, sh.seq]; intro hx
    refine ⟨(h.endDirect hx).1, ?_⟩
    have hl := sh.qlen
    rw [(h.endDirect hx).2] at hl
    exact List.eq_nil_of_length_eq_zero (by simpa using hl)
  · rw [sh.pc]; intro hp; obtain ⟨t, ht⟩ := h.init3 hp; exact ⟨t, thrIdle t _ ht⟩
  · rw [sh.pc]; intro hp; obtain ⟨t, ht⟩ := h.init4 hp; exact ⟨t, thrIdle t _ ht⟩
  · rw [sh.pc, sh.seq]; exact h.initSeq
  · rw [sh.pc, sh.seq, sh.thr]
    intro f n hp
    obtain ⟨h1, t, h2, h3, h4⟩ := h.tell f n hp
    refine ⟨h1, t, h2, ?_⟩
    by_cases e : i = t
    · subst e; rw [sh.inFilled, sh.inSize]; exact ⟨h3, h4⟩
    · rw [sh.getW_ne e]; exact ⟨h3, h4⟩

/-- Data + control invariant are preserved by every worker step. -/
theorem Inv.worker {s s' : State} {l : Label} {i : Nat} (h : Inv s) (hl : l.worker? = some i) (hs : step s l = some s') :
    Inv s' := by
  refine ⟨?_, h.2.worker (workerShape hl hs)⟩
  cases l <;> simp only [Label.worker?, Option.some.injEq, reduceCtorEq] at hl
  · exact h.1.wLoop _ _ hs
  · exact h.1.wDecode _ _ _ _ hs
  · exact h.1.wPublish _ hs
  · exact h.1.wFin1 _ hs
  · exact h.1.wFin2 _ hs
  · exact h.1.wFin3 _ hs
  · exact h.1.wCleanup _ hs

end XzVerif.MtDec
