/-
  The whole-input functions of the raw decoder models through the checked accessors: `lzmaDecode`, `lzma2Decode`,
  `rawDecode`, and sequences of `Coder.code` calls. On every input the checked function returns `some` of what the
  executable function returns: no array access of the run is out of bounds and no totalised default is taken.
-/
import XzVerif.Lemmas.C04CheckedL2

namespace XzVerif.Lzma2
open XzVerif.RangeDec XzVerif.LzDict XzVerif.Lzma

/-- the access invariant of a coder, whichever kind -/
def Coder.Acc (c : Coder) : Prop := c.Acc1 ∨ c.Acc2

/-- every coder that `lzma_raw_decoder_init` produces satisfies the access invariant (invalid lc/lp/pb are refused there) -/
theorem LastFilter.init_acc (last : LastFilter) (input : ByteArray) (c : Coder) (h : last.init input = .ok c) : c.Acc := by
  cases last with
  | lzma1 props d p =>
    simp only [LastFilter.init] at h
    split at h
    · cases h
    · next hv =>
      injection h with h; subst h
      exact Or.inl (Coder.acc1_init props (by simpa using hv) _ _ _ _ _)
  | lzma1ext props d p f e =>
    simp only [LastFilter.init] at h
    split at h
    · cases h
    · next hv =>
      split at h
      · cases h
      · injection h with h; subst h
        exact Or.inl (Coder.acc1_init props (by simpa using hv) _ _ _ _ _)
  | lzma2 d p =>
    simp only [LastFilter.init] at h
    injection h with h; subst h
    exact Or.inr (Coder.acc2_init _ _ _)

/-- ONE CALL of `code` on a coder satisfying the access invariant: checked = executable; the invariant holds afterwards
    unless an LZMA1 coder returned LZMA_STREAM_END (it is never called again then) -/
theorem Coder.code_acc (c : Coder) (outCap : Nat) (h : c.Acc) :
    c.codeC outCap = some (c.code outCap) ∧ ((c.code outCap).1 ≠ .streamEnd → (c.code outCap).2.Acc) := by
  rcases h with h | h
  · have := Coder.code_acc1 c outCap h
    exact ⟨this.1, fun hne => Or.inl (this.2 hne)⟩
  · have := Coder.code_acc2 c outCap h
    exact ⟨this.1, fun _ => Or.inr this.2⟩

/-- no call before the last one of the list returned LZMA_STREAM_END -/
def callsNoEnd (c : Coder) : List Nat → Prop
  | [] => True
  | cap :: rest => (c.code cap).1 ≠ .streamEnd ∧ callsNoEnd (c.code cap).2 rest

theorem Coder.acc_calls : ∀ (calls : List Nat) (c : Coder), c.Acc → callsNoEnd c calls →
    (calls.foldl (fun (c : Coder) cap => (c.code cap).2) c).Acc
  | [], _, h, _ => h
  | cap :: rest, c, h, hn => Coder.acc_calls rest _ ((Coder.code_acc c cap h).2 hn.1) hn.2

/-- LZMA1 with valid lc/lp/pb, any dictionary size / uncompressed size / preset dictionary / input / output limit -/
theorem lzmaDecode_checked (props : Props) (hv : props.valid = true) (dictSize : Nat) (uncompSize : Option Nat)
    (allowEopm : Bool) (input presetDict : List UInt8) (outCap : Nat) :
    lzmaDecodeC props dictSize uncompSize allowEopm input presetDict outCap
      = some (lzmaDecode props dictSize uncompSize allowEopm input presetDict outCap) := by
  have h := (Coder.acc1_init props hv dictSize uncompSize allowEopm presetDict (ByteArray.mk input.toArray)).2
  have hd := decodeBuffer_acc1
    (decodeBufferFuel (St.initLzma1 props dictSize uncompSize (allowEopm || uncompSize.isNone) presetDict
      (ByteArray.mk input.toArray)) outCap) outCap _ h
  unfold lzmaDecodeC lzmaDecode
  simp only []
  rw [show (Coder.initLzma1 props dictSize uncompSize allowEopm presetDict (ByteArray.mk input.toArray)).s
      = St.initLzma1 props dictSize uncompSize (allowEopm || uncompSize.isNone) presetDict (ByteArray.mk input.toArray)
      from rfl] at hd
  rw [hd.1]
  rfl

/-- LZMA2, any dictionary size / preset dictionary / input / output limit -/
theorem lzma2Decode_checked (dictSize : Nat) (input presetDict : List UInt8) (outCap : Nat) :
    lzma2DecodeC dictSize input presetDict outCap = some (lzma2Decode dictSize input presetDict outCap) := by
  have h := Coder.code_acc2 (Coder.initLzma2 dictSize presetDict (ByteArray.mk input.toArray)) outCap
    (Coder.acc2_init _ _ _)
  unfold lzma2DecodeC lzma2Decode
  simp only []
  rw [h.1]
  rfl

/-- `lzma_raw_decoder` + one `lzma_code`, any chain -/
theorem rawDecode_checked (ch : Chain) (input : List UInt8) (outCap : Nat) :
    rawDecodeC ch input outCap = some (rawDecode ch input outCap) := by
  unfold rawDecodeC rawDecode
  cases hi : ch.last.init (ByteArray.mk input.toArray) with
  | error r => rfl
  | ok c =>
    simp only []
    rw [(Coder.code_acc c outCap (LastFilter.init_acc _ _ c hi)).1]
    rfl

/-- an LZMA2 coder after ANY sequence of calls: the next call is access-safe too -/
theorem lzma2_calls_checked (dictSize : Nat) (preset : List UInt8) (input : ByteArray) (calls : List Nat) (cap : Nat) :
    let c := calls.foldl (fun (c : Coder) cap => (c.code cap).2) (Coder.initLzma2 dictSize preset input)
    c.codeC cap = some (c.code cap) := by
  intro c
  exact (Coder.code_acc2 c cap (Coder.acc2_calls calls _ (Coder.acc2_init dictSize preset input))).1

/-- any coder from `lzma_raw_decoder_init` after any sequence of calls none of which returned LZMA_STREAM_END -/
theorem raw_calls_checked (last : LastFilter) (input : ByteArray) (c0 : Coder) (h : last.init input = .ok c0)
    (calls : List Nat) (hn : callsNoEnd c0 calls) (cap : Nat) :
    let c := calls.foldl (fun (c : Coder) cap => (c.code cap).2) c0
    c.codeC cap = some (c.code cap) := by
  intro c
  exact (Coder.code_acc c cap (Coder.acc_calls calls c0 (LastFilter.init_acc last input c0 h) hn)).1

/-! ### the instrumentation is live: without the invariant the checked functions do report `oob` -/

/-- a probability read before any `lzma_decoder_reset` (empty array, as in a fresh LZMA2 coder) is reported -/
example : ∃ s', rcBitC M_IS_MATCH 0 (initLzma2 4096 [] (ByteArray.mk #[])) = .error .oob s' := ⟨_, rfl⟩
/-- an index INSIDE the flat model array but outside the member it is meant for is reported too: `is_match[12][0]`
    (= flat index 192 = `is_rep[0]`) after `lzma_decoder_reset`, whereas the same index is accepted for `is_rep` -/
example : (match rcBitC M_IS_MATCH P_IS_REP ((initLzma2 4096 [] (ByteArray.mk #[])).resetLzma { lc := 0, lp := 0, pb := 0 }) with
           | .error .oob _ => true | _ => false) = true
    ∧ (match rcBitC M_IS_REP P_IS_REP ((initLzma2 4096 [] (ByteArray.mk #[])).resetLzma { lc := 0, lp := 0, pb := 0 }) with
           | .ok _ _ => true | _ => false) = true := by
  decide +kernel
/-- `dict_get` on an empty dictionary is reported -/
example : dictGetC (initLzma2 4096 [] (ByteArray.mk #[])) 0 = none := by decide
/-- a symbol decode from the fresh LZMA2 state (no properties seen yet) is reported, whereas the executable model reads
    the default probability 0 and goes on -/
example : ∃ s', decodeSymbolC false (initLzma2 4096 [] (ByteArray.mk #[0, 0, 0, 0, 0, 0, 0, 0])) = .error .oob s' := ⟨_, rfl⟩

end XzVerif.Lzma2
