/-
  C01, MicroLZMA: `rc_encode_dummy` is exact. The dummy run reads the probabilities without updating them; since the
  operations queued for ONE symbol never use the same probability variable twice, it performs exactly the arithmetic of the
  real `rc_encode` of these operations followed by `rc_flush`, and its byte counter is the number of bytes the real run
  writes. Hence: if `rc_encode_dummy(rc, out_limit)` returns false, encoding the symbol and flushing gives at most
  `out_limit` bytes.
-/
import XzVerif.Lemmas.Lzma2EncExec

namespace XzVerif.LzmaExec
open XzVerif.RangeDec XzVerif.RangeEnc XzVerif.RangeCoder XzVerif.LzDict XzVerif.Lzma XzVerif.LzmaEnc XzVerif.LzmaSymDec
open XzVerif.LzmaSym XzVerif.LzmaSpec

/-! ### the dummy run follows the real encoder -/

/-- the dummy state mirrors the encoder state (`range` is irrelevant for `rc_shift_low`) -/
structure DRel (d : Dummy) (e : Enc) : Prop where
  low : d.low = e.low
  cs : d.cacheSize = e.cacheSize
  cache : d.cache = e.cache
  out : d.outPos = e.outTotal

theorem dummyEmit_spec (L : Nat) : ∀ (n op op' : Nat), op ≤ L → dummyEmit L n op = some op' → op' = op + n ∧ op' ≤ L
  | 0, op, op', hle, h => by
    simp only [dummyEmit, Option.some.injEq] at h
    exact ⟨by omega, by omega⟩
  | n + 1, op, op', hle, h => by
    simp only [dummyEmit] at h
    split at h
    · cases h
    · rename_i hne
      obtain ⟨h1, h2⟩ := dummyEmit_spec L n (op + 1) op' (by omega) h
      exact ⟨by omega, h2⟩

theorem shiftLowDummy_spec {L : Nat} {d d' : Dummy} {e : Enc} (hr : DRel d e) (_hcs : 1 ≤ e.cacheSize) (hle : d.outPos ≤ L)
    (h : shiftLowDummy L d = some d') :
    DRel d' (shiftLow e) ∧ d'.range = d.range ∧ d'.outPos ≤ L := by
  obtain ⟨hl, hc, hca, ho⟩ := hr
  unfold shiftLowDummy at h
  by_cases hcond : e.low % U32 < 0xFF000000 ∨ (e.low / U32) % U32 ≠ 0
  · rw [if_pos (by rw [hl]; exact hcond)] at h
    cases hem : dummyEmit L d.cacheSize d.outPos with
    | none => rw [hem] at h; cases h
    | some op =>
      rw [hem] at h
      simp only [Option.some.injEq] at h
      obtain ⟨h1, h2⟩ := dummyEmit_spec L _ _ _ hle hem
      rw [shiftLow_pos hcond, ← h]
      exact ⟨⟨by simp only [hl], rfl, by simp only [hl], by simp only []; omega⟩, rfl, h2⟩
  · rw [if_neg (by rw [hl]; exact hcond)] at h
    simp only [Option.some.injEq] at h
    rw [shiftLow_neg hcond, ← h]
    exact ⟨⟨by simp only [hl], by simp only [hc], hca, ho⟩, rfl, hle⟩

theorem normalizeDummy_spec {L : Nat} {d d' : Dummy} {e : Enc} (hr : DRel d e) (hrg : d.range = e.range)
    (hcs : 1 ≤ e.cacheSize) (hle : d.outPos ≤ L) (h : normalizeDummy L d = some d') :
    DRel d' (normalize e) ∧ d'.range = (normalize e).range ∧ d'.outPos ≤ L := by
  unfold normalizeDummy at h
  unfold normalize
  by_cases hlt : e.range < RC_TOP_VALUE
  · rw [if_pos (by rw [hrg]; exact hlt)] at h
    rw [if_pos hlt]
    cases hs : shiftLowDummy L d with
    | none => rw [hs] at h; cases h
    | some d1 =>
      rw [hs] at h
      simp only [Option.some.injEq] at h
      obtain ⟨hr1, hrg1, hle1⟩ := shiftLowDummy_spec hr hcs hle hs
      rw [← h]
      have hsr : (shiftLow e).range = e.range := by
        unfold shiftLow; split <;> rfl
      exact ⟨⟨hr1.low, hr1.cs, hr1.cache, hr1.out⟩, by simp only [hrg1, hrg, hsr], hle1⟩
  · rw [if_neg (by rw [hrg]; exact hlt)] at h
    rw [if_neg hlt]
    simp only [Option.some.injEq] at h
    rw [← h]; exact ⟨hr, hrg, hle⟩

/-- the probability contexts of an operation list -/
def ctxs : List Op → List Nat
  | [] => []
  | .bit c _ :: ops => c :: ctxs ops
  | .direct _ :: ops => ctxs ops

theorem normalize_cs {e : Enc} (h : 1 ≤ e.cacheSize) : 1 ≤ (normalize e).cacheSize := by
  unfold normalize
  split
  · exact (shiftLow_T h).2.1
  · exact h

/-- the operations of the dummy run, with probabilities that agree with the real ones on every context still to come -/
theorem dummyOps_spec (L : Nat) (ps : Probs) : ∀ (ops : List Op) (d d' : Dummy) (e : Enc) (psCur : Probs),
    DRel d e → d.range = e.range → 1 ≤ e.cacheSize → d.outPos ≤ L → (∀ c ∈ ctxs ops, psCur.getD c 0 = ps.getD c 0) →
    (ctxs ops).Nodup → dummyOps L ps d ops = some d' →
    DRel d' (normalize (encOps psCur e ops).2) ∧ d'.range = (normalize (encOps psCur e ops).2).range ∧
      1 ≤ (normalize (encOps psCur e ops).2).cacheSize ∧ d'.outPos ≤ L
  | [], d, d', e, psCur, hr, hrg, hcs, hle, _, _, h => by
    simp only [dummyOps] at h
    obtain ⟨h1, h2, h3⟩ := normalizeDummy_spec hr hrg hcs hle h
    exact ⟨h1, h2, normalize_cs hcs, h3⟩
  | op :: ops, d, d', e, psCur, hr, hrg, hcs, hle, hps, hnd, h => by
    simp only [dummyOps] at h
    cases hn : normalizeDummy L d with
    | none => rw [hn] at h; cases h
    | some d1 =>
      rw [hn] at h
      obtain ⟨hr1, hrg1, hle1⟩ := normalizeDummy_spec hr hrg hcs hle hn
      have hcs1 := normalize_cs hcs
      cases op with
      | bit c b =>
        simp only [ctxs, List.nodup_cons] at hnd
        have hpc : psCur.getD c 0 = ps.getD c 0 := hps c (by simp [ctxs])
        have hps' : ∀ c' ∈ ctxs ops, (psCur.setIfInBounds c (probUpdate (psCur.getD c 0) b)).getD c' 0 = ps.getD c' 0 := by
          intro c' hc'
          rw [getD_set]
          have hne : c ≠ c' := fun heq => hnd.1 (heq ▸ hc')
          simp only [hne, false_and, if_false]
          exact hps c' (by simp [ctxs, hc'])
        have henc : encOps psCur e (.bit c b :: ops)
            = encOps (psCur.setIfInBounds c (probUpdate (psCur.getD c 0) b)) (encBit e (psCur.getD c 0) b) ops := by
          simp only [encOps, List.foldl_cons, encOp]
        rw [henc]
        cases b with
        | false =>
          simp only [] at h
          refine dummyOps_spec L ps ops _ d' _ _ ?_ ?_ ?_ ?_ hps' hnd.2 h
          · rw [encBit_false]; exact ⟨hr1.low, hr1.cs, hr1.cache, hr1.out⟩
          · rw [encBit_false]; simp only [hrg1, hpc]
          · rw [encBit_false]; exact hcs1
          · exact hle1
        | true =>
          simp only [] at h
          refine dummyOps_spec L ps ops _ d' _ _ ?_ ?_ ?_ ?_ hps' hnd.2 h
          · rw [encBit_true]; exact ⟨by simp only [hr1.low, hrg1, hpc], hr1.cs, hr1.cache, hr1.out⟩
          · rw [encBit_true]; simp only [hrg1, hpc]
          · rw [encBit_true]; exact hcs1
          · exact hle1
      | direct b =>
        have henc : encOps psCur e (.direct b :: ops) = encOps psCur (encDirect e b) ops := by
          simp only [encOps, List.foldl_cons, encOp]
        rw [henc]
        have hps' : ∀ c' ∈ ctxs ops, psCur.getD c' 0 = ps.getD c' 0 := fun c' hc' => hps c' (by simpa [ctxs] using hc')
        have hnd' : (ctxs ops).Nodup := by simpa [ctxs] using hnd
        cases b with
        | false =>
          simp only [] at h
          refine dummyOps_spec L ps ops _ d' _ _ ?_ ?_ ?_ ?_ hps' hnd' h
          · rw [encDirect_false]; exact ⟨hr1.low, hr1.cs, hr1.cache, hr1.out⟩
          · rw [encDirect_false]; simp only [hrg1]
          · rw [encDirect_false]; exact hcs1
          · exact hle1
        | true =>
          simp only [] at h
          refine dummyOps_spec L ps ops _ d' _ _ ?_ ?_ ?_ ?_ hps' hnd' h
          · rw [encDirect_true]; exact ⟨by simp only [hr1.low, hrg1], hr1.cs, hr1.cache, hr1.out⟩
          · rw [encDirect_true]; simp only [hrg1]
          · rw [encDirect_true]; exact hcs1
          · exact hle1

theorem shiftLow_total_mono (e : Enc) : e.outTotal ≤ (shiftLow e).outTotal := by
  unfold shiftLow; split
  · simp only []; omega
  · exact Nat.le_refl _

theorem normalize_total_mono (e : Enc) : e.outTotal ≤ (normalize e).outTotal := by
  unfold normalize; split
  · exact shiftLow_total_mono e
  · exact Nat.le_refl _

/-- `rc_encode_dummy` returned false: the symbol and the flush fit into `L` bytes -/
theorem encodeDummy_fits (ps : Probs) (e : Enc) (ops : List Op) (L : Nat) (hok : OutOk2 e) (hle : e.outTotal ≤ L)
    (hnd : (ctxs ops).Nodup) (h : encodeDummy ps e ops L = false) :
    (encFlush (encOps ps e ops).2).out.length ≤ L ∧ (encOps ps e ops).2.outTotal ≤ L := by
  unfold encodeDummy at h
  cases hd : dummyOps L ps { low := e.low, cacheSize := e.cacheSize, range := e.range, cache := e.cache, outPos := e.outTotal } ops with
  | none => rw [hd] at h; cases h
  | some d0 =>
    rw [hd] at h
    simp only [] at h
    obtain ⟨hr0, _, hcs0, hle0⟩ := dummyOps_spec L ps ops _ d0 e ps ⟨rfl, rfl, rfl, rfl⟩ rfl hok.2 hle (fun _ _ => rfl) hnd hd
    generalize he' : (encOps ps e ops).2 = e' at *
    have hok' : OutOk2 e' := by rw [← he']; exact outOk2_encOps ops ps e hok
    -- the five flush shifts
    generalize hf0 : ({ normalize e' with range := UINT32_MAX } : Enc) = f0
    have hrf0 : DRel d0 f0 := by rw [← hf0]; exact ⟨hr0.low, hr0.cs, hr0.cache, hr0.out⟩
    have hcf0 : 1 ≤ f0.cacheSize := by rw [← hf0]; exact hcs0
    cases h1 : shiftLowDummy L d0 with
    | none => rw [h1] at h; cases h
    | some d1 =>
      rw [h1] at h
      simp only [] at h
      obtain ⟨r1, _, l1⟩ := shiftLowDummy_spec hrf0 hcf0 hle0 h1
      have c1 := (shiftLow_T hcf0).2.1
      cases h2 : shiftLowDummy L d1 with
      | none => rw [h2] at h; cases h
      | some d2 =>
        rw [h2] at h
        simp only [] at h
        obtain ⟨r2, _, l2⟩ := shiftLowDummy_spec r1 c1 l1 h2
        have c2 := (shiftLow_T c1).2.1
        cases h3 : shiftLowDummy L d2 with
        | none => rw [h3] at h; cases h
        | some d3 =>
          rw [h3] at h
          simp only [] at h
          obtain ⟨r3, _, l3⟩ := shiftLowDummy_spec r2 c2 l2 h3
          have c3 := (shiftLow_T c2).2.1
          cases h4 : shiftLowDummy L d3 with
          | none => rw [h4] at h; cases h
          | some d4 =>
            rw [h4] at h
            simp only [] at h
            obtain ⟨r4, _, l4⟩ := shiftLowDummy_spec r3 c3 l3 h4
            have c4 := (shiftLow_T c3).2.1
            cases h5 : shiftLowDummy L d4 with
            | none => rw [h5] at h; cases h
            | some d5 =>
              obtain ⟨r5, _, l5⟩ := shiftLowDummy_spec r4 c4 l4 h5
              have hfl : encFlush e' = shiftLow (shiftLow (shiftLow (shiftLow (shiftLow f0)))) := by rw [← hf0]; rfl
              refine ⟨?_, ?_⟩
              · rw [← flush_total hok', hfl, ← r5.out]; exact l5
              · have := normalize_total_mono e'
                have h0 := hr0.out
                omega

end XzVerif.LzmaExec
