/-
  `simple_code()` behind a real next coder (the configuration of every BCJ *decoder*: `next.code != NULL`, e.g. the LZMA2 decoder):
  for ANY next coder that is a byte machine, `simple_code()` ∘ next is slicing independent.
  `simple_code()` calls the next coder with the caller's input but with its own output windows (the rest of `out[]`, then the rest of
  `coder->buffer[]`), i.e. it re-slices the next coder's output; the byte machine's trace does not depend on that (Lemmas/Coder.lean),
  and the filter's prefix stability (Lemmas/CoderSimple.lean) does the rest.
  Model limitation (Model/CoderSmall.lean `Src`): an error return of the next coder is not represented — `copy_or_code()` passes it on
  at once, leaving unfiltered bytes in `out[]`; the theorems here are about next coders that finish with `LZMA_STREAM_END`.
-/
import XzVerif.Lemmas.Coder
import XzVerif.Lemmas.CoderSimple

namespace XzVerif.Coder

variable {φ μ : Type}

/-- A byte machine as the next coder of `simple_code()`: one `next.code()` call = `exec`; `LZMA_STREAM_END` sets `end_was_reached`. -/
def machineSrc (m : ByteMachine μ) : Src (μ × Bool) where
  pull st inp cap finish :=
    ((m.exec finish st.1 st.2 inp cap).1, (m.exec finish st.1 st.2 inp cap).2.out, (m.exec finish st.1 st.2 inp cap).2.consumed,
      (m.exec finish st.1 st.2 inp cap).2.ret == .streamEnd)

/-- "in machine state `st` the bytes `D` have been written and `rest` is unread" -/
def MachG (m : ByteMachine μ) (fin : Bool) (s₀ : μ) (input : List UInt8) : μ × Bool → List UInt8 → List UInt8 → Prop :=
  fun st D rest => Reach m fin s₀ false input D st.1 st.2 rest

/-- the next coder has returned `LZMA_STREAM_END` -/
def MachE (m : ByteMachine μ) : μ × Bool → Prop := fun st => m.step st.1 = .done .streamEnd

theorem retOf_streamEnd {m : ByteMachine μ} {st : μ} (h : m.retOf st = .streamEnd) : m.step st = .done .streamEnd := by
  unfold ByteMachine.retOf at h
  split at h
  · rename_i r hs; rw [hs, h]
  · cases h

/-- `X` is the total output of the machine on this input if it ever finishes. -/
def TotalOut (m : ByteMachine μ) (fin : Bool) (s₀ : μ) (input X : List UInt8) : Prop :=
  ∀ D st eof rest, Reach m fin s₀ false input D st eof rest → m.step st = .done .streamEnd → D = X

theorem machLaw (m : ByteMachine μ) (fin : Bool) (s₀ : μ) (input X : List UInt8) (hX : TotalOut m fin s₀ input X) :
    SrcLaw (machineSrc m) fin X (MachG m fin s₀ input) (MachE m) := by
  constructor
  intro n D inp tail cap finish hG hfin
  have hs := exec_spec m fin finish n.1 n.2 inp cap tail hfin
  obtain ⟨h1, h2, _, h4, _⟩ := hs
  refine ⟨h2, ?_, fun he => ?_⟩
  · exact Reach.trans hG h1
  · have hr : (m.exec finish n.1 n.2 inp cap).2.ret = .streamEnd := by
      simpa [machineSrc] using he
    rw [h4] at hr
    have hd := retOf_streamEnd hr
    exact ⟨hX _ _ _ _ (Reach.trans hG h1) hd, hd⟩

/-- A total output always exists (classically): the output at the `LZMA_STREAM_END` state if one is reachable — it is unique
    because the trace is linear — and anything otherwise. It obeys every bound that all reachable outputs obey. -/
theorem totalOut_exists (m : ByteMachine μ) (fin : Bool) (s₀ : μ) (input : List UInt8) (lim : Nat)
    (hb : ∀ D st eof rest, Reach m fin s₀ false input D st eof rest → D.length < lim) :
    ∃ X, TotalOut m fin s₀ input X ∧ X.length < lim := by
  by_cases h : ∃ D st eof rest, Reach m fin s₀ false input D st eof rest ∧ m.step st = .done .streamEnd
  · obtain ⟨D, st, eof, rest, hr, hd⟩ := h
    refine ⟨D, fun D' st' eof' rest' hr' hd' => ?_, hb D st eof rest hr⟩
    exact (hr'.quiescent_unique hr (Or.inl ⟨_, hd'⟩) (Or.inl ⟨_, hd⟩)).1
  · exact ⟨[], fun D st eof rest hr hd => absurd ⟨D, st, eof, rest, hr, hd⟩ h, hb [] s₀ false input (Reach.refl _ _ _)⟩

/-- If the machine comes to rest (finished, or starved of input for good) having written `X`, everything it can have written before is a
    prefix of `X` — so `|X| < lim` discharges the bound `hb` below. -/
theorem reach_prefix_of_quiescent {m : ByteMachine μ} {fin : Bool} {a : μ} {ea : Bool} {ra X : List UInt8} {b : μ} {eb : Bool}
    {rb : List UInt8} (hq : Reach m fin a ea ra X b eb rb) (q : Quiescent m fin b eb rb) {D : List UInt8} {c : μ} {ec : Bool}
    {rc : List UInt8} (h : Reach m fin a ea ra D c ec rc) : ∃ o, X = D ++ o := by
  rcases h.linear hq with ⟨o', _, he⟩ | ⟨o', hr, he⟩
  · exact ⟨o', he⟩
  · obtain ⟨h0, _⟩ := q.reach_eq hr
    subst h0
    exact ⟨[], by simpa using he.symm⟩

theorem bound_of_quiescent {m : ByteMachine μ} {fin : Bool} {s₀ : μ} {input X : List UInt8} {b : μ} {eb : Bool} {rb : List UInt8}
    (hq : Reach m fin s₀ false input X b eb rb) (q : Quiescent m fin b eb rb) (lim : Nat) (hl : X.length < lim) :
    ∀ D st eof rest, Reach m fin s₀ false input D st eof rest → D.length < lim := by
  intro D st eof rest h
  obtain ⟨o, ho⟩ := reach_prefix_of_quiescent hq q h
  have := congrArg List.length ho
  simp only [List.length_append] at this
  omega

/-- **`simple_code()` behind a byte-machine next coder, any slicing.** `hb`: the next coder writes fewer than `lim` bytes on this input
    (`lim` = the length limit of the filter's prefix stability; only x86 has one). Then after any slicing: the next coder is at a point
    `D` of its one trace; what `simple_code()` has written is a prefix of the filter applied to `D`; the return code is `LZMA_OK` or
    `LZMA_STREAM_END`; and at `LZMA_STREAM_END` the next coder has finished with `LZMA_STREAM_END`, and the output is the filter
    applied once to everything the next coder wrote. -/
theorem simple_behind_machine {F : Filter φ} {umax lim : Nat} (hc : BcjContract F umax lim) (m : ByteMachine μ) (s₀ : μ)
    (input : List UInt8) (fin : Bool) (allocated : Nat) (φ₀ : φ) (sl : List (Nat × Nat))
    (hb : ∀ D st eof rest, Reach m fin s₀ false input D st eof rest → D.length < lim) :
    let R := runSliced (simpleCoder F (machineSrc m) allocated) fin sl (Run.init (Simple.init φ₀ (s₀, false)) input)
    (∃ D, Reach m fin s₀ false input D R.state.next.1 R.state.next.2 R.rest ∧ ∃ o, (F φ₀ D).1 = R.out ++ o)
      ∧ R.consumed + R.rest.length = input.length
      ∧ (R.ret = .streamEnd → ∃ Xf, Reach m fin s₀ false input Xf R.state.next.1 R.state.next.2 R.rest
            ∧ m.step R.state.next.1 = .done .streamEnd ∧ R.out = (F φ₀ Xf).1)
      ∧ (R.ret = .ok ∨ R.ret = .streamEnd) := by
  intro R
  obtain ⟨X, hX, hXl⟩ := totalOut_exists m fin s₀ input lim hb
  have inv : SRunInv F lim φ₀ X (MachG m fin s₀ input) (MachE m) input.length R :=
    (SRunInv.init F lim φ₀ X (MachG m fin s₀ input) (MachE m) input hXl (s₀, false) (Reach.refl _ _ _)).sliced hc
      (machLaw m fin s₀ input X hX) allocated sl
  obtain ⟨⟨D, hG, hpre⟩, hend⟩ := inv.result
  refine ⟨⟨D, hG, hpre (hb D _ _ _ hG)⟩, inv.len, fun hr => ?_, ?_⟩
  · obtain ⟨e1, e2, e3⟩ := hend hr
    exact ⟨X, e2, e3, e1⟩
  · by_cases hr : R.ret = .ok
    · exact Or.inl hr
    · exact Or.inr (inv.retEnd hr).1

/-- Two slicings of `simple_code()` ∘ next that both reach `LZMA_STREAM_END` have written the same bytes and consumed the same input. -/
theorem simple_behind_machine_two {F : Filter φ} {umax lim : Nat} (hc : BcjContract F umax lim) (m : ByteMachine μ) (s₀ : μ)
    (input : List UInt8) (fin : Bool) (allocated : Nat) (φ₀ : φ) (sl₁ sl₂ : List (Nat × Nat))
    (hb : ∀ D st eof rest, Reach m fin s₀ false input D st eof rest → D.length < lim) :
    let R₁ := runSliced (simpleCoder F (machineSrc m) allocated) fin sl₁ (Run.init (Simple.init φ₀ (s₀, false)) input)
    let R₂ := runSliced (simpleCoder F (machineSrc m) allocated) fin sl₂ (Run.init (Simple.init φ₀ (s₀, false)) input)
    R₁.ret = .streamEnd → R₂.ret = .streamEnd → R₁.out = R₂.out ∧ R₁.consumed = R₂.consumed := by
  intro R₁ R₂ h₁ h₂
  obtain ⟨_, l₁, e₁, _⟩ := simple_behind_machine hc m s₀ input fin allocated φ₀ sl₁ hb
  obtain ⟨_, l₂, e₂, _⟩ := simple_behind_machine hc m s₀ input fin allocated φ₀ sl₂ hb
  obtain ⟨X₁, r₁, d₁, o₁⟩ := e₁ h₁
  obtain ⟨X₂, r₂, d₂, o₂⟩ := e₂ h₂
  obtain ⟨hx, _, _, hrest⟩ := r₁.quiescent_unique r₂ (Or.inl ⟨_, d₁⟩) (Or.inl ⟨_, d₂⟩)
  refine ⟨by rw [o₁, o₂, hx], ?_⟩
  have l₁' : R₁.consumed + R₁.rest.length = input.length := l₁
  have l₂' : R₂.consumed + R₂.rest.length = input.length := l₂
  have : R₁.rest = R₂.rest := hrest
  rw [this] at l₁'
  omega

end XzVerif.Coder
