/-
  C01, executable decoder ↔ specification decoder, part 6: one symbol incl. its output step.
  `Sim`: the decoder state is in step with the specification (same lc/lp/pb, state and rep registers, window, position
  modulo 16 up to the shift `k`). `PendOk`: what an outstanding output step (`Pending`) still has to do to the window.
  `doWrite_ok` / `doWrite_full`: the output step either completes or fills the dictionary up to `dict.limit` and stays
  pending with the rest. `sym_step`: `decodeSymbol` on a symbol of a valid description decodes it through the channel.
-/
import XzVerif.Lemmas.Lzma1ExecWin

namespace XzVerif.LzmaExec
open XzVerif.RangeDec XzVerif.RangeEnc XzVerif.RangeCoder XzVerif.LzDict XzVerif.Lzma XzVerif.LzmaEnc XzVerif.LzmaSymDec
open XzVerif.LzmaSym XzVerif.LzmaSpec

structure Sim (p : Props) (dictSize k : Nat) (s : St) (pos : Nat) (st : SymSt) (rb : List UInt8) : Prop where
  lc : s.lc = p.lc
  lp : s.lp = p.lp
  pb : s.pb = p.pb
  stOk : StOk s st
  stlt : st.state < 12
  win : Win s rb dictSize
  hk : s.dp.pos % 16 = (pos + k) % 16

/-- after a match-type symbol `rep0` points into the history (so the match byte of the next literal is the same on both sides) -/
def RepOk (s : St) (st : SymSt) : Prop := isLiteralState st.state = false → st.rep0 < s.hist.size

/-- everything except the dictionary position / history -/
structure Same (s t : St) : Prop where
  inp : t.inp = s.inp
  inPos : t.inPos = s.inPos
  range : t.range = s.range
  code : t.code = s.code
  initLeft : t.initLeft = s.initLeft
  probs : t.probs = s.probs
  uncomp : t.uncomp = s.uncomp
  allowEopm : t.allowEopm = s.allowEopm
  eopmValid : t.eopmValid = s.eopmValid
  outBase : t.outBase = s.outBase
  l2 : t.l2 = s.l2
  limit : t.dp.limit = s.dp.limit
  size : t.dp.size = s.dp.size
  needReset : t.dp.needReset = s.dp.needReset
  grow : s.hist.size ≤ t.hist.size
  histpos : t.hist.size + s.dp.pos = s.hist.size + t.dp.pos

theorem Same.refl (s : St) : Same s s := ⟨rfl, rfl, rfl, rfl, rfl, rfl, rfl, rfl, rfl, rfl, rfl, rfl, rfl, rfl, Nat.le_refl _, rfl⟩

theorem Same.trans {a b c : St} (h1 : Same a b) (h2 : Same b c) : Same a c :=
  ⟨h2.inp.trans h1.inp, h2.inPos.trans h1.inPos, h2.range.trans h1.range, h2.code.trans h1.code,
   h2.initLeft.trans h1.initLeft, h2.probs.trans h1.probs, h2.uncomp.trans h1.uncomp, h2.allowEopm.trans h1.allowEopm,
   h2.eopmValid.trans h1.eopmValid, h2.outBase.trans h1.outBase, h2.l2.trans h1.l2, h2.limit.trans h1.limit,
   h2.size.trans h1.size, h2.needReset.trans h1.needReset, Nat.le_trans h1.grow h2.grow,
   by have := h1.histpos; have := h2.histpos; omega⟩

/-- what a whole call leaves alone -/
structure Keep (s t : St) : Prop where
  inp : t.inp = s.inp
  initLeft : t.initLeft = s.initLeft
  uncomp : t.uncomp = s.uncomp
  allowEopm : t.allowEopm = s.allowEopm
  eopmValid : t.eopmValid = s.eopmValid
  outBase : t.outBase = s.outBase
  l2 : t.l2 = s.l2
  limit : t.dp.limit = s.dp.limit
  size : t.dp.size = s.dp.size
  needReset : t.dp.needReset = s.dp.needReset
  grow : s.hist.size ≤ t.hist.size
  histpos : t.hist.size + s.dp.pos = s.hist.size + t.dp.pos
  inPosMono : s.inPos ≤ t.inPos

theorem Keep.refl (s : St) : Keep s s := ⟨rfl, rfl, rfl, rfl, rfl, rfl, rfl, rfl, rfl, rfl, Nat.le_refl _, rfl, Nat.le_refl _⟩

theorem Keep.trans {a b c : St} (h1 : Keep a b) (h2 : Keep b c) : Keep a c :=
  ⟨h2.inp.trans h1.inp, h2.initLeft.trans h1.initLeft, h2.uncomp.trans h1.uncomp, h2.allowEopm.trans h1.allowEopm,
   h2.eopmValid.trans h1.eopmValid, h2.outBase.trans h1.outBase, h2.l2.trans h1.l2, h2.limit.trans h1.limit,
   h2.size.trans h1.size, h2.needReset.trans h1.needReset, Nat.le_trans h1.grow h2.grow,
   (by have := h1.histpos; have := h2.histpos; omega), Nat.le_trans h1.inPosMono h2.inPosMono⟩

theorem Same.keep {s t : St} (h : Same s t) : Keep s t :=
  ⟨h.inp, h.initLeft, h.uncomp, h.allowEopm, h.eopmValid, h.outBase, h.l2, h.limit, h.size, h.needReset, h.grow, h.histpos,
   Nat.le_of_eq h.inPos.symm⟩

/-- a decode step: only range-coder fields and state/reps change -/
theorem keep_setSt_rcSet (s : St) (ps : Probs) (rc : Rc) (n : Nat) (st : SymSt) (hle : s.inPos ≤ s.inp.size - n) :
    Keep s (setSt (rcSet s ps rc n) st) :=
  ⟨rfl, rfl, rfl, rfl, rfl, rfl, rfl, rfl, rfl, rfl, Nat.le_refl _, rfl, hle⟩

theorem keep_rcSet (s : St) (ps : Probs) (rc : Rc) (n : Nat) (hle : s.inPos ≤ s.inp.size - n) : Keep s (rcSet s ps rc n) :=
  ⟨rfl, rfl, rfl, rfl, rfl, rfl, rfl, rfl, rfl, rfl, Nat.le_refl _, rfl, hle⟩

/-- the cursor position after consuming a prefix of the unread input -/
theorem view_le {s : St} {ps : Probs} {rc : Rc} {rest pre rest' : List UInt8} (hv : View s ps rc rest)
    (h : rest = pre ++ rest') : s.inPos ≤ s.inp.size - rest'.length := by
  have := hv.pos
  rw [h, List.length_append] at this
  omega

theorem Same.view {s t : St} (h : Same s t) {ps : Probs} {rc : Rc} {rest : List UInt8} (hv : View s ps rc rest) :
    View t ps rc rest := hv.congr h.probs h.range h.code h.inPos h.inp

/-- what the outstanding output step `pend` still does: `m` bytes, turning the window `rb` into `rb'` -/
def PendOk (s : St) (st : SymSt) (rb : List UInt8) (pend : Pending) (m : Nat) (rb' : List UInt8) : Prop :=
  match pend with
  | .none => m = 0 ∧ rb' = rb
  | .litWrite n => m = 1 ∧ rb' = UInt8.ofNat n :: rb
  | .shortRep => m = 1 ∧ st.rep0 < s.dp.full ∧ lzCopy 1 st.rep0 rb = some rb'
  | .copy len => m = len ∧ 0 < len ∧ st.rep0 < s.dp.full ∧ lzCopy len st.rep0 rb = some rb'
  | .stuck => False

theorem lzCopy_one {d : Nat} {rb rb' : List UInt8} (h : lzCopy 1 d rb = some rb') : ∃ b, rb[d]? = some b ∧ rb' = b :: rb := by
  simp only [lzCopy] at h
  cases hg : rb[d]? with
  | none => rw [hg] at h; cases h
  | some b => rw [hg] at h; simp only [Option.some.injEq] at h; exact ⟨b, rfl, h.symm⟩

/-- the output step completes -/
theorem doWrite_ok {p : Props} {dictSize k : Nat} {s : St} {pos : Nat} {st : SymSt} {rb rb' : List UInt8} {pend : Pending}
    {m : Nat} (hs : Sim p dictSize k s pos st rb) (hp : PendOk s st rb pend m rb') (hroom : s.dp.pos + m ≤ s.dp.limit) :
    ∃ s2, doWrite pend s = .ok () s2 ∧ Sim p dictSize k s2 (pos + m) st rb' ∧ Same s s2 ∧ s2.dp.pos = s.dp.pos + m := by
  obtain ⟨hlc, hlp, hpb, hst, hstlt, hwin, hk⟩ := hs
  cases pend with
  | none =>
    obtain ⟨rfl, rfl⟩ := hp
    exact ⟨s, rfl, ⟨hlc, hlp, hpb, hst, hstlt, hwin, hk⟩, Same.refl s, rfl⟩
  | stuck => exact absurd hp id
  | litWrite n =>
    obtain ⟨rfl, rfl⟩ := hp
    have hne : (s.dp.pos == s.dp.limit) = false := by simp; omega
    refine ⟨s.put (UInt8.ofNat n), by simp only [doWrite, hne]; rfl, ?_, ?_, rfl⟩
    · exact ⟨hlc, hlp, hpb, ⟨hst.state, hst.rep0, hst.rep1, hst.rep2, hst.rep3⟩, hstlt, hwin.put _ (by omega), by
        rw [put_pos]; omega⟩
    · exact ⟨rfl, rfl, rfl, rfl, rfl, rfl, rfl, rfl, rfl, rfl, rfl, rfl, rfl, rfl,
        by show s.hist.size ≤ (s.hist.push _).size; rw [ByteArray.size_push]; omega,
        by show (s.hist.push _).size + s.dp.pos = s.hist.size + (s.dp.pos + 1); rw [ByteArray.size_push]; omega⟩
  | shortRep =>
    obtain ⟨rfl, hfull, hcopy⟩ := hp
    obtain ⟨b, hb, rfl⟩ := lzCopy_one hcopy
    have hne : (s.dp.pos == s.dp.limit) = false := by simp; omega
    have hd : st.rep0 < s.hist.size := Nat.lt_of_lt_of_le hfull hwin.full_le
    have hbyte : s.dictGet s.rep0 = b := by
      rw [hst.rep0]
      have := hwin.get st.rep0 hd
      rw [hb] at this
      exact (Option.some.inj this).symm
    refine ⟨s.put (s.dictGet s.rep0), by simp only [doWrite, hne]; rfl, ?_, ?_, rfl⟩
    · rw [hbyte]
      exact ⟨hlc, hlp, hpb, ⟨hst.state, hst.rep0, hst.rep1, hst.rep2, hst.rep3⟩, hstlt, hwin.put _ (by omega), by
        rw [put_pos]; omega⟩
    · exact ⟨rfl, rfl, rfl, rfl, rfl, rfl, rfl, rfl, rfl, rfl, rfl, rfl, rfl, rfl,
        by show s.hist.size ≤ (s.hist.push _).size; rw [ByteArray.size_push]; omega,
        by show (s.hist.push _).size + s.dp.pos = s.hist.size + (s.dp.pos + 1); rw [ByteArray.size_push]; omega⟩
  | copy len =>
    obtain ⟨rfl, hpos, hfull, hcopy⟩ := hp
    have hleft : s.dp.repeatLeft m = m := by
      simp only [DictPos.repeatLeft, DictPos.avail]; omega
    have hz : (m - m != 0) = false := by simp
    refine ⟨s.repeatN m, by simp only [doWrite, hleft, hz]; rfl, ?_, ?_, rfl⟩
    · exact ⟨hlc, hlp, hpb, ⟨hst.state, hst.rep0, hst.rep1, hst.rep2, hst.rep3⟩, hstlt,
        hwin.repeatN m hroom (by rw [hst.rep0]; exact hfull) (by rw [hst.rep0]; exact hcopy), by
        rw [repeatN_pos]; omega⟩
    · exact ⟨rfl, rfl, rfl, rfl, rfl, rfl, rfl, rfl, rfl, rfl, rfl, rfl, rfl, rfl,
        by show s.hist.size ≤ (St.copyBytes m s.rep0 s.hist).size; rw [copyBytes_size]; omega,
        by show (St.copyBytes m s.rep0 s.hist).size + s.dp.pos = s.hist.size + (s.dp.pos + m); rw [copyBytes_size]; omega⟩

/-- the output step fills the dictionary and stays pending -/
theorem doWrite_full {p : Props} {dictSize k : Nat} {s : St} {pos : Nat} {st : SymSt} {rb rb' : List UInt8} {pend : Pending}
    {m : Nat} (hs : Sim p dictSize k s pos st rb) (hp : PendOk s st rb pend m rb') (hroom : s.dp.limit < s.dp.pos + m) :
    ∃ s2 pend2 rb2, doWrite pend s = .error (.outFull pend2) s2 ∧
      Sim p dictSize k s2 (pos + (s.dp.limit - s.dp.pos)) st rb2 ∧
      PendOk s2 st rb2 pend2 (m - (s.dp.limit - s.dp.pos)) rb' ∧ Same s s2 ∧ s2.dp.pos = s.dp.limit := by
  have hs0 := hs
  obtain ⟨hlc, hlp, hpb, hst, hstlt, hwin, hk⟩ := hs
  have hpl := hwin.pos_le
  cases pend with
  | none => obtain ⟨rfl, rfl⟩ := hp; omega
  | stuck => exact absurd hp id
  | litWrite n =>
    obtain ⟨rfl, rfl⟩ := hp
    have he : s.dp.pos = s.dp.limit := by omega
    have hne : (s.dp.pos == s.dp.limit) = true := by simp [he]
    refine ⟨s, .litWrite n, rb, by simp only [doWrite, hne]; rfl, ?_, ?_, Same.refl s, he⟩
    · rw [he, Nat.sub_self, Nat.add_zero]; exact hs0
    · rw [he, Nat.sub_self]; exact ⟨rfl, rfl⟩
  | shortRep =>
    obtain ⟨rfl, hfull, hcopy⟩ := hp
    have he : s.dp.pos = s.dp.limit := by omega
    have hne : (s.dp.pos == s.dp.limit) = true := by simp [he]
    refine ⟨s, .shortRep, rb, by simp only [doWrite, hne]; rfl, ?_, ?_, Same.refl s, he⟩
    · rw [he, Nat.sub_self, Nat.add_zero]; exact hs0
    · rw [he, Nat.sub_self]; exact ⟨rfl, hfull, hcopy⟩
  | copy len =>
    obtain ⟨rfl, hpos, hfull, hcopy⟩ := hp
    generalize ha : s.dp.limit - s.dp.pos = a at *
    have hleft : s.dp.repeatLeft m = a := by
      simp only [DictPos.repeatLeft, DictPos.avail]; omega
    have hz : (m - a != 0) = true := by simp; omega
    have hsplit : m = a + (m - a) := by omega
    rw [hsplit, lzCopy_add] at hcopy
    cases hc1 : lzCopy a st.rep0 rb with
    | none => rw [hc1] at hcopy; cases hcopy
    | some rb2 =>
      rw [hc1] at hcopy
      have hcopy2 : lzCopy (m - a) st.rep0 rb2 = some rb' := hcopy
      have hwin2 := hwin.repeatN a (by omega) (by rw [hst.rep0]; exact hfull) (by rw [hst.rep0]; exact hc1)
      refine ⟨s.repeatN a, .copy (m - a), rb2, by simp only [doWrite, hleft, hz]; rfl, ?_, ?_, ?_, ?_⟩
      · exact ⟨hlc, hlp, hpb, ⟨hst.state, hst.rep0, hst.rep1, hst.rep2, hst.rep3⟩, hstlt, hwin2, by
          rw [repeatN_pos]; omega⟩
      · refine ⟨rfl, by omega, ?_, hcopy2⟩
        -- `full` only grows
        show st.rep0 < (s.dp.advance a).full
        simp only [DictPos.advance]
        by_cases hw : s.dp.hasWrapped = true
        · simp only [hw, if_true]; exact hfull
        · have hw' : s.dp.hasWrapped = false := by simpa using hw
          have := hwin.unwrapped hw'
          simp only [hw', Bool.false_eq_true, if_false, LZ_DICT_INIT_POS] at this ⊢
          omega
      · exact ⟨rfl, rfl, rfl, rfl, rfl, rfl, rfl, rfl, rfl, rfl, rfl, rfl, rfl, rfl,
          by show s.hist.size ≤ (St.copyBytes a s.rep0 s.hist).size; rw [copyBytes_size]; omega,
          by show (St.copyBytes a s.rep0 s.hist).size + s.dp.pos = s.hist.size + (s.dp.pos + a); rw [copyBytes_size]; omega⟩
      · rw [repeatN_pos]; omega

theorem PendOk.congr {s t : St} {st : SymSt} {rb rb' : List UInt8} {pend : Pending} {m : Nat}
    (h : PendOk s st rb pend m rb') (hf : s.dp.full ≤ t.dp.full) : PendOk t st rb pend m rb' := by
  cases pend with
  | none => exact h
  | stuck => exact h
  | litWrite n => exact h
  | shortRep => exact ⟨h.1, Nat.lt_of_lt_of_le h.2.1 hf, h.2.2⟩
  | copy len => exact ⟨h.1, h.2.1, Nat.lt_of_lt_of_le h.2.2.1 hf, h.2.2.2⟩

theorem next_rep0_rep (st : SymSt) (idx len : Nat) (h : idx < 4) : (st.next (.rep idx len)).rep0 = st.rep idx := by
  have : idx = 0 ∨ idx = 1 ∨ idx = 2 ∨ idx = 3 := by omega
  rcases this with rfl | rfl | rfl | rfl <;> simp [SymSt.next, SymSt.rep]

/-- `decodeSymbol` decodes the next symbol of a valid description through the channel -/
theorem sym_step (p : Props) (hp : PropsOk p) (dictSize : Nat) (hd : dictSize ≤ 4294967295) (k : Nat) (ev : Bool)
    {s : St} {pos : Nat} {st : SymSt} {rb : List UInt8} (hs : Sim p dictSize k s pos st rb) (hr : RepOk s st)
    {ps psF : Probs} {rc : Rc} {rest tail : List UInt8} {restOps : List Op} (hv : View s ps rc rest)
    {sym : Sym} {rb1 : List UInt8} (happ : applySym dictSize rb st sym = some rb1)
    (hc : Chan ps rc rest
      ((symOps p st pos (prevByte rb) (matchByte rb st.rep0) sym).1.map (opRename (ctxMap p k)) ++ restOps) tail psF) :
    ∃ pend ps1 rc1 rest1,
      decodeSymbol ev s = .ok pend (setSt (rcSet s ps1 rc1 rest1.length) (st.next sym)) ∧
      Chan ps1 rc1 rest1 restOps tail psF ∧ (∃ pre, rest = pre ++ rest1) ∧
      PendOk s (st.next sym) rb pend sym.len rb1 ∧ 0 < sym.len ∧
      (isLiteralState (st.next sym).state = false → (st.next sym).rep0 < s.hist.size) := by
  obtain ⟨hlc, hlp, hpb, hst, hstlt, hwin, hk⟩ := hs
  obtain ⟨hvalid, hne⟩ := applySym_valid hd happ
  obtain ⟨ps1, rc1, rest1, hrun, hc1⟩ := sym_chan_step p (ctxMap p k) st pos _ _ sym hvalid hc
  rw [symOps_next p st pos _ _ sym hvalid] at hrun
  obtain ⟨pre, hpre⟩ := Prog.runRc_suffix _ _ _ _ _ _ _ _ hrun
  have hmb : isLiteralState st.state = false → (s.dictGet st.rep0).toNat = matchByte rb st.rep0 :=
    fun hl => hwin.matchByte st.rep0 (hr hl)
  have hlen := sym_len_pos sym hvalid
  rcases decodeSymbol_run p k pos _ _ st s ev hp hstlt hst hlc hlp hpb hk hwin.prev hmb hv hrun with
    ⟨n, hsym, hdec⟩ | ⟨d, len, hsym, hd32, hdec, _⟩ | ⟨hsym, hdec⟩ | ⟨idx, len, hsym, hidx, hdec⟩
  · subst hsym
    simp only [applySym, Option.some.injEq] at happ
    refine ⟨.litWrite n, ps1, rc1, rest1, hdec, hc1, ⟨pre, hpre⟩, ⟨rfl, happ.symm⟩, hlen, ?_⟩
    intro hl
    exfalso
    have : (st.next (.lit (UInt8.ofNat n))).state < 7 := by
      simp only [SymSt.next, updateLiteral]; split <;> (try split) <;> omega
    simp [isLiteralState, LIT_STATES] at hl; omega
  · subst hsym
    simp only [applySym] at happ
    split at happ
    · rename_i hcond
      obtain ⟨h2, h273, hdd⟩ := hcond
      have hdrb := lzCopy_pos (by omega) happ
      have hfull := hwin.valid d hdd hdrb
      have hneq : d ≠ UINT32_MAX := by simp only [UINT32_MAX]; omega
      refine ⟨.copy len, ps1, rc1, rest1, hdec hneq hfull, hc1, ⟨pre, hpre⟩, ⟨rfl, by omega, hfull, happ⟩, hlen, ?_⟩
      intro _
      exact Nat.lt_of_lt_of_le hfull hwin.full_le
    · cases happ
  · subst hsym
    simp only [applySym] at happ
    split at happ
    · rename_i hcond
      have hdrb := lzCopy_pos (by omega) happ
      have hfull := hwin.valid st.rep0 hcond hdrb
      refine ⟨.shortRep, ps1, rc1, rest1, hdec (by omega), hc1, ⟨pre, hpre⟩, ⟨rfl, hfull, happ⟩, hlen, ?_⟩
      intro _
      exact Nat.lt_of_lt_of_le hfull hwin.full_le
    · cases happ
  · subst hsym
    simp only [applySym] at happ
    split at happ
    · rename_i hcond
      obtain ⟨h2, h273, hi4, hdd⟩ := hcond
      have hdrb := lzCopy_pos (by omega) happ
      have hfull := hwin.valid (st.rep idx) hdd hdrb
      have hrep := next_rep0_rep st idx len hidx
      refine ⟨.copy len, ps1, rc1, rest1, hdec (by omega), hc1, ⟨pre, hpre⟩,
        ⟨rfl, by omega, by rw [hrep]; exact hfull, by rw [hrep]; exact happ⟩, hlen, ?_⟩
      intro _
      rw [hrep]
      exact Nat.lt_of_lt_of_le hfull hwin.full_le
    · cases happ

end XzVerif.LzmaExec
