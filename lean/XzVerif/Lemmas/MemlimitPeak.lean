/-
  C09: how many bytes are live while the decoders of Model/Memlimit.lean (re)initialise filter chains.
  `lzma_next_filter_init` along a chain that reuses the coders of the previous Block never has more live than
  max(what was live before, what the new chain needs): old coders are freed before bigger ones are allocated.
  Core Lean only.
-/
import XzVerif.Lemmas.Memlimit

set_option linter.unusedSimpArgs false

namespace XzVerif.Memlimit
open XzVerif.Memusage

/-! ## Live bytes and peak of an allocator script -/

/-- Live bytes after replaying a script from `l` live bytes. -/
def scriptLive : Nat → List Op → Nat
  | l, [] => l
  | l, .alloc n :: rest => scriptLive (l + n) rest
  | l, .free n :: rest => scriptLive (l - n) rest

/-- The highest number of live bytes right after an allocation of the script (0 if it allocates nothing). -/
def scriptPeak : Nat → List Op → Nat
  | _, [] => 0
  | l, .alloc n :: rest => max (l + n) (scriptPeak (l + n) rest)
  | l, .free n :: rest => scriptPeak (l - n) rest

theorem apply_live_eq (ops : List Op) : ∀ h : Heap, (h.apply ops).live = scriptLive h.live ops := by
  induction ops with
  | nil => intro h; rfl
  | cons op rest ih =>
    intro h
    simp only [Heap.apply, List.foldl_cons]
    have := ih (h.step op)
    simp only [Heap.apply] at this
    rw [this]
    cases op <;> rfl

theorem apply_peak_eq (ops : List Op) : ∀ h : Heap, (h.apply ops).peak = max h.peak (scriptPeak h.live ops) := by
  induction ops with
  | nil => intro h; simp [Heap.apply, scriptPeak]
  | cons op rest ih =>
    intro h
    simp only [Heap.apply, List.foldl_cons]
    have := ih (h.step op)
    simp only [Heap.apply] at this
    rw [this]
    cases op with
    | alloc n => simp only [Heap.step, Heap.alloc, scriptPeak]; omega
    | free n => simp only [Heap.step, Heap.free, scriptPeak]

theorem scriptLive_append (a c : List Op) : ∀ l, scriptLive l (a ++ c) = scriptLive (scriptLive l a) c := by
  induction a with
  | nil => intro l; rfl
  | cons op rest ih => intro l; cases op <;> simp only [List.cons_append, scriptLive, ih]

theorem scriptPeak_append (a c : List Op) : ∀ l,
    scriptPeak l (a ++ c) = max (scriptPeak l a) (scriptPeak (scriptLive l a) c) := by
  induction a with
  | nil => intro l; simp [scriptPeak, scriptLive]
  | cons op rest ih =>
    intro l
    cases op with
    | alloc n => simp only [List.cons_append, scriptPeak, scriptLive, ih]; omega
    | free n => simp only [List.cons_append, scriptPeak, scriptLive, ih]

theorem scriptLive_allocs (ns : List Nat) : ∀ l, scriptLive l (ns.map Op.alloc) = l + ns.sum := by
  induction ns with
  | nil => intro l; simp [scriptLive]
  | cons n rest ih => intro l; simp only [List.map_cons, scriptLive, ih, List.sum_cons]; omega

theorem scriptPeak_allocs (ns : List Nat) : ∀ l, scriptPeak l (ns.map Op.alloc) ≤ l + ns.sum := by
  induction ns with
  | nil => intro l; simp [scriptPeak]
  | cons n rest ih =>
    intro l
    have := ih (l + n)
    simp only [List.map_cons, scriptPeak, List.sum_cons]
    omega

theorem allocs_eq_apply (ns : List Nat) (h : Heap) : h.allocs ns = h.apply (ns.map Op.alloc) := by
  simp only [Heap.allocs, Heap.apply]
  induction ns generalizing h with
  | nil => rfl
  | cons n rest ih => simp only [List.foldl_cons, List.map_cons]; exact ih _

/-! ## The node a successfully initialised filter leaves behind -/

def nodeOf (b : Build) : Filter → Node
  | .lzma1 o => { kind := .lzma1, bytes := b.szLzDecoder + b.szLzma1Decoder, dict := lzDictAllocSize b o.dict }
  | .lzma2 o => { kind := .lzma2, bytes := b.szLzDecoder + b.szLzma2Decoder + b.szLzma1Decoder, dict := lzDictAllocSize b o.dict }
  | .bcj id _ => { kind := .bcj id, bytes := (bcjAllocs b id).sum }
  | .delta _ => { kind := .delta, bytes := b.szDeltaCoder }
  | .other _ => { kind := .delta, bytes := 0 }

def isLz : Filter → Bool
  | .lzma1 _ | .lzma2 _ => true
  | _ => false

/-- LZMA1/LZMA2 only as the last filter (what `lzma_validate_chain` enforces). -/
def LzLast : List Filter → Prop
  | [] => True
  | f :: rest => (isLz f = true → rest = []) ∧ LzLast rest

/-- No filter with an ID unknown to liblzma. -/
def NoOther (fs : List Filter) : Prop := ∀ f ∈ fs, (kindOf f).isSome = true

theorem nodeOf_total (b : Build) (f : Filter) (h : (kindOf f).isSome = true) :
    (nodeOf b f).total = (filterDecAllocs b f).sum := by
  cases f <;> simp [nodeOf, Node.total, filterDecAllocs, kindOf] at h ⊢ <;> omega

theorem chainBytes_cons (n : Node) (c : List Node) : chainBytes (n :: c) = n.total + chainBytes c := by
  simp [chainBytes]

theorem chainBytes_nil : chainBytes [] = 0 := rfl

theorem chainBytes_map_nodeOf (b : Build) (fs : List Filter) (h : NoOther fs) :
    chainBytes (fs.map (nodeOf b)) = (rawDecoderAllocs b fs).sum := by
  induction fs with
  | nil => rfl
  | cons f rest ih =>
    simp only [List.map_cons, chainBytes_cons, rawDecoderAllocs, List.flatten_cons, List.sum_append]
    rw [nodeOf_total b f (h f (List.mem_cons_self ..)), ih (fun g hg => h g (List.mem_cons_of_mem _ hg))]
    rfl

theorem validateLoop_lzLast : ∀ (fs : List Filter) (nl l : Bool) (c : Nat) (r : Bool × Nat),
    validateLoop fs nl l c = some r → LzLast fs := by
  intro fs
  induction fs with
  | nil => intro _ _ _ _ _; trivial
  | cons f rest ih =>
    intro nl l c r h
    simp only [validateLoop] at h
    cases hf : feature f with
    | none => simp [hf] at h
    | some t =>
      obtain ⟨nl', l', c'⟩ := t
      simp only [hf] at h
      split at h
      · cases h
      · refine ⟨?_, ih _ _ _ _ h⟩
        intro hlz
        have hnl : nl' = false := by
          cases f <;> simp [isLz] at hlz <;> simp [feature] at hf <;> exact hf.1
        subst hnl
        cases rest with
        | nil => rfl
        | cons g rest2 =>
          exfalso
          simp only [validateLoop] at h
          cases hg : feature g with
          | none => simp [hg] at h
          | some t2 => simp [hg] at h

theorem chainOk_lzLast {fs : List Filter} (h : chainOk fs = true) : LzLast fs := by
  unfold chainOk at h
  cases fs with
  | nil => trivial
  | cons f rest =>
    simp only at h
    cases hv : validateLoop (f :: rest) true false 0 with
    | none => simp [hv] at h
    | some r => exact validateLoop_lzLast _ _ _ _ _ hv

theorem known_noOther {fs : List Filter} (h : fs.all decoderKnown = true) : NoOther fs := by
  intro f hf
  have := List.all_eq_true.mp h f hf
  cases f <;> simp [decoderKnown, kindOf] at this ⊢

/-! ## Fresh and reused initialisation of one filter -/

theorem freshInit_ok (b : Build) (f : Filter) (hk : (kindOf f).isSome = true) (h0 : filterDecInitRet f = 0) :
    freshInit b f = (0, filterDecAllocs b f, some (nodeOf b f)) := by
  cases f with
  | other id => simp [kindOf] at hk
  | lzma1 o => simp [freshInit, kindOf, h0, nodeOf]
  | lzma2 o => simp [freshInit, kindOf, h0, nodeOf]
  | bcj id s => simp [freshInit, kindOf, h0, nodeOf, filterDecAllocs]
  | delta d => simp [freshInit, kindOf, h0, nodeOf, filterDecAllocs]

theorem freshInit_err (b : Build) (f : Filter) (hk : (kindOf f).isSome = true) (h0 : filterDecInitRet f ≠ 0) :
    ∃ k, freshInit b f = (filterDecInitRet f, filterDecAllocsOnError b f,
      some { kind := k, bytes := (filterDecAllocsOnError b f).sum }) := by
  cases hkk : kindOf f with
  | none => simp [hkk] at hk
  | some k => exact ⟨k, by simp [freshInit, hkk, h0]⟩

/-- Re-initialisation of the node of `f0` with a filter `f` of the same kind. -/
theorem reuseInit_spec (b : Build) (f f0 : Filter) (hk : kindOf f = some (nodeOf b f0).kind)
    (h0 : (kindOf f0).isSome = true) :
    (filterDecInitRet f ≠ 0 → reuseInit b (nodeOf b f0) f = (filterDecInitRet f, [], nodeOf b f0))
    ∧ (filterDecInitRet f = 0 →
        (reuseInit b (nodeOf b f0) f = (0, [], nodeOf b f) ∧ nodeOf b f = nodeOf b f0)
        ∨ (reuseInit b (nodeOf b f0) f = (0, [.free (nodeOf b f0).dict, .alloc (nodeOf b f).dict], nodeOf b f)
            ∧ isLz f0 = true ∧ (nodeOf b f).bytes = (nodeOf b f0).bytes ∧ (nodeOf b f0).dict ≤ (nodeOf b f0).total)) := by
  constructor
  · intro hne; simp [reuseInit, hne]
  · intro h0'
    cases f with
    | other id => simp [kindOf] at hk
    | lzma1 o =>
      cases f0 <;> simp [kindOf, nodeOf] at hk h0
      rename_i o0
      by_cases hd : lzDictAllocSize b o0.dict = lzDictAllocSize b o.dict
      · left; simp [reuseInit, h0', nodeOf, hd]
      · right; simp [reuseInit, h0', nodeOf, hd, isLz, Node.total]
    | lzma2 o =>
      cases f0 <;> simp [kindOf, nodeOf] at hk h0
      rename_i o0
      by_cases hd : lzDictAllocSize b o0.dict = lzDictAllocSize b o.dict
      · left; simp [reuseInit, h0', nodeOf, hd]
      · right; simp [reuseInit, h0', nodeOf, hd, isLz, Node.total]
    | bcj id s =>
      cases f0 <;> simp [kindOf, nodeOf] at hk h0
      subst hk
      left; simp [reuseInit, h0', nodeOf]
    | delta d =>
      cases f0 <;> simp [kindOf, nodeOf] at hk h0
      left; simp [reuseInit, h0', nodeOf]

/-! ## `lzma_next_filter_init` along a chain -/

/-- What the chain initialisation guarantees when it starts with `X + chainBytes old` bytes live. -/
def ChainSpec (b : Build) (fs : List Filter) (old : List Node) (X : Nat) (res : Nat × List Op × List Node) : Prop :=
  scriptPeak (X + chainBytes old) res.2.1 ≤ X + max (chainBytes old) (rawDecoderAllocs b fs).sum
  ∧ scriptLive (X + chainBytes old) res.2.1 = X + chainBytes res.2.2
  ∧ (res.1 = 0 → res.2.2 = fs.map (nodeOf b))
  ∧ chainBytes res.2.2 ≤ max (chainBytes old) (rawDecoderAllocs b fs).sum

theorem rawDecoderAllocs_cons (b : Build) (f : Filter) (rest : List Filter) :
    (rawDecoderAllocs b (f :: rest)).sum = (filterDecAllocs b f).sum + (rawDecoderAllocs b rest).sum := by
  simp [rawDecoderAllocs]

/-- On an empty `lzma_next_coder`. -/
theorem chainScript_fresh (b : Build) : ∀ (fs : List Filter) (X : Nat), NoOther fs →
    ChainSpec b fs [] X (chainScript b fs []) := by
  intro fs
  induction fs with
  | nil =>
    intro X _
    simp [ChainSpec, chainScript, scriptPeak, scriptLive, chainBytes, rawDecoderAllocs]
  | cons f rest ih =>
    intro X hno
    have hk := hno f (List.mem_cons_self ..)
    have hno' : NoOther rest := fun g hg => hno g (List.mem_cons_of_mem _ hg)
    by_cases h0 : filterDecInitRet f = 0
    · have hfr := freshInit_ok b f hk h0
      have ih' := ih (X + (filterDecAllocs b f).sum) hno'
      simp only [chainScript, hfr]
      cases hcs : chainScript b rest [] with
      | mk r2 p =>
        obtain ⟨ops2, c2⟩ := p
        rw [hcs] at ih'
        simp only [ChainSpec, chainBytes, List.map_nil, List.sum_nil, Nat.add_zero] at ih' ⊢
        obtain ⟨i1, i2, i3, i4⟩ := ih'
        simp only [ne_eq, not_true_eq_false, ↓reduceIte]
        have hp := scriptPeak_allocs (filterDecAllocs b f) X
        have hl := scriptLive_allocs (filterDecAllocs b f) X
        have ht := nodeOf_total b f hk
        simp only [Node.total] at ht
        refine ⟨?_, ?_, ?_, ?_⟩
        · rw [scriptPeak_append, hl, rawDecoderAllocs_cons]; omega
        · rw [scriptLive_append, hl, i2]
          simp only [List.map_cons, List.sum_cons, Node.total]; omega
        · intro hr; rw [i3 hr]; rfl
        · simp only [List.map_cons, List.sum_cons, Node.total, rawDecoderAllocs_cons]; omega
    · obtain ⟨k, hfr⟩ := freshInit_err b f hk h0
      have hle := filterDecAllocsOnError_le b f
      have hp := scriptPeak_allocs (filterDecAllocsOnError b f) X
      have hl := scriptLive_allocs (filterDecAllocsOnError b f) X
      simp only [chainScript, hfr, ne_eq, h0, not_false_eq_true, ↓reduceIte, ChainSpec, chainBytes, List.map_nil,
        List.sum_nil, Nat.add_zero, List.map_cons, List.sum_cons, Node.total, rawDecoderAllocs_cons]
      refine ⟨by omega, by rw [hl], by intro hr; first | exact hr.elim | exact absurd hr h0, by omega⟩

/-- A filter of another kind than the existing coder: the old chain is freed, then everything is as on an empty coder. -/
theorem chainScript_mismatch (b : Build) (f : Filter) (rest : List Filter) (n : Node) (olds : List Node)
    (hk : kindOf f ≠ some n.kind) :
    chainScript b (f :: rest) (n :: olds)
      = ((chainScript b (f :: rest) []).1, Op.free (chainBytes (n :: olds)) :: (chainScript b (f :: rest) []).2.1,
         (chainScript b (f :: rest) []).2.2) := by
  simp only [chainScript, hk, ↓reduceIte]
  cases hfr : freshInit b f with
  | mk r p =>
    obtain ⟨a, n1⟩ := p
    cases n1 with
    | none => rfl
    | some n1 =>
      dsimp only
      by_cases hr : r ≠ 0
      · simp only [if_pos hr]
      · simp only [if_neg hr]

theorem ChainSpec.afterFree (b : Build) (fs : List Filter) (old : List Node) (X : Nat) (r : Nat) (ops : List Op)
    (c : List Node) (h : ChainSpec b fs [] X (r, ops, c)) :
    ChainSpec b fs old X (r, Op.free (chainBytes old) :: ops, c) := by
  obtain ⟨h1, h2, h3, h4⟩ := h
  simp only [ChainSpec, chainBytes, List.map_nil, List.sum_nil, Nat.add_zero, scriptPeak, scriptLive,
    Nat.add_sub_cancel] at h1 h2 h4 ⊢
  exact ⟨by omega, h2, h3, by omega⟩

/-- The general case: the previous Block's chain `fs0` is still allocated. -/
theorem chainScript_spec (b : Build) : ∀ (fs fs0 : List Filter) (X : Nat), NoOther fs → NoOther fs0 → LzLast fs0 →
    ChainSpec b fs (fs0.map (nodeOf b)) X (chainScript b fs (fs0.map (nodeOf b))) := by
  intro fs
  induction fs with
  | nil =>
    intro fs0 X _ _ _
    simp [ChainSpec, chainScript, scriptPeak, scriptLive, rawDecoderAllocs, chainBytes]
  | cons f rest ih =>
    intro fs0 X hno hno0 hlz
    cases fs0 with
    | nil => exact chainScript_fresh b (f :: rest) X hno
    | cons f0 fs0' =>
      have hk := hno f (List.mem_cons_self ..)
      have hno' : NoOther rest := fun g hg => hno g (List.mem_cons_of_mem _ hg)
      have hk0 := hno0 f0 (List.mem_cons_self ..)
      have hno0' : NoOther fs0' := fun g hg => hno0 g (List.mem_cons_of_mem _ hg)
      simp only [List.map_cons]
      by_cases hkind : kindOf f = some (nodeOf b f0).kind
      · obtain ⟨sp1, sp2⟩ := reuseInit_spec b f f0 hkind hk0
        by_cases h0 : filterDecInitRet f = 0
        · rcases sp2 h0 with ⟨hre, hsame⟩ | ⟨hre, hlz0, hbytes, hdle⟩
          · -- same node, nothing allocated
            have ih' := ih fs0' (X + (nodeOf b f0).total) hno' hno0' hlz.2
            simp only [chainScript, hkind, ↓reduceIte, hre]
            cases hcs : chainScript b rest (fs0'.map (nodeOf b)) with
            | mk r2 p =>
              obtain ⟨ops2, c2⟩ := p
              rw [hcs] at ih'
              obtain ⟨i1, i2, i3, i4⟩ := ih'
              have i3 : r2 = 0 → c2 = rest.map (nodeOf b) := i3
              have ht := nodeOf_total b f hk
              rw [hsame] at ht
              simp only [ChainSpec, ne_eq, not_true_eq_false, ↓reduceIte, List.nil_append, chainBytes_cons,
                rawDecoderAllocs_cons, List.map_cons] at i1 i2 i4 ⊢
              refine ⟨?_, ?_, ?_, ?_⟩
              · rw [← Nat.add_assoc]; omega
              · rw [← Nat.add_assoc, i2, hsame]; omega
              · intro hr; rw [i3 hr]
              · rw [hsame]; omega
          · -- LZMA coder reused, dictionary replaced: it is the last filter of the old chain
            have hnil : fs0' = [] := hlz.1 hlz0
            subst hnil
            have ih' := ih [] (X + (nodeOf b f).total) hno' (fun _ h => by cases h) trivial
            simp only [chainScript, hkind, ↓reduceIte, hre, List.map_nil]
            simp only [List.map_nil] at ih'
            cases hcs : chainScript b rest [] with
            | mk r2 p =>
              obtain ⟨ops2, c2⟩ := p
              rw [hcs] at ih'
              obtain ⟨i1, i2, i3, i4⟩ := ih'
              have i3 : r2 = 0 → c2 = rest.map (nodeOf b) := i3
              have ht := nodeOf_total b f hk
              simp only [Node.total] at ht hdle
              simp only [ChainSpec, ne_eq, not_true_eq_false, ↓reduceIte, chainBytes_cons, List.cons_append,
                List.nil_append, scriptPeak, scriptLive, rawDecoderAllocs_cons, List.map_cons, chainBytes_nil,
                Nat.add_zero, Node.total] at i1 i2 i4 ⊢
              have e1 : X + ((nodeOf b f0).bytes + (nodeOf b f0).dict) - (nodeOf b f0).dict + (nodeOf b f).dict
                  = X + ((nodeOf b f).bytes + (nodeOf b f).dict) := by omega
              rw [e1]
              refine ⟨by omega, ?_, ?_, by omega⟩
              · rw [i2]; omega
              · intro hr; rw [i3 hr]
        · -- the initialiser rejects the options: nothing changes
          simp only [chainScript, hkind, ↓reduceIte, sp1 h0, ne_eq, h0, not_false_eq_true, ChainSpec, scriptPeak,
            scriptLive]
          exact ⟨by omega, trivial, by intro hr; first | exact hr.elim | exact absurd hr h0, by omega⟩
      · rw [chainScript_mismatch b f rest _ _ hkind]
        have := chainScript_fresh b (f :: rest) X hno
        exact ChainSpec.afterFree b (f :: rest) _ X _ _ _ this

/-! ## Sizes of the option structs a Block Header decoder allocates -/

theorem optionAlloc_sum_le (b : Build) (o : Container.FilterOpts) : (optionAlloc b o).1.sum ≤ b.optMax := by
  cases o <;> simp [optionAlloc, Build.optMax] <;> omega

theorem failedHeaderAllocs_le (b : Build) : ∀ (n : Nat) (bytes : List UInt8),
    (failedHeaderAllocs b n bytes).sum ≤ n * b.optMax := by
  intro n
  induction n with
  | zero => intro bytes; simp [failedHeaderAllocs]
  | succ n ih =>
    intro bytes
    simp only [failedHeaderAllocs]
    split
    · simp
    · split
      · simp
      · rename_i o _
        have h1 := optionAlloc_sum_le b o
        have h2 := ih ‹List UInt8›
        simp only [List.sum_append]
        rw [Nat.succ_mul]
        split
        · simp; omega
        · omega

theorem optionScript_allocSum_le (b : Build) : ∀ fl : List Container.Filter,
    allocSum (optionScript b fl).1 ≤ fl.length * b.optMax ∧ (optionScript b fl).2.1 ≤ fl.length * b.optMax := by
  intro fl
  induction fl with
  | nil => simp [optionScript, allocSum]
  | cons f rest ih =>
    simp only [optionScript, List.length_cons]
    rw [Nat.succ_mul]
    cases hp : Container.propsDecode f.id f.props with
    | error e => dsimp only; exact ⟨by omega, by omega⟩
    | ok o =>
      dsimp only
      cases hr : optionScript b rest with
      | mk ops2 r2 =>
        obtain ⟨k2, fs2⟩ := r2
        rw [hr] at ih
        simp only at ih
        have hk := optionAlloc_keep_le b o
        have hs := optionAlloc_sum_le b o
        by_cases he : f.props.isEmpty
        · simp only [he, ↓reduceIte, List.map_nil, List.sum_nil, Nat.sub_self, List.nil_append, Nat.zero_add]
          exact ⟨by omega, by omega⟩
        · simp only [he, Bool.false_eq_true, ↓reduceIte]
          cases ho : optionAlloc b o with
          | mk req keep =>
            rw [ho] at hk hs
            simp only at hk hs ⊢
            refine ⟨?_, by omega⟩
            rw [allocSum_append, allocSum_append, allocSum_map_alloc]
            split
            · simp only [allocSum]; omega
            · simp only [allocSum]; omega

theorem headerDecodeFilters_length : ∀ (n : Nat) (bytes : List UInt8) (fs : List Container.Filter) (r : List UInt8),
    Container.headerDecodeFilters n bytes = .ok (fs, r) → fs.length = n := by
  intro n
  induction n with
  | zero => intro bytes fs r h; simp [Container.headerDecodeFilters] at h; rw [h.1]; rfl
  | succ n ih =>
    intro bytes fs r h
    simp only [Container.headerDecodeFilters] at h
    split at h
    · cases h
    · split at h
      · cases h
      · rename_i fs' r' hrec
        simp only [Except.ok.injEq, Prod.mk.injEq] at h
        rw [← h.1, List.length_cons, ih _ _ _ hrec]

theorem blockHeader_filters_le (hs check : Nat) (hdr : List UInt8) (bh : Container.BlockHeader)
    (h : Container.blockHeaderDecodeWith hs check hdr = .ok bh) : bh.filters.length ≤ 4 := by
  unfold Container.blockHeaderDecodeWith at h
  dsimp only at h
  split at h
  · cases h
  split at h
  · cases h
  split at h
  · cases h
  split at h
  · cases h
  split at h
  · cases h
  split at h
  · cases h
  split at h
  · cases h
  split at h
  · cases h
  rename_i fs r3 hf
  split at h
  · cases h
  simp only [Except.ok.injEq] at h
  rw [← h]
  have := headerDecodeFilters_length _ _ _ _ hf
  simp only at this ⊢
  omega

/-- Peak of a script that starts from `h`: never more than the live bytes at the start plus everything it requests. -/
theorem apply_peak_le (ops : List Op) (h : Heap) : (h.apply ops).peak ≤ max h.peak (h.live + allocSum ops) := by
  rw [apply_peak_eq]
  have : ∀ (ops : List Op) (l : Nat), scriptPeak l ops ≤ l + allocSum ops := by
    intro ops
    induction ops with
    | nil => intro l; simp [scriptPeak]
    | cons op rest ih =>
      intro l
      cases op with
      | alloc n => have := ih (l + n); simp only [scriptPeak, allocSum]; omega
      | free n => have := ih (l - n); simp only [scriptPeak, allocSum]; omega
  have := this ops h.live
  omega

/-! ## What `lzma_raw_decoder_memusage() ≠ UINT64_MAX` tells about a chain -/

theorem memusage_facts (b : Build) (hbcj : b.szSimpleCoder + 32 + b.szSimpleX86 ≤ 1024) (fs : List Filter) (m : Nat)
    (hm : rawDecoderMemusage b fs = some m) :
    chainOk fs = true ∧ fs.all decoderKnown = true ∧ validateChainRet fs = 0
    ∧ (rawDecoderAllocs b fs).sum + MEMUSAGE_BASE ≤ m + 16384 := by
  unfold rawDecoderMemusage rawCoderMemusage at hm
  split at hm
  · rename_i hok
    cases hs : sumOpt (fs.map (filterDecMemusage b)) with
    | none => simp [hs] at hm
    | some total =>
      simp only [hs, Option.some.injEq] at hm
      have hlen := chainOk_length hok
      have h1 := sumOpt_map_allocs_le (filterDecMemusage b) (filterDecAllocs b) 4096
        (fun f u h => filterDecAllocs_le b hbcj f u h) fs total hs
      refine ⟨hok, ?_, ?_, ?_⟩
      · rw [List.all_eq_true]
        intro f hf
        exact decMemusage_known b f (sumOpt_some_all _ fs total hs f hf)
      · simp only [validateChainRet, hok, ↓reduceIte]
        cases fs with
        | nil => simp [chainOk] at hok
        | cons _ _ => simp
      · simp only [FILTERS_MAX] at hlen
        simp only [rawDecoderAllocs]
        omega
  · cases hm

/-! ## The invariant of the single-threaded .xz decoder between Blocks -/

/-- `base` = bytes of the structs that live as long as the decoder (lzma_internal, the Stream coder, the Index hash,
    and the auto decoder when there is one); `allow` = what of them LZMA_MEMUSAGE_BASE does not cover. -/
structure CoreInv (b : Build) (base allow : Nat) (c : Core) : Prop where
  chain : ∃ fs0, c.chain = fs0.map (nodeOf b) ∧ NoOther fs0 ∧ LzLast fs0
  live : c.heap.live = base + (if c.blockAlloc then b.szBlockDecoder else 0) + chainBytes c.chain
  noBlock : c.blockAlloc = false → c.chain = []
  /-- nothing was ever live beyond the limit in force (or LZMA_MEMUSAGE_BASE when the limit is below that) -/
  peak : c.heap.peak ≤ max MEMUSAGE_BASE c.memlimit + allow
  /-- the chain of the previous Block together with the options of the next header stays within the limit -/
  room : base + b.szBlockDecoder + 4 * b.optMax + chainBytes c.chain ≤ max MEMUSAGE_BASE c.memlimit + allow

theorem CoreInv.raise {b : Build} {base allow : Nat} {c : Core} (h : CoreInv b base allow c) (l : Nat)
    (hl : c.memlimit ≤ l) : CoreInv b base allow { c with memlimit := l } :=
  ⟨h.chain, h.live, h.noBlock, by have := h.peak; simp only; omega, by have := h.room; simp only; omega⟩

theorem free_live (h : Heap) (n : Nat) : (h.free n).live = h.live - n := rfl
theorem free_peak (h : Heap) (n : Nat) : (h.free n).peak = h.peak := rfl

/-- `blockInit` from a state in which the `keep` bytes of decoded filter options are live on top of the invariant. -/
theorem blockInit_inv (b : Build) (hb : b.Ok) (base allow : Nat)
    (hbase : base + b.szBlockDecoder + 4 * b.optMax + 16384 ≤ MEMUSAGE_BASE + allow)
    (c1 : Core) (keep : Nat) (fs : List Filter) (res : InitResult) (c' : Core) (hkeep : keep ≤ 4 * b.optMax)
    (hchain : ∃ fs0, c1.chain = fs0.map (nodeOf b) ∧ NoOther fs0 ∧ LzLast fs0)
    (hlive : c1.heap.live = base + (if c1.blockAlloc then b.szBlockDecoder else 0) + chainBytes c1.chain + keep)
    (hnob : c1.blockAlloc = false → c1.chain = [])
    (hpeak : c1.heap.peak ≤ max MEMUSAGE_BASE c1.memlimit + allow)
    (hroom : base + b.szBlockDecoder + 4 * b.optMax + chainBytes c1.chain ≤ max MEMUSAGE_BASE c1.memlimit + allow)
    (h : blockInit b c1 keep fs = (res, c')) :
    CoreInv b base allow c' ∧ (res = .memlimit → c'.memlimit < c'.memusage) := by
  obtain ⟨fs0, hch, hno0, hlz0⟩ := hchain
  unfold blockInit at h
  cases hm : rawDecoderMemusage b fs with
  | none =>
    rw [hm] at h
    simp only [Prod.mk.injEq] at h
    obtain ⟨hres, hc'⟩ := h
    subst hres; subst hc'
    refine ⟨⟨⟨fs0, hch, hno0, hlz0⟩, ?_, hnob, hpeak, hroom⟩, fun h => by cases h⟩
    simp only [free_live, hlive]; omega
  | some m =>
    rw [hm] at h
    dsimp only at h
    by_cases hgt : m > c1.memlimit
    · rw [if_pos hgt] at h
      simp only [Prod.mk.injEq] at h
      obtain ⟨hres, hc'⟩ := h
      subst hres; subst hc'
      refine ⟨⟨⟨fs0, hch, hno0, hlz0⟩, ?_, hnob, hpeak, hroom⟩, fun _ => hgt⟩
      simp only [free_live, hlive]; omega
    · rw [if_neg hgt] at h
      obtain ⟨hcok, hknown, hval, hfit⟩ := memusage_facts b hb.bcj fs m hm
      have hno : NoOther fs := known_noOther hknown
      have hspec := chainScript_spec b fs fs0 (base + keep + b.szBlockDecoder) hno hno0 hlz0
      rw [← hch] at hspec
      simp only [blockInitScript, rawDecoderReinitScript, hval, ne_eq, not_true_eq_false, ↓reduceIte, hknown,
        Bool.not_true, Bool.false_eq_true] at h
      cases hcs : chainScript b fs c1.chain with
      | mk r p =>
        obtain ⟨cops, c2⟩ := p
        rw [hcs] at hspec
        obtain ⟨sp1, sp2, sp3, sp4⟩ := hspec
        simp only at sp1 sp2 sp3 sp4
        simp only [hcs] at h
        have hstart : scriptLive c1.heap.live (if c1.blockAlloc = true then [] else [Op.alloc b.szBlockDecoder])
            = base + keep + b.szBlockDecoder + chainBytes c1.chain := by
          cases hba : c1.blockAlloc with
          | true => simp only [hba, ↓reduceIte, scriptLive] at hlive ⊢; omega
          | false =>
            have := hnob hba
            simp only [hba, Bool.false_eq_true, ↓reduceIte, scriptLive, this, chainBytes_nil] at hlive ⊢; omega
        have hstartp : scriptPeak c1.heap.live (if c1.blockAlloc = true then [] else [Op.alloc b.szBlockDecoder])
            ≤ base + keep + b.szBlockDecoder + chainBytes c1.chain := by
          cases hba : c1.blockAlloc with
          | true => simp only [hba, ↓reduceIte, scriptPeak]; omega
          | false =>
            have := hnob hba
            simp only [hba, Bool.false_eq_true, ↓reduceIte, scriptPeak, this, chainBytes_nil] at hlive ⊢; omega
        by_cases hr : r = 0
        · subst hr
          simp only [ne_eq, not_true_eq_false, ↓reduceIte, Prod.mk.injEq] at h
          obtain ⟨hres, hc'⟩ := h
          subst hres; subst hc'
          have hc1 := sp3 rfl
          have hcb : chainBytes c2 = (rawDecoderAllocs b fs).sum := by rw [hc1]; exact chainBytes_map_nodeOf b fs hno
          refine ⟨⟨⟨fs, hc1, hno, chainOk_lzLast hcok⟩, ?_, (fun h => by cases h), ?_, ?_⟩, (fun h => by cases h)⟩
          · simp only [free_live, apply_live_eq, scriptLive_append, hstart, sp2, ↓reduceIte]; omega
          · simp only [free_peak, apply_peak_eq, scriptPeak_append, hstart]; omega
          · simp only [hcb]; omega
        · simp only [ne_eq, hr, not_false_eq_true, ↓reduceIte, Prod.mk.injEq] at h
          obtain ⟨hres, hc'⟩ := h
          subst hres; subst hc'
          refine ⟨⟨⟨[], rfl, (fun _ h => by cases h), trivial⟩, ?_, (fun h => by cases h), ?_, ?_⟩, (fun h => by cases h)⟩
          · simp only [free_live, apply_live_eq, scriptLive_append, hstart, sp2, ↓reduceIte, scriptLive,
              chainBytes_nil]; omega
          · simp only [free_peak, apply_peak_eq, scriptPeak_append, hstart, sp2, scriptPeak]; omega
          · simp only [chainBytes_nil]; omega

/-- What SEQ_BLOCK_INIT does when `lzma_block_header_decode` fails: some option structs were allocated and freed. -/
theorem blockAttempt_error (b : Build) (check : Nat) (hdr : List UInt8) (c : Core) (e : Ret)
    (hd : Container.blockHeaderDecodeWith hdr.length check hdr = .error e) :
    ∃ a : List Nat, a.sum ≤ 4 * b.optMax
      ∧ blockAttempt b check hdr c = (.done e.toNat, { c with heap := (c.heap.allocs a).free a.sum }) := by
  simp only [blockAttempt, hd]
  refine ⟨_, ?_, rfl⟩
  split
  · simp
  · split
    · simp
    · have h4 : ((hdr.getD 1 0).toNat % 4 + 1) * b.optMax ≤ 4 * b.optMax := Nat.mul_le_mul_right _ (by omega)
      exact Nat.le_trans (failedHeaderAllocs_le b _ _) h4

/-- One pass through SEQ_BLOCK_INIT keeps the invariant; LZMA_MEMLIMIT_ERROR means that more than the limit is needed. -/
theorem blockAttempt_inv (b : Build) (hb : b.Ok) (base allow : Nat)
    (hbase : base + b.szBlockDecoder + 4 * b.optMax + 16384 ≤ MEMUSAGE_BASE + allow)
    (check : Nat) (hdr : List UInt8) (c : Core) (res : InitResult) (c' : Core) (hinv : CoreInv b base allow c)
    (h : blockAttempt b check hdr c = (res, c')) :
    CoreInv b base allow c' ∧ (res = .memlimit → c'.memlimit < c'.memusage) := by
  cases hd : Container.blockHeaderDecodeWith hdr.length check hdr with
  | error e =>
    obtain ⟨a, hsum, heq⟩ := blockAttempt_error b check hdr c e hd
    rw [heq] at h
    simp only [Prod.mk.injEq] at h
    obtain ⟨hres, hc'⟩ := h
    subst hres; subst hc'
    obtain ⟨hchain, hlive, hnob, hpeak, hroom⟩ := hinv
    refine ⟨⟨hchain, ?_, hnob, ?_, hroom⟩, fun h => by cases h⟩
    · simp only [free_live, allocs_live]; omega
    · simp only [free_peak]
      rw [allocs_eq_apply]
      have := apply_peak_le (a.map Op.alloc) c.heap
      rw [allocSum_map_alloc] at this
      split at hlive <;> omega
  | ok bh =>
    simp only [blockAttempt, hd] at h
    have hlen := blockHeader_filters_le _ _ _ _ hd
    obtain ⟨hos, hok⟩ := optionScript_allocSum_le b bh.filters
    have holive := optionScript_live b bh.filters c.heap
    have hopeak := apply_peak_le (optionScript b bh.filters).1 c.heap
    have h4 : bh.filters.length * b.optMax ≤ 4 * b.optMax := Nat.mul_le_mul_right _ hlen
    obtain ⟨hchain, hlive, hnob, hpeak, hroom⟩ := hinv
    refine blockInit_inv b hb base allow hbase { c with heap := c.heap.apply (optionScript b bh.filters).1 }
      (optionScript b bh.filters).2.1 (optionScript b bh.filters).2.2 res c' (by omega) hchain ?_ hnob ?_ hroom h
    · show (c.heap.apply (optionScript b bh.filters).1).live = _
      rw [holive, hlive]
    · show (c.heap.apply (optionScript b bh.filters).1).peak ≤ max MEMUSAGE_BASE c.memlimit + allow
      have hop' : (c.heap.apply (optionScript b bh.filters).1).peak ≤ max c.heap.peak (c.heap.live + 4 * b.optMax) :=
        Nat.le_trans hopeak (by omega)
      split at hlive <;> omega

end XzVerif.Memlimit
