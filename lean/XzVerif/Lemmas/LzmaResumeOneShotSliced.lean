/-
  Link between the slicing theorems of the resumable LZMA1/LZMA2 decoder model (Lemmas/LzmaResumeTop.lean) and the one-shot
  models (Lemmas/LzmaResumeOneShot.lean): a sliced run that ENDED (LZMA_STREAM_END or an error) returns what the public one-shot
  functions `lzma2Decode` / `lzmaDecode` return on the whole input with any output allowance `Nstar` at least the room granted.
  ASSUMES `CodeAbsorb P (codeOf kind)` and `P` of the initial state (as Lemmas/LzmaResumeTop.lean), every call after the first
  made with free output room (`FreeRoom`), no dictionary wrap within `Nstar` bytes, and that the ghost flag `overrun` (chunk-overrun
  error of `lzma2_decode`, known finding) is not set at the end of the sliced run. Core Lean only.
-/
import XzVerif.Lemmas.LzmaResumeOneShot
import XzVerif.Lemmas.LzmaResumeTop

namespace XzVerif.LzmaR
open XzVerif.RangeDec XzVerif.LzDict XzVerif.Lzma XzVerif.Lzma2

theorem sliced_end_obs {P : RSt → Prop} {kind : Kind} (hc : CodeAbsorb P (codeOf kind)) {r0 : RSt} (input : List UInt8)
    {Nstar : Nat} (hi0 : Inv P Nstar r0 ByteArray.empty 0) (k cap : Nat) (sl : List (Nat × Nat))
    (hfr : FreeRoom kind input sl (runPieceR kind input { r := r0 } k cap))
    (hend : (runSlicedR kind input ((k, cap) :: sl) { r := r0 }).ret ≠ .ok)
    (hN : (runSlicedR kind input ((k, cap) :: sl) { r := r0 }).room ≤ Nstar)
    (hno : (runSlicedR kind input ((k, cap) :: sl) { r := r0 }).r.overrun = false) :
    (runSlicedR kind input ((k, cap) :: sl) { r := r0 }).ret = (callR kind (toBuf input) Nstar r0).1
    ∧ (runSlicedR kind input ((k, cap) :: sl) { r := r0 }).r.output = (callR kind (toBuf input) Nstar r0).2.output
    ∧ (runSlicedR kind input ((k, cap) :: sl) { r := r0 }).r.s.inPos = (callR kind (toBuf input) Nstar r0).2.s.inPos := by
  have h := sliced_end_eq_whole hc input hi0 k cap sl hfr hend Nstar hN (Nat.le_refl _)
  rcases h with h | h
  · exact ⟨h.1, norm_output h.2, norm_inPos h.2⟩
  · have := h.2.2.1; rw [hno] at this; cases this

/-- **LZMA2**: a sliced run that ended = `lzma2Decode` on the whole input. -/
theorem sliced_end_eq_lzma2Decode {P : RSt → Prop} (hc : CodeAbsorb P (codeOf .lzma2)) (dictSize : Nat)
    (preset input : List UInt8) (hP : P (initLzma2R dictSize preset)) (k cap : Nat) (sl : List (Nat × Nat))
    (hfr : FreeRoom .lzma2 input sl (runPieceR .lzma2 input { r := initLzma2R dictSize preset } k cap))
    (hend : (runSlicedR .lzma2 input ((k, cap) :: sl) { r := initLzma2R dictSize preset }).ret ≠ .ok)
    (Nstar : Nat) (hN : (runSlicedR .lzma2 input ((k, cap) :: sl) { r := initLzma2R dictSize preset }).room ≤ Nstar)
    (hnw : min preset.length (roundDictSize dictSize) + Nstar < roundDictSize dictSize)
    (hno : (runSlicedR .lzma2 input ((k, cap) :: sl) { r := initLzma2R dictSize preset }).r.overrun = false) :
    lzma2Decode dictSize input preset Nstar =
      { ret := (runSlicedR .lzma2 input ((k, cap) :: sl) { r := initLzma2R dictSize preset }).ret,
        out := (runSlicedR .lzma2 input ((k, cap) :: sl) { r := initLzma2R dictSize preset }).r.output,
        consumed := (runSlicedR .lzma2 input ((k, cap) :: sl) { r := initLzma2R dictSize preset }).r.s.inPos } := by
  have h := sliced_end_obs hc input (inv_initLzma2R dictSize preset hP hnw) k cap sl hfr hend hN hno
  rw [lzma2Decode_eq_callR_nowrap dictSize preset input Nstar hnw, h.1, h.2.1, h.2.2]

/-- **LZMA1**: a sliced run that ended = `lzmaDecode` on the whole input. -/
theorem sliced_end_eq_lzmaDecode {P : RSt → Prop} (hc : CodeAbsorb P (codeOf .lzma1)) (props : Props) (dictSize : Nat)
    (uncomp : Option Nat) (allowEopm : Bool) (preset input : List UInt8)
    (hP : P (initLzma1R props dictSize uncomp allowEopm preset)) (k cap : Nat) (sl : List (Nat × Nat))
    (hfr : FreeRoom .lzma1 input sl (runPieceR .lzma1 input { r := initLzma1R props dictSize uncomp allowEopm preset } k cap))
    (hend : (runSlicedR .lzma1 input ((k, cap) :: sl) { r := initLzma1R props dictSize uncomp allowEopm preset }).ret ≠ .ok)
    (Nstar : Nat)
    (hN : (runSlicedR .lzma1 input ((k, cap) :: sl) { r := initLzma1R props dictSize uncomp allowEopm preset }).room ≤ Nstar)
    (hnw : min preset.length (roundDictSize dictSize) + Nstar < roundDictSize dictSize)
    (hno : (runSlicedR .lzma1 input ((k, cap) :: sl) { r := initLzma1R props dictSize uncomp allowEopm preset }).r.overrun = false) :
    lzmaDecode props dictSize uncomp allowEopm input preset Nstar =
      { ret := (runSlicedR .lzma1 input ((k, cap) :: sl) { r := initLzma1R props dictSize uncomp allowEopm preset }).ret,
        out := (runSlicedR .lzma1 input ((k, cap) :: sl) { r := initLzma1R props dictSize uncomp allowEopm preset }).r.output,
        consumed := (runSlicedR .lzma1 input ((k, cap) :: sl) { r := initLzma1R props dictSize uncomp allowEopm preset }).r.s.inPos } := by
  have h := sliced_end_obs hc input (inv_initLzma1R props dictSize uncomp allowEopm preset hP hnw) k cap sl hfr hend hN hno
  rw [lzmaDecode_eq_callR_nowrap props dictSize uncomp allowEopm preset input Nstar hnw, h.1, h.2.1, h.2.2]

end XzVerif.LzmaR
