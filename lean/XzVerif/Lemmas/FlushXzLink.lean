/-
  C12 ↔ C02: the chunk-specification invariant of the Stream encoder model (Lemmas/FlushStreamCh.lean) meets the container
  side (Lemmas/FlushXz.lean): every closed Block of a history satisfies `FlushXz.BlockFacts`, hence is a `GoodBlock` /
  `DBlock` of the grammar for `XzEnv.stdEnv`, and the finished Stream is decoded by `XzDecode.xzDecode XzEnv.stdEnv`.
-/
import XzVerif.Lemmas.FlushStreamCh
import XzVerif.Lemmas.FlushXz

namespace XzVerif.FlushC01
open XzVerif XzVerif.Flush XzVerif.FlushXz

/-- the flush model's environment computes the Check field like liblzma (`lzma_check_*`, Model/Check.lean) -/
def StdCheck (E : Env St) : Prop := ∀ id d, E.checkBytes id d = XzEnv.check id d

theorem DoneCh.blockFacts {E : Env St} (hck : StdCheck E) {dictSize check : Nat} {b : DoneBlock} {rec : Nat × Nat}
    (h : DoneCh E dictSize check b rec) : BlockFacts check b rec := by
  obtain ⟨f, hc, hid, hm, hdf⟩ := h.chain
  obtain ⟨hs, csize, hhs, hrec, hcl⟩ := h.closed
  obtain ⟨comp, he, hcs, hc1, hcm, hum, hdec⟩ := hcl.decodes_le
  have h12 : hs = 12 := by
    rw [hc, flush_headerSize_lzma2 f hid] at hhs
    cases hhs; rfl
  refine ⟨⟨f, hc, hid, hm⟩, ⟨comp, ?_, ?_, hc1, hcm, hum, ?_⟩, h.nonempty⟩
  · rw [he, blockTail_std E hck]
    simp only [XzDecode.blockPadLen, List.append_assoc]
  · rw [hrec, h12, hcs]
  · intro s cap hs1 hs2 hcap
    exact hdec s cap (by have := hs1 f (by rw [hc]; simp); omega) hs2 hcap

/-- the encoder with C01's chunk codec for every Block and liblzma's Check -/
structure StdEnv (E : Env St) (dictSize : Nat) (P : Parser) : Prop where
  codec : ∀ i, E.codec i = lzmaCodec dictSize P
  check : StdCheck E

/-- an instance: `lzmaEnv` with the real Check -/
def xzEnv (dictSize : Nat) (P : Parser) : Env St := { lzmaEnv dictSize P with checkBytes := XzEnv.check }

theorem xzEnv_std (dictSize : Nat) (P : Parser) : StdEnv (xzEnv dictSize P) dictSize P := ⟨fun _ => rfl, fun _ _ => rfl⟩

open XzVerif.Container XzVerif.XzDecode in
/-- After ANY history of a single-threaded Stream encoder whose chains are one LZMA2 filter each: every Block closed so far
    has the facts `FlushXz.BlockFacts` (with its Index Record), next to the abstract invariant `StreamOk`. -/
theorem stream_blocks_facts {E : Env St} (dictSize : Nat) (hd : dictSize ≤ 4294967295) (P : Parser)
    (hS : (lzmaCodec dictSize P).Sound) (hE : StdEnv E dictSize P) (F : Fmt) (fs : Chain) (check : Nat)
    (hfs : SingleL2 dictSize fs) (hacc : (StreamEnc.init (E.codec 0) fs check).2 = .ok)
    (ops : List Flush.Op) (hops : ∀ op ∈ ops, SingleOp dictSize op)
    (hlive : (Enc.execAll E (Enc.streamInit E fs check) ops).1.dead = false) :
    ∃ s, (Enc.execAll E (Enc.streamInit E fs check) ops).1.core = .stream s ∧ s.check = check ∧
      StreamOk E F s (render F (Enc.execAll E (Enc.streamInit E fs check) ops).2.segs)
        (Enc.execAll E (Enc.streamInit E fs check) ops).2.input (Enc.execAll E (Enc.streamInit E fs check) ops).1.finished ∧
      ∀ (i : Nat) (b : DoneBlock), s.done[i]? = some b → ∃ rec, s.records[i]? = some rec ∧ BlockFacts check b rec := by
  have hinv := StreamChInv.execAll (F := F) dictSize hd P hS hE.codec ops _ _ hops (StreamChInv.init E F dictSize hfs hacc)
  change StreamChInv E F dictSize (Enc.execAll E (Enc.streamInit E fs check) ops).1 (Enc.execAll E (Enc.streamInit E fs check) ops).2 at hinv
  obtain ⟨s, hcore, hch⟩ := hinv.ch hlive
  obtain ⟨s', hcore', hok⟩ := hinv.inv.core hlive
  rw [hcore] at hcore'; cases hcore'
  have hchk : s.check = check := CheckIs.execAll E (CheckIs.init E fs check) ops s hcore
  refine ⟨s, hcore, hchk, hok, ?_⟩
  intro i b hb
  obtain ⟨r, hr, hd⟩ := hch.doneCh i b hb
  rw [hchk] at hd
  exact ⟨r, hr, hd.blockFacts hE.check⟩

open XzVerif.Container XzVerif.XzDecode in
/-- LZMA_FINISH: the finished Stream, rendered with the container encoders (`stdFmt`), is decoded by the container decoder
    model to the whole input, and is a valid .xz file of the declarative grammar — provided `lzma_index_append` accepted
    every Record (stream_encoder.c returns its error otherwise; the flush model has no such error path). -/
theorem finished_stream_xz {E : Env St} (dictSize : Nat) (hd : dictSize ≤ 4294967295) (P : Parser)
    (hS : (lzmaCodec dictSize P).Sound) (hE : StdEnv E dictSize P) (fs : Chain) (check : Nat)
    (hsup : checkIsSupported check = true)
    (hfs : SingleL2 dictSize fs) (hacc : (StreamEnc.init (E.codec 0) fs check).2 = .ok)
    (ops : List Flush.Op) (hops : ∀ op ∈ ops, SingleOp dictSize op) (data : Bytes)
    (hrun : (Enc.execAll E (Enc.streamInit E fs check) ops).1.finished = false)
    (hlive : (Enc.execAll E (Enc.streamInit E fs check) (ops ++ [.code .finish data])).1.dead = false) :
    ∃ s, (Enc.execAll E (Enc.streamInit E fs check) (ops ++ [.code .finish data])).1.core = .stream s ∧
      Flush.doneData s.done = (Enc.execAll E (Enc.streamInit E fs check) (ops ++ [.code .finish data])).2.input ∧
      ∀ acc, indexAppendAll (s.records.map recOf) {} = .ok acc → ∀ (fl : Flags) (cap : Nat),
        (Enc.execAll E (Enc.streamInit E fs check) (ops ++ [.code .finish data])).2.input.length ≤ cap →
        xzDecode XzEnv.stdEnv fl (render (stdFmt check) (Enc.execAll E (Enc.streamInit E fs check) (ops ++ [.code .finish data])).2.segs) cap
          = { ret := .streamEnd, out := (Enc.execAll E (Enc.streamInit E fs check) (ops ++ [.code .finish data])).2.input,
              consumed := (render (stdFmt check) (Enc.execAll E (Enc.streamInit E fs check) (ops ++ [.code .finish data])).2.segs).length,
              events := headerEvents XzEnv.stdEnv fl check } ∧
        DValidXz XzEnv.stdEnv fl (render (stdFmt check) (Enc.execAll E (Enc.streamInit E fs check) (ops ++ [.code .finish data])).2.segs) cap
          (Enc.execAll E (Enc.streamInit E fs check) (ops ++ [.code .finish data])).2.input
          (render (stdFmt check) (Enc.execAll E (Enc.streamInit E fs check) (ops ++ [.code .finish data])).2.segs).length := by
  have hEs : ∀ i, (E.codec i).Sound := fun i => by rw [hE.codec]; exact hS
  have hops' : ∀ op ∈ ops ++ [Flush.Op.code .finish data], SingleOp dictSize op := by
    intro op hop
    rcases List.mem_append.mp hop with h | h
    · exact hops op h
    · simp only [List.mem_singleton] at h; subst h; trivial
  obtain ⟨s, hcore, hchk, hok, hfacts⟩ := stream_blocks_facts dictSize hd P hS hE (stdFmt check) fs check hfs hacc _ hops' hlive
  -- the encoder has finished
  have hr := execAll_append E (Enc.streamInit E fs check) ops (.code .finish data)
  have hlive' : (Enc.exec E (Enc.execAll E (Enc.streamInit E fs check) ops) (.code .finish data)).1.dead = false := by
    rw [← hr]; exact hlive
  have hal : (Enc.execAll E (Enc.streamInit E fs check) ops).1.dead = false := by
    cases hdd : (Enc.execAll E (Enc.streamInit E fs check) ops).1.dead
    · rfl
    · rw [Enc.exec_dead E _ _ _ hdd] at hlive'; cases hlive'
  have hinv0 := StreamInv.execAll hEs (F := stdFmt check) (StreamInv.init E (stdFmt check) hacc) ops
  obtain ⟨_, _, _, _, _, _, _, hfin, _, _⟩ := StreamInv.code_step hEs hinv0 hal hrun .finish data hlive'
  rw [← hr] at hfin
  have hfin' : (Enc.execAll E (Enc.streamInit E fs check) (ops ++ [.code .finish data])).1.finished = true := by rw [hfin]; rfl
  rw [hfin'] at hok
  obtain ⟨_, hout, hin⟩ := hok.ended rfl
  refine ⟨s, hcore, hin.symm, ?_⟩
  intro acc hidx fl cap hcap
  rw [hchk] at hout
  have := finished_stream_valid check hsup s.done s.records hok.recs
    (fun i b r hb hr' => by
      obtain ⟨r2, hr2, hf⟩ := hfacts i b hb
      rw [hr2] at hr'; cases hr'; exact hf)
    acc hidx fl cap (by rw [← hin]; exact hcap) _ hout
  rw [← hin] at this
  exact this

end XzVerif.FlushC01
