/-
  Assembly: one step of the model preserves data + control invariant, except when read_output_and_wait removes a failed Block,
  in which case the single-threaded result has been reached. Global invariant over all reachable states.
-/
import XzVerif.Lemmas.MtDecGlobal

namespace XzVerif.MtDec

theorem inv_step {s s' : State} {l : Label} (h : Inv s) (hs : step s l = some s') :
    Inv s' ∨ (∃ r k, BadPop s' r ∧ s'.pc = .rowDone k r false ∧ s'.returned = s.returned ∧ s'.blocks = s.blocks ∧
      s'.cfg = s.cfg) := by
  cases hw : l.worker? with
  | some i => exact Or.inl (h.worker hw hs)
  | none =>
    cases l <;> simp only [Label.worker?, reduceCtorEq] at hw
    case rowIter c =>
      rcases rowIter_spec h c hs with hb | hi
      · exact Or.inr hb
      · exact Or.inl hi.1
    case call f n c => exact Or.inl (h.call f n c hs)
    case ret => exact Or.inl (h.ret hs)
    case endCall => exact Or.inl (h.endCall hs)
    case hdrNeed => exact Or.inl (h.hdrNeed hs)
    case hdrGot => exact Or.inl (h.hdrGot hs)
    case hdrFatal => exact Or.inl (h.hdrFatal hs)
    case needInput => exact Or.inl (h.needInput hs)
    case ffStop => exact Or.inl (h.ffStop hs)
    case blockInit => exact Or.inl (h.blockInit hs)
    case thrInitEnter => exact Or.inl (h.thrInitEnter hs)
    case directInit => exact Or.inl (h.directInit hs)
    case rowTimeout => exact Or.inl (h.rowTimeout hs)
    case rowDone => exact Or.inl (h.rowDone hs)
    case stopOne => exact Or.inl (h.stopOne hs)
    case rowOk => exact Or.inl (h.rowOk hs)
    case memUpdate => exact Or.inl (h.memUpdate hs)
    case getThread => exact Or.inl (h.getThread hs)
    case assign => exact Or.inl (h.assign hs)
    case startThr => exact Or.inl (h.startThr hs)
    case enablePartial => exact Or.inl (h.enablePartial hs)
    case copyIn k n => exact Or.inl (h.copyIn k n hs)
    case tell => exact Or.inl (h.tell hs)
    case directStep n d => exact Or.inl (h.directStep n d hs)
    case indexStep g => exact Or.inl (h.indexStep g hs)
    case seqError => exact Or.inl (h.seqError hs)
    case endSet => exact Or.inl (h.endSet hs)
    case endJoin => exact Or.inl (h.endJoin hs)

/-- Holds in every reachable state. -/
structure GInv (cfg : Cfg) (blocks : List Block) (s : State) : Prop where
  hblocks : s.blocks = blocks
  hcfg : s.cfg = cfg
  pre : s.delivered <+: stOutput blocks
  inv : exitCode s = none → Inv s
  retPc : RetPc s
  stopFatal : StopFatal s

theorem BadPop.exit {s : State} {r : Ret} {k : RowK} (hb : BadPop s r) (hp : s.pc = .rowDone k r false)
    (hr : s.returned = none) : exitCode s = some r := by
  have : fatal r = true := by simp [fatal, hb.nok.1, hb.nok.2]
  simp [exitCode, hr, hp, this]

theorem GInv.init (cfg : Cfg) (blocks : List Block) (hwf : ∀ b ∈ blocks, b.WF) : GInv cfg blocks (init cfg blocks) := by
  refine ⟨rfl, rfl, ?_, fun _ => ⟨DataInv.init cfg blocks hwf, CtlInv.init cfg blocks⟩, ?_, ?_⟩
  · exact (DataInv.init cfg blocks hwf).prefix
  · intro r hr; simp [MtDec.init] at hr
  · intro i r hp; simp [MtDec.init] at hp

theorem delivered_of_outRev {s s' : State} (h : s'.outRev = s.outRev) : s'.delivered = s.delivered := by
  simp [State.delivered, h]

theorem GInv.step {cfg : Cfg} {blocks : List Block} {s s' : State} {l : Label} (h : GInv cfg blocks s)
    (hs : step s l = some s') : GInv cfg blocks s' := by
  cases he : exitCode s with
  | some r =>
    -- a fatal value is on its way out: nothing changes any more
    cases hw : l.worker? with
    | some i =>
      obtain ⟨e1, e2, e3, e4, e5, e6⟩ := worker_exit (workerShape hw hs)
      exact ⟨e3.trans h.hblocks, e4.trans h.hcfg, by rw [delivered_of_outRev e2]; exact h.pre,
             (fun hx => by rw [e1, he] at hx; cases hx), e5 h.retPc, e6 h.stopFatal⟩
    | none =>
      obtain ⟨e1, e2, e3, e4, e5, e6⟩ := main_exit hw he h.retPc h.stopFatal hs
      exact ⟨e3.trans h.hblocks, e4.trans h.hcfg, by rw [delivered_of_outRev e2]; exact h.pre,
             (fun hx => by rw [e1] at hx; cases hx), e5, e6⟩
  | none =>
    have hI := h.inv he
    have hret : s.returned = none := by
      unfold exitCode at he
      split at he
      · cases he
      · assumption
    rcases inv_step hI hs with hI' | ⟨r, k, hb, hp, hr, hbl, hcf⟩
    · -- invariants hold in s'
      have hconst : s'.blocks = s.blocks ∧ s'.cfg = s.cfg ∧ (s'.returned = s.returned ∨ s'.pc = .idle) := by
        cases hw : l.worker? with
        | some i => have sh := workerShape hw hs; exact ⟨sh.blocks, sh.cfg, Or.inl sh.returned⟩
        | none =>
          cases hr : l.isRowIter with
          | false => exact main_const hw hr hs
          | true =>
            cases l <;> simp only [Label.isRowIter, reduceCtorEq] at hr
            rename_i c
            rcases rowIter_spec hI c hs with ⟨r, k, _, _, h1, h2, h3⟩ | ⟨_, h1, h2, h3, _⟩
            · exact ⟨h2, h3, Or.inl h1⟩
            · exact ⟨h2, h3, Or.inl h1⟩
      refine ⟨hconst.1.trans h.hblocks, hconst.2.1.trans h.hcfg, ?_, fun _ => hI', ?_, ?_⟩
      · have := hI'.1.prefix; rw [hconst.1, h.hblocks] at this; exact this
      · intro r hr
        rcases hconst.2.2 with e | e
        · rw [e, hret] at hr; cases hr
        · exact Or.inl e
      · cases hw : l.worker? with
        | some j => have sh := workerShape hw hs; intro i r hp; exact h.stopFatal i r (sh.pc ▸ hp)
        | none =>
          cases hr : l.isRowIter with
          | false => exact main_stopFatal hw hr h.stopFatal hs
          | true =>
            cases l <;> simp only [Label.isRowIter, reduceCtorEq] at hr
            rename_i c
            intro i r hp
            rcases rowIter_spec hI c hs with ⟨r', k', _, hp', _⟩ | ⟨_, _, _, _, _, hk⟩
            · rw [hp'] at hp; cases hp
            · rw [hp] at hk; simp [rowKOf] at hk
    · -- read_output_and_wait removed a failed Block
      have hfin := hb.final
      rw [hbl, h.hblocks] at hfin
      refine ⟨hbl.trans h.hblocks, hcf.trans h.hcfg, ?_, ?_, ?_, ?_⟩
      · have : s'.delivered = stOutput blocks := by unfold stOutput; rw [← hfin]
        rw [this]; exact List.prefix_refl _
      · intro hx
        rw [hb.exit hp (hr.trans hret)] at hx; cases hx
      · intro r' hr'; rw [hr, hret] at hr'; cases hr'
      · intro i r' hp'; rw [hp] at hp'; cases hp'

theorem GInv.reachable {cfg : Cfg} {blocks : List Block} (hwf : ∀ b ∈ blocks, b.WF) {s : State}
    (h : Reachable cfg blocks s) : GInv cfg blocks s := by
  induction h with
  | init => exact GInv.init cfg blocks hwf
  | step l _ hs ih => exact ih.step hs

end XzVerif.MtDec
