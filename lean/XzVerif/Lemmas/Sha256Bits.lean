/-
  SHA-256, bit level: the nested-rotate forms of S0/S1/s0/s1 and the Ch/Maj variants used by sha256.c equal the
  textbook forms of FIPS 180-4 §4.1.2.  Kernel proofs (bit extensionality over 32-bit words), no bv_decide.
-/
import XzVerif.Model.Sha256
namespace XzVerif.Sha256

theorem rot_bit (x : W32) (r i : Nat) (hr : r < 32) (hi : i < 32) :
    (x.rotateRight r).getLsbD i = x.getLsbD ((r + i) % 32) := by
  rw [BitVec.getLsbD_rotateRight, Nat.mod_eq_of_lt hr]
  by_cases h : i < 32 - r
  · have : (r + i) % 32 = r + i := Nat.mod_eq_of_lt (by omega)
    simp [h, this]
  · have : (r + i) % 32 = i - (32 - r) := by omega
    simp [h, hi, this]

/-- `rotr_32(num, amount)` of sha256.c is a right rotation. -/
theorem rotr32_eq (x : W32) (n : Nat) (hn : n < 32) : rotr32 x n = x.rotateRight n := by
  rw [rotr32, BitVec.rotateRight_def, Nat.mod_eq_of_lt hn]

theorem rot_xor (x y : W32) (r : Nat) (hr : r < 32) :
    (x ^^^ y).rotateRight r = x.rotateRight r ^^^ y.rotateRight r := by
  apply BitVec.eq_of_getLsbD_eq
  intro i hi
  simp only [BitVec.getLsbD_xor, rot_bit _ r i hr hi]

theorem rot_rot (x : W32) (a b : Nat) (ha : a < 32) (hb : b < 32) :
    (x.rotateRight a).rotateRight b = x.rotateRight ((a + b) % 32) := by
  apply BitVec.eq_of_getLsbD_eq
  intro i hi
  rw [rot_bit _ b i hb hi, rot_bit _ a _ ha (Nat.mod_lt _ (by decide)), rot_bit _ _ i (Nat.mod_lt _ (by decide)) hi]
  congr 1
  omega

theorem S0_eq (x : W32) : S0 x = bsig0 x := by
  simp only [S0, bsig0, rotr, rotr32_eq _ _ (by decide : 9 < 32), rotr32_eq _ _ (by decide : 11 < 32),
    rotr32_eq _ _ (by decide : 2 < 32), rot_xor _ _ _ (by decide : 11 < 32), rot_xor _ _ _ (by decide : 2 < 32),
    rot_rot _ _ _ (by decide : 9 < 32) (by decide : 11 < 32), rot_rot _ _ _ (by decide : 11 < 32) (by decide : 2 < 32),
    rot_rot _ _ _ (by decide : (9 + 11) % 32 < 32) (by decide : 2 < 32)]
  rw [BitVec.xor_assoc]

theorem S1_eq (x : W32) : S1 x = bsig1 x := by
  simp only [S1, bsig1, rotr, rotr32_eq _ _ (by decide : 14 < 32), rotr32_eq _ _ (by decide : 5 < 32),
    rotr32_eq _ _ (by decide : 6 < 32), rot_xor _ _ _ (by decide : 5 < 32), rot_xor _ _ _ (by decide : 6 < 32),
    rot_rot _ _ _ (by decide : 14 < 32) (by decide : 5 < 32), rot_rot _ _ _ (by decide : 5 < 32) (by decide : 6 < 32),
    rot_rot _ _ _ (by decide : (14 + 5) % 32 < 32) (by decide : 6 < 32)]
  rw [BitVec.xor_assoc]

theorem s0_eq (x : W32) : s0 x = ssig0 x := by
  simp only [s0, ssig0, rotr, rotr32_eq _ _ (by decide : 11 < 32), rotr32_eq _ _ (by decide : 7 < 32),
    rot_xor _ _ _ (by decide : 7 < 32), rot_rot _ _ _ (by decide : 11 < 32) (by decide : 7 < 32)]

theorem s1_eq (x : W32) : s1 x = ssig1 x := by
  simp only [s1, ssig1, rotr, rotr32_eq _ _ (by decide : 2 < 32), rotr32_eq _ _ (by decide : 17 < 32),
    rot_xor _ _ _ (by decide : 17 < 32), rot_rot _ _ _ (by decide : 2 < 32) (by decide : 17 < 32)]

theorem ChC_eq (x y z : W32) : ChC x y z = Ch x y z := by
  apply BitVec.eq_of_getLsbD_eq
  intro i _
  simp only [ChC, Ch, BitVec.getLsbD_xor, BitVec.getLsbD_and, BitVec.getLsbD_not]
  cases x.getLsbD i <;> cases y.getLsbD i <;> cases z.getLsbD i <;> simp_all

theorem MajC_eq (x y z : W32) : MajC x y z = Maj x y z := by
  have hdis : (x &&& (y ^^^ z)) &&& (y &&& z) = 0#32 := by
    apply BitVec.eq_of_getLsbD_eq
    intro i _
    simp only [BitVec.getLsbD_and, BitVec.getLsbD_xor, BitVec.getLsbD_zero]
    cases x.getLsbD i <;> cases y.getLsbD i <;> cases z.getLsbD i <;> rfl
  rw [MajC, BitVec.add_eq_or_of_and_eq_zero _ _ hdis]
  apply BitVec.eq_of_getLsbD_eq
  intro i _
  simp only [Maj, BitVec.getLsbD_xor, BitVec.getLsbD_and, BitVec.getLsbD_or]
  cases x.getLsbD i <;> cases y.getLsbD i <;> cases z.getLsbD i <;> rfl

end XzVerif.Sha256
