/-
  C04 (termination / totality): THE FUEL OF THE DECODER MODELS IS NEVER EXHAUSTED — index of the results.

  Form of every result: for a model function `f : Nat(fuel) → args → result` with an out-of-fuel branch
  `| 0, … => v₀`, and the amount `F(args)` its top-level caller supplies,

        measure(args) < fuel  →  ∀ k, f (fuel + k) args = f fuel args            (`*_fuel`)
        ∀ k, f (F(args) + k) args = <the top-level definition>                   (`*_supplies_enough`, `xzCall_fuel`, …)

  for ALL inputs and all abstract parameters.  The recursion depth on a given input being finite, this says that the
  out-of-fuel branch never determines the result.  (The direct form "result ≠ v₀" is not stated: in every function
  below `v₀` (`.progError`, `.error .dataError`, code 11, `none`, `[]`, `left`) is also a legitimate result of another
  branch — e.g. the abstract payload decoder `E.payload` may itself return `.progError`.)

  DIRECT FORM (audit S-3): for the loops cited by Props/C04 (`blocksLoop`, both `xzLoop`s, `lzipLoop`, `indexDecodeRecords`,
  `vliSizeAux`, `vliSizeGo`, `streamLoop`, both `nextStreamFrom`s, `bsearch`, `iterAllGo`) Lemmas/C04FuelReachXz.lean and
  Lemmas/C04FuelReachIndex.lean define Option-valued twins `f?` (`none` iff the `0` branch is REACHED) and prove
  `measure < fuel → f? fuel x = some (f fuel x)` (`*_reach`): independence alone would also hold for a stuttering loop.

  A. FUELLED decoder / parser models and where their fuel is proved sufficient
  ---------------------------------------------------------------------------------------------------------------
  function (Model file:line)                fuel supplied by                  theorem(s)
  XzDecode.blocksLoop   XzDecode.lean:305   streamOne: inp.length + 1         C04FuelXz: XzDecode.blocksLoop_fuel, streamOne_fuel
  XzDecode.xzLoop       XzDecode.lean:360   xzCall: inp.length + 1            C04FuelXz: XzDecode.xzLoop_fuel, xzCall_fuel,
                                                                                xzDecode_fuel, xzBufferDecode_fuel
  XzConcat.xzLoop       XzConcat.lean:49    xzDecode: inp.length + 1          C04FuelXz: XzConcat.xzLoop_fuel, xzDecode_fuel
                                                                                (hyp. `Progress X1`; `streamOne_progress`)
  Lzip.lzipLoop         Lzip.lean:131       lzipDecode: inp.length + 1        C04FuelXz: Lzip.lzipLoop_fuel, lzipDecode_fuel
  Container.indexDecodeRecords Container.lean:612  indexDecode: r1.length     C04FuelIndex: Container.indexDecodeRecords_fuel,
                                                                                indexDecode_supplies_enough
  Vli.vliSizeAux        Vli.lean:39         vliSize: 8                        C04FuelIndex: Vli.vliSizeAux_fuel, vliSize_fuel
  Index.vliSizeGo       IndexSpec.lean:51   vliSize: 10                       C04FuelIndex: Index.vliSizeGo_fuel, vliSize_fuel
  Index.streamLoop      FileInfo.lean:197   fileInfo: file.size + 2           C04FuelIndex: Index.streamLoop_fuel,
                                                                                fileInfo_supplies_enough (measure `fiMeasure`)
  Index.Spec.nextStreamFrom IndexSpec.lean:345  advance: i.length + 1         C04FuelIter: Spec.nextStreamFrom_fuel, advance_supplies_enough
  Index.Spec.iterNextPos    IndexSpec.lean:377  Spec.iterFuel i               C04FuelIter: Spec.iterNextPos_fuel (hyp. `CurOk`), Spec.iterSeq_fuel
  Index.Impl.nextStreamFrom IndexImpl.lean:400  nextLoop: streams.count + 1   C04FuelIter: Impl.nextStreamFrom_fuel (hyp. `Inv i`)
  Index.Impl.nextLoop       IndexImpl.lean:421  iterNext: Impl.iterFuel i     C04FuelIter: Impl.nextLoop_fuel_of_ne3, nextLoop_fuel3,
                                                                                iterNext_supplies_enough (hyp. `Inv i`, `CondC`)
  Index.Impl.bsearch        IndexImpl.lean:465  iterLocate: records.size + 1  C04FuelIter: Impl.bsearch_fuel, iterLocate_supplies_enough
  Index.Impl.iterAllGo      IndexImpl.lean:489  iterAll: Impl.iterFuel i      C04FuelIter: Impl.iterAll_supplies_enough (hyp. `Inv i`)
      (see also Props/C13 `iter_next_refines_spec`, `iter_visits_once`, `iter_listing_exact`: with `iterFuel` the
       iterator returns exactly the declarative listing)
  Memlimit.retryLoop        Memlimit.lean:326   callers: sets.length + 2      C04FuelMemlimit: retryLoop_fuel, retryLoop_supplies_enough
  Memlimit.streamBody       Memlimit.lean:360   streams: inp.length + 2       C04FuelMemlimit: streamBody_fuel, streamBody_supplies_enough
  Memlimit.streams          Memlimit.lean:402   runXz: inp.length + 2         C04FuelMemlimit: streams_fuel, streams_supplies_enough
  Memlimit.mtBlockInitLoop  Memlimit.lean:671   mtStreamBody: sets.length + 2 C04FuelMemlimit: mtBlockInitLoop_fuel
  Memlimit.mtStreamBody     Memlimit.lean:681   mtStreams: inp.length + 2     C04FuelMemlimit: mtStreamBody_fuel, mtStreamBody_supplies_enough
  Memlimit.mtStreams        Memlimit.lean:718   runXzMt: inp.length + 2       C04FuelMemlimit: mtStreams_fuel, mtStreams_supplies_enough
  XzStruct.walkChunks       XzStruct.lean:77    validateBlock: out.size       C04FuelStruct: walkChunks_fuel, walkChunks_supplies_enough
  XzStruct.validateBlocks   XzStruct.lean:175   validateXz: out.size          C04FuelStruct: validateBlocks_fuel, validateBlocks_supplies_enough
  Lzma.symLoop / Lzma2.lzma2Loop / Lzma.decodeBuffer  (Lzma.lean:461,554, Lzma2.lean:94)     Props/C03 `fuel_never_exhausted`
  BcjX86.x86Loop            BcjX86.lean:32      (filter, not a decoder of the container)     Props/C15 (any fuel ≥ 2 gives the same result)

  B. Decoder / parser models that are STRUCTURALLY recursive (no fuel; accepted by Lean's structural termination check)
  ---------------------------------------------------------------------------------------------------------------
  XzDecode.padCheck          XzDecode.lean:83    structural on the number of padding bytes `k` (and the input)
  XzDecode.matchBytes        XzDecode.lean:94    structural on the expected bytes
  XzDecode.indexRecords      XzDecode.lean:235   structural on `remaining` (Number of Records still to read)
  XzDecode.streamPadding     XzDecode.lean:349   structural on the input
  XzDecode.blockDecode / indexFinish / indexHashDecode / indexAndFooter / streamOne / xzCall / xzDecode / xzBufferDecode: not recursive
  Vli.vliDecodeAux           Vli.lean:47         structural on the input   (vliDecode :59 = vliDecodeAux 0)
  Vli.vliDecLoop             Vli.lean:90         structural on the input   (vliDecodeMulti :103 not recursive)
  Index.vliDecodeGo          IndexSpec.lean:114  structural on the input
  Index.matchBytes           IndexSpec.lean:412  structural on the expected bytes
  Index.decodeRecords        IndexSpec.lean:418  structural on the Record count   (decodeG :437 not recursive)
  Index.Spec.locateInBlocks / locateInStreams  IndexSpec.lean:324,329  structural on the list
  Index.trailingZeros        FileInfo.lean:68    structural on the window size
  Index.HashSt.records       FileInfo.lean:259   structural on the Record count
  Container.headerDecodeFilters Container.lean:490  structural on the Number of Filters
  Container.validateChainLoop   Container.lean:312  structural on the list of Filter IDs
  Container.indexAppendAll      Container.lean:586  structural on the list of Records
  Lzip.idString              Lzip.lean:63        structural on the magic bytes still expected
  XzConcat.leadingZeros      XzConcat.lean:29    structural on the input
  Memlimit.trySets :167, countZeros :396           structural on the list
  Alone.lean, Auto.lean: no recursive function, no fuel (`aloneDecode`, `autoDecode` dispatch to the parameters).

  C. Skipped on purpose: encoders (Vli.vliEncodeAux :32, Vli.vliEncLoop :71, Container.lzma2UncompressedChunksAux :696,
     XzEncode, LzmaEnc …), LzmaSpec.decLoop (LzmaSpec.lean:54: the "fuel" is the symbol budget of the SPECIFICATION
     decoder, a semantic parameter), check computations (Sha256 updateLoop/padLoop, CrcClmul loop64/loop16,
     XzStruct crc32Go/crc64Go: fuel = exact iteration count), Flush, Alloc, Mt*, Memusage, Sparse, Shell, Suffix, XzIo, XzAdjust.
     Well-founded recursion checked by Lean itself: Index.vliEncode IndexSpec.lean:99 (`termination_by v`, an encoder),
     ByteMachine.exec Coder.lean:83 (`termination_by inp.length + cap + …`).
-/
import XzVerif.Lemmas.C04FuelXz
import XzVerif.Lemmas.C04FuelIndex
import XzVerif.Lemmas.C04FuelIter
import XzVerif.Lemmas.C04FuelMemlimit
import XzVerif.Lemmas.C04FuelStruct
import XzVerif.Lemmas.C04FuelReachXz
import XzVerif.Lemmas.C04FuelReachIndex
