/-
  LiveInv: buffer assignment (SEQ_BLOCK_THR_INIT: thr->in allocated, outbuf taken from the queue's cache and appended).
-/
import XzVerif.Lemmas.MtDecLive4

namespace XzVerif.MtDec

/-- The assignment step on an abstract target state `S` described by equations. -/
theorem LiveInv.assignCore {s S : State} (h : LiveInv s) (hD : DataInv s) (t' : Nat) (wNew : Worker) (oNew : Outbuf)
    (hpc : s.pc = .init3) (hthr : s.thr = some t') (hseq : s.seq = .thrInit)
    (ht2 : t' < s.workers.length) (ht3 : idlePc (getW s t').pc) (ht5 : (getW s t').hasOut = false)
    (hinsz : 0 < (blk s s.cur).inSize)
    (w1 : wNew.hasOut = true) (w2 : wNew.blk = s.cur) (w3 : wNew.pc = (getW s t').pc) (w4 : wNew.pu = .disabled)
    (w5 : wNew.inPos = 0) (w6 : wNew.inSize = (blk s s.cur).inSize)
    (o1 : oNew.blk = s.cur) (o2 : oNew.worker = some t') (o3 : oNew.finished = false)
    (hgw : ∀ j, getW S j = if t' = j then wNew else getW s j) (eL : S.workers.length = s.workers.length)
    (eQ : S.queue = s.queue ++ [oNew]) (ePc : S.pc = .init4) (eThr : S.thr = s.thr) (eSeq : S.seq = s.seq) : LiveInv S := by
  have hlen := hD.lenLe
  have hhd : hd s + s.queue.length = s.cur := by unfold hd; omega
  have hltq : ∀ o ∈ s.queue, o.blk < s.cur := fun o ho => by have := (hD.consec.mem ho).2; omega
  have hblkLt : ∀ j, j < s.workers.length → (getW s j).hasOut = true → (getW s j).blk < s.cur := by
    intro j hj ho
    obtain ⟨o, hoq, e⟩ := ((hD.wk j hj).has ho).2.1
    have := hltq o hoq; omega
  have ownOld : ∀ o j, o ∈ s.queue → Owner s o j → Owner S o j := by
    intro o j _ ⟨a, b, c⟩
    have hne : t' ≠ j := fun e => by subst e; rw [ht5] at b; cases b
    exact ⟨eL ▸ a, by rw [hgw]; simp only [hne, if_false]; exact b, by rw [hgw]; simp only [hne, if_false]; exact c⟩
  have ownNew : Owner S oNew t' :=
    ⟨eL ▸ ht2, by rw [hgw]; simp only [if_true]; exact w1, by rw [hgw]; simp only [if_true]; rw [w2, o1]⟩
  have ownBack : ∀ o j, o ∈ s.queue → Owner S o j → Owner s o j := by
    intro o j ho ⟨a, b, c⟩
    have a' : j < s.workers.length := eL ▸ a
    rw [hgw] at b c
    by_cases e : t' = j
    · subst e
      simp only [if_true] at c
      have : o.blk < s.cur := hltq o ho
      rw [w2] at c
      omega
    · simp only [e, if_false] at b c
      exact ⟨a', b, c⟩
  refine ⟨?_, ?_, ?_, ?_, ?_, ?_, ?_, ?_, ?_, ?_, ?_, ?_, ?_, ?_, ?_⟩
  · -- own
    intro o ho hf
    rw [eQ] at ho
    rcases List.mem_append.mp ho with ho | ho
    · obtain ⟨j, hj⟩ := h.own o ho hf
      exact ⟨j, ownOld o j ho hj⟩
    · simp at ho; subst ho; exact ⟨t', ownNew⟩
  · -- run
    intro j hj ho hb
    rw [eL] at hj
    rw [hgw] at ho hb ⊢
    by_cases e : t' = j
    · subst e; exact Or.inr ⟨ePc, eThr.trans hthr⟩
    · simp only [e, if_false] at ho hb ⊢
      rcases h.run j hj ho hb with x | ⟨x, _⟩
      · exact Or.inl x
      · rw [hpc] at x; cases x
  · -- wrk
    intro o ho w hw hf
    rw [eQ] at ho
    rcases List.mem_append.mp ho with ho | ho
    · exact ownOld o w ho (h.wrk o ho w hw hf)
    · simp at ho; subst ho
      have : w = t' := by rw [o2] at hw; injection hw with e; exact e.symm
      subst this; exact ownNew
  · -- tailW
    intro hh tl hq o ho
    rw [eQ] at hq
    cases hq0 : s.queue with
    | nil =>
      have : s.queue ++ [oNew] = [oNew] := by rw [hq0]; rfl
      have hq' : hh :: tl = [oNew] := by rw [← this]; exact hq.symm
      injection hq' with _ e2; subst e2; cases ho
    | cons a t0 =>
      have : s.queue ++ [oNew] = a :: (t0 ++ [oNew]) := by rw [hq0]; rfl
      have hq' : hh :: tl = a :: (t0 ++ [oNew]) := by rw [← this]; exact hq.symm
      injection hq' with _ e2; subst e2
      rcases List.mem_append.mp ho with ho | ho
      · exact h.tailW a t0 hq0 o ho
      · simp at ho; subst ho; rw [o2]; simp
  · -- head
    intro hh tl hq hf
    rw [eQ] at hq
    cases hq0 : s.queue with
    | nil =>
      have : s.queue ++ [oNew] = [oNew] := by rw [hq0]; rfl
      have hq' : hh :: tl = [oNew] := by rw [← this]; exact hq.symm
      injection hq' with e1 e2; subst e1 e2
      exact Or.inr ⟨by rw [o2]; simp, Or.inl ePc, rfl⟩
    | cons a t0 =>
      have : s.queue ++ [oNew] = a :: (t0 ++ [oNew]) := by rw [hq0]; rfl
      have hq' : hh :: tl = a :: (t0 ++ [oNew]) := by rw [← this]; exact hq.symm
      injection hq' with e1 e2; subst e1 e2
      have ha : hh ∈ s.queue := by rw [hq0]; simp
      rcases h.head hh t0 hq0 hf with ⟨x, y⟩ | ⟨_, y, _⟩
      · refine Or.inl ⟨x, fun j hj => ?_⟩
        have hj' := ownBack hh j ha hj
        have hne : t' ≠ j := fun e => by subst e; have := hj'.2.1; rw [ht5] at this; cases this
        rw [hgw]; simp only [hne, if_false]; exact y j hj'
      · rcases y with e | e <;> (rw [hpc] at e; cases e)
  · -- pub
    intro j hj ho hl hpu o hoq hb
    rw [eL] at hj
    rw [hgw] at ho hl hpu hb ⊢
    by_cases e : t' = j
    · subst e; simp only [if_true] at hpu; rw [w4] at hpu; cases hpu
    · simp only [e, if_false] at ho hl hpu hb ⊢
      rw [eQ] at hoq
      rcases List.mem_append.mp hoq with hoq | hoq
      · exact h.pub j hj ho hl hpu o hoq hb
      · simp at hoq; subst hoq
        have := hblkLt j hj ho
        rw [o1] at hb
        omega
  · -- snap
    intro j hj lim hp
    rw [eL] at hj
    rw [hgw] at hp ⊢
    by_cases e : t' = j
    · subst e
      simp only [if_true] at hp
      rw [w3] at hp
      rw [hp] at ht3; cases ht3
    · simp only [e, if_false] at hp ⊢; exact h.snap j hj lim hp
  · -- full
    intro j hj ho ht
    rw [eL] at hj
    rw [hgw] at ho ⊢
    by_cases e : t' = j
    · subst e; exact absurd (eThr.trans hthr) ht
    · simp only [e, if_false] at ho ⊢; exact h.full j hj ho (eThr ▸ ht)
  · -- pos
    intro j hj ho hb
    rw [eL] at hj
    rw [hgw] at ho hb ⊢
    by_cases e : t' = j
    · subst e; simp only [if_true]; rw [w5, w6]; exact hinsz
    · simp only [e, if_false] at ho hb ⊢; exact h.pos j hj ho hb
  · intro _; exact Or.inl (Or.inr (Or.inl ePc))
  · intro _; exact Or.inr (Or.inl ePc)
  · intro hx; exact absurd (hseq.symm.trans (eSeq.symm.trans hx)) (by simp)
  · intro hx; exact absurd (hseq.symm.trans (eSeq.symm.trans hx)) (by simp)
  · intro hx; rw [ePc] at hx; cases hx
  · intro hx; rw [ePc] at hx; rcases hx with hx | hx | hx | hx <;> cases hx

theorem LiveInv.assign {s s' : State} (h : LiveInv s) (hI : Inv s) (hs : step s .assign = some s') : LiveInv s' := by
  obtain ⟨c1, c2, c3, c4, c5, c6, c6a, c6b, c7, c8, c9, c10⟩ := hI.2
  simp only [step] at hs
  split at hs
  case h_2 => cases hs
  rename_i t hpc hthr
  cases hs
  have hseq : s.seq = .thrInit := c9 (by simp [hpc])
  obtain ⟨t', ht1, ht2, ht3, ht4, ht5, ht6⟩ := c7 hpc
  have : t' = t := by rw [hthr] at ht1; injection ht1 with e; exact e.symm
  subst this
  have hD := hI.1
  have hk : (blk s s.cur).kind = .thr := by
    rcases h.kindThr hseq with x | x | x
    · exact x
    · rw [hpc] at x; cases x
    · rw [hpc] at x; cases x
  have hwfb := blk_wf hD s.cur
  have hinsz : 0 < (blk s s.cur).inSize := by
    have a := hwfb.2.2.2.2.2.2 hk
    have b := hwfb.2.2.1
    omega
  exact h.assignCore hD t'
    { getW s t' with blk := s.cur, inAlloc := true, inSize := (blk s s.cur).inSize, hasOut := true, inFilled := 0, inPos := 0, outPos := 0, pu := .disabled }
    { blk := s.cur, worker := some t' } hpc hthr hseq ht2 ht3 ht5 hinsz rfl rfl rfl rfl rfl rfl rfl rfl rfl
    (fun j => by
      have : ∀ (w : Worker) (S2 : State), S2.workers = (MtDec.setW s t' w).workers → getW S2 j = if t' = j then w else getW s j := by
        intro w S2 e
        have : getW S2 j = getW (MtDec.setW s t' w) j := by simp [getW, e]
        rw [this, getW_setW s t' j w ht2]
      exact this _ _ rfl) (by simp) rfl rfl rfl rfl

end XzVerif.MtDec
