/-
  The rep-register invariant of the LZMA symbol decoder (Model/Lzma.lean), on which the memory safety of `dict_get` /
  `dict_repeat` in the C code rests: every distance handed to the dictionary is smaller than `dict.full`.

    RepsOk s :=  (state ≥ LIT_STATES → full > 0)  ∧  every rep_i is 0 or < full

  * it holds after `lzma_decoder_reset` (state 0, all reps 0) whatever `full` is;
  * one symbol decode that returns normally preserves it, and when the returned output step is a short rep or a copy,
    `rep0 < full` (so `dict_get(rep0)` / `dict_repeat(rep0, …)` are in bounds by `dict_indices_in_bounds`);
  * the matched-literal read `dict_get(rep0)` happens only in states ≥ LIT_STATES, where the invariant gives `rep0 < full`;
  * the output steps keep it (`full` only grows while the dictionary is not reset).
-/
import XzVerif.Lemmas.C03HoareC
import XzVerif.Lemmas.C03Frame
import XzVerif.Lemmas.C03Dict

namespace XzVerif.Lzma
open XzVerif.RangeDec XzVerif.LzDict

/-- the invariant on explicit values -/
def ROv (F st r0 r1 r2 r3 : Nat) : Prop :=
  (7 ≤ st → 0 < F) ∧ (r0 = 0 ∨ r0 < F) ∧ (r1 = 0 ∨ r1 < F) ∧ (r2 = 0 ∨ r2 < F) ∧ (r3 = 0 ∨ r3 < F)

theorem ROv.lt {F st r0 r1 r2 r3 : Nat} (h : ROv F st r0 r1 r2 r3) (hF : 0 < F) : r0 < F ∧ r1 < F ∧ r2 < F ∧ r3 < F := by
  obtain ⟨_, h0, h1, h2, h3⟩ := h
  omega

/-- the rep-register invariant of a decoder state -/
def RepsOk (s : St) : Prop := ROv s.dp.full s.state s.rep0 s.rep1 s.rep2 s.rep3

/-- exact snapshot of the fields the invariant talks about -/
def Snap (F st r0 r1 r2 r3 : Nat) (s : St) : Prop :=
  s.dp.full = F ∧ s.state = st ∧ s.rep0 = r0 ∧ s.rep1 = r1 ∧ s.rep2 = r2 ∧ s.rep3 = r3

theorem Snap.of_fc {F st r0 r1 r2 r3 : Nat} {s s' : St} (h : Snap F st r0 r1 r2 r3 s) (hf : Fc s s') : Snap F st r0 r1 r2 r3 s' := by
  obtain ⟨a, b, c, d, e, f⟩ := h
  obtain ⟨c1, c2, c3, c4, c5⟩ := hf.core
  exact ⟨by rw [hf.dp]; exact a, by rw [c1]; exact b, by rw [c2]; exact c, by rw [c3]; exact d, by rw [c4]; exact e, by rw [c5]; exact f⟩

/-- partial-correctness triple for normal returns -/
def Tri {α : Type} (P : St → Prop) (x : M α) (Q : α → St → Prop) : Prop :=
  ∀ s, P s → ∀ a s', x s = .ok a s' → Q a s'

theorem Tri.pure {α} {P : St → Prop} (a : α) {Q : α → St → Prop} (h : ∀ s, P s → Q a s) : Tri P (pure a : M α) Q := by
  intro s hp b s' e
  have : (EStateM.Result.ok a s : EStateM.Result Exit St α) = .ok b s' := e
  injection this with h1 h2
  subst h1; subst h2; exact h s hp

theorem Tri.throw {α} {P : St → Prop} (e : Exit) {Q : α → St → Prop} : Tri P (throw e : M α) Q := by
  intro s _ b s' h
  have : (EStateM.Result.error e s : EStateM.Result Exit St α) = .ok b s' := h
  cases this

theorem Tri.bind {α β} {P : St → Prop} {x : M α} {f : α → M β} {R : α → St → Prop} {Q : β → St → Prop}
    (hx : Tri P x R) (hf : ∀ a, Tri (R a) (f a) Q) : Tri P (x >>= f) Q := by
  intro s hp b s' e
  have e' : EStateM.bind x f s = .ok b s' := e
  unfold EStateM.bind at e'
  cases hxs : x s with
  | ok a s1 =>
    rw [hxs] at e'
    exact hf a s1 (hx s hp a s1 hxs) b s' e'
  | error er s1 => rw [hxs] at e'; cases e'

theorem Tri.read {α} {P : St → Prop} (g : St → α) :
    Tri P (fun s => EStateM.Result.ok (g s) s : M α) (fun a s' => P s' ∧ a = g s') := by
  intro s hp a s' e
  injection e with h1 h2
  subst h1; subst h2; exact ⟨hp, rfl⟩

theorem Tri.modify {P : St → Prop} (f : St → St) {Q : PUnit → St → Prop} (h : ∀ s, P s → Q PUnit.unit (f s)) :
    Tri P (modify f : M PUnit) Q := by
  intro s hp a s' e
  have : (EStateM.Result.ok PUnit.unit (f s) : EStateM.Result Exit St PUnit) = .ok a s' := e
  injection this with h1 h2
  subst h2; exact h s hp

theorem Tri.weaken {α} {P P' : St → Prop} {x : M α} {Q Q' : α → St → Prop} (h : Tri P x Q)
    (hp : ∀ s, P' s → P s) (hq : ∀ a s, Q a s → Q' a s) : Tri P' x Q' :=
  fun s hps a s' e => hq a s' (h s (hp s hps) a s' e)

/-- a range-decoder level computation keeps a snapshot -/
theorem Tri.ofSatC {α} {x : M α} {T : α → Prop} (h : SatC x T) (F st r0 r1 r2 r3 : Nat) :
    Tri (Snap F st r0 r1 r2 r3) x (fun a s' => Snap F st r0 r1 r2 r3 s' ∧ T a) := by
  intro s hp a s' e
  have hs := h s
  rw [e] at hs
  exact ⟨hp.of_fc hs.1, hs.2.1 a s' rfl⟩

/-- the distance-using output steps -/
def usesRep0 : Pending → Prop
  | .shortRep => True
  | .copy _ => True
  | _ => False

theorem updateLiteral_lt (st : Nat) : updateLiteralNormal st < 7 ∨ 7 ≤ st := by
  unfold updateLiteralNormal; split <;> omega

/-- ONE SYMBOL keeps the invariant; a short rep / copy comes with `rep0 < full`. -/
theorem tri_decodeSymbol (ev : Bool) (F st r0 r1 r2 r3 : Nat) (hro : ROv F st r0 r1 r2 r3) :
    Tri (Snap F st r0 r1 r2 r3) (decodeSymbol ev)
      (fun act s' => RepsOk s' ∧ s'.dp.full = F ∧ (usesRep0 act → s'.rep0 < F)) := by
  have keepS : ∀ {α} {x : M α} {T : α → Prop}, SatC x T → ∀ (st' q0 q1 q2 q3 : Nat),
      Tri (Snap F st' q0 q1 q2 q3) x (fun a s' => Snap F st' q0 q1 q2 q3 s' ∧ T a) :=
    fun h st' q0 q1 q2 q3 => Tri.ofSatC h F st' q0 q1 q2 q3
  unfold decodeSymbol
  refine Tri.bind (Tri.read _) (fun t => ?_)
  obtain ⟨state, posState, full⟩ := t
  -- from the read: state = st, full = F
  intro s0 hp0
  obtain ⟨hsnap0, ht⟩ := hp0
  have hst : st = state := by
    have := congrArg Prod.fst ht
    simp only [] at this
    rw [this, hsnap0.2.1]
  have hfull : F = full := by
    have := congrArg (fun t => t.2.2) ht
    simp only [] at this
    rw [this, hsnap0.1]
  subst hst; subst hfull
  refine (?_ : Tri (Snap F st r0 r1 r2 r3) _ _) s0 hsnap0
  simp only []
  refine Tri.bind (keepS (satc_rcBit _) _ _ _ _ _) (fun isMatch => ?_)
  refine Tri.weaken (P := Snap F st r0 r1 r2 r3) ?_ (fun s h => h.1) (fun _ _ h => h)
  split
  · -- literal: the new state is a literal state, reps unchanged
    refine Tri.bind (Tri.read _) (fun base => ?_)
    refine Tri.weaken (P := Snap F st r0 r1 r2 r3) ?_ (fun s h => h.1) (fun _ _ h => h)
    split
    · next hlit =>
      have hl : st < 7 := by simpa [isLiteralState, LIT_STATES] using hlit
      refine Tri.bind (R := fun _ => Snap F (updateLiteralNormal st) r0 r1 r2 r3) (Tri.modify _ ?_) (fun _ => ?_)
      · intro s h; exact ⟨h.1, rfl, h.2.2.1, h.2.2.2.1, h.2.2.2.2.1, h.2.2.2.2.2⟩
      · refine Tri.bind (keepS (satc_bittree _ _ _) _ _ _ _ _) (fun sym => Tri.pure _ ?_)
        intro s h
        obtain ⟨⟨a, b, c, d, e, f⟩, _⟩ := h
        have hlt : updateLiteralNormal st < 7 := by unfold updateLiteralNormal; split <;> omega
        refine ⟨?_, a, fun hu => by cases hu⟩
        unfold RepsOk ROv
        rw [a, b, c, d, e, f]
        exact ⟨fun h7 => by omega, hro.2⟩
    · next hlit =>
      have hl : 7 ≤ st := by
        have : ¬ st < 7 := by simpa [isLiteralState, LIT_STATES] using hlit
        omega
      refine Tri.bind (R := fun _ => Snap F (updateLiteralMatched st) r0 r1 r2 r3) (Tri.modify _ ?_) (fun _ => ?_)
      · intro s h; exact ⟨h.1, rfl, h.2.2.1, h.2.2.2.1, h.2.2.2.2.1, h.2.2.2.2.2⟩
      · refine Tri.bind (Tri.read _) (fun mb => ?_)
        refine Tri.weaken (P := Snap F (updateLiteralMatched st) r0 r1 r2 r3) ?_ (fun s h => h.1) (fun _ _ h => h)
        refine Tri.bind (keepS (satc_litMatched _ _ _ _ _) _ _ _ _ _) (fun sym => Tri.pure _ ?_)
        intro s h
        obtain ⟨⟨a, b, c, d, e, f⟩, _⟩ := h
        refine ⟨?_, a, fun hu => by cases hu⟩
        unfold RepsOk ROv
        rw [a, b, c, d, e, f]
        refine ⟨fun _ => hro.1 hl, hro.2⟩
  · -- match or rep
    refine Tri.bind (keepS (satc_rcBit _) _ _ _ _ _) (fun isRep => ?_)
    refine Tri.weaken (P := Snap F st r0 r1 r2 r3) ?_ (fun s h => h.1) (fun _ _ h => h)
    split
    · -- simple match
      refine Tri.bind (R := fun _ => Snap F (updateMatch st) r0 r0 r1 r2) (Tri.modify _ ?_) (fun _ => ?_)
      · intro s h; exact ⟨h.1, rfl, h.2.2.1, h.2.2.1, h.2.2.2.1, h.2.2.2.2.1⟩
      · refine Tri.bind (keepS (satc_lenDecode _ _) _ _ _ _ _) (fun len => ?_)
        refine Tri.weaken (P := Snap F (updateMatch st) r0 r0 r1 r2) ?_ (fun s h => h.1) (fun _ _ h => h)
        refine Tri.bind (keepS (satc_distDecode _) _ _ _ _ _) (fun d => ?_)
        refine Tri.weaken (P := Snap F (updateMatch st) r0 r0 r1 r2) ?_ (fun s h => h.1) (fun _ _ h => h)
        refine Tri.bind (R := fun _ => Snap F (updateMatch st) d r0 r1 r2) (Tri.modify _ ?_) (fun _ => ?_)
        · intro s h; exact ⟨h.1, h.2.1, rfl, h.2.2.2.1, h.2.2.2.2.1, h.2.2.2.2.2⟩
        · split
          · -- EOPM: never returns normally
            split
            · refine Tri.bind (R := fun _ _ => True) (Tri.throw _) (fun _ => ?_)
              refine Tri.bind (R := fun _ _ => True) (fun _ _ _ _ _ => trivial) (fun _ => ?_)
              refine Tri.bind (R := fun _ _ => True) (fun _ _ _ _ _ => trivial) (fun fin => ?_)
              split <;> exact Tri.throw _
            · refine Tri.bind (R := fun _ _ => True) (fun _ _ _ _ _ => trivial) (fun _ => ?_)
              refine Tri.bind (R := fun _ _ => True) (fun _ _ _ _ _ => trivial) (fun fin => ?_)
              split <;> exact Tri.throw _
          · split
            · exact Tri.throw _
            · next hd =>
              have hdF : d < F := by simpa using hd
              refine Tri.pure _ ?_
              intro s h
              obtain ⟨a, b, c, d', e, f⟩ := h
              refine ⟨?_, a, fun _ => by rw [c]; exact hdF⟩
              unfold RepsOk ROv
              rw [a, b, c, d', e, f]
              have hF : 0 < F := by omega
              have := hro.lt hF
              exact ⟨fun _ => hF, Or.inr hdF, Or.inr this.1, Or.inr this.2.1, Or.inr this.2.2.1⟩
    · -- repeated match
      split
      · exact Tri.throw _
      · next hfull =>
        have hF : 0 < F := by
          have : ¬ F = 0 := by simpa using hfull
          omega
        have hr := hro.lt hF
        refine Tri.bind (keepS (satc_rcBit _) _ _ _ _ _) (fun isRep0 => ?_)
        refine Tri.weaken (P := Snap F st r0 r1 r2 r3) ?_ (fun s h => h.1) (fun _ _ h => h)
        -- after choosing the distance: some permutation of the (valid) reps, state unchanged
        refine Tri.bind (R := fun _ s => s.dp.full = F ∧ s.rep0 < F ∧ s.rep1 < F ∧ s.rep2 < F ∧ s.rep3 < F) ?_ (fun isShort => ?_)
        · split
          · refine Tri.bind (keepS (satc_rcBit _) _ _ _ _ _) (fun isLong => Tri.pure _ ?_)
            intro s h
            obtain ⟨⟨a, b, c, d, e, f⟩, _⟩ := h
            exact ⟨a, by rw [c]; exact hr.1, by rw [d]; exact hr.2.1, by rw [e]; exact hr.2.2.1, by rw [f]; exact hr.2.2.2⟩
          · refine Tri.bind (keepS (satc_rcBit _) _ _ _ _ _) (fun isRep1 => ?_)
            refine Tri.weaken (P := Snap F st r0 r1 r2 r3) ?_ (fun s h => h.1) (fun _ _ h => h)
            split
            · refine Tri.bind (R := fun _ s => s.dp.full = F ∧ s.rep0 < F ∧ s.rep1 < F ∧ s.rep2 < F ∧ s.rep3 < F)
                (Tri.modify _ ?_) (fun _ => Tri.pure _ (fun s h => h))
              intro s h
              obtain ⟨a, b, c, d, e, f⟩ := h
              exact ⟨a, by show s.rep1 < F; rw [d]; exact hr.2.1, by show s.rep0 < F; rw [c]; exact hr.1,
                by show s.rep2 < F; rw [e]; exact hr.2.2.1, by show s.rep3 < F; rw [f]; exact hr.2.2.2⟩
            · refine Tri.bind (keepS (satc_rcBit _) _ _ _ _ _) (fun isRep2 => ?_)
              refine Tri.weaken (P := Snap F st r0 r1 r2 r3) ?_ (fun s h => h.1) (fun _ _ h => h)
              split
              · refine Tri.bind (R := fun _ s => s.dp.full = F ∧ s.rep0 < F ∧ s.rep1 < F ∧ s.rep2 < F ∧ s.rep3 < F)
                  (Tri.modify _ ?_) (fun _ => Tri.pure _ (fun s h => h))
                intro s h
                obtain ⟨a, b, c, d, e, f⟩ := h
                exact ⟨a, by show s.rep2 < F; rw [e]; exact hr.2.2.1, by show s.rep0 < F; rw [c]; exact hr.1,
                  by show s.rep1 < F; rw [d]; exact hr.2.1, by show s.rep3 < F; rw [f]; exact hr.2.2.2⟩
              · refine Tri.bind (R := fun _ s => s.dp.full = F ∧ s.rep0 < F ∧ s.rep1 < F ∧ s.rep2 < F ∧ s.rep3 < F)
                  (Tri.modify _ ?_) (fun _ => Tri.pure _ (fun s h => h))
                intro s h
                obtain ⟨a, b, c, d, e, f⟩ := h
                exact ⟨a, by show s.rep3 < F; rw [f]; exact hr.2.2.2, by show s.rep0 < F; rw [c]; exact hr.1,
                  by show s.rep1 < F; rw [d]; exact hr.2.1, by show s.rep2 < F; rw [e]; exact hr.2.2.1⟩
        · -- the state update and (for a long rep) the length keep reps and full
          have fin : ∀ (p : Pending) (s : St), (s.dp.full = F ∧ s.rep0 < F ∧ s.rep1 < F ∧ s.rep2 < F ∧ s.rep3 < F) →
              RepsOk s ∧ s.dp.full = F ∧ (usesRep0 p → s.rep0 < F) := by
            intro p s h
            refine ⟨?_, h.1, fun _ => h.2.1⟩
            unfold RepsOk ROv
            rw [h.1]
            exact ⟨fun _ => hF, Or.inr h.2.1, Or.inr h.2.2.1, Or.inr h.2.2.2.1, Or.inr h.2.2.2.2⟩
          split
          · refine Tri.bind (R := fun _ s => s.dp.full = F ∧ s.rep0 < F ∧ s.rep1 < F ∧ s.rep2 < F ∧ s.rep3 < F)
              (Tri.modify _ (fun s h => h)) (fun _ => Tri.pure _ (fun s h => fin _ s h))
          · refine Tri.bind (R := fun _ s => s.dp.full = F ∧ s.rep0 < F ∧ s.rep1 < F ∧ s.rep2 < F ∧ s.rep3 < F)
              (Tri.modify _ (fun s h => h)) (fun _ => ?_)
            refine Tri.bind (R := fun _ s => s.dp.full = F ∧ s.rep0 < F ∧ s.rep1 < F ∧ s.rep2 < F ∧ s.rep3 < F) ?_
              (fun len => Tri.pure _ (fun s h => fin _ s h))
            intro s h a s' e
            have hs := satc_lenDecode P_REP_LEN posState s
            rw [e] at hs
            have hf : Fc s s' := hs.1
            obtain ⟨c1, c2, c3, c4, c5⟩ := hf.core
            exact ⟨by rw [hf.dp]; exact h.1, by rw [c2]; exact h.2.1, by rw [c3]; exact h.2.2.1, by rw [c4]; exact h.2.2.2.1,
              by rw [c5]; exact h.2.2.2.2⟩


/-- the invariant holds after `lzma_decoder_reset`, whatever the dictionary holds -/
theorem repsOk_reset (s : St) (p : Props) : RepsOk (s.resetLzma p) := by
  unfold RepsOk ROv St.resetLzma
  exact ⟨fun h => by simp at h, Or.inl rfl, Or.inl rfl, Or.inl rfl, Or.inl rfl⟩

/-- ONE SYMBOL, on states: the invariant is preserved, the dictionary is not touched, and a short rep / copy step comes
    with a valid distance in `rep0`. -/
theorem decodeSymbol_repsOk (ev : Bool) (s : St) (act : Pending) (s' : St) (h : RepsOk s)
    (he : decodeSymbol ev s = .ok act s') :
    RepsOk s' ∧ s'.dp = s.dp ∧ (usesRep0 act → s'.rep0 < s'.dp.full) := by
  have t := tri_decodeSymbol ev s.dp.full s.state s.rep0 s.rep1 s.rep2 s.rep3 h s ⟨rfl, rfl, rfl, rfl, rfl, rfl⟩ act s' he
  have hfr := (sat_decodeSymbol ev s).1
  rw [he] at hfr
  have hdp : s'.dp = s.dp := hfr.dp
  refine ⟨t.1, hdp, fun hu => ?_⟩
  rw [t.2.1]; exact t.2.2 hu

/-- the matched-literal read `dict_get(rep0)` (taken only when the state is not a literal state) has a valid distance -/
theorem matched_literal_read_valid (s : St) (h : RepsOk s) (hs : isLiteralState s.state = false) : s.rep0 < s.dp.full := by
  have h7 : 7 ≤ s.state := by
    have : ¬ s.state < 7 := by simpa [isLiteralState, LIT_STATES] using hs
    omega
  have hF := h.1 h7
  exact (ROv.lt h hF).1

/-- the output step keeps the invariant as long as the dictionary positions are well formed (then `full` only grows) -/
theorem doWrite_repsOk (p : Pending) (s s' : St) (h : RepsOk s) (hp : PosInv s.dp) (he : doWrite p s = .ok () s') :
    RepsOk s' ∧ PosInv s'.dp := by
  have key : ∀ n, n ≤ s.dp.avail → ∀ t : St, t.state = s.state → t.rep0 = s.rep0 → t.rep1 = s.rep1 → t.rep2 = s.rep2 →
      t.rep3 = s.rep3 → t.dp = s.dp.advance n → RepsOk t ∧ PosInv t.dp := by
    intro n hn t e1 e2 e3 e4 e5 e6
    have hpi := posInv_advance hp n hn
    refine ⟨?_, by rw [e6]; exact hpi⟩
    have hfull : s.dp.full ≤ (s.dp.advance n).full := by
      unfold DictPos.advance
      simp only []
      cases hb : s.dp.hasWrapped
      · have := (hp.not_wrapped hb).2
        simp only [LZ_DICT_INIT_POS] at this ⊢
        simp; omega
      · simp
    unfold RepsOk ROv at h ⊢
    rw [e1, e2, e3, e4, e5, e6]
    obtain ⟨h0, h1, h2, h3, h4⟩ := h
    refine ⟨fun h7 => by have := h0 h7; omega, ?_, ?_, ?_, ?_⟩ <;> omega
  unfold doWrite at he
  cases p with
  | none => simp only [] at he; injection he with _ h2; subst h2; exact ⟨h, hp⟩
  | stuck => simp only [] at he; injection he with _ h2; subst h2; exact ⟨h, hp⟩
  | litWrite sym =>
    simp only [] at he
    split at he
    · cases he
    · next hne =>
      injection he with _ h2; subst h2
      have hav : 1 ≤ s.dp.avail := by
        unfold DictPos.avail
        have := hp.pos_le_limit
        have : s.dp.pos ≠ s.dp.limit := by simpa using hne
        omega
      exact key 1 hav _ rfl rfl rfl rfl rfl rfl
  | shortRep =>
    simp only [] at he
    split at he
    · cases he
    · next hne =>
      injection he with _ h2; subst h2
      have hav : 1 ≤ s.dp.avail := by
        unfold DictPos.avail
        have := hp.pos_le_limit
        have : s.dp.pos ≠ s.dp.limit := by simpa using hne
        omega
      exact key 1 hav _ rfl rfl rfl rfl rfl rfl
  | copy len =>
    simp only [] at he
    split at he
    · cases he
    · injection he with _ h2; subst h2
      exact key _ (by unfold DictPos.repeatLeft; exact Nat.min_le_left _ _) _ rfl rfl rfl rfl rfl rfl

end XzVerif.Lzma
