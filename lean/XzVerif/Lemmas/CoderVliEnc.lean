/-
  C06: `lzma_vli_encode` in multi-call mode is slicing independent over ANY number of output windows.

  Replaces the two-window lemma `vli_encode_chunked` (Props/C06.lean) by the n-window statement, following the pattern of
  Lemmas/CoderMachines.lean: the chunk-faithful coder `vliEncCoder v` is, call by call, the image of the byte machine
  `vliEncMachine v` (`vliEnc_sim`), hence any two fair slicings agree (`vliEnc_slicing_independent`), and what every fair slicing
  writes is the specification encoding `Vli.vliEncode v` (`vliEnc_sliced_eq_whole`).
-/
import XzVerif.Lemmas.CoderMachines
import XzVerif.Model.CoderVliEnc

namespace XzVerif.Coder
open XzVerif.Vli

/-! ### `exec` on an `emit` step -/

theorem exec_emit_zero {μ : Type} (m : ByteMachine μ) (act : Bool) (st : μ) (eof : Bool) (inp : List UInt8) (b : UInt8) (nx : μ)
    (hs : m.step st = .emit b nx) : m.exec act st eof inp 0 = ((st, eof), ⟨0, [], .ok⟩) := by
  rw [ByteMachine.exec, hs]

theorem exec_emit_succ {μ : Type} (m : ByteMachine μ) (act : Bool) (st : μ) (eof : Bool) (inp : List UInt8) (cap : Nat) (b : UInt8)
    (nx : μ) (hs : m.step st = .emit b nx) :
    m.exec act st eof inp (cap + 1) =
      ((m.exec act nx eof inp cap).1,
        ⟨(m.exec act nx eof inp cap).2.consumed, b :: (m.exec act nx eof inp cap).2.out, (m.exec act nx eof inp cap).2.ret⟩) := by
  rw [ByteMachine.exec, hs]

/-! ### The machine inside one call = `vliEncLoop` -/

theorem vli_shift_succ (v pos : Nat) : v >>> (pos * 7) / 128 = v >>> ((pos + 1) * 7) := by
  rw [Nat.succ_mul, Nat.shiftRight_add, Nat.shiftRight_eq_div_pow (v >>> (pos * 7)) 7]

/-- What the VLI-encoder machine does inside one call with room for `cap` bytes = `vliEncLoop cap` on the shifted value. -/
theorem vliEnc_exec (v : Nat) (act : Bool) (pos : Nat) (eof : Bool) (inp : List UInt8) (cap : Nat) :
    ((vliEncMachine v).exec act (.writing pos) eof inp cap).1.1
        = (if (vliEncLoop cap (v >>> (pos * 7)) pos).1 = .ok then VliE.writing (vliEncLoop cap (v >>> (pos * 7)) pos).2.1
           else VliE.finished (vliEncLoop cap (v >>> (pos * 7)) pos).2.1)
      ∧ ((vliEncMachine v).exec act (.writing pos) eof inp cap).2
        = ⟨0, (vliEncLoop cap (v >>> (pos * 7)) pos).2.2, (vliEncLoop cap (v >>> (pos * 7)) pos).1⟩ := by
  induction cap generalizing pos with
  | zero =>
    by_cases hw : v >>> (pos * 7) ≥ 128
    · rw [exec_emit_zero (vliEncMachine v) act _ eof inp _ _ (by simp only [vliEncMachine]; rw [if_pos hw])]
      simp [vliEncLoop]
    · rw [exec_emit_zero (vliEncMachine v) act _ eof inp _ _ (by simp only [vliEncMachine]; rw [if_neg hw])]
      simp [vliEncLoop]
  | succ c ih =>
    by_cases hw : v >>> (pos * 7) ≥ 128
    · rw [exec_emit_succ (vliEncMachine v) act _ eof inp c _ _ (by simp only [vliEncMachine]; rw [if_pos hw])]
      obtain ⟨i1, i2⟩ := ih (pos + 1)
      rw [i1, i2]
      simp only [vliEncLoop, hw, if_true, vli_shift_succ]
      by_cases hc : c = 0
      · subst hc; simp [vliEncLoop]
      · simp [hc]
    · rw [exec_emit_succ (vliEncMachine v) act _ eof inp c _ _ (by simp only [vliEncMachine]; rw [if_neg hw])]
      rw [exec_done (vliEncMachine v) act _ eof inp c .streamEnd rfl]
      simp [vliEncLoop, hw]

/-- With a non-empty window, a valid `vli_pos` and a valid value the argument checks of `lzma_vli_encode` pass. -/
theorem vliEncodeMulti_live (v pos cap : Nat) (hv : v ≤ VLI_MAX) (hp : pos < 9) (hc : cap ≠ 0) :
    vliEncodeMulti v pos cap = vliEncLoop cap (v >>> (pos * 7)) pos := by
  have hv' : ¬ v > VLI_MAX := by omega
  have hp' : ¬ pos ≥ VLI_BYTES_MAX := by simp [VLI_BYTES_MAX]; omega
  simp only [vliEncodeMulti, hc, if_false, hp', hv', or_self]

/-- While `lzma_vli_encode` answers `LZMA_OK` on a valid value, `vli_pos` stays below `LZMA_VLI_BYTES_MAX` (the `assert` in the
    C loop). -/
theorem vliEncLoop_ok_pos (v pos cap : Nat) (hv : v ≤ VLI_MAX) (hp : pos < 9)
    (hok : (vliEncLoop cap (v >>> (pos * 7)) pos).1 = .ok) : (vliEncLoop cap (v >>> (pos * 7)) pos).2.1 < 9 := by
  cases cap with
  | zero => simpa [vliEncLoop] using hp
  | succ c =>
    obtain ⟨i1, _, i3⟩ := vliEncLoop_ok (c + 1) _ pos hok (by omega)
    rw [i1]
    by_cases h9 : pos + (c + 1) < 9
    · exact h9
    · exfalso
      rw [Nat.shiftRight_eq_div_pow, Nat.mul_comm, Nat.pow_mul] at i3
      have h1 : 128 ^ (c + 1) * 128 ^ pos ≤ v := by
        have := Nat.mul_le_of_le_div (128 ^ pos) _ _ (by simpa using i3)
        simpa [Nat.mul_comm] using this
      rw [← Nat.pow_add] at h1
      have h2 : 128 ^ 9 ≤ 128 ^ (c + 1 + pos) := Nat.pow_le_pow_right (by omega) (by omega)
      have hm : v < 128 ^ 9 := by simp [VLI_MAX] at hv; omega
      omega

/-- **The chunk-faithful `lzma_vli_encode` is the image of the VLI-encoder byte machine**, for every valid value. -/
theorem vliEnc_sim (v : Nat) (hv : v ≤ VLI_MAX) : Sim (vliEncCoder v) (vliEncMachine v) VliE.abs VliE.live := by
  apply Sim.of_exec
  intro st hl a act eof inp cap
  cases st with
  | finished p => exact absurd hl (by simp [VliE.live])
  | writing pos =>
    have hp : pos < 9 := hl
    obtain ⟨e1, e2⟩ := vliEnc_exec v act pos eof inp cap
    rw [e1, e2]
    constructor
    · by_cases hc : cap = 0
      · subst hc
        simp [vliEncCoder, VliE.abs, vliEncLoop]
      · rw [← vliEncodeMulti_live v pos cap hv hp hc]
        by_cases hok : (vliEncodeMulti v pos cap).1 = .ok <;> simp [hok, VliE.abs, vliEncCoder, hc]
    · intro hok
      simp only at hok
      simp only [hok, if_true]
      exact vliEncLoop_ok_pos v pos cap hv hp hok

/-- **`lzma_vli_encode` is slicing independent over any number of output windows**: for a valid value, started with
    `vli_pos = 0`, however the output room arrives — any number of calls, windows of any size, empty windows included; the input
    side of the slicing is irrelevant, nothing is ever consumed — two fair (settled) runs have written the same bytes and end with
    the same return code, the same (zero) consumed count and the same `vli_pos`. -/
theorem vliEnc_slicing_independent (v : Nat) (hv : v ≤ VLI_MAX) (input : List UInt8) (fin : Bool) (sl₁ sl₂ : List (Nat × Nat)) :
    let r₁ := runSliced (vliEncCoder v) fin sl₁ (Run.init 0 input)
    let r₂ := runSliced (vliEncCoder v) fin sl₂ (Run.init 0 input)
    r₁.settled = true → r₂.settled = true →
      r₁.out = r₂.out ∧ r₁.ret = r₂.ret ∧ r₁.consumed = r₂.consumed ∧ r₁.state = r₂.state :=
  (vliEnc_sim v hv).slicing_independent (.writing 0) (by simp [VliE.live]) input fin sl₁ sl₂

/-! ### What every fair slicing writes: the specification encoding -/

/-- With enough room the loop writes the specification encoding `vliEncodeAux f w` and ends with `LZMA_STREAM_END`. -/
theorem vliEncLoop_big (f a w pos : Nat) (hw : w < 128 ^ (f + 1)) (ha : f < a) :
    vliEncLoop a w pos = (.streamEnd, pos + (vliEncodeAux f w).length, vliEncodeAux f w) := by
  induction f generalizing a w pos with
  | zero =>
    cases a with
    | zero => omega
    | succ a' =>
      have : ¬ w ≥ 128 := by simpa using hw
      simp [vliEncLoop, vliEncodeAux, this]
  | succ f ih =>
    cases a with
    | zero => omega
    | succ a' =>
      by_cases h : w ≥ 128
      · have ha' : a' ≠ 0 := by omega
        have hlt : ¬ w < 128 := by omega
        have hw' : w / 128 < 128 ^ (f + 1) := by
          rw [Nat.div_lt_iff_lt_mul (by omega)]
          rw [Nat.pow_succ] at hw
          exact hw
        simp only [vliEncLoop, h, if_true, ha', if_false, vliEncodeAux, hlt, ih a' (w / 128) (pos + 1) hw' (by omega)]
        simp only [List.length_cons, Prod.mk.injEq, true_and, and_true]
        omega
      · have hlt : w < 128 := by omega
        simp [vliEncLoop, vliEncodeAux, h, hlt]

/-- One call with a big window writes `Vli.vliEncode v` and answers `LZMA_STREAM_END`. -/
theorem vliEncodeMulti_whole (v : Nat) (hv : v ≤ VLI_MAX) :
    vliEncodeMulti v 0 16 = (.streamEnd, (vliEncode v).length, vliEncode v) := by
  rw [vliEncodeMulti_live v 0 16 hv (by omega) (by omega)]
  have hm : v < 128 ^ (8 + 1) := by simp [VLI_MAX] at hv; omega
  have := vliEncLoop_big 8 16 v 0 hm (by omega)
  simpa [vliEncode] using this

/-- **What every fair slicing of `lzma_vli_encode` computes** is the specification encoder `Vli.vliEncode`: a settled run —
    whatever the window sizes — has written exactly `vliEncode v`, ended with `LZMA_STREAM_END`, consumed nothing, and
    `vli_pos` is the length of the encoding. (In particular a settled run never ends with `LZMA_OK`: if the last call left spare
    room, the last byte has been written.) -/
theorem vliEnc_sliced_eq_whole (v : Nat) (hv : v ≤ VLI_MAX) (input : List UInt8) (fin : Bool) (sl : List (Nat × Nat)) :
    let R := runSliced (vliEncCoder v) fin sl (Run.init 0 input)
    R.settled = true →
      R.out = vliEncode v ∧ R.ret = .streamEnd ∧ R.consumed = 0 ∧ R.state = (vliEncode v).length := by
  intro R hs
  have hw : runSliced (vliEncCoder v) fin [(0, 16)] (Run.init 0 input)
      = { state := (vliEncode v).length, rest := input, out := vliEncode v, consumed := 0, ret := .streamEnd, settled := true } := by
    simp [runSliced, runPiece, Run.init, vliEncCoder, vliEncodeMulti_whole v hv]
  have := vliEnc_slicing_independent v hv input fin sl [(0, 16)] hs (by rw [hw])
  rw [hw] at this
  exact this

/-! ### Non-vacuity -/

/-- what is compared below -/
def showRunE (r : Run Nat) : List UInt8 × Ret × Nat × Nat × Bool := (r.out, r.ret, r.consumed, r.state, r.settled)

/-- 123456789 = 0x75BCD15 takes four bytes. Ragged windows with empty ones in between (the last window is never used) … -/
example : showRunE (runSliced (vliEncCoder 123456789) true [(0, 1), (0, 0), (0, 2), (0, 0), (0, 1), (0, 5)] (Run.init 0 []))
    = ([0x95, 0x9A, 0xEF, 0x3A], .streamEnd, 0, 4, true) := by decide +kernel
/-- … and one window of 9. -/
example : showRunE (runSliced (vliEncCoder 123456789) true [(0, 9)] (Run.init 0 []))
    = ([0x95, 0x9A, 0xEF, 0x3A], .streamEnd, 0, 4, true) := by decide +kernel
example : vliEncode 123456789 = [0x95, 0x9A, 0xEF, 0x3A] := by decide +kernel
/-- a run that stops while bytes remain is NOT settled (every window was filled): nothing is claimed about it -/
example : showRunE (runSliced (vliEncCoder 123456789) true [(0, 1), (0, 0), (0, 2)] (Run.init 0 []))
    = ([0x95, 0x9A, 0xEF], .ok, 0, 3, false) := by decide +kernel
/-- the hypothesis of the theorems is satisfiable at the boundary: `LZMA_VLI_MAX` takes nine bytes, byte-at-a-time = whole -/
example : VLI_MAX ≤ VLI_MAX := Nat.le_refl _
example : showRunE (runSliced (vliEncCoder VLI_MAX) false [(0, 1), (0, 1), (0, 1), (0, 1), (0, 1), (0, 1), (0, 1), (0, 1), (0, 1)]
      (Run.init 0 [7, 7]))
    = ([0xFF, 0xFF, 0xFF, 0xFF, 0xFF, 0xFF, 0xFF, 0xFF, 0x7F], .streamEnd, 0, 9, true) := by decide +kernel
example : showRunE (runSliced (vliEncCoder VLI_MAX) false [(5, 16)] (Run.init 0 [7, 7]))
    = ([0xFF, 0xFF, 0xFF, 0xFF, 0xFF, 0xFF, 0xFF, 0xFF, 0x7F], .streamEnd, 0, 9, true) := by decide +kernel

end XzVerif.Coder
