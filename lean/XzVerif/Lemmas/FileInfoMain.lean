/-
  C13 helper lemmas for `file_info_correct`: SEQ_HEADER_COMPARE (flags, padding, cat), the loop over the Streams of a
  well-formed file from the last to the first, and `lzma_file_info_decoder` as a whole.
-/
import XzVerif.Lemmas.FileInfoLoop

namespace XzVerif.Index

/-! ### hypotheses on the whole file -/

/-- the limits `lzma_index_stream_padding` and `lzma_index_cat` enforce (file size and total uncompressed size
    ≤ LZMA_VLI_MAX, combined Index fields ≤ Backward Size limit) hold for every suffix of the file -/
def Combinable : List StreamDesc → Prop
  | [] => True
  | d :: rest => Combinable rest
      ∧ Spec.paddingCheck [⟨some ⟨0, d.bsz, d.check⟩, 0, d.blocks⟩] d.padding = none
      ∧ (rest ≠ [] → Spec.catCheck [d.streamRec] (expectedIndex rest) = none)

/-- the memory limit allows every step: the combined index so far plus the Index being decoded -/
def MemOk (ml : Nat) : List StreamDesc → Prop
  | [] => True
  | d :: rest => MemOk ml rest
      ∧ (if rest = [] then 0 else memusage rest.length (Spec.blockCount (expectedIndex rest))) ≤ ml
      ∧ memusage 1 d.blocks.length
          ≤ max 1 (ml - (if rest = [] then 0 else memusage rest.length (Spec.blockCount (expectedIndex rest))))

theorem combinable_suffix : ∀ (a b : List StreamDesc), Combinable (a ++ b) → Combinable b
  | [], _, h => h
  | _ :: a, b, h => combinable_suffix a b h.1

theorem memOk_suffix (ml : Nat) : ∀ (a b : List StreamDesc), MemOk ml (a ++ b) → MemOk ml b
  | [], _, h => h
  | _ :: a, b, h => memOk_suffix ml a b h.1

theorem fileSize_le_of_add_le {i : Index} {x : Nat} (h : Spec.fileSize i + x ≤ VLI_MAX) : Spec.rawFileSize i ≤ VLI_MAX := by
  unfold Spec.fileSize at h
  split at h
  · unfold VLI_UNKNOWN VLI_MAX at h; omega
  · omega

theorem combinable_rawFileSize {ds : List StreamDesc} (hne : ds ≠ []) (h : Combinable ds) :
    Spec.rawFileSize (expectedIndex ds) ≤ VLI_MAX := by
  cases ds with
  | nil => exact absurd rfl hne
  | cons d rest =>
    obtain ⟨_, hp, hc⟩ := h
    by_cases hr : rest = []
    · subst hr
      unfold Spec.paddingCheck at hp
      split at hp; · cases hp
      split at hp
      · cases hp
      · next hle =>
        simp only [Spec.modifyLast] at hle
        have h1 : Spec.fileSize [⟨some ⟨0, d.bsz, d.check⟩, 0, d.blocks⟩] + d.padding ≤ VLI_MAX := by omega
        have h2 := fileSize_le_of_add_le h1
        unfold Spec.fileSize at h1
        rw [if_neg (by omega)] at h1
        simp only [Spec.rawFileSize, List.map_cons, List.map_nil, List.sum_cons, List.sum_nil, StreamRec.span,
          StreamRec.compressedSize, expectedIndex, StreamDesc.streamRec] at h1 ⊢
        omega
    · have hcc := hc hr
      unfold Spec.catCheck at hcc
      split at hcc; · cases hcc
      next hle =>
      have h1 : Spec.fileSize [d.streamRec] + Spec.fileSize (expectedIndex rest) ≤ VLI_MAX := by omega
      have ha := fileSize_le_of_add_le h1
      have hb := fileSize_le_of_add_le (by rw [Nat.add_comm] at h1; exact h1)
      unfold Spec.fileSize at h1
      rw [if_neg (by omega), if_neg (by omega)] at h1
      simp only [expectedIndex, List.map_cons, Spec.rawFileSize, List.sum_cons, List.map_nil, List.sum_nil] at h1 ⊢
      omega

/-! ### SEQ_HEADER_COMPARE -/

theorem flagsCheck_ok (d : StreamDesc) (hok : d.Ok) : Spec.flagsCheck ⟨0, d.bsz, d.check⟩ = none := by
  have hb := StreamDesc.bsz_ge d
  have hm := hok.bszMax
  have hc := hok.check
  unfold Spec.flagsCheck
  simp only [ne_eq, not_true_eq_false, if_false]
  rw [if_neg (by unfold CHECK_ID_MAX; omega)]
  have : Spec.backwardSizeValid d.bsz = true := by
    unfold Spec.backwardSizeValid BACKWARD_SIZE_MIN
    simp only [decide_eq_true_eq]; omega
  simp [this]

theorem combinePhase_spec {d : StreamDesc} {suf : List StreamDesc} (hok : d.Ok) (hcomb : Combinable (d :: suf))
    (st11 : FI) (this : Impl.Index) (habs : Impl.abs this = [⟨none, 0, d.blocks⟩]) (hinv : Impl.Inv this)
    (hsp : st11.streamPadding = d.padding)
    (hc : (suf = [] ∧ st11.combined = none)
        ∨ (suf ≠ [] ∧ ∃ c, st11.combined = some c ∧ Impl.abs c = expectedIndex suf ∧ Impl.Inv c)) :
    ∃ comb, combinePhase st11 this d.bsz d.check d.check = .ok comb ∧ Impl.abs comb = expectedIndex (d :: suf)
      ∧ Impl.Inv comb := by
  obtain ⟨_, hpc, hcc⟩ := hcomb
  unfold combinePhase
  simp only [ne_eq, not_true_eq_false, if_false]
  -- stream_flags
  obtain ⟨f1, f2, f3⟩ := Impl.streamFlags_refines hinv ⟨0, d.bsz, d.check⟩
  have hsf : Spec.streamFlags (Impl.abs this) ⟨0, d.bsz, d.check⟩ = (.ok, [⟨some ⟨0, d.bsz, d.check⟩, 0, d.blocks⟩]) := by
    unfold Spec.streamFlags; rw [flagsCheck_ok d hok, habs]; rfl
  rw [hsf] at f1 f2
  cases hx : Impl.streamFlags this ⟨0, d.bsz, d.check⟩ with
  | mk r1 this1 =>
    rw [hx] at f1 f2 f3
    simp only at f1 f2 f3
    subst f1
    simp only
    -- stream_padding
    obtain ⟨p1, p2, p3, _⟩ := Impl.streamPadding_refines f3 d.padding
    have hsp' : Spec.streamPadding (Impl.abs this1) d.padding = (.ok, [d.streamRec]) := by
      unfold Spec.streamPadding; rw [f2, hpc]; rfl
    rw [hsp'] at p1 p2
    rw [hsp]
    cases hy : Impl.streamPadding this1 d.padding with
    | mk r2 this2 =>
      rw [hy] at p1 p2 p3
      simp only at p1 p2 p3
      subst p1
      simp only
      rcases hc with ⟨hs, hnone⟩ | ⟨hs, c, hsome, hca, hci⟩
      · rw [hnone]
        simp only
        exact ⟨this2, rfl, by rw [p2, hs]; rfl, p3⟩
      · rw [hsome]
        simp only
        obtain ⟨c1, c2, c3, _⟩ := Impl.cat_refines p3 hci
        have hcat : Spec.cat (Impl.abs this2) (Impl.abs c) = (.ok, d.streamRec :: expectedIndex suf) := by
          unfold Spec.cat; rw [p2, hca, hcc hs]; rfl
        rw [hcat] at c1 c2
        cases hz : Impl.cat this2 c with
        | mk r3 comb =>
          rw [hz] at c1 c2 c3
          simp only at c1 c2 c3
          subst c1
          exact ⟨comb, rfl, c2, c3⟩

/-! ### the loop -/

theorem streamLoop_succ (file : Array UInt8) (memlimit firstCheck fuel : Nat) (needSeek : Bool) (st : FI) :
    streamLoop file memlimit firstCheck (fuel + 1) needSeek st =
      match streamStep file memlimit firstCheck needSeek st with
      | .done r => r
      | .next needSeek' st' => streamLoop file memlimit firstCheck fuel needSeek' st' := rfl

theorem memusedOpt_of_combined {suf : List StreamDesc} {comb : Option Impl.Index}
    (hc : (suf = [] ∧ comb = none) ∨ (suf ≠ [] ∧ ∃ c, comb = some c ∧ Impl.abs c = expectedIndex suf ∧ Impl.Inv c)) :
    memusedOpt comb = if suf = [] then 0 else memusage suf.length (Spec.blockCount (expectedIndex suf)) := by
  rcases hc with ⟨hs, hn⟩ | ⟨hs, c, hsome, hca, hci⟩
  · rw [hn, if_pos hs]; rfl
  · rw [hsome, if_neg hs]
    show Impl.memused c = _
    have := (Impl.getters_refine hci).2.2.2.2.2.2.2.2.1
    rw [this, hca]
    unfold Spec.memused Spec.streamCount expectedIndex
    simp

theorem fileBytes_pos_cases {pre : List StreamDesc} (hall : ∀ d ∈ pre, d.Ok) :
    (pre = [] ∧ (fileBytes pre).length = 0) ∨ (pre ≠ [] ∧ 32 ≤ (fileBytes pre).length) := by
  by_cases h : pre = []
  · left; subst h; exact ⟨rfl, rfl⟩
  · right; exact ⟨h, fileBytes_ge hall h⟩

/-- the loop over the Streams, from the last to the first -/
theorem streamLoop_correct (ds : List StreamDesc) (hall : ∀ d ∈ ds, d.Ok) (hcomb : Combinable ds) (ml : Nat)
    (hmem : MemOk ml ds) (firstCheck : Nat) (hfc : ∀ d rest, ds = d :: rest → firstCheck = d.check) :
    ∀ (fuel : Nat) (needSeek : Bool) (st : FI) (pre : List StreamDesc) (d : StreamDesc) (suf : List StreamDesc) (rem : Nat),
      ds = pre ++ d :: suf →
      st.target = (fileBytes pre).length + d.coreLen + rem → st.streamPadding + rem = d.padding →
      (needSeek = true ∨ (0 < st.tempSize ∧ st.tempStart + st.tempSize = st.target)) →
      ((suf = [] ∧ st.combined = none)
        ∨ (suf ≠ [] ∧ ∃ c, st.combined = some c ∧ Impl.abs c = expectedIndex suf ∧ Impl.Inv c)) →
      st.target < fuel →
      (streamLoop (fileBytes ds).toArray ml firstCheck fuel needSeek st).1 = .memError
      ∨ ∃ idx, streamLoop (fileBytes ds).toArray ml firstCheck fuel needSeek st = (.streamEnd, some idx)
          ∧ Impl.abs idx = expectedIndex ds ∧ Impl.Inv idx
  | 0, _, _, _, _, _, _, _, _, _, _, _, hf => by omega
  | fuel + 1, needSeek, st, pre, d, suf, rem, hds, htgt, hsp, hwin, hc, hf => by
    have hdok : d.Ok := hall d (by rw [hds]; simp)
    have hpre : ∀ x ∈ pre, x.Ok := fun x hx => hall x (by rw [hds]; exact List.mem_append_left _ hx)
    have hat : StreamAt (fileBytes ds) d (fileBytes pre).length := by rw [hds]; exact streamAt_of_split hdok
    have hcs : Combinable (d :: suf) := combinable_suffix pre _ (by rw [← hds]; exact hcomb)
    have hms : MemOk ml (d :: suf) := memOk_suffix ml pre _ (by rw [← hds]; exact hmem)
    rw [streamLoop_succ]
    unfold streamStep
    rcases padPhase_spec hat hdok.pad needSeek st rem htgt hsp hwin with
      ⟨st1, rem', e1, e2, e3, e4, e5⟩ | ⟨st3, e1, e2, e3, e4, e5, e6⟩
    · -- only zeros in the window
      rw [e1]
      exact streamLoop_correct ds hall hcomb ml hmem firstCheck hfc fuel true st1 pre d suf rem' hds e3 e4
        (Or.inl rfl) (by rw [e5]; exact hc) (by omega)
    · rw [e1]
      simp only
      obtain ⟨st6, g1, g2, g3, g4, g5⟩ := footerPhase_spec hat hdok st3 e2 e4 e5
      rw [g1]
      simp only
      have hc6 : (suf = [] ∧ st6.combined = none)
          ∨ (suf ≠ [] ∧ ∃ c, st6.combined = some c ∧ Impl.abs c = expectedIndex suf ∧ Impl.Inv c) := by
        rw [g4, e6]; exact hc
      have hmu := memusedOpt_of_combined hc6
      obtain ⟨_, hm1, hm2⟩ := hms
      rcases indexPhase_spec hat hdok ml st6 g2
          (by rcases g5 with h | ⟨h1, h2, _⟩
              · exact Or.inl h
              · exact Or.inr ⟨h1, h2⟩)
          (by rw [hmu]; exact hm1) (by rw [hmu]; exact hm2) with hme | ⟨this, i1, i2, i3⟩
      · left; rw [hme]
      · rw [i1]
        simp only
        have htot : this.totalSize = blocksSize d.blocks := by
          rw [i3.total, i2]; simp [Spec.totalSize]
        have hP := fileBytes_pos_cases hpre
        obtain ⟨st11, k1, k2, k3, k4, k5⟩ := headerPhase_spec hat hdok firstCheck
          (by
            intro h0
            rcases hP with ⟨hp, _⟩ | ⟨_, hp⟩
            · subst hp; exact hfc d suf (by simpa using hds)
            · omega)
          (by rcases hP with ⟨_, hp⟩ | ⟨_, hp⟩
              · exact Or.inl hp
              · exact Or.inr hp)
          st6 this htot g2 g5
        rw [k1]
        simp only
        obtain ⟨comb, m1, m2, m3⟩ := combinePhase_spec hdok hcs st11 this i2 i3 (by rw [k3, g3, e3])
          (by rw [k4]; exact hc6)
        rw [m1]
        simp only
        rcases hP with ⟨hp, hp0⟩ | ⟨hp, hp32⟩
        · -- the first Stream of the file: done
          right
          rw [if_pos (by rw [k2]; exact hp0)]
          refine ⟨comb, rfl, ?_, m3⟩
          rw [m2, hds, hp]; rfl
        · -- continue with the Stream before
          rw [if_neg (by rw [k2]; omega)]
          obtain ⟨pre', d', hpd⟩ := exists_snoc hp
          have hd'ok : d'.Ok := hpre d' (by rw [hpd]; simp)
          have hlen : (fileBytes pre).length = (fileBytes pre').length + d'.coreLen + d'.padding := by
            rw [hpd, fileBytes_append]
            simp only [fileBytes, List.flatMap_cons, List.flatMap_nil, List.append_nil, List.length_append,
              StreamDesc.bytes, hd'ok.core_length, List.length_replicate]
            omega
          apply streamLoop_correct ds hall hcomb ml hmem firstCheck hfc fuel _ _ pre' d' (d :: suf) d'.padding
            (by rw [hds, hpd]; simp)
          · show st11.target = _; rw [k2, hlen]
          · show 0 + d'.padding = d'.padding; omega
          · by_cases hz : st11.tempSize = 0
            · left; simp [hz]
            · right
              rcases k5 (by omega) with h | h
              · exact absurd h hz
              · exact ⟨by show 0 < st11.tempSize; omega, by show st11.tempStart + st11.tempSize = st11.target; rw [k2]; exact h⟩
          · right
            exact ⟨by simp, comb, rfl, m2, m3⟩
          · show st11.target < fuel; rw [k2]; have := StreamDesc.coreLen_ge d; omega

/-- **`lzma_file_info_decoder` on a well-formed multi-Stream file** (whole-file semantics of the backward parser with
    its 8 KiB window). -/
theorem fileInfo_correct (ds : List StreamDesc) (hne : ds ≠ []) (hall : ∀ d ∈ ds, d.Ok) (hcomb : Combinable ds)
    (memlimit : Nat) (hmem : MemOk (max 1 memlimit) ds) :
    (fileInfo memlimit (fileBytes ds).toArray).1 = .memError
    ∨ ∃ idx, fileInfo memlimit (fileBytes ds).toArray = (.streamEnd, some idx)
        ∧ Impl.abs idx = expectedIndex ds ∧ Impl.Inv idx := by
  have hsz := fileBytes_ge hall hne
  have hmod := fileBytes_mod hall
  have hmax : (fileBytes ds).length ≤ VLI_MAX := by
    rw [fileBytes_length hall]; exact combinable_rawFileSize hne hcomb
  obtain ⟨pre, last, hpl⟩ := exists_snoc hne
  cases hds : ds with
  | nil => exact absurd hds hne
  | cons d0 rest =>
    have hd0 : d0.Ok := hall d0 (by rw [hds]; simp)
    have hat0 : StreamAt (fileBytes ds) d0 0 := by
      have := streamAt_of_split (pre := []) (suf := rest) hd0
      rw [hds]; simpa [fileBytes] using this
    have hlok : last.Ok := hall last (by rw [hpl]; simp)
    have hlen : (fileBytes ds).length = (fileBytes pre).length + last.coreLen + last.padding := by
      rw [hpl, fileBytes_append]
      simp only [fileBytes, List.flatMap_cons, List.flatMap_nil, List.append_nil, List.length_append,
        StreamDesc.bytes, hlok.core_length, List.length_replicate]
      omega
    rw [← hds]
    unfold fileInfo
    simp only [List.size_toArray]
    rw [if_neg (by unfold STREAM_HEADER_SIZE; omega)]
    have h0 := hat0.hdrAt
    rw [h0, hd0.hdr_facts.2]
    simp only
    rw [if_neg (by omega)]
    exact streamLoop_correct ds hall hcomb (max 1 memlimit) hmem d0.check
      (by intro d r h; rw [hds] at h; cases h; rfl)
      ((fileBytes ds).length + 2) true _ pre last [] last.padding (by rw [hpl])
      (by show (fileBytes ds).length = _; exact hlen) (by show 0 + last.padding = last.padding; omega)
      (Or.inl rfl) (Or.inl ⟨rfl, rfl⟩) (by show (fileBytes ds).length < _; omega)

end XzVerif.Index
