/-
  "Starved calls are idle" across the window wrap, LZMA1 call level.

  * `l1IdleS` (and `l1IdleSQ` under `Pre1Q`): `l1Idle` with the hypothesis `pos < L` replaced by "not stopped at a write"
    (`pending = .none` after the call: a call that returned LZMA_OK has `pending ∈ {litWrite, shortRep, copy}` iff it was
    stopped by a refused write; after "need input" `lzmaFinish`/`unstick` leave `.none`). Holds for every `L' ≥ L`, also `L' = L`
    and at `pos = L`.
  * `l1IdleWrap` / `l1IdleWrapQ`: a call that starved exactly at the end of the window (`pos = size = limit`, LZMA_OK, not at a
    write), called again AFTER the wrap with room `L2 ≥ LZ_DICT_REPEAT_MAX`, is a no-op. Proof: the zero-room re-call before the
    wrap is idle (`l1IdleS`, `L' = L`); a zero-room call commutes with the wrap (`Wrap1.call_wrap`), so the zero-room call after
    the wrap (limit 288) is idle; `l1IdleS` again (288 → `L2`) on the wrapped coder.
  Core Lean only.
-/
import XzVerif.Lemmas.LzmaResumeIdle1Q
import XzVerif.Lemmas.LzmaResumeWrap1
import XzVerif.Lemmas.LzmaResumeWBase

namespace XzVerif.LzmaR
open XzVerif.RangeDec XzVerif.LzDict XzVerif.Lzma XzVerif.Lzma2

theorem idle1w_outFull_pending (o : Bool) (L H : Nat) (w : Option Nat) (t : St) (kx : Option SymSnap) (q : Pending) :
    (finOf o L H w (.error (.outFull q) t, kx)).2.s.pending = (if q == .stuck then .none else q) := by
  unfold finOf
  simp only []
  rw [idle1_lzmaFinish_outFull]
  unfold unstick
  cases q <;> rfl

/-- the main part of a call (after `rc_read_init`) -/
theorem idle1w_run (k : Option SymSnap) (o : Bool) (b : ByteArray) (L L' : Nat) (w : Option Nat) (s0 : St)
    (hL : L ≤ L') (hpos : s0.dp.pos ≤ L) (hil : s0.initLeft = 0) (heopm : s0.allowEopm = false ∨ w = none)
    (hok : (finK k o (ov b L w s0)).1 = .ok) (hpn : (finK k o (ov b L w s0)).2.s.pending = .none) :
    Same (lzmaCallR ((finK k o (ov b L w s0)).2.view b L')) (finK k o (ov b L w s0)) := by
  rw [finK_eq k o b L w s0] at hok hpn ⊢
  have hPR := pr_call w s0.dp.pos L L' hpos hL
  have hcb := clN_bounds w s0.dp.pos L hpos
  have hdle : ∀ u, w = some u → ∀ d, s0.dp.pos + d ≤ clN w s0.dp.pos L → d ≤ u := by
    intro u hu d hd
    subst hu
    unfold clN at hd
    simp only [] at hd
    split at hd <;> omega
  have hcl : clN w s0.dp.pos L = L ∨ ∃ u, w = some u ∧ clN w s0.dp.pos L = s0.dp.pos + u := by
    cases w with
    | none => exact Or.inl rfl
    | some u =>
      unfold clN
      simp only []
      split
      · exact Or.inr ⟨u, rfl, rfl⟩
      · exact Or.inl rfl
  have heopm' : s0.allowEopm = false ∨ mfN w s0.dp.pos L = false := by
    rcases heopm with h | h
    · exact Or.inl h
    · subst h; exact Or.inr rfl
  generalize clN w s0.dp.pos L = Lc at *
  generalize mfN w s0.dp.pos L = mfX at *
  have hinv : Idle1Inv b w.isNone mfX Lc (w.isNone || s0.eopmValid) (ov b Lc w { s0 with pending := .none }) := ⟨rfl, heopm', rfl, rfl⟩
  have hnfX := headR_nofuel (Lc - s0.dp.pos + 2) (w.isNone || s0.eopmValid) mfX s0.pending k
    (ov b Lc w { s0 with pending := .none }) hcb.1 (by show Lc - s0.dp.pos < _; omega)
  have hpostX := post_headR (Lc - s0.dp.pos + 2) (w.isNone || s0.eopmValid) mfX s0.pending k
    (ov b Lc w { s0 with pending := .none })
  have hfull := idle1_full_head (Lc - s0.dp.pos + 2) (w.isNone || s0.eopmValid) mfX s0.pending k
    (ov b Lc w { s0 with pending := .none }) hcb.1
  have hidle := fun mf2 L2 v2 => idle1_head b w.isNone mfX mf2 Lc L2 v2 (Lc - s0.dp.pos + 2) (w.isNone || s0.eopmValid) s0.pending k
    (ov b Lc w { s0 with pending := .none }) hinv
  generalize headR (Lc - s0.dp.pos + 2) (w.isNone || s0.eopmValid) mfX s0.pending k
    (ov b Lc w { s0 with pending := .none }) = runX at *
  obtain ⟨resX, kx⟩ := runX
  cases resX with
  | ok a t => exact absurd rfl (hpostX.noOk a t)
  | error e t =>
    have hstp : Stp (ov b Lc w { s0 with pending := .none }) t := hpostX.stp
    have hpend : t.pending = .none := hstp.pending
    have hil' : t.initLeft = 0 := hstp.initLeft.trans hil
    have hHle : s0.hist.size ≤ t.hist.size := by
      have h1 : t.hist.size + s0.dp.pos = s0.hist.size + t.dp.pos := hstp.hist
      have h2 : s0.dp.pos ≤ t.dp.pos := hstp.mono
      omega
    have htpos : t.dp.pos = s0.dp.pos + (t.hist.size - s0.hist.size) := by
      have h1 : t.hist.size + s0.dp.pos = s0.hist.size + t.dp.pos := hstp.hist
      omega
    have htlim : t.dp.limit = Lc := hstp.limit
    have htle : t.dp.pos ≤ Lc := by
      have h1 : t.dp.pos ≤ t.dp.limit := hstp.inlim hcb.1
      omega
    cases e with
    | fuel => exact absurd rfl (hnfX t)
    | dataError => rw [idle1_fst_dataError] at hok; cases hok
    | streamEnd => rw [idle1_fst_streamEnd] at hok; cases hok
    | outFull q =>
      exfalso
      obtain ⟨hq, _⟩ := hfull q t kx rfl
      rw [idle1w_outFull_pending] at hpn
      cases q <;> first | exact absurd rfl hq.1 | exact absurd rfl hq.2 | exact absurd hpn (by simp)
    | needInput =>
      rw [idle1_finOf_needInput]
      have hshift := shiftN w (t.hist.size - s0.hist.size) s0.dp.pos L'
        (fun u hu => hdle u hu _ (by omega)) (by omega)
      rw [← htpos] at hshift
      have htest : (mfX && (t.dp.pos == Lc))
          = (mfN (w.map (· - (t.hist.size - s0.hist.size))) t.dp.pos L'
              && (t.dp.pos == clN (w.map (· - (t.hist.size - s0.hist.size))) t.dp.pos L')) := by
        rw [hshift.1, hshift.2]
        exact hPR.test t.dp.pos htle
      obtain ⟨hinp, hrun⟩ := hidle _ _ (w.map (· - (t.hist.size - s0.hist.size))) t kx rfl htest
      have hisn : w.isNone = (w.map (· - (t.hist.size - s0.hist.size))).isNone := by cases w <;> rfl
      rw [hisn] at hrun
      exact idle1_tail o b L L' _ t kx hil' hpend hinp hrun


/-- **LZMA1 call level: a call that returned LZMA_OK and is not stopped at a write is idle** (no `pos < L` needed). -/
theorem l1IdleS (r : RSt) (b : ByteArray) (L L' : Nat) (hpre : Pre1 r b L) (hL : L ≤ L')
    (hok : (lzmaCallR (r.view b L)).1 = .ok) (hpn : (lzmaCallR (r.view b L)).2.s.pending = .none) :
    Same (lzmaCallR ((lzmaCallR (r.view b L)).2.view b L')) (lzmaCallR (r.view b L)) := by
  obtain ⟨s, k, o⟩ := r
  have hpos : s.dp.pos ≤ L := hpre.pos
  have heopm : s.allowEopm = false ∨ s.uncomp = none := hpre.eopm
  have hcall : lzmaCallR ((RSt.mk s k o).view b L) = callK k o (rcReadInit (ov b L s.uncomp s)) :=
    lzmaCallR_eq ⟨ov b L s.uncomp s, k, o⟩
  rw [hcall] at hok hpn ⊢
  have hfr := rcReadInit_frame (ov b L s.uncomp s)
  cases hri : rcReadInit (ov b L s.uncomp s) with
  | error e t =>
    rw [hri] at hok
    cases hok
  | ok a t =>
    rw [hri] at hfr hok hpn
    have hinp : t.inp = b := by have h1 := congrArg St.inp hfr.1; exact h1
    have hun : t.uncomp = s.uncomp := by have h1 := congrArg St.uncomp hfr.1; exact h1
    cases a with
    | false =>
      show Same (lzmaCallR ⟨ov b L' t.uncomp t, k, o⟩) (.ok, ⟨t, k, o⟩)
      rw [lzmaCallR_eq]
      show Same (callK k o (rcReadInit (ov b L' t.uncomp t))) _
      have hI : rcReadInitN t.initLeft t = .ok false t := idle1_init _ _ t rfl hri
      have hZ : rcReadInit (ov b L' t.uncomp t) = .ok false (ov b L' t.uncomp t) := by
        have e : ov b L' t.uncomp t = idle1_og L' t.uncomp t := by rw [idle1_og_eq_ov, hinp]
        rw [e]
        have := (ind_rcReadInitN (fun _ => L') (fun _ => t.uncomp) id t.initLeft).comm t
        rw [hI] at this
        exact this
      rw [hZ]
      exact ⟨rfl, rfl⟩
    | true =>
      have hlim : t.dp.limit = L := by have h1 := congrArg (fun x : St => x.dp.limit) hfr.1; exact h1
      have hfix : ov b L s.uncomp t = t := ov_fix hinp hlim hun
      have hdp : t.dp.pos = s.dp.pos := by have h1 := congrArg (fun x : St => x.dp.pos) hfr.1; exact h1
      have hae : t.allowEopm = s.allowEopm := by have h1 := congrArg St.allowEopm hfr.1; exact h1
      have := idle1w_run k o b L L' s.uncomp t hL (by rw [hdp]; exact hpos) (hfr.2.2.2 t rfl) (by rw [hae]; exact heopm)
        (by rw [hfix]; exact hok) (by rw [hfix]; exact hpn)
      rw [hfix] at this
      exact this


open Wrap1 in
/-- a coder that is idle under zero room at the end of the window is idle after the wrap, with room -/
theorem idle1w_aux (y : RSt) (b : ByteArray) (L2 : Nat) (hpre : Pre1 y b y.s.dp.size) (ha : AlignOk y.s) (hf : FullOkS y.s)
    (hpos : y.s.dp.pos = y.s.dp.size) (hL2 : LZ_DICT_REPEAT_MAX ≤ L2) (hpn : y.s.pending = .none)
    (hW : Same (lzmaCallR (y.view b y.s.dp.size)) (.ok, y)) :
    Same (lzmaCallR (y.wrap.view b L2)) (.ok, y.wrap) := by
  have hsym := symPre_wrap y hpre.sym ha hpos
  obtain ⟨s, k, o⟩ := y
  have hpos' : s.dp.pos = s.dp.size := hpos
  have hw := wrap_eq s.dp hpos'
  have hp : WPar ({ s.dp with limit := s.dp.size } : DictPos) { s.dp.wrap with limit := LZ_DICT_REPEAT_MAX } := by
    refine ⟨⟨hpos', hf⟩, ⟨?_, ?_⟩, ?_, ?_⟩
    · rw [hw]
    · rw [hw]; intro h; cases h
    · rw [hw]
    · rw [hw]
      show (288 : Nat) % 16 = s.dp.pos % 16
      rw [hpos', ha.1]
  have hWd : ({ ({ s.dp.wrap with limit := LZ_DICT_REPEAT_MAX } : DictPos) with limit := 0 } : DictPos)
      = { ({ s.dp with limit := s.dp.size } : DictPos).wrap with limit := 0 } := by
    rw [hw, wrap_eq ({ s.dp with limit := s.dp.size } : DictPos) hpos']
  have hq : Q ({ s.dp with limit := s.dp.size } : DictPos) { s with inp := b, dp := { s.dp with limit := s.dp.size } } :=
    ⟨rfl, ha.2.1, ha.2.2⟩
  have hcomm : Same (lzmaCallR ((RSt.wrap ⟨s, k, o⟩).view b LZ_DICT_REPEAT_MAX))
      ((lzmaCallR ((⟨s, k, o⟩ : RSt).view b s.dp.size)).1, (lzmaCallR ((⟨s, k, o⟩ : RSt).view b s.dp.size)).2.wrap) :=
    call_wrap hp hWd k o _ hq
  have hpre2 : Pre1 (RSt.wrap ⟨s, k, o⟩) b LZ_DICT_REPEAT_MAX := by
    refine ⟨hpre.inPos, ?_, hpre.agree, hsym, hpre.eopm⟩
    show s.dp.wrap.pos ≤ 288
    rw [hw]
    exact Nat.le_refl _
  generalize lzmaCallR ((⟨s, k, o⟩ : RSt).view b s.dp.size) = w at hcomm hW
  have hn : (lzmaCallR ((RSt.wrap ⟨s, k, o⟩).view b LZ_DICT_REPEAT_MAX)).2.norm = (RSt.wrap ⟨s, k, o⟩).norm :=
    hcomm.2.trans (normW_of_norm hW.2)
  have hok2 : (lzmaCallR ((RSt.wrap ⟨s, k, o⟩).view b LZ_DICT_REPEAT_MAX)).1 = .ok := hcomm.1.trans hW.1
  have hpn2 : (lzmaCallR ((RSt.wrap ⟨s, k, o⟩).view b LZ_DICT_REPEAT_MAX)).2.s.pending = .none := by
    have := congrArg (fun q : RSt => q.s.pending) hn
    exact this.trans hpn
  have hid := l1IdleS (RSt.wrap ⟨s, k, o⟩) b LZ_DICT_REPEAT_MAX L2 hpre2 hL2 hok2 hpn2
  rw [RSt.view_congr hn b L2] at hid
  exact hid.trans ⟨hok2, hn⟩

open Wrap1 in
/-- **A call that starved exactly at the end of the window, called again after the wrap with room, is a no-op.**
    "Starved" = returned LZMA_OK and is not stopped at a write (`pending = .none` after the call). -/
theorem l1IdleWrap (r : RSt) (b : ByteArray) (L2 : Nat) (hpre : Pre1 r b r.s.dp.size) (ha : AlignOk r.s) (hf : FullOkS r.s)
    (hpos : r.s.dp.pos = r.s.dp.size) (hL2 : LZ_DICT_REPEAT_MAX ≤ L2) (_hL2b : L2 ≤ r.s.dp.size)
    (hok : (lzmaCallR (r.view b r.s.dp.size)).1 = .ok)
    (hst : (lzmaCallR (r.view b r.s.dp.size)).2.s.pending = .none) :
    Same (lzmaCallR ((lzmaCallR (r.view b r.s.dp.size)).2.wrap.view b L2)) (.ok, (lzmaCallR (r.view b r.s.dp.size)).2.wrap) := by
  have hin : (r.view b r.s.dp.size).s.inPos ≤ (r.view b r.s.dp.size).s.inp.size := hpre.inPos
  have hlim : (r.view b r.s.dp.size).s.dp.pos ≤ (r.view b r.s.dp.size).s.dp.limit := hpre.pos
  have hsp := l1Spec (r.view b r.s.dp.size) (hpre.sym.view b _ hpre.agree) hin hlim
  have hkp := kp_lzmaCallR (r.view b r.s.dp.size)
  have hidle := l1IdleS r b r.s.dp.size r.s.dp.size hpre (Nat.le_refl _) hok hst
  generalize lzmaCallR (r.view b r.s.dp.size) = X at *
  obtain ⟨hsym, hwr, _, _, hae, hun, hhw, hfull⟩ := hsp
  have hsz : X.2.s.dp.size = r.s.dp.size := hkp.size
  have hXpos : X.2.s.dp.pos = X.2.s.dp.size := by
    have h1 : r.s.dp.pos ≤ X.2.s.dp.pos := hwr.dpos_mono
    have h2 : X.2.s.dp.pos ≤ X.2.s.dp.limit := hwr.in_limit hlim
    have h3 : X.2.s.dp.limit = r.s.dp.size := hwr.limit
    omega
  have hXinp : X.2.s.inp = b := hwr.inp
  have hXin : X.2.s.inPos ≤ b.size := by
    have := hwr.pos_le hin
    rw [hXinp] at this; exact this
  have hpreX : Pre1 X.2 b X.2.s.dp.size := by
    refine ⟨hXin, by rw [hXpos]; exact Nat.le_refl _, ?_, hsym, ?_⟩
    · rw [hXinp]; exact ⟨hXin, hXin, fun _ _ _ _ => rfl⟩
    · rcases hpre.eopm with h | h
      · exact Or.inl (hae.trans h)
      · exact Or.inr (hun.mpr h)
  have haX : AlignOk X.2.s := by
    unfold AlignOk
    rw [hkp.size, hkp.lc, hkp.lp, hkp.pb]
    exact ha
  have hfX : FullOkS X.2.s := by
    intro h
    have h0 : r.s.dp.hasWrapped = false := by
      have : X.2.s.dp.hasWrapped = r.s.dp.hasWrapped := hhw
      rw [← this]; exact h
    exact hfull h0 (hf h0)
  have hW : Same (lzmaCallR (X.2.view b X.2.s.dp.size)) (.ok, X.2) := by
    rw [hsz]
    exact hidle.trans ⟨hok, rfl⟩
  exact idle1w_aux X.2 b L2 hpreX haX hfX hXpos hL2 hst hW

/-! ### the same without the restriction `Pre1.eopm` -/

/-- the main part of a call (after `rc_read_init`) -/
theorem idle1wq_run (k : Option SymSnap) (o : Bool) (b : ByteArray) (L L' : Nat) (w : Option Nat) (s0 : St)
    (hL : L ≤ L') (hpos : s0.dp.pos ≤ L) (hil : s0.initLeft = 0) (hq : RcQ s0) (hkq : ∀ kk, k = some kk → RcQk kk)
    (hok : (finK k o (ov b L w s0)).1 = .ok) (hpn : (finK k o (ov b L w s0)).2.s.pending = .none) :
    Same (lzmaCallR ((finK k o (ov b L w s0)).2.view b L')) (finK k o (ov b L w s0)) := by
  rw [finK_eq k o b L w s0] at hok hpn ⊢
  have hPR := pr_call w s0.dp.pos L L' hpos hL
  have hcb := clN_bounds w s0.dp.pos L hpos
  have hdle : ∀ u, w = some u → ∀ d, s0.dp.pos + d ≤ clN w s0.dp.pos L → d ≤ u := by
    intro u hu d hd
    subst hu
    unfold clN at hd
    simp only [] at hd
    split at hd <;> omega
  have hcl : clN w s0.dp.pos L = L ∨ ∃ u, w = some u ∧ clN w s0.dp.pos L = s0.dp.pos + u := by
    cases w with
    | none => exact Or.inl rfl
    | some u =>
      unfold clN
      simp only []
      split
      · exact Or.inr ⟨u, rfl, rfl⟩
      · exact Or.inl rfl
  generalize clN w s0.dp.pos L = Lc at *
  generalize mfN w s0.dp.pos L = mfX at *
  have hinv : Idle1qInv b w.isNone Lc (w.isNone || s0.eopmValid) (ov b Lc w { s0 with pending := .none }) :=
    ⟨rfl, rcq_congr s0 _ hq rfl rfl rfl, rfl, rfl⟩
  have hnfX := headR_nofuel (Lc - s0.dp.pos + 2) (w.isNone || s0.eopmValid) mfX s0.pending k
    (ov b Lc w { s0 with pending := .none }) hcb.1 (by show Lc - s0.dp.pos < _; omega)
  have hpostX := post_headR (Lc - s0.dp.pos + 2) (w.isNone || s0.eopmValid) mfX s0.pending k
    (ov b Lc w { s0 with pending := .none })
  have hfull := idle1_full_head (Lc - s0.dp.pos + 2) (w.isNone || s0.eopmValid) mfX s0.pending k
    (ov b Lc w { s0 with pending := .none }) hcb.1
  have hidle := fun mf2 L2 v2 => idle1q_head b w.isNone mfX mf2 Lc L2 v2 (Lc - s0.dp.pos + 2) (w.isNone || s0.eopmValid) s0.pending k
    (ov b Lc w { s0 with pending := .none }) hkq hinv
  generalize headR (Lc - s0.dp.pos + 2) (w.isNone || s0.eopmValid) mfX s0.pending k
    (ov b Lc w { s0 with pending := .none }) = runX at *
  obtain ⟨resX, kx⟩ := runX
  cases resX with
  | ok a t => exact absurd rfl (hpostX.noOk a t)
  | error e t =>
    have hstp : Stp (ov b Lc w { s0 with pending := .none }) t := hpostX.stp
    have hpend : t.pending = .none := hstp.pending
    have hil' : t.initLeft = 0 := hstp.initLeft.trans hil
    have hHle : s0.hist.size ≤ t.hist.size := by
      have h1 : t.hist.size + s0.dp.pos = s0.hist.size + t.dp.pos := hstp.hist
      have h2 : s0.dp.pos ≤ t.dp.pos := hstp.mono
      omega
    have htpos : t.dp.pos = s0.dp.pos + (t.hist.size - s0.hist.size) := by
      have h1 : t.hist.size + s0.dp.pos = s0.hist.size + t.dp.pos := hstp.hist
      omega
    have htlim : t.dp.limit = Lc := hstp.limit
    have htle : t.dp.pos ≤ Lc := by
      have h1 : t.dp.pos ≤ t.dp.limit := hstp.inlim hcb.1
      omega
    cases e with
    | fuel => exact absurd rfl (hnfX t)
    | dataError => rw [idle1_fst_dataError] at hok; cases hok
    | streamEnd => rw [idle1_fst_streamEnd] at hok; cases hok
    | outFull q =>
      exfalso
      obtain ⟨hq, _⟩ := hfull q t kx rfl
      rw [idle1w_outFull_pending] at hpn
      cases q <;> first | exact absurd rfl hq.1 | exact absurd rfl hq.2 | exact absurd hpn (by simp)
    | needInput =>
      rw [idle1_finOf_needInput]
      have hshift := shiftN w (t.hist.size - s0.hist.size) s0.dp.pos L'
        (fun u hu => hdle u hu _ (by omega)) (by omega)
      rw [← htpos] at hshift
      have htest : (mfX && (t.dp.pos == Lc))
          = (mfN (w.map (· - (t.hist.size - s0.hist.size))) t.dp.pos L'
              && (t.dp.pos == clN (w.map (· - (t.hist.size - s0.hist.size))) t.dp.pos L')) := by
        rw [hshift.1, hshift.2]
        exact hPR.test t.dp.pos htle
      obtain ⟨hinp, hrun⟩ := hidle _ _ (w.map (· - (t.hist.size - s0.hist.size))) t kx rfl htest
      have hisn : w.isNone = (w.map (· - (t.hist.size - s0.hist.size))).isNone := by cases w <;> rfl
      rw [hisn] at hrun
      exact idle1_tail o b L L' _ t kx hil' hpend hinp hrun



/-- the same under `Pre1Q` (any `allow_eopm` / size configuration) -/
theorem l1IdleSQ (r : RSt) (b : ByteArray) (L L' : Nat) (hpre : Pre1Q r b L) (hL : L ≤ L')
    (hok : (lzmaCallR (r.view b L)).1 = .ok) (hpn : (lzmaCallR (r.view b L)).2.s.pending = .none) :
    Same (lzmaCallR ((lzmaCallR (r.view b L)).2.view b L')) (lzmaCallR (r.view b L)) := by
  obtain ⟨s, k, o⟩ := r
  have hpos : s.dp.pos ≤ L := hpre.pos
  have hq : RcQ s := hpre.rcq.1
  have hkq : ∀ kk, k = some kk → RcQk kk := hpre.rcq.2
  have hcall : lzmaCallR ((RSt.mk s k o).view b L) = callK k o (rcReadInit (ov b L s.uncomp s)) :=
    lzmaCallR_eq ⟨ov b L s.uncomp s, k, o⟩
  rw [hcall] at hok hpn ⊢
  have hfr := rcReadInit_frame (ov b L s.uncomp s)
  cases hri : rcReadInit (ov b L s.uncomp s) with
  | error e t =>
    rw [hri] at hok
    cases hok
  | ok a t =>
    rw [hri] at hfr hok hpn
    have hinp : t.inp = b := by have h1 := congrArg St.inp hfr.1; exact h1
    have hun : t.uncomp = s.uncomp := by have h1 := congrArg St.uncomp hfr.1; exact h1
    cases a with
    | false =>
      show Same (lzmaCallR ⟨ov b L' t.uncomp t, k, o⟩) (.ok, ⟨t, k, o⟩)
      rw [lzmaCallR_eq]
      show Same (callK k o (rcReadInit (ov b L' t.uncomp t))) _
      have hI : rcReadInitN t.initLeft t = .ok false t := idle1_init _ _ t rfl hri
      have hZ : rcReadInit (ov b L' t.uncomp t) = .ok false (ov b L' t.uncomp t) := by
        have e : ov b L' t.uncomp t = idle1_og L' t.uncomp t := by rw [idle1_og_eq_ov, hinp]
        rw [e]
        have := (ind_rcReadInitN (fun _ => L') (fun _ => t.uncomp) id t.initLeft).comm t
        rw [hI] at this
        exact this
      rw [hZ]
      exact ⟨rfl, rfl⟩
    | true =>
      have hlim : t.dp.limit = L := by have h1 := congrArg (fun x : St => x.dp.limit) hfr.1; exact h1
      have hfix : ov b L s.uncomp t = t := ov_fix hinp hlim hun
      have hdp : t.dp.pos = s.dp.pos := by have h1 := congrArg (fun x : St => x.dp.pos) hfr.1; exact h1
      have hqt : RcQ t := by
        have := rcq_rcReadInit (ov b L s.uncomp s) (rcq_congr s _ hq rfl rfl rfl)
        rw [hri] at this; exact this
      have := idle1wq_run k o b L L' s.uncomp t hL (by rw [hdp]; exact hpos) (hfr.2.2.2 t rfl) hqt hkq
        (by rw [hfix]; exact hok) (by rw [hfix]; exact hpn)
      rw [hfix] at this
      exact this


open Wrap1 in
/-- (`Pre1Q`) a coder that is idle under zero room at the end of the window is idle after the wrap, with room -/
theorem idle1wq_aux (y : RSt) (b : ByteArray) (L2 : Nat) (hpre : Pre1Q y b y.s.dp.size) (ha : AlignOk y.s) (hf : FullOkS y.s)
    (hpos : y.s.dp.pos = y.s.dp.size) (hL2 : LZ_DICT_REPEAT_MAX ≤ L2) (hpn : y.s.pending = .none)
    (hW : Same (lzmaCallR (y.view b y.s.dp.size)) (.ok, y)) :
    Same (lzmaCallR (y.wrap.view b L2)) (.ok, y.wrap) := by
  have hsym := symPre_wrap y hpre.sym ha hpos
  obtain ⟨s, k, o⟩ := y
  have hpos' : s.dp.pos = s.dp.size := hpos
  have hw := wrap_eq s.dp hpos'
  have hp : WPar ({ s.dp with limit := s.dp.size } : DictPos) { s.dp.wrap with limit := LZ_DICT_REPEAT_MAX } := by
    refine ⟨⟨hpos', hf⟩, ⟨?_, ?_⟩, ?_, ?_⟩
    · rw [hw]
    · rw [hw]; intro h; cases h
    · rw [hw]
    · rw [hw]
      show (288 : Nat) % 16 = s.dp.pos % 16
      rw [hpos', ha.1]
  have hWd : ({ ({ s.dp.wrap with limit := LZ_DICT_REPEAT_MAX } : DictPos) with limit := 0 } : DictPos)
      = { ({ s.dp with limit := s.dp.size } : DictPos).wrap with limit := 0 } := by
    rw [hw, wrap_eq ({ s.dp with limit := s.dp.size } : DictPos) hpos']
  have hq : Q ({ s.dp with limit := s.dp.size } : DictPos) { s with inp := b, dp := { s.dp with limit := s.dp.size } } :=
    ⟨rfl, ha.2.1, ha.2.2⟩
  have hcomm : Same (lzmaCallR ((RSt.wrap ⟨s, k, o⟩).view b LZ_DICT_REPEAT_MAX))
      ((lzmaCallR ((⟨s, k, o⟩ : RSt).view b s.dp.size)).1, (lzmaCallR ((⟨s, k, o⟩ : RSt).view b s.dp.size)).2.wrap) :=
    call_wrap hp hWd k o _ hq
  have hpre2 : Pre1Q (RSt.wrap ⟨s, k, o⟩) b LZ_DICT_REPEAT_MAX := by
    refine ⟨hpre.inPos, ?_, hpre.agree, hsym, hpre.rcq⟩
    show s.dp.wrap.pos ≤ 288
    rw [hw]
    exact Nat.le_refl _
  generalize lzmaCallR ((⟨s, k, o⟩ : RSt).view b s.dp.size) = w at hcomm hW
  have hn : (lzmaCallR ((RSt.wrap ⟨s, k, o⟩).view b LZ_DICT_REPEAT_MAX)).2.norm = (RSt.wrap ⟨s, k, o⟩).norm :=
    hcomm.2.trans (normW_of_norm hW.2)
  have hok2 : (lzmaCallR ((RSt.wrap ⟨s, k, o⟩).view b LZ_DICT_REPEAT_MAX)).1 = .ok := hcomm.1.trans hW.1
  have hpn2 : (lzmaCallR ((RSt.wrap ⟨s, k, o⟩).view b LZ_DICT_REPEAT_MAX)).2.s.pending = .none := by
    have := congrArg (fun q : RSt => q.s.pending) hn
    exact this.trans hpn
  have hid := l1IdleSQ (RSt.wrap ⟨s, k, o⟩) b LZ_DICT_REPEAT_MAX L2 hpre2 hL2 hok2 hpn2
  rw [RSt.view_congr hn b L2] at hid
  exact hid.trans ⟨hok2, hn⟩

open Wrap1 in
/-- (`Pre1Q`) **A call that starved exactly at the end of the window, called again after the wrap with room, is a no-op.**
    "Starved" = returned LZMA_OK and is not stopped at a write (`pending = .none` after the call). -/
theorem l1IdleWrapQ (r : RSt) (b : ByteArray) (L2 : Nat) (hpre : Pre1Q r b r.s.dp.size) (ha : AlignOk r.s) (hf : FullOkS r.s)
    (hpos : r.s.dp.pos = r.s.dp.size) (hL2 : LZ_DICT_REPEAT_MAX ≤ L2) (_hL2b : L2 ≤ r.s.dp.size)
    (hok : (lzmaCallR (r.view b r.s.dp.size)).1 = .ok)
    (hst : (lzmaCallR (r.view b r.s.dp.size)).2.s.pending = .none) :
    Same (lzmaCallR ((lzmaCallR (r.view b r.s.dp.size)).2.wrap.view b L2)) (.ok, (lzmaCallR (r.view b r.s.dp.size)).2.wrap) := by
  have hin : (r.view b r.s.dp.size).s.inPos ≤ (r.view b r.s.dp.size).s.inp.size := hpre.inPos
  have hlim : (r.view b r.s.dp.size).s.dp.pos ≤ (r.view b r.s.dp.size).s.dp.limit := hpre.pos
  have hsp := l1Spec (r.view b r.s.dp.size) (hpre.sym.view b _ hpre.agree) hin hlim
  have hkp := kp_lzmaCallR (r.view b r.s.dp.size)
  have hrq : RcQR (lzmaCallR (r.view b r.s.dp.size)).2 := rcqr_lzmaCallR _ (rcqr_view r b _ hpre.rcq)
  have hidle := l1IdleSQ r b r.s.dp.size r.s.dp.size hpre (Nat.le_refl _) hok hst
  generalize lzmaCallR (r.view b r.s.dp.size) = X at *
  obtain ⟨hsym, hwr, _, _, hae, hun, hhw, hfull⟩ := hsp
  have hsz : X.2.s.dp.size = r.s.dp.size := hkp.size
  have hXpos : X.2.s.dp.pos = X.2.s.dp.size := by
    have h1 : r.s.dp.pos ≤ X.2.s.dp.pos := hwr.dpos_mono
    have h2 : X.2.s.dp.pos ≤ X.2.s.dp.limit := hwr.in_limit hlim
    have h3 : X.2.s.dp.limit = r.s.dp.size := hwr.limit
    omega
  have hXinp : X.2.s.inp = b := hwr.inp
  have hXin : X.2.s.inPos ≤ b.size := by
    have := hwr.pos_le hin
    rw [hXinp] at this; exact this
  have hpreX : Pre1Q X.2 b X.2.s.dp.size := by
    refine ⟨hXin, by rw [hXpos]; exact Nat.le_refl _, ?_, hsym, ?_⟩
    · rw [hXinp]; exact ⟨hXin, hXin, fun _ _ _ _ => rfl⟩
    · exact hrq
  have haX : AlignOk X.2.s := by
    unfold AlignOk
    rw [hkp.size, hkp.lc, hkp.lp, hkp.pb]
    exact ha
  have hfX : FullOkS X.2.s := by
    intro h
    have h0 : r.s.dp.hasWrapped = false := by
      have : X.2.s.dp.hasWrapped = r.s.dp.hasWrapped := hhw
      rw [← this]; exact h
    exact hfull h0 (hf h0)
  have hW : Same (lzmaCallR (X.2.view b X.2.s.dp.size)) (.ok, X.2) := by
    rw [hsz]
    exact hidle.trans ⟨hok, rfl⟩
  exact idle1wq_aux X.2 b L2 hpreX haX hfX hXpos hL2 hst hW

end XzVerif.LzmaR
