/-
  The LZMA1 instances of the LZ-layer interfaces for ANY configuration (also "known size AND end marker allowed"):
  `CodeAbsorb / CodeWrap P1Q lzmaCallR` from the call-level results `L1AbsorbQ`, `L1WrapQ` and the invariant sweep `RcQR`.
-/
import XzVerif.Lemmas.LzmaResumeWrap1
import XzVerif.Lemmas.LzmaResumeRcQ
import XzVerif.Lemmas.LzmaResumeWrap1Q
import XzVerif.Lemmas.LzmaResumeIdle1Q

namespace XzVerif.LzmaR
open XzVerif.RangeDec XzVerif.LzDict XzVerif.Lzma XzVerif.Lzma2

theorem rcqr_view' (r : RSt) (b : ByteArray) (L : Nat) (h : RcQR r) : RcQR (r.view b L) := h
theorem rcqr_wrap (r : RSt) (h : RcQR r) : RcQR r.wrap := h

theorem codeAbsorb_lzma1Q (hA : L1AbsorbQ) (hq : ∀ r, RcQR r → RcQR (lzmaCallR r).2) : CodeAbsorb P1Q lzmaCallR where
  spec := by
    intro r hp _ hin hlim
    obtain ⟨hs, hr, hn⟩ := hp
    obtain ⟨a1, a2, a3, _, _, _, a7, a8⟩ := l1Spec r hs hin hlim
    refine ⟨a2.toCr, a3, ⟨a1, hq r hr, ?_⟩, ?_, a7, a8⟩
    · rw [a2.needReset]; exact hn
    · intro h; left; rw [← a2.needReset]; exact h
  frame_view := by
    intro r b L hp hag
    exact ⟨hp.1.view b L hag, rcqr_view' r b L hp.2.1, hp.2.2⟩
  frame_reset := by
    intro r hp hr
    rw [hp.2.2] at hr; cases hr
  stop := by
    intro r b b' L L' hp hag hin hpos hbb hL _ hne
    have := hA r b b' L L' ⟨hin, hpos, hag, hp.1, hp.2.1⟩ hbb hL
    rw [if_neg hne] at this
    exact Or.inl this
  yield := by
    intro r b b' L L' hp hag hin hpos hbb hL hnr _ hy
    exfalso
    have hv : SymPre (r.view b L) := hp.1.view b L hag
    have hsp := l1Spec (r.view b L) hv (by show r.s.inPos ≤ b.size; exact hin) (by show r.s.dp.pos ≤ L; exact hpos)
    have := hsp.2.1.needReset
    rw [hy] at this
    have h2 : (r.view b L).s.dp.needReset = r.s.dp.needReset := rfl
    rw [h2, hnr] at this
    cases this
  resume := by
    intro r b b' L L' hp hag hin hpos hbb hL _ hok _
    have := hA r b b' L L' ⟨hin, hpos, hag, hp.1, hp.2.1⟩ hbb hL
    rw [if_pos hok] at this
    exact Or.inl this

theorem codeWrap_lzma1Q (hW : L1WrapQ) : CodeWrap P1Q lzmaCallR where
  frame_wrap := by
    intro r hp ha _ hpos
    refine ⟨Wrap1.symPre_wrap r hp.1 ha hpos, rcqr_wrap r hp.2.1, ?_⟩
    show r.s.dp.wrap.needReset = false
    rw [Wrap1.wrap_eq r.s.dp hpos]
    exact hp.2.2
  align := by
    intro r _ _ _ _ ha
    have h := Wrap1.kp_lzmaCallR r
    unfold AlignOk
    rw [h.size, h.lc, h.lp, h.pb]
    exact ha
  stop := by
    intro r b L2 hp ha hf hag hin _ hpos h1 h2 hne
    have := hW r b L2 ⟨hin, by rw [hpos]; exact Nat.le_refl _, hag, hp.1, hp.2.1⟩ ha hf hpos h1 h2
    rw [if_neg hne] at this
    exact Or.inl this
  yield := by
    intro r b L2 hp ha hf hag hin hnr hpos h1 h2 _ hy
    exfalso
    have hv : SymPre (r.view b r.s.dp.size) := hp.1.view b _ hag
    have hsp := l1Spec (r.view b r.s.dp.size) hv (by show r.s.inPos ≤ b.size; exact hin)
      (by show r.s.dp.pos ≤ r.s.dp.size; rw [hpos]; exact Nat.le_refl _)
    have := hsp.2.1.needReset
    rw [hy] at this
    have h2 : (r.view b r.s.dp.size).s.dp.needReset = r.s.dp.needReset := rfl
    rw [h2, hnr] at this
    cases this
  resume := by
    intro r b L2 hp ha hf hag hin _ hpos h1 h2 hok _
    have := hW r b L2 ⟨hin, by rw [hpos]; exact Nat.le_refl _, hag, hp.1, hp.2.1⟩ ha hf hpos h1 h2
    rw [if_pos hok] at this
    exact Or.inl this

/-- the initial state of ANY LZMA1 configuration -/
theorem p1q_init (props : Props) (dictSize : Nat) (uncomp : Option Nat) (allowEopm : Bool) (preset : List UInt8) :
    P1Q (initLzma1R props dictSize uncomp allowEopm preset) := by
  have hs : SymPre (initLzma1R props dictSize uncomp allowEopm preset) := by
    intro k hk; cases hk
  exact ⟨hs, rcqr_initLzma1R props dictSize uncomp allowEopm preset, rfl⟩

theorem lzmaCallR_overrun (r : RSt) : (lzmaCallR r).2.overrun = r.overrun := by
  unfold lzmaCallR
  cases rcReadInit r.s with
  | error e s => rfl
  | ok a s => cases a <;> rfl

theorem decodeBufferR_overrun (code : RSt → Ret × RSt) (h : ∀ r, (code r).2.overrun = r.overrun) :
    ∀ (f N : Nat) (r : RSt), (decodeBufferR code f N r).2.overrun = r.overrun
  | 0, _, _ => rfl
  | f + 1, N, r => by
    unfold decodeBufferR
    simp only []
    generalize hc : code (r.map fun s => { s with dp := (s.dp.wrap).setLimit (N - s.produced) }) = c
    have h1 : c.2.overrun = r.overrun := by rw [← hc, h]; rfl
    obtain ⟨ret, r1⟩ := c
    simp only [] at h1 ⊢
    split
    · split
      · exact h1
      · rw [decodeBufferR_overrun code h f N _]; exact h1
    · split
      · exact h1
      · rw [decodeBufferR_overrun code h f N _]; exact h1

/-- the LZMA1 coder never raises the (LZMA2-only) chunk-overrun flag -/
theorem lzma1_overrun_false (buf : ByteArray) (N : Nat) (r : RSt) (h : r.overrun = false) :
    (callR .lzma1 buf N r).2.overrun = false := by
  unfold callR
  rw [decodeBufferR_overrun (codeOf .lzma1) (fun r => lzmaCallR_overrun r)]
  exact h
/-- packaged, no hypotheses left -/
theorem codeAbsorb_lzma1Q' : CodeAbsorb P1Q lzmaCallR := codeAbsorb_lzma1Q l1AbsorbQ rcqr_lzmaCallR
theorem codeWrap_lzma1Q' : CodeWrap P1Q lzmaCallR := codeWrap_lzma1Q l1WrapQ

end XzVerif.LzmaR
