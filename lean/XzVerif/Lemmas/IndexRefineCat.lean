/-
  C13 helper lemmas: lzma_index_cat and lzma_index_dup of the concrete model refine the specification.
-/
import XzVerif.Lemmas.IndexRefineOps2

namespace XzVerif.Index
namespace Impl

/-- what `index_cat_helper` does to one Stream -/
def rebase (info : CatInfo) (s : Stream) : Stream :=
  { s with uncompressedBase := s.uncompressedBase + info.uncompressedSize,
           compressedBase := s.compressedBase + info.fileSize,
           number := s.number + info.streamNumberAdd,
           blockNumberBase := s.blockNumberBase + info.blockNumberAdd }

theorem catHelper_spec (info : CatInfo) : ∀ (t : Tree Stream) (acc : CTree Stream),
    (catHelper info t acc).toList = acc.toList ++ t.toList.map (rebase info)
    ∧ (catHelper info t acc).count = acc.count + t.toList.length
  | .nil, acc => by simp [catHelper, Tree.toList]
  | .node l s r, acc => by
    obtain ⟨a1, a2⟩ := catHelper_spec info l acc
    obtain ⟨b1, b2⟩ := catHelper_spec info r ((catHelper info l acc).append (rebase info s))
    unfold catHelper
    constructor
    · show (catHelper info r ((catHelper info l acc).append (rebase info s))).toList = _
      rw [b1, CTree.toList_append, a1]; simp [Tree.toList]
    · show (catHelper info r ((catHelper info l acc).append (rebase info s))).count = _
      rw [b2, CTree.count_append, a2]; simp [Tree.toList]; omega

theorem absStream_rebase (info : CatInfo) (s : Stream) : absStream (rebase info s) = absStream s := rfl

/-- the "optimize the last group" step of `lzma_index_cat` -/
def shrinkLast (s : Stream) : Stream :=
  { s with groups := ⟨s.groups.root.modifyRightmost fun g =>
      if g.records.size < g.allocated then { g with allocated := g.records.size } else g, s.groups.count⟩ }

theorem flatMap_modifyLast {α β : Type} (f : α → α) (r : α → List β) (hf : ∀ x, r (f x) = r x) :
    ∀ l : List α, (Spec.modifyLast f l).flatMap r = l.flatMap r
  | [] => rfl
  | [x] => by simp [Spec.modifyLast, hf]
  | x :: y :: rest => by
    have := flatMap_modifyLast f r hf (y :: rest)
    simp only [Spec.modifyLast, List.flatMap_cons] at this ⊢
    rw [this]

theorem mem_modifyLast {α : Type} (f : α → α) : ∀ (l : List α) (y : α), y ∈ Spec.modifyLast f l → ∃ x ∈ l, y = x ∨ y = f x
  | [], y, h => by simp [Spec.modifyLast] at h
  | [x], y, h => by
    simp only [Spec.modifyLast, List.mem_singleton] at h
    exact ⟨x, by simp, Or.inr h⟩
  | x :: z :: rest, y, h => by
    simp only [Spec.modifyLast, List.mem_cons] at h
    rcases h with h | h
    · exact ⟨x, by simp, Or.inl h⟩
    · obtain ⟨w, hw, hy⟩ := mem_modifyLast f (z :: rest) y (by simpa using h)
      exact ⟨w, List.mem_cons_of_mem _ hw, hy⟩

theorem shrinkLast_inv {s : Stream} (hs : StreamInv s) : StreamInv (shrinkLast s) ∧ absStream (shrinkLast s) = absStream s := by
  have hrecs : ∀ g : Group, (if g.records.size < g.allocated then { g with allocated := g.records.size } else g).records = g.records := by
    intro g; split <;> rfl
  have hr : (shrinkLast s).allRecs = s.allRecs := by
    unfold Stream.allRecs shrinkLast
    simp only [Tree.toList_modifyRightmost]
    exact flatMap_modifyLast _ (fun (g : Group) => g.records.toList) (by intro g; simp only [hrecs]) _
  have hb : absStream (shrinkLast s) = absStream s := by
    unfold absStream; rw [hr]; rfl
  refine ⟨⟨?_, by rw [hr]; exact hs.recs, by rw [hr]; exact hs.count, by rw [hb]; exact hs.listSz, ?_, ?_⟩, hb⟩
  · intro g hg
    unfold shrinkLast CTree.toList at hg
    simp only [Tree.toList_modifyRightmost] at hg
    obtain ⟨x, hx, hy⟩ := mem_modifyLast _ _ g hg
    have := hs.groupsNe x hx
    rcases hy with hy | hy
    · rw [hy]; exact this
    · rw [hy, hrecs]; exact this
  · unfold shrinkLast CTree.toList
    simp only [Tree.toList_modifyRightmost, Spec.modifyLast_length]
    exact hs.gcount
  · unfold shrinkLast CTree.toList
    simp only [Tree.toList_modifyRightmost]
    have hb' := hs.gbases
    unfold CTree.toList at hb'
    by_cases hne : s.groups.root.toList = []
    · rw [hne]; exact groupsOk_nil
    · obtain ⟨gfront, g, hg⟩ := exists_snoc hne
      rw [hg, Spec.modifyLast_append_singleton]
      rw [hg] at hb'
      apply groupsOk_replace_last hb' <;> (split <;> rfl)

theorem dropLast_append_of_ne {α : Type} (a : List α) {b : List α} (h : b ≠ []) : (a ++ b).dropLast = a ++ b.dropLast := by
  obtain ⟨init, z, rfl⟩ := exists_snoc h
  rw [← List.append_assoc]; simp

theorem getElem?_append_map_right {α : Type} (a b : List α) (k : Nat) (hk : a.length ≤ k) :
    (a ++ b)[k]? = b[k - a.length]? := List.getElem?_append_right hk

/-- the index `lzma_index_cat` builds when all its checks pass -/
def catOk (dest src : Index) : Index :=
  let info : CatInfo := { uncompressedSize := dest.uncompressedSize, fileSize := Impl.fileSize dest,
                          streamNumberAdd := dest.streams.count, blockNumberAdd := dest.recordCount }
  { streams := catHelper info src.streams.root (setLastStream dest shrinkLast).streams,
    uncompressedSize := dest.uncompressedSize + src.uncompressedSize,
    totalSize := dest.totalSize + src.totalSize,
    recordCount := dest.recordCount + src.recordCount,
    indexListSize := dest.indexListSize + src.indexListSize,
    prealloc := dest.prealloc,
    checks := Impl.checks (setLastStream dest shrinkLast) ||| src.checks }

theorem cat_eq (dest src : Index) :
    Impl.cat dest src =
      if Impl.fileSize dest + Impl.fileSize src > VLI_MAX ∨ dest.uncompressedSize + src.uncompressedSize > VLI_MAX then (.dataError, dest)
      else if vliCeil4 (indexSizeUnpadded dest.recordCount dest.indexListSize
                        + indexSizeUnpadded src.recordCount src.indexListSize) > BACKWARD_SIZE_MAX then (.dataError, dest)
      else (.ok, catOk dest src) := rfl

theorem catOk_refines {dest src : Index} (hd : Inv dest) (hsrc : Inv src)
    (hspec : Spec.cat (abs dest) (abs src) = (.ok, abs dest ++ abs src)) :
    abs (catOk dest src) = abs dest ++ abs src ∧ Inv (catOk dest src) := by
  obtain ⟨front, last, h⟩ := exists_snoc hd.ne
  unfold CTree.toList at h
  have hlast : StreamInv last := hd.streams last (by unfold CTree.toList; rw [h]; simp)
  obtain ⟨hsl, habsl⟩ := shrinkLast_inv hlast
  have h1 : (setLastStream dest shrinkLast).streams.root.toList = front ++ [shrinkLast last] := setLast_toList h shrinkLast
  have hvalid : Spec.Valid (abs dest ++ abs src) := Spec.cat_valid hd.valid hsrc.valid hspec
  have hfsd : Impl.fileSize dest = Spec.rawFileSize (abs dest) := by
    rw [fileSize_refines hd, Spec.fileSize_of_valid hd.valid]
  let info : CatInfo := { uncompressedSize := dest.uncompressedSize, fileSize := Impl.fileSize dest,
                          streamNumberAdd := dest.streams.count, blockNumberAdd := dest.recordCount }
  obtain ⟨c1, c2⟩ := catHelper_spec info src.streams.root (setLastStream dest shrinkLast).streams
  have hres : (catOk dest src).streams.root.toList
      = (front ++ [shrinkLast last]) ++ src.streams.root.toList.map (rebase info) := by
    have := c1; unfold CTree.toList at this; rw [← h1]; exact this
  have habs : abs (catOk dest src) = abs dest ++ abs src := by
    unfold abs
    rw [hres, List.map_append, List.map_append, List.map_map, h]
    simp [habsl, Function.comp_def, absStream_rebase]
  refine ⟨habs, ?_⟩
  refine ⟨?_, ?_, ?_, ?_, ?_, ?_, ?_, ?_, ?_, ?_⟩
  · unfold CTree.toList; rw [hres]; simp
  · show (catHelper info src.streams.root (setLastStream dest shrinkLast).streams).count = _
    rw [c2]
    show dest.streams.count + _ = (catOk dest src).streams.root.toList.length
    rw [hres, hd.scount]; unfold CTree.toList; rw [h]; simp; omega
  · intro s hs
    have hs' : s ∈ (front ++ [shrinkLast last]) ++ src.streams.root.toList.map (rebase info) := by
      rw [← hres]; exact hs
    rcases List.mem_append.mp hs' with hs' | hs'
    · rcases List.mem_append.mp hs' with hs' | hs'
      · exact hd.streams s (by unfold CTree.toList; rw [h]; exact List.mem_append_left _ hs')
      · simp only [List.mem_singleton] at hs'; subst hs'; exact hsl
    · obtain ⟨x, hx, rfl⟩ := List.mem_map.mp hs'
      exact streamInv_congr (hsrc.streams x hx) rfl rfl rfl
  · intro k s hk
    rw [habs]
    have hk' : ((front ++ [shrinkLast last]) ++ src.streams.root.toList.map (rebase info))[k]? = some s := by
      rw [← hres]; exact hk
    have hlenD : (abs dest).length = front.length + 1 := by rw [abs_snoc h]; simp
    by_cases hlt : k < front.length + 1
    · -- a Stream of the destination
      rw [List.getElem?_append_left (by simpa using hlt)] at hk'
      have htake : (abs dest ++ abs src).take k = (abs dest).take k := by
        rw [List.take_append_of_le_length (by omega)]
      rw [htake]
      by_cases hlt2 : k < front.length
      · rw [List.getElem?_append_left hlt2] at hk'
        exact hd.bases k s (by unfold CTree.toList; rw [h, List.getElem?_append_left hlt2]; exact hk')
      · have hke : k = front.length := by omega
        subst hke
        have : s = shrinkLast last := by simpa using hk'.symm
        subst this
        exact hd.bases front.length last (by unfold CTree.toList; rw [h]; simp)
    · -- a moved Stream
      rw [List.getElem?_append_right (by simp; omega)] at hk'
      simp only [List.length_append, List.length_cons, List.length_nil, Nat.zero_add] at hk'
      rw [List.getElem?_map] at hk'
      obtain ⟨x, hx, rfl⟩ := Option.map_eq_some_iff.mp hk'
      obtain ⟨b1, b2, b3, b4⟩ := hsrc.bases (k - (front.length + 1)) x hx
      have hsplit : (abs dest ++ abs src).take k = abs dest ++ (abs src).take (k - (front.length + 1)) := by
        rw [List.take_append, hlenD, List.take_of_length_le (by omega)]
      rw [hsplit, Spec.rawFileSize_append, Spec.uncompressedSize_append, Spec.blockCount_append]
      refine ⟨?_, ?_, ?_, ?_⟩
      · show x.compressedBase + Impl.fileSize dest = _
        rw [b1, hfsd]; omega
      · show x.uncompressedBase + dest.uncompressedSize = _
        rw [b2, hd.unc]; omega
      · show x.number + dest.streams.count = _
        rw [b3, hd.scount]; unfold CTree.toList; rw [h]; simp; omega
      · show x.blockNumberBase + dest.recordCount = _
        rw [b4, hd.rcount]; omega
  · rw [habs, Spec.uncompressedSize_append]
    show dest.uncompressedSize + src.uncompressedSize = _
    rw [hd.unc, hsrc.unc]
  · rw [habs, Spec.totalSize_append]
    show dest.totalSize + src.totalSize = _
    rw [hd.total, hsrc.total]
  · rw [habs, Spec.blockCount_append]
    show dest.recordCount + src.recordCount = _
    rw [hd.rcount, hsrc.rcount]
  · rw [habs, Spec.listSizeAll_append]
    show dest.indexListSize + src.indexListSize = _
    rw [hd.lsize, hsrc.lsize]
  · rw [habs]
    show Impl.checks (setLastStream dest shrinkLast) ||| src.checks = _
    have hne : abs src ≠ [] := hsrc.valid.ne
    rw [dropLast_append_of_ne _ hne, spec_checks_append, ← hsrc.checks, ← checks_refines hd]
    congr 1
    unfold Impl.checks
    rw [rightmost_snoc h1, rightmost_snoc h]
    rfl
  · rw [habs]; exact hvalid

/-- `lzma_index_cat` refines the specification and keeps the invariant; a failing cat changes nothing -/
theorem cat_refines {dest src : Index} (hd : Inv dest) (hsrc : Inv src) :
    (Impl.cat dest src).1 = (Spec.cat (abs dest) (abs src)).1
    ∧ abs (Impl.cat dest src).2 = (Spec.cat (abs dest) (abs src)).2
    ∧ Inv (Impl.cat dest src).2
    ∧ ((Impl.cat dest src).1 ≠ .ok → (Impl.cat dest src).2 = dest) := by
  rw [cat_eq]
  unfold Spec.cat Spec.catCheck
  rw [fileSize_refines hd, fileSize_refines hsrc, hd.unc, hsrc.unc, hd.rcount, hd.lsize, hsrc.rcount, hsrc.lsize]
  split
  · exact ⟨rfl, rfl, hd, fun _ => rfl⟩
  · next hc1 =>
    split
    · exact ⟨rfl, rfl, hd, fun _ => rfl⟩
    · next hc2 =>
      have hspec : Spec.cat (abs dest) (abs src) = (.ok, abs dest ++ abs src) := by
        unfold Spec.cat Spec.catCheck; rw [if_neg hc1, if_neg hc2]
      obtain ⟨ha, hinv⟩ := catOk_refines hd hsrc hspec
      exact ⟨rfl, ha, hinv, fun hne => absurd rfl hne⟩

/-! ### dup -/

theorem foldl_append_spec {α β : Type} (f : α → β) : ∀ (l : List α) (acc : CTree β),
    (l.foldl (fun t s => t.append (f s)) acc).toList = acc.toList ++ l.map f
    ∧ (l.foldl (fun t s => t.append (f s)) acc).count = acc.count + l.length
  | [], acc => by simp
  | x :: r, acc => by
    obtain ⟨a, b⟩ := foldl_append_spec f r (acc.append (f x))
    simp only [List.foldl_cons]
    rw [a, b, CTree.toList_append, CTree.count_append]
    simp; omega

theorem foldl_records_toList : ∀ (l : List Group) (a : Array Rec),
    (l.foldl (fun acc g => acc ++ g.records) a).toList = a.toList ++ l.flatMap fun g => g.records.toList
  | [], a => by simp
  | g :: r, a => by
    simp only [List.foldl_cons, List.flatMap_cons]
    rw [foldl_records_toList r]; simp

theorem streamInv_of_recs {s s' : Stream} (hs : StreamInv s) (hr : s'.allRecs = s.allRecs)
    (hc : s'.recordCount = s.recordCount) (hl : s'.indexListSize = s.indexListSize)
    (hne : ∀ g ∈ s'.groups.toList, g.records.size ≠ 0) (hg : s'.groups.count = s'.groups.toList.length)
    (hgb : GroupsOk s'.groups.toList) :
    StreamInv s' ∧ (absStream s').blocks = (absStream s).blocks := by
  have hb : (absStream s').blocks = (absStream s).blocks := by unfold absStream; simp only [hr]
  exact ⟨⟨hne, by rw [hr]; exact hs.recs, by rw [hc, hr]; exact hs.count, by rw [hl, hb]; exact hs.listSz, hg, hgb⟩, hb⟩

theorem dupStream_inv {s : Stream} (hs : StreamInv s) :
    StreamInv (dupStream s) ∧ absStream (dupStream s) = absStream s
    ∧ (dupStream s).compressedBase = s.compressedBase ∧ (dupStream s).uncompressedBase = s.uncompressedBase
    ∧ (dupStream s).number = s.number ∧ (dupStream s).blockNumberBase = s.blockNumberBase := by
  unfold dupStream
  simp only
  split
  · next hnil =>
    have hl : s.groups.root.toList = [] := by
      rw [Tree.isNil_iff_toList] at hnil; simpa using hnil
    have hr : s.allRecs = [] := by unfold Stream.allRecs; rw [hl]; rfl
    have hr' : ({ s with groups := CTree.empty } : Stream).allRecs = s.allRecs := by rw [hr]; rfl
    obtain ⟨a, b⟩ := streamInv_of_recs (s' := { s with groups := CTree.empty }) hs hr' rfl rfl
      (by intro g hg; simp [CTree.toList, CTree.empty, Tree.toList] at hg) rfl groupsOk_nil
    refine ⟨a, ?_, rfl, rfl, rfl, rfl⟩
    unfold absStream at b ⊢; simp only at b ⊢; rw [b]
  · next hnn =>
    have hne : s.groups.root.toList ≠ [] := by
      intro h; apply hnn; rw [Tree.isNil_iff_toList, h]; rfl
    -- all Records in one group
    let recs : Array Rec := s.groups.root.toList.foldl (fun acc g => acc ++ g.records) #[]
    have hrecs : recs.toList = s.allRecs := by
      show (s.groups.root.toList.foldl (fun acc g => acc ++ g.records) #[]).toList = _
      rw [foldl_records_toList]; simp [Stream.allRecs]
    let g : Group := { uncompressedBase := 0, compressedBase := 0, numberBase := 1, allocated := s.recordCount, records := recs }
    have htl : (CTree.empty.append g).toList = [g] := by rw [CTree.toList_append]; rfl
    have hr' : ({ s with groups := CTree.empty.append g } : Stream).allRecs = s.allRecs := by
      unfold Stream.allRecs
      have : (CTree.empty.append g).root.toList = [g] := htl
      simp only [this, List.flatMap_cons, List.flatMap_nil, List.append_nil]
      exact hrecs
    have hpos : s.allRecs ≠ [] := by
      obtain ⟨init, z, hz⟩ := exists_snoc hne
      have hzne := hs.groupsNe z (by unfold CTree.toList; rw [hz]; simp)
      unfold Stream.allRecs; rw [hz]
      simp only [List.flatMap_append, List.flatMap_cons, List.flatMap_nil, List.append_nil]
      intro h
      have := (List.append_eq_nil_iff.mp h).2
      apply hzne; simpa using congrArg List.length this
    obtain ⟨a, b⟩ := streamInv_of_recs (s' := { s with groups := CTree.empty.append g }) hs hr' rfl rfl
      (by
        intro g' hg'
        rw [htl] at hg'
        simp only [List.mem_singleton] at hg'; subst hg'
        show recs.size ≠ 0
        have : recs.size = s.allRecs.length := by rw [← hrecs]; simp
        rw [this]; intro h; exact hpos (List.length_eq_zero_iff.mp h))
      (by rw [htl, CTree.count_append]; rfl)
      (by
        rw [htl]
        have := groupsOk_snoc groupsOk_nil g rfl rfl rfl
        simpa using this)
    refine ⟨a, ?_, rfl, rfl, rfl, rfl⟩
    unfold absStream at b ⊢; simp only at b ⊢; rw [b]

/-- `lzma_index_dup` (with the `checks` copy of fix 63fc6e7): same abstract index, invariant holds -/
theorem dup_refines {i : Index} (hi : Inv i) : abs (Impl.dup i) = Spec.dup (abs i) ∧ Inv (Impl.dup i) := by
  obtain ⟨d1, d2⟩ := foldl_append_spec dupStream i.streams.root.toList CTree.empty
  have hl : (Impl.dup i).streams.root.toList = i.streams.root.toList.map dupStream := by
    have := d1; unfold CTree.toList at this
    show (i.streams.root.toList.foldl (fun t s => t.append (dupStream s)) CTree.empty).root.toList = _
    rw [this]; simp [CTree.empty, Tree.toList]
  have hmem : ∀ s ∈ i.streams.root.toList, StreamInv s := fun s hs => hi.streams s hs
  have habs : abs (Impl.dup i) = abs i := by
    unfold abs; rw [hl, List.map_map]
    apply List.map_congr_left
    intro s hs
    exact (dupStream_inv (hmem s hs)).2.1
  refine ⟨habs, ?_⟩
  refine ⟨?_, ?_, ?_, ?_, ?_, ?_, ?_, ?_, ?_, ?_⟩
  · unfold CTree.toList; rw [hl]; intro h; exact hi.ne (by unfold CTree.toList; simpa using h)
  · show (i.streams.root.toList.foldl (fun t s => t.append (dupStream s)) CTree.empty).count = _
    rw [d2]; unfold CTree.toList; rw [hl]; simp [CTree.empty]
  · intro s hs
    unfold CTree.toList at hs; rw [hl] at hs
    obtain ⟨x, hx, rfl⟩ := List.mem_map.mp hs
    exact (dupStream_inv (hmem x hx)).1
  · intro k s hk
    unfold CTree.toList at hk; rw [hl, List.getElem?_map] at hk
    obtain ⟨x, hx, rfl⟩ := Option.map_eq_some_iff.mp hk
    obtain ⟨_, _, e1, e2, e3, e4⟩ := dupStream_inv (hmem x (List.mem_of_getElem? hx))
    rw [habs, e1, e2, e3, e4]
    exact hi.bases k x hx
  · rw [habs]; exact hi.unc
  · rw [habs]; exact hi.total
  · rw [habs]; exact hi.rcount
  · rw [habs]; exact hi.lsize
  · rw [habs]; exact hi.checks
  · rw [habs]; exact hi.valid

end Impl
end XzVerif.Index
