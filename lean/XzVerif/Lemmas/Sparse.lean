/-
  Helper lemmas for C18 (POSIX write algebra, the sparse writer's invariant). Core Lean only.
-/
import XzVerif.Model.Sparse

namespace XzVerif.Sparse

@[simp] theorem zeros_length (n : Nat) : (zeros n).length = n := by simp [zeros]

theorem zeros_add (a b : Nat) : zeros (a + b) = zeros a ++ zeros b := by
  simp [zeros]

theorem overwriteAt_of_split {c p r : List UInt8} {off : Nat} (hp : p.length = off)
    (h : c ++ zeros (off - c.length) = p ++ r) (buf : List UInt8) :
    overwriteAt c off buf = p ++ buf ++ r.drop buf.length := by
  subst hp
  simp only [overwriteAt, h]
  simp [List.drop_append]

theorem overwriteAt_split (c : List UInt8) (off : Nat) :
    ∃ p r, p.length = off ∧ c ++ zeros (off - c.length) = p ++ r := by
  refine ⟨(c ++ zeros (off - c.length)).take off, (c ++ zeros (off - c.length)).drop off, ?_, ?_⟩
  · simp; omega
  · simp

theorem overwriteAt_past_end (c buf : List UInt8) (k : Nat) :
    overwriteAt c (c.length + k) buf = c ++ zeros k ++ buf := by
  have := overwriteAt_of_split (c := c) (p := c ++ zeros k) (r := []) (off := c.length + k) (by simp) (by simp) buf
  simpa using this

theorem overwriteAt_overwriteAt (c a b : List UInt8) (off : Nat) :
    overwriteAt (overwriteAt c off a) (off + a.length) b = overwriteAt c off (a ++ b) := by
  obtain ⟨p, r, hp, h⟩ := overwriteAt_split c off
  rw [overwriteAt_of_split hp h a, overwriteAt_of_split hp h (a ++ b)]
  have h2 : (p ++ a ++ List.drop a.length r) ++ zeros (off + a.length - (p ++ a ++ List.drop a.length r).length)
      = (p ++ a) ++ List.drop a.length r := by
    have : off + a.length - (p ++ a ++ List.drop a.length r).length = 0 := by simp; omega
    rw [this]; simp [zeros]
  rw [overwriteAt_of_split (p := p ++ a) (r := List.drop a.length r) (by simp [hp]) h2 b]
  simp [List.drop_drop]
theorem isSparse_eq_zeros {buf : List UInt8} (h : isSparse buf = true) : buf = zeros buf.length := by
  induction buf with
  | nil => simp [zeros]
  | cons b bs ih =>
    simp only [isSparse, List.all_cons, Bool.and_eq_true, beq_iff_eq] at h
    have hb : b = 0 := h.1
    have := ih (by simpa [isSparse] using h.2)
    rw [hb]
    simp only [List.length_cons, zeros, List.replicate_succ]
    congr 1

/-- Invariant of the sparse writer on a regular file that was positioned at its end:
    the file followed by the pending hole is the initial content followed by everything handed to `io_write`. -/
structure Inv (c W : List UInt8) (s : St) : Prop where
  reg : s.dest.kind = .regular
  noApp : s.dest.flags.append = false
  atEnd : s.dest.offset = s.dest.content.length
  data : s.dest.content ++ zeros s.pending = c ++ W
  sparse : s.trySparse = true

theorem write_at_end {d : Dest} (hreg : d.kind = .regular) (hna : d.flags.append = false) (k : Nat)
    (hoff : d.offset = d.content.length + k) (buf : List UInt8) :
    (d.write buf).content = d.content ++ zeros k ++ buf ∧ (d.write buf).offset = (d.write buf).content.length
    ∧ (d.write buf).kind = .regular ∧ (d.write buf).flags = d.flags := by
  simp [Dest.write, hreg, hna, hoff, overwriteAt_past_end]
  omega

theorem ioWriteBuf_inv0 {c W : List UInt8} {s : St} (hreg : s.dest.kind = .regular) (hna : s.dest.flags.append = false)
    (k : Nat) (hoff : s.dest.offset = s.dest.content.length + k) (hd : s.dest.content ++ zeros k = c ++ W)
    (hp : s.pending = 0) (hs : s.trySparse = true) (buf : List UInt8) (hne : buf ≠ [] ∨ k = 0) :
    Inv c (W ++ buf) (ioWriteBuf s buf) := by
  unfold ioWriteBuf
  split
  · rename_i hb
    have hb' : buf = [] := by simpa using hb
    subst hb'
    have hk : k = 0 := by simpa using hne
    subst hk
    exact ⟨hreg, hna, by simpa using hoff, by simpa [hp] using hd, hs⟩
  · obtain ⟨h1, h2, h3, h4⟩ := write_at_end hreg hna k hoff buf
    refine ⟨h3, by simp [h4, hna], h2, ?_, hs⟩
    show (s.dest.write buf).content ++ zeros s.pending = c ++ (W ++ buf)
    rw [h1, hp, ← List.append_assoc, ← hd]; simp [zeros]

theorem ioWrite_inv (cfg : Cfg) (hB : 0 < cfg.bufSize) {c W : List UInt8} {s : St} (h : Inv c W s) (buf : List UInt8) :
    (ioWrite cfg s buf).2 = false ∧ Inv c (W ++ buf) (ioWrite cfg s buf).1 := by
  unfold ioWrite
  rw [if_pos h.sparse]
  split
  · -- the buffer becomes part of the pending hole
    rename_i hc
    simp only [Bool.and_eq_true, beq_iff_eq, decide_eq_true_eq] at hc
    refine ⟨rfl, ⟨h.reg, h.noApp, h.atEnd, ?_, h.sparse⟩⟩
    have hz := isSparse_eq_zeros hc.1.2
    show s.dest.content ++ zeros (s.pending + buf.length) = c ++ (W ++ buf)
    rw [zeros_add, ← List.append_assoc, h.data, ← hz, List.append_assoc]
  · rename_i hc1
    split
    · -- size == 0
      rename_i hc
      simp only [Bool.and_eq_true, beq_iff_eq] at hc
      have : buf = [] := List.eq_nil_of_length_eq_zero hc.2
      subst this
      exact ⟨rfl, by simpa using h⟩
    · rename_i hc2
      have hne : buf ≠ [] := by
        intro hb; subst hb
        simp at hc2
        omega
      split
      · -- pending hole, then data
        rename_i hp
        simp only [Dest.seekCur, h.reg]
        refine ⟨trivial, ?_⟩
        apply ioWriteBuf_inv0 (k := s.pending)
        · rfl
        · exact h.noApp
        · simp [h.atEnd]
        · exact h.data
        · rfl
        · exact h.sparse
        · exact Or.inl hne
      · rename_i hp
        have hp0 : s.pending = 0 := by simpa using hp
        refine ⟨rfl, ?_⟩
        apply ioWriteBuf_inv0 (k := 0) h.reg h.noApp (by simp [h.atEnd]) (by simpa [hp0] using h.data) hp0 h.sparse
        exact Or.inr rfl


theorem ioWrites_inv (cfg : Cfg) (hB : 0 < cfg.bufSize) {c : List UInt8} (ws : List (List UInt8)) :
    ∀ {W : List UInt8} {s : St}, Inv c W s →
      (ioWrites cfg s ws).2 = false ∧ Inv c (W ++ ws.flatten) (ioWrites cfg s ws).1 := by
  induction ws with
  | nil => intro W s h; simpa [ioWrites] using h
  | cons b bs ih =>
    intro W s h
    obtain ⟨h1, h2⟩ := ioWrite_inv cfg hB h b
    unfold ioWrites
    split
    · rename_i s' he
      rw [he] at h1
      cases h1
    · rename_i s' he
      rw [he] at h2
      have := ih h2
      simpa [List.append_assoc] using this

@[simp] theorem ioCloseDest_content (s : St) : (ioCloseDest s).dest.content = s.dest.content := by
  unfold ioCloseDest; split <;> rfl
@[simp] theorem ioCloseDest_offset (s : St) : (ioCloseDest s).dest.offset = s.dest.offset := by
  unfold ioCloseDest; split <;> rfl
@[simp] theorem ioCloseDest_kind (s : St) : (ioCloseDest s).dest.kind = s.dest.kind := by
  unfold ioCloseDest; split <;> rfl
@[simp] theorem ioCloseDest_restore (s : St) : (ioCloseDest s).restoreFlags = false := by
  unfold ioCloseDest; split <;> simp_all
theorem ioCloseDest_flags (s : St) :
    (ioCloseDest s).dest.flags = (if s.restoreFlags then s.savedFlags else s.dest.flags) := by
  unfold ioCloseDest; split <;> simp_all

theorem close_tail {c W : List UInt8} {s' : St} (k : Nat) (hreg : s'.dest.kind = .regular)
    (hna : s'.dest.flags.append = false) (hoff : s'.dest.offset = s'.dest.content.length + k)
    (hd : s'.dest.content ++ zeros (k + 1) = c ++ W) :
    (ioWriteBuf s' [0]).dest.content = c ++ W ∧ (ioWriteBuf s' [0]).dest.offset = (c ++ W).length
      ∧ (ioWriteBuf s' [0]).dest.kind = .regular := by
  obtain ⟨h1, h2, h3, _⟩ := write_at_end hreg hna k hoff [0]
  have hz : zeros k ++ [0] = zeros (k + 1) := by simp [zeros, List.replicate_succ']
  have hc : (s'.dest.write [0]).content = c ++ W := by rw [h1, List.append_assoc, hz, hd]
  simp only [ioWriteBuf, List.isEmpty_cons, Bool.false_eq_true, if_false]
  exact ⟨hc, by rw [h2, hc], h3⟩

theorem ioClose_success_inv (cfg : Cfg) {c W : List UInt8} {s : St} (h : Inv c W s) :
    (ioClose cfg s true).dest.content = c ++ W ∧
    (ioClose cfg s true).dest.offset = (c ++ W).length ∧
    (ioClose cfg s true).dest.kind = .regular := by
  unfold ioClose
  simp only [Bool.true_or, Bool.true_and, h.sparse, ioCloseDest_content, ioCloseDest_offset, ioCloseDest_kind]
  split
  · rename_i hp
    have hp : 0 < s.pending := by simpa using hp
    simp only [Dest.seekCur, h.reg]
    apply close_tail (k := s.pending - 1)
    · rfl
    · exact h.noApp
    · simp [h.atEnd]
    · have : s.pending - 1 + 1 = s.pending := by omega
      rw [this]; exact h.data
  · rename_i hp
    have hp0 : s.pending = 0 := by simpa using hp
    have := h.data
    rw [hp0] at this
    simp [zeros] at this
    exact ⟨this, by rw [h.atEnd, this], h.reg⟩


/-! frame: what io_write never touches -/
structure Frame (s t : St) : Prop where
  kind : t.dest.kind = s.dest.kind
  flags : t.dest.flags = s.dest.flags
  restore : t.restoreFlags = s.restoreFlags
  saved : t.savedFlags = s.savedFlags
  isStdout : t.isStdout = s.isStdout
  sparse : t.trySparse = s.trySparse

theorem Frame.refl (s : St) : Frame s s := ⟨rfl, rfl, rfl, rfl, rfl, rfl⟩
theorem Frame.trans {a b c : St} (h1 : Frame a b) (h2 : Frame b c) : Frame a c :=
  ⟨h2.kind.trans h1.kind, h2.flags.trans h1.flags, h2.restore.trans h1.restore, h2.saved.trans h1.saved,
   h2.isStdout.trans h1.isStdout, h2.sparse.trans h1.sparse⟩

theorem Dest.write_kind (d : Dest) (b : List UInt8) : (d.write b).kind = d.kind := by
  unfold Dest.write; split <;> simp_all
theorem Dest.write_flags (d : Dest) (b : List UInt8) : (d.write b).flags = d.flags := by
  unfold Dest.write; split <;> simp_all

theorem ioWriteBuf_frame (s : St) (b : List UInt8) : Frame s (ioWriteBuf s b) := by
  unfold ioWriteBuf
  split
  · exact Frame.refl s
  · exact ⟨Dest.write_kind _ _, Dest.write_flags _ _, rfl, rfl, rfl, rfl⟩

theorem ioWrite_frame (cfg : Cfg) (s : St) (b : List UInt8) : Frame s (ioWrite cfg s b).1 := by
  unfold ioWrite
  split
  · split
    · exact ⟨rfl, rfl, rfl, rfl, rfl, rfl⟩
    · split
      · exact Frame.refl s
      · split
        · cases hk : s.dest.kind with
          | other => simp [Dest.seekCur, hk]; exact Frame.refl s
          | regular =>
            simp only [Dest.seekCur, hk]
            refine Frame.trans ?_ (ioWriteBuf_frame _ b)
            exact ⟨by simp [hk], rfl, rfl, rfl, rfl, rfl⟩
        · exact ioWriteBuf_frame s b
  · exact ioWriteBuf_frame s b

theorem ioWrites_frame (cfg : Cfg) (ws : List (List UInt8)) : ∀ s : St, Frame s (ioWrites cfg s ws).1 := by
  induction ws with
  | nil => intro s; exact Frame.refl s
  | cons b bs ih =>
    intro s
    unfold ioWrites
    have hf := ioWrite_frame cfg s b
    split
    · rename_i s' he; rw [he] at hf; exact hf
    · rename_i s' he; rw [he] at hf; exact Frame.trans hf (ih s')


theorem expected_write (d : Dest) (b W : List UInt8) (hb : b ≠ []) :
    expectedContent (d.write b) W = expectedContent d (b ++ W) := by
  have hbW : (b ++ W).isEmpty = false := by
    cases b with
    | nil => exact absurd rfl hb
    | cons x xs => rfl
  cases hk : d.kind with
  | other => simp [expectedContent, Dest.write, hk]
  | regular =>
    cases ha : d.flags.append with
    | true =>
      have h0 := overwriteAt_past_end d.content b 0
      have h1 := overwriteAt_past_end d.content (b ++ W) 0
      have h2 := overwriteAt_past_end (d.content ++ b) W 0
      simp [zeros] at h0 h1 h2
      simp only [expectedContent, Dest.write, hk, ha, hbW, if_true, h0, h1]
      cases W with
      | nil => simp
      | cons w ws => simp [h2]
    | false =>
      simp only [expectedContent, Dest.write, hk, ha, hbW]
      cases W with
      | nil => simp
      | cons w ws => simp [overwriteAt_overwriteAt]

theorem plain_writes (cfg : Cfg) (ws : List (List UInt8)) :
    ∀ s : St, s.trySparse = false →
      (ioWrites cfg s ws).2 = false ∧
      (ioWrites cfg s ws).1.dest.content = expectedContent s.dest ws.flatten := by
  induction ws with
  | nil =>
    intro s _
    cases hk : s.dest.kind <;> simp [ioWrites, expectedContent, hk]
  | cons b bs ih =>
    intro s hs
    have hw : ioWrite cfg s b = (ioWriteBuf s b, false) := by
      unfold ioWrite; simp [hs]
    unfold ioWrites
    rw [hw]
    have hs' : (ioWriteBuf s b).trySparse = false := by
      rw [(ioWriteBuf_frame s b).sparse]; exact hs
    obtain ⟨i1, i2⟩ := ih (ioWriteBuf s b) hs'
    refine ⟨i1, ?_⟩
    simp only
    rw [i2]
    unfold ioWriteBuf
    split
    · rename_i he
      have : b = [] := by simpa using he
      subst this; simp
    · rename_i he
      have hne : b ≠ [] := by intro h; subst h; simp at he
      simp only [List.flatten_cons]
      exact expected_write s.dest b bs.flatten hne


/-- The sparse-enabling condition of `io_open_dest_real` for standard output. -/
def sparseOk (noSparse : Bool) (mode : Mode) (d : Dest) : Prop :=
  noSparse = false ∧ mode = .decompress ∧ d.kind = .regular ∧ (d.flags.append = true ∨ d.offset = d.content.length)

theorem openStdout_spec (noSparse : Bool) (mode : Mode) (d : Dest) :
    let s := openStdout noSparse mode d
    s.dest.kind = d.kind ∧ s.dest.content = d.content ∧ s.pending = 0 ∧ s.isStdout = true ∧
    ((s.restoreFlags = true ∧ s.savedFlags = d.flags) ∨ (s.restoreFlags = false ∧ s.dest.flags = d.flags)) ∧
    (s.trySparse = true ↔ sparseOk noSparse mode d) ∧
    (s.trySparse = true → s.dest.flags.append = false ∧ s.dest.offset = d.content.length) ∧
    (s.trySparse = false → s.dest.offset = d.offset ∧ s.dest.flags.append = d.flags.append) := by
  obtain ⟨kind, content, offset, ⟨app, nb⟩⟩ := d
  by_cases ho : offset = content.length <;>
  cases noSparse <;> cases mode <;> cases kind <;> cases app <;> cases nb <;>
    simp [openStdout, sparseOk, ho]


theorem ioWrites_pending (cfg : Cfg) (ws : List (List UInt8)) :
    ∀ s : St, s.trySparse = false → (ioWrites cfg s ws).1.pending = s.pending := by
  induction ws with
  | nil => intro s _; rfl
  | cons b bs ih =>
    intro s hs
    have hw : ioWrite cfg s b = (ioWriteBuf s b, false) := by unfold ioWrite; simp [hs]
    unfold ioWrites
    rw [hw]
    have hs' : (ioWriteBuf s b).trySparse = false := by rw [(ioWriteBuf_frame s b).sparse]; exact hs
    simp only
    rw [ih _ hs']
    unfold ioWriteBuf; split <;> rfl

@[simp] theorem ioWriteBuf_restore (s : St) (b : List UInt8) : (ioWriteBuf s b).restoreFlags = s.restoreFlags :=
  (ioWriteBuf_frame s b).restore
@[simp] theorem ioWriteBuf_saved (s : St) (b : List UInt8) : (ioWriteBuf s b).savedFlags = s.savedFlags :=
  (ioWriteBuf_frame s b).saved
@[simp] theorem ioWriteBuf_flags (s : St) (b : List UInt8) : (ioWriteBuf s b).dest.flags = s.dest.flags :=
  (ioWriteBuf_frame s b).flags

theorem ioClose_flags (cfg : Cfg) (s : St) (success : Bool) :
    (ioClose cfg s success).dest.flags = (if s.restoreFlags then s.savedFlags else s.dest.flags) ∧
    (ioClose cfg s success).restoreFlags = false := by
  unfold ioClose
  simp only [ioCloseDest_restore, and_true, ioCloseDest_flags]
  split
  · cases hk : s.dest.kind with
    | other => simp [Dest.seekCur, hk]
    | regular => simp [Dest.seekCur, hk]
  · rfl

theorem new_file_content (cfg : Cfg) (hB : 0 < cfg.bufSize) (noSparse : Bool) (mode : Mode) (ws : List (List UInt8)) :
    (ioClose cfg (ioWrites cfg (openNew noSparse mode) ws).1 true).dest.content = ws.flatten := by
  cases hts : (openNew noSparse mode).trySparse with
  | true =>
    have h0 : Inv [] [] (openNew noSparse mode) := ⟨rfl, rfl, rfl, by simp [openNew, zeros], hts⟩
    obtain ⟨_, h2⟩ := ioWrites_inv cfg hB ws h0
    simpa using (ioClose_success_inv cfg h2).1
  | false =>
    obtain ⟨_, p2⟩ := plain_writes cfg ws _ hts
    have hfr := ioWrites_frame cfg ws (openNew noSparse mode)
    have : (ioClose cfg (ioWrites cfg (openNew noSparse mode) ws).1 true).dest.content
        = (ioWrites cfg (openNew noSparse mode) ws).1.dest.content := by
      unfold ioClose; simp [hfr.sparse, hts]
    rw [this, p2]
    simp only [expectedContent, openNew]
    cases hW : ws.flatten with
    | nil => simp
    | cons w rest =>
      have := overwriteAt_past_end [] (w :: rest) 0
      simp [zeros] at this
      simp [this]


theorem replay_delivers (t : List Ev) :
    ∀ (W : List UInt8) (d : Dest) (k : Nat) (gap : Bool), d.kind = .regular → d.flags.append = false →
      d.offset = d.content.length + k → (gap = false → k = 0) → traceDelivers t W gap = true →
      (replayTrace t W d).content = d.content ++ zeros k ++ W ∧
      (replayTrace t W d).offset = (d.content ++ zeros k ++ W).length := by
  induction t with
  | nil =>
    intro W d k gap _ _ hoff hgap h
    simp only [traceDelivers, Bool.and_eq_true, Bool.not_eq_true'] at h
    have hk := hgap h.2
    have hW : W = [] := by simpa using h.1
    subst hk; subst hW
    simp [replayTrace, zeros, hoff]
  | cons e t ih =>
    intro W d k gap hreg hna hoff hgap h
    cases e with
    | write n =>
      simp only [traceDelivers, Bool.and_eq_true, decide_eq_true_eq] at h
      obtain ⟨⟨hn0, hn⟩, ht⟩ := h
      obtain ⟨w1, w2, w3, w4⟩ := write_at_end hreg hna k hoff (W.take n)
      have := ih (W.drop n) (d.write (W.take n)) 0 false w3 (by rw [w4]; exact hna) (by simpa using w2) (fun _ => rfl) ht
      simp only [replayTrace]
      rw [this.1, this.2, w1]
      simp [zeros, List.append_assoc]
    | seekCur dl r =>
      simp only [traceDelivers, Bool.and_eq_true, decide_eq_true_eq] at h
      obtain ⟨⟨hle, hz⟩, ht⟩ := h
      have hzz := isSparse_eq_zeros hz
      have hlen : (W.take dl).length = dl := by simp; omega
      rw [hlen] at hzz
      have hsplit : W = zeros dl ++ W.drop dl := by
        conv => lhs; rw [← List.take_append_drop dl W]
        rw [hzz]
      simp only [replayTrace, Dest.seekCur, hreg, Option.getD_some]
      have := ih (W.drop dl) { d with offset := d.offset + dl } (k + dl) (gap || decide (0 < dl)) hreg hna
        (by simp [hoff]; omega)
        (by
          intro hg
          simp only [Bool.or_eq_false_iff, decide_eq_false_iff_not] at hg
          have := hgap hg.1
          omega)
        ht
      rw [hreg] at this
      simp only at this
      rw [this.1, this.2]
      have hz2 : zeros (k + dl) = zeros k ++ zeros dl := zeros_add k dl
      constructor
      · simp only [hz2, List.append_assoc]
        conv => rhs; rw [hsplit]
      · simp only [hz2, List.append_assoc]
        conv => rhs; rw [hsplit]
    | setfl a b => simpa [replayTrace, traceDelivers] using ih W d k gap hreg hna hoff hgap (by simpa [traceDelivers] using h)
    | seekEnd r => simpa [replayTrace, traceDelivers] using ih W d k gap hreg hna hoff hgap (by simpa [traceDelivers] using h)


end XzVerif.Sparse
