/-
  Helper lemmas for C18 (sparse writer, plain writes, coder loop). Core Lean only.
-/
import XzVerif.Model.Sparse

namespace XzVerif.Sparse

@[simp] theorem zeros_length (n : Nat) : (zeros n).length = n := by simp [zeros]

theorem zeros_add (a b : Nat) : zeros (a + b) = zeros a ++ zeros b := by
  simp [zeros, List.replicate_add]

theorem zeros_succ_snoc (n : Nat) : zeros n ++ [0] = zeros (n + 1) := by
  simp [zeros, List.replicate_succ']

/-- A buffer accepted by `is_sparse` is a run of zero bytes. -/
theorem isSparse_eq_zeros {buf : List UInt8} (h : isSparse buf = true) : buf = zeros buf.length := by
  induction buf with
  | nil => simp [zeros]
  | cons b bs ih =>
    simp only [isSparse, List.all_cons, Bool.and_eq_true, beq_iff_eq] at h
    have hb : b = 0 := h.1
    have := ih (by simpa [isSparse] using h.2)
    rw [hb]
    simp only [List.length_cons, zeros, List.replicate_succ]
    congr 1

theorem isSparse_zeros (n : Nat) : isSparse (zeros n) = true := by
  simp [isSparse, zeros]

/-- Writing at or past the end of a regular file: the gap reads as zeros, the data follows. -/
theorem overwriteAt_past_end (c buf : List UInt8) (k : Nat) :
    overwriteAt c (c.length + k) buf = c ++ zeros k ++ buf := by
  simp [overwriteAt]

theorem overwriteAt_length (c buf : List UInt8) (off : Nat) :
    (overwriteAt c off buf).length = max (max c.length off) (off + buf.length) := by
  simp [overwriteAt]
  omega

/-- Two consecutive writes are one write of the concatenation (offset semantics). -/
theorem overwriteAt_overwriteAt (c a b : List UInt8) (off : Nat) :
    overwriteAt (overwriteAt c off a) (off + a.length) b = overwriteAt c off (a ++ b) := by
  apply List.ext_getElem
  · simp [overwriteAt_length]; omega
  · intro i h1 h2
    simp only [overwriteAt, List.getElem_append, List.length_append, List.length_take, List.length_drop,
      zeros_length, List.getElem_take, List.getElem_drop, zeros, List.getElem_replicate, List.length_replicate]
    split <;> split <;> (try split) <;> (try split) <;> (try split) <;> (try split) <;>
      first
        | rfl
        | (congr 1; omega)
        | omega
        | (simp_all; done)
        | skip
    all_goals (first | (congr 1; omega) | omega | rfl | skip)

end XzVerif.Sparse
