/-
  "Starved calls are idle", LZMA1 call level: `l1Idle : L1Idle` and `codeIdle_lzma1 : CodeIdle P1 lzmaCallR`
  (statements in Lemmas/LzmaResumeIdleDefs.lean). A `lzma_decode` call that returned LZMA_OK below its dictionary limit stopped
  for lack of input; the next call over the SAME input and any larger limit returns LZMA_OK again and changes nothing.

  * run level (`idle1_head`): if a run (`headR` of Lemmas/LzmaResumeL1.lean) ends `(needInput t, k')`, then the run started at
    `t` with the saved resume point `k'` under another (limit, `uncomp`) whose known-size test agrees at `t` starves at once
    with the state unchanged: at the loop top the same normalisation starves again; inside a symbol the replayed symbol
    decoder is the same function (`ind_decodeSymbol`: independent of limit / `uncomp`) of the same input.
  * a run that ends at a refused write ends AT the clamped limit (`idle1_full_head`); with LZMA_OK returned this contradicts
    "stopped below the limit" (either the clamped limit is the limit, or all of the known size was produced and the call
    returns LZMA_DATA_ERROR).
  * `rc_read_init` that ran out of input runs out again (`idle1_init`).
  Core Lean only.
-/
import XzVerif.Lemmas.LzmaResumeL1
import XzVerif.Lemmas.LzmaResumeIdleDefs
import XzVerif.Lemmas.LzmaResumeInst1

namespace XzVerif.LzmaR
open XzVerif.RangeDec XzVerif.LzDict XzVerif.Lzma XzVerif.Lzma2

/-! ### run level: a starved run, started again at its exit under other (limit, uncomp), starves at once -/

/-- override `dict.limit` and `uncomp` (the members the second call sees differently) -/
def idle1_og (L2 : Nat) (v2 : Option Nat) : St → St := gv (fun _ => L2) (fun _ => v2) id id

theorem idle1_og_eq_ov (L2 : Nat) (v2 : Option Nat) (t : St) : idle1_og L2 v2 t = ov t.inp L2 v2 t := rfl

theorem idle1_prelude_inv (ev mf : Bool) (u t : St) (h : symPrelude ev mf u = .error .needInput t) :
    (mf && (u.dp.pos == u.dp.limit)) = true ∧ rcNormalize u = .error .needInput u := by
  rw [symPrelude_eq] at h
  by_cases hc : (mf && (u.dp.pos == u.dp.limit)) = true
  · rw [if_pos hc] at h
    refine ⟨hc, ?_⟩
    cases hn : rcNormalize u with
    | error e s1 =>
      obtain ⟨h1, h2⟩ := rcNormalize_starved u s1 e hn
      rw [h1, h2]
    | ok a s1 =>
      rw [hn] at h
      simp only [] at h
      split at h
      · cases h
      · split at h <;> cases h
  · rw [if_neg hc] at h
    cases h

theorem idle1_prelude_mk (ev mf : Bool) (s : St) (hc : (mf && (s.dp.pos == s.dp.limit)) = true)
    (hn : rcNormalize s = .error .needInput s) : symPrelude ev mf s = .error .needInput s := by
  rw [symPrelude_eq, if_pos hc, hn]

theorem idle1_prelude_skip (ev mf : Bool) (s : St) (hc : (mf && (s.dp.pos == s.dp.limit)) = false) :
    symPrelude ev mf s = .ok ev s := by
  rw [symPrelude_eq, if_neg (by rw [hc]; exact Bool.false_ne_true)]

theorem idle1_norm_og (L2 : Nat) (v2 : Option Nat) (u : St) (hn : rcNormalize u = .error .needInput u) :
    rcNormalize (idle1_og L2 v2 u) = .error .needInput (idle1_og L2 v2 u) := by
  have := (ind_rcNormalize (fun _ => L2) (fun _ => v2) id id).comm u
  rw [hn] at this
  exact this

section run
variable (b : ByteArray) (vn mf mf2 : Bool) (Lc L2 : Nat) (v2 : Option Nat)

/-- the second run starves at the place where the first one stopped -/
def Idle1Res (X : Res) : Prop :=
  ∀ t k', X = (.error .needInput t, k') → (mf && (t.dp.pos == Lc)) = (mf2 && (t.dp.pos == L2)) →
    t.inp = b ∧
    ∀ f2, 1 ≤ f2 → headR f2 (vn || t.eopmValid) mf2 .none k' (idle1_og L2 v2 t) = (.error .needInput (idle1_og L2 v2 t), k')

structure Idle1Inv (ev : Bool) (u : St) : Prop where
  inp : u.inp = b
  eopm : u.allowEopm = false ∨ mf = false
  ev : ev = (vn || u.eopmValid)
  limit : u.dp.limit = Lc

theorem idle1_starve_top (ev : Bool) (u : St) (hinv : Idle1Inv b vn mf Lc ev u)
    (hX : (symPrelude ev mf u = .error .needInput u) ∨
          ((mf && (u.dp.pos == u.dp.limit)) = false ∧ rcNormalize u = .error .needInput u)) :
    Idle1Res b vn mf mf2 Lc L2 v2 ((.error .needInput u : EStateM.Result Exit St Unit), (none : Option SymSnap)) := by
  intro t k' he htest
  injection he with h1 h2
  injection h1 with _ h1
  subst h1
  subst h2
  refine ⟨hinv.inp, ?_⟩
  intro f2 hf2
  obtain ⟨f, rfl⟩ : ∃ f, f2 = f + 1 := ⟨f2 - 1, by omega⟩
  show symLoopR (f + 1) (vn || u.eopmValid) mf2 (idle1_og L2 v2 u) = _
  rw [symLoopR_succ]
  have hlim : (idle1_og L2 v2 u).dp.limit = L2 := rfl
  have hpos : (idle1_og L2 v2 u).dp.pos = u.dp.pos := rfl
  rw [← hinv.limit] at htest
  rcases hX with hX | ⟨hc, hn⟩
  · obtain ⟨hc, hn⟩ := idle1_prelude_inv ev mf u u hX
    have hc2 : (mf2 && ((idle1_og L2 v2 u).dp.pos == (idle1_og L2 v2 u).dp.limit)) = true := by
      rw [hlim, hpos, ← htest]; exact hc
    rw [idle1_prelude_mk _ mf2 _ hc2 (idle1_norm_og L2 v2 u hn)]
  · have hc2 : (mf2 && ((idle1_og L2 v2 u).dp.pos == (idle1_og L2 v2 u).dp.limit)) = false := by
      rw [hlim, hpos, ← htest]; exact hc
    rw [idle1_prelude_skip _ mf2 _ hc2]
    simp only [idle1_norm_og L2 v2 u hn]

theorem idle1_write (f : Nat) (hIH : ∀ ev u, Idle1Inv b vn mf Lc ev u → Idle1Res b vn mf mf2 Lc L2 v2 (symLoopR f ev mf u))
    (ev : Bool) (p : Pending) (u : St) (hinv : Idle1Inv b vn mf Lc ev u) :
    Idle1Res b vn mf mf2 Lc L2 v2 (afterWrite f ev mf (doWrite p u)) := by
  have hk := keep_doWrite p u
  cases hw : doWrite p u with
  | error e u2 =>
    obtain ⟨q, rfl, _⟩ := doWrite_exits p u u2 e hw
    intro t k' he
    injection he with h1 _
    injection h1 with h1 _
    cases h1
  | ok a u2 =>
    rw [hw] at hk
    have hinv2 : Idle1Inv b vn mf Lc ev u2 :=
      ⟨(by have : u2.inp = u.inp := hk.inp
           rw [this]; exact hinv.inp),
       (by have : u2.allowEopm = u.allowEopm := hk.allowEopm
           rw [this]; exact hinv.eopm),
       (by have : u2.eopmValid = u.eopmValid := hk.eopmValid
           rw [this]; exact hinv.ev),
       (by have : u2.dp.limit = u.dp.limit := hk.limit
           rw [this]; exact hinv.limit)⟩
    exact hIH ev u2 hinv2

theorem idle1_sym (f : Nat) (hIH : ∀ ev u, Idle1Inv b vn mf Lc ev u → Idle1Res b vn mf mf2 Lc L2 v2 (symLoopR f ev mf u))
    (ev : Bool) (kk : SymSnap) (u0 : St) (hkk : kk.restore u0 = u0) (hinv : Idle1Inv b vn mf Lc ev u0) :
    Idle1Res b vn mf mf2 Lc L2 v2 (afterSym f ev mf kk (decodeSymbol ev u0)) := by
  have hfr := decodeSymbol_frame ev u0
  have hk := keep_decodeSymbol ev u0
  have hind := (ind_decodeSymbol (fun _ => L2) (fun _ => v2) id id ev).comm u0
  cases hd : decodeSymbol ev u0 with
  | ok act t2 =>
    rw [hd] at hk
    have hinv2 : Idle1Inv b vn mf Lc ev t2 :=
      ⟨(by have : t2.inp = u0.inp := hk.inp
           rw [this]; exact hinv.inp),
       (by have : t2.allowEopm = u0.allowEopm := hk.allowEopm
           rw [this]; exact hinv.eopm),
       (by have : t2.eopmValid = u0.eopmValid := hk.eopmValid
           rw [this]; exact hinv.ev),
       (by have : t2.dp.limit = u0.dp.limit := hk.limit
           rw [this]; exact hinv.limit)⟩
    exact idle1_write b vn mf mf2 Lc L2 v2 f hIH ev act t2 hinv2
  | error e t =>
    rw [hd] at hfr hk hind
    have hfr1 : SymSnap.restore (SymSnap.of t) u0 = t := hfr.1
    have hind' : decodeSymbol ev (idle1_og L2 v2 u0) = .error e (idle1_og L2 v2 t) := hind
    cases e with
    | needInput =>
      intro t' k' he _
      injection he with h1 h2
      injection h1 with _ h1
      subst h1
      subst h2
      refine ⟨(by have : t.inp = u0.inp := hk.inp
                  rw [this]; exact hinv.inp), ?_⟩
      intro f2 _
      have hrest : kk.restore (idle1_og L2 v2 t) = idle1_og L2 v2 u0 :=
        calc kk.restore (idle1_og L2 v2 t)
            = kk.restore (idle1_og L2 v2 (SymSnap.restore (SymSnap.of t) u0)) := by rw [hfr1]
          _ = idle1_og L2 v2 (kk.restore u0) := rfl
          _ = idle1_og L2 v2 u0 := by rw [hkk]
      have hev : (vn || t.eopmValid) = ev := by
        have : t.eopmValid = u0.eopmValid := hk.eopmValid
        rw [this]; exact hinv.ev.symm
      show afterSym f2 (vn || t.eopmValid) mf2 kk (decodeSymbol (vn || t.eopmValid) (kk.restore (idle1_og L2 v2 t))) = _
      rw [hev, hrest, hind']
      rfl
    | dataError => intro t' k' he; injection he with h1 _; injection h1 with h1 _; cases h1
    | streamEnd => intro t' k' he; injection he with h1 _; injection h1 with h1 _; cases h1
    | outFull q => intro t' k' he; injection he with h1 _; injection h1 with h1 _; cases h1
    | fuel => intro t' k' he; injection he with h1 _; injection h1 with h1 _; cases h1

theorem idle1_loop : ∀ (f : Nat) (ev : Bool) (u : St), Idle1Inv b vn mf Lc ev u → Idle1Res b vn mf mf2 Lc L2 v2 (symLoopR f ev mf u)
  | 0, ev, u, _ => by
    intro t' k' he; injection he with h1 _; injection h1 with h1 _; cases h1
  | f + 1, ev, u, hinv => by
    have ih := idle1_loop f
    rw [symLoopR_succ]
    cases hpre : symPrelude ev mf u with
    | error e t =>
      cases e with
      | needInput =>
        have := symPrelude_starved ev mf _ _ hpre
        subst this
        exact idle1_starve_top b vn mf mf2 Lc L2 v2 ev t hinv (Or.inl hpre)
      | dataError => intro t' k' he; injection he with h1 _; injection h1 with h1 _; cases h1
      | streamEnd => intro t' k' he; injection he with h1 _; injection h1 with h1 _; cases h1
      | outFull q => intro t' k' he; injection he with h1 _; injection h1 with h1 _; cases h1
      | fuel => intro t' k' he; injection he with h1 _; injection h1 with h1 _; cases h1
    | ok ev1 t1 =>
      rcases symPrelude_ok ev mf _ _ _ hpre with ⟨h1, h2, h3⟩ | ⟨h1, h2, _, _⟩
      · subst h1
        subst h2
        simp only []
        cases hn : rcNormalize t1 with
        | error e t =>
          obtain ⟨rfl, rfl⟩ := rcNormalize_starved _ _ _ hn
          exact idle1_starve_top b vn mf mf2 Lc L2 v2 ev1 t hinv (Or.inr ⟨h3, hn⟩)
        | ok a t =>
          exact idle1_sym b vn mf mf2 Lc L2 v2 f ih ev1 (SymSnap.of t1) t1 rfl hinv
      · exfalso
        rcases hinv.eopm with h | h
        · rw [h1] at h; cases h
        · rw [h2] at h; cases h

theorem idle1_head (f : Nat) (ev : Bool) (p : Pending) (k : Option SymSnap) (u : St) (hinv : Idle1Inv b vn mf Lc ev u) :
    Idle1Res b vn mf mf2 Lc L2 v2 (headR f ev mf p k u) := by
  cases k with
  | none => exact idle1_write b vn mf mf2 Lc L2 v2 f (idle1_loop b vn mf mf2 Lc L2 v2 f) ev p u hinv
  | some kk =>
    have hinv2 : Idle1Inv b vn mf Lc ev (kk.restore u) := ⟨hinv.inp, hinv.eopm, hinv.ev, hinv.limit⟩
    exact idle1_sym b vn mf mf2 Lc L2 v2 f (idle1_loop b vn mf mf2 Lc L2 v2 f) ev kk (kk.restore u) rfl hinv2

end run

/-! ### a run that ends at a refused write ends AT the limit -/

def Idle1Full (X : Res) : Prop :=
  ∀ q t k, X = (.error (.outFull q) t, k) → (q ≠ .none ∧ q ≠ .stuck) ∧ t.dp.pos = t.dp.limit

theorem idle1_full_write (f : Nat) (mf : Bool) (hIH : ∀ ev u, u.dp.pos ≤ u.dp.limit → Idle1Full (symLoopR f ev mf u))
    (ev : Bool) (p : Pending) (u : St) (h : u.dp.pos ≤ u.dp.limit) : Idle1Full (afterWrite f ev mf (doWrite p u)) := by
  have hs := stp_doWrite p u
  cases hw : doWrite p u with
  | error e u2 =>
    rw [hw] at hs
    obtain ⟨q', rfl, hq, hpos⟩ := doWrite_exits p u u2 e hw
    intro q t k he
    injection he with h1 _
    injection h1 with h1 h2
    injection h1 with h1
    subst h1
    subst h2
    refine ⟨hq, ?_⟩
    have h3 : u2.dp.limit = u.dp.limit := hs.limit
    rw [h3]
    exact hpos h
  | ok a u2 =>
    rw [hw] at hs
    have hs' : Stp u u2 := hs
    exact hIH ev u2 (hs'.inlim h)

theorem idle1_full_sym (f : Nat) (mf : Bool) (hIH : ∀ ev u, u.dp.pos ≤ u.dp.limit → Idle1Full (symLoopR f ev mf u))
    (ev : Bool) (kk : SymSnap) (u0 : St) (h : u0.dp.pos ≤ u0.dp.limit) : Idle1Full (afterSym f ev mf kk (decodeSymbol ev u0)) := by
  have hs := stp_decodeSymbol ev u0
  cases hd : decodeSymbol ev u0 with
  | ok act t2 =>
    rw [hd] at hs
    have hs' : Stp u0 t2 := hs
    exact idle1_full_write f mf hIH ev act t2 (hs'.inlim h)
  | error e t =>
    rcases decodeSymbol_exits ev _ _ _ hd with h | h | h <;> subst h <;>
      (intro q t' k he; injection he with h1 _; injection h1 with h1 _; cases h1)

theorem idle1_full_loop (mf : Bool) : ∀ (f : Nat) (ev : Bool) (u : St), u.dp.pos ≤ u.dp.limit → Idle1Full (symLoopR f ev mf u)
  | 0, ev, u, _ => by
    intro q t' k he; injection he with h1 _; injection h1 with h1 _; cases h1
  | f + 1, ev, u, h => by
    rw [symLoopR_succ]
    have hp := stp_symPrelude ev mf u
    cases hpre : symPrelude ev mf u with
    | error e t =>
      rcases symPrelude_exits ev mf _ _ _ hpre with h | h | h <;> subst h <;>
        (intro q t' k he; injection he with h1 _; injection h1 with h1 _; cases h1)
    | ok ev1 t1 =>
      rw [hpre] at hp
      have hp' : Stp u t1 := hp
      simp only []
      cases hn : rcNormalize t1 with
      | error e t =>
        obtain ⟨rfl, rfl⟩ := rcNormalize_starved _ _ _ hn
        intro q t' k he; injection he with h1 _; injection h1 with h1 _; cases h1
      | ok a t =>
        exact idle1_full_sym f mf (idle1_full_loop mf f) ev1 (SymSnap.of t1) t1 (hp'.inlim h)

theorem idle1_full_head (f : Nat) (ev mf : Bool) (p : Pending) (k : Option SymSnap) (u : St) (h : u.dp.pos ≤ u.dp.limit) :
    Idle1Full (headR f ev mf p k u) := by
  cases k with
  | none => exact idle1_full_write f mf (idle1_full_loop mf f) ev p u h
  | some kk => exact idle1_full_sym f mf (idle1_full_loop mf f) ev kk (kk.restore u) h

/-! ### the end of a call (copies of the scratch lemmas of the absorption proof) -/

theorem idle1_fst_dataError (o : Bool) (L H : Nat) (w : Option Nat) (t : St) (kx : Option SymSnap) :
    (finOf o L H w (.error .dataError t, kx)).1 = .dataError := by
  simp [finOf, lzmaFinish, exitRet]

theorem idle1_fst_streamEnd (o : Bool) (L H : Nat) (w : Option Nat) (t : St) (kx : Option SymSnap) :
    (finOf o L H w (.error .streamEnd t, kx)).1 = .streamEnd := by
  simp [finOf, lzmaFinish, exitRet]

theorem idle1_finOf_needInput (o : Bool) (L H : Nat) (w : Option Nat) (t : St) (kx : Option SymSnap) :
    finOf o L H w (.error .needInput t, kx)
      = (.ok, ⟨{ t with dp := { t.dp with limit := L }, uncomp := w.map (· - (t.hist.size - H)), pending := .none }, kx, o⟩) := by
  simp [finOf, lzmaFinish, exitRet, exitPending, resSt, unstick]

def idle1_isW (q : Pending) : Bool := match q with | .litWrite _ => true | .shortRep => true | .copy _ => true | _ => false

theorem idle1_lzmaFinish_outFull (q : Pending) (t : St) (cl st : Nat) (u : Option Nat) :
    lzmaFinish (.error (.outFull q) t) cl st u =
      (if (u.map (· - (t.hist.size - st)) == some 0 && idle1_isW q) then .dataError else .ok,
       { t with dp := { t.dp with limit := cl }, uncomp := u.map (· - (t.hist.size - st)), pending := q }) := by
  unfold lzmaFinish idle1_isW
  simp only [exitRet, exitPending, resSt]
  rcases Bool.eq_false_or_eq_true (Option.map (fun x => x - (t.hist.size - st)) u == some 0) with hcc | hcc <;>
    cases q <;> simp only [hcc] <;> rfl

theorem idle1_finOf_outFull_pos (o : Bool) (L H : Nat) (w : Option Nat) (t : St) (kx : Option SymSnap) (q : Pending) :
    (finOf o L H w (.error (.outFull q) t, kx)).2.s.dp.pos = t.dp.pos := by
  unfold finOf
  simp only []
  rw [idle1_lzmaFinish_outFull]
  unfold unstick
  cases q <;> rfl

theorem idle1_finOf_outFull_err (o : Bool) (L H : Nat) (w : Option Nat) (t : St) (kx : Option SymSnap) (q : Pending)
    (hc : (w.map (· - (t.hist.size - H)) == some 0 && idle1_isW q) = true) :
    (finOf o L H w (.error (.outFull q) t, kx)).1 ≠ .ok := by
  unfold finOf
  simp only []
  rw [idle1_lzmaFinish_outFull, hc]
  intro h; cases h

theorem idle1_map_sub_self (w : Option Nat) (n : Nat) : w.map (· - (n - n)) = w := by
  cases w with
  | none => rfl
  | some u => show some (u - (n - n)) = some u; rw [Nat.sub_self, Nat.sub_zero]

/-- the second call, given that its run starves at once -/
theorem idle1_tail (o : Bool) (b : ByteArray) (L L' : Nat) (w'' : Option Nat) (t : St) (kx : Option SymSnap)
    (hil : t.initLeft = 0) (hpend : t.pending = .none) (hinp : t.inp = b)
    (hrun : ∀ f2, 1 ≤ f2 → headR f2 (w''.isNone || t.eopmValid) (mfN w'' t.dp.pos L') .none kx (idle1_og (clN w'' t.dp.pos L') w'' t)
      = (.error .needInput (idle1_og (clN w'' t.dp.pos L') w'' t), kx)) :
    Same (lzmaCallR ((⟨{ t with dp := { t.dp with limit := L }, uncomp := w'', pending := .none }, kx, o⟩ : RSt).view b L'))
      (.ok, ⟨{ t with dp := { t.dp with limit := L }, uncomp := w'', pending := .none }, kx, o⟩) := by
  rw [lzmaCallR_eq]
  show Same (callK kx o (rcReadInit (ov b L' w'' { t with pending := .none }))) _
  rw [rcReadInit_zero _ (show (ov b L' w'' { t with pending := .none }).initLeft = 0 from hil)]
  show Same (finK kx o (ov b L' w'' { t with pending := .none })) _
  rw [finK_eq]
  have e1 : ({ ({ t with pending := .none } : St) with pending := .none } : St) = t := by rw [← hpend]
  rw [e1]
  have e2 : ov b (clN w'' t.dp.pos L') w'' t = idle1_og (clN w'' t.dp.pos L') w'' t := by rw [idle1_og_eq_ov, hinp]
  rw [hpend]
  show Same (finOf o L' t.hist.size w'' (headR (clN w'' t.dp.pos L' - t.dp.pos + 2) (w''.isNone || t.eopmValid) (mfN w'' t.dp.pos L') .none kx
    (ov b (clN w'' t.dp.pos L') w'' t))) _
  rw [e2, hrun _ (by omega), idle1_finOf_needInput]
  refine ⟨rfl, ?_⟩
  show (⟨_, kx, o⟩ : RSt) = ⟨_, kx, o⟩
  congr 1
  show ({ t with inp := ByteArray.empty, dp := { t.dp with limit := 0 },
                 uncomp := w''.map (· - (t.hist.size - t.hist.size)), pending := .none } : St)
     = { t with inp := ByteArray.empty, dp := { t.dp with limit := 0 }, uncomp := w'', pending := .none }
  rw [idle1_map_sub_self]

/-- the main part of a call (after `rc_read_init`) -/
theorem idle1_run (k : Option SymSnap) (o : Bool) (b : ByteArray) (L L' : Nat) (w : Option Nat) (s0 : St)
    (hL : L ≤ L') (hpos : s0.dp.pos ≤ L) (hil : s0.initLeft = 0) (heopm : s0.allowEopm = false ∨ w = none)
    (hok : (finK k o (ov b L w s0)).1 = .ok) (hlt : (finK k o (ov b L w s0)).2.s.dp.pos < L) :
    Same (lzmaCallR ((finK k o (ov b L w s0)).2.view b L')) (finK k o (ov b L w s0)) := by
  rw [finK_eq k o b L w s0] at hok hlt ⊢
  have hPR := pr_call w s0.dp.pos L L' hpos hL
  have hcb := clN_bounds w s0.dp.pos L hpos
  have hdle : ∀ u, w = some u → ∀ d, s0.dp.pos + d ≤ clN w s0.dp.pos L → d ≤ u := by
    intro u hu d hd
    subst hu
    unfold clN at hd
    simp only [] at hd
    split at hd <;> omega
  have hcl : clN w s0.dp.pos L = L ∨ ∃ u, w = some u ∧ clN w s0.dp.pos L = s0.dp.pos + u := by
    cases w with
    | none => exact Or.inl rfl
    | some u =>
      unfold clN
      simp only []
      split
      · exact Or.inr ⟨u, rfl, rfl⟩
      · exact Or.inl rfl
  have heopm' : s0.allowEopm = false ∨ mfN w s0.dp.pos L = false := by
    rcases heopm with h | h
    · exact Or.inl h
    · subst h; exact Or.inr rfl
  generalize clN w s0.dp.pos L = Lc at *
  generalize mfN w s0.dp.pos L = mfX at *
  have hinv : Idle1Inv b w.isNone mfX Lc (w.isNone || s0.eopmValid) (ov b Lc w { s0 with pending := .none }) := ⟨rfl, heopm', rfl, rfl⟩
  have hnfX := headR_nofuel (Lc - s0.dp.pos + 2) (w.isNone || s0.eopmValid) mfX s0.pending k
    (ov b Lc w { s0 with pending := .none }) hcb.1 (by show Lc - s0.dp.pos < _; omega)
  have hpostX := post_headR (Lc - s0.dp.pos + 2) (w.isNone || s0.eopmValid) mfX s0.pending k
    (ov b Lc w { s0 with pending := .none })
  have hfull := idle1_full_head (Lc - s0.dp.pos + 2) (w.isNone || s0.eopmValid) mfX s0.pending k
    (ov b Lc w { s0 with pending := .none }) hcb.1
  have hidle := fun mf2 L2 v2 => idle1_head b w.isNone mfX mf2 Lc L2 v2 (Lc - s0.dp.pos + 2) (w.isNone || s0.eopmValid) s0.pending k
    (ov b Lc w { s0 with pending := .none }) hinv
  generalize headR (Lc - s0.dp.pos + 2) (w.isNone || s0.eopmValid) mfX s0.pending k
    (ov b Lc w { s0 with pending := .none }) = runX at *
  obtain ⟨resX, kx⟩ := runX
  cases resX with
  | ok a t => exact absurd rfl (hpostX.noOk a t)
  | error e t =>
    have hstp : Stp (ov b Lc w { s0 with pending := .none }) t := hpostX.stp
    have hpend : t.pending = .none := hstp.pending
    have hil' : t.initLeft = 0 := hstp.initLeft.trans hil
    have hHle : s0.hist.size ≤ t.hist.size := by
      have h1 : t.hist.size + s0.dp.pos = s0.hist.size + t.dp.pos := hstp.hist
      have h2 : s0.dp.pos ≤ t.dp.pos := hstp.mono
      omega
    have htpos : t.dp.pos = s0.dp.pos + (t.hist.size - s0.hist.size) := by
      have h1 : t.hist.size + s0.dp.pos = s0.hist.size + t.dp.pos := hstp.hist
      omega
    have htlim : t.dp.limit = Lc := hstp.limit
    have htle : t.dp.pos ≤ Lc := by
      have h1 : t.dp.pos ≤ t.dp.limit := hstp.inlim hcb.1
      omega
    cases e with
    | fuel => exact absurd rfl (hnfX t)
    | dataError => rw [idle1_fst_dataError] at hok; cases hok
    | streamEnd => rw [idle1_fst_streamEnd] at hok; cases hok
    | outFull q =>
      exfalso
      obtain ⟨hq, hpl⟩ := hfull q t kx rfl
      rw [idle1_finOf_outFull_pos] at hlt
      have hw : idle1_isW q = true := by
        cases q <;> first | rfl | exact absurd rfl hq.1 | exact absurd rfl hq.2
      cases hc : (w.map (· - (t.hist.size - s0.hist.size)) == some 0 && idle1_isW q) with
      | true => exact idle1_finOf_outFull_err o L s0.hist.size w t kx q hc hok
      | false =>
        rcases hcl with h | ⟨u, hu, h⟩
        · omega
        · subst hu
          have hδ : u - (t.hist.size - s0.hist.size) = 0 := by omega
          have : Option.map (fun x => x - (t.hist.size - s0.hist.size)) (some u) = some 0 := by
            show some (u - _) = some 0
            rw [hδ]
          rw [this, hw] at hc
          exact absurd hc (by decide)
    | needInput =>
      rw [idle1_finOf_needInput]
      have hshift := shiftN w (t.hist.size - s0.hist.size) s0.dp.pos L'
        (fun u hu => hdle u hu _ (by omega)) (by omega)
      rw [← htpos] at hshift
      have htest : (mfX && (t.dp.pos == Lc))
          = (mfN (w.map (· - (t.hist.size - s0.hist.size))) t.dp.pos L'
              && (t.dp.pos == clN (w.map (· - (t.hist.size - s0.hist.size))) t.dp.pos L')) := by
        rw [hshift.1, hshift.2]
        exact hPR.test t.dp.pos htle
      obtain ⟨hinp, hrun⟩ := hidle _ _ (w.map (· - (t.hist.size - s0.hist.size))) t kx rfl htest
      have hisn : w.isNone = (w.map (· - (t.hist.size - s0.hist.size))).isNone := by cases w <;> rfl
      rw [hisn] at hrun
      exact idle1_tail o b L L' _ t kx hil' hpend hinp hrun

/-! ### `rc_read_init`: "input ran out" is only returned at the end of the input, with `init_bytes_left` up to date -/

theorem idle1_init_succ (k : Nat) (s : St) :
    rcReadInitN (k + 1) s =
      if h : s.inPos < s.inp.size then
        if (k + 1 == 5 && s.inp[s.inPos] != 0) = true then .error .dataError s
        else rcReadInitN k { s with code := ((Rc.mk s.range s.code).initByte (s.inp[s.inPos]).toNat).code,
                                    inPos := s.inPos + 1, initLeft := k }
      else .ok false s := rfl

theorem idle1_init : ∀ (n : Nat) (s t : St), s.initLeft = n → rcReadInitN n s = .ok false t →
    rcReadInitN t.initLeft t = .ok false t
  | 0, s, t, _, h => by
    have h' : (EStateM.Result.ok true s : EStateM.Result Exit St Bool) = .ok false t := h
    injection h' with h1 _
    cases h1
  | k + 1, s, t, hin, h => by
    rw [idle1_init_succ] at h
    by_cases hb : s.inPos < s.inp.size
    · rw [dif_pos hb] at h
      by_cases hc : (k + 1 == 5 && s.inp[s.inPos] != 0) = true
      · rw [if_pos hc] at h; cases h
      · rw [if_neg hc] at h
        exact idle1_init k _ t rfl h
    · rw [dif_neg hb] at h
      injection h with _ h2
      subst h2
      rw [hin, idle1_init_succ, dif_neg hb]

/-- **LZMA1 call level: a starved call is idle.** -/
theorem l1Idle : L1Idle := by
  intro r b L L' hpre hL hok hlt
  obtain ⟨s, k, o⟩ := r
  have hpos : s.dp.pos ≤ L := hpre.pos
  have heopm : s.allowEopm = false ∨ s.uncomp = none := hpre.eopm
  have hcall : lzmaCallR ((RSt.mk s k o).view b L) = callK k o (rcReadInit (ov b L s.uncomp s)) :=
    lzmaCallR_eq ⟨ov b L s.uncomp s, k, o⟩
  rw [hcall] at hok hlt ⊢
  have hfr := rcReadInit_frame (ov b L s.uncomp s)
  cases hri : rcReadInit (ov b L s.uncomp s) with
  | error e t =>
    rw [hri] at hok
    cases hok
  | ok a t =>
    rw [hri] at hfr hok hlt
    have hinp : t.inp = b := by have h1 := congrArg St.inp hfr.1; exact h1
    have hun : t.uncomp = s.uncomp := by have h1 := congrArg St.uncomp hfr.1; exact h1
    cases a with
    | false =>
      show Same (lzmaCallR ⟨ov b L' t.uncomp t, k, o⟩) (.ok, ⟨t, k, o⟩)
      rw [lzmaCallR_eq]
      show Same (callK k o (rcReadInit (ov b L' t.uncomp t))) _
      have hI : rcReadInitN t.initLeft t = .ok false t := idle1_init _ _ t rfl hri
      have hZ : rcReadInit (ov b L' t.uncomp t) = .ok false (ov b L' t.uncomp t) := by
        have e : ov b L' t.uncomp t = idle1_og L' t.uncomp t := by rw [idle1_og_eq_ov, hinp]
        rw [e]
        have := (ind_rcReadInitN (fun _ => L') (fun _ => t.uncomp) id t.initLeft).comm t
        rw [hI] at this
        exact this
      rw [hZ]
      exact ⟨rfl, rfl⟩
    | true =>
      have hlim : t.dp.limit = L := by have h1 := congrArg (fun x : St => x.dp.limit) hfr.1; exact h1
      have hfix : ov b L s.uncomp t = t := ov_fix hinp hlim hun
      have hdp : t.dp.pos = s.dp.pos := by have h1 := congrArg (fun x : St => x.dp.pos) hfr.1; exact h1
      have hae : t.allowEopm = s.allowEopm := by have h1 := congrArg St.allowEopm hfr.1; exact h1
      have := idle1_run k o b L L' s.uncomp t hL (by rw [hdp]; exact hpos) (hfr.2.2.2 t rfl) (by rw [hae]; exact heopm)
        (by rw [hfix]; exact hok) (by rw [hfix]; exact hlt)
      rw [hfix] at this
      exact this

/-- the LZMA1 instance of the LZ-layer interface -/
theorem codeIdle_lzma1 : CodeIdle P1 lzmaCallR := by
  intro r b L L' hp hag hin hpos hL _ _ hok _ hlt
  exact l1Idle r b L L' ⟨hin, hpos, hag, hp.1, hp.2.1⟩ hL hok hlt

end XzVerif.LzmaR
