/-
  C13 `random_access`: a concrete two-Stream file for the model of the real decoder (`XzEnv.stdEnv`: raw LZMA2 decoder,
  CRC32), showing that the hypotheses of the theorem are satisfiable.  Stream 1 (CRC32, four bytes of Stream Padding) has
  two Blocks — the Block of tests/files/good-1-check-crc32.xz ("Hello\nWorld!\n", two uncompressed LZMA2 chunks) and a
  one-byte Block "A" (three bytes of Block Padding); Stream 2 has the first Block again.  Kernel evaluation.
-/
import XzVerif.Lemmas.RandomAccessIndex
import XzVerif.Lemmas.XzStd

namespace XzVerif.RandomAccess.Example
open XzVerif XzVerif.XzDecode XzVerif.Container XzVerif.RandomAccess

/-- Block Header of good-1-check-crc32.xz: size byte 2 (12 bytes), no size fields, one filter LZMA2 (dict byte 8) -/
def hb : List UInt8 := [2, 0, 33, 1, 8, 0, 0, 0, 216, 15, 35, 19]
def hd : BlockHeader := { compressedSize := none, uncompressedSize := none, filters := [{ id := 33, props := [8] }] }

def hello : List UInt8 := [72, 101, 108, 108, 111, 10, 87, 111, 114, 108, 100, 33, 10]

def blockA : BlockDesc :=
  { hb := hb, h := hd, c := [1, 0, 5, 72, 101, 108, 108, 111, 10, 2, 0, 6, 87, 111, 114, 108, 100, 33, 10, 0],
    o := hello, pad := [], chk := [67, 163, 162, 21] }

def blockB : BlockDesc :=
  { hb := hb, h := hd, c := [1, 0, 0, 65, 0], o := [65], pad := [0, 0, 0], chk := [139, 158, 217, 211] }

def xs : List XStream := [⟨1, [blockA, blockB], 4⟩, ⟨1, [blockA], 0⟩]

theorem wfA : blockA.Wf 1 := ⟨⟨2, _, rfl, by decide⟩, by decide +kernel, ⟨1, by decide +kernel⟩, by decide⟩
theorem wfB : blockB.Wf 1 := ⟨⟨2, _, rfl, by decide⟩, by decide +kernel, ⟨1, by decide +kernel⟩, by decide⟩

theorem decA (cap : Nat) (h : cap = 4611686018427387904 ∨ cap = 4611686018427387904 - 14) :
    blockA.DecodesAt XzEnv.stdEnv 1 false cap := by
  unfold BlockDesc.DecodesAt
  refine ⟨?_, fun x h => (by cases h), fun x h => (by cases h), (by decide), (by decide), fun _ _ _ => (by decide +kernel)⟩
  rcases h with rfl | rfl <;> decide +kernel

theorem decB : blockB.DecodesAt XzEnv.stdEnv 1 false (4611686018427387904 - 13) := by
  unfold BlockDesc.DecodesAt
  refine ⟨(by decide +kernel), fun x h => (by cases h), fun x h => (by cases h), (by decide), (by decide), fun _ _ _ => (by decide +kernel)⟩

theorem valid1 : Index.Spec.Valid [⟨none, 0, [⟨36, 13⟩, ⟨21, 1⟩]⟩] := by
  have h1 := Index.Spec.append_valid Index.Spec.valid_init (u := 36) (c := 13) (i' := [⟨none, 0, [⟨36, 13⟩]⟩]) (by decide +kernel)
  exact Index.Spec.append_valid h1 (u := 21) (c := 1) (i' := [⟨none, 0, [⟨36, 13⟩, ⟨21, 1⟩]⟩]) (by decide +kernel)

theorem valid2 : Index.Spec.Valid [⟨none, 0, [⟨36, 13⟩]⟩] :=
  Index.Spec.append_valid Index.Spec.valid_init (u := 36) (c := 13) (i' := [⟨none, 0, [⟨36, 13⟩]⟩]) (by decide +kernel)

theorem xs_ok : ∀ x ∈ xs, x.Ok := by
  intro x hx
  simp only [xs, List.mem_cons, List.not_mem_nil, or_false] at hx
  rcases hx with rfl | rfl
  · refine ⟨by decide, by decide, valid1, by decide +kernel, ?_⟩
    intro B hB
    simp only [List.mem_cons, List.not_mem_nil, or_false] at hB
    rcases hB with rfl | rfl
    · exact wfA
    · exact wfB
  · refine ⟨by decide, by decide, valid2, by decide +kernel, ?_⟩
    intro B hB
    simp only [List.mem_cons, List.not_mem_nil, or_false] at hB
    rcases hB with rfl
    exact wfA

theorem xs_seq : SeqFile XzEnv.stdEnv false UNLIMITED xs :=
  ⟨⟨decA _ (Or.inl rfl), decB, trivial⟩, ⟨decA _ (Or.inr rfl), trivial⟩, trivial⟩

theorem xs_combinable : Index.Combinable (descs xs) := by
  refine ⟨⟨trivial, by decide +kernel, fun h => absurd rfl h⟩, by decide +kernel, fun _ => by decide +kernel⟩

theorem xs_memOk : Index.MemOk (max 1 100000) (descs xs) := by
  refine ⟨⟨trivial, by decide +kernel, by decide +kernel⟩, by decide +kernel, by decide +kernel⟩

/-- the file: 92 + 4 + 68 bytes -/
theorem file_bytes : fileOf xs =
    [253, 55, 122, 88, 90, 0, 0, 1, 105, 34, 222, 54,
     2, 0, 33, 1, 8, 0, 0, 0, 216, 15, 35, 19, 1, 0, 5, 72, 101, 108, 108, 111, 10, 2, 0, 6, 87, 111, 114, 108, 100, 33, 10, 0,
     67, 163, 162, 21,
     2, 0, 33, 1, 8, 0, 0, 0, 216, 15, 35, 19, 1, 0, 0, 65, 0, 0, 0, 0, 139, 158, 217, 211,
     0, 2, 36, 13, 21, 1, 0, 0, 75, 128, 21, 240, 62, 48, 13, 139, 2, 0, 0, 0, 0, 1, 89, 90,
     0, 0, 0, 0,
     253, 55, 122, 88, 90, 0, 0, 1, 105, 34, 222, 54, 2, 0, 33, 1, 8, 0, 0, 0, 216, 15, 35, 19, 1, 0, 5, 72, 101, 108, 108, 111,
     10, 2, 0, 6, 87, 111, 114, 108, 100, 33, 10, 0, 67, 163, 162, 21, 0, 1, 36, 13, 48, 40, 223, 175, 144, 66, 153, 13, 1, 0, 0,
     0, 0, 1, 89, 90] := by decide +kernel

end XzVerif.RandomAccess.Example
