/-
  read_output_and_wait: the data invariant across lzma_outq_read / lzma_outq_enable_partial_output and the inner read loop.
-/
import XzVerif.Lemmas.MtDecMain5

namespace XzVerif.MtDec

/-- Two workers that differ at most in `pu` and `woken` (what enabling partial output touches). -/
def WSame (w w' : Worker) : Prop :=
  w'.st = w.st ∧ w'.pc = w.pc ∧ w'.blk = w.blk ∧ w'.inAlloc = w.inAlloc ∧ w'.inSize = w.inSize ∧
  w'.inFilled = w.inFilled ∧ w'.inPos = w.inPos ∧ w'.outPos = w.outPos ∧ w'.hasOut = w.hasOut ∧ w'.failed = w.failed

theorem WSame.refl (w : Worker) : WSame w w := ⟨rfl, rfl, rfl, rfl, rfl, rfl, rfl, rfl, rfl, rfl⟩

theorem WSame.trans {a b c : Worker} (h1 : WSame a b) (h2 : WSame b c) : WSame a c := by
  obtain ⟨a1, a2, a3, a4, a5, a6, a7, a8, a9, a10⟩ := h1
  obtain ⟨b1, b2, b3, b4, b5, b6, b7, b8, b9, b10⟩ := h2
  exact ⟨b1.trans a1, b2.trans a2, b3.trans a3, b4.trans a4, b5.trans a5, b6.trans a6, b7.trans a7, b8.trans a8,
         b9.trans a9, b10.trans a10⟩

theorem WInv.same {s : State} {w w' : Worker} (h : WInv s w) (e : WSame w w') : WInv s w' := by
  obtain ⟨e1, e2, e3, e4, e5, e6, e7, e8, e9, e10⟩ := e
  refine ⟨by rw [e8, e3]; exact h.outLe, by rw [e6, e5]; exact h.fillLe, ?_, ?_, by rw [e1, e9]; exact h.run⟩
  · rw [e9, e5, e3, e8]; exact h.has
  · have := h.pcInv
    rw [e2]
    revert this
    cases w.pc <;> simp only [e9, e6, e8, e3, e5, e1] <;> exact id

/-- The queue's two views that the invariants use are unchanged: same length, and position-wise same
    (blk, pos, finished, finishRet). -/
def QSame : List Outbuf → List Outbuf → Prop
  | [], [] => True
  | a :: t, a' :: t' => a'.blk = a.blk ∧ a'.pos = a.pos ∧ a'.finished = a.finished ∧ a'.finishRet = a.finishRet ∧
      a'.decInPos = a.decInPos ∧ QSame t t'
  | _, _ => False

theorem QSame.refl : ∀ q : List Outbuf, QSame q q
  | [] => trivial
  | _ :: t => ⟨rfl, rfl, rfl, rfl, rfl, QSame.refl t⟩

theorem QSame.length : ∀ {q q' : List Outbuf}, QSame q q' → q'.length = q.length
  | [], [], _ => rfl
  | _ :: t, _ :: t', h => by simp [QSame.length (q := t) (q' := t') h.2.2.2.2.2]
  | [], _ :: _, h => by cases h
  | _ :: _, [], h => by cases h

theorem QSame.mem : ∀ {q q' : List Outbuf}, QSame q q' → ∀ o' ∈ q', ∃ o ∈ q, o'.blk = o.blk ∧ o'.pos = o.pos ∧
    o'.finished = o.finished ∧ o'.finishRet = o.finishRet
  | [], [], _, o', ho' => by simp at ho'
  | a :: t, a' :: t', h, o', ho' => by
    rcases List.mem_cons.mp ho' with rfl | hm
    · exact ⟨a, by simp, h.1, h.2.1, h.2.2.1, h.2.2.2.1⟩
    · obtain ⟨o, ho, x⟩ := QSame.mem (q := t) (q' := t') h.2.2.2.2.2 o' hm
      exact ⟨o, List.mem_cons_of_mem _ ho, x⟩
  | [], _ :: _, h, _, _ => by cases h
  | _ :: _, [], h, _, _ => by cases h

theorem QSame.mem' : ∀ {q q' : List Outbuf}, QSame q q' → ∀ o ∈ q, ∃ o' ∈ q', o'.blk = o.blk ∧ o'.pos = o.pos ∧
    o'.finished = o.finished ∧ o'.finishRet = o.finishRet
  | [], [], _, o, ho => by simp at ho
  | a :: t, a' :: t', h, o, ho => by
    rcases List.mem_cons.mp ho with rfl | hm
    · exact ⟨a', by simp, h.1, h.2.1, h.2.2.1, h.2.2.2.1⟩
    · obtain ⟨o', ho', x⟩ := QSame.mem' (q := t) (q' := t') h.2.2.2.2.2 o hm
      exact ⟨o', List.mem_cons_of_mem _ ho', x⟩
  | [], _ :: _, h, _, _ => by cases h
  | _ :: _, [], h, _, _ => by cases h

theorem QSame.consec : ∀ {q q' : List Outbuf} {n : Nat}, QSame q q' → Consec n q → Consec n q'
  | [], [], _, _, _ => trivial
  | a :: t, a' :: t', n, h, hc => by
    simp only [Consec] at hc ⊢
    exact ⟨h.1.trans hc.1, QSame.consec (q := t) (q' := t') h.2.2.2.2.2 hc.2⟩
  | [], _ :: _, _, h, _ => by cases h
  | _ :: _, [], _, h, _ => by cases h

/-- DataInv is insensitive to changes of `pu`/`woken` of workers and of `worker`/`decInPos`-preserving outbuf changes. -/
theorem DataInv.same {s s' : State} (h : DataInv s) (hb : s'.blocks = s.blocks) (hc : s'.cur = s.cur)
    (hq : QSame s.queue s'.queue) (ho : s'.outRev = s.outRev) (hr : s'.readPos = s.readPos)
    (hp : s'.directPos = s.directPos) (hl : s'.workers.length = s.workers.length)
    (hw : ∀ j, WSame (getW s j) (getW s' j)) (hf : s'.threadsFree = s.threadsFree) : DataInv s' := by
  have e1 : ∀ j, blk s' j = blk s j := fun j => by simp [blk, hb]
  have e2 : ∀ j, dataLen s' j = dataLen s j := fun j => by simp [dataLen, e1]
  have eh : hd s' = hd s := by simp [hd, hc, hq.length]
  have ed : s'.delivered = s.delivered := by simp [State.delivered, ho]
  have ep : partialOut s' = partialOut s := by
    unfold partialOut
    cases h1 : s.queue <;> cases h2 : s'.queue <;> rw [h1, h2] at hq
    · simp [hc, hp, e1]
    · cases hq
    · cases hq
    · simp only [e1, hr, hq.1]
  refine { wf := by rw [hb]; exact h.wf, curLe := by rw [hc, hb]; exact h.curLe,
           lenLe := by rw [hc, hq.length]; exact h.lenLe, consec := by rw [eh]; exact hq.consec h.consec,
           good := by intro j hj; rw [eh] at hj; rw [e1]; exact h.good j hj,
           deliv := by rw [ed, eh, ep, hb]; exact h.deliv, posLe := ?_, readLe := ?_, fin := ?_, wk := ?_,
           distinct := ?_, free := ?_, freeNodup := by rw [hf]; exact h.freeNodup,
           dirLe := by rw [hp, hc, e2]; exact h.dirLe, dirQ := ?_ }
  · intro o' ho'
    obtain ⟨o, hoq, x1, x2, _, _⟩ := hq.mem o' ho'
    rw [x1, x2, e2]; exact h.posLe o hoq
  · have := h.readLe
    cases h1 : s.queue <;> cases h2 : s'.queue <;> rw [h1, h2] at hq <;> rw [h1] at this
    · simpa [hr] using this
    · cases hq
    · cases hq
    · show s'.readPos ≤ _
      rw [hr, hq.2.1]; exact this
  · intro o' ho' hfin
    obtain ⟨o, hoq, x1, x2, x3, x4⟩ := hq.mem o' ho'
    rw [x1, x2, x4, e2, e1]; exact h.fin o hoq (x3 ▸ hfin)
  · intro i hi
    rw [hl] at hi
    have hwi := (h.wk i hi).same (hw i)
    refine ⟨by rw [e2]; exact hwi.outLe, hwi.fillLe, ?_, ?_, hwi.run⟩
    · intro hh
      have := hwi.has hh
      refine ⟨by rw [e1]; exact this.1, ?_, ?_⟩
      · obtain ⟨o, hoq, e⟩ := this.2.1
        obtain ⟨o', ho', x1, _⟩ := hq.mem' o hoq
        exact ⟨o', ho', x1.trans e⟩
      · intro o' ho' e'
        obtain ⟨o, hoq, x1, x2, x3, _⟩ := hq.mem o' ho'
        have := this.2.2 o hoq (x1.symm.trans e')
        rw [x3, x2]; exact this
    · have := hwi.pcInv
      revert this
      cases (getW s' i).pc <;> simp [e1, e2]
  · intro a b ha hb' hab h1 h2
    rw [hl] at ha hb'
    rw [(hw a).2.2.1, (hw b).2.2.1]
    exact h.distinct a b ha hb' hab ((hw a).2.2.2.2.2.2.2.2.1 ▸ h1) ((hw b).2.2.2.2.2.2.2.2.1 ▸ h2)
  · intro i hi
    rw [hf] at hi
    have := h.free i hi
    obtain ⟨x1, x2, _, _, _, _, _, _, x9, x10⟩ := hw i
    rw [hl, x9, x2, x10, x1]; exact this
  · intro hne
    rw [hp] at hne
    have := h.dirQ hne
    have hlen := hq.length
    rw [this] at hlen
    exact List.eq_nil_of_length_eq_zero (by simpa using hlen)

end XzVerif.MtDec
