/-
  read_output_and_wait: the data invariant across lzma_outq_read / lzma_outq_enable_partial_output and the inner read loop.
-/
import XzVerif.Lemmas.MtDecMain5

namespace XzVerif.MtDec

/-- Two workers that differ at most in `pu` and `woken` (what enabling partial output touches). -/
def WSame (w w' : Worker) : Prop :=
  w'.st = w.st ∧ w'.pc = w.pc ∧ w'.blk = w.blk ∧ w'.inAlloc = w.inAlloc ∧ w'.inSize = w.inSize ∧
  w'.inFilled = w.inFilled ∧ w'.inPos = w.inPos ∧ w'.outPos = w.outPos ∧ w'.hasOut = w.hasOut ∧ w'.failed = w.failed

theorem WSame.refl (w : Worker) : WSame w w := ⟨rfl, rfl, rfl, rfl, rfl, rfl, rfl, rfl, rfl, rfl⟩

theorem WSame.trans {a b c : Worker} (h1 : WSame a b) (h2 : WSame b c) : WSame a c := by
  obtain ⟨a1, a2, a3, a4, a5, a6, a7, a8, a9, a10⟩ := h1
  obtain ⟨b1, b2, b3, b4, b5, b6, b7, b8, b9, b10⟩ := h2
  exact ⟨b1.trans a1, b2.trans a2, b3.trans a3, b4.trans a4, b5.trans a5, b6.trans a6, b7.trans a7, b8.trans a8,
         b9.trans a9, b10.trans a10⟩

theorem WInv.same {s : State} {w w' : Worker} (h : WInv s w) (e : WSame w w') : WInv s w' := by
  obtain ⟨e1, e2, e3, e4, e5, e6, e7, e8, e9, e10⟩ := e
  refine ⟨by rw [e8, e3]; exact h.outLe, by rw [e6, e5]; exact h.fillLe, ?_, ?_, by rw [e1, e9]; exact h.run⟩
  · rw [e9, e5, e3, e8]; exact h.has
  · have := h.pcInv
    rw [e2]
    revert this
    cases w.pc <;> simp only [e9, e6, e8, e3, e5, e1] <;> exact id

/-- The queue's two views that the invariants use are unchanged: same length, and position-wise same
    (blk, pos, finished, finishRet). -/
def QSame : List Outbuf → List Outbuf → Prop
  | [], [] => True
  | a :: t, a' :: t' => a'.blk = a.blk ∧ a'.pos = a.pos ∧ a'.finished = a.finished ∧ a'.finishRet = a.finishRet ∧
      a'.decInPos = a.decInPos ∧ QSame t t'
  | _, _ => False

theorem QSame.refl : ∀ q : List Outbuf, QSame q q
  | [] => trivial
  | _ :: t => ⟨rfl, rfl, rfl, rfl, rfl, QSame.refl t⟩

theorem QSame.length : ∀ {q q' : List Outbuf}, QSame q q' → q'.length = q.length
  | [], [], _ => rfl
  | _ :: t, _ :: t', h => by simp [QSame.length (q := t) (q' := t') h.2.2.2.2.2]
  | [], _ :: _, h => by cases h
  | _ :: _, [], h => by cases h

theorem QSame.mem : ∀ {q q' : List Outbuf}, QSame q q' → ∀ o' ∈ q', ∃ o ∈ q, o'.blk = o.blk ∧ o'.pos = o.pos ∧
    o'.finished = o.finished ∧ o'.finishRet = o.finishRet
  | [], [], _, o', ho' => by simp at ho'
  | a :: t, a' :: t', h, o', ho' => by
    rcases List.mem_cons.mp ho' with rfl | hm
    · exact ⟨a, by simp, h.1, h.2.1, h.2.2.1, h.2.2.2.1⟩
    · obtain ⟨o, ho, x⟩ := QSame.mem (q := t) (q' := t') h.2.2.2.2.2 o' hm
      exact ⟨o, List.mem_cons_of_mem _ ho, x⟩
  | [], _ :: _, h, _, _ => by cases h
  | _ :: _, [], h, _, _ => by cases h

theorem QSame.mem' : ∀ {q q' : List Outbuf}, QSame q q' → ∀ o ∈ q, ∃ o' ∈ q', o'.blk = o.blk ∧ o'.pos = o.pos ∧
    o'.finished = o.finished ∧ o'.finishRet = o.finishRet
  | [], [], _, o, ho => by simp at ho
  | a :: t, a' :: t', h, o, ho => by
    rcases List.mem_cons.mp ho with rfl | hm
    · exact ⟨a', by simp, h.1, h.2.1, h.2.2.1, h.2.2.2.1⟩
    · obtain ⟨o', ho', x⟩ := QSame.mem' (q := t) (q' := t') h.2.2.2.2.2 o hm
      exact ⟨o', List.mem_cons_of_mem _ ho', x⟩
  | [], _ :: _, h, _, _ => by cases h
  | _ :: _, [], h, _, _ => by cases h

theorem QSame.consec : ∀ {q q' : List Outbuf} {n : Nat}, QSame q q' → Consec n q → Consec n q'
  | [], [], _, _, _ => trivial
  | a :: t, a' :: t', n, h, hc => by
    simp only [Consec] at hc ⊢
    exact ⟨h.1.trans hc.1, QSame.consec (q := t) (q' := t') h.2.2.2.2.2 hc.2⟩
  | [], _ :: _, _, h, _ => by cases h
  | _ :: _, [], _, h, _ => by cases h

/-- DataInv is insensitive to changes of `pu`/`woken` of workers and of `worker`/`decInPos`-preserving outbuf changes. -/
theorem DataInv.same {s s' : State} (h : DataInv s) (hb : s'.blocks = s.blocks) (hc : s'.cur = s.cur)
    (hq : QSame s.queue s'.queue) (ho : s'.outRev = s.outRev) (hr : s'.readPos = s.readPos)
    (hp : s'.directPos = s.directPos) (hl : s'.workers.length = s.workers.length)
    (hw : ∀ j, WSame (getW s j) (getW s' j)) (hf : s'.threadsFree = s.threadsFree) : DataInv s' := by
  have e1 : ∀ j, blk s' j = blk s j := fun j => by simp [blk, hb]
  have e2 : ∀ j, dataLen s' j = dataLen s j := fun j => by simp [dataLen, e1]
  have eh : hd s' = hd s := by simp [hd, hc, hq.length]
  have ed : s'.delivered = s.delivered := by simp [State.delivered, ho]
  have ep : partialOut s' = partialOut s := by
    unfold partialOut
    cases h1 : s.queue <;> cases h2 : s'.queue <;> rw [h1, h2] at hq
    · simp [hc, hp, e1]
    · cases hq
    · cases hq
    · simp only [e1, hr, hq.1]
  refine { wf := by rw [hb]; exact h.wf, curLe := by rw [hc, hb]; exact h.curLe,
           lenLe := by rw [hc, hq.length]; exact h.lenLe, consec := by rw [eh]; exact hq.consec h.consec,
           good := by intro j hj; rw [eh] at hj; rw [e1]; exact h.good j hj,
           deliv := by rw [ed, eh, ep, hb]; exact h.deliv, posLe := ?_, readLe := ?_, fin := ?_, wk := ?_,
           distinct := ?_, free := ?_, freeNodup := by rw [hf]; exact h.freeNodup,
           dirLe := by rw [hp, hc, e2]; exact h.dirLe, dirQ := ?_ }
  · intro o' ho'
    obtain ⟨o, hoq, x1, x2, _, _⟩ := hq.mem o' ho'
    rw [x1, x2, e2]; exact h.posLe o hoq
  · have := h.readLe
    cases h1 : s.queue <;> cases h2 : s'.queue <;> rw [h1, h2] at hq <;> rw [h1] at this
    · simpa [hr] using this
    · cases hq
    · cases hq
    · show s'.readPos ≤ _
      rw [hr, hq.2.1]; exact this
  · intro o' ho' hfin
    obtain ⟨o, hoq, x1, x2, x3, x4⟩ := hq.mem o' ho'
    rw [x1, x2, x4, e2, e1]; exact h.fin o hoq (x3 ▸ hfin)
  · intro i hi
    rw [hl] at hi
    have hwi := (h.wk i hi).same (hw i)
    refine ⟨by rw [e2]; exact hwi.outLe, hwi.fillLe, ?_, ?_, hwi.run⟩
    · intro hh
      have := hwi.has hh
      refine ⟨by rw [e1]; exact this.1, ?_, ?_⟩
      · obtain ⟨o, hoq, e⟩ := this.2.1
        obtain ⟨o', ho', x1, _⟩ := hq.mem' o hoq
        exact ⟨o', ho', x1.trans e⟩
      · intro o' ho' e'
        obtain ⟨o, hoq, x1, x2, x3, _⟩ := hq.mem o' ho'
        have := this.2.2 o hoq (x1.symm.trans e')
        rw [x3, x2]; exact this
    · have := hwi.pcInv
      revert this
      cases (getW s' i).pc <;> simp [e1, e2]
  · intro a b ha hb' hab h1 h2
    rw [hl] at ha hb'
    rw [(hw a).2.2.1, (hw b).2.2.1]
    exact h.distinct a b ha hb' hab ((hw a).2.2.2.2.2.2.2.2.1 ▸ h1) ((hw b).2.2.2.2.2.2.2.2.1 ▸ h2)
  · intro i hi
    rw [hf] at hi
    have := h.free i hi
    obtain ⟨x1, x2, _, _, _, _, _, _, x9, x10⟩ := hw i
    rw [hl, x9, x2, x10, x1]; exact this
  · intro hne
    rw [hp] at hne
    have := h.dirQ hne
    have hlen := hq.length
    rw [this] at hlen
    exact List.eq_nil_of_length_eq_zero (by simpa using hlen)

/-- What a step inside the coder->mutex critical section of read_output_and_wait leaves alone. -/
structure RowFrame (s s' : State) : Prop where
  blocks : s'.blocks = s.blocks
  cfg : s'.cfg = s.cfg
  cur : s'.cur = s.cur
  pc : s'.pc = s.pc
  seq : s'.seq = s.seq
  directPos : s'.directPos = s.directPos
  thr : s'.thr = s.thr
  threadsFree : s'.threadsFree = s.threadsFree
  threadError : s'.threadError = s.threadError
  returned : s'.returned = s.returned
  memInUse : s'.memInUse = s.memInUse
  wlen : s'.workers.length = s.workers.length
  wsame : ∀ j, WSame (getW s j) (getW s' j)

theorem RowFrame.refl (s : State) : RowFrame s s :=
  ⟨rfl, rfl, rfl, rfl, rfl, rfl, rfl, rfl, rfl, rfl, rfl, rfl, fun j => WSame.refl _⟩

theorem RowFrame.trans {a b c : State} (h1 : RowFrame a b) (h2 : RowFrame b c) : RowFrame a c :=
  ⟨h2.blocks.trans h1.blocks, h2.cfg.trans h1.cfg, h2.cur.trans h1.cur, h2.pc.trans h1.pc, h2.seq.trans h1.seq,
   h2.directPos.trans h1.directPos, h2.thr.trans h1.thr, h2.threadsFree.trans h1.threadsFree,
   h2.threadError.trans h1.threadError, h2.returned.trans h1.returned, h2.memInUse.trans h1.memInUse,
   h2.wlen.trans h1.wlen, fun j => (h1.wsame j).trans (h2.wsame j)⟩

theorem getW_setW_any (s : State) (i j : Nat) (w : Worker) :
    getW (MtDec.setW s i w) j = if i = j ∧ i < s.workers.length then w else getW s j := by
  by_cases hi : i < s.workers.length
  · rw [getW_setW s i j w hi]; simp [hi]
  · have : MtDec.setW s i w = s := by
      simp only [MtDec.setW]
      rw [List.set_eq_of_length_le (by omega)]
    rw [this]; simp [hi]

theorem enablePartialHead_spec (s : State) :
    RowFrame s (enablePartialHead s) ∧ QSame s.queue (enablePartialHead s).queue ∧
    (enablePartialHead s).outRev = s.outRev ∧ (enablePartialHead s).readPos = s.readPos ∧
    (enablePartialHead s).outCap = s.outCap := by
  unfold enablePartialHead
  split
  · rename_i h t hq
    split
    · split
      · rename_i w hw
        refine ⟨⟨rfl, rfl, rfl, rfl, rfl, rfl, rfl, rfl, rfl, rfl, rfl, by simp, ?_⟩, ?_, rfl, rfl, rfl⟩
        · intro j
          show WSame (getW s j) (getW (MtDec.setW s w _) j)
          rw [getW_setW_any]
          split
          · rename_i hj; obtain ⟨rfl, _⟩ := hj
            exact ⟨rfl, rfl, rfl, rfl, rfl, rfl, rfl, rfl, rfl, rfl⟩
          · exact WSame.refl _
        · show QSame s.queue ({ h with worker := none } :: t)
          rw [hq]; exact ⟨rfl, rfl, rfl, rfl, rfl, QSame.refl t⟩
      · exact ⟨RowFrame.refl s, QSame.refl _, rfl, rfl, rfl⟩
    · exact ⟨RowFrame.refl s, QSame.refl _, rfl, rfl, rfl⟩
  · exact ⟨RowFrame.refl s, QSame.refl _, rfl, rfl, rfl⟩

theorem DataInv.enablePartialHead {s : State} (h : DataInv s) : DataInv (enablePartialHead s) := by
  obtain ⟨f, q, o, r, _⟩ := enablePartialHead_spec s
  exact h.same f.blocks f.cur q o r f.directPos f.wlen f.wsame f.threadsFree

/-- A failed Block has just been removed from the head of the queue: everything it produced has been delivered, so the
    delivered bytes and its verdict are exactly the single-threaded result. -/
structure BadPop (s' : State) (r : Ret) : Prop where
  ne : r ≠ END
  nok : r ≠ OK ∧ r ≠ TIMED_OUT
  final : (s'.delivered, r) = stRun s'.blocks

/-- lzma_outq_read copies from the head without removing it. -/
def readAdv (s : State) (h : Outbuf) : State :=
  let n := min s.outCap (h.pos - s.readPos)
  { s with outRev := ((blk s h.blk).data.drop s.readPos).take n :: s.outRev, readPos := s.readPos + n,
           outCap := s.outCap - n }

theorem readAdv_frame (s : State) (h : Outbuf) : RowFrame s (readAdv s h) :=
  ⟨rfl, rfl, rfl, rfl, rfl, rfl, rfl, rfl, rfl, rfl, rfl, rfl, fun _ => WSame.refl _⟩

theorem DataInv.readAdv {s : State} (h : DataInv s) (a : Outbuf) (t : List Outbuf) (hq : s.queue = a :: t) :
    DataInv (readAdv s a) := by
  have hr := h.readLe
  rw [hq] at hr
  have hn : s.readPos + min s.outCap (a.pos - s.readPos) ≤ a.pos := by omega
  refine { wf := h.wf, curLe := h.curLe, lenLe := h.lenLe, consec := h.consec, good := h.good, deliv := ?_,
           posLe := h.posLe, readLe := ?_, fin := h.fin,
           wk := fun i hi => WInv.congr (s := s) rfl rfl (h.wk i hi), distinct := h.distinct, free := h.free,
           freeNodup := h.freeNodup, dirLe := h.dirLe, dirQ := h.dirQ }
  · have e0 : (MtDec.readAdv s a).delivered = s.delivered ++
        ((blk s a.blk).data.drop s.readPos).take (min s.outCap (a.pos - s.readPos)) := delivered_push s _
    have e1 : partialOut s = (blk s a.blk).data.take s.readPos := by simp [partialOut, hq]
    have e2 : partialOut (MtDec.readAdv s a) =
        (blk s a.blk).data.take (s.readPos + min s.outCap (a.pos - s.readPos)) := by
      simp [partialOut, MtDec.readAdv, hq, blk]
    have e3 : hd (MtDec.readAdv s a) = hd s := rfl
    rw [e0, e2, e3, h.deliv, e1, List.take_add, List.append_assoc]
    rfl
  · show match s.queue with | hh :: _ => s.readPos + min s.outCap (a.pos - s.readPos) ≤ hh.pos | [] => _
    rw [hq]; exact hn

/-- The finished head is removed. -/
def popHead (s : State) (t : List Outbuf) : State := { s with queue := t, readPos := 0 }

theorem popHead_frame (s : State) (t : List Outbuf) : RowFrame s (popHead s t) :=
  ⟨rfl, rfl, rfl, rfl, rfl, rfl, rfl, rfl, rfl, rfl, rfl, rfl, fun _ => WSame.refl _⟩

theorem pop_delivered {s : State} (h : DataInv s) (a : Outbuf) (t : List Outbuf) (hq : s.queue = a :: t)
    (hfin : a.finished = true) (hrp : s.readPos = a.pos) :
    a.blk = hd s ∧ hd s < s.blocks.length ∧ s.delivered = outOf s.blocks (hd s + 1) := by
  have hc := h.consec
  rw [hq] at hc
  simp only [Consec] at hc
  have hlen := h.lenLe
  have hcl := h.curLe
  have hlt : hd s < s.blocks.length := by
    have : s.queue.length = t.length + 1 := by simp [hq]
    unfold hd; omega
  refine ⟨hc.1, hlt, ?_⟩
  have hp := (h.fin a (by simp [hq]) hfin).1
  have e1 : partialOut s = (blk s (hd s)).data := by
    simp only [partialOut, hq]
    rw [hc.1, hrp, hp, hc.1]
    exact List.take_length
  rw [h.deliv, e1, outOf_succ s.blocks (hd s) hlt]
  rfl

theorem DataInv.popGood {s : State} (h : DataInv s) (a : Outbuf) (t : List Outbuf) (hq : s.queue = a :: t)
    (hfin : a.finished = true) (hrp : s.readPos = a.pos) (hend : a.finishRet = END) : DataInv (popHead s t) := by
  obtain ⟨hab, hlt, hdel⟩ := pop_delivered h a t hq hfin hrp
  have hc := h.consec
  rw [hq] at hc
  simp only [Consec] at hc
  have hlen := h.lenLe
  have hql : s.queue.length = t.length + 1 := by simp [hq]
  have hhd' : hd (MtDec.popHead s t) = hd s + 1 := by
    simp only [hd, MtDec.popHead]; unfold hd at *; omega
  have hdz : s.directPos = 0 := by
    by_cases e : s.directPos = 0
    · exact e
    · have := h.dirQ e; rw [hq] at this; cases this
  have hmem : ∀ o ∈ t, o ∈ s.queue := fun o ho => by rw [hq]; exact List.mem_cons_of_mem _ ho
  refine { wf := h.wf, curLe := h.curLe, lenLe := by simp only [MtDec.popHead]; omega,
           consec := by rw [hhd']; exact hc.2, good := ?_, deliv := ?_,
           posLe := fun o ho => h.posLe o (hmem o ho), readLe := ?_, fin := fun o ho => h.fin o (hmem o ho), wk := ?_,
           distinct := h.distinct, free := h.free, freeNodup := h.freeNodup,
           dirLe := by show s.directPos ≤ _; rw [hdz]; exact Nat.zero_le _, dirQ := fun x => absurd hdz x }
  · intro j hj
    rw [hhd'] at hj
    by_cases e : j < hd s
    · exact h.good j e
    · have : j = hd s := by omega
      subst this
      have := (h.fin a (by simp [hq]) hfin).2
      show (blk s (hd s)).ret = END
      rw [← hab, ← this]; exact hend
  · have e4 : (MtDec.popHead s t).delivered = s.delivered := rfl
    have e5 : partialOut (MtDec.popHead s t) = [] := by
      simp only [partialOut, MtDec.popHead]
      cases t <;> simp [hdz]
    rw [e4, hhd', e5, List.append_nil]; exact hdel
  · show match (MtDec.popHead s t).queue with | hh :: _ => (MtDec.popHead s t).readPos ≤ hh.pos | [] => (MtDec.popHead s t).readPos = 0
    simp only [MtDec.popHead]
    split <;> simp
  · intro i hi
    have hwi := h.wk i hi
    refine ⟨hwi.outLe, hwi.fillLe, ?_, hwi.pcInv, hwi.run⟩
    intro hh
    have h3 := hwi.has hh
    refine ⟨h3.1, ?_, fun o ho e => h3.2.2 o (hmem o ho) e⟩
    obtain ⟨o, ho, e⟩ := h3.2.1
    rw [hq] at ho
    rcases List.mem_cons.mp ho with rfl | ho
    · have := (h3.2.2 o (by simp [hq]) e).1
      rw [hfin] at this; cases this
    · exact ⟨o, ho, e⟩

theorem badPop {s : State} (h : DataInv s) (a : Outbuf) (t : List Outbuf) (hq : s.queue = a :: t)
    (hfin : a.finished = true) (hrp : s.readPos = a.pos) (hend : a.finishRet ≠ END) :
    BadPop (popHead s t) a.finishRet := by
  obtain ⟨hab, hlt, hdel⟩ := pop_delivered h a t hq hfin hrp
  have hret := (h.fin a (by simp [hq]) hfin).2
  have hwf := blk_wf h a.blk
  refine ⟨hend, by rw [hret]; exact ⟨hwf.1, hwf.2.1⟩, ?_⟩
  have hbad : (s.blocks.getD (hd s) default).ret ≠ END := by
    have : blk s (hd s) = s.blocks.getD (hd s) default := rfl
    rw [← this, ← hab, ← hret]; exact hend
  have := stRun_bad s.blocks (hd s) hlt h.good hbad
  show (s.delivered, a.finishRet) = stRun s.blocks
  rw [this, hdel, outOf_succ s.blocks (hd s) hlt, hret, hab]
  rfl

theorem outqRead_eq (s : State) :
    outqRead s = match s.queue with
      | [] => (s, OK)
      | h :: t => if (!h.finished || decide ((readAdv s h).readPos < h.pos)) = true then (readAdv s h, OK)
                  else (popHead (readAdv s h) t, h.finishRet) := by
  unfold outqRead
  split <;> rename_i hq <;> (conv => rhs; rw [hq]) <;> rfl

/-- Result of one lzma_outq_read. -/
theorem outqRead_spec {s : State} (h : DataInv s) :
    RowFrame s (outqRead s).1 ∧
    ((outqRead s).2 = OK ∨ (outqRead s).2 = END → DataInv (outqRead s).1) ∧
    ((outqRead s).2 ≠ OK → (outqRead s).2 ≠ END → BadPop (outqRead s).1 (outqRead s).2) := by
  rw [outqRead_eq]
  split
  · exact ⟨RowFrame.refl s, fun _ => h, fun x => absurd rfl x⟩
  · rename_i a t hq
    have h1 := h.readAdv a t hq
    have hq1 : (readAdv s a).queue = a :: t := hq
    split
    · exact ⟨readAdv_frame s a, fun _ => h1, fun x => absurd rfl x⟩
    · rename_i hc
      simp only [Bool.or_eq_true, Bool.not_eq_true', decide_eq_true_eq, not_or, Bool.not_eq_false, Nat.not_lt] at hc
      have hr := h1.readLe
      rw [hq1] at hr
      have hrp : (readAdv s a).readPos = a.pos := Nat.le_antisymm hr hc.2
      refine ⟨(readAdv_frame s a).trans (popHead_frame _ t), ?_, ?_⟩
      · intro hx
        rcases hx with hx | hx
        · exfalso
          have := (h1.fin a (by simp [hq1]) hc.1).2
          have hwf := blk_wf h1 a.blk
          exact hwf.1 (this ▸ hx)
        · exact h1.popGood a t hq1 hc.1 hrp hx
      · intro _ hne
        exact badPop h1 a t hq1 hc.1 hrp hne

/-- The inner read loop: either it ends with LZMA_OK in a state satisfying the data invariant, or it removed a failed
    Block and returns that Block's verdict. -/
theorem readLoop_spec (fuel : Nat) : ∀ {s : State}, DataInv s →
    RowFrame s (readLoop fuel s).1 ∧ (readLoop fuel s).2 ≠ END ∧
    ((readLoop fuel s).2 = OK → DataInv (readLoop fuel s).1) ∧
    ((readLoop fuel s).2 ≠ OK → BadPop (readLoop fuel s).1 (readLoop fuel s).2) := by
  induction fuel with
  | zero => intro s h; exact ⟨RowFrame.refl s, by simp [readLoop, OK, END], fun _ => h, fun x => absurd rfl x⟩
  | succ fuel ih =>
    intro s h
    obtain ⟨f1, d1, b1⟩ := outqRead_spec h
    simp only [readLoop]
    split
    · rename_i hend
      have hD := (d1 (Or.inr hend)).enablePartialHead
      obtain ⟨f2, r2, d2, b2⟩ := ih hD
      exact ⟨(f1.trans (enablePartialHead_spec _).1).trans f2, r2, d2, b2⟩
    · rename_i hne
      refine ⟨f1, hne, fun hok => d1 (Or.inl hok), fun hnok => b1 hnok hne⟩

end XzVerif.MtDec
