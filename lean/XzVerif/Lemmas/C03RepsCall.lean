/-
  The rep-register invariant `RepsOk` (Lemmas/C03Reps.lean) and the dictionary position invariant `PosInv` through ONE CALL of
  `lzma_decode` (`Lzma.lzmaCall`) when the end-of-payload marker is not allowed (known uncompressed size, `allow_eopm = false`,
  `eopm_is_valid = false` — the configuration LZMA2 chunks run in):

    * the symbol decoder proper leaves `eopm_is_valid` and the saved sequence alone and can only exit with "input ran out",
      LZMA_DATA_ERROR, or — only if the end marker is valid — LZMA_STREAM_END (`sate_decodeSymbol`);
    * the top of the loop (`symPrelude`) cannot switch `eopm_is_valid` on when `allow_eopm` is false;
    * the output step keeps `RepsOk`/`PosInv` also when it stops half way (dictionary limit reached);
    * hence the whole call ends either "stuck" (input exhausted / data error: no further symbol is ever decoded) or in a
      state that satisfies `RepsOk` again.
-/
import XzVerif.Lemmas.C03Reps
import XzVerif.Lemmas.C03Call

namespace XzVerif.Lzma
open XzVerif.RangeDec XzVerif.LzDict

/-! ### exits of the symbol decoder -/

/-- fields the symbol decoder proper never touches and `Fr` does not list -/
structure Fe (s s' : St) : Prop where
  eopmValid : s'.eopmValid = s.eopmValid
  pending : s'.pending = s.pending

theorem Fe.refl (s : St) : Fe s s := ⟨rfl, rfl⟩
theorem Fe.trans {a b c : St} (h1 : Fe a b) (h2 : Fe b c) : Fe a c :=
  ⟨h2.eopmValid.trans h1.eopmValid, h2.pending.trans h1.pending⟩
theorem Fc.toFe {s s' : St} (h : Fc s s') : Fe s s' := ⟨h.eopmValid, h.pending⟩

/-- `SatE x E`: `x` keeps `Fe`, and every exit it takes is in the class `E`. -/
def SatE {α : Type} (x : M α) (E : Exit → Prop) : Prop :=
  ∀ s, Fe s (resSt (x s)) ∧ ∀ e s', x s = .error e s' → E e

theorem SatE.ofSatC {α} {x : M α} {T : α → Prop} {E : Exit → Prop} (h : SatC x T) (hE : E .needInput) : SatE x E :=
  fun s => ⟨(h s).1.toFe, fun e s' he => by rw [(h s).2.2 e s' he]; exact hE⟩

theorem SatE.pure {α} (a : α) {E : Exit → Prop} : SatE (pure a : M α) E := by
  intro s
  refine ⟨Fe.refl s, ?_⟩
  intro e s' h
  have : (EStateM.Result.ok a s : EStateM.Result Exit St α) = .error e s' := h
  cases this

theorem SatE.throw {α} (e : Exit) {E : Exit → Prop} (he : E e) : SatE (throw e : M α) E := by
  intro s
  refine ⟨Fe.refl s, ?_⟩
  intro e' s' h
  have : (EStateM.Result.error e s : EStateM.Result Exit St α) = .error e' s' := h
  injection this with h1 _
  rw [← h1]; exact he

/-- nothing after a `throw` matters -/
theorem SatE.throw_bind {α β} (e : Exit) (f : α → M β) {E : Exit → Prop} (he : E e) : SatE ((MonadExcept.throw e : M α) >>= f) E := by
  intro s
  refine ⟨Fe.refl s, ?_⟩
  intro e' s' h
  have : (EStateM.Result.error e s : EStateM.Result Exit St β) = .error e' s' := h
  injection this with h1 _
  rw [← h1]; exact he

theorem SatE.bind {α β} {x : M α} {f : α → M β} {E : Exit → Prop}
    (hx : SatE x E) (hf : ∀ a, SatE (f a) E) : SatE (x >>= f) E := by
  intro s
  have h1 := hx s
  show Fe s (resSt (EStateM.bind x f s)) ∧ (∀ e s', EStateM.bind x f s = .error e s' → E e)
  unfold EStateM.bind
  cases hxs : x s with
  | ok a s1 =>
    rw [hxs] at h1
    have h2 := hf a s1
    exact ⟨h1.1.trans h2.1, h2.2⟩
  | error e s1 =>
    rw [hxs] at h1
    refine ⟨h1.1, ?_⟩
    intro e' s' h
    exact h1.2 e' s' (by simpa using h)

theorem SatE.read {α} (g : St → α) {E : Exit → Prop} : SatE (fun s => EStateM.Result.ok (g s) s : M α) E := by
  intro s
  refine ⟨Fe.refl s, ?_⟩
  intro e s' h; cases h

theorem SatE.modify (f : St → St) (h : ∀ s, Fe s (f s)) {E : Exit → Prop} : SatE (modify f : M PUnit) E := by
  intro s
  refine ⟨h s, ?_⟩
  intro e s' h'
  have : (EStateM.Result.ok PUnit.unit (f s) : EStateM.Result Exit St PUnit) = .error e s' := h'
  cases this

/-- the exits one symbol decode can take -/
def SymExit (ev : Bool) (e : Exit) : Prop := e = .needInput ∨ e = .dataError ∨ (e = .streamEnd ∧ ev = true)

/-- ONE SYMBOL: `eopm_is_valid` and the saved sequence are untouched; the decode ends normally, or because the input ran
    out, or with LZMA_DATA_ERROR, or — only when the end marker is valid — with LZMA_STREAM_END. -/
theorem sate_decodeSymbol (ev : Bool) : SatE (decodeSymbol ev) (SymExit ev) := by
  have rc : ∀ {α} {x : M α} {T : α → Prop}, SatC x T → SatE x (SymExit ev) := fun h => SatE.ofSatC h (Or.inl rfl)
  have md : ∀ f : St → St, (∀ s, Fe s (f s)) → SatE (modify f : M PUnit) (SymExit ev) := fun f h => SatE.modify f h
  unfold decodeSymbol
  refine SatE.bind (SatE.read _) (fun t => ?_)
  obtain ⟨state, posState, full⟩ := t
  simp only []
  refine SatE.bind (rc (satc_rcBit _)) (fun isMatch => ?_)
  split
  · -- literal
    refine SatE.bind (SatE.read _) (fun base => ?_)
    split
    · refine SatE.bind (md _ (fun s => ⟨rfl, rfl⟩)) (fun _ => ?_)
      exact SatE.bind (rc (satc_bittree _ _ _)) (fun sym => SatE.pure _)
    · refine SatE.bind (md _ (fun s => ⟨rfl, rfl⟩)) (fun _ => ?_)
      refine SatE.bind (SatE.read _) (fun mb => ?_)
      exact SatE.bind (rc (satc_litMatched _ _ _ _ _)) (fun sym => SatE.pure _)
  · refine SatE.bind (rc (satc_rcBit _)) (fun isRep => ?_)
    split
    · -- simple match
      refine SatE.bind (md _ (fun s => ⟨rfl, rfl⟩)) (fun _ => ?_)
      refine SatE.bind (rc (satc_lenDecode _ _)) (fun len => ?_)
      refine SatE.bind (rc (satc_distDecode _)) (fun d => ?_)
      refine SatE.bind (md _ (fun s => ⟨rfl, rfl⟩)) (fun _ => ?_)
      split
      · -- end marker
        split
        · exact SatE.throw_bind _ _ (Or.inr (Or.inl rfl))
        · next hev =>
          have hev' : ev = true := by cases ev <;> simp_all
          refine SatE.bind (rc satc_rcNormalize) (fun _ => ?_)
          refine SatE.bind (SatE.read _) (fun fin => ?_)
          split
          · exact SatE.throw _ (Or.inr (Or.inr ⟨rfl, hev'⟩))
          · exact SatE.throw _ (Or.inr (Or.inl rfl))
      · split
        · exact SatE.throw _ (Or.inr (Or.inl rfl))
        · exact SatE.pure _
    · -- repeated match
      split
      · exact SatE.throw _ (Or.inr (Or.inl rfl))
      · refine SatE.bind (rc (satc_rcBit _)) (fun isRep0 => ?_)
        refine SatE.bind ?_ (fun isShort => ?_)
        · split
          · exact SatE.bind (rc (satc_rcBit _)) (fun isLong => SatE.pure _)
          · refine SatE.bind (rc (satc_rcBit _)) (fun isRep1 => ?_)
            split
            · exact SatE.bind (md _ (fun s => ⟨rfl, rfl⟩)) (fun _ => SatE.pure _)
            · refine SatE.bind (rc (satc_rcBit _)) (fun isRep2 => ?_)
              split
              · exact SatE.bind (md _ (fun s => ⟨rfl, rfl⟩)) (fun _ => SatE.pure _)
              · exact SatE.bind (md _ (fun s => ⟨rfl, rfl⟩)) (fun _ => SatE.pure _)
        · split
          · exact SatE.bind (md _ (fun s => ⟨rfl, rfl⟩)) (fun _ => SatE.pure _)
          · refine SatE.bind (md _ (fun s => ⟨rfl, rfl⟩)) (fun _ => ?_)
            exact SatE.bind (rc (satc_lenDecode _ _)) (fun len => SatE.pure _)

/-! ### the top of the loop when the end marker is not allowed -/

/-- `SatP P x Q`: from a state satisfying `P`, `x` keeps `Fc` and a normal result satisfies `Q`. -/
def SatP {α : Type} (P : St → Prop) (x : M α) (Q : α → Prop) : Prop :=
  ∀ s, P s → Fc s (resSt (x s)) ∧ ∀ a s', x s = .ok a s' → Q a

theorem SatP.ofSatC {α} {P : St → Prop} {x : M α} {T : α → Prop} (h : SatC x T) : SatP P x T :=
  fun s _ => ⟨(h s).1, (h s).2.1⟩

theorem SatP.pure {α} {P : St → Prop} (a : α) {Q : α → Prop} (h : Q a) : SatP P (pure a : M α) Q := by
  intro s _
  refine ⟨Fc.refl s, ?_⟩
  intro b s' e
  have : (EStateM.Result.ok a s : EStateM.Result Exit St α) = .ok b s' := e
  injection this with h1 _
  exact h1 ▸ h

theorem SatP.throw {α} {P : St → Prop} (e : Exit) {Q : α → Prop} : SatP P (throw e : M α) Q := by
  intro s _
  refine ⟨Fc.refl s, ?_⟩
  intro b s' h
  have : (EStateM.Result.error e s : EStateM.Result Exit St α) = .ok b s' := h
  cases this

theorem SatP.read {α} {P : St → Prop} (g : St → α) {Q : α → Prop} (h : ∀ s, P s → Q (g s)) :
    SatP P (fun s => EStateM.Result.ok (g s) s : M α) Q := by
  intro s hp
  refine ⟨Fc.refl s, ?_⟩
  intro a s' e; injection e with h1 _; exact h1 ▸ h s hp

theorem SatP.bind {α β} {P : St → Prop} {x : M α} {f : α → M β} {R : α → Prop} {Q : β → Prop}
    (hP : ∀ s s', P s → Fc s s' → P s') (hx : SatP P x R) (hf : ∀ a, R a → SatP P (f a) Q) : SatP P (x >>= f) Q := by
  intro s hp
  have h1 := hx s hp
  show Fc s (resSt (EStateM.bind x f s)) ∧ (∀ b s', EStateM.bind x f s = .ok b s' → Q b)
  unfold EStateM.bind
  cases hxs : x s with
  | ok a s1 =>
    rw [hxs] at h1
    have h2 := hf a (h1.2 a s1 rfl) s1 (hP s s1 hp h1.1)
    exact ⟨h1.1.trans h2.1, h2.2⟩
  | error e s1 =>
    rw [hxs] at h1
    refine ⟨h1.1, ?_⟩
    intro b s' e'; cases e'

/-- With `allow_eopm = false` the top of the loop changes nothing but range-decoder fields and the input cursor, and when
    it goes on to the symbol it hands the caller's `eopm_is_valid` through unchanged. -/
theorem symPrelude_noEopm (ev mf : Bool) :
    SatP (fun s => s.allowEopm = false) (symPrelude ev mf) (fun a => a = ev) := by
  have hP : ∀ s s' : St, s.allowEopm = false → Fc s s' → s'.allowEopm = false := fun s s' h hf => by rw [hf.allowEopm]; exact h
  unfold symPrelude
  refine SatP.bind hP (SatP.read _ (Q := fun _ => True) (fun _ _ => trivial)) (fun atLimit _ => ?_)
  split
  · refine SatP.bind hP (SatP.ofSatC satc_rcNormalize) (fun _ _ => ?_)
    refine SatP.bind hP (SatP.read _ (Q := fun t => t.2 = false) (fun s h => h)) (fun t ht => ?_)
    obtain ⟨fin, allow⟩ := t
    simp only [] at ht ⊢
    split
    · exact SatP.throw _
    · split
      · exact SatP.throw _
      · next hna => subst ht; simp at hna
  · exact SatP.pure _ rfl

/-! ### the output step, also when it stops half way -/

/-- A state that differs from `s` by an advance of the dictionary position within the limit (and in fields the invariant
    does not mention) satisfies `RepsOk` and `PosInv` if `s` does: `full` only grows. -/
theorem advance_inv {s t : St} (n : Nat) (h : RepsOk s) (hp : PosInv s.dp) (hn : n ≤ s.dp.avail)
    (e1 : t.state = s.state) (e2 : t.rep0 = s.rep0) (e3 : t.rep1 = s.rep1) (e4 : t.rep2 = s.rep2) (e5 : t.rep3 = s.rep3)
    (e6 : t.dp = s.dp.advance n) : RepsOk t ∧ PosInv t.dp := by
  have hpi := posInv_advance hp n hn
  refine ⟨?_, by rw [e6]; exact hpi⟩
  have hfull : s.dp.full ≤ (s.dp.advance n).full := by
    unfold DictPos.advance
    simp only []
    cases hb : s.dp.hasWrapped
    · have := (hp.not_wrapped hb).2
      simp only [LZ_DICT_INIT_POS] at this ⊢
      simp; omega
    · simp
  unfold RepsOk ROv at h ⊢
  rw [e1, e2, e3, e4, e5, e6]
  obtain ⟨h0, h1, h2, h3, h4⟩ := h
  refine ⟨fun h7 => by have := h0 h7; omega, ?_, ?_, ?_, ?_⟩ <;> omega

/-- what a decoding call never changes about the configuration -/
structure Cf (s s' : St) : Prop where
  eopmValid : s'.eopmValid = s.eopmValid
  allowEopm : s'.allowEopm = s.allowEopm
  uncomp : s'.uncomp = s.uncomp
  l2 : s'.l2 = s.l2

theorem Cf.refl (s : St) : Cf s s := ⟨rfl, rfl, rfl, rfl⟩
theorem Cf.trans {a b c : St} (h1 : Cf a b) (h2 : Cf b c) : Cf a c :=
  ⟨h2.eopmValid.trans h1.eopmValid, h2.allowEopm.trans h1.allowEopm, h2.uncomp.trans h1.uncomp, h2.l2.trans h1.l2⟩
theorem Fc.toCf {s s' : St} (h : Fc s s') : Cf s s' := ⟨h.eopmValid, h.allowEopm, h.uncomp, h.l2⟩

/-- The output step (`dict_put_safe` / `dict_repeat`), whether it completes or stops at the dictionary limit, keeps
    `RepsOk` and `PosInv` and does not touch the configuration. -/
theorem doWrite_inv (p : Pending) (s : St) (h : RepsOk s) (hp : PosInv s.dp) :
    RepsOk (resSt (doWrite p s)) ∧ PosInv (resSt (doWrite p s)).dp ∧ Cf s (resSt (doWrite p s)) := by
  have one : s.dp.pos ≠ s.dp.limit → 1 ≤ s.dp.avail := by
    intro hne
    unfold DictPos.avail
    have := hp.pos_le_limit
    omega
  unfold doWrite
  cases p with
  | none => exact ⟨h, hp, Cf.refl s⟩
  | stuck => exact ⟨h, hp, Cf.refl s⟩
  | litWrite sym =>
    simp only []
    split
    · exact ⟨h, hp, Cf.refl s⟩
    · next hne =>
      have hne' : s.dp.pos ≠ s.dp.limit := by simpa using hne
      have := advance_inv (t := s.put (UInt8.ofNat sym)) 1 h hp (one hne') rfl rfl rfl rfl rfl rfl
      exact ⟨this.1, this.2, ⟨rfl, rfl, rfl, rfl⟩⟩
  | shortRep =>
    simp only []
    split
    · exact ⟨h, hp, Cf.refl s⟩
    · next hne =>
      have hne' : s.dp.pos ≠ s.dp.limit := by simpa using hne
      have := advance_inv (t := s.put (s.dictGet s.rep0)) 1 h hp (one hne') rfl rfl rfl rfl rfl rfl
      exact ⟨this.1, this.2, ⟨rfl, rfl, rfl, rfl⟩⟩
  | copy len =>
    simp only []
    have := advance_inv (t := s.repeatN (s.dp.repeatLeft len)) (s.dp.repeatLeft len) h hp
      (by unfold DictPos.repeatLeft; exact Nat.min_le_left _ _) rfl rfl rfl rfl rfl rfl
    split
    · exact ⟨this.1, this.2, ⟨rfl, rfl, rfl, rfl⟩⟩
    · exact ⟨this.1, this.2, ⟨rfl, rfl, rfl, rfl⟩⟩

/-! ### the main loop -/

/-- the ways a run can end after which decoding may continue -/
def GoodExit {α : Type} : EStateM.Result Exit St α → Prop
  | .ok _ _ => True
  | .error (.outFull _) _ => True
  | .error .streamEnd _ => True
  | _ => False

theorem GoodExit.error_cast {α β : Type} {e : Exit} {s : St}
    (h : GoodExit (.error e s : EStateM.Result Exit St α)) : GoodExit (.error e s : EStateM.Result Exit St β) := by
  cases e <;> first | exact trivial | cases h

/-- what a run from `s` guarantees about its final state -/
structure RunInv {α : Type} (s : St) (r : EStateM.Result Exit St α) : Prop where
  pos : PosInv (resSt r).dp
  cf : Cf s (resSt r)
  reps : GoodExit r → RepsOk (resSt r)

theorem symStep_inv (mf : Bool) (s : St) (h : RepsOk s) (hp : PosInv s.dp) (ha : s.allowEopm = false) :
    RunInv s (symStep false mf s) ∧ ∀ a s', symStep false mf s = .ok a s' → a = false := by
  have hpre := symPrelude_noEopm false mf s ha
  show RunInv s (EStateM.bind (symPrelude false mf) _ s) ∧ ∀ a s', EStateM.bind (symPrelude false mf) _ s = .ok a s' → a = false
  unfold EStateM.bind
  cases h1 : symPrelude false mf s with
  | error e s1 =>
    rw [h1] at hpre
    have hf : Fc s s1 := hpre.1
    refine ⟨⟨by show PosInv s1.dp; rw [hf.dp]; exact hp, hf.toCf, fun _ => ?_⟩, fun a s' e' => by cases e'⟩
    show RepsOk s1
    unfold RepsOk
    obtain ⟨c1, c2, c3, c4, c5⟩ := hf.core
    rw [hf.dp, c1, c2, c3, c4, c5]; exact h
  | ok ev' s1 =>
    rw [h1] at hpre
    have hf : Fc s s1 := hpre.1
    have hev : ev' = false := hpre.2 ev' s1 rfl
    subst hev
    have h1r : RepsOk s1 := by
      unfold RepsOk
      obtain ⟨c1, c2, c3, c4, c5⟩ := hf.core
      rw [hf.dp, c1, c2, c3, c4, c5]; exact h
    have h1p : PosInv s1.dp := by rw [hf.dp]; exact hp
    have hfr := (sat_decodeSymbol false s1).1
    have hfe := sate_decodeSymbol false s1
    show RunInv s (EStateM.bind (decodeSymbol false) _ s1) ∧ ∀ a s', EStateM.bind (decodeSymbol false) _ s1 = .ok a s' → a = false
    unfold EStateM.bind
    cases h2 : decodeSymbol false s1 with
    | error e s2 =>
      rw [h2] at hfr hfe
      have hfr' : Fr s1 s2 := hfr
      have hfe' : Fe s1 s2 := hfe.1
      have hex := hfe.2 e s2 rfl
      refine ⟨⟨by show PosInv s2.dp; rw [hfr'.dp]; exact h1p,
        hf.toCf.trans ⟨hfe'.eopmValid, hfr'.allowEopm, hfr'.uncomp, hfr'.l2⟩, fun hg => ?_⟩, fun a s' e' => by cases e'⟩
      rcases hex with he | he | ⟨_, he⟩
      · subst he; cases hg
      · subst he; cases hg
      · cases he
    | ok act s2 =>
      rw [h2] at hfr hfe
      have hfr' : Fr s1 s2 := hfr
      have hfe' : Fe s1 s2 := hfe.1
      have hsym := decodeSymbol_repsOk false s1 act s2 h1r h2
      have h2p : PosInv s2.dp := by rw [hsym.2.1]; exact h1p
      have hw := doWrite_inv act s2 hsym.1 h2p
      have hcf2 : Cf s s2 := hf.toCf.trans ⟨hfe'.eopmValid, hfr'.allowEopm, hfr'.uncomp, hfr'.l2⟩
      show RunInv s (EStateM.bind (doWrite act) _ s2) ∧ ∀ a s', EStateM.bind (doWrite act) _ s2 = .ok a s' → a = false
      unfold EStateM.bind
      cases h3 : doWrite act s2 with
      | error e s3 =>
        rw [h3] at hw
        exact ⟨⟨hw.2.1, hcf2.trans hw.2.2, fun _ => hw.1⟩, fun a s' e' => by cases e'⟩
      | ok u s3 =>
        rw [h3] at hw
        refine ⟨⟨hw.2.1, hcf2.trans hw.2.2, fun _ => hw.1⟩, fun a s' e' => ?_⟩
        have : (EStateM.Result.ok false s3 : EStateM.Result Exit St Bool) = .ok a s' := e'
        injection this with h5 _
        exact h5.symm

theorem symLoop_inv (mf : Bool) : ∀ (fuel : Nat) (s : St), RepsOk s → PosInv s.dp → s.allowEopm = false →
    RunInv s (symLoop fuel false mf s)
  | 0, s, _, hp, _ => by
    unfold symLoop
    exact ⟨hp, Cf.refl s, fun hg => by cases hg⟩
  | fuel + 1, s, h, hp, ha => by
    unfold symLoop
    have hs := symStep_inv mf s h hp ha
    show RunInv s (EStateM.bind (symStep false mf) _ s)
    unfold EStateM.bind
    cases h1 : symStep false mf s with
    | error e s1 =>
      rw [h1] at hs
      exact ⟨hs.1.pos, hs.1.cf, fun hg => hs.1.reps (GoodExit.error_cast hg)⟩
    | ok ev' s1 =>
      rw [h1] at hs
      have hev : ev' = false := hs.2 ev' s1 rfl
      subst hev
      have hcf : Cf s s1 := hs.1.cf
      have ih := symLoop_inv mf fuel s1 (hs.1.reps trivial) hs.1.pos (by rw [hcf.allowEopm]; exact ha)
      exact ⟨ih.pos, hcf.trans ih.cf, ih.reps⟩

/-! ### one call of `lzma_decode` -/

theorem fc_rcReadInitN : ∀ n s, Fc s (resSt (rcReadInitN n s))
  | 0, s => Fc.refl s
  | n + 1, s => by
    unfold rcReadInitN
    split
    · dsimp only
      split
      · exact Fc.refl s
      · refine Fc.trans ?_ (fc_rcReadInitN n _)
        constructor
        · rfl
        · simp
        · intro _; simp only []; omega
        · rfl
        · rfl
        · rfl
        · rfl
        · rfl
        · rfl
        · exact ⟨rfl, rfl, rfl⟩
        · exact ⟨rfl, rfl, rfl, rfl, rfl⟩
        · rfl
        · rfl
    · exact Fc.refl s

/-- the LZMA2 chunk configuration: known uncompressed size, end marker not allowed -/
def NoEopm (s : St) : Prop := s.uncomp.isSome = true ∧ s.allowEopm = false ∧ s.eopmValid = false

/-- "no symbol will be decoded from this state any more, or the rep registers are valid" -/
def RepsOrStuck (s : St) : Prop := s.pending = .stuck ∨ RepsOk s

theorem repsOk_congr {s t : St} (h : RepsOk s) (e0 : t.dp.full = s.dp.full) (e1 : t.state = s.state) (e2 : t.rep0 = s.rep0)
    (e3 : t.rep1 = s.rep1) (e4 : t.rep2 = s.rep2) (e5 : t.rep3 = s.rep3) : RepsOk t := by
  unfold RepsOk at h ⊢
  rw [e0, e1, e2, e3, e4, e5]; exact h

theorem posInv_limit {p : DictPos} (h : PosInv p) (L : Nat) (h1 : p.pos ≤ L) (h2 : L ≤ p.size) :
    PosInv { p with limit := L } :=
  ⟨h.size_ge, h1, h2, h.full_le, h.not_wrapped, h.wrapped⟩

/-- the saved sequence after `lzma_decode`'s epilogue is "stuck" unless the run ended at an output step or at the end -/
theorem lzmaFinish_pending (r : EStateM.Result Exit St Unit) (cl st : Nat) (u : Option Nat) :
    (lzmaFinish r cl st u).2.pending = .stuck ∨ GoodExit r := by
  cases r with
  | ok a s => exact Or.inr trivial
  | error e s =>
    cases e with
    | outFull p => exact Or.inr trivial
    | streamEnd => exact Or.inr trivial
    | needInput =>
      left
      unfold lzmaFinish
      simp [exitRet, exitPending]
    | dataError =>
      left
      unfold lzmaFinish
      simp [exitRet, exitPending]
    | fuel =>
      left
      unfold lzmaFinish
      simp [exitRet, exitPending]

theorem lzmaFinish_fields (r : EStateM.Result Exit St Unit) (cl st : Nat) (u : Option Nat) :
    (lzmaFinish r cl st u).2.state = (resSt r).state ∧ (lzmaFinish r cl st u).2.rep0 = (resSt r).rep0
    ∧ (lzmaFinish r cl st u).2.rep1 = (resSt r).rep1 ∧ (lzmaFinish r cl st u).2.rep2 = (resSt r).rep2
    ∧ (lzmaFinish r cl st u).2.rep3 = (resSt r).rep3
    ∧ (lzmaFinish r cl st u).2.dp = { (resSt r).dp with limit := cl }
    ∧ (lzmaFinish r cl st u).2.allowEopm = (resSt r).allowEopm ∧ (lzmaFinish r cl st u).2.eopmValid = (resSt r).eopmValid
    ∧ (lzmaFinish r cl st u).2.uncomp = u.map (· - ((resSt r).hist.size - st)) := by
  unfold lzmaFinish
  exact ⟨rfl, rfl, rfl, rfl, rfl, rfl, rfl, rfl, rfl⟩

/-- ONE CALL of `lzma_decode` in the LZMA2 chunk configuration: the dictionary positions stay well formed, the configuration
    stays, and afterwards either no symbol will ever be decoded from this state again or `RepsOk` holds. -/
theorem lzmaCall_inv (s : St) (hp : PosInv s.dp) (hc : NoEopm s) (hr : RepsOrStuck s) :
    PosInv (lzmaCall s).2.dp ∧ NoEopm (lzmaCall s).2 ∧ RepsOrStuck (lzmaCall s).2 := by
  unfold lzmaCall
  split
  · exact ⟨hp, hc, hr⟩
  · next hns =>
    have hns' : s.pending ≠ .stuck := by simpa using hns
    have hreps : RepsOk s := by
      rcases hr with h | h
      · exact absurd h hns'
      · exact h
    have hfc := fc_rcReadInitN s.initLeft s
    unfold rcReadInit
    cases hri : rcReadInitN s.initLeft s with
    | error e s0 =>
      rw [hri] at hfc
      have hfc0 : Fc s s0 := hfc
      obtain ⟨c1, c2, c3, c4, c5⟩ := hfc0.core
      simp only []
      refine ⟨by rw [hfc0.dp]; exact hp, ?_, Or.inr ?_⟩
      · unfold NoEopm; rw [hfc0.uncomp, hfc0.allowEopm, hfc0.eopmValid]; exact hc
      · exact repsOk_congr hreps (by rw [hfc0.dp]) c1 c2 c3 c4 c5
    | ok b s0 =>
      rw [hri] at hfc
      have hfc0 : Fc s s0 := hfc
      obtain ⟨c1, c2, c3, c4, c5⟩ := hfc0.core
      have hc0 : NoEopm s0 := by unfold NoEopm; rw [hfc0.uncomp, hfc0.allowEopm, hfc0.eopmValid]; exact hc
      have hp0 : PosInv s0.dp := by rw [hfc0.dp]; exact hp
      have hr0 : RepsOk s0 := repsOk_congr hreps (by rw [hfc0.dp]) c1 c2 c3 c4 c5
      cases b with
      | false =>
        simp only []
        exact ⟨hp0, hc0, Or.inl rfl⟩
      | true =>
        simp only []
        -- the run under the clamped limit
        have hcl := clampedLimit_bounds s0 hp0.pos_le_limit
        have hwr := (lzmaRun_spec s0 hp0.pos_le_limit).1
        have hrun : RunInv ({ s0 with dp := { s0.dp with limit := clampedLimit s0 }, pending := .none } : St) (lzmaRun s0) := by
          unfold lzmaRun
          simp only []
          have hev : (s0.uncomp.isNone || s0.eopmValid) = false := by
            have h1 := hc0.1; have h3 := hc0.2.2
            cases hu : s0.uncomp with
            | none => rw [hu] at h1; simp at h1
            | some v => rw [h3]; simp
          rw [hev]
          generalize hs1 : ({ s0 with dp := { s0.dp with limit := clampedLimit s0 }, pending := .none } : St) = s1
          have r1 : RepsOk s1 := by rw [← hs1]; exact repsOk_congr hr0 rfl rfl rfl rfl rfl rfl
          have p1 : PosInv s1.dp := by
            rw [← hs1]
            exact posInv_limit hp0 _ hcl.1 (Nat.le_trans hcl.2 hp0.limit_le_size)
          have a1 : s1.allowEopm = false := by rw [← hs1]; exact hc0.2.1
          have hw := doWrite_inv s0.pending s1 r1 p1
          show RunInv s1 (EStateM.bind (doWrite s0.pending) _ s1)
          unfold EStateM.bind
          cases h1 : doWrite s0.pending s1 with
          | error e s2 =>
            rw [h1] at hw
            exact ⟨hw.2.1, hw.2.2, fun _ => hw.1⟩
          | ok u s2 =>
            rw [h1] at hw
            have hcf : Cf s1 s2 := hw.2.2
            have ih := symLoop_inv (mightFinish s0) (clampedLimit s0 - s0.dp.pos + 2) s2 hw.1 hw.2.1 (by rw [hcf.allowEopm]; exact a1)
            exact ⟨ih.pos, hcf.trans ih.cf, ih.reps⟩
        -- the epilogue
        have hfld := lzmaFinish_fields (lzmaRun s0) s0.dp.limit s0.hist.size s0.uncomp
        have hpend := lzmaFinish_pending (lzmaRun s0) s0.dp.limit s0.hist.size s0.uncomp
        generalize hfin : lzmaFinish (lzmaRun s0) s0.dp.limit s0.hist.size s0.uncomp = fin at hfld hpend
        obtain ⟨f1, f2, f3, f4, f5, f6, f7, f8, f9⟩ := hfld
        have hcf : Cf ({ s0 with dp := { s0.dp with limit := clampedLimit s0 }, pending := .none } : St) (resSt (lzmaRun s0)) := hrun.cf
        have hlim : (resSt (lzmaRun s0)).dp.limit = clampedLimit s0 := hwr.limit
        have hsize : (resSt (lzmaRun s0)).dp.size = s0.dp.size := hwr.size
        have hposR := hrun.pos
        refine ⟨?_, ?_, ?_⟩
        · rw [f6]
          refine posInv_limit hposR _ ?_ ?_
          · have := hposR.pos_le_limit; rw [hlim] at this; exact Nat.le_trans this hcl.2
          · rw [hsize]; exact hp0.limit_le_size
        · unfold NoEopm
          rw [f9, f7, f8, hcf.allowEopm, hcf.eopmValid]
          refine ⟨?_, hc0.2.1, hc0.2.2⟩
          have h1 := hc0.1
          cases hu : s0.uncomp with
          | none => rw [hu] at h1; simp at h1
          | some v => simp
        · rcases hpend with h | h
          · exact Or.inl h
          · right
            have := hrun.reps h
            exact repsOk_congr this (by rw [f6]) f1 f2 f3 f4 f5

end XzVerif.Lzma
