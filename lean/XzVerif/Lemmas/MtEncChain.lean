/-
  C06/C08 helper: the OUTPUT BYTES of a finished run of the threaded encoder are a function of
  (input, block_size, flush offsets, history of lzma_filters_update calls) — not of the thread count, the timeout, the
  schedule or the slicing of the application's calls.

  `C08.mtenc_deterministic` gives the Block data lists. Every Block is encoded as `P.enc b.ord b.chain b.data`, and `b.chain`
  is `cfg.chain` at the moment get_thread() started the Block; `Ev.update` changes `cfg.chain` between calls. `St` carries no
  record of the updates, so the history is kept here as a ghost component OUTSIDE the model (`Upd`, `gstep`, `GReach`):
  the initial chain of the current Stream and the successful updates as (input offset, new chain). The invariant `InvG`
  says that the chain of every Block is the chain in force (`chainAt`) at the Block's start offset.
-/
import XzVerif.Props.C08

namespace XzVerif.MtEnc

-- ---------------------------------------------------------------------------------------------------------------------
-- ghost: history of filter-chain updates of the current Stream
-- ---------------------------------------------------------------------------------------------------------------------

/-- `chain0`: filter chain the current Stream was initialised with; `upds`: the successful lzma_filters_update() calls in
    order, as (number of input bytes consumed at the time of the call, new chain). -/
structure Upd where
  chain0 : Nat
  upds : List (Nat × Nat)
  deriving DecidableEq, Repr

/-- The filter chain in force for a Block that starts at input offset `off`: the chain of the last update whose offset is
    `≤ off`, the initial chain if there is none. -/
def chainAt (g : Upd) (off : Nat) : Nat := g.upds.foldl (fun c u => if u.1 ≤ off then u.2 else c) g.chain0

/-- The ghost after the transition `s --e--> s'`. An update is recorded iff lzma_filters_update() returned LZMA_OK; the
    completed re-initialisation / lzma_end (`mJoin`) starts a new history. -/
def gnext (s : St) (g : Upd) (e : Ev) (s' : St) : Upd :=
  match e with
  | .update c => if s'.lastUpd = some OK then ⟨g.chain0, g.upds ++ [(s.consumed.length, c)]⟩ else g
  | .mJoin => ⟨s'.cfg.chain, []⟩
  | _ => g

def gstep (P : Params) (sg : St × Upd) (e : Ev) : Option (St × Upd) :=
  (step P sg.1 e).map fun s' => (s', gnext sg.1 sg.2 e s')

def grun (P : Params) (sg : St × Upd) : List Ev → Option (St × Upd)
  | [] => some sg
  | e :: es => (gstep P sg e).bind fun sg' => grun P sg' es

inductive GReach (P : Params) (c : Cfg) : St → Upd → Prop
  | init : GReach P c (initSt c P) ⟨c.chain, []⟩
  | step {s s' : St} {g g' : Upd} (e : Ev) : GReach P c s g → gstep P (s, g) e = some (s', g') → GReach P c s' g'

theorem gstep_some {P : Params} {s s' : St} {g g' : Upd} {e : Ev} (h : gstep P (s, g) e = some (s', g')) :
    step P s e = some s' ∧ g' = gnext s g e s' := by
  unfold gstep at h
  cases hs : step P s e with
  | none => simp [hs] at h
  | some t =>
    simp only [hs, Option.map_some, Option.some.injEq, Prod.mk.injEq] at h
    obtain ⟨rfl, rfl⟩ := h
    exact ⟨rfl, rfl⟩

theorem gstep_of_step {P : Params} {s s' : St} (g : Upd) {e : Ev} (h : step P s e = some s') :
    gstep P (s, g) e = some (s', gnext s g e s') := by
  simp [gstep, h]

/-- Forgetting the ghost: a ghost run is a run of the model. -/
theorem GReach.reachable {P : Params} {c : Cfg} {s : St} {g : Upd} (h : GReach P c s g) : Reachable P c s := by
  induction h with
  | init => exact Reachable.init
  | step e _ hs ih => exact Reachable.step e ih (gstep_some hs).1

/-- The ghost never blocks: every reachable state carries a history. -/
theorem Reachable.ghost {P : Params} {c : Cfg} {s : St} (h : Reachable P c s) : ∃ g, GReach P c s g := by
  induction h with
  | init => exact ⟨_, GReach.init⟩
  | step e _ hs ih =>
    obtain ⟨g, hg⟩ := ih
    exact ⟨_, GReach.step e hg (gstep_of_step g hs)⟩

theorem greach_grun {P : Params} {c : Cfg} {s s' : St} {g g' : Upd} (evs : List Ev) (hr : GReach P c s g)
    (h : grun P (s, g) evs = some (s', g')) : GReach P c s' g' := by
  induction evs generalizing s g with
  | nil => simp only [grun, Option.some.injEq, Prod.mk.injEq] at h; obtain ⟨rfl, rfl⟩ := h; exact hr
  | cons e es ih =>
    simp only [grun] at h
    cases hs : gstep P (s, g) e with
    | none => simp [hs] at h
    | some sg =>
      obtain ⟨t, gt⟩ := sg
      simp only [hs, Option.bind_some] at h
      exact ih (GReach.step e hr hs) h

/-- lzma_filters_update() is accepted exactly when no Block is open and the Index has not been started. -/
theorem mUpdate_ok {s s' : St} {c : Nat} (hs : mUpdate s c = some s') :
    (s'.lastUpd = some OK ↔ ¬(s.seq = .index ∨ s.seq = .ended ∨ s.thr)) := by
  unfold mUpdate at hs
  split at hs
  · split at hs <;> cases hs
    · rename_i h; simp [h, PROG_ERROR, OK]
    · rename_i h; simp [h]
  · cases hs

-- ---------------------------------------------------------------------------------------------------------------------
-- chainAt
-- ---------------------------------------------------------------------------------------------------------------------

theorem chainAt_nil (c off : Nat) : chainAt ⟨c, []⟩ off = c := rfl

theorem chainAt_snoc (c0 : Nat) (us : List (Nat × Nat)) (x c off : Nat) :
    chainAt ⟨c0, us ++ [(x, c)]⟩ off = if x ≤ off then c else chainAt ⟨c0, us⟩ off := by
  simp [chainAt, List.foldl_append]

-- ---------------------------------------------------------------------------------------------------------------------
-- the invariant
-- ---------------------------------------------------------------------------------------------------------------------

/-- Every Block of the list (the first one starting at input offset `off`) carries the chain in force at its start offset. -/
def chainsOk (g : Upd) : List Blk → Nat → Prop
  | [], _ => True
  | b :: r, off => b.chain = chainAt g off ∧ chainsOk g r (off + b.data.length)

theorem chainsOk_append (g : Upd) : ∀ (a b : List Blk) (off : Nat),
    chainsOk g (a ++ b) off ↔ chainsOk g a off ∧ chainsOk g b (off + doneIn a)
  | [], b, off => by simp [chainsOk, doneIn]
  | x :: r, b, off => by
    simp only [List.cons_append, chainsOk, chainsOk_append g r b (off + x.data.length), doneIn, List.map_cons, List.sum_cons]
    rw [Nat.add_assoc, and_assoc]

/-- `chainsOk` looks only at the chains and the data lengths. -/
theorem chainsOk_congr (g : Upd) : ∀ (a b : List Blk) (off : Nat), a.map (·.chain) = b.map (·.chain) →
    a.map (fun x => x.data.length) = b.map (fun x => x.data.length) → chainsOk g a off → chainsOk g b off
  | [], [], _, _, _, _ => trivial
  | [], _ :: _, _, h, _, _ => by simp at h
  | _ :: _, [], _, h, _, _ => by simp at h
  | x :: r, y :: r', off, hc, hl, h => by
    simp only [List.map_cons, List.cons.injEq] at hc hl
    simp only [chainsOk] at h ⊢
    rw [← hc.1, ← hl.1]
    exact ⟨h.1, chainsOk_congr g r r' _ hc.2 hl.2 h.2⟩

/-- Same history, same Block sizes: same chains. -/
theorem chainsOk_unique (g : Upd) : ∀ (a b : List Blk) (off : Nat), chainsOk g a off → chainsOk g b off →
    a.map (fun x => x.data.length) = b.map (fun x => x.data.length) → a.map (·.chain) = b.map (·.chain)
  | [], [], _, _, _, _ => rfl
  | [], _ :: _, _, _, _, h => by simp at h
  | _ :: _, [], _, _, _, h => by simp at h
  | x :: r, y :: r', off, h1, h2, hl => by
    simp only [List.map_cons, List.cons.injEq] at hl ⊢
    simp only [chainsOk] at h1 h2
    refine ⟨by rw [h1.1, h2.1], chainsOk_unique g r r' (off + x.data.length) h1.2 ?_ hl.2⟩
    rw [hl.1]; exact h2.2

/-- A new update at offset `x` does not change the chain in force at the start of any non-empty Block that ends at or before `x`. -/
theorem chainsOk_snoc (c0 : Nat) (us : List (Nat × Nat)) (x c : Nat) : ∀ (l : List Blk) (off : Nat),
    (∀ b ∈ l, 0 < b.data.length) → off + doneIn l ≤ x → chainsOk ⟨c0, us⟩ l off → chainsOk ⟨c0, us ++ [(x, c)]⟩ l off
  | [], _, _, _, _ => trivial
  | b :: r, off, hne, hle, h => by
    simp only [doneIn, List.map_cons, List.sum_cons] at hle
    have hb := hne b List.mem_cons_self
    simp only [chainsOk] at h ⊢
    refine ⟨?_, chainsOk_snoc c0 us x c r _ (fun b' hb' => hne b' (List.mem_cons_of_mem _ hb')) ?_ h.2⟩
    · rw [chainAt_snoc, if_neg (by omega)]; exact h.1
    · simp only [doneIn]; omega

/-- The ghost invariant: Block chains follow the history; the current chain is the one in force from the current input
    offset on; no update lies in the future. -/
structure InvG (s : St) (g : Upd) : Prop where
  blocks : chainsOk g (s.done ++ blks s.outq) 0
  cur : ∀ N, s.consumed.length ≤ N → s.cfg.chain = chainAt g N
  offs : ∀ u ∈ g.upds, u.1 ≤ s.consumed.length

theorem InvG_init (P : Params) (c : Cfg) (m : MPc) : InvG { (initSt c P) with mpc := m } ⟨c.chain, []⟩ :=
  ⟨by simp [initSt, blks, chainsOk], fun _ _ => rfl, by simp⟩

/-- What the invariant looks at. -/
structure GFrame (s t : St) : Prop where
  chain : t.cfg.chain = s.cfg.chain
  done : t.done = s.done
  blks : blks t.outq = blks s.outq
  consumed : t.consumed = s.consumed

theorem GFrame.refl (s : St) : GFrame s s := ⟨rfl, rfl, rfl, rfl⟩

theorem GFrame.trans {s t u : St} (a : GFrame s t) (b : GFrame t u) : GFrame s u :=
  ⟨b.chain.trans a.chain, b.done.trans a.done, b.blks.trans a.blks, b.consumed.trans a.consumed⟩

theorem GFrame_ret (s : St) (r : Ret) : GFrame s (ret s r) := by
  refine ⟨?_, ?_, ret_blks s r, ?_⟩ <;> (unfold ret; split <;> rfl)

theorem GFrame_ret' {s t : St} (r : Ret) (f : GFrame s t) : GFrame s (ret t r) := f.trans (GFrame_ret t r)

theorem GFrame_of_wframe {s s' : St} (f : WFrame s s') : GFrame s s' := ⟨by rw [f.cfg], f.done, f.blks, f.consumed⟩

theorem InvG_frame {s t : St} {g : Upd} (h : InvG s g) (f : GFrame s t) : InvG t g :=
  ⟨by rw [f.done, f.blks]; exact h.blocks, by rw [f.consumed, f.chain]; exact h.cur, by rw [f.consumed]; exact h.offs⟩

-- ---------------------------------------------------------------------------------------------------------------------
-- main-thread steps that leave (cfg.chain, done, blks outq, consumed) alone
-- ---------------------------------------------------------------------------------------------------------------------

theorem GFrame_mCall {s s' : St} {inp : Bytes} {cap : Nat} {act : Action} (hs : mCall s inp cap act = some s') : GFrame s s' := by
  unfold mCall at hs
  split at hs <;> cases hs
  exact ⟨rfl, rfl, rfl, rfl⟩

theorem GFrame_mHdr {P : Params} {s s' : St} (hs : mHdr P s = some s') : GFrame s s' := by
  unfold mHdr at hs
  split at hs
  · dsimp only at hs
    split at hs <;> cases hs
    · exact GFrame_ret' _ ⟨rfl, rfl, rfl, rfl⟩
    · exact ⟨rfl, rfl, rfl, rfl⟩
  · cases hs

theorem GFrame_mGetThreadErr {s s' : St} {r : Ret} (hs : mGetThreadErr s r = some s') : GFrame s s' := by
  unfold mGetThreadErr at hs
  split at hs <;> cases hs
  exact GFrame_ret _ _

theorem GFrame_mAfterIn {P : Params} {s s' : St} (hs : mAfterIn P s = some s') : GFrame s s' := by
  have hnf : GFrame s (noteFlush s) := ⟨rfl, rfl, rfl, rfl⟩
  unfold mAfterIn at hs
  split at hs
  · split at hs; · cases hs; exact GFrame_ret _ _
    split at hs; · cases hs; exact GFrame_ret' _ hnf
    split at hs; · cases hs; exact ⟨rfl, rfl, rfl, rfl⟩
    split at hs; · cases hs; exact GFrame_ret' _ hnf
    split at hs; · cases hs; exact GFrame_ret _ _
    cases hs; exact ⟨rfl, rfl, rfl, rfl⟩
  · cases hs

theorem GFrame_mWake {s s' : St} (hs : mWake s = some s') : GFrame s s' := by
  unfold mWake at hs
  split at hs
  · split at hs <;> cases hs <;> exact ⟨rfl, rfl, rfl, rfl⟩
  · cases hs

theorem GFrame_mSpurious {s s' : St} (hs : mSpurious s = some s') : GFrame s s' := by
  unfold mSpurious at hs
  split at hs <;> cases hs
  exact ⟨rfl, rfl, rfl, rfl⟩

theorem GFrame_mTimeout {s s' : St} (hs : mTimeout s = some s') : GFrame s s' := by
  unfold mTimeout at hs
  split at hs <;> cases hs
  exact GFrame_ret _ _

theorem GFrame_mTail {P : Params} {s s' : St} (hs : mTail P s = some s') : GFrame s s' := by
  unfold mTail at hs
  split at hs
  · dsimp only at hs
    split at hs <;> cases hs <;> exact GFrame_ret' _ ⟨rfl, rfl, rfl, rfl⟩
  · cases hs

theorem GFrame_mEnd {s s' : St} {p : Option Cfg} (hs : mEnd s p = some s') : GFrame s s' := by
  unfold mEnd at hs
  split at hs <;> cases hs
  exact ⟨rfl, rfl, rfl, rfl⟩

-- ---------------------------------------------------------------------------------------------------------------------
-- mRead: the head of the queue moves to `done`
-- ---------------------------------------------------------------------------------------------------------------------

theorem InvG_mRead {P : Params} {s s' : St} {g : Upd} (h : InvG s g) (hs : mRead P s = some s') : InvG s' g := by
  unfold mRead at hs
  split at hs
  · split at hs
    · cases hs; exact InvG_frame h (GFrame_ret _ _)
    · split at hs
      · cases hs; exact InvG_frame h ⟨rfl, rfl, rfl, rfl⟩
      · rename_i e rest hcons
        split at hs
        · cases hs; exact InvG_frame h ⟨rfl, rfl, rfl, rfl⟩
        · dsimp only at hs
          split at hs
          · cases hs; exact InvG_frame h ⟨rfl, rfl, rfl, rfl⟩
          · cases hs
            refine ⟨?_, h.cur, h.offs⟩
            have := h.blocks
            rw [hcons] at this
            simpa [blks, List.append_assoc] using this
  · cases hs

-- ---------------------------------------------------------------------------------------------------------------------
-- mEncIn: get_thread() starts a Block with the current chain at the current offset; the copy branch extends the last Block
-- ---------------------------------------------------------------------------------------------------------------------

theorem consumed_length {P : Params} {s : St} (hC : InvC P s) : s.consumed.length = doneIn (s.done ++ blks s.outq) := by
  rw [hC.cons, List.length_append, datas_length, datas_length]
  simp [doneIn]

theorem InvG_mEncIn {P : Params} {s s' : St} {g : Upd} (h : InvG s g) (hC : InvC P s) (hs : mEncIn s = some s') : InvG s' g := by
  unfold mEncIn at hs
  split at hs
  · split at hs; · cases hs; exact InvG_frame h ⟨rfl, rfl, rfl, rfl⟩
    split at hs
    · split at hs; · cases hs; exact InvG_frame h ⟨rfl, rfl, rfl, rfl⟩
      have newE : ∀ (t : St) (ne : Entry), ne.chain = s.cfg.chain → t.outq = s.outq ++ [ne] → t.cfg = s.cfg →
          t.done = s.done → t.consumed = s.consumed → InvG t g := by
        intro t ne h1 h2 h3 h4 h5
        refine ⟨?_, by rw [h5, h3]; exact h.cur, by rw [h5]; exact h.offs⟩
        rw [h4, h2, blks_append, ← List.append_assoc, chainsOk_append]
        refine ⟨h.blocks, ?_, trivial⟩
        rw [← consumed_length hC, Nat.zero_add]
        show ne.chain = _
        rw [h1]; exact h.cur _ (Nat.le_refl _)
      split at hs
      · cases hs; exact newE _ _ rfl rfl rfl rfl rfl
      · split at hs
        · cases hs; exact newE _ _ rfl rfl rfl rfl rfl
        · cases hs; exact InvG_frame h ⟨rfl, rfl, rfl, rfl⟩
    · split at hs; · cases hs
      rename_i e hl
      have hqe := eq_dropLast_append hl
      dsimp only at hs
      split at hs
      · cases hs; exact InvG_frame h (GFrame_ret' _ ⟨rfl, rfl, rfl, rfl⟩)
      · split at hs
        · cases hs; exact InvG_frame h (GFrame_ret' _ ⟨rfl, rfl, rfl, rfl⟩)
        · cases hs
          refine ⟨?_, ?_, ?_⟩
          · dsimp only
            have hb := h.blocks
            conv at hb => arg 2; rw [hqe]
            rw [blks_append, ← List.append_assoc, chainsOk_append] at hb ⊢
            exact ⟨hb.1, hb.2.1, trivial⟩
          · dsimp only
            intro N hN
            rw [List.length_append] at hN
            exact h.cur N (by omega)
          · dsimp only
            intro u hu
            have := h.offs u hu
            rw [List.length_append]; omega
  · cases hs

-- ---------------------------------------------------------------------------------------------------------------------
-- mUpdate
-- ---------------------------------------------------------------------------------------------------------------------

theorem cutsOk_pos {bs : Nat} {F : List Nat} : ∀ (sh : Shape) (off : Nat), cutsOk bs F sh off → ∀ x ∈ sh, x.1 = true → 0 < x.2
  | [], _, _, x, hx, _ => by simp at hx
  | (c, l) :: r, off, ⟨_, h2, h3⟩, x, hx, hc => by
    rcases List.mem_cons.mp hx with rfl | hx
    · exact (h2 hc).1
    · exact cutsOk_pos r _ h3 x hx hc

/-- With no Block open every Block started so far is closed, hence non-empty. -/
theorem all_nonempty {s : St} (hB : InvB s) (hK : InvK s) (ht : s.thr = false) : ∀ b ∈ s.done ++ blks s.outq, 0 < b.data.length := by
  intro b hb
  rcases List.mem_append.mp hb with hb | hb
  · exact cutsOk_pos _ _ hK.cuts (true, b.data.length)
      (List.mem_append_left _ (List.mem_map.mpr ⟨b, hb, rfl⟩)) rfl
  · obtain ⟨e, he, rfl⟩ := List.mem_map.mp hb
    have hm : (e.closed, e.data.length) ∈ shape s.outq := List.mem_map.mpr ⟨e, he, rfl⟩
    exact hB.ne _ hm (hB.allClosed ht _ hm)

theorem InvG_mUpdate {P : Params} {s s' : St} {g : Upd} {c : Nat} (h : InvG s g) (hB : InvB s) (hC : InvC P s) (hK : InvK s)
    (hs : mUpdate s c = some s') : InvG s' (gnext s g (.update c) s') := by
  have hok := mUpdate_ok hs
  unfold mUpdate at hs
  split at hs
  · split at hs <;> cases hs
    · rename_i hr
      have : ¬ ((some PROG_ERROR : Option Ret) = some OK) := by simp [PROG_ERROR, OK]
      simp only [gnext, this, if_false]
      exact InvG_frame h ⟨rfl, rfl, rfl, rfl⟩
    · rename_i hr
      have ht : s.thr = false := by
        cases hh : s.thr with
        | false => rfl
        | true => exact absurd (Or.inr (Or.inr hh)) hr
      obtain ⟨c0, us⟩ := g
      simp only [gnext, if_true]
      refine ⟨?_, ?_, ?_⟩
      · exact chainsOk_snoc c0 us s.consumed.length c (s.done ++ blks s.outq) 0 (all_nonempty hB hK ht)
          (by rw [consumed_length hC]; omega) h.blocks
      · intro N hN
        dsimp only at hN ⊢
        rw [chainAt_snoc, if_pos hN]
      · intro u hu
        dsimp only at hu ⊢
        rcases List.mem_append.mp hu with hu | hu
        · exact h.offs u hu
        · simp only [List.mem_singleton] at hu; subst hu; exact Nat.le_refl _
  · cases hs

theorem InvG_mJoin {P : Params} {s s' : St} {g : Upd} (hs : mJoin P s = some s') : InvG s' (gnext s g .mJoin s') := by
  unfold mJoin at hs
  split at hs
  · split at hs <;> cases hs
    · exact InvG_init P _ _
    · exact InvG_init P _ .out
  · cases hs

/-- The ghost invariant is preserved by every ghost transition from a state that satisfies the C08 invariant. -/
theorem InvG_gstep {P : Params} {s s' : St} {g g' : Upd} {e : Ev} (hI : C08.Inv P s) (h : InvG s g)
    (hgs : gstep P (s, g) e = some (s', g')) : InvG s' g' := by
  obtain ⟨hs, rfl⟩ := gstep_some hgs
  cases e with
  | call inp cap act => exact InvG_frame h (GFrame_mCall hs)
  | mHdr => exact InvG_frame h (GFrame_mHdr hs)
  | mRead => exact InvG_mRead h hs
  | mEncIn => exact InvG_mEncIn h hI.c hs
  | mAfterIn => exact InvG_frame h (GFrame_mAfterIn hs)
  | mTail => exact InvG_frame h (GFrame_mTail hs)
  | mGetThreadErr r => exact InvG_frame h (GFrame_mGetThreadErr hs)
  | mWake => exact InvG_frame h (GFrame_mWake hs)
  | mTimeout => exact InvG_frame h (GFrame_mTimeout hs)
  | mSpurious => exact InvG_frame h (GFrame_mSpurious hs)
  | update c => exact InvG_mUpdate h hI.b hI.c hI.k hs
  | reinit c =>
    simp only [step] at hs
    split at hs
    · exact InvG_frame h (GFrame_mEnd hs)
    · cases hs
  | lzmaEnd => exact InvG_frame h (GFrame_mEnd hs)
  | mExitOne i => exact InvG_frame h (GFrame_of_wframe (mExitOne_frame hs))
  | mExitIdle => exact InvG_frame h (GFrame_of_wframe (mExitIdle_frame hs))
  | mJoin => exact InvG_mJoin hs
  | wTop i o0 => exact InvG_frame h (GFrame_of_wframe (wTop_frame hs))
  | wEnc i full newOut => exact InvG_frame h (GFrame_of_wframe (wEnc_frame hs))
  | wEncErr i r => exact InvG_frame h (GFrame_of_wframe (wEncErr_frame hs))
  | wFb i => exact InvG_frame h (GFrame_of_wframe (wFb_frame hs))
  | wMarkIdle i => exact InvG_frame h (GFrame_of_wframe (wMarkIdle_frame hs))
  | wTail i => exact InvG_frame h (GFrame_of_wframe (wTail_frame hs))
  | wSpurious i => exact InvG_frame h (GFrame_of_wframe (wSpurious_frame hs))
  | wExitIdle => exact InvG_frame h (GFrame_of_wframe (wExitIdle_frame hs))

/-- **mtenc_chain_inv**: in every state of a ghost run the chain of the k-th Block (delivered or queued) is the chain in force
    at the Block's start offset, the current chain is the last accepted update's (or the initial one), and all update
    offsets are `≤` the number of input bytes consumed. -/
theorem mtenc_chain_inv {P : Params} {c : Cfg} (h1 : 0 < c.bs) (h2 : 0 < c.tmax) {s : St} {g : Upd} (hr : GReach P c s g) : InvG s g := by
  induction hr with
  | init => exact InvG_init P c .out
  | step e hr' hs ih => exact InvG_gstep (C08.mtenc_inv h1 h2 hr'.reachable) ih hs

-- ---------------------------------------------------------------------------------------------------------------------
-- the final theorem
-- ---------------------------------------------------------------------------------------------------------------------

theorem blk_ext : ∀ (a b : List Blk), a.map (·.ord) = b.map (·.ord) → a.map (·.chain) = b.map (·.chain) →
    a.map (·.data) = b.map (·.data) → a = b
  | [], [], _, _, _ => rfl
  | [], _ :: _, h, _, _ => by simp at h
  | _ :: _, [], h, _, _ => by simp at h
  | x :: r, y :: r', h1, h2, h3 => by
    simp only [List.map_cons, List.cons.injEq] at h1 h2 h3
    obtain ⟨xo, xc, xd⟩ := x
    obtain ⟨yo, yc, yd⟩ := y
    simp only at h1 h2 h3
    rw [blk_ext r r' h1.2 h2.2 h3.2, h1.1, h2.1, h3.1]

/-- **mtenc_bytes_deterministic**: two finished runs of the threaded encoder — any thread counts, any timeouts, any schedules,
    any slicing of the application's calls — that consumed the same input with the same block_size, the same flush offsets
    and the same history of filter-chain updates (initial chain + accepted lzma_filters_update calls with their input
    offsets) delivered the same Blocks (ordinal, chain, data) and wrote the same output bytes. -/
theorem mtenc_bytes_deterministic {P : Params} {c1 c2 : Cfg} (a1 : 0 < c1.bs) (a2 : 0 < c1.tmax) (b1 : 0 < c2.bs) (b2 : 0 < c2.tmax)
    {s1 s2 : St} {g1 g2 : Upd} (hr1 : GReach P c1 s1 g1) (hr2 : GReach P c2 s2 g2) (he1 : s1.seq = .ended) (he2 : s2.seq = .ended)
    (hbs : s1.cfg.bs = s2.cfg.bs) (hF : s1.flushPts = s2.flushPts) (hin : s1.consumed = s2.consumed) (hg : g1 = g2) :
    s1.done = s2.done ∧ s1.out = s2.out := by
  subst hg
  have r1 := hr1.reachable
  have r2 := hr2.reachable
  have o1 := C08.mtenc_output a1 a2 r1 he1
  have o2 := C08.mtenc_output b1 b2 r2 he2
  have hd := C08.mtenc_deterministic a1 a2 b1 b2 r1 r2 he1 he2 hbs hF hin
  have hlen : s1.done.length = s2.done.length := by simpa using congrArg List.length hd
  have hl : s1.done.map (fun x => x.data.length) = s2.done.map (fun x => x.data.length) := by
    simpa [List.map_map, Function.comp_def] using congrArg (List.map List.length) hd
  have k1 := (mtenc_chain_inv a1 a2 hr1).blocks
  have k2 := (mtenc_chain_inv b1 b2 hr2).blocks
  rw [o1.2.2.1] at k1
  rw [o2.2.2.1] at k2
  simp only [blks, List.map_nil, List.append_nil] at k1 k2
  have hc := chainsOk_unique g1 _ _ 0 k1 k2 hl
  have hdone : s1.done = s2.done := blk_ext _ _ (by rw [o1.2.2.2, o2.2.2.2, hlen]) hc hd
  exact ⟨hdone, by rw [o1.1, o2.1, hdone]⟩

/-- Without any filter-chain update the history is the initial chain, which the finished state still shows. -/
theorem mtenc_bytes_deterministic_noupd {P : Params} {c1 c2 : Cfg} (a1 : 0 < c1.bs) (a2 : 0 < c1.tmax) (b1 : 0 < c2.bs) (b2 : 0 < c2.tmax)
    {s1 s2 : St} {g1 g2 : Upd} (hr1 : GReach P c1 s1 g1) (hr2 : GReach P c2 s2 g2) (he1 : s1.seq = .ended) (he2 : s2.seq = .ended)
    (hbs : s1.cfg.bs = s2.cfg.bs) (hF : s1.flushPts = s2.flushPts) (hin : s1.consumed = s2.consumed)
    (hu1 : g1.upds = []) (hu2 : g2.upds = []) (hch : s1.cfg.chain = s2.cfg.chain) :
    s1.done = s2.done ∧ s1.out = s2.out := by
  refine mtenc_bytes_deterministic a1 a2 b1 b2 hr1 hr2 he1 he2 hbs hF hin ?_
  have e1 := (mtenc_chain_inv a1 a2 hr1).cur _ (Nat.le_refl _)
  have e2 := (mtenc_chain_inv b1 b2 hr2).cur _ (Nat.le_refl _)
  obtain ⟨x1, u1⟩ := g1
  obtain ⟨x2, u2⟩ := g2
  simp only at hu1 hu2
  subst hu1 hu2
  rw [chainAt_nil] at e1 e2
  rw [← e1, ← e2, hch]

-- ---------------------------------------------------------------------------------------------------------------------
-- non-vacuity: two different configurations / schedules / call slicings with the same history reach `ended`
-- ---------------------------------------------------------------------------------------------------------------------

/-- What `mtenc_bytes_deterministic` compares. -/
structure GObs where
  seq : Seq
  bs : Nat
  flushPts : List Nat
  consumed : Bytes
  g : Upd
  done : List Blk
  out : Bytes
  deriving DecidableEq

def gobs (sg : St × Upd) : GObs := ⟨sg.1.seq, sg.1.cfg.bs, sg.1.flushPts, sg.1.consumed, sg.2, sg.1.done, sg.1.out⟩

def exObs : GObs :=
  ⟨.ended, 2, [3, 3, 4, 4], [10, 11, 12, 13], ⟨0, [(3, 7)]⟩,
   [⟨0, 0, [10, 11]⟩, ⟨1, 0, [12]⟩, ⟨2, 7, [13]⟩], [1, 2, 100, 10, 11, 0, 101, 12, 0, 102, 13, 7, 9, 3]⟩

/-- Run A: the C08 example (2 threads, no timeout; calls: 3 bytes FULL_FLUSH, update 7, 1 byte FINISH). The ghost records the
    update at input offset 3. -/
example : (grun C08.exP (initSt C08.exCfg C08.exP, ⟨0, []⟩) (C08.exTrace1 ++ C08.exTrace2)).map gobs = some exObs := by decide +kernel

/-- Run B: ONE thread, a timeout, different call slicing (1 byte RUN; 2 bytes FULL_FLUSH which times out once and is
    repeated with no new input; update 7; 1 byte FINISH), hence a different schedule. -/
def exCfgB : Cfg := { bs := 2, tmax := 1, timeout := 5 }

def exTraceB : List Ev :=
  [.call [10] 100 .run, .mHdr, .mRead, .mEncIn, .mEncIn, .mEncIn, .mAfterIn,
   .call [11, 12] 100 .fullFlush, .mRead, .mEncIn, .mEncIn, .mAfterIn,
   .wTop 0 0, .wEnc 0 false 0, .wMarkIdle 0, .wTail 0, .mWake, .mRead, .mRead, .mEncIn, .mEncIn, .mEncIn, .mAfterIn,
   .mTimeout, .call [] 100 .fullFlush, .mRead, .mEncIn, .mAfterIn,
   .wTop 0 0, .wEnc 0 false 0, .wMarkIdle 0, .wTail 0, .mWake, .mRead, .mRead, .mEncIn, .mAfterIn,
   .update 7, .call [13] 100 .finish, .mRead, .mEncIn, .mEncIn, .mEncIn, .mAfterIn,
   .wTop 0 0, .wEnc 0 false 0, .wMarkIdle 0, .wTail 0, .mWake, .mRead, .mRead, .mEncIn, .mAfterIn, .mTail]

example : (grun C08.exP (initSt exCfgB C08.exP, ⟨0, []⟩) exTraceB).map gobs = some exObs := by decide +kernel

/-- run B really timed out once (lzma_code returned with the internal TIMED_OUT code) -/
example : (grun C08.exP (initSt exCfgB C08.exP, ⟨0, []⟩) (exTraceB.take 24)).map (fun sg => (sg.1.mpc, sg.1.lastRet)) =
    some (.out, some (.fullFlush, TIMED_OUT)) := by decide +kernel

/-- All hypotheses of `mtenc_bytes_deterministic` are simultaneously satisfiable by two different configurations, and its
    conclusion is what the two concrete runs show. -/
example : ∃ s1 s2 g1 g2, GReach C08.exP C08.exCfg s1 g1 ∧ GReach C08.exP exCfgB s2 g2 ∧ s1.seq = .ended ∧ s2.seq = .ended ∧
    s1.cfg.bs = s2.cfg.bs ∧ s1.flushPts = s2.flushPts ∧ s1.consumed = s2.consumed ∧ g1 = g2 ∧ g1.upds ≠ [] ∧
    s1.cfg.tmax ≠ s2.cfg.tmax := by
  have hA : ∃ sg, grun C08.exP (initSt C08.exCfg C08.exP, ⟨0, []⟩) (C08.exTrace1 ++ C08.exTrace2) = some sg ∧ gobs sg = exObs ∧
      sg.1.cfg.tmax = 2 := by decide +kernel
  have hB : ∃ sg, grun C08.exP (initSt exCfgB C08.exP, ⟨0, []⟩) exTraceB = some sg ∧ gobs sg = exObs ∧ sg.1.cfg.tmax = 1 := by
    decide +kernel
  obtain ⟨⟨s1, g1⟩, r1, o1, t1⟩ := hA
  obtain ⟨⟨s2, g2⟩, r2, o2, t2⟩ := hB
  have o := o1.trans o2.symm
  have q1 : s1.seq = .ended := congrArg GObs.seq o1
  have u1 : g1 = ⟨0, [(3, 7)]⟩ := congrArg GObs.g o1
  simp only [gobs, GObs.mk.injEq] at o
  refine ⟨s1, s2, g1, g2, greach_grun _ GReach.init r1, greach_grun _ GReach.init r2, q1, by rw [← o.1]; exact q1,
    o.2.1, o.2.2.1, o.2.2.2.1, o.2.2.2.2.1, by rw [u1]; simp, ?_⟩
  simp only at t1 t2; rw [t1, t2]; decide

end XzVerif.MtEnc
