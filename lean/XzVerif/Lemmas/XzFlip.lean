/-
  Single-bit damage to the non-payload fields of an .xz Stream is rejected (for C05 `header_bitflip_rejected`):
  Stream Header, Stream Footer, Block Header (all bytes but the size byte) through CRC32 single-bit detection
  (Lemmas/CrcFlip.lean); the Index through canonicity of an accepted Index; Block Padding and Check through the facts an
  accepted Block satisfies.  Kernel proofs, core Lean only.
-/
import XzVerif.Lemmas.CrcFlip
import XzVerif.Lemmas.XzDecode
namespace XzVerif.CrcFlip
open XzVerif XzVerif.Container

theorem flipBit_take (b : List UInt8) (i n : Nat) : (flipBit b i).take n = flipBit (b.take n) i := by
  unfold flipBit; exact List.take_modify _ _ _ _

theorem flipBit_drop_lt (b : List UInt8) (i n : Nat) (h : i / 8 < n) : (flipBit b i).drop n = b.drop n := by
  unfold flipBit; exact List.drop_modify_of_lt _ _ _ _ h

theorem flipBit_drop_ge (b : List UInt8) (i n : Nat) (h : n ≤ i / 8) : (flipBit b i).drop n = flipBit (b.drop n) (i - 8 * n) := by
  unfold flipBit
  rw [List.drop_modify_of_ge _ _ _ _ h]
  have h1 : (i - 8 * n) / 8 = i / 8 - n := by omega
  have h2 : (i - 8 * n) % 8 = i % 8 := by omega
  rw [h1, h2]

theorem flipBit_out_of_range (b : List UInt8) (i : Nat) (h : b.length ≤ i / 8) : flipBit b i = b := by
  unfold flipBit; exact List.modify_eq_self h

theorem u8_xor_mask_ne (x : UInt8) (j : Nat) (hj : j < 8) : x ^^^ UInt8.ofNat (1 <<< j) ≠ x := by
  intro h
  have h2 : x ^^^ (x ^^^ UInt8.ofNat (1 <<< j)) = x ^^^ x := by rw [h]
  rw [← UInt8.xor_assoc, UInt8.xor_self, UInt8.zero_xor] at h2
  have : ∀ j, j < 8 → UInt8.ofNat (1 <<< j) ≠ 0 := by decide
  exact this j hj h2

theorem flipBit_getD (b : List UInt8) (i : Nat) (h : i / 8 < b.length) :
    (flipBit b i).getD (i / 8) 0 ≠ b.getD (i / 8) 0 := by
  unfold flipBit
  simp only [List.getD_eq_getElem?_getD, List.getElem?_modify_eq]
  rw [List.getElem?_eq_getElem h]
  simp only [Option.getD_some]
  exact u8_xor_mask_ne _ _ (Nat.mod_lt _ (by decide))

theorem flipBit_ne (b : List UInt8) (i : Nat) (h : i < 8 * b.length) : flipBit b i ≠ b := by
  intro hc
  have := flipBit_getD b i (by omega)
  rw [hc] at this
  exact this rfl

theorem rd32_inj_getD (a b : List UInt8) (h : rd32 a = rd32 b) (k : Nat) (hk : k < 4) : a.getD k 0 = b.getD k 0 := by
  unfold rd32 at h
  have ha0 := (a.getD 0 0).toNat_lt
  have ha1 := (a.getD 1 0).toNat_lt
  have ha2 := (a.getD 2 0).toNat_lt
  have ha3 := (a.getD 3 0).toNat_lt
  have hb0 := (b.getD 0 0).toNat_lt
  have hb1 := (b.getD 1 0).toNat_lt
  have hb2 := (b.getD 2 0).toNat_lt
  have hb3 := (b.getD 3 0).toNat_lt
  have : k = 0 ∨ k = 1 ∨ k = 2 ∨ k = 3 := by omega
  rcases this with rfl | rfl | rfl | rfl <;> (apply UInt8.toNat_inj.mp; omega)

theorem rd32_flip_ne (b : List UInt8) (i : Nat) (hi : i < 32) (hlen : i / 8 < b.length) : rd32 (flipBit b i) ≠ rd32 b := by
  intro h
  exact flipBit_getD b i hlen (rd32_inj_getD _ _ h (i / 8) (by omega))


/-- Every single-bit flip in the 12-byte Stream Header is rejected by `lzma_stream_header_decode`
    (magic: LZMA_FORMAT_ERROR; Stream Flags or their CRC32: LZMA_DATA_ERROR because CRC32 detects single-bit errors). -/
theorem streamHeaderDecode_flip (x : List UInt8) (hdr : StreamFlags) (hok : streamHeaderDecode x = .ok hdr)
    (i : Nat) (hi : i < 96) : ∃ e, streamHeaderDecode (flipBit x i) = .error e := by
  unfold streamHeaderDecode at hok
  by_cases h1 : x.length < STREAM_HEADER_SIZE
  · rw [if_pos h1] at hok; simp at hok
  rw [if_neg h1] at hok
  by_cases h2 : x.take 6 ≠ HEADER_MAGIC
  · rw [if_pos h2] at hok; simp at hok
  rw [if_neg h2] at hok
  by_cases h3 : crc32 ((x.drop 6).take 2) ≠ rd32 (x.drop 8)
  · rw [if_pos h3] at hok; simp at hok
  have h3' : crc32 ((x.drop 6).take 2) = rd32 (x.drop 8) := Decidable.of_not_not h3
  have hlen : 12 ≤ x.length := by unfold STREAM_HEADER_SIZE at h1; omega
  unfold streamHeaderDecode
  rw [if_neg (by rw [flipBit_length]; exact h1)]
  by_cases c1 : i < 48
  · -- magic
    refine ⟨.formatError, ?_⟩
    rw [if_pos]
    rw [flipBit_take]
    have h2' : x.take 6 = HEADER_MAGIC := Decidable.of_not_not h2
    intro hc
    exact flipBit_ne (x.take 6) i (by rw [List.length_take]; omega) (by rw [hc, h2'])
  · have hmag : (flipBit x i).take 6 = x.take 6 := by
      rw [flipBit_take, flipBit_out_of_range]
      rw [List.length_take]; omega
    rw [hmag, if_neg h2]
    refine ⟨.dataError, ?_⟩
    rw [if_pos]
    by_cases c2 : i < 64
    · -- Stream Flags
      rw [flipBit_drop_lt x i 8 (by omega), flipBit_drop_ge x i 6 (by omega), flipBit_take, ← h3']
      exact crc32_flip_ne _ _ (by rw [List.length_take, List.length_drop]; omega)
    · -- stored CRC32
      rw [flipBit_drop_ge x i 8 (by omega), flipBit_drop_ge x i 6 (by omega), flipBit_take,
        flipBit_out_of_range ((x.drop 6).take 2) _ (by rw [List.length_take, List.length_drop]; omega), h3']
      exact (rd32_flip_ne _ _ (by omega) (by rw [List.length_drop]; omega)).symm


theorem rd32_flip_eq (b : List UInt8) (i : Nat) (h : 4 ≤ i / 8) : rd32 (flipBit b i) = rd32 b := by
  unfold rd32 flipBit
  simp only [List.getD_eq_getElem?_getD]
  rw [List.getElem?_modify_ne _ _ (by omega : i / 8 ≠ 0), List.getElem?_modify_ne _ _ (by omega : i / 8 ≠ 1),
    List.getElem?_modify_ne _ _ (by omega : i / 8 ≠ 2), List.getElem?_modify_ne _ _ (by omega : i / 8 ≠ 3)]

/-- Every single-bit flip in the 12-byte Stream Footer is rejected by `lzma_stream_footer_decode`. -/
theorem streamFooterDecode_flip (x : List UInt8) (r : StreamFlags × Nat) (hok : streamFooterDecode x = .ok r)
    (i : Nat) (hi : i < 96) : ∃ e, streamFooterDecode (flipBit x i) = .error e := by
  unfold streamFooterDecode at hok
  by_cases h1 : x.length < STREAM_HEADER_SIZE
  · rw [if_pos h1] at hok; simp at hok
  rw [if_neg h1] at hok
  by_cases h2 : (x.drop 10).take 2 ≠ FOOTER_MAGIC
  · rw [if_pos h2] at hok; simp at hok
  rw [if_neg h2] at hok
  by_cases h3 : crc32 ((x.drop 4).take 6) ≠ rd32 x
  · rw [if_pos h3] at hok; simp at hok
  have h3' : crc32 ((x.drop 4).take 6) = rd32 x := Decidable.of_not_not h3
  have hlen : 12 ≤ x.length := by unfold STREAM_HEADER_SIZE at h1; omega
  unfold streamFooterDecode
  rw [if_neg (by rw [flipBit_length]; exact h1)]
  by_cases c1 : 80 ≤ i
  · refine ⟨.formatError, ?_⟩
    rw [if_pos]
    rw [flipBit_drop_ge x i 10 (by omega), flipBit_take]
    have h2' : (x.drop 10).take 2 = FOOTER_MAGIC := Decidable.of_not_not h2
    intro hc
    exact flipBit_ne ((x.drop 10).take 2) (i - 8 * 10) (by rw [List.length_take, List.length_drop]; omega) (by rw [hc, h2'])
  · have hmag : ((flipBit x i).drop 10).take 2 = (x.drop 10).take 2 := by
      rw [flipBit_drop_lt x i 10 (by omega)]
    rw [hmag, if_neg h2]
    refine ⟨.dataError, ?_⟩
    rw [if_pos]
    by_cases c2 : i < 32
    · -- stored CRC32
      rw [flipBit_drop_lt x i 4 (by omega), h3']
      exact (rd32_flip_ne _ _ c2 (by omega)).symm
    · -- Backward Size / Stream Flags
      rw [rd32_flip_eq x i (by omega), flipBit_drop_ge x i 4 (by omega), flipBit_take, ← h3']
      exact crc32_flip_ne _ _ (by rw [List.length_take, List.length_drop]; omega)


theorem flipBit_getD_other (b : List UInt8) (i k : Nat) (h : i / 8 ≠ k) : (flipBit b i).getD k 0 = b.getD k 0 := by
  unfold flipBit
  simp only [List.getD_eq_getElem?_getD]
  rw [List.getElem?_modify_ne _ _ h]

/-- Every single-bit flip in a Block Header other than in its first byte (Block Header Size) is rejected by
    `lzma_block_header_decode` with LZMA_DATA_ERROR: the CRC32 covers all of it and detects single-bit errors. -/
theorem blockHeaderDecodeWith_flip (hs check : Nat) (b : List UInt8) (h : BlockHeader)
    (hok : blockHeaderDecodeWith hs check b = .ok h) (i : Nat) (hlo : 8 ≤ i) (hhi : i < 8 * hs) :
    blockHeaderDecodeWith hs check (flipBit b i) = .error .dataError := by
  unfold blockHeaderDecodeWith at hok
  by_cases h1 : ((b.getD 0 0).toNat + 1) * 4 ≠ hs ∨ check > CHECK_ID_MAX
  · rw [if_pos h1] at hok; simp at hok
  rw [if_neg h1] at hok
  by_cases h2 : b.length < hs
  · rw [if_pos h2] at hok; simp at hok
  rw [if_neg h2] at hok
  simp only [] at hok
  by_cases h3 : crc32 (b.take (hs - 4)) ≠ rd32 (b.drop (hs - 4))
  · rw [if_pos h3] at hok; simp at hok
  have h3' : crc32 (b.take (hs - 4)) = rd32 (b.drop (hs - 4)) := Decidable.of_not_not h3
  have hhs : 4 ≤ hs := by
    have : ((b.getD 0 0).toNat + 1) * 4 = hs := by
      by_cases hc : ((b.getD 0 0).toNat + 1) * 4 = hs
      · exact hc
      · exact absurd (Or.inl hc) h1
    omega
  unfold blockHeaderDecodeWith
  rw [flipBit_getD_other b i 0 (by omega), if_neg h1, if_neg (by rw [flipBit_length]; exact h2)]
  simp only []
  rw [if_pos]
  by_cases c : i / 8 < hs - 4
  · rw [flipBit_drop_lt b i _ c, flipBit_take, ← h3']
    exact crc32_flip_ne _ _ (by rw [List.length_take]; omega)
  · rw [flipBit_drop_ge b i _ (by omega), flipBit_take, flipBit_out_of_range (b.take (hs - 4)) i (by rw [List.length_take]; omega), h3']
    exact (rd32_flip_ne _ _ (by omega) (by rw [List.length_drop]; omega)).symm


/-- Every single-bit flip inside an accepted Index field (Indicator, Number of Records, Records, Padding, CRC32) makes
    `lzma_index_hash_decode` reject it for the same Blocks: an accepted Index is the canonical encoding of the Blocks, so
    two different byte strings cannot both be accepted.  (This does not even need the CRC32.) -/
theorem indexHashDecode_flip (blocks : XzDecode.HashInfo) (inp : List UInt8) (ic : Nat)
    (h : XzDecode.indexHashDecode blocks inp = ⟨.streamEnd, ic⟩) (i : Nat) (hi : i < 8 * ic) :
    (XzDecode.indexHashDecode blocks (flipBit inp i)).ret ≠ .streamEnd := by
  intro hc
  obtain ⟨hb, hic, hle⟩ := XzDecode.indexHashDecode_streamEnd blocks inp ic h
  have h' : XzDecode.indexHashDecode blocks (flipBit inp i) = ⟨.streamEnd, (XzDecode.indexHashDecode blocks (flipBit inp i)).consumed⟩ := by
    rw [← hc]
  obtain ⟨hb', hic', _⟩ := XzDecode.indexHashDecode_streamEnd blocks _ _ h'
  rw [hic', ← hic, flipBit_take, ← hb] at hb'
  exact flipBit_ne (inp.take ic) i (by rw [List.length_take]; omega) hb'

end XzVerif.CrcFlip

namespace XzVerif.XzDecode
open XzVerif XzVerif.Container XzVerif.CrcFlip

/-- The raw decoder's verdict depends only on the bytes it consumed (it reads its input front to back and stops at
    the end of the payload).  True of every real filter chain; an explicit hypothesis here because `Env.payload` is
    abstract. -/
def PayloadLocal (E : Env) : Prop :=
  ∀ (fs : List Filter) (x y : List UInt8) (cap : Nat),
    (E.payload fs x cap).ret = .streamEnd → (E.payload fs x cap).consumed ≤ x.length →
    x.take (E.payload fs x cap).consumed = y.take (E.payload fs x cap).consumed →
    E.payload fs y cap = E.payload fs x cap

/-- Block Padding and Check field: if a Block is accepted (Check ID supported or None, LZMA_IGNORE_CHECK off), then
    the same Block with one bit flipped anywhere in its Block Padding or Check field is not accepted. -/
theorem blockDecode_tail_flip (E : Env) (hloc : PayloadLocal E) (check : Nat) (hs : Nat) (h : BlockHeader)
    (inp : List UInt8) (cap : Nat) (b : BRes)
    (hdef : blockDecode E check false hs h inp cap = b) (hb : b.ret = .streamEnd)
    (hsup : check ≠ 0 → E.checkSupported check = true)
    (hwf : b.compressed ≤ (inp.take (min inp.length (compressedLimit hs check h.compressedSize))).length)
    (i : Nat) (hlo : 8 * b.compressed ≤ i) (hhi : i < 8 * b.consumed) :
    (blockDecode E check false hs h (flipBit inp i) cap).ret ≠ .streamEnd := by
  intro hc
  have F := blockDecode_streamEnd E check false hs h inp cap b hdef hb
  have F' := blockDecode_streamEnd E check false hs h (flipBit inp i) cap _ rfl hc
  -- the payload decoder gives the same answer
  have hpay : payloadCall E check hs h (flipBit inp i) cap = payloadCall E check hs h inp cap := by
    unfold payloadCall
    rw [flipBit_length, flipBit_take]
    apply hloc
    · exact F.payload_end
    · have := F.compressed_eq; unfold payloadCall at this; rw [← this]; exact hwf
    · have hce := F.compressed_eq; unfold payloadCall at hce
      rw [← hce, flipBit_take, flipBit_out_of_range]
      rw [List.length_take, List.length_take]; omega
  generalize hb' : blockDecode E check false hs h (flipBit inp i) cap = b' at F' hc
  have hcomp : b'.compressed = b.compressed := by rw [F'.compressed_eq, F.compressed_eq, hpay]
  have hout : b'.out = b.out := by rw [F'.out_eq, F.out_eq, hpay]
  have hcons : b'.consumed = b.consumed := by rw [F'.consumed_eq, F.consumed_eq, hcomp]
  -- both tails start with the same padding and Check bytes
  have hck : (List.drop (b'.compressed + blockPadLen b'.compressed) (flipBit inp i)).take (if check = 0 then 0 else checkSize check)
      = (List.drop (b.compressed + blockPadLen b.compressed) inp).take (if check = 0 then 0 else checkSize check) := by
    by_cases hc0 : check = 0
    · simp [hc0]
    · simp only [hc0, if_false]
      rw [F'.check_ok hc0 rfl (hsup hc0), F.check_ok hc0 rfl (hsup hc0), hout]
  have hbytes := F.bytes
  have hbytes' := F'.bytes
  rw [hck, hcomp] at hbytes'
  have hlen := F.check_len
  generalize hn : (if check = 0 then 0 else checkSize check) = n at hbytes hbytes' hlen
  generalize hCK : (List.drop (b.compressed + blockPadLen b.compressed) inp).take n = CK at hbytes hbytes' hlen
  have ht : (inp.drop b.compressed).take (blockPadLen b.compressed + n) = List.replicate (blockPadLen b.compressed) 0 ++ CK := by
    rw [hbytes, List.take_left']; simp [hlen]
  have ht' : ((flipBit inp i).drop b.compressed).take (blockPadLen b.compressed + n) = List.replicate (blockPadLen b.compressed) 0 ++ CK := by
    rw [hbytes', List.take_left']; simp [hlen]
  rw [flipBit_drop_ge inp i _ (by omega), flipBit_take, ← ht] at ht'
  have hl := congrArg List.length ht
  simp only [List.length_append, List.length_replicate, hlen] at hl
  refine flipBit_ne _ _ ?_ ht'
  rw [hl]
  have := F.consumed_eq
  rw [hn] at this
  omega

end XzVerif.XzDecode
