/-
  Exit states of the threaded-decoder model (a fatal return value is on its way out, or has been returned) and the facts
  that hold of every transition regardless of invariants: Blocks and configuration never change; once a fatal value is on
  its way out, nothing is delivered any more and the value does not change.
-/
import XzVerif.Lemmas.MtDecRow2
import XzVerif.Lemmas.MtDecMain2
import XzVerif.Lemmas.MtDecMain3
import XzVerif.Lemmas.MtDecMain4

namespace XzVerif.MtDec

/-- The fatal value that is being returned / has been returned, if any. -/
def exitCode (s : State) : Option Ret :=
  match s.returned with
  | some r => some r
  | none =>
    match s.pc with
    | .rowDone _ r _ => if fatal r then some r else none
    | .stopping _ r => some r
    | .ret r => if fatal r then some r else none
    | _ => none

/-- After the final return only lzma_end can follow. -/
def RetPc (s : State) : Prop :=
  ∀ r, s.returned = some r → s.pc = .idle ∨ s.pc = .ended ∨ ∃ i, s.pc = .endSet i .final ∨ s.pc = .endJoin i .final

def StopFatal (s : State) : Prop := ∀ i r, s.pc = .stopping i r → fatal r = true

theorem worker_exit {s s' : State} {i : Nat} (sh : WorkerShape s s' i) :
    exitCode s' = exitCode s ∧ s'.outRev = s.outRev ∧ s'.blocks = s.blocks ∧ s'.cfg = s.cfg ∧
    (RetPc s → RetPc s') ∧ (StopFatal s → StopFatal s') := by
  refine ⟨by simp [exitCode, sh.pc, sh.returned], sh.outRev, sh.blocks, sh.cfg, ?_, ?_⟩
  · intro h r hr; rw [sh.pc]; exact h r (sh.returned ▸ hr)
  · intro h i r hp; exact h i r (sh.pc ▸ hp)

theorem exit_pc {s : State} {r : Ret} (he : exitCode s = some r) (hp : RetPc s) :
    (s.returned = some r ∧ (s.pc = .idle ∨ s.pc = .ended ∨ ∃ i, s.pc = .endSet i .final ∨ s.pc = .endJoin i .final)) ∨
    (s.returned = none ∧ ((∃ k c, s.pc = .rowDone k r c ∧ fatal r = true) ∨ (∃ i, s.pc = .stopping i r) ∨
      (s.pc = .ret r ∧ fatal r = true))) := by
  unfold exitCode at he
  split at he
  · rename_i r' hr
    injection he with e; subst e
    exact Or.inl ⟨hr, hp r' hr⟩
  · rename_i hr
    refine Or.inr ⟨hr, ?_⟩
    split at he
    · rename_i k r' c hpc
      split at he
      · injection he with e; subst e; exact Or.inl ⟨k, c, hpc, by assumption⟩
      · cases he
    · rename_i i r' hpc
      injection he with e; subst e; exact Or.inr (Or.inl ⟨i, hpc⟩)
    · rename_i r' hpc
      split at he
      · injection he with e; subst e; exact Or.inr (Or.inr ⟨hpc, by assumption⟩)
      · cases he
    · cases he

/-- Main-thread transitions that are possible once a fatal value is on its way out: they deliver nothing and keep the value. -/
theorem main_exit {s s' : State} {l : Label} (hl : l.worker? = none) {r : Ret} (he : exitCode s = some r) (hp : RetPc s)
    (hf : StopFatal s) (hs : step s l = some s') :
    exitCode s' = some r ∧ s'.outRev = s.outRev ∧ s'.blocks = s.blocks ∧ s'.cfg = s.cfg ∧ RetPc s' ∧ StopFatal s' := by
  have hpc := exit_pc he hp
  cases l <;> simp only [Label.worker?, reduceCtorEq] at hl <;> simp only [step] at hs
  all_goals (repeat' split at hs)
  all_goals first | (cases hs; done) | skip
  all_goals (cases hs)
  all_goals first
    | (exfalso; simp_all [exitCode]; done)
    | (refine ⟨?_, rfl, rfl, rfl, ?_, ?_⟩ <;> simp_all [exitCode, RetPc, StopFatal, fatal]; done)

def Label.isRowIter : Label → Bool
  | .rowIter _ => true
  | _ => false

/-- Main-thread transitions other than rowIter: Blocks/configuration are constant, `returned` changes only at `ret`. -/
theorem main_const {s s' : State} {l : Label} (hl : l.worker? = none) (hr : l.isRowIter = false) (hs : step s l = some s') :
    s'.blocks = s.blocks ∧ s'.cfg = s.cfg ∧ (s'.returned = s.returned ∨ s'.pc = .idle) := by
  cases l <;> simp only [Label.worker?, reduceCtorEq] at hl <;> simp only [Label.isRowIter, reduceCtorEq] at hr <;>
    simp only [step] at hs
  case enablePartial =>
    split at hs
    · cases hs
      have f := (enablePartialHead_spec s).1
      exact ⟨f.blocks, f.cfg, Or.inl f.returned⟩
    · cases hs
  all_goals (repeat' split at hs)
  all_goals first | (cases hs; done) | skip
  all_goals (cases hs)
  all_goals first
    | exact ⟨rfl, rfl, Or.inl rfl⟩
    | exact ⟨rfl, rfl, Or.inr rfl⟩

/-- threads_stop is entered only with a fatal value (from read_output_and_wait with an error, or the fail-fast stop). -/
theorem main_stopFatal {s s' : State} {l : Label} (hl : l.worker? = none) (hr : l.isRowIter = false) (hf : StopFatal s)
    (hs : step s l = some s') : StopFatal s' := by
  cases l <;> simp only [Label.worker?, reduceCtorEq] at hl <;> simp only [Label.isRowIter, reduceCtorEq] at hr <;>
    simp only [step] at hs
  case enablePartial =>
    split at hs
    · cases hs; intro i r hp; cases hp
    · cases hs
  case ffStop =>
    split at hs
    · cases hs; intro i r hp; injection hp with _ e; subst e; rfl
    · cases hs
  all_goals (repeat' split at hs)
  all_goals first | (cases hs; done) | skip
  all_goals (cases hs)
  all_goals first
    | (intro i r hp; cases hp; done)
    | (intro i r hp; simp_all [StopFatal, fatal, DATA_ERROR, OK, TIMED_OUT]; done)

end XzVerif.MtDec
