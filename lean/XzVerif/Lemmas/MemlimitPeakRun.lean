/-
  C09: the peak-allocation invariant along whole decoder runs (Model/Memlimit.lean): nothing is ever live beyond
  max(LZMA_MEMUSAGE_BASE, the limit in force) (+ the bytes of the structs LZMA_MEMUSAGE_BASE does not cover).
  Core Lean only.
-/
import XzVerif.Lemmas.MemlimitPeak
import XzVerif.Lemmas.MemlimitRun

set_option linter.unusedSimpArgs false

namespace XzVerif.Memlimit
open XzVerif.Memusage

/-! ## The limit only ever goes up -/

theorem trySets_some_ge (mu : Nat) : ∀ (sets : List SetTok) (limit : Nat) (evs : List (Nat × Nat × Nat)) (l : Nat)
    (rest : List SetTok), trySets mu limit sets = (evs, some l, rest) → mu ≤ l := by
  intro sets
  induction sets with
  | nil => intro limit evs l rest h; simp [trySets] at h
  | cons t ts ih =>
    intro limit evs l rest h
    simp only [trySets] at h
    cases hms : memlimitSet mu limit (t.value mu) with
    | mk r l' =>
      simp only [hms] at h
      by_cases hr0 : r = 0
      · subst hr0
        simp only [↓reduceIte, Prod.mk.injEq, Option.some.injEq] at h
        obtain ⟨_, h2, _⟩ := h
        subst h2
        simp only [memlimitSet] at hms
        by_cases hlt : (if t.value mu = 0 then 1 else t.value mu) < mu
        · simp [hlt] at hms
        · simp only [hlt, ↓reduceIte, Prod.mk.injEq, true_and] at hms
          omega
      · simp only [hr0, ↓reduceIte] at h
        generalize hq : trySets mu limit ts = q at h
        obtain ⟨ev2, res2, rem2⟩ := q
        simp only [Prod.mk.injEq] at h
        obtain ⟨_, h2, _⟩ := h
        subst h2
        exact ih limit ev2 l rem2 hq

/-- After LZMA_MEMLIMIT_ERROR the application leaves the limit alone or raises it to at least `lzma_memusage()`. -/
theorem handleMemlimit_limit (r : Run) :
    ∃ l, (handleMemlimit r).1.core = { r.core with memlimit := l } ∧ (l = r.core.memlimit ∨ r.core.memusage ≤ l) := by
  simp only [handleMemlimit]
  generalize hq : trySets r.core.memusage r.core.memlimit
    (r.emit (.mem r.core.memusage r.core.memlimit r.core.heap.live r.core.heap.peak)).sets = q
  obtain ⟨evs, res, rest⟩ := q
  have hf := foldl_set_frame r.core.memusage evs
    (r.emit (.mem r.core.memusage r.core.memlimit r.core.heap.live r.core.heap.peak))
  cases res with
  | none => exact ⟨r.core.memlimit, hf.2, Or.inl rfl⟩
  | some l => exact ⟨l, rfl, Or.inr (trySets_some_ge _ _ _ _ _ _ hq)⟩

/-- An invariant `P` of the decoder state survives the retry protocol; when the step is left, `Q` holds. -/
theorem retryLoop_inv (P Q : Core → Prop) (attempt : Core → InitResult × Core)
    (hmem : ∀ c c', P c → attempt c = (.memlimit, c') → P c' ∧ c'.memlimit < c'.memusage)
    (hdone : ∀ c k c', P c → attempt c = (.done k, c') → Q c')
    (hraise : ∀ c l, P c → c.memlimit ≤ l → P { c with memlimit := l })
    (hPQ : ∀ c, P c → Q c) :
    ∀ (fuel : Nat) (r : Run), P r.core → Q (retryLoop attempt fuel r).2.core := by
  intro fuel
  induction fuel with
  | zero => intro r h; exact hPQ _ h
  | succ fuel ih =>
    intro r h
    simp only [retryLoop]
    cases ha : attempt r.core with
    | mk res c1 =>
      cases res with
      | done code => exact hdone _ _ _ h ha
      | memlimit =>
        dsimp only
        obtain ⟨hp1, hlt⟩ := hmem _ _ h ha
        obtain ⟨l, hl, hcase⟩ := handleMemlimit_limit { r with core := c1 }
        have hp2 : P (handleMemlimit { r with core := c1 }).1.core := by
          rw [hl]
          apply hraise _ _ hp1
          rcases hcase with h1 | h1
          · rw [h1]; exact Nat.le_refl _
          · exact Nat.le_trans (Nat.le_of_lt hlt) h1
        cases hh : handleMemlimit { r with core := c1 } with
        | mk r2 ok =>
          rw [hh] at hp2
          cases ok with
          | false => exact hPQ _ hp2
          | true => exact ih r2 hp2

/-! ## The single-threaded .xz decoder -/

theorem blockInitLoop_inv (b : Build) (hb : b.Ok) (base allow : Nat)
    (hbase : base + b.szBlockDecoder + 4 * b.optMax + 16384 ≤ MEMUSAGE_BASE + allow)
    (check : Nat) (hdr : List UInt8) (fuel : Nat) (r : Run) (h : CoreInv b base allow r.core) :
    CoreInv b base allow (blockInitLoop b check hdr fuel r).2.core :=
  retryLoop_inv (CoreInv b base allow) (CoreInv b base allow) (blockAttempt b check hdr)
    (fun c c' hc ha => ⟨(blockAttempt_inv b hb base allow hbase check hdr c _ c' hc ha).1,
      (blockAttempt_inv b hb base allow hbase check hdr c _ c' hc ha).2 rfl⟩)
    (fun c _ c' hc ha => (blockAttempt_inv b hb base allow hbase check hdr c _ c' hc ha).1)
    (fun _ l hc hl => hc.raise l hl) (fun _ hc => hc) fuel r h

theorem streamBody_inv (b : Build) (hb : b.Ok) (base allow : Nat)
    (hbase : base + b.szBlockDecoder + 4 * b.optMax + 16384 ≤ MEMUSAGE_BASE + allow) (check : Nat) :
    ∀ (fuel : Nat) (r : Run) (inp : List UInt8), CoreInv b base allow r.core →
      CoreInv b base allow (streamBody b check fuel r inp).2.1.core := by
  intro fuel
  induction fuel with
  | zero => intro r inp h; exact h
  | succ fuel ih =>
    intro r inp h
    cases inp with
    | nil => exact h
    | cons b0 tl =>
      simp only [streamBody]
      by_cases hb0 : b0.toNat = 0
      · simp only [hb0, ↓reduceIte, Bool.false_eq_true]
        repeat' split
        all_goals exact h
      · simp only [hb0, ↓reduceIte, Bool.false_eq_true]
        by_cases hlen : (b0 :: tl).length < (b0.toNat + 1) * 4
        · simp only [hlen, ↓reduceIte, Bool.false_eq_true]
          exact h
        · simp only [hlen, ↓reduceIte, Bool.false_eq_true]
          generalize hhs : (b0.toNat + 1) * 4 = hs
          generalize hinp : (b0 :: tl) = inp at *
          have hloop := blockInitLoop_inv b hb base allow hbase check (List.take hs inp) (r.sets.length + 2)
            { r with consumed := r.consumed + hs } h
          cases hq1 : blockInitLoop b check (List.take hs inp) (r.sets.length + 2) { r with consumed := r.consumed + hs } with
          | mk k1 r1' =>
            rw [hq1] at hloop
            dsimp only at hloop ⊢
            by_cases hk0 : k1 ≠ 0
            · simp only [if_pos hk0]; exact hloop
            · simp only [if_neg hk0]
              cases hbh : Container.blockHeaderDecodeWith hs check (List.take hs inp) with
              | error e => exact hloop
              | ok bh =>
                dsimp only
                cases hcs : bh.compressedSize with
                | none => exact hloop
                | some cs =>
                  dsimp only
                  by_cases hrl : (List.drop hs inp).length < Container.ceil4 cs + Container.checkSize check
                  · simp only [hrl, ↓reduceIte, Bool.false_eq_true]; exact hloop
                  · simp only [hrl, ↓reduceIte, Bool.false_eq_true]
                    exact ih _ _ hloop

theorem afterHeader_core (fl : Flags) (check : Nat) (r : Run) : (afterHeader fl check r).core = r.core := by
  unfold afterHeader
  dsimp only
  split
  · rfl
  · split
    · rfl
    · split <;> rfl

theorem streams_inv (b : Build) (hb : b.Ok) (base allow : Nat)
    (hbase : base + b.szBlockDecoder + 4 * b.optMax + 16384 ≤ MEMUSAGE_BASE + allow) (fl : Flags) :
    ∀ (fuel : Nat) (first : Bool) (r : Run) (inp : List UInt8), CoreInv b base allow r.core →
      CoreInv b base allow (streams b fl fuel first r inp).2.core := by
  intro fuel
  induction fuel with
  | zero => intro first r inp h; exact h
  | succ fuel ih =>
    intro first r inp h
    rw [streams_unfold]
    by_cases hl : inp.length < 12
    · simp only [hl, ↓reduceIte]; exact h
    · simp only [hl, ↓reduceIte]
      cases hsh : Container.streamHeaderDecode inp with
      | error e => exact h
      | ok sf =>
        dsimp only
        have hbody := streamBody_inv b hb base allow hbase sf.check (inp.length + 2) (afterHeader fl sf.check r)
          (inp.drop 12) (by rw [afterHeader_core]; exact h)
        cases hs1 : streamBody b sf.check (inp.length + 2) (afterHeader fl sf.check r) (inp.drop 12) with
        | mk c1 p1 =>
          obtain ⟨s1, rest1⟩ := p1
          rw [hs1] at hbody
          dsimp only at hbody ⊢
          by_cases hc1 : c1 ≠ 1
          · simp only [if_pos hc1]; exact hbody
          · simp only [if_neg hc1]
            by_cases hcat : (!fl.concatenated) = true
            · simp only [hcat, ↓reduceIte]; exact hbody
            · simp only [hcat, ↓reduceIte, Bool.false_eq_true]
              by_cases hemp : (List.drop (countZeros rest1) rest1).isEmpty = true
              · simp only [hemp, ↓reduceIte]; exact hbody
              · simp only [hemp, ↓reduceIte, Bool.false_eq_true]
                by_cases hz : countZeros rest1 % 4 ≠ 0
                · simp only [if_pos hz]; exact hbody
                · simp only [if_neg hz]
                  exact ih false _ _ hbody

/-- A decoder that has just been created: only the `base` bytes of its own structs are live. -/
theorem coreInv_start (b : Build) (base allow limit : Nat) (h : Heap)
    (hbase : base + b.szBlockDecoder + 4 * b.optMax + 16384 ≤ MEMUSAGE_BASE + allow)
    (hl : h.live = base) (hp : h.peak ≤ base) :
    CoreInv b base allow { memlimit := limit, memusage := MEMUSAGE_BASE, heap := h } :=
  ⟨⟨[], rfl, (fun _ hx => by cases hx), trivial⟩, by simp [hl, chainBytes_nil], (fun _ => rfl),
    by simp only; omega, by simp only [chainBytes_nil]; omega⟩

theorem allocs_peak_le (ns : List Nat) (h : Heap) : (h.allocs ns).peak ≤ max h.peak (h.live + ns.sum) := by
  rw [allocs_eq_apply]
  have := apply_peak_le (ns.map Op.alloc) h
  rw [allocSum_map_alloc] at this
  exact this

/-- `lzma_stream_decoder`: whatever the file, the initial limit and the script of limit changes, at no time more than
    max(LZMA_MEMUSAGE_BASE, the limit in force at the end) bytes were live. -/
theorem xzRun_peak (b : Build) (hb : b.Ok) (flags limit : Nat) (sets : List SetTok) (inp : List UInt8) :
    CoreInv b (b.szInternal + b.szStreamDecoder + b.szIndexHash) 0 (xzRun b flags limit sets inp).2.core := by
  have hx := hb.xzDec
  apply streams_inv b hb _ 0 (by omega)
  apply coreInv_start b _ 0 _ _ (by omega)
  · simp [allocs_live]; omega
  · have := allocs_peak_le [b.szInternal, b.szStreamDecoder, b.szIndexHash] ({} : Heap)
    simp only [List.sum_cons, List.sum_nil] at this
    have h0 : ({} : Heap).peak = 0 := rfl
    have h1 : ({} : Heap).live = 0 := rfl
    omega

/-- `lzma_auto_decoder` on a .xz file: the auto decoder's own struct is the allowance. -/
theorem autoXz_peak (b : Build) (hb : b.Ok) (fl : Flags) (limit : Nat) (sets : List SetTok) (out : List Ev)
    (inp : List UInt8) :
    CoreInv b (b.szInternal + b.szAutoDecoder + b.szStreamDecoder + b.szIndexHash) b.szAutoDecoder
      (streams b fl (inp.length + 2) true
        { core := { memlimit := limit, memusage := MEMUSAGE_BASE,
                    heap := (({} : Heap).allocs [b.szInternal, b.szAutoDecoder]).allocs [b.szStreamDecoder, b.szIndexHash] },
          sets := sets, out := out } inp).2.core := by
  have hx := hb.xzDec
  apply streams_inv b hb _ _ (by omega)
  apply coreInv_start b _ _ _ _ (by omega)
  · simp [allocs_live]; omega
  · have h1 := allocs_peak_le [b.szInternal, b.szAutoDecoder] ({} : Heap)
    have h2 := allocs_peak_le [b.szStreamDecoder, b.szIndexHash] (({} : Heap).allocs [b.szInternal, b.szAutoDecoder])
    simp only [List.sum_cons, List.sum_nil, allocs_live] at h1 h2
    have h0 : ({} : Heap).peak = 0 := rfl
    have h3 : ({} : Heap).live = 0 := rfl
    omega

/-! ## .lzma and .lz: SEQ_CODER_INIT -/

/-- Before SEQ_CODER_INIT has succeeded: no coder yet, only the decoder's own structs (`base` bytes), and the recorded
    estimate covers the LZMA1 decoder with options `o`. -/
structure CoderPre (b : Build) (base allow : Nat) (o : LzmaOpts) (c : Core) : Prop where
  chain : c.chain = []
  live : c.heap.live = base
  peak : c.heap.peak ≤ max MEMUSAGE_BASE c.memlimit + allow
  fit : base + (filterDecAllocs b (.lzma1 o)).sum ≤ c.memusage + allow

def PeakOk (allow : Nat) (c : Core) : Prop := c.heap.peak ≤ max MEMUSAGE_BASE c.memlimit + allow

theorem coderInitLoop_peak (b : Build) (base allow : Nat) (o : LzmaOpts) (fuel : Nat) (r : Run)
    (h : CoderPre b base allow o r.core) : PeakOk allow (coderInitLoop b o fuel r).2.core := by
  refine retryLoop_inv (CoderPre b base allow o) (PeakOk allow) (coderAttempt b o) ?_ ?_ ?_ ?_ fuel r h
  · intro c c' hc ha
    simp only [coderAttempt] at ha
    split at ha
    · rename_i hgt
      simp only [Prod.mk.injEq, true_and] at ha
      subst ha
      exact ⟨hc, hgt⟩
    · simp at ha
  · intro c k c' hc ha
    simp only [coderAttempt] at ha
    split at ha
    · simp at ha
    · rename_i hle
      simp only [chainInit, hc.chain, Prod.mk.injEq, InitResult.done.injEq] at ha
      obtain ⟨_, hc'⟩ := ha
      subst hc'
      have hspec := chainScript_fresh b [.lzma1 o] base (fun f hf => by
        simp only [List.mem_singleton] at hf; subst hf; rfl)
      obtain ⟨sp1, _, _, _⟩ := hspec
      simp only [chainBytes_nil, Nat.add_zero, rawDecoderAllocs, List.map_cons, List.map_nil, List.flatten_cons,
        List.flatten_nil, List.append_nil] at sp1
      have hfit := hc.fit
      have hpk := hc.peak
      show ((c.heap.apply (chainScript b [.lzma1 o] []).2.1).peak) ≤ max MEMUSAGE_BASE c.memlimit + allow
      rw [apply_peak_eq, hc.live]
      omega
  · intro c l hc hl
    exact ⟨hc.chain, hc.live, by have := hc.peak; simp only; omega, hc.fit⟩
  · intro c hc; exact hc.peak

theorem lzma1_allocs_fit (b : Build) (o : LzmaOpts) :
    (filterDecAllocs b (.lzma1 o)).sum ≤ lzmaDecoderMemusageNocheck b o + 4096 := by
  have hd := lzDictAllocSize_le b o.dict
  simp [filterDecAllocs, lzmaDecoderMemusageNocheck, lzDecoderMemusage]
  omega

theorem runAloneFrom_peak (b : Build) (base allow : Nat) (hbase : base + 4096 ≤ MEMUSAGE_BASE + allow) (picky : Bool)
    (r : Run) (inp : List UInt8) (hch : r.core.chain = []) (hl : r.core.heap.live = base) (hp : r.core.heap.peak ≤ base) :
    PeakOk allow (runAloneFrom b picky r inp).2.core := by
  have h0 : PeakOk allow r.core := by unfold PeakOk; omega
  simp only [runAloneFrom]
  by_cases hlen : inp.length < 13
  · simp only [hlen, ↓reduceIte]; exact h0
  · simp only [hlen, ↓reduceIte]
    cases hh : aloneHeader picky inp with
    | error e => obtain ⟨e1, used⟩ := e; exact h0
    | ok o =>
      dsimp only
      cases hm : lzmaDecoderMemusage b o with
      | none => exact h0
      | some m =>
        dsimp only
        have hfit := lzma1_allocs_fit b o
        have hmeq : m = lzmaDecoderMemusageNocheck b o := by
          simp only [lzmaDecoderMemusage] at hm
          split at hm
          · exact (Option.some.inj hm).symm
          · cases hm
        have hpre : CoderPre b base allow o
            ({ r with consumed := r.consumed + 13, core := { r.core with memusage := m + MEMUSAGE_BASE } } : Run).core :=
          ⟨hch, hl, by show r.core.heap.peak ≤ max MEMUSAGE_BASE r.core.memlimit + allow; omega,
            by show base + _ ≤ m + MEMUSAGE_BASE + allow; omega⟩
        have := coderInitLoop_peak b base allow o
          (({ r with consumed := r.consumed + 13, core := { r.core with memusage := m + MEMUSAGE_BASE } } : Run).sets.length + 2) _ hpre
        cases hq : coderInitLoop b o
          (({ r with consumed := r.consumed + 13, core := { r.core with memusage := m + MEMUSAGE_BASE } } : Run).sets.length + 2)
          { r with consumed := r.consumed + 13, core := { r.core with memusage := m + MEMUSAGE_BASE } } with
        | mk code r2 =>
          rw [hq] at this
          dsimp only at this ⊢
          split <;> exact this

theorem runLzipFrom_peak (b : Build) (base allow : Nat) (hbase : base + 4096 ≤ MEMUSAGE_BASE + allow) (fl : Flags)
    (r : Run) (inp : List UInt8) (hch : r.core.chain = []) (hl : r.core.heap.live = base) (hp : r.core.heap.peak ≤ base) :
    PeakOk allow (runLzipFrom b fl r inp).2.core := by
  have h0 : PeakOk allow r.core := by unfold PeakOk; omega
  simp only [runLzipFrom]
  by_cases hl4 : inp.length < 4
  · simp only [hl4, ↓reduceIte]; exact h0
  · simp only [hl4, ↓reduceIte]
    by_cases hmagic : inp.take 4 ≠ [0x4C, 0x5A, 0x49, 0x50]
    · simp only [if_pos hmagic]; exact h0
    · simp only [if_neg hmagic]
      by_cases hl5 : inp.length < 5
      · simp only [hl5, ↓reduceIte]; exact h0
      · simp only [hl5, ↓reduceIte]
        by_cases hver : (inp.getD 4 0).toNat > 1
        · simp only [hver, ↓reduceIte]; exact h0
        · simp only [hver, ↓reduceIte]
          have hcore : (if fl.tellAny = true then r.emit (.chk 4) else r).core = r.core := by split <;> rfl
          generalize (if fl.tellAny = true then r.emit (.chk 4) else r) = q at hcore ⊢
          by_cases hl6 : inp.length < 6
          · simp only [hl6, ↓reduceIte]; show PeakOk allow q.core; rw [hcore]; exact h0
          · simp only [hl6, ↓reduceIte]
            cases hd : lzipDict (inp.getD 5 0).toNat with
            | none => show PeakOk allow q.core; rw [hcore]; exact h0
            | some d =>
              dsimp only
              have hfit := lzma1_allocs_fit b { dict := d, lc := 3, lp := 0, pb := 2 }
              have hpre : CoderPre b base allow { dict := d, lc := 3, lp := 0, pb := 2 }
                  ({ q with consumed := q.consumed + 6, core := { q.core with memusage := lzmaDecoderMemusageNocheck b { dict := d, lc := 3, lp := 0, pb := 2 } + MEMUSAGE_BASE } } : Run).core :=
                ⟨by show q.core.chain = []; rw [hcore]; exact hch, by show q.core.heap.live = base; rw [hcore]; exact hl,
                  by show q.core.heap.peak ≤ max MEMUSAGE_BASE q.core.memlimit + allow; rw [hcore]; omega,
                  by show base + _ ≤ lzmaDecoderMemusageNocheck b { dict := d, lc := 3, lp := 0, pb := 2 } + MEMUSAGE_BASE + allow; omega⟩
              have := coderInitLoop_peak b base allow { dict := d, lc := 3, lp := 0, pb := 2 }
                (({ q with consumed := q.consumed + 6, core := { q.core with memusage := lzmaDecoderMemusageNocheck b { dict := d, lc := 3, lp := 0, pb := 2 } + MEMUSAGE_BASE } } : Run).sets.length + 2) _ hpre
              cases hq : coderInitLoop b { dict := d, lc := 3, lp := 0, pb := 2 }
                (({ q with consumed := q.consumed + 6, core := { q.core with memusage := lzmaDecoderMemusageNocheck b { dict := d, lc := 3, lp := 0, pb := 2 } + MEMUSAGE_BASE } } : Run).sets.length + 2)
                { q with consumed := q.consumed + 6, core := { q.core with memusage := lzmaDecoderMemusageNocheck b { dict := d, lc := 3, lp := 0, pb := 2 } + MEMUSAGE_BASE } } with
              | mk code r2 =>
                rw [hq] at this
                dsimp only at this ⊢
                split <;> exact this

theorem start2_live_peak (x y : Nat) :
    (({} : Heap).allocs [x, y]).live = x + y ∧ (({} : Heap).allocs [x, y]).peak ≤ x + y := by
  have h1 := allocs_peak_le [x, y] ({} : Heap)
  simp only [List.sum_cons, List.sum_nil] at h1
  have h0 : ({} : Heap).peak = 0 := rfl
  have h3 : ({} : Heap).live = 0 := rfl
  refine ⟨by simp [allocs_live], by omega⟩

theorem aloneRun_peak (b : Build) (hb : b.Ok) (limit : Nat) (sets : List SetTok) (inp : List UInt8) :
    PeakOk 0 (aloneRun b limit sets inp).2.core := by
  have hx := hb.aloneDec
  obtain ⟨h1, h2⟩ := start2_live_peak b.szInternal b.szAloneDecoder
  exact runAloneFrom_peak b (b.szInternal + b.szAloneDecoder) 0 (by omega) false (aloneStart b limit sets) inp rfl h1 h2

theorem lzipRun_peak (b : Build) (hb : b.Ok) (flags limit : Nat) (sets : List SetTok) (inp : List UInt8) :
    PeakOk 0 (lzipRun b flags limit sets inp).2.core := by
  have hx := hb.aloneDec
  obtain ⟨h1, h2⟩ := start2_live_peak b.szInternal b.szLzipDecoder
  exact runLzipFrom_peak b (b.szInternal + b.szLzipDecoder) 0 (by omega) (Flags.ofNat flags) (lzipStart b limit sets) inp rfl h1 h2

/-- `lzma_auto_decoder` whatever the format: peak ≤ max(LZMA_MEMUSAGE_BASE, limit) + sizeof(auto decoder). -/
theorem autoRun_peak (b : Build) (hb : b.Ok) (flags limit : Nat) (sets : List SetTok) (inp : List UInt8) :
    PeakOk b.szAutoDecoder (autoRun b flags limit sets inp).2.core := by
  have hx := hb.aloneDec
  obtain ⟨h1, h2⟩ := start2_live_peak b.szInternal b.szAutoDecoder
  cases inp with
  | nil => simp only [autoRun, PeakOk]; omega
  | cons b0 tl =>
    simp only [autoRun]
    by_cases hxz : b0.toNat = 0xFD
    · simp only [hxz, ↓reduceIte]
      exact (autoXz_peak b hb (Flags.ofNat flags) (initLimit limit) sets _ (b0 :: tl)).peak
    · simp only [hxz, ↓reduceIte]
      by_cases hlz : b0.toNat = 0x4C
      · simp only [hlz, ↓reduceIte]
        have hpk := allocs_peak_le [b.szLzipDecoder] (({} : Heap).allocs [b.szInternal, b.szAutoDecoder])
        simp only [List.sum_cons, List.sum_nil] at hpk
        exact runLzipFrom_peak b (b.szInternal + b.szAutoDecoder + b.szLzipDecoder) b.szAutoDecoder (by omega) (Flags.ofNat flags)
          { core := { memlimit := initLimit limit, memusage := MEMUSAGE_BASE,
                      heap := (({} : Heap).allocs [b.szInternal, b.szAutoDecoder]).alloc b.szLzipDecoder },
            sets := sets, out := [Ev.init 0 MEMUSAGE_BASE (initLimit limit)] } (b0 :: tl) rfl
          (by show (({} : Heap).allocs [b.szInternal, b.szAutoDecoder]).live + b.szLzipDecoder = _; rw [h1])
          (by show ((({} : Heap).allocs [b.szInternal, b.szAutoDecoder]).allocs [b.szLzipDecoder]).peak ≤ _; omega)
      · simp only [hlz, ↓reduceIte]
        have hpk := allocs_peak_le [b.szAloneDecoder] (({} : Heap).allocs [b.szInternal, b.szAutoDecoder])
        simp only [List.sum_cons, List.sum_nil] at hpk
        apply runAloneFrom_peak b (b.szInternal + b.szAutoDecoder + b.szAloneDecoder) b.szAutoDecoder (by omega) true
        · split
          · rfl
          · split <;> rfl
        · have : ∀ q : Run, q.core.heap = (({} : Heap).allocs [b.szInternal, b.szAutoDecoder]).alloc b.szAloneDecoder →
              q.core.heap.live = b.szInternal + b.szAutoDecoder + b.szAloneDecoder := by
            intro q hq; rw [hq]
            show (({} : Heap).allocs [b.szInternal, b.szAutoDecoder]).live + b.szAloneDecoder = _; rw [h1]
          apply this
          split
          · rfl
          · split <;> rfl
        · have : ∀ q : Run, q.core.heap = (({} : Heap).allocs [b.szInternal, b.szAutoDecoder]).alloc b.szAloneDecoder →
              q.core.heap.peak ≤ b.szInternal + b.szAutoDecoder + b.szAloneDecoder := by
            intro q hq; rw [hq]
            show ((({} : Heap).allocs [b.szInternal, b.szAutoDecoder]).allocs [b.szAloneDecoder]).peak ≤ _; omega
          apply this
          split
          · rfl
          · split <;> rfl

/-! ## Index decoder -/

/-- `lzma_index_prealloc(count)`: the Index with one group of `n` Records is within `lzma_index_memusage(1, n)`. -/
theorem indexDecoder_group_le (b : Build) (n m : Nat) (hn : 0 < n) (hm : indexMemusage b 1 n = some m) :
    b.szIndex + b.szIndexStream + (b.szIndexGroup + n * b.szIndexRecord) ≤ m := by
  simp only [indexMemusage] at hm
  split at hm
  · cases hm
  · simp only [Option.some.injEq] at hm
    subst hm
    have hg : 1 ≤ (n + INDEX_GROUP_SIZE - 1) / INDEX_GROUP_SIZE := by simp only [INDEX_GROUP_SIZE]; omega
    have hn' : n ≤ (n + INDEX_GROUP_SIZE - 1) / INDEX_GROUP_SIZE * INDEX_GROUP_SIZE := by simp only [INDEX_GROUP_SIZE]; omega
    have h1 : n * b.szIndexRecord ≤ (n + INDEX_GROUP_SIZE - 1) / INDEX_GROUP_SIZE * INDEX_GROUP_SIZE * b.szIndexRecord :=
      Nat.mul_le_mul_right _ hn'
    generalize (n + INDEX_GROUP_SIZE - 1) / INDEX_GROUP_SIZE = g at *
    have h2 : g * (b.szIndexGroup + INDEX_GROUP_SIZE * b.szIndexRecord + 4 * b.szVoidPtr)
        = g * b.szIndexGroup + g * INDEX_GROUP_SIZE * b.szIndexRecord + g * (4 * b.szVoidPtr) := by
      rw [Nat.mul_add, Nat.mul_add, Nat.mul_assoc]
    have h3 : b.szIndexGroup ≤ g * b.szIndexGroup := Nat.le_mul_of_pos_left _ hg
    omega

/-- `lzma_index_decoder`: unless the limit is UINT64_MAX, never more live than the decoder's own structs or
    limit + sizeof(lzma_internal) + sizeof(the Index decoder). -/
theorem indexRun_peak (b : Build) (limit : Nat) (sets : List SetTok) (inp : List UInt8)
    (hlim : (indexRun b limit sets inp).2.core.memlimit < UINT64_MAX) :
    (indexRun b limit sets inp).2.core.heap.peak
      ≤ max (b.szInternal + b.szIndexDecoder + b.szIndex + b.szIndexStream)
            ((indexRun b limit sets inp).2.core.memlimit + b.szInternal + b.szIndexDecoder) := by
  have hH : (({} : Heap).allocs [b.szInternal, b.szIndexDecoder, b.szIndex, b.szIndexStream]).live
        = b.szInternal + b.szIndexDecoder + b.szIndex + b.szIndexStream
      ∧ (({} : Heap).allocs [b.szInternal, b.szIndexDecoder, b.szIndex, b.szIndexStream]).peak
        ≤ b.szInternal + b.szIndexDecoder + b.szIndex + b.szIndexStream := by
    have h1 := allocs_peak_le [b.szInternal, b.szIndexDecoder, b.szIndex, b.szIndexStream] ({} : Heap)
    simp only [List.sum_cons, List.sum_nil] at h1
    have h0 : ({} : Heap).peak = 0 := rfl
    have h3 : ({} : Heap).live = 0 := rfl
    exact ⟨by simp [allocs_live]; omega, by omega⟩
  generalize hHd : (({} : Heap).allocs [b.szInternal, b.szIndexDecoder, b.szIndex, b.szIndexStream]) = H at hH
  cases inp with
  | nil => simp only [indexRun, hHd]; omega
  | cons ind r0 =>
    by_cases hind : ind.toNat ≠ 0
    · simp only [indexRun, if_pos hind, hHd]; omega
    · cases hv : Vli.vliDecode r0 with
      | none => simp only [indexRun, if_neg hind, hv, hHd]; omega
      | some v =>
        obtain ⟨count, r1⟩ := v
        rw [indexRun_some b limit sets ind r0 r1 count hind hv] at hlim ⊢
        unfold retryThen at hlim ⊢
        have hstartH : (indexStart b limit sets ((ind :: r0).length - r1.length) count).core.heap = H := hHd
        have hinv := retryLoop_inv
          (fun c => c.heap = H ∧ c.memusage = (indexMemusage b 1 count).getD UINT64_MAX)
          (fun c => c.heap = H ∧ c.memusage = (indexMemusage b 1 count).getD UINT64_MAX) indexAttempt
          (by
            intro c c' hc ha
            simp only [indexAttempt] at ha
            split at ha
            · rename_i hgt
              simp only [Prod.mk.injEq, true_and] at ha
              subst ha; exact ⟨hc, hgt⟩
            · simp at ha)
          (by
            intro c k c' hc ha
            simp only [indexAttempt] at ha
            split at ha
            · simp at ha
            · simp only [Prod.mk.injEq, InitResult.done.injEq] at ha
              rw [← ha.2]; exact hc)
          (fun c l hc _ => hc) (fun _ hc => hc)
          ((indexStart b limit sets ((ind :: r0).length - r1.length) count).sets.length + 2)
          (indexStart b limit sets ((ind :: r0).length - r1.length) count) ⟨hstartH, rfl⟩
        have hlast := retryLoop_last Core.SimU indexAttempt indexAttempt_restartable
          ((indexStart b limit sets ((ind :: r0).length - r1.length) count).sets.length + 2)
          (indexStart b limit sets ((ind :: r0).length - r1.length) count)
        cases hq : retryLoop indexAttempt ((indexStart b limit sets ((ind :: r0).length - r1.length) count).sets.length + 2)
            (indexStart b limit sets ((ind :: r0).length - r1.length) count) with
        | mk code r2 =>
          rw [hq] at hinv hlim
          obtain ⟨_, _, hcase⟩ := hlast code r2 (by omega) hq
          dsimp only at hinv hlim ⊢
          obtain ⟨hheap, hmu⟩ := hinv
          by_cases hc0 : code ≠ 0
          · simp only [if_pos hc0] at hlim ⊢
            rw [hheap]; omega
          · simp only [if_neg hc0] at hlim ⊢
            have hle : r2.core.memusage ≤ r2.core.memlimit := by
              rcases hcase with ⟨h6, _⟩ | ⟨c, _, hac⟩
              · omega
              · simp only [indexAttempt] at hac
                split at hac
                · simp at hac
                · rename_i hng
                  simp only [Prod.mk.injEq, InitResult.done.injEq] at hac
                  rw [← hac.2]; omega
            unfold indexFin at hlim ⊢
            cases hid : Container.indexDecode (ind :: r0) with
            | error e => dsimp only; rw [hheap]; omega
            | ok v2 =>
              obtain ⟨recs, rest⟩ := v2
              rw [hid] at hlim
              dsimp only at hlim ⊢
              by_cases hcz : count = 0
              · simp only [hcz, ↓reduceIte]; rw [hheap]; omega
              · simp only [hcz, ↓reduceIte]
                show max r2.core.heap.peak (r2.core.heap.live + _) ≤ _
                rw [hheap]
                cases hm : indexMemusage b 1 count with
                | none =>
                  rw [hm] at hmu
                  simp only [Option.getD_none] at hmu
                  omega
                | some m =>
                  rw [hm] at hmu
                  simp only [Option.getD_some] at hmu
                  have := indexDecoder_group_le b count m (by omega) hm
                  omega

end XzVerif.Memlimit
