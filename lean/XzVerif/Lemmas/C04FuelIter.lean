/-
  C04 (termination / totality), part 3: fuel of the `lzma_index` iterator models (they belong to property C13; the
  results here complement Props/C13 `iter_next_refines_spec`, `iter_visits_once`, `iter_listing_exact`, which show that
  with `iterFuel` the iterator returns exactly the declarative listing, i.e. is not cut short).

  Model/IndexSpec.lean: `Spec.nextStreamFrom`, `Spec.iterNextPos` (fuel `Spec.iterFuel`);
  Model/IndexImpl.lean: `Impl.nextStreamFrom`, `Impl.bsearch`.
-/
import XzVerif.Lemmas.IndexIterAll

namespace XzVerif.Index

namespace Spec

/-- `nextStreamFrom`: one unit of fuel per Stream skipped; past the end of the list it returns `none` by itself. -/
theorem nextStreamFrom_fuel (i : Index) (mode : Nat) : ∀ (fuel si : Nat), i.length < si + fuel →
    ∀ k, nextStreamFrom i mode (fuel + k) si = nextStreamFrom i mode fuel si
  | 0, si, h, k => by
    have hn : i[si]? = none := List.getElem?_eq_none_iff.mpr (by omega)
    cases k with
    | zero => rfl
    | succ k => simp [nextStreamFrom, hn]
  | f + 1, si, h, k => by
    rw [show f + 1 + k = (f + k) + 1 by omega]
    simp only [nextStreamFrom]
    split
    · rfl
    · split
      · exact nextStreamFrom_fuel i mode f (si + 1) (by omega) k
      · rfl

/-- both call sites in `advance` supply `i.length + 1` -/
theorem advance_supplies_enough (i : Index) (mode si k : Nat) :
    nextStreamFrom i mode (i.length + 1 + k) si = nextStreamFrom i mode (i.length + 1) si :=
  nextStreamFrom_fuel i mode (i.length + 1) si (by omega) k

theorem leastAbove_unique {L : List Pos} {cur : Option Pos} {q q' : Pos}
    (h : LeastAbove plt L cur q) (h' : LeastAbove plt L cur q') : q = q' := by
  rcases h.2.2 q' h'.1 h'.2.1 with e | l
  · exact e.symm
  · rcases h'.2.2 q h.1 h.2.1 with e | l'
    · exact e
    · exact absurd (plt_trans _ _ _ l l') (plt_irr q)

/-- `iterNextPos` (the `goto again` loop of `lzma_index_iter_next`) with `iterFuel` and more, from a position that
    names an existing Stream (`CurOk`; every position an iterator can hold satisfies it). -/
theorem iterNextPos_fuel (i : Index) (mode : Nat) (cur : Option Pos) (hc : CurOk i cur) (k : Nat) :
    iterNextPos i mode (iterFuel i + k) cur = iterNextPos i mode (iterFuel i) cur := by
  have hf : iterFuel i = (blockCount i + i.length + 1) + 1 := rfl
  have hf' : iterFuel i + k = (blockCount i + i.length + 1 + k) + 1 := by rw [hf]; omega
  by_cases hm : mode ≤ 2
  · rw [hf', hf, iterNextPos_low i hm, iterNextPos_low i hm]
  · by_cases h3 : mode = 3
    · subst h3
      have h1 := List.length_filter_le (fun y => decide (above cur y)) (positions i false)
      have h2 := positions_length_le i false
      have s1 := iterNextPos3_spec i (iterFuel i + k) cur hc (by rw [hf]; omega)
      have s2 := iterNextPos3_spec i (iterFuel i) cur hc (by rw [hf]; omega)
      cases e1 : iterNextPos i 3 (iterFuel i + k) cur with
      | none =>
        cases e2 : iterNextPos i 3 (iterFuel i) cur with
        | none => rfl
        | some q =>
          rw [e1] at s1; rw [e2] at s2
          exact absurd s2.2.1 (s1 q s2.1)
      | some q =>
        cases e2 : iterNextPos i 3 (iterFuel i) cur with
        | none =>
          rw [e1] at s1; rw [e2] at s2
          exact absurd s1.2.1 (s2 q s1.1)
        | some q' =>
          rw [e1] at s1; rw [e2] at s2
          rw [leastAbove_unique s1 s2]
    · rw [hf', hf]
      unfold iterNextPos
      rw [if_pos (by omega), if_pos (by omega)]

/-- the full iteration `iterSeq` (call `next` until it fails, at most `n` times): `iterFuel` calls and more return
    the same list (the whole listing after `cur`) -/
theorem iterSeq_fuel (i : Index) (mode : Nat) (cur : Option Pos) (hc : CurOk i cur) (k : Nat) :
    iterSeq i mode (iterFuel i + k) cur = iterSeq i mode (iterFuel i) cur := by
  rw [iterSeq_from i mode cur hc, iterSeq_eq_seqG]
  apply seqG_eq_filter plt plt_irr plt_trans (listingM_sorted i mode) _ (CurOk i)
    (fun y hy => listingM_curOk hy) (fun cur hc => by
      have h := iterNextPos_spec i mode cur hc
      constructor
      · intro q hq; rw [hq] at h; exact h
      · intro hq; rw [hq] at h; exact h) _ cur hc
  have h1 := List.length_filter_le (fun y => decide (aboveG plt cur y)) (listingM i mode)
  have h2 := listingM_length_le i mode
  unfold iterFuel; omega

end Spec

namespace Impl

/-- `bsearch` of `lzma_index_iter_locate`: the interval halves, `right - left + 1` units suffice. -/
theorem bsearch_fuel (g : Group) (t : Nat) : ∀ (fuel left right : Nat), right - left < fuel →
    ∀ k, bsearch g t (fuel + k) left right = bsearch g t fuel left right
  | 0, _, _, h, _ => by omega
  | f + 1, left, right, h, k => by
    rw [show f + 1 + k = (f + k) + 1 by omega]
    simp only [bsearch]
    split
    · split
      · exact bsearch_fuel g t f _ right (by omega) k
      · exact bsearch_fuel g t f left _ (by omega) k
    · rfl

/-- `iterLocate` supplies `g.records.size + 1` for the interval `[0, g.last]`, `g.last < g.records.size`
    (`g.last = g.records.size - 1`). -/
theorem iterLocate_supplies_enough (g : Group) (t : Nat) (k : Nat) :
    bsearch g t (g.records.size + 1 + k) 0 g.last = bsearch g t (g.records.size + 1) 0 g.last :=
  bsearch_fuel g t (g.records.size + 1) 0 g.last (by unfold Group.last; omega) k

/-- `Impl.nextStreamFrom` on a well-formed index (`Inv`): `i.streams.count + 1` units (what `nextLoop` supplies)
    and more give the same Stream. -/
theorem nextStreamFrom_fuel {i : Index} (hi : Inv i) (mode si k : Nat) :
    nextStreamFrom i mode (i.streams.count + 1 + k) si = nextStreamFrom i mode (i.streams.count + 1) si := by
  rw [nextStreamFrom_sim hi, nextStreamFrom_sim hi, count_eq_length hi]
  exact Spec.advance_supplies_enough (abs i) mode si k

/-- `nextLoop` only recurses in mode 3 (LZMA_INDEX_ITER_NONEMPTY_BLOCK): in the other modes one unit suffices. -/
theorem nextLoop_fuel_of_ne3 (i : Index) {mode : Nat} (hm : mode ≠ 3) (f k : Nat) (st gr : Option Nat) (rec : Nat) :
    nextLoop i mode (f + 1 + k) st gr rec = nextLoop i mode (f + 1) st gr rec := by
  rw [show f + 1 + k = (f + k) + 1 by omega, nextLoop_succ, nextLoop_succ]
  cases stepC i mode st gr rec with
  | none => rfl
  | some c =>
    obtain ⟨sj, g?, r⟩ := c
    simp only
    rw [if_neg (fun h => hm h.1), if_neg (fun h => hm h.1)]

theorem curOk_of_condC {i : Index} {mode : Nat} {st gr : Option Nat} {rec : Nat} (hC : CondC i mode st gr rec) :
    Spec.CurOk (abs i) (toSpecPos i st gr rec) := by
  intro c hc
  unfold toSpecPos at hc
  unfold CondC at hC
  cases st with
  | none => cases hc
  | some si =>
    obtain ⟨s, hs, _⟩ := hC
    simp only [Option.map_some, Option.some.injEq] at hc
    subst hc
    show si < (abs i).length
    have := (List.getElem?_eq_some_iff.mp hs).1
    unfold abs CTree.toList at *; simpa using this

/-- mode 3 on a well-formed index: every repetition skips one (empty) Block, so the number of Block positions after
    the current one bounds the recursion. -/
theorem nextLoop_fuel3 {i : Index} (hi : Inv i) : ∀ (fuel : Nat) (st gr : Option Nat) (rec : Nat),
    CondC i 3 st gr rec →
    ((Spec.positions (abs i) false).filter fun y => decide (Spec.above (toSpecPos i st gr rec) y)).length < fuel →
    ∀ k, nextLoop i 3 (fuel + k) st gr rec = nextLoop i 3 fuel st gr rec
  | 0, _, _, _, _, h, _ => by omega
  | f + 1, st, gr, rec, hC, hlen, k => by
    rw [show f + 1 + k = (f + k) + 1 by omega, nextLoop_succ, nextLoop_succ]
    obtain ⟨h1, h2⟩ := step_sim hi hC
    cases hstep : stepC i 3 st gr rec with
    | none => rfl
    | some c =>
      obtain ⟨sj, g?, r⟩ := c
      simp only
      by_cases he : emptyBlockAt i sj g? r = true
      · rw [if_pos ⟨trivial, he⟩, if_pos ⟨trivial, he⟩]
        have hok : PosOk i (some sj) g? r := h2 (sj, g?, r) hstep
        have hC' : CondC i 3 (some sj) g? r := condC_of_posOk (by omega) hok
        apply nextLoop_fuel3 hi f (some sj) g? r hC'
        -- the new position is the least Block position above the old one
        rw [hstep, Spec.advance_mode3] at h1
        have hadv := Spec.advance_spec (abs i) (Nat.le_refl 2) (toSpecPos i st gr rec) (curOk_of_condC hC)
        rw [← h1] at hadv
        simp only [Option.map_some] at hadv
        have hleast := Spec.leastAbove_of_advance (Nat.le_refl 2) hadv
        have hcons := filter_above_cons Spec.plt Spec.plt_irr Spec.plt_trans (Spec.listing_sorted (abs i) 2) hleast
        rw [Spec.listing_two] at hcons
        have hlen' := hlen
        simp only [Spec.above] at hlen' ⊢
        rw [hcons] at hlen'
        simp only [List.length_cons] at hlen'
        show (List.filter (fun y => decide (aboveG Spec.plt (some (specOf i (sj, g?, r))) y))
          (Spec.positions (abs i) false)).length < f
        omega
      · rw [if_neg (fun h => he h.2), if_neg (fun h => he h.2)]

/-- `iterNext` supplies `iterFuel i` to `nextLoop`: on a well-formed index, from any valid iterator state, every
    larger amount of fuel gives the same position. -/
theorem iterNext_supplies_enough {i : Index} (hi : Inv i) {mode : Nat} (st gr : Option Nat) (rec : Nat)
    (hC : CondC i mode st gr rec) (k : Nat) :
    nextLoop i mode (iterFuel i + k) st gr rec = nextLoop i mode (iterFuel i) st gr rec := by
  have hf : iterFuel i = (i.recordCount + i.streams.count + 1) + 1 := rfl
  by_cases h3 : mode = 3
  · subst h3
    apply nextLoop_fuel3 hi _ st gr rec hC
    have h1 := List.length_filter_le (fun y => decide (Spec.above (toSpecPos i st gr rec) y)) (Spec.positions (abs i) false)
    have h2 := Spec.positions_length_le (abs i) false
    rw [iterFuel_eq hi]
    unfold Spec.iterFuel
    omega
  · rw [hf]; exact nextLoop_fuel_of_ne3 i h3 _ k st gr rec

/-- `Impl.iterAll` supplies `iterFuel i` to `iterAllGo` (one unit per returned item): on a well-formed index every
    larger amount returns the same list, i.e. the listing is never cut short. -/
theorem iterAll_supplies_enough {i : Index} (hi : Inv i) (mode k : Nat) :
    iterAllGo i mode (iterFuel i + k) Iter.rewind = iterAll i mode := by
  unfold iterAll
  rw [iterAllGo_sim hi mode _ _ (iterOk_rewind i), iterAllGo_sim hi mode _ _ (iterOk_rewind i), specPos_rewind,
    iterFuel_eq hi, Spec.iterSeq_fuel (abs i) mode none (by intro c hc; cases hc) k]

end Impl

end XzVerif.Index
