/-
  Helper lemmas for C18: option parsing as a fold (Model/XzArgs.lean). Core Lean only.
-/
import XzVerif.Model.XzArgs

namespace XzVerif.XzArgs

theorem parseStep_comm (c : Conf) (a b : Arg) (h : a.slot ≠ b.slot ∨ a = b) :
    parseStep (parseStep c a) b = parseStep (parseStep c b) a := by
  rcases h with h | h
  · cases a <;> cases b <;> first | rfl | (exact absurd rfl h)
  · subst h; rfl

theorem foldl_perm {l1 l2 : List Arg} (hp : l1.Perm l2) :
    (l1.map Arg.slot).Nodup → ∀ c : Conf, l1.foldl parseStep c = l2.foldl parseStep c := by
  induction hp with
  | nil => intro _ _; rfl
  | cons a _ ih =>
    intro hn c
    simp only [List.map_cons, List.nodup_cons] at hn
    simp only [List.foldl_cons]
    exact ih hn.2 _
  | swap a b l =>
    intro hn c
    simp only [List.map_cons, List.nodup_cons, List.mem_cons, not_or] at hn
    simp only [List.foldl_cons]
    rw [parseStep_comm c b a (Or.inl hn.1.1)]
  | trans h1 _ ih1 ih2 =>
    intro hn c
    rw [ih1 hn c]
    exact ih2 ((h1.map Arg.slot).nodup_iff.mp hn) c

theorem mode_of_foldl (l : List Arg) : ∀ c : Conf,
    (l.foldl parseStep c).mode = ((l.filterMap fun a => match a with | .mode m => some m | _ => none).getLast?).getD c.mode := by
  induction l with
  | nil => intro c; rfl
  | cons a t ih =>
    intro c
    simp only [List.foldl_cons, ih]
    cases a <;> simp [parseStep, List.getLast?_cons]

theorem flushTimeout_of_foldl (l : List Arg) : ∀ c : Conf,
    (l.foldl parseStep c).flushTimeout =
      ((l.filterMap fun a => match a with | .flushTimeout n => some n | _ => none).getLast?).getD c.flushTimeout := by
  induction l with
  | nil => intro c; rfl
  | cons a t ih =>
    intro c
    simp only [List.foldl_cons, ih]
    cases a <;> simp [parseStep, List.getLast?_cons]


end XzVerif.XzArgs
