/-
  LiveInv across read_output_and_wait (label rowIter), label enablePartial, and the end of a direct-mode threads_end.
-/
import XzVerif.Lemmas.MtDecLive6

namespace XzVerif.MtDec

/-- Removing a finished head: everything but the head clause survives, and the new head still has its worker link. -/
theorem LiveG.pop {H : State → Prop} {s s2 : State} (h : LiveG H s) (a : Outbuf) (t : List Outbuf) (hq : s.queue = a :: t)
    (e1 : s2.queue = t) (e2 : s2.workers = s.workers) (e3 : s2.pc = s.pc) (e4 : s2.seq = s.seq) (e5 : s2.thr = s.thr)
    (e6 : s2.blocks = s.blocks) (e7 : s2.cur = s.cur) (e8 : s2.cfg = s.cfg) (e9 : s2.threadsFree = s.threadsFree) :
    LiveG HeadWeak s2 := by
  have eg : ∀ j, getW s2 j = getW s j := fun j => by simp [getW, e2]
  have eo : ∀ o j, Owner s2 o j ↔ Owner s o j := fun o j => by simp [Owner, e2, eg]
  have sub : ∀ o, o ∈ s2.queue → o ∈ s.queue := fun o ho => by rw [hq]; exact List.mem_cons_of_mem _ (e1 ▸ ho)
  have ebk : ∀ j, blk s2 j = blk s j := fun j => by simp [blk, e6]
  refine ⟨?_, ?_, ?_, ?_, ?_, ?_, ?_, ?_, ?_, ?_, ?_, ?_, ?_, ?_, ?_⟩
  · intro o ho hf
    obtain ⟨j, hj⟩ := h.own o (sub o ho) hf
    exact ⟨j, (eo o j).mpr hj⟩
  · intro j hj; rw [e2] at hj; rw [eg, e3, e5]; exact h.run j hj
  · intro o ho w hw hf; exact (eo o w).mpr (h.wrk o (sub o ho) w hw hf)
  · intro hh t2 hq2 o ho
    rw [e1] at hq2
    exact h.tailW a t hq o (by rw [hq2]; exact List.mem_cons_of_mem _ ho)
  · intro hh t2 hq2 _
    rw [e1] at hq2
    exact Or.inr (h.tailW a t hq hh (by rw [hq2]; simp))
  · intro j hj ho hl hpu o hoq hb
    rw [e2] at hj; rw [eg] at ho hl hpu hb ⊢
    exact h.pub j hj ho hl hpu o (sub o hoq) hb
  · intro j hj; rw [e2] at hj; rw [eg]; exact h.snap j hj
  · intro j hj; rw [e2] at hj; rw [eg, e5]; exact h.full j hj
  · intro j hj; rw [e2] at hj; rw [eg]; exact h.pos j hj
  · rw [e4, e3, e5]; exact h.thr0
  · rw [e4, e3, e7, ebk]; exact h.kindThr
  · rw [e4, e7, ebk]; exact h.kindInit
  · rw [e4, e5]; exact h.thrSome
  · rw [e3, e5]; exact h.thr5
  · rw [e3, e2, e8, e9]; exact h.canGet

/-- One lzma_outq_read followed (if it removed a good head) by lzma_outq_enable_partial_output. -/
theorem LiveInv.readStep {s : State} (h : LiveInv s) (hD : DataInv s) :
    ((outqRead s).2 = OK → LiveInv (outqRead s).1) ∧
    ((outqRead s).2 = END → LiveInv (enablePartialHead (outqRead s).1)) := by
  obtain ⟨_, d1, _⟩ := outqRead_spec hD
  have e := outqRead_eq s
  cases hq : s.queue with
  | nil =>
    rw [hq] at e
    simp only at e
    rw [e]
    exact ⟨fun _ => h, fun hx => by cases hx⟩
  | cons a t =>
    rw [hq] at e
    simp only at e
    by_cases hc : (!a.finished || decide ((readAdv s a).readPos < a.pos)) = true
    · rw [if_pos hc] at e
      rw [e]
      refine ⟨fun _ => ?_, fun hx => by cases hx⟩
      exact h.frame rfl rfl rfl (fun i x => x) (fun x => x) h.thr0 h.kindThr h.kindInit h.thrSome h.thr5 h.canGet
    · rw [if_neg hc] at e
      constructor
      · intro hr
        rw [e] at hr ⊢
        -- a finished outbuf never carries LZMA_OK
        exfalso
        have hfin : a.finished = true := by
          cases hf : a.finished with
          | true => rfl
          | false => simp [hf] at hc
        have := (hD.fin a (by rw [hq]; simp) hfin).2
        exact (blk_wf hD a.blk).1 (this ▸ hr)
      · intro hr
        have hD2 := d1 (Or.inr hr)
        rw [e] at hD2 ⊢
        have hw : LiveG HeadWeak (popHead (readAdv s a) t) :=
          h.pop a t hq rfl rfl rfl rfl rfl rfl rfl rfl rfl
        exact (hw.enable hD2).mono HeadOn.ok

theorem LiveInv.readLoop (fuel : Nat) : ∀ {s : State}, LiveInv s → DataInv s → (readLoop fuel s).2 = OK →
    LiveInv (readLoop fuel s).1 := by
  induction fuel with
  | zero => intro s h _ _; exact h
  | succ fuel ih =>
    intro s h hD hr
    obtain ⟨_, d1, _⟩ := outqRead_spec hD
    have rs := h.readStep hD
    simp only [MtDec.readLoop] at hr ⊢
    split
    · rename_i hend
      rw [if_pos hend] at hr
      exact ih (rs.2 hend) (d1 (Or.inr hend)).enablePartialHead hr
    · rename_i hne
      rw [if_neg hne] at hr
      exact rs.1 hr

theorem rowLeaveOrWait_canStart {s : State} {k : RowK} {w : Bool}
    (h : (rowLeaveOrWait s k w).pc = .rowDone .canStart OK true) :
    s.workers.length < s.cfg.threadsMax ∨ s.threadsFree ≠ [] := by
  unfold rowLeaveOrWait at h
  split at h
  · rename_i hc
    simp only [Bool.and_eq_true] at hc
    have := hc.2
    unfold canStartNow at this
    simp only [Bool.and_eq_true, Bool.or_eq_true, decide_eq_true_eq, Bool.not_eq_true'] at this
    rcases this.2 with x | x
    · exact Or.inl x
    · exact Or.inr (by intro e; rw [e] at x; simp at x)
  · repeat' split at h
    all_goals first
      | (cases h; done)
      | (injection h with _ _ e3; cases e3)

/-- LiveInv across one critical section of read_output_and_wait that did not remove a failed Block. -/
theorem LiveInv.rowIterate {s : State} (h : LiveInv s) (hI : Inv s) (k : RowK) (w : Bool) (hk : rowKOf s.pc = some k)
    (hok : (MtDec.readLoop (s.queue.length + 1) s).2 = OK) : LiveInv (MtDec.rowIterate s k w) := by
  have h1 := h.readLoop (s.queue.length + 1) hI.1 hok
  obtain ⟨f, _, _, _⟩ := readLoop_spec (s.queue.length + 1) hI.1
  obtain ⟨core, hk1⟩ := rowIterate_core s k w
  have hseq : s.seq = seqOfRowK k := hI.2.rowK k hk
  -- in the loop result the main thread is still inside read_output_and_wait
  have hpcs : ∀ {P : Prop}, (s.pc = .init1 ∨ s.pc = .init2 ∨ s.pc = .init3 ∨ s.pc = .init4 ∨ s.pc = .init5) → P := by
    intro P hx; exfalso
    rcases hx with e | e | e | e | e <;> (rw [e] at hk; simp [rowKOf] at hk)
  have hpc' : ∀ {P : Prop}, ((MtDec.rowIterate s k w).pc = .init1 ∨ (MtDec.rowIterate s k w).pc = .init2 ∨ (MtDec.rowIterate s k w).pc = .init3 ∨
      (MtDec.rowIterate s k w).pc = .init4 ∨ (MtDec.rowIterate s k w).pc = .init5) → P := by
    intro P hx; exfalso
    rcases hx with e | e | e | e | e <;> (rw [e] at hk1; simp [rowKOf] at hk1)
  have eg : ∀ j, getW (MtDec.rowIterate s k w) j = getW (MtDec.readLoop (s.queue.length + 1) s).1 j := fun j => by simp [getW, core.workers]
  have eo : ∀ o j, Owner (MtDec.rowIterate s k w) o j ↔ Owner (MtDec.readLoop (s.queue.length + 1) s).1 o j :=
    fun o j => by simp [Owner, core.workers, eg]
  have ebk : ∀ j, blk (MtDec.rowIterate s k w) j = blk s j := fun j => by simp [blk, core.blocks, f.blocks]
  have h1pc : (MtDec.readLoop (s.queue.length + 1) s).1.pc = s.pc := f.pc
  refine ⟨?_, ?_, ?_, ?_, ?_, ?_, ?_, ?_, ?_, ?_, ?_, ?_, ?_, ?_, ?_⟩
  · intro o ho hf
    obtain ⟨j, hj⟩ := h1.own o (core.queue ▸ ho) hf
    exact ⟨j, (eo o j).mpr hj⟩
  · intro j hj ho hb
    rw [core.workers] at hj; rw [eg] at ho hb ⊢
    rcases h1.run j hj ho hb with x | ⟨x, _⟩
    · exact Or.inl x
    · rw [h1pc] at x; exact hpcs (Or.inr (Or.inr (Or.inr (Or.inl x))))
  · intro o ho w' hw hf; exact (eo o w').mpr (h1.wrk o (core.queue ▸ ho) w' hw hf)
  · intro hh t hq; rw [core.queue] at hq; exact h1.tailW hh t hq
  · intro hh t hq hf
    rw [core.queue] at hq
    rcases h1.head hh t hq hf with ⟨a, b⟩ | ⟨_, b, _⟩
    · exact Or.inl ⟨a, fun j hj => by rw [eg]; exact b j ((eo hh j).mp hj)⟩
    · rw [h1pc] at b
      rcases b with e | e
      · exact hpcs (Or.inr (Or.inr (Or.inr (Or.inl e))))
      · exact hpcs (Or.inr (Or.inr (Or.inr (Or.inr e))))
  · intro j hj ho hl hpu o hoq hb
    rw [core.workers] at hj; rw [eg] at ho hl hpu hb ⊢
    exact h1.pub j hj ho hl hpu o (core.queue ▸ hoq) hb
  · intro j hj lim hp
    rw [core.workers] at hj; rw [eg] at hp ⊢
    exact h1.snap j hj lim hp
  · intro j hj ho ht
    rw [core.workers] at hj; rw [eg] at ho ⊢; rw [core.thr] at ht
    exact h1.full j hj ho ht
  · intro j hj ho hb
    rw [core.workers] at hj; rw [eg] at ho hb ⊢
    exact h1.pos j hj ho hb
  · intro hx
    rw [core.seq, f.seq] at hx
    rw [core.thr, f.thr]
    rcases h.thr0 hx with e | e
    · exact hpcs (Or.inr (Or.inr e))
    · exact Or.inr e
  · intro hx
    rw [core.seq, f.seq] at hx
    rw [core.cur, f.cur, ebk]
    rcases h.kindThr hx with e | e | e
    · exact Or.inl e
    · exact hpcs (Or.inr (Or.inr (Or.inr (Or.inl e))))
    · exact hpcs (Or.inr (Or.inr (Or.inr (Or.inr e))))
  · intro hx
    rw [core.seq, f.seq] at hx
    rw [core.cur, f.cur, ebk]
    exact h.kindInit hx
  · intro hx
    rw [core.seq, f.seq] at hx
    rw [core.thr, f.thr]
    exact h.thrSome hx
  · intro hx; exact hpc' (Or.inr (Or.inr (Or.inr (Or.inr hx))))
  · intro hx
    rcases hx with e | e | e | e
    · exact hpc' (Or.inl e)
    · exact hpc' (Or.inr (Or.inl e))
    · rw [e] at hk1; simp [rowKOf] at hk1
      subst hk1
      -- rowOk is not produced by rowIterate
      exfalso
      have : ∀ c, (MtDec.rowIterate s .canStart w).pc ≠ .rowOk .canStart c := by
        intro c hc
        have m := markFilled_core (MtDec.readLoop (s.queue.length + 1) s).1 s.outCap
        unfold MtDec.rowIterate at hc
        dsimp only at hc
        split at hc
        · cases hc
        · split at hc
          · cases hc
          · have lw := rowLeaveOrWait_core (flagPend (markFilled (MtDec.readLoop (s.queue.length + 1) s).1 s.outCap)) .canStart w
            rcases lw.2 with ⟨c', hc'⟩ | hc' <;> (rw [hc'] at hc; cases hc)
      exact this true e
    · -- leaving with "the Block can start": a free or a new thread was available under coder->mutex
      have hkk : k = .canStart := by rw [e] at hk1; simp [rowKOf] at hk1; exact hk1.symm
      subst hkk
      have m := markFilled_core (MtDec.readLoop (s.queue.length + 1) s).1 s.outCap
      have fp := flagPend_core (markFilled (MtDec.readLoop (s.queue.length + 1) s).1 s.outCap)
      have hne : ((MtDec.readLoop (s.queue.length + 1) s).2 != OK) = false := by simp [hok]
      have hshape : (MtDec.rowIterate s .canStart w).pc = .rowDone .canStart OK true →
          (flagPend (markFilled (MtDec.readLoop (s.queue.length + 1) s).1 s.outCap)).workers.length <
            (flagPend (markFilled (MtDec.readLoop (s.queue.length + 1) s).1 s.outCap)).cfg.threadsMax ∨
          (flagPend (markFilled (MtDec.readLoop (s.queue.length + 1) s).1 s.outCap)).threadsFree ≠ [] := by
        intro hp
        unfold MtDec.rowIterate at hp
        dsimp only at hp
        rw [if_neg (by simp [hne])] at hp
        split at hp
        · rename_i hff
          injection hp with _ e2 _
          simp only [Bool.and_eq_true, bne_iff_ne] at hff
          exact absurd e2 hff.1
        · exact rowLeaveOrWait_canStart hp
      have := hshape e
      rw [core.workers, core.cfg, core.threadsFree]
      rw [fp.1.workers, fp.1.cfg, fp.1.threadsFree, m.1.workers, m.1.cfg, m.1.threadsFree] at this
      exact this

end XzVerif.MtDec
