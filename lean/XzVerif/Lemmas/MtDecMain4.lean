/-
  Preservation of data + control invariant: thread set-up (get_thread, buffer assignment, start), input hand-over,
  direct mode and Index steps.
-/
import XzVerif.Lemmas.MtDecMain

namespace XzVerif.MtDec

theorem idlePc_pcInv {s : State} {w : Worker} (h : idlePc w.pc) :
    (match w.pc with
    | .decode lim _ => w.hasOut = true ∧ lim ≤ w.inFilled
    | .publish => w.hasOut = true
    | .fin1 r => w.hasOut = true ∧ w.outPos = dataLen s w.blk ∧ r = (blk s w.blk).ret ∧ (r = END → w.inFilled = w.inSize)
    | .fin2 r => w.hasOut = true ∧ w.outPos = dataLen s w.blk ∧ r = (blk s w.blk).ret ∧ (r = END → w.inFilled = w.inSize) ∧ w.st ≠ .run
    | .fin3 r => w.hasOut = true ∧ w.outPos = dataLen s w.blk ∧ r = (blk s w.blk).ret ∧ (r = END → w.inFilled = w.inSize) ∧ w.st ≠ .run
    | _ => True) := by
  revert h
  cases w.pc <;> simp [idlePc]

theorem Inv.startThr {s s' : State} (h : Inv s) (hs : step s .startThr = some s') : Inv s' := by
  simp only [step] at hs
  split at hs
  case h_2 => cases hs
  rename_i t hpc hthr
  injection hs with hs; subst hs
  obtain ⟨c1, c2, c3, c4, c5, c6, c6a, c6b, c7, c8, c9, c10⟩ := h.2
  obtain ⟨t', ht1, ht2, ht3, ht4, ht5, ht6⟩ := c8 hpc
  have : t' = t := by rw [hthr] at ht1; injection ht1 with e; exact e.symm
  subst this
  have hw := h.1.wk t' ht2
  have hd : DataInv (MtDec.setW s t' (signalW { getW s t' with st := .run })) := by
    refine h.1.setW t' ht2 _ ?_ rfl rfl (fun hf => absurd hf ht6)
    refine ⟨hw.outLe, hw.fillLe, hw.has, ?_, fun _ => ht5⟩
    exact idlePc_pcInv (w := signalW { getW s t' with st := .run }) ht3
  refine ⟨hd.congr rfl rfl rfl rfl rfl rfl rfl rfl, ?_⟩
  ctl_fields

theorem WInv.setFilled {s : State} {w : Worker} (h : WInv s w) (f : Nat) (hlo : w.inFilled ≤ f) (hhi : f ≤ w.inSize) :
    WInv s { w with inFilled := f, woken := true } := by
  refine ⟨h.outLe, hhi, h.has, ?_, h.run⟩
  have hp := h.pcInv
  have hf := h.fillLe
  cases hpc : w.pc <;> simp only [hpc] at hp ⊢
  · exact ⟨hp.1, Nat.le_trans hp.2 hlo⟩
  · exact hp
  · exact ⟨hp.1, hp.2.1, hp.2.2.1, fun e => by have := hp.2.2.2 e; omega⟩
  · exact ⟨hp.1, hp.2.1, hp.2.2.1, fun e => by have := hp.2.2.2.1 e; omega, hp.2.2.2.2⟩
  · exact ⟨hp.1, hp.2.1, hp.2.2.1, fun e => by have := hp.2.2.2.1 e; omega, hp.2.2.2.2⟩

theorem Inv.tell {s s' : State} (h : Inv s) (hs : step s .tell = some s') : Inv s' := by
  simp only [step] at hs
  split at hs
  case h_2 => cases hs
  rename_i f n t hpc hthr
  injection hs with hs; subst hs
  obtain ⟨c1, c2, c3, c4, c5, c6, c6a, c6b, c7, c8, c9, c10⟩ := h.2
  obtain ⟨hseq, t', ht1, hlo, hhi⟩ := c10 f n hpc
  have : t' = t := by rw [hthr] at ht1; injection ht1 with e; exact e.symm
  subst this
  have ht2 : t' < s.workers.length := c6 (by rw [hpc]; simp) t' hthr
  have hw := h.1.wk t' ht2
  have hd : DataInv (MtDec.setW s t' (signalW { getW s t' with inFilled := f })) := by
    refine h.1.setW t' ht2 _ ?_ rfl rfl ?_
    · exact hw.setFilled f hlo hhi
    · intro hf; have := h.1.free t' hf; exact ⟨this.2.2.1, this.2.2.2.1, this.2.2.2.2⟩
  refine ⟨hd.congr rfl rfl rfl rfl rfl rfl rfl rfl, ?_⟩
  ctl_fields

theorem DataInv.freeSub {s s' : State} (h : DataInv s) (hb : s'.blocks = s.blocks) (hc : s'.cur = s.cur)
    (hq : s'.queue = s.queue) (ho : s'.outRev = s.outRev) (hr : s'.readPos = s.readPos) (hp : s'.directPos = s.directPos)
    (hw : s'.workers = s.workers) (hsub : ∀ i ∈ s'.threadsFree, i ∈ s.threadsFree) (hnd : s'.threadsFree.Nodup) :
    DataInv s' := by
  have h0 : DataInv { s with threadsFree := s'.threadsFree } := by
    refine { wf := h.wf, curLe := h.curLe, lenLe := h.lenLe, consec := h.consec, good := h.good, deliv := h.deliv,
             posLe := h.posLe, readLe := h.readLe, fin := h.fin,
             wk := fun i hi => WInv.congr (s := s) rfl rfl (h.wk i hi), distinct := h.distinct,
             free := fun i hi => h.free i (hsub i hi), freeNodup := hnd, dirLe := h.dirLe, dirQ := h.dirQ }
  exact h0.congr hb hc hq ho hr hp hw rfl

theorem getW_append_lt (s : State) (w : Worker) (j : Nat) (hj : j < s.workers.length) :
    getW { s with workers := s.workers ++ [w] } j = getW s j := by
  simp [getW, List.getD, List.getElem?_append_left hj]

theorem getW_append_eq (s : State) (w : Worker) :
    getW { s with workers := s.workers ++ [w] } s.workers.length = w := by
  simp [getW, List.getD]

theorem DataInv.addWorker {s : State} (h : DataInv s) :
    DataInv { s with workers := s.workers ++ [{}] } := by
  have hlen : ({ s with workers := s.workers ++ [({} : Worker)] } : State).workers.length = s.workers.length + 1 := by simp
  have hnew : WInv { s with workers := s.workers ++ [({} : Worker)] } ({} : Worker) :=
    ⟨Nat.zero_le _, Nat.le_refl _, (fun hh => by cases hh), trivial, (fun hh => by cases hh)⟩
  refine { wf := h.wf, curLe := h.curLe, lenLe := h.lenLe, consec := h.consec, good := h.good, deliv := h.deliv,
           posLe := h.posLe, readLe := h.readLe, fin := h.fin, wk := ?_, distinct := ?_, free := ?_,
           freeNodup := h.freeNodup, dirLe := h.dirLe, dirQ := h.dirQ }
  · intro j hj
    rw [hlen] at hj
    by_cases e : j < s.workers.length
    · rw [getW_append_lt s _ j e]; exact WInv.congr (s := s) rfl rfl (h.wk j e)
    · have : j = s.workers.length := by omega
      subst this; rw [getW_append_eq]; exact hnew
  · intro a b ha hb hab
    rw [hlen] at ha hb
    by_cases ea : a < s.workers.length <;> by_cases eb : b < s.workers.length
    · rw [getW_append_lt s _ a ea, getW_append_lt s _ b eb]; exact h.distinct a b ea eb hab
    · have : b = s.workers.length := by omega
      subst this; rw [getW_append_eq]; intro _ hh; cases hh
    · have : a = s.workers.length := by omega
      subst this; rw [getW_append_eq]; intro hh; cases hh
    · omega
  · intro j hj
    have := h.free j hj
    rw [hlen, getW_append_lt s _ j this.1]
    exact ⟨by omega, this.2⟩

theorem Inv.getThread {s s' : State} (h : Inv s) (hs : step s .getThread = some s') : Inv s' := by
  simp only [step] at hs
  split at hs
  case isFalse => cases hs
  rename_i hpc
  have hpc : s.pc = .init2 := by simpa using hpc
  obtain ⟨c1, c2, c3, c4, c5, c6, c6a, c6b, c7, c8, c9, c10⟩ := h.2
  have hseq : s.seq = .thrInit := c9 (Or.inr (Or.inl hpc))
  split at hs
  · rename_i w rest hpop
    injection hs with hs; subst hs
    have hfree : s.threadsFree = w :: rest := by
      unfold popFree at hpop
      split at hpop
      · injection hpop with e; injection e with e1 e2; subst e1 e2; assumption
      · cases hpop
    have hnd := h.1.freeNodup
    rw [hfree] at hnd
    have hwf := h.1.free w (by rw [hfree]; simp)
    refine ⟨h.1.freeSub rfl rfl rfl rfl rfl rfl rfl (fun i hi => by rw [hfree]; exact List.mem_cons_of_mem _ hi)
      (List.nodup_cons.mp hnd).2, ?_⟩
    have hidle : ThrIdle { s with threadsFree := rest, thr := some w, pc := .init3 } w false :=
      ⟨rfl, hwf.1, hwf.2.2.1, hwf.2.2.2.2, hwf.2.1, (List.nodup_cons.mp hnd).1⟩
    refine ⟨fun _ => c1 (Or.inr (Or.inl ⟨hseq, by rw [hpc]; simp⟩)), c2, c3, c4, ?_, ?_, ?_, ?_, ?_, ?_, ?_, ?_⟩
    · intro k hk; simp [rowKOf] at hk
    · intro _ t ht; injection ht with e; subst e; exact hwf.1
    · intro t _; exact Or.inl hseq
    · intro ⟨j, hj⟩; simp at hj
    · intro _; exact ⟨w, hidle⟩
    · intro hp; cases hp
    · intro _; exact hseq
    · intro f n hp; cases hp
  · split at hs
    case isFalse => cases hs
    injection hs with hs; subst hs
    refine ⟨(h.1.addWorker).congr rfl rfl rfl rfl rfl rfl rfl rfl, ?_⟩
    have hidle : ThrIdle { s with workers := s.workers ++ [{}], thr := some s.workers.length, pc := .init3 }
        s.workers.length false := by
      refine ⟨rfl, by simp, ?_, ?_, ?_, ?_⟩
      · show idlePc (getW { s with workers := s.workers ++ [{}] } s.workers.length).pc
        rw [getW_append_eq]; trivial
      · show (getW { s with workers := s.workers ++ [{}] } s.workers.length).st ≠ .run
        rw [getW_append_eq]; simp
      · show (getW { s with workers := s.workers ++ [{}] } s.workers.length).hasOut = false
        rw [getW_append_eq]
      · intro hm; have := (h.1.free _ hm).1; omega
    refine ⟨fun _ => c1 (Or.inr (Or.inl ⟨hseq, by rw [hpc]; simp⟩)), c2, c3, c4, ?_, ?_, ?_, ?_, ?_, ?_, ?_, ?_⟩
    · intro k hk; simp [rowKOf] at hk
    · intro _ t ht; injection ht with e; subst e; simp
    · intro t _; exact Or.inl hseq
    · intro ⟨j, hj⟩; simp at hj
    · intro _; exact ⟨_, hidle⟩
    · intro hp; cases hp
    · intro _; exact hseq
    · intro f n hp; cases hp

theorem partialOut_append {s : State} (o : Outbuf) (h : DataInv s) (hdz : s.directPos = 0) :
    partialOut { s with queue := s.queue ++ [o], cur := s.cur + 1 } = partialOut s := by
  unfold partialOut
  cases hq : s.queue with
  | nil =>
    have hr := h.readLe
    rw [hq] at hr
    simp only [List.nil_append, hdz, List.take_zero]
    show ((blk s o.blk).data).take s.readPos = []
    rw [hr]; rfl
  | cons a t => simp [blk]

theorem Inv.assign {s s' : State} (h : Inv s) (hs : step s .assign = some s') : Inv s' := by
  simp only [step] at hs
  split at hs
  case h_2 => cases hs
  rename_i t hpc hthr
  injection hs with hs; subst hs
  obtain ⟨c1, c2, c3, c4, c5, c6, c6a, c6b, c7, c8, c9, c10⟩ := h.2
  have hseq : s.seq = .thrInit := c9 (Or.inr (Or.inr (Or.inl hpc)))
  have hcur : s.cur < s.blocks.length := c1 (Or.inr (Or.inl ⟨hseq, by rw [hpc]; simp⟩))
  have hdz : s.directPos = 0 := c3 (by rw [hseq]; simp)
  obtain ⟨t', ht1, ht2, ht3, ht4, ht5, ht6⟩ := c7 hpc
  have : t' = t := by rw [hthr] at ht1; injection ht1 with e; exact e.symm
  subst this
  have hD := h.1
  have hlen := hD.lenLe
  have hhd : hd s + s.queue.length = s.cur := by unfold hd; omega
  -- abbreviations
  let wNew : Worker := { getW s t' with blk := s.cur, inAlloc := true, inSize := (blk s s.cur).inSize, hasOut := true, inFilled := 0, inPos := 0, outPos := 0, pu := .disabled }
  let oNew : Outbuf := { blk := s.cur, worker := some t' }
  have hltq : ∀ o ∈ s.queue, o.blk < s.cur := fun o ho => by have := (hD.consec.mem ho).2; omega
  have hgw : ∀ j, getW ({ MtDec.setW s t' wNew with queue := s.queue ++ [oNew], cur := s.cur + 1, pc := .init4 } : State) j
      = if t' = j then wNew else getW s j := fun j => getW_setW s t' j wNew ht2
  have hwNew : WInv ({ MtDec.setW s t' wNew with queue := s.queue ++ [oNew], cur := s.cur + 1, pc := .init4 } : State) wNew := by
    refine ⟨Nat.zero_le _, Nat.zero_le _, ?_, ?_, fun hr => absurd hr ht4⟩
    · intro _
      refine ⟨rfl, ⟨oNew, by simp, rfl⟩, ?_⟩
      intro o ho e
      rcases List.mem_append.mp ho with ho | ho
      · have := hltq o ho; have e' : o.blk = s.cur := e; omega
      · simp at ho; subst ho; exact ⟨rfl, Nat.le_refl _⟩
    · exact idlePc_pcInv (w := wNew) ht3
  have hD' : DataInv ({ MtDec.setW s t' wNew with queue := s.queue ++ [oNew], cur := s.cur + 1, pc := .init4 } : State) := by
    have hhd' : hd ({ MtDec.setW s t' wNew with queue := s.queue ++ [oNew], cur := s.cur + 1, pc := .init4 } : State) = hd s := by
      simp only [hd, List.length_append, List.length_singleton]; omega
    refine { wf := hD.wf, curLe := hcur, lenLe := by simp; omega, consec := ?_, good := ?_, deliv := ?_, posLe := ?_,
             readLe := ?_, fin := ?_, wk := ?_, distinct := ?_, free := ?_, freeNodup := hD.freeNodup, dirLe := ?_,
             dirQ := ?_ }
    · rw [hhd']; exact hD.consec.append oNew (by show s.cur = hd s + s.queue.length; omega)
    · rw [hhd']; exact hD.good
    · rw [hhd']
      have := partialOut_append oNew hD hdz
      show s.delivered = outOf s.blocks (hd s) ++ partialOut { s with queue := s.queue ++ [oNew], cur := s.cur + 1 }
      rw [this]; exact hD.deliv
    · intro o ho
      rcases List.mem_append.mp ho with ho | ho
      · exact hD.posLe o ho
      · simp at ho; subst ho; exact Nat.zero_le _
    · have hr := hD.readLe
      show match s.queue ++ [oNew] with | hh :: _ => s.readPos ≤ hh.pos | [] => s.readPos = 0
      cases hq : s.queue with
      | nil => rw [hq] at hr; simp [hr]
      | cons a tl => rw [hq] at hr; simpa using hr
    · intro o ho hfin
      rcases List.mem_append.mp ho with ho | ho
      · exact hD.fin o ho hfin
      · simp at ho; subst ho; cases hfin
    · intro j hj
      simp only [setW_workers_length] at hj
      rw [hgw]
      split
      · exact hwNew
      · have hwj := hD.wk j hj
        refine ⟨hwj.outLe, hwj.fillLe, ?_, hwj.pcInv, hwj.run⟩
        intro hjo
        have hj3 := hwj.has hjo
        refine ⟨hj3.1, ?_, ?_⟩
        · obtain ⟨o, ho, e⟩ := hj3.2.1
          exact ⟨o, List.mem_append_left _ ho, e⟩
        · intro o ho e
          rcases List.mem_append.mp ho with ho | ho
          · exact hj3.2.2 o ho e
          · simp at ho; subst ho
            obtain ⟨o2, ho2, e2⟩ := hj3.2.1
            have := hltq o2 ho2
            have e' : s.cur = (getW s j).blk := e
            omega
    · intro a b ha hb hab
      simp only [setW_workers_length] at ha hb
      rw [hgw, hgw]
      have key : ∀ j, j < s.workers.length → (getW s j).hasOut = true → (getW s j).blk ≠ s.cur := by
        intro j hj hjo
        obtain ⟨o2, ho2, e2⟩ := ((hD.wk j hj).has hjo).2.1
        have := hltq o2 ho2
        omega
      by_cases ea : t' = a <;> by_cases eb : t' = b
      · omega
      · subst ea; simp only [if_true, eb, if_false]; intro _ h2; exact fun e => key b hb h2 e.symm
      · subst eb; simp only [if_true, ea, if_false]; intro h1 _; exact key a ha h1
      · simp only [ea, eb, if_false]; exact hD.distinct a b ha hb hab
    · intro j hj
      have := hD.free j hj
      have hne : t' ≠ j := fun e => ht6 (e ▸ hj)
      show j < (MtDec.setW s t' wNew).workers.length ∧ _
      simp only [setW_workers_length]
      rw [hgw]
      simpa [hne] using this
    · show s.directPos ≤ _; rw [hdz]; exact Nat.zero_le _
    · intro hne; exact absurd hdz hne
  refine ⟨hD', ?_⟩
  have hidle : ThrIdle ({ MtDec.setW s t' wNew with queue := s.queue ++ [oNew], cur := s.cur + 1, pc := .init4 } : State) t' true := by
    refine ⟨hthr, by simpa using ht2, ?_, ?_, ?_, ht6⟩
    · rw [hgw]; simpa using ht3
    · rw [hgw]; simpa using ht4
    · rw [hgw]; simp only [if_true]; rfl
  refine ⟨?_, ?_, c3, ?_, ?_, ?_, c6a, ?_, ?_, ?_, ?_, ?_⟩
  · intro hx; simp [hseq] at hx
  · intro hx; simp [hseq] at hx
  · intro hx
    rcases hx with hx | hx <;> exact absurd (hseq.symm.trans hx) (by simp)
  · intro k hk; simp [rowKOf] at hk
  · intro _ t ht; simp only [setW_workers_length]; exact c6 (by rw [hpc]; simp) t ht
  · intro ⟨j, hj⟩; simp at hj
  · intro hp; cases hp
  · intro _; exact ⟨t', hidle⟩
  · intro _; exact hseq
  · intro f n hp; cases hp

end XzVerif.MtDec
