/-
  Non-vacuity of the slicing theorems for the resumable LZMA2 decoder model (Model/LzmaResume.lean): a real LZMA2 stream decoded
  whole, one input byte at a time, with one byte of output room per call, and raggedly — all kernel-evaluated, all equal, and equal to
  the one-shot model `Lzma2.lzma2Decode`. (Kept small: the kernel needs ≈ 0.5 s per decoded bit.)
-/
import XzVerif.Model.LzmaResume

namespace XzVerif.LzmaR
open XzVerif XzVerif.Lzma XzVerif.Lzma2

/-- raw LZMA2 stream of "aaaaaaaaaa" as written by liblzma (`lzma.compress(b"a"*10, format=FORMAT_RAW, filters=[{id: LZMA2, dict_size:
    4096, lc: 0, lp: 0, pb: 0}])`): control 0xE0 (LZMA chunk, dictionary reset, new properties), uncompressed size 10, compressed size 7,
    properties byte 0, seven bytes of range-coded data (a literal and a match of length 9 at distance 1), end marker 0x00 -/
def exStream : List UInt8 := [224, 0, 9, 0, 6, 0, 0, 48, 236, 32, 0, 0, 0, 0]
def exPlain : List UInt8 := [97, 97, 97, 97, 97, 97, 97, 97, 97, 97]

def showRun (x : SRun) : Ret × List UInt8 × Nat × Bool := (x.ret, x.r.output, x.r.s.inPos, x.spare)

/-- whole input, plenty of room -/
theorem ex_whole : showRun (runSlicedR .lzma2 exStream [(14, 100)] { r := initLzma2R 4096 [] }) = (.streamEnd, exPlain, 14, true) := by
  decide +kernel

/-- one more input byte and one more byte of room per call (every header byte, every init byte of the range decoder and every
    normalisation inside the two symbols is a resume point; the match is interrupted by the full output buffer several times) -/
theorem ex_bytewise : showRun (runSlicedR .lzma2 exStream (List.replicate 16 (1, 1)) { r := initLzma2R 4096 [] })
    = (.streamEnd, exPlain, 14, true) := by
  decide +kernel

/-- all input at once, one byte of output room per call: `dict_repeat` resumes with the remaining length nine times -/
theorem ex_out1 : showRun (runSlicedR .lzma2 exStream ((14, 1) :: List.replicate 9 (0, 1)) { r := initLzma2R 4096 [] })
    = (.streamEnd, exPlain, 14, false) := by
  decide +kernel

/-- ragged, with empty calls and calls without new room -/
theorem ex_ragged : showRun (runSlicedR .lzma2 exStream [(3, 0), (0, 0), (5, 2), (1, 0), (1, 3), (0, 1), (2, 0), (9, 9)]
      { r := initLzma2R 4096 [] }) = (.streamEnd, exPlain, 14, true) := by
  decide +kernel

/-- the one-shot model of Model/Lzma2.lean on the same stream -/
theorem ex_oneshot : lzma2Decode 4096 exStream = { ret := .streamEnd, out := exPlain, consumed := 14 } := by
  decide +kernel

/-- truncated input (cut inside the match symbol): every slicing stops with LZMA_OK at the same place; so does the one-shot model -/
theorem ex_truncated : showRun (runSlicedR .lzma2 (exStream.take 12) (List.replicate 14 (1, 1)) { r := initLzma2R 4096 [] })
      = showRun (runSlicedR .lzma2 (exStream.take 12) [(12, 100)] { r := initLzma2R 4096 [] })
    ∧ (runSlicedR .lzma2 (exStream.take 12) [(12, 100)] { r := initLzma2R 4096 [] }).ret = .ok := by
  decide +kernel

end XzVerif.LzmaR
