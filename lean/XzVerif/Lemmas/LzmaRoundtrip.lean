/-
  LZMA1 stream round trip at the byte level: symbol coder + range coder + specification decoder.
-/
import XzVerif.Lemmas.LzmaCtxBound
import XzVerif.Lemmas.ProgSync

namespace XzVerif.LzmaSym
open XzVerif.RangeDec XzVerif.RangeEnc XzVerif.RangeCoder XzVerif.Lzma XzVerif.LzmaEnc XzVerif.LzmaSymDec XzVerif.LzmaSpec

/-- `is_lclppb_valid` -/
def PropsOk (p : Props) : Prop := p.lc + p.lp ≤ 4 ∧ p.pb ≤ 4

theorem probsSize_eq (lc lp : Nat) : probsSize lc lp = 1846 + (768 <<< (lc + lp)) := rfl

theorem shl_ge (k : Nat) : 768 ≤ 768 <<< k := by
  rw [Nat.shiftLeft_eq]
  have : 0 < 2 ^ k := Nat.pow_pos (by norm_num)
  nlinarith

theorem posState_lt (pos pb : Nat) (h : pb ≤ 4) : pos &&& ((1 <<< pb) - 1) < 16 := by
  have h1 : pos &&& ((1 <<< pb) - 1) ≤ (1 <<< pb) - 1 := Nat.and_le_right
  have h2 : (1 <<< pb) ≤ 16 := by
    rw [Nat.shiftLeft_eq, Nat.one_mul]
    calc 2 ^ pb ≤ 2 ^ 4 := Nat.pow_le_pow_right (by norm_num) h
      _ = 16 := by norm_num
  omega

theorem next_state_lt (s : SymSt) (sym : Sym) (h : s.state < 12) : (s.next sym).state < 12 := by
  cases sym with
  | lit b => simp only [SymSt.next, updateLiteral]; split <;> (try split) <;> omega
  | mtch d l => simp only [SymSt.next, updateMatch, LIT_STATES]; split <;> omega
  | rep i l =>
    simp only [SymSt.next, updateLongRep, LIT_STATES]
    repeat' split
    all_goals first | omega | (simp only []; omega)
  | shortrep => simp only [SymSt.next, updateShortRep, LIT_STATES]; split <;> omega

theorem symOps_bound (p : Props) (hp : PropsOk p) (s : SymSt) (hs : s.state < 12) (pos prev mb : Nat) (sym : Sym)
    (hv : ValidSym sym) : AllLt (probsSize p.lc p.lp) (symOps p s pos prev mb sym).1 := by
  obtain ⟨hlclp, hpb⟩ := hp
  have hps := posState_lt pos p.pb hpb
  have hN := shl_ge (p.lc + p.lp)
  rw [probsSize_eq]
  generalize hNN : 1846 + (768 <<< (p.lc + p.lp)) = N
  have hN' : 1846 + 768 ≤ N := by omega
  unfold symOps
  simp only [P_IS_MATCH, P_IS_REP, POS_STATES_MAX]
  cases sym with
  | lit cur =>
    have hlit := literal_bound p.lc p.lp pos prev hlclp
    refine allLt_cons_bit (by omega) ?_
    simp only [literalOps, P_LITERAL]
    split
    · exact bittree_bound _ N 7 _ 1 (by norm_num; omega)
    · refine litMatched_bound _ N (by omega) 8 _ _ _ (by norm_num) ?_
      have hc : cur.toNat < 256 := UInt8.toNat_lt_size cur
      norm_num; omega
  | mtch dist len =>
    obtain ⟨_, _, h32⟩ := hv
    refine allLt_cons_bit (by omega) (allLt_cons_bit (by omega) ?_)
    simp only [matchOps]
    exact allLt_append (length_bound N _ _ _ (by simp only [P_MATCH_LEN]; omega) hps) (dist_bound N dist len (by omega) h32)
  | rep idx len =>
    refine allLt_cons_bit (by omega) (allLt_cons_bit (by omega) ?_)
    have hlen := length_bound N P_REP_LEN (pos &&& ((1 <<< p.pb) - 1)) len (by simp only [P_REP_LEN]; omega) hps
    simp only [repOps, P_IS_REP0, P_IS_REP1, P_IS_REP2, P_IS_REP0_LONG, POS_STATES_MAX]
    repeat' split
    all_goals first
      | exact allLt_cons_bit (by omega) (allLt_cons_bit (by omega) (allLt_nil N))
      | exact allLt_cons_bit (by omega) (allLt_cons_bit (by omega) (allLt_cons_bit (by omega) (allLt_nil N)))
      | exact allLt_append (allLt_cons_bit (by omega) (allLt_cons_bit (by omega) (allLt_nil N))) hlen
      | exact allLt_append (allLt_cons_bit (by omega) (allLt_cons_bit (by omega) (allLt_cons_bit (by omega) (allLt_nil N)))) hlen
  | shortrep =>
    refine allLt_cons_bit (by omega) (allLt_cons_bit (by omega) ?_)
    simp only [repOps, beq_self_eq_true, if_true, P_IS_REP0, P_IS_REP0_LONG, POS_STATES_MAX]
    exact allLt_cons_bit (by omega) (allLt_cons_bit (by omega) (allLt_nil N))

/-- a valid expansion gives a successful `encSyms` with the same final window and all contexts in range -/
theorem encSyms_of_expand (p : Props) (hp : PropsOk p) (dictSize : Nat) (hd : dictSize ≤ 4294967295) :
    ∀ (syms : List Sym) (pos : Nat) (s : SymSt) (rb rb' : List UInt8), s.state < 12 →
      lzExpand dictSize syms s rb = some rb' →
      ∃ ops pos' s', encSyms p dictSize syms pos s rb = some (ops, pos', s', rb') ∧ s'.state < 12 ∧
        AllLt (probsSize p.lc p.lp) ops
  | [], pos, s, rb, rb', hs, h => by
    simp only [lzExpand, Option.some.injEq] at h
    subst h
    exact ⟨[], pos, s, rfl, hs, allLt_nil _⟩
  | sym :: syms, pos, s, rb, rb', hs, h => by
    simp only [lzExpand] at h
    split at h
    · cases h
    · rename_i rb1 happ
      obtain ⟨hv, _⟩ := applySym_valid hd happ
      have hnext := symOps_next p s pos (prevByte rb) (matchByte rb s.rep0) sym hv
      obtain ⟨ops, pos', s', henc, hs', hb⟩ :=
        encSyms_of_expand p hp dictSize hd syms (pos + sym.len) (s.next sym) rb1 rb' (next_state_lt s sym hs) h
      refine ⟨(symOps p s pos (prevByte rb) (matchByte rb s.rep0) sym).1 ++ ops, pos', s', ?_, hs', ?_⟩
      · simp only [encSyms, happ, hnext, henc]
      · exact allLt_append (symOps_bound p hp s hs pos _ _ sym hv) hb

theorem initProbs_ok (p : Props) (ops : List Op) (h : AllLt (probsSize p.lc p.lp) ops) : ProbsOk (initProbs p) ops := by
  refine ⟨fun i hi => ?_, ?_⟩
  · have hi' : i < probsSize p.lc p.lp := by simpa [initProbs] using hi
    have : (initProbs p).getD i 0 = 1024 := by
      simp [initProbs, Array.getD_eq_getD_getElem?, hi', PROB_INIT]
    rw [this]; decide
  · intro op hop
    have := h op hop
    simpa [initProbs] using this

/-- LZMA1 round trip (specification level): every valid description of `data` over the history `hist`, encoded by the
    symbol coder and the C-style range encoder, is decoded by the specification decoder to exactly `data`; the decoder
    stops right after the stream (`tail` untouched) with a finished range decoder. -/
theorem lzma1_spec_roundtrip (p : Props) (hp : PropsOk p) (dictSize : Nat) (hd : dictSize ≤ 4294967295)
    (hist data : List UInt8) (syms : List Sym) (hdesc : Describes dictSize hist {} syms data) :
    ∃ bytes, lzma1EncodeSpec p dictSize hist syms = some bytes ∧ bytes.head? = some 0 ∧
      ∀ tail, lzma1DecodeSpec p dictSize hist (syms.length + 1) (bytes ++ tail) = some (data, tail) := by
  unfold Describes at hdesc
  obtain ⟨ops, pos', s', henc, hs', hb⟩ :=
    encSyms_of_expand p hp dictSize hd syms 0 {} hist.reverse _ (by decide) hdesc
  have hv : ValidSym (.mtch 4294967295 2) := ⟨by norm_num, by norm_num, by norm_num⟩
  have hbe : AllLt (probsSize p.lc p.lp) (eopmOps p s' pos') := by
    rw [eopmOps_eq p s' pos' 0 0]; exact symOps_bound p hp s' hs' pos' 0 0 _ hv
  have hall := allLt_append hb hbe
  have hok := initProbs_ok p _ hall
  have hreplay := decLoop_ops p dictSize hd syms (syms.length + 1) 0 {} hist.reverse ops pos' s' _ [] henc (by omega)
  rw [List.append_nil] at hreplay
  -- the bytes
  have hres := encOps_resolve (ops ++ eopmOps p s' pos') (initProbs p) Enc.init
  have hrok := resolve_ok _ _ hok
  have hbytes : (rcEncode (initProbs p) (ops ++ eopmOps p s' pos')).1
      = (finish Enc.init (resolve (initProbs p) (ops ++ eopmOps p s' pos')).1).out := by
    simp only [rcEncode, hres, finish]
  refine ⟨(rcEncode (initProbs p) (ops ++ eopmOps p s' pos')).1, ?_, ?_, ?_⟩
  · simp only [lzma1EncodeSpec, lzma1Ops, henc, Option.map_some]
  · obtain ⟨_, _, _, _, hhead⟩ := sync_init hrok []
    rw [hbytes]; exact hhead
  · intro tail
    obtain ⟨rc, rest, hinit, hsync, _⟩ := sync_init hrok tail
    obtain ⟨consumed, ps', e', rc', rest', hcons, hencops, hrun, _, hI', hs2⟩ :=
      prog_sync _ _ [] _ (initProbs p) Enc.init tail rc rest hreplay hok inv_init hsync
    simp only [resolve] at hs2
    obtain ⟨rc'', hnorm, hcode⟩ := sync_end hI' hs2
    rw [hbytes]
    simp only [lzma1DecodeSpec, hinit, hrun, hnorm, hcode, if_true]
    simp [List.reverse_append]

end XzVerif.LzmaSym
