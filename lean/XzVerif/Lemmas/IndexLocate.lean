/-
  C13 helper lemmas: uniqueness of the Block that contains an uncompressed offset (specification level).
-/
import XzVerif.Lemmas.IndexSpecL

namespace XzVerif.Index

theorem sum_take_le {α : Type} (f : α → Nat) : ∀ (l : List α) (a b : Nat) (x : α), a < b → l[a]? = some x →
    ((l.take a).map f).sum + f x ≤ ((l.take b).map f).sum
  | [], a, b, x, _, h => by simp at h
  | y :: r, 0, b + 1, x, _, h => by
    have : y = x := by simpa using h
    subst this; simp
  | y :: r, a + 1, b + 1, x, hab, h => by
    have := sum_take_le f r a b x (by omega) (by simpa using h)
    simp only [List.take_succ_cons, List.map_cons, List.sum_cons]; omega
  | y :: r, a + 1, 0, x, hab, h => by omega

theorem sum_take_le_all {α : Type} (f : α → Nat) (l : List α) (a : Nat) : ((l.take a).map f).sum ≤ (l.map f).sum := by
  induction l generalizing a with
  | nil => simp
  | cons y r ih =>
    cases a with
    | zero => simp
    | succ a => simp only [List.take_succ_cons, List.map_cons, List.sum_cons]; have := ih a; omega

theorem sum_take_add_le {α : Type} (f : α → Nat) (l : List α) (a : Nat) (x : α) (h : l[a]? = some x) :
    ((l.take a).map f).sum + f x ≤ (l.map f).sum := by
  have := sum_take_le f l a l.length x (by have := (List.getElem?_eq_some_iff.mp h).1; omega) h
  simpa using this

namespace Spec

/-- uncompressed file offset of Block `bi` of Stream `si` -/
def ufo (i : Index) (si bi : Nat) : Nat :=
  uncompressedSize (i.take si) + uncompSize (((i[si]?).map (·.blocks)).getD [] |>.take bi)

/-- "Block `bi` of Stream `si` exists and contains the uncompressed offset `t`" -/
def Contains (i : Index) (si bi t : Nat) : Prop :=
  ∃ s b, i[si]? = some s ∧ s.blocks[bi]? = some b ∧ ufo i si bi ≤ t ∧ t < ufo i si bi + b.uncompressed

/-- Blocks that come earlier in the file end before later ones start -/
theorem ufo_mono {i : Index} {si bi si' bi' : Nat} {s s' : StreamRec} {b b' : Block}
    (hs : i[si]? = some s) (hb : s.blocks[bi]? = some b) (hs' : i[si']? = some s') (hb' : s'.blocks[bi']? = some b')
    (hlt : si < si' ∨ (si = si' ∧ bi < bi')) : ufo i si bi + b.uncompressed ≤ ufo i si' bi' := by
  unfold ufo
  rw [hs, hs']
  simp only [Option.map_some, Option.getD_some]
  rcases hlt with hlt | ⟨rfl, hlt⟩
  · have h1 : uncompressedSize (i.take si) + s.uncompressedSize ≤ uncompressedSize (i.take si') :=
      sum_take_le (fun s => s.uncompressedSize) i si si' s hlt hs
    have h2 : uncompSize (s.blocks.take bi) + b.uncompressed ≤ uncompSize s.blocks :=
      sum_take_add_le (fun b => b.uncompressed) s.blocks bi b hb
    have h3 : s.uncompressedSize = uncompSize s.blocks := rfl
    omega
  · have : s = s' := by rw [hs] at hs'; exact Option.some.inj hs'
    subst this
    have h2 : uncompSize (s.blocks.take bi) + b.uncompressed ≤ uncompSize (s.blocks.take bi') :=
      sum_take_le (fun b => b.uncompressed) s.blocks bi bi' b hlt hb
    omega

theorem contains_unique {i : Index} {si bi si' bi' t : Nat} (h : Contains i si bi t) (h' : Contains i si' bi' t) :
    si = si' ∧ bi = bi' := by
  obtain ⟨s, b, hs, hb, h1, h2⟩ := h
  obtain ⟨s', b', hs', hb', h1', h2'⟩ := h'
  by_cases hlt : si < si' ∨ (si = si' ∧ bi < bi')
  · have := ufo_mono hs hb hs' hb' hlt; omega
  · by_cases hgt : si' < si ∨ (si' = si ∧ bi' < bi)
    · have := ufo_mono hs' hb' hs hb hgt; omega
    · omega

/-- `lzma_index_iter_locate` on the list of records: succeeds iff the offset is inside the data, and then returns
    a Block that contains the offset (hence a non-empty one, and the only such Block) -/
theorem locatePos_contains {i : Index} {t : Nat} {p : Nat × Nat} (h : locatePos i t = some p) : Contains i p.1 p.2 t := by
  unfold locatePos at h
  split at h
  · simp at h
  · obtain ⟨j, s, b, hj, hs, hb, h1, h2⟩ := locateInStreams_spec i 0 0 t p (by omega) h
    have : p.1 = j := by omega
    refine ⟨s, b, by rw [this]; exact hs, hb, ?_, ?_⟩
    · unfold ufo; rw [this, hs]; simpa using h1
    · unfold ufo; rw [this, hs]; simpa using h2

theorem locatePos_some {i : Index} {t : Nat} (h : t < uncompressedSize i) : ∃ p, locatePos i t = some p := by
  unfold locatePos
  rw [if_neg (by omega)]
  exact locateInStreams_some i 0 0 t (by omega) (by omega)

theorem locatePos_none {i : Index} {t : Nat} (h : uncompressedSize i ≤ t) : locatePos i t = none := by
  unfold locatePos; rw [if_pos h]

/-- the positions a persistent specification iterator returns when `next(mode)` is called until it fails -/
def iterSeq (i : Index) (mode : Nat) : Nat → Option (Nat × Option Nat) → List (Nat × Option Nat)
  | 0, _ => []
  | n + 1, p =>
    match iterNextPos i mode (iterFuel i) p with
    | none => []
    | some q => q :: iterSeq i mode n (some q)

end Spec
end XzVerif.Index
