/-
  C04 (termination / totality), part 5: fuel of the structural .xz validators of Model/XzStruct.lean (the executable
  oracle of property C02: they parse encoder OUTPUT; they are not models of liblzma decoders).
  `walkChunks` (LZMA2 chunk headers; one unit per chunk, `out.size` supplied by `validateBlock`) and `validateBlocks`
  (one unit per Block, `out.size` supplied by `validateXz`).
-/
import XzVerif.Model.XzStruct

namespace XzVerif.XzStruct

/-- `split` runs into a `simp` step limit on the string-building error branches of these validators; this congruence
    step does the same job -/
theorem ite_both {α : Type} {c : Prop} [Decidable c] {a b a' b' : α} (h1 : c → a = a') (h2 : ¬c → b = b') :
    (if c then a else b) = (if c then a' else b') := by
  by_cases h : c
  · rw [if_pos h, if_pos h]; exact h1 h
  · rw [if_neg h, if_neg h]; exact h2 h

/-- (With no fuel at all the result would be "no-end-marker" instead of "truncated-control" at the end of the
    input, hence `0 < fuel`.) -/
theorem walkChunks_fuel (a : ByteArray) (plain : Option (ByteArray × Nat)) :
    ∀ (fuel pos : Nat) (np nr : Bool) (usum cnt lz : Nat), a.size < pos + fuel → 0 < fuel →
      ∀ k, walkChunks a plain (fuel + k) pos np nr usum cnt lz = walkChunks a plain fuel pos np nr usum cnt lz := by
  intro fuel
  induction fuel with
  | zero => intro _ _ _ _ _ _ _ h; omega
  | succ f ih =>
    intro pos np nr usum cnt lz h _ k
    rw [show f + 1 + k = (f + k) + 1 by omega]
    simp only [walkChunks]
    repeat' (first | rfl | (apply ite_both <;> intro _))
    all_goals (apply ih <;> omega)

/-- `validateBlock` supplies `out.size` at a position `pos + hs ≥ 4` inside a non-empty `out` -/
theorem walkChunks_supplies_enough (a : ByteArray) (plain : Option (ByteArray × Nat)) (pos : Nat) (hp : 0 < pos)
    (ha : 0 < a.size) (np nr : Bool) (usum cnt lz k : Nat) :
    walkChunks a plain (a.size + k) pos np nr usum cnt lz = walkChunks a plain a.size pos np nr usum cnt lz :=
  walkChunks_fuel a plain a.size pos np nr usum cnt lz (by omega) ha k

theorem ite_cases {α : Type} {c : Prop} [Decidable c] {a b r : α} (h : (if c then a else b) = r) :
    (c ∧ a = r) ∨ (¬c ∧ b = r) := by
  by_cases hc : c
  · rw [if_pos hc] at h; exact Or.inl ⟨hc, h⟩
  · rw [if_neg hc] at h; exact Or.inr ⟨hc, h⟩

/-- an accepted chunk sequence ends after its start (the end marker is one byte) -/
theorem walkChunks_endPos (a : ByteArray) (plain : Option (ByteArray × Nat)) :
    ∀ (fuel pos : Nat) (np nr : Bool) (usum cnt lz : Nat) (ch : Chunks),
      walkChunks a plain fuel pos np nr usum cnt lz = .ok ch → pos < ch.endPos := by
  intro fuel
  induction fuel with
  | zero => intro _ _ _ _ _ _ ch h; simp only [walkChunks] at h; cases h
  | succ f ih =>
    intro pos np nr usum cnt lz ch h
    simp only [walkChunks] at h
    repeat' (first
      | (cases h; done)
      | (injection h with h; subst h; exact Nat.lt_succ_self _)
      | (have := ih _ _ _ _ _ _ _ h; omega)
      | (rcases ite_cases h with ⟨_, h⟩ | ⟨_, h⟩))

/-- an accepted Block ends after its start -/
theorem validateBlock_npos (out : ByteArray) (pos check : Nat) (data : ByteArray) (dpos : Nat) (bi : BlockInfo)
    (npos : Nat) (h : validateBlock out pos check data dpos = .ok (bi, npos)) : pos < npos := by
  unfold validateBlock at h
  simp only at h
  rcases ite_cases h with ⟨_, h⟩ | ⟨_, h⟩
  · cases h
  rcases ite_cases h with ⟨_, h⟩ | ⟨_, h⟩
  · cases h
  split at h
  · cases h
  split at h
  · cases h
  rcases ite_cases h with ⟨_, h⟩ | ⟨_, h⟩
  · cases h
  rcases ite_cases h with ⟨_, h⟩ | ⟨_, h⟩
  · cases h
  split at h
  · cases h
  rename_i ch hch
  have hend := walkChunks_endPos _ _ _ _ _ _ _ _ _ _ hch
  repeat' (first
    | (cases h; done)
    | (injection h with h; injection h with _ h; subst h; omega)
    | (rcases ite_cases h with ⟨_, h⟩ | ⟨_, h⟩))

theorem validateBlocks_fuel (out : ByteArray) (check : Nat) (data : ByteArray) :
    ∀ (fuel pos dpos : Nat) (acc : List BlockInfo), out.size < pos + fuel → 0 < fuel →
      ∀ k, validateBlocks out check data (fuel + k) pos dpos acc = validateBlocks out check data fuel pos dpos acc := by
  intro fuel
  induction fuel with
  | zero => intro _ _ _ _ h; omega
  | succ f ih =>
    intro pos dpos acc h _ k
    rw [show f + 1 + k = (f + k) + 1 by omega]
    simp only [validateBlocks]
    apply ite_both <;> intro _
    · rfl
    apply ite_both <;> intro _
    · rfl
    cases hv : validateBlock out pos check data dpos with
    | error e => rfl
    | ok x =>
      obtain ⟨bi, npos⟩ := x
      have := validateBlock_npos _ _ _ _ _ _ _ hv
      exact ih _ _ _ (by omega) (by omega) k

/-- `validateXz` supplies `out.size` (≥ 24) from position 12 -/
theorem validateBlocks_supplies_enough (out : ByteArray) (check : Nat) (data : ByteArray) (h : 0 < out.size)
    (dpos : Nat) (acc : List BlockInfo) (k : Nat) :
    validateBlocks out check data (out.size + k) 12 dpos acc = validateBlocks out check data out.size 12 dpos acc :=
  validateBlocks_fuel out check data out.size 12 dpos acc (by omega) h k

end XzVerif.XzStruct
