/-
  Helper lemmas for C09: the restartable initialisation steps of the decoders (Model/Memlimit.lean).
-/
import XzVerif.Model.Memlimit
import XzVerif.Lemmas.Memusage

namespace XzVerif.Memlimit
open XzVerif.Memusage

/-! ## Heap scripts only see the number of live bytes -/

theorem step_live_congr (h1 h2 : Heap) (op : Op) (h : h1.live = h2.live) : (h1.step op).live = (h2.step op).live := by
  cases op <;> simp [Heap.step, Heap.alloc, Heap.free, h]

theorem apply_live_congr (ops : List Op) : ∀ (h1 h2 : Heap), h1.live = h2.live → (h1.apply ops).live = (h2.apply ops).live := by
  induction ops with
  | nil => intro h1 h2 h; simpa [Heap.apply] using h
  | cons op rest ih =>
    intro h1 h2 h
    simp only [Heap.apply, List.foldl_cons]
    exact ih _ _ (step_live_congr h1 h2 op h)

theorem free_reqs (h : Heap) (n : Nat) : (h.free n).reqs = h.reqs := rfl

/-! ## Cores that agree on what the application cannot change -/

/-- Two decoder states agree on everything an initialisation step reads except the limit, the recorded estimate and
    the allocation statistics: the same bytes are live, the same coders are allocated. -/
def Core.Sim (c1 c2 : Core) : Prop :=
  c1.heap.live = c2.heap.live ∧ c1.chain = c2.chain ∧ c1.blockAlloc = c2.blockAlloc

theorem Core.Sim.refl (c : Core) : Core.Sim c c := ⟨rfl, rfl, rfl⟩
theorem Core.Sim.symm {c1 c2 : Core} (h : Core.Sim c1 c2) : Core.Sim c2 c1 := ⟨h.1.symm, h.2.1.symm, h.2.2.symm⟩
theorem Core.Sim.trans {c1 c2 c3 : Core} (h : Core.Sim c1 c2) (h' : Core.Sim c2 c3) : Core.Sim c1 c3 :=
  ⟨h.1.trans h'.1, h.2.1.trans h'.2.1, h.2.2.trans h'.2.2⟩

/-- The same, and also the same recorded estimate (steps whose estimate was computed before the step: .lzma, .lz, Index). -/
def Core.SimU (c1 c2 : Core) : Prop := Core.Sim c1 c2 ∧ c1.memusage = c2.memusage

/-- What a restartable step must satisfy, relative to a relation `R` between decoder states ("equal up to what
    lzma_memlimit_set and the allocation statistics can change"), for the retry protocol to be transparent. -/
structure Restartable (R : Core → Core → Prop) (attempt : Core → InitResult × Core) : Prop where
  trans : ∀ a b c, R a b → R b c → R a c
  /-- changing only the limit stays inside the relation -/
  limitOnly : ∀ c l, R { c with memlimit := l } c
  /-- LZMA_MEMLIMIT_ERROR changes nothing the relation sees -/
  onLimit : ∀ c c', attempt c = (.memlimit, c') → R c' c
  /-- the outcome depends on the limit only through the comparison: from related states the step either reports the
      limit or produces the same code and related states -/
  congr : ∀ c1 c2 k c1', R c1 c2 → attempt c1 = (.done k, c1') →
    (∃ c2', attempt c2 = (.memlimit, c2')) ∨ (∃ c2', attempt c2 = (.done k, c2') ∧ R c1' c2')

theorem handleMemlimit_core (r : Run) : ∃ l, (handleMemlimit r).1.core = { r.core with memlimit := l } := by
  simp only [handleMemlimit]
  cases h : trySets r.core.memusage r.core.memlimit (r.emit (.mem r.core.memusage r.core.memlimit r.core.heap.live r.core.heap.peak)).sets with
  | mk evs rest2 =>
    cases rest2 with
    | mk res rest =>
      have hcore : ∀ (evs : List (Nat × Nat × Nat)) (r0 : Run),
          (evs.foldl (fun acc ev => acc.emit (.set ev.1 ev.2.1 ev.2.2 r.core.memusage)) r0).core = r0.core := by
        intro evs
        induction evs with
        | nil => intro r0; rfl
        | cons e es ih => intro r0; simp only [List.foldl_cons]; rw [ih]; rfl
      cases res with
      | none => exact ⟨r.core.memlimit, by simp only [hcore]; rfl⟩
      | some l => exact ⟨l, rfl⟩

/-- The retry protocol is transparent: if the run with limit tokens ends with a code other than LZMA_MEMLIMIT_ERROR,
    then from any related state on which the limit is not the obstacle the single attempt gives the same code and a
    related state. -/
theorem retryLoop_transparent (R : Core → Core → Prop) (attempt : Core → InitResult × Core) (hr : Restartable R attempt) :
    ∀ (fuel : Nat) (r : Run) (k : Nat) (r' : Run), retryLoop attempt fuel r = (k, r') → k ≠ 6 → k ≠ 11 →
      ∀ (cu : Core) (ku : Nat) (cu' : Core), R r.core cu → attempt cu = (.done ku, cu') →
        k = ku ∧ R r'.core cu' := by
  intro fuel
  induction fuel with
  | zero => intro r k r' h _ h11; simp [retryLoop] at h; exact absurd h.1.symm h11
  | succ fuel ih =>
    intro r k r' h h6 h11 cu ku cu' hsim hu
    simp only [retryLoop] at h
    cases ha : attempt r.core with
    | mk res c1 =>
      rw [ha] at h
      cases res with
      | done code =>
        simp only [Prod.mk.injEq] at h
        obtain ⟨hk, hr'⟩ := h
        subst hk; subst hr'
        rcases hr.congr r.core cu code c1 hsim ha with ⟨c2', h2⟩ | ⟨c2', h2, hs⟩
        · rw [hu] at h2; cases h2
        · rw [hu] at h2
          simp only [Prod.mk.injEq, InitResult.done.injEq] at h2
          obtain ⟨hk, hc⟩ := h2
          subst hc
          exact ⟨hk.symm, hs⟩
      | memlimit =>
        simp only at h
        have h1 := hr.onLimit r.core c1 ha
        cases hh : handleMemlimit { r with core := c1 } with
        | mk r2 ok =>
          rw [hh] at h
          have hs2 : R r2.core c1 := by
            obtain ⟨l, hl⟩ := handleMemlimit_core { r with core := c1 }
            rw [hh] at hl
            simp only at hl
            rw [hl]
            exact hr.limitOnly c1 l
          cases ok with
          | false => simp at h; exact absurd h.1.symm h6
          | true =>
            simp only [↓reduceIte] at h
            exact ih r2 k r' h h6 h11 cu ku cu' (hr.trans _ _ _ hs2 (hr.trans _ _ _ h1 hsim)) hu

/-! ## Heap arithmetic -/

theorem apply_append (h : Heap) (a c : List Op) : h.apply (a ++ c) = (h.apply a).apply c := by
  simp [Heap.apply, List.foldl_append]

theorem apply_allocs_live (l : List Nat) : ∀ h : Heap, (h.apply (l.map Op.alloc)).live = h.live + l.sum := by
  induction l with
  | nil => intro h; simp [Heap.apply]
  | cons x rest ih =>
    intro h
    simp only [List.map_cons, Heap.apply, List.foldl_cons, List.sum_cons]
    have := ih (h.step (.alloc x))
    simp only [Heap.apply] at this
    rw [this]
    simp [Heap.step, Heap.alloc]; omega

theorem allocs_live (l : List Nat) : ∀ h : Heap, (h.allocs l).live = h.live + l.sum := by
  induction l with
  | nil => intro h; simp [Heap.allocs]
  | cons x rest ih =>
    intro h
    simp only [Heap.allocs, List.foldl_cons, List.sum_cons]
    have := ih (h.alloc x)
    simp only [Heap.allocs] at this
    rw [this]
    simp [Heap.alloc]; omega

theorem optionAlloc_keep_le (b : Build) (o : Container.FilterOpts) : (optionAlloc b o).2 ≤ (optionAlloc b o).1.sum := by
  cases o <;> simp [optionAlloc]
  split <;> simp

/-- The option structs `lzma_block_header_decode` leaves allocated are exactly `keep` bytes. -/
theorem optionScript_live (b : Build) : ∀ (fl : List Container.Filter) (h : Heap),
    (h.apply (optionScript b fl).1).live = h.live + (optionScript b fl).2.1 := by
  intro fl
  induction fl with
  | nil => intro h; simp [optionScript, Heap.apply]
  | cons f rest ih =>
    intro h
    simp only [optionScript]
    cases hp : Container.propsDecode f.id f.props with
    | error e => exact ih h
    | ok o =>
      cases hr : optionScript b rest with
      | mk ops2 r2 =>
        cases r2 with
        | mk k2 fs2 =>
          have ih' := ih
          rw [hr] at ih'
          simp only at ih'
          by_cases he : f.props.isEmpty
          · simp only [he, ↓reduceIte, List.map_nil, List.sum_nil, Nat.sub_self, List.nil_append, Nat.zero_add]
            exact ih' h
          · simp only [he, Bool.false_eq_true, ↓reduceIte]
            have hk := optionAlloc_keep_le b o
            cases ho : optionAlloc b o with
            | mk req keep =>
              rw [ho] at hk
              simp only at hk ⊢
              rw [apply_append, apply_append, ih']
              by_cases hz : req.sum - keep = 0
              · simp only [hz, ↓reduceIte, Heap.apply, List.foldl_nil]
                have := apply_allocs_live req h
                simp only [Heap.apply] at this
                rw [this]; omega
              · simp only [hz, ↓reduceIte]
                have := apply_allocs_live req h
                simp only [Heap.apply, List.foldl_cons, List.foldl_nil, Heap.step, Heap.free] at this ⊢
                rw [this]; omega

/-! ## SEQ_BLOCK_INIT is restartable -/

/-- One pass through SEQ_BLOCK_INIT with the option structs allocated by script `ops` (which leaves `opt` bytes
    allocated; they are freed again before the step returns). -/
def blockStep (b : Build) (ops : List Op) (opt : Nat) (fs : List Filter) (c : Core) : InitResult × Core :=
  blockInit b { c with heap := c.heap.apply ops } opt fs

theorem blockStep_restartable (b : Build) (ops : List Op) (opt : Nat) (fs : List Filter)
    (hbal : ∀ h : Heap, ((h.apply ops).free opt).live = h.live) :
    Restartable Core.Sim (blockStep b ops opt fs) := by
  constructor
  · intro a b c; exact Core.Sim.trans
  · intro c l; exact ⟨rfl, rfl, rfl⟩
  · intro c c' h
    simp only [blockStep, blockInit] at h
    cases hm : rawDecoderMemusage b fs with
    | none => simp [hm] at h
    | some m =>
      simp only [hm] at h
      split at h
      · simp only [Prod.mk.injEq, true_and] at h
        subst h
        exact ⟨hbal c.heap, rfl, rfl⟩
      · cases hbs : blockInitScript b c.blockAlloc c.chain fs with
        | mk r rest => simp [hbs] at h
  · intro c1 c2 k c1' hsim h
    obtain ⟨hl, hc, hb⟩ := hsim
    simp only [blockStep, blockInit] at h ⊢
    cases hm : rawDecoderMemusage b fs with
    | none =>
      simp only [hm, Prod.mk.injEq, InitResult.done.injEq] at h ⊢
      obtain ⟨hk, hc1⟩ := h
      subst hc1
      right
      refine ⟨_, ⟨hk, rfl⟩, ?_, hc, hb⟩
      show ((c1.heap.apply ops).free opt).live = ((c2.heap.apply ops).free opt).live
      simp only [Heap.free, apply_live_congr ops _ _ hl]
    | some m =>
      simp only [hm] at h ⊢
      split at h
      · simp at h
      · by_cases h2 : m > c2.memlimit
        · left; simp [h2]
        · right
          simp only [h2, ↓reduceIte]
          rw [← hc, ← hb]
          cases hbs : blockInitScript b c1.blockAlloc c1.chain fs with
          | mk r rest =>
            cases rest with
            | mk ops' ch =>
              simp only [hbs, Prod.mk.injEq, InitResult.done.injEq] at h ⊢
              obtain ⟨hk, hc1⟩ := h
              subst hc1
              refine ⟨_, ⟨hk, rfl⟩, ?_, rfl, rfl⟩
              show (((c1.heap.apply ops).apply ops').free opt).live = (((c2.heap.apply ops).apply ops').free opt).live
              simp only [Heap.free, apply_live_congr ops' _ _ (apply_live_congr ops _ _ hl)]

/-- The single-filter decoders (.lzma, .lz): SEQ_CODER_INIT. -/
theorem coderAttempt_restartable (b : Build) (o : LzmaOpts) : Restartable Core.SimU (coderAttempt b o) := by
  constructor
  · intro a b c h1 h2; exact ⟨h1.1.trans h2.1, h1.2.trans h2.2⟩
  · intro c l; exact ⟨⟨rfl, rfl, rfl⟩, rfl⟩
  · intro c c' h
    simp only [coderAttempt] at h
    split at h
    · simp only [Prod.mk.injEq, true_and] at h; subst h; exact ⟨Core.Sim.refl _, rfl⟩
    · cases hci : chainInit b [.lzma1 o] c.heap c.chain with
      | mk r rest => simp [hci] at h
  · intro c1 c2 k c1' hsim h
    obtain ⟨⟨hl, hc, hb⟩, hu⟩ := hsim
    simp only [coderAttempt] at h ⊢
    split at h
    · simp at h
    · by_cases h2 : c2.memusage > c2.memlimit
      · left; simp [h2]
      · right
        simp only [h2, ↓reduceIte]
        simp only [chainInit] at h ⊢
        rw [← hc]
        cases hcs : chainScript b [.lzma1 o] c1.chain with
        | mk r rest =>
          cases rest with
          | mk ops ch =>
            simp only [hcs, Prod.mk.injEq, InitResult.done.injEq] at h ⊢
            obtain ⟨hk, hc1⟩ := h
            subst hc1
            exact ⟨_, ⟨hk, rfl⟩, ⟨apply_live_congr ops _ _ hl, rfl, hb⟩, hu⟩

/-- The Index decoder: SEQ_MEMUSAGE. -/
theorem indexAttempt_restartable : Restartable Core.SimU indexAttempt := by
  constructor
  · intro a b c h1 h2; exact ⟨h1.1.trans h2.1, h1.2.trans h2.2⟩
  · intro c l; exact ⟨⟨rfl, rfl, rfl⟩, rfl⟩
  · intro c c' h
    simp only [indexAttempt] at h
    split at h
    · simp only [Prod.mk.injEq, true_and] at h; subst h; exact ⟨Core.Sim.refl _, rfl⟩
    · simp at h
  · intro c1 c2 k c1' hsim h
    simp only [indexAttempt] at h ⊢
    split at h
    · simp at h
    · simp only [Prod.mk.injEq, InitResult.done.injEq] at h
      obtain ⟨hk, hc1⟩ := h
      subst hc1
      by_cases h2 : c2.memusage > c2.memlimit
      · left; simp [h2]
      · right; simp only [h2, ↓reduceIte]; exact ⟨c2, by subst hk; rfl, hsim⟩

/-- SEQ_BLOCK_INIT for an arbitrary Block Header (decodable or not). -/
theorem blockAttempt_restartable (b : Build) (check : Nat) (hdr : List UInt8) :
    Restartable Core.Sim (blockAttempt b check hdr) := by
  cases hd : Container.blockHeaderDecodeWith hdr.length check hdr with
  | ok bh =>
    have heq : blockAttempt b check hdr = blockStep b (optionScript b bh.filters).1 (optionScript b bh.filters).2.1
        (optionScript b bh.filters).2.2 := by
      funext c
      simp only [blockAttempt, hd, blockStep]
    rw [heq]
    apply blockStep_restartable
    intro h
    simp only [Heap.free, optionScript_live]
    omega
  | error e =>
    constructor
    · intro a b c; exact Core.Sim.trans
    · intro c l; exact ⟨rfl, rfl, rfl⟩
    · intro c c' h; simp [blockAttempt, hd] at h
    · intro c1 c2 k c1' hsim h
      right
      simp only [blockAttempt, hd, Prod.mk.injEq, InitResult.done.injEq] at h ⊢
      obtain ⟨hk, hc1⟩ := h
      subst hc1
      refine ⟨_, ⟨hk, rfl⟩, ?_, hsim.2.1, hsim.2.2⟩
      simp only [Heap.free, allocs_live, hsim.1]

/-! ## What is live after the first SEQ_BLOCK_INIT -/

/-- Bytes requested by a script. -/
def allocSum : List Op → Nat
  | [] => 0
  | .alloc n :: rest => n + allocSum rest
  | .free _ :: rest => allocSum rest

theorem allocSum_append (a c : List Op) : allocSum (a ++ c) = allocSum a + allocSum c := by
  induction a with
  | nil => simp [allocSum]
  | cons op rest ih => cases op <;> simp [allocSum, ih] <;> omega

theorem allocSum_map_alloc (l : List Nat) : allocSum (l.map Op.alloc) = l.sum := by
  induction l with
  | nil => rfl
  | cons x rest ih => simp [allocSum, ih]

/-- Replaying a script never leaves more live bytes than the start plus everything it requests. -/
theorem apply_live_le (ops : List Op) : ∀ h : Heap, (h.apply ops).live ≤ h.live + allocSum ops := by
  induction ops with
  | nil => intro h; simp [Heap.apply, allocSum]
  | cons op rest ih =>
    intro h
    simp only [Heap.apply, List.foldl_cons]
    have := ih (h.step op)
    simp only [Heap.apply] at this
    cases op with
    | alloc n => simp only [Heap.step, Heap.alloc, allocSum] at this ⊢; omega
    | free n => simp only [Heap.step, Heap.free, allocSum] at this ⊢; omega

theorem freshInit_allocs_le (b : Build) (f : Filter) : (freshInit b f).2.1.sum ≤ (filterDecAllocs b f).sum := by
  simp only [freshInit]
  cases hk : kindOf f with
  | none => simp
  | some k =>
    simp only
    split
    · exact filterDecAllocsOnError_le b f
    · cases f <;> simp

/-- On a fresh coder the filter chain initialisation requests at most the allocation list of the chain. -/
theorem chainScript_fresh_allocSum (b : Build) : ∀ fs : List Filter,
    allocSum (chainScript b fs []).2.1 ≤ (rawDecoderAllocs b fs).sum := by
  intro fs
  induction fs with
  | nil => simp [chainScript, allocSum]
  | cons f rest ih =>
    have hf := freshInit_allocs_le b f
    simp only [chainScript, rawDecoderAllocs, List.map_cons, List.flatten_cons, List.sum_append]
    simp only [rawDecoderAllocs] at ih
    cases hcs : chainScript b rest [] with
    | mk r2 rest3 =>
      cases rest3 with
      | mk ops2 c2 =>
        rw [hcs] at ih
        simp only at ih
        cases hfr : freshInit b f with
        | mk r rest2 =>
          cases rest2 with
          | mk a n =>
            rw [hfr] at hf
            simp only at hf
            cases n with
            | none => simp only [allocSum_map_alloc]; omega
            | some n =>
              simp only
              split
              · simp only [allocSum_map_alloc]; omega
              · simp only [allocSum_append, allocSum_map_alloc]; omega

theorem sumOpt_some_all (fm : Filter → Option Nat) : ∀ (fs : List Filter) (t : Nat), sumOpt (fs.map fm) = some t →
    ∀ f ∈ fs, (fm f).isSome := by
  intro fs
  induction fs with
  | nil => intro t _ f hf; cases hf
  | cons g rest ih =>
    intro t h f hf
    rw [List.map_cons] at h
    cases hg : fm g with
    | none => rw [hg] at h; simp [sumOpt] at h
    | some u =>
      rw [hg] at h
      cases hr : sumOpt (rest.map fm) with
      | none => simp [sumOpt, hr] at h
      | some s =>
        cases hf with
        | head => simp [hg]
        | tail _ hf' => exact ih s hr f hf'

theorem decMemusage_known (b : Build) (f : Filter) (h : (filterDecMemusage b f).isSome) : decoderKnown f = true := by
  cases f with
  | bcj id s => simp only [filterDecMemusage] at h; simp only [decoderKnown]; split at h <;> simp_all
  | other id => simp [filterDecMemusage] at h
  | _ => rfl

/-- The first Block of a .xz Stream on a fresh single-threaded decoder: after SEQ_BLOCK_INIT (whatever its outcome, as
    long as the chain has an estimate and the limit allows it) the bytes that are live — lzma_internal, Stream coder,
    Index hash, Block decoder, the whole filter chain — are at most `lzma_raw_decoder_memusage()` of the chain, i.e.
    what `lzma_memusage()` reports and what was compared with the limit. -/
theorem stream_decoder_first_block_le_estimate (b : Build) (hb : b.Ok) (c : Core) (opt : Nat) (fs : List Filter) (m k : Nat)
    (c' : Core) (hchain : c.chain = []) (hblk : c.blockAlloc = false)
    (hlive : c.heap.live = b.szInternal + b.szStreamDecoder + b.szIndexHash + opt)
    (hm : rawDecoderMemusage b fs = some m) (h : blockInit b c opt fs = (.done k, c')) :
    c'.heap.live ≤ m ∧ c'.memusage = m ∧ m ≤ c.memlimit := by
  have hm' := hm
  unfold rawDecoderMemusage rawCoderMemusage at hm'
  split at hm'
  · rename_i hok
    cases hs : sumOpt (fs.map (filterDecMemusage b)) with
    | none => simp [hs] at hm'
    | some total =>
      simp only [hs, Option.some.injEq] at hm'
      have hlen := chainOk_length hok
      have h1 := sumOpt_map_allocs_le (filterDecMemusage b) (filterDecAllocs b) 4096
        (fun f u h => filterDecAllocs_le b hb.bcj f u h) fs total hs
      have hknown : fs.all decoderKnown = true := by
        rw [List.all_eq_true]
        intro f hf
        exact decMemusage_known b f (sumOpt_some_all _ fs total hs f hf)
      have hval : validateChainRet fs = 0 := by
        simp only [validateChainRet, hok, ↓reduceIte]
        cases fs with
        | nil => simp [chainOk] at hok
        | cons _ _ => simp
      simp only [blockInit, hm] at h
      by_cases hgt : m > c.memlimit
      · simp [hgt] at h
      · simp only [hgt, ↓reduceIte, blockInitScript, rawDecoderReinitScript, hval, hknown, hchain, hblk,
          ne_eq, not_true_eq_false, Bool.not_true, Bool.false_eq_true] at h
        have hs2 := chainScript_fresh_allocSum b fs
        have hx := hb.xzDec
        simp only [rawDecoderAllocs] at hs2
        cases hcs : chainScript b fs [] with
        | mk r rest =>
          cases rest with
          | mk ops c1 =>
            rw [hcs] at hs2
            simp only at hs2
            simp only [hcs] at h
            have hfour : 4096 * fs.length ≤ 16384 := by simp only [FILTERS_MAX] at hlen; omega
            by_cases hr : r = 0
            · subst hr
              simp only [not_true_eq_false, ↓reduceIte, Prod.mk.injEq, InitResult.done.injEq] at h
              obtain ⟨_, hc'⟩ := h
              subst hc'
              refine ⟨?_, rfl, by omega⟩
              have := apply_live_le (Op.alloc b.szBlockDecoder :: ops) c.heap
              simp only [List.cons_append, List.nil_append, Heap.free, allocSum] at this ⊢
              omega
            · simp only [hr, not_false_eq_true, ↓reduceIte, Prod.mk.injEq, InitResult.done.injEq] at h
              obtain ⟨_, hc'⟩ := h
              subst hc'
              refine ⟨?_, rfl, by omega⟩
              have := apply_live_le (Op.alloc b.szBlockDecoder :: (ops ++ [Op.free (chainBytes c1)])) c.heap
              simp only [List.cons_append, List.nil_append, Heap.free, allocSum, allocSum_append] at this ⊢
              omega
  · cases hm'

end XzVerif.Memlimit
