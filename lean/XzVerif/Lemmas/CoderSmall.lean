/-
  Lemmas for the chunk-faithful small coders (C06): feeding `a ++ b` equals feeding `a`, then `b` with the carried state.
-/
import XzVerif.Model.CoderSmall

namespace XzVerif.Coder
open XzVerif.Vli

/-! ### VLI decode loop -/

theorem vliDecLoop_used (inp : List UInt8) (vli pos used : Nat) :
    vliDecLoop inp vli pos used =
      ((vliDecLoop inp vli pos 0).1, (vliDecLoop inp vli pos 0).2.1, (vliDecLoop inp vli pos 0).2.2.1,
        (vliDecLoop inp vli pos 0).2.2.2 + used) := by
  induction inp generalizing vli pos used with
  | nil => simp [vliDecLoop]
  | cons b t ih =>
    simp only [vliDecLoop]
    split
    · split <;> simp <;> omega
    · split
      · simp; omega
      · rw [ih _ _ (used + 1), ih _ _ (0 + 1)]
        simp; omega

/-- A piece that ends in the middle of the integer returns `LZMA_OK` having consumed everything; the loop over `a ++ b` is the loop
    over `a` followed by the loop over `b` from the state `a` left. -/
theorem vliDecLoop_append (a b : List UInt8) (vli pos used : Nat) :
    vliDecLoop (a ++ b) vli pos used =
      if (vliDecLoop a vli pos used).1 = .ok then
        vliDecLoop b (vliDecLoop a vli pos used).2.1 (vliDecLoop a vli pos used).2.2.1 (vliDecLoop a vli pos used).2.2.2
      else vliDecLoop a vli pos used := by
  induction a generalizing vli pos used with
  | nil => simp [vliDecLoop]
  | cons x t ih =>
    simp only [List.cons_append, vliDecLoop]
    split
    · split <;> simp
    · split
      · simp
      · exact ih _ _ _

theorem vliDecLoop_ok_consumed (a : List UInt8) (vli pos used : Nat) (h : (vliDecLoop a vli pos used).1 = .ok) :
    (vliDecLoop a vli pos used).2.2.2 = used + a.length := by
  induction a generalizing vli pos used with
  | nil => simp [vliDecLoop]
  | cons x t ih =>
    simp only [vliDecLoop] at h ⊢
    split at h
    · split at h <;> simp at h
    · split at h
      · simp at h
      · rename_i h1 h2
        simp only [h1, h2, if_false]
        rw [ih _ _ _ h]
        simp; omega

/-- While the loop says `LZMA_OK` the state stays acceptable to the argument check of the next call:
    `vli_pos < 9` and `vli < 2^(7·vli_pos)`. -/
theorem vliDecLoop_ok_inv (a : List UInt8) (vli pos used : Nat) (hp : pos < 9) (hv : vli < 2 ^ (7 * pos))
    (h : (vliDecLoop a vli pos used).1 = .ok) :
    (vliDecLoop a vli pos used).2.2.1 < 9 ∧ (vliDecLoop a vli pos used).2.1 < 2 ^ (7 * (vliDecLoop a vli pos used).2.2.1)
      ∧ (a ≠ [] → (vliDecLoop a vli pos used).2.2.1 > 0) := by
  induction a generalizing vli pos used with
  | nil => simpa [vliDecLoop] using ⟨hp, hv⟩
  | cons x t ih =>
    simp only [vliDecLoop] at h ⊢
    split at h
    · split at h <;> simp at h
    · split at h
      · simp at h
      · rename_i h1 h2
        simp only [h1, h2, if_false]
        have hp' : pos + 1 < 9 := by
          simp [VLI_BYTES_MAX] at h2; omega
        have hv' : vli + (x.toNat % 128) <<< (pos * 7) < 2 ^ (7 * (pos + 1)) := by
          rw [Nat.shiftLeft_eq, Nat.mul_comm pos 7]
          have : x.toNat % 128 < 128 := Nat.mod_lt _ (by decide)
          have e : 2 ^ (7 * (pos + 1)) = 128 * 2 ^ (7 * pos) := by
            rw [Nat.mul_add, Nat.pow_add]; simp [Nat.mul_comm]
          rw [e]
          have : (x.toNat % 128) * 2 ^ (7 * pos) ≤ 127 * 2 ^ (7 * pos) := Nat.mul_le_mul_right _ (by omega)
          omega
        obtain ⟨i1, i2, _⟩ := ih _ _ _ hp' hv' h
        refine ⟨i1, i2, fun _ => ?_⟩
        cases t with
        | nil => simp [vliDecLoop]
        | cons y t' =>
          have := (ih _ _ (used + 1) hp' hv' h).2.2 (by simp)
          exact this

/-! ### LZMA2 header machine and Index decoder machine: feeding in two pieces -/

theorem l2Feed_append (s : L2State) (a b : List UInt8) :
    l2Feed s (a ++ b) =
      if (l2Feed s a).2.1.any L2Event.isFinished then l2Feed s a
      else ((l2Feed (l2Feed s a).1 b).1, (l2Feed s a).2.1 ++ (l2Feed (l2Feed s a).1 b).2.1,
            (l2Feed (l2Feed s a).1 b).2.2 + (l2Feed s a).2.2) := by
  induction a generalizing s with
  | nil => simp [l2Feed]
  | cons x t ih =>
    simp only [List.cons_append, l2Feed]
    by_cases hf : (l2Step s x).2.any L2Event.isFinished = true
    · simp [hf]
    · simp only [hf, Bool.false_eq_true, if_false]
      rw [ih]
      have hf' : (l2Step s x).2.any L2Event.isFinished = false := by simpa using hf
      by_cases hg : (l2Feed (l2Step s x).1 t).2.1.any L2Event.isFinished = true
      · simp [hg, List.any_append]
      · have hg' : (l2Feed (l2Step s x).1 t).2.1.any L2Event.isFinished = false := by simpa using hg
        simp [hg', hf', List.any_append, List.append_assoc, Nat.add_assoc]

theorem ixFeed_append (s : IxState) (a b : List UInt8) :
    ixFeed s (a ++ b) =
      match (ixFeed s a).2.1 with
      | some _ => ixFeed s a
      | none => ((ixFeed (ixFeed s a).1 b).1, (ixFeed (ixFeed s a).1 b).2.1, (ixFeed (ixFeed s a).1 b).2.2 + (ixFeed s a).2.2) := by
  induction a generalizing s with
  | nil => simp [ixFeed]
  | cons x t ih =>
    simp only [List.cons_append, ixFeed]
    rcases hstep : ixStep s x with ⟨s', v⟩
    cases v with
    | some r => simp
    | none =>
      simp only
      rw [ih]
      cases h : (ixFeed s' t).2.1 with
      | some r => simp [h]
      | none => simp [Nat.add_assoc]

/-! ### Delta -/

theorem delta_run_append (step : Delta.State → UInt8 → Delta.State × UInt8) (s : Delta.State) (a b : List UInt8) :
    Delta.run step s (a ++ b) = ((Delta.run step (Delta.run step s a).1 b).1, (Delta.run step s a).2 ++ (Delta.run step (Delta.run step s a).1 b).2) := by
  induction a generalizing s with
  | nil => simp [Delta.run]
  | cons x t ih => simp [Delta.run, ih]

theorem delta_run_length (step : Delta.State → UInt8 → Delta.State × UInt8) (s : Delta.State) (a : List UInt8) :
    (Delta.run step s a).2.length = a.length := by
  induction a generalizing s with
  | nil => simp [Delta.run]
  | cons x t ih => simp [Delta.run, ih]

/-! ### Sliced runs of the field reader and of the delta encoder -/

theorem take_add_drop (l : List UInt8) (c n : Nat) : l.take (c + n) = l.take c ++ (l.drop c).take n := by
  rw [List.take_add]

/-- Invariant of a sliced run of `fieldCoder size` over `input`. -/
structure FieldInv (size : Nat) (input : List UInt8) (r : Run (List UInt8)) : Prop where
  buf : r.state = input.take r.consumed
  rest : r.rest = input.drop r.consumed
  le : r.consumed ≤ input.length
  cap : r.consumed ≤ size
  out : r.out = []
  ret : r.ret ≠ .ok → r.ret = .streamEnd ∧ r.consumed = size
  settled : r.settled = true → r.consumed = min size input.length

theorem FieldInv.piece {size : Nat} {input : List UInt8} {r : Run (List UInt8)} (h : FieldInv size input r) (fin : Bool)
    (inLen cap : Nat) : FieldInv size input (runPiece (fieldCoder size) fin r inLen cap) := by
  have hlen : r.state.length = r.consumed := by rw [h.buf, List.length_take]; exact Nat.min_eq_left h.le
  have hrl : r.rest.length = input.length - r.consumed := by rw [h.rest, List.length_drop]
  have hle := h.le
  have hcap := h.cap
  simp only [runPiece, fieldCoder]
  obtain ⟨n, hn⟩ : ∃ n, min (List.take inLen r.rest).length (size - r.state.length) = n := ⟨_, rfl⟩
  simp only [hn]
  have hn1 : n ≤ r.rest.length := by
    rw [← hn]; simp only [List.length_take]; omega
  have hn2 : n ≤ size - r.consumed := by rw [← hn, hlen]; exact Nat.min_le_right _ _
  have hn3 : n ≤ inLen := by
    rw [← hn]; simp only [List.length_take]; omega
  have htt : (r.rest.take inLen).take n = r.rest.take n := by rw [List.take_take, Nat.min_eq_left hn3]
  have hnewlen : (r.state ++ (r.rest.take inLen).take n).length = r.consumed + n := by
    rw [List.length_append, hlen, htt, List.length_take, Nat.min_eq_left hn1]
  refine ⟨?_, ?_, by simp only; omega, by simp only; have := h.cap; omega, by simp [h.out], ?_, ?_⟩
  · simp only
    rw [htt, h.buf, h.rest, take_add_drop]
  · simp only
    rw [h.rest, List.drop_drop]
  · simp only [hnewlen]
    intro hr
    split at hr
    · rename_i hge
      refine ⟨by simp [hge], ?_⟩
      have := h.cap; omega
    · exact absurd rfl hr
  · simp only [hnewlen, List.length_nil]
    intro hs
    have hcap := h.cap
    split at hs
    · rename_i hge
      have : r.consumed + n = size := by omega
      rw [this]; omega
    · rename_i hlt
      simp only [ne_eq, not_true_eq_false, decide_false, Bool.false_or, Bool.and_eq_true, decide_eq_true_eq] at hs
      -- the field is not complete although everything was offered: all input has been taken
      have hall : n = r.rest.length := by
        have : (List.take inLen r.rest).length = r.rest.length := by
          rw [List.length_take]; omega
        rw [this, hlen] at hn
        omega
      omega

theorem FieldInv.init (size : Nat) (input : List UInt8) : FieldInv size input (Run.init [] input) :=
  ⟨by simp [Run.init], by simp [Run.init], by simp [Run.init], by simp [Run.init], rfl, fun h => by simp [Run.init] at h,
   fun h => by simp [Run.init] at h⟩

theorem FieldInv.sliced {size : Nat} {input : List UInt8} (fin : Bool) (sl : List (Nat × Nat)) {r : Run (List UInt8)}
    (h : FieldInv size input r) : FieldInv size input (runSliced (fieldCoder size) fin sl r) := by
  induction sl generalizing r with
  | nil => simpa [runSliced] using h
  | cons p sl ih =>
    obtain ⟨inLen, cap⟩ := p
    simp only [runSliced]
    split
    · exact h
    · exact ih (h.piece fin inLen cap)

/-- Invariant of a sliced run of the delta encoder (`next.code == NULL`) from state `s₀` over `input`. -/
structure DeltaInv (s₀ : Delta.State) (input : List UInt8) (r : Run Delta.State) : Prop where
  st : r.state = (Delta.encode s₀ (input.take r.consumed)).1
  out : r.out = (Delta.encode s₀ (input.take r.consumed)).2
  rest : r.rest = input.drop r.consumed
  le : r.consumed ≤ input.length
  settled : r.settled = true → r.consumed = input.length

theorem DeltaInv.piece {s₀ : Delta.State} {input : List UInt8} {r : Run Delta.State} (h : DeltaInv s₀ input r) (fin : Bool)
    (inLen cap : Nat) : DeltaInv s₀ input (runPiece deltaEncCoder fin r inLen cap) := by
  have hrl : r.rest.length = input.length - r.consumed := by rw [h.rest, List.length_drop]
  simp only [runPiece, deltaEncCoder]
  obtain ⟨n, hn⟩ : ∃ n, min (List.take inLen r.rest).length cap = n := ⟨_, rfl⟩
  simp only [hn]
  have hn1 : n ≤ r.rest.length := by
    rw [← hn]; simp only [List.length_take]; omega
  have hn3 : n ≤ inLen := by
    rw [← hn]; simp only [List.length_take]; omega
  have htt : (r.rest.take inLen).take n = r.rest.take n := by rw [List.take_take, Nat.min_eq_left hn3]
  have happ : Delta.encode s₀ (input.take (r.consumed + n)) =
      ((Delta.encode r.state (r.rest.take n)).1, r.out ++ (Delta.encode r.state (r.rest.take n)).2) := by
    have hst := h.st
    have hout := h.out
    rw [take_add_drop, ← h.rest]
    simp only [Delta.encode] at *
    rw [delta_run_append, ← hst, ← hout]
  refine ⟨?_, ?_, ?_, by simp only; have := h.le; omega, ?_⟩
  · simp only; rw [htt, happ]
  · simp only; rw [htt, happ]
  · simp only; rw [h.rest, List.drop_drop]
  · simp only
    intro hs
    have hol : (Delta.encode r.state ((r.rest.take inLen).take n)).2.length = n := by
      rw [htt]; simp only [Delta.encode]; rw [delta_run_length, List.length_take, Nat.min_eq_left hn1]
    have hle := h.le
    rw [hol] at hs
    simp only [Bool.or_eq_true, decide_eq_true_eq, Bool.and_eq_true] at hs
    rcases hs with hs | ⟨hs1, hs2⟩
    · -- STREAM_END: the action was not RUN and all offered input was taken; the action is FINISH only if everything was offered
      split at hs
      · rename_i hc
        have hoff : r.rest.length ≤ inLen := hc.2
        have hlt : (List.take inLen r.rest).length = r.rest.length := by rw [List.length_take]; omega
        split at hs
        · rename_i hc2
          omega
        · exact absurd rfl hs
      · simp at hs
    · have : (List.take inLen r.rest).length = r.rest.length := by rw [List.length_take]; omega
      omega

theorem DeltaInv.init (s₀ : Delta.State) (input : List UInt8) : DeltaInv s₀ input (Run.init s₀ input) :=
  ⟨by simp [Run.init, Delta.encode, Delta.run], by simp [Run.init, Delta.encode, Delta.run], by simp [Run.init],
   by simp [Run.init], fun h => by simp [Run.init] at h⟩

theorem DeltaInv.sliced {s₀ : Delta.State} {input : List UInt8} (fin : Bool) (sl : List (Nat × Nat)) {r : Run Delta.State}
    (h : DeltaInv s₀ input r) : DeltaInv s₀ input (runSliced deltaEncCoder fin sl r) := by
  induction sl generalizing r with
  | nil => simpa [runSliced] using h
  | cons p sl ih =>
    obtain ⟨inLen, cap⟩ := p
    simp only [runSliced]
    split
    · exact h
    · exact ih (h.piece fin inLen cap)

end XzVerif.Coder

namespace XzVerif.Coder
open XzVerif.Vli

/-- The multi-call loop started at `(acc, pos)` and the specification decoder `vliDecodeAux pos` agree: the loop ends with
    `LZMA_STREAM_END` exactly when the specification decodes a value, which is then added at bit position `7·pos`. -/
theorem vliDecLoop_spec (t : List UInt8) (acc pos used : Nat) :
    match vliDecodeAux pos t with
    | some (v, r) => vliDecLoop t acc pos used
          = (.streamEnd, acc + v * 2 ^ (7 * pos), pos + (t.length - r.length), used + (t.length - r.length))
        ∧ r = t.drop (t.length - r.length) ∧ r.length < t.length
    | none => (vliDecLoop t acc pos used).1 ≠ .streamEnd := by
  induction t generalizing acc pos used with
  | nil => simp [vliDecodeAux, vliDecLoop]
  | cons b t ih =>
    simp only [vliDecodeAux, vliDecLoop]
    by_cases hb : b.toNat < 128
    · simp only [hb, if_true]
      by_cases hz : b.toNat = 0 ∧ pos > 0
      · have hz' : b.toNat = 0 ∧ pos + 1 > 1 := ⟨hz.1, by omega⟩
        simp [hz, hz']
      · have hz' : ¬(b.toNat = 0 ∧ pos + 1 > 1) := by
          intro h; exact hz ⟨h.1, by omega⟩
        simp only [hz, hz', if_false]
        have hm : b.toNat % 128 = b.toNat := Nat.mod_eq_of_lt hb
        refine ⟨?_, by simp, by simp⟩
        simp [hm, Nat.shiftLeft_eq, Nat.mul_comm pos 7]
    · simp only [hb, if_false]
      by_cases h9 : pos + 1 = VLI_BYTES_MAX
      · simp [h9]
      · simp only [h9, if_false]
        have := ih (acc + (b.toNat % 128) <<< (pos * 7)) (pos + 1) (used + 1)
        cases hrec : vliDecodeAux (pos + 1) t with
        | none => simpa [hrec] using this
        | some p =>
          obtain ⟨v, r⟩ := p
          simp only [hrec] at this ⊢
          obtain ⟨h1, h2, h3⟩ := this
          have hl : (b :: t).length - r.length = (t.length - r.length) + 1 := by simp; omega
          refine ⟨?_, ?_, by simp; omega⟩
          · rw [h1, hl]
            have e : 2 ^ (7 * (pos + 1)) = 128 * 2 ^ (7 * pos) := by
              rw [Nat.mul_add, Nat.pow_add]; simp [Nat.mul_comm]
            simp only [Nat.shiftLeft_eq, Nat.mul_comm pos 7, e, Prod.mk.injEq, true_and]
            refine ⟨?_, by omega, by omega⟩
            rw [Nat.add_mul, Nat.add_assoc]
            congr 1
            congr 1
            rw [Nat.mul_comm 128 v, Nat.mul_assoc]
          · rw [hl, List.drop_succ_cons]; exact h2

end XzVerif.Coder

namespace XzVerif.Coder
open XzVerif.Vli

/-- The encoder loop over an output window of `a₁ + a₂` bytes = the loop over `a₁` bytes and, if that ended with `LZMA_OK`
    (window full, more bytes to come), the loop over `a₂` bytes on what is left of the value. -/
theorem vliEncLoop_append (a₁ a₂ w pos : Nat) (h₁ : 0 < a₁) (h₂ : 0 < a₂) :
    vliEncLoop (a₁ + a₂) w pos =
      if (vliEncLoop a₁ w pos).1 = .ok then
        ((vliEncLoop a₂ (w / 128 ^ a₁) (pos + a₁)).1, (vliEncLoop a₂ (w / 128 ^ a₁) (pos + a₁)).2.1,
          (vliEncLoop a₁ w pos).2.2 ++ (vliEncLoop a₂ (w / 128 ^ a₁) (pos + a₁)).2.2)
      else vliEncLoop a₁ w pos := by
  induction a₁ generalizing w pos with
  | zero => omega
  | succ n ih =>
    have e : n + 1 + a₂ = (n + a₂) + 1 := by omega
    rw [e]
    simp only [vliEncLoop]
    by_cases hw : w ≥ 128
    · simp only [hw, if_true]
      have hna : n + a₂ ≠ 0 := by omega
      simp only [hna, if_false]
      by_cases hn : n = 0
      · subst hn
        simp only [Nat.zero_add, if_true, Nat.pow_one]
        cases a₂ with
        | zero => omega
        | succ m => simp [Nat.add_comm]
      · simp only [hn, if_false]
        rw [ih (w / 128) (pos + 1) (by omega)]
        have hp : w / 128 / 128 ^ n = w / 128 ^ (n + 1) := by
          rw [Nat.div_div_eq_div_mul, Nat.pow_succ, Nat.mul_comm]
        have hq : pos + 1 + n = pos + (n + 1) := by omega
        by_cases hok : (vliEncLoop n (w / 128) (pos + 1)).1 = .ok
        · simp [hok, hp, hq]
        · simp [hok]
    · simp [hw]

/-- When the loop stops with `LZMA_OK` it has filled the window and advanced `vli_pos` by its size; the value was big enough to
    need all those continuation bytes. -/
theorem vliEncLoop_ok (a w pos : Nat) (h : (vliEncLoop a w pos).1 = .ok) (ha : 0 < a) :
    (vliEncLoop a w pos).2.1 = pos + a ∧ (vliEncLoop a w pos).2.2.length = a ∧ 128 ^ a ≤ w := by
  induction a generalizing w pos with
  | zero => omega
  | succ n ih =>
    simp only [vliEncLoop] at h ⊢
    by_cases hw : w ≥ 128
    · simp only [hw, if_true] at h ⊢
      by_cases hn : n = 0
      · subst hn; simp [hw]
      · simp only [hn, if_false] at h ⊢
        obtain ⟨i1, i2, i3⟩ := ih (w / 128) (pos + 1) h (by omega)
        refine ⟨by rw [i1]; omega, by simp [i2], ?_⟩
        rw [Nat.pow_succ]
        have := Nat.mul_le_of_le_div 128 _ _ i3
        omega
    · simp [hw] at h

end XzVerif.Coder
