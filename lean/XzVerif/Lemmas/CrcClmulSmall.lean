/-
  Structural proof for the CLMUL CRC model, part 1: the hypotheses about a parameter set (`World`, discharged per
  width by the kernel-evaluated identities), arithmetic of little-endian loads, the size classes `< 8` and `8…15`, and
  the abstract four-lane algebra.  `refRaw P'` is the reference CRC in the 128-bit scaled register.
-/
import XzVerif.Lemmas.CrcClmulShuf
import XzVerif.Lemmas.Crc
namespace XzVerif.Clmul
open XzVerif.Crc

theorem leNat_eq (bs : List UInt8) : leNat bs = leN bs := by
  induction bs with
  | nil => rfl
  | cons b r ih => simp [leNat, leN, ih]

/-- `k` shift steps undo a left shift by `k` that lost no bits. -/
theorem stepN_shl {w : Nat} (P : BitVec w) (k n : Nat) (X : BitVec w) (hX : X.toNat < 2 ^ (w - k)) (hk : k ≤ w) :
    stepN P (k + n) (X <<< k) = stepN P n X := by
  rw [stepN_add, stepN_low_zero P k]
  · congr 1
    apply BitVec.eq_of_toNat_eq
    rw [BitVec.toNat_ushiftRight, BitVec.toNat_shiftLeft, Nat.shiftLeft_eq, Nat.shiftRight_eq_div_pow]
    have h2 : X.toNat * 2 ^ k < 2 ^ w := by
      have : 2 ^ w = 2 ^ (w - k) * 2 ^ k := by rw [← Nat.pow_add]; congr 1; omega
      rw [this]
      exact Nat.mul_lt_mul_of_pos_right hX (Nat.two_pow_pos _)
    rw [Nat.mod_eq_of_lt h2, Nat.mul_div_cancel _ (Nat.two_pow_pos _)]
  · intro i hi
    simp [hi]

theorem stepN_congr {w : Nat} (P : BitVec w) (x : BitVec w) {a b : Nat} (h : a = b) : stepN P a x = stepN P b x := by
  subst h; rfl

/-- The hypotheses about a parameter set that the structural proof needs (proved per width by kernel evaluation). -/
structure World (p : Params) (P' : V) (low : V → BitVec 64) : Prop where
  vm : p.vmasks = vmasksSpec
  f128 : ∀ v, stepN P' 128 (fold v p.fold128) = stepN P' 256 v
  f512 : ∀ v, stepN P' 128 (fold v p.fold512) = stepN P' 640 v
  bar : ∀ v, barrett p v = low (stepN P' 64 v)
  fin : ∀ v, barrett p (reduce128 p v) = low (stepN P' 128 v)

theorem zext_xor_ofNat (c : BitVec 64) (n : Nat) (hn : n < 2 ^ 64) :
    (c ^^^ BitVec.ofNat 64 n).setWidth 128 = c.setWidth 128 ^^^ BitVec.ofNat 128 n := by
  rw [BitVec.setWidth_xor]
  congr 1
  apply BitVec.eq_of_toNat_eq
  simp only [BitVec.toNat_setWidth, BitVec.toNat_ofNat]
  have : n % 2 ^ 64 = n := Nat.mod_eq_of_lt hn
  omega

theorem leN_lt' (bs : List UInt8) (k : Nat) (h : 8 * bs.length ≤ k) : leN bs < 2 ^ k :=
  Nat.lt_of_lt_of_le (leN_lt bs) (Nat.pow_le_pow_right (by decide) h)

theorem toNat_xor_lt {w : Nat} (a b : BitVec w) (k : Nat) (ha : a.toNat < 2 ^ k) (hb : b.toNat < 2 ^ k) :
    (a ^^^ b).toNat < 2 ^ k := by
  rw [BitVec.toNat_xor]; exact Nat.xor_lt_two_pow ha hb

/-- size class `< 8` -/
theorem acc_small {p : Params} {P' : V} {low : V → BitVec 64} (W : World p P' low) (bs : List UInt8) (c : BitVec 64)
    (h0 : 0 < bs.length) (h8 : bs.length < 8) :
    barrett p (accumulate p bs c) = low (refRaw P' bs (c.setWidth 128)) := by
  have hl : leN bs < 2 ^ 64 := leN_lt' bs 64 (by omega)
  unfold accumulate
  simp only [h8, if_true]
  rw [shiftLeft_eq p W.vm _ _ (by omega), W.bar, leNat_eq, zext_xor_ofNat c _ hl]
  have e : (64 : Nat) = 8 * (8 - bs.length) + 8 * bs.length := by omega
  have hX : (c.setWidth 128 ^^^ BitVec.ofNat 128 (leN bs)).toNat < 2 ^ (128 - 8 * (8 - bs.length)) := by
    apply Nat.lt_of_lt_of_le (toNat_xor_lt _ _ 64 ?_ ?_) (Nat.pow_le_pow_right (by decide) (by omega))
    · rw [BitVec.toNat_setWidth]; exact Nat.lt_of_le_of_lt (Nat.mod_le _ _) c.isLt
    · rw [BitVec.toNat_ofNat]; exact Nat.lt_of_le_of_lt (Nat.mod_le _ _) hl
  rw [stepN_congr P' _ e, stepN_shl P' _ _ _ hX (by omega), ← refRaw_le P' bs _ (by omega)]


theorem leN_append (a b : List UInt8) : leN (a ++ b) = leN a + 2 ^ (8 * a.length) * leN b := by
  induction a with
  | nil => simp [leN]
  | cons x t ih =>
    simp only [List.cons_append, leN, ih, List.length_cons]
    have : 2 ^ (8 * (t.length + 1)) = 256 * 2 ^ (8 * t.length) := by
      rw [Nat.mul_add, Nat.pow_add]; simp [Nat.mul_comm]
    rw [this, Nat.mul_add, Nat.mul_assoc, Nat.add_assoc]

theorem ofNat_split {w : Nat} (k a m : Nat) (ha : a < 2 ^ k) :
    BitVec.ofNat w (a + 2 ^ k * m) = BitVec.ofNat w a ^^^ (BitVec.ofNat w m <<< k) := by
  apply BitVec.eq_of_getLsbD_eq
  intro i hi
  rw [Nat.add_comm]
  simp only [BitVec.getLsbD_xor, BitVec.getLsbD_ofNat, BitVec.getLsbD_shiftLeft, Nat.testBit_two_pow_mul_add m ha]
  by_cases h : i < k
  · simp [h, hi]
  · have : a.testBit i = false := Nat.testBit_lt_two_pow (Nat.lt_of_lt_of_le ha (Nat.pow_le_pow_right (by decide) (by omega)))
    have h2 : i - k < w := by omega
    simp [h, hi, this, h2]

theorem or_shl_eq_xor {w : Nat} (a h : BitVec w) (k : Nat) (ha : a.toNat < 2 ^ k) : a ||| (h <<< k) = a ^^^ (h <<< k) := by
  apply BitVec.eq_of_getLsbD_eq
  intro i hi
  simp only [BitVec.getLsbD_or, BitVec.getLsbD_xor, BitVec.getLsbD_shiftLeft]
  by_cases hik : i < k
  · simp [hik]
  · have : a.getLsbD i = false := by
      rw [BitVec.getLsbD, Nat.testBit_lt_two_pow (Nat.lt_of_lt_of_le ha (Nat.pow_le_pow_right (by decide) (by omega)))]
    simp [this]

theorem and_mask64 (x : V) (hx : x.toNat < 2 ^ 64) : x &&& BitVec.ofNat 128 (2 ^ 64 - 1) = x := by
  apply BitVec.eq_of_toNat_eq
  rw [BitVec.toNat_and, BitVec.toNat_ofNat, Nat.mod_eq_of_lt (by decide : 2 ^ 64 - 1 < 2 ^ 128),
    Nat.and_two_pow_sub_one_eq_mod, Nat.mod_eq_of_lt hx]

theorem ofNat64_shr (n k : Nat) (hn : n < 2 ^ 64) : BitVec.ofNat 64 n >>> k = BitVec.ofNat 64 (n / 2 ^ k) := by
  apply BitVec.eq_of_toNat_eq
  rw [BitVec.toNat_ushiftRight, BitVec.toNat_ofNat, BitVec.toNat_ofNat, Nat.mod_eq_of_lt hn, Nat.shiftRight_eq_div_pow,
    Nat.mod_eq_of_lt (Nat.lt_of_le_of_lt (Nat.div_le_self _ _) hn)]

theorem zext_ofNat64 (n : Nat) (hn : n < 2 ^ 64) : (BitVec.ofNat 64 n).setWidth 128 = BitVec.ofNat 128 n := by
  apply BitVec.eq_of_toNat_eq
  simp only [BitVec.toNat_setWidth, BitVec.toNat_ofNat]
  have : n % 2 ^ 64 = n := Nat.mod_eq_of_lt hn
  omega

/-- The accumulator of the middle size class before the shift: register xor all `size` bytes. -/
theorem mid_insert (bs : List UInt8) (c : BitVec 64) (h8 : 8 < bs.length) (h16 : bs.length < 16) :
    ((c ^^^ BitVec.ofNat 64 (leNat (bs.take 8))).setWidth 128 &&& BitVec.ofNat 128 (2 ^ 64 - 1))
      ||| ((BitVec.ofNat 64 (leNat ((bs.drop (bs.length - 8)).take 8)) >>> ((8 - (bs.length - 8)) * 8)).setWidth 128 <<< 64)
      = c.setWidth 128 ^^^ BitVec.ofNat 128 (leN bs) := by
  have ht : (bs.take 8).length = 8 := by rw [List.length_take]; omega
  have hlt : leN (bs.take 8) < 2 ^ 64 := leN_lt' _ 64 (by omega)
  have hld : leN (bs.drop 8) < 2 ^ 64 := leN_lt' _ 64 (by rw [List.length_drop]; omega)
  -- the high part
  have hsplit : (bs.drop (bs.length - 8)).take 8 = (bs.drop (bs.length - 8)).take (8 - (bs.length - 8)) ++ bs.drop 8 := by
    have e1 : (bs.drop (bs.length - 8)).take 8 = bs.drop (bs.length - 8) :=
      List.take_of_length_le (by rw [List.length_drop]; omega)
    have e2 := List.take_append_drop (8 - (bs.length - 8)) (bs.drop (bs.length - 8))
    rw [List.drop_drop] at e2
    have e3 : bs.length - 8 + (8 - (bs.length - 8)) = 8 := by omega
    rw [e3] at e2
    rw [e1, e2]
  have hpl : ((bs.drop (bs.length - 8)).take (8 - (bs.length - 8))).length = 8 - (bs.length - 8) := by
    rw [List.length_take, List.length_drop]; omega
  have hhigh : BitVec.ofNat 64 (leNat ((bs.drop (bs.length - 8)).take 8)) >>> ((8 - (bs.length - 8)) * 8)
      = BitVec.ofNat 64 (leN (bs.drop 8)) := by
    have hl8 : leN ((bs.drop (bs.length - 8)).take 8) < 2 ^ 64 :=
      leN_lt' _ 64 (by rw [List.length_take, List.length_drop]; omega)
    rw [leNat_eq, ofNat64_shr _ _ hl8]
    congr 1
    rw [hsplit, leN_append, hpl, Nat.mul_comm 8 (8 - (bs.length - 8))]
    have hsm := leN_lt ((bs.drop (bs.length - 8)).take (8 - (bs.length - 8)))
    rw [hpl, Nat.mul_comm 8 (8 - (bs.length - 8))] at hsm
    rw [Nat.add_mul_div_left _ _ (Nat.two_pow_pos _), Nat.div_eq_of_lt hsm, Nat.zero_add]
  have hlo : ((c ^^^ BitVec.ofNat 64 (leNat (bs.take 8))).setWidth 128).toNat < 2 ^ 64 := by
    rw [BitVec.toNat_setWidth]; exact Nat.lt_of_le_of_lt (Nat.mod_le _ _) (BitVec.isLt _)
  have hbs : leN bs = leN (bs.take 8) + 2 ^ 64 * leN (bs.drop 8) := by
    conv => lhs; rw [← List.take_append_drop 8 bs]
    rw [leN_append, ht]
  rw [hhigh, and_mask64 _ hlo, or_shl_eq_xor _ _ 64 hlo, leNat_eq, zext_xor_ofNat c _ hlt, zext_ofNat64 _ hld, hbs,
    ofNat_split 64 _ _ hlt, BitVec.xor_assoc]

/-- size class `8 … 15` -/
theorem acc_mid {p : Params} {P' : V} {low : V → BitVec 64} (W : World p P' low) (bs : List UInt8) (c : BitVec 64)
    (h8 : 8 ≤ bs.length) (h16 : bs.length < 16) :
    barrett p (accumulate p bs c) = low (refRaw P' bs (c.setWidth 128)) := by
  have hn8 : ¬ bs.length < 8 := by omega
  unfold accumulate
  simp only [hn8, if_false, h16, if_true]
  by_cases he : bs.length = 8
  · have h0 : ¬ (bs.length - 8 > 0) := by omega
    simp only [h0, if_false]
    have ht : bs.take 8 = bs := List.take_of_length_le (by omega)
    have hl : leN bs < 2 ^ 64 := leN_lt' bs 64 (by omega)
    rw [W.bar, ht, leNat_eq, zext_xor_ofNat c _ hl, refRaw_le P' bs _ (by omega), he]
  · have h0 : bs.length - 8 > 0 := by omega
    simp only [h0, if_true]
    rw [mid_insert bs c (by omega) h16, shiftLeft_eq p W.vm _ _ (by omega), W.fin]
    have e : (128 : Nat) = 8 * (8 - (bs.length - 8)) + 8 * bs.length := by omega
    have hX : (c.setWidth 128 ^^^ BitVec.ofNat 128 (leN bs)).toNat < 2 ^ (128 - 8 * (8 - (bs.length - 8))) := by
      apply Nat.lt_of_lt_of_le (toNat_xor_lt _ _ (8 * bs.length) ?_ ?_) (Nat.pow_le_pow_right (by decide) (by omega))
      · rw [BitVec.toNat_setWidth]
        exact Nat.lt_of_lt_of_le (Nat.lt_of_le_of_lt (Nat.mod_le _ _) c.isLt) (Nat.pow_le_pow_right (by decide) (by omega))
      · rw [BitVec.toNat_ofNat]; exact Nat.lt_of_le_of_lt (Nat.mod_le _ _) (leN_lt bs)
    rw [stepN_congr P' _ e, stepN_shl P' _ _ _ hX (by omega), ← refRaw_le P' bs _ (by omega)]


/-! ### abstract lane algebra -/

theorem lane4 (L F : V → V) (hL : Lin L) (hF : ∀ v, L (F v) = L (L (L (L (L v))))) (v0 v1 v2 v3 d0 d1 d2 d3 : V) :
    L (L (L (L (d0 ^^^ F v0) ^^^ (d1 ^^^ F v1)) ^^^ (d2 ^^^ F v2)) ^^^ (d3 ^^^ F v3))
      = L (L (L (L (L (L (L (L v0 ^^^ v1) ^^^ v2) ^^^ v3) ^^^ d0) ^^^ d1) ^^^ d2) ^^^ d3) := by
  simp only [hL _ _, hF]
  ac_rfl

theorem combine4 (L F : V → V) (hL : Lin L) (hF : ∀ v, L (F v) = L (L v)) (v0 v1 v2 v3 : V) :
    L (v3 ^^^ F (v2 ^^^ F (v1 ^^^ F v0))) = L (L (L (L v0 ^^^ v1) ^^^ v2) ^^^ v3) := by
  simp only [hL _ _, hF]
  ac_rfl

end XzVerif.Clmul
