/-
  Causality of the LZMA decoder model, part 2: one call of `lzma_decode` (`Lzma.lzmaCall`).

  For two states that differ only in their input buffers, the buffers agreeing on the first `n` bytes:
  either the two calls return the same code and related states (`Same2`), or BOTH have diverged (`Div2`): the cursor is
  beyond `n`, or the call did not return LZMA_STREAM_END and, if it returned LZMA_OK, the decoder is starved (`Stv1 n`: cursor
  at or beyond `n`, `Pending.stuck`), so that no later call can return LZMA_STREAM_END either.
-/
import XzVerif.Lemmas.LzmaCausalRc

namespace XzVerif.Lzma
open XzVerif.RangeDec XzVerif.LzDict

/-- starved LZMA1 decoder: at or beyond the common prefix, stuck inside a symbol / the init bytes for lack of input -/
def Stv1 (n : Nat) (s : St) : Prop := n ≤ s.inPos ∧ s.pending = .stuck

def Same2 (n : Nat) (r r' : Ret × St) : Prop := r.1 = r'.1 ∧ Rel n r.2 r'.2

def Div2 (n : Nat) (K : St → Prop) (r : Ret × St) : Prop :=
  n < r.2.inPos ∨ (r.1 ≠ .streamEnd ∧ (r.1 = .ok → K r.2))

/-! ### `rc_read_init` -/

theorem rcReadInitN_succ (k : Nat) (v : St) (b : ByteArray) :
    rcReadInitN (k + 1) (St.withInp v b) =
      if h : v.inPos < b.size then
        if (k + 1 == 5 && b[v.inPos] != 0) = true then .error .dataError (St.withInp v b)
        else rcReadInitN k (St.withInp { v with code := ((Rc.mk v.range v.code).initByte (b[v.inPos]).toNat).code,
                                                 inPos := v.inPos + 1, initLeft := k } b)
      else .ok false (St.withInp v b) := rfl

theorem rcReadInitN_mono : ∀ k s, s.inPos ≤ (resSt (rcReadInitN k s)).inPos
  | 0, s => Nat.le_refl _
  | k + 1, s => by
    have e : s = St.withInp s s.inp := rfl
    rw [e, rcReadInitN_succ]
    split
    · split
      · exact Nat.le_refl _
      · refine Nat.le_trans ?_ (rcReadInitN_mono k _)
        show s.inPos ≤ s.inPos + 1
        omega
    · exact Nat.le_refl _

/-- diverged `rc_read_init`: cursor beyond the common prefix, starved at the end of the buffer, or LZMA_DATA_ERROR for a byte
    that is looked at but not consumed -/
def IDiv (n : Nat) (r : EStateM.Result Exit St Bool) : Prop :=
  n < (resSt r).inPos ∨ (∃ t, r = .ok false t ∧ n ≤ t.inPos) ∨ (∃ t, r = .error .dataError t)

theorem rcReadInitN_div (n k : Nat) (v : St) (b : ByteArray) (hge : n ≤ v.inPos) :
    IDiv n (rcReadInitN (k + 1) (St.withInp v b)) := by
  rw [rcReadInitN_succ]
  by_cases hb : v.inPos < b.size
  · rw [dif_pos hb]
    split
    · right; right; exact ⟨_, rfl⟩
    · left
      refine Nat.lt_of_lt_of_le ?_ (rcReadInitN_mono k _)
      show n < v.inPos + 1
      omega
  · rw [dif_neg hb]
    right; left
    exact ⟨_, rfl, hge⟩

theorem rcReadInitN_rel : ∀ (k n : Nat) (s s' : St), Rel n s s' →
    MSame n (rcReadInitN k s) (rcReadInitN k s') ∨ (IDiv n (rcReadInitN k s) ∧ IDiv n (rcReadInitN k s'))
  | 0, n, s, s', h => Or.inl (show MSame n (EStateM.Result.ok true s) (EStateM.Result.ok true s') from ⟨rfl, h⟩)
  | k + 1, n, s, s', h => by
    obtain ⟨v, b, b', rfl, rfl, hag⟩ := h
    by_cases hn : v.inPos < n
    · have hb : v.inPos < b.size := Nat.lt_of_lt_of_le hn hag.le
      have hb' : v.inPos < b'.size := Nat.lt_of_lt_of_le hn hag.le'
      have hbyte := hag.eq v.inPos hb hb' hn
      rw [rcReadInitN_succ, rcReadInitN_succ, dif_pos hb, dif_pos hb', hbyte]
      split
      · exact Or.inl ⟨rfl, v, b, b', rfl, rfl, hag⟩
      · exact rcReadInitN_rel k n _ _ ⟨_, b, b', rfl, rfl, hag⟩
    · exact Or.inr ⟨rcReadInitN_div n k v b (by omega), rcReadInitN_div n k v b' (by omega)⟩

/-! ### the main part of a call -/

/-- the monadic body of `lzmaRun` -/
def runBody (s : St) : M Unit := do
  doWrite s.pending
  symLoop (clampedLimit s - s.dp.pos + 2) (s.uncomp.isNone || s.eopmValid) (mightFinish s)

/-- the state `lzmaRun` starts its body in -/
def runStart (s : St) : St := { s with dp := { s.dp with limit := clampedLimit s }, pending := .none }

theorem lzmaRun_eq (s : St) : lzmaRun s = runBody s (runStart s) := rfl

theorem runBody_withInp (s : St) (b : ByteArray) : runBody (St.withInp s b) = runBody s := rfl
theorem runStart_withInp (s : St) (b : ByteArray) : runStart (St.withInp s b) = St.withInp (runStart s) b := rfl

theorem loc_runBody (s : St) : Loc (runBody s) := by
  unfold runBody
  exact Loc.bind (loc_doWrite _) (fun _ => loc_symLoop _ _ _)

theorem lzmaRun_mono (s : St) : s.inPos ≤ (resSt (lzmaRun s)).inPos := by
  rw [lzmaRun_eq]
  exact (loc_runBody s).mono (runStart s)

theorem lzmaRun_rel (n : Nat) (s s' : St) (h : Rel n s s') : MOut n (lzmaRun s) (lzmaRun s') := by
  obtain ⟨v, b, b', rfl, rfl, hag⟩ := h
  rw [lzmaRun_eq, lzmaRun_eq, runBody_withInp, runBody_withInp, runStart_withInp, runStart_withInp]
  exact (loc_runBody v).rel n _ _ ⟨_, b, b', rfl, rfl, hag⟩

/-! ### after the label `out` -/

theorem lzmaFinish_withInp (r : EStateM.Result Exit St Unit) (c : ByteArray) (cl st : Nat) (u : Option Nat) :
    lzmaFinish (mapInp c r) cl st u = ((lzmaFinish r cl st u).1, St.withInp (lzmaFinish r cl st u).2 c) := by
  cases r with
  | ok a t => rfl
  | error e t => cases e <;> rfl

theorem lzmaFinish_inPos (r : EStateM.Result Exit St Unit) (cl st : Nat) (u : Option Nat) :
    (lzmaFinish r cl st u).2.inPos = (resSt r).inPos := rfl

theorem lzmaFinish_same (n : Nat) (r r' : EStateM.Result Exit St Unit) (cl st : Nat) (u : Option Nat) (h : MSame n r r') :
    Same2 n (lzmaFinish r cl st u) (lzmaFinish r' cl st u) := by
  cases r with
  | ok a t =>
    cases r' with
    | ok a' t' =>
      obtain ⟨_, w, c, c', rfl, rfl, hag⟩ := h
      have e1 := lzmaFinish_withInp (.ok a w) c cl st u
      have e2 := lzmaFinish_withInp (.ok a' w) c' cl st u
      simp only [mapInp] at e1 e2
      rw [e1, e2]
      exact ⟨rfl, _, c, c', rfl, rfl, hag⟩
    | error e' t' => exact absurd h id
  | error e t =>
    cases r' with
    | ok a' t' => exact absurd h id
    | error e' t' =>
      obtain ⟨rfl, w, c, c', rfl, rfl, hag⟩ := h
      have e1 := lzmaFinish_withInp (.error e w) c cl st u
      have e2 := lzmaFinish_withInp (.error e w) c' cl st u
      simp only [mapInp] at e1 e2
      rw [e1, e2]
      exact ⟨rfl, _, c, c', rfl, rfl, hag⟩

theorem lzmaFinish_needInput (t : St) (cl st : Nat) (u : Option Nat) :
    (lzmaFinish (.error .needInput t) cl st u).1 = .ok ∧ (lzmaFinish (.error .needInput t) cl st u).2.pending = .stuck
    ∧ (lzmaFinish (.error .needInput t) cl st u).2.inPos = t.inPos := by
  unfold lzmaFinish
  simp [exitRet, exitPending, resSt]

theorem lzmaFinish_div (n : Nat) (r : EStateM.Result Exit St Unit) (cl st : Nat) (u : Option Nat) (h : MDiv n r) :
    Div2 n (Stv1 n) (lzmaFinish r cl st u) := by
  rcases h with h | ⟨t, rfl, hsz⟩
  · left; rw [lzmaFinish_inPos]; exact h
  · right
    have hf := lzmaFinish_needInput t cl st u
    refine ⟨by rw [hf.1]; simp, fun _ => ⟨?_, hf.2.1⟩⟩
    rw [hf.2.2]
    exact hsz

/-- the part of `lzmaCall` after a complete `rc_read_init` -/
def callTail (s : St) : Ret × St := lzmaFinish (lzmaRun s) s.dp.limit s.hist.size s.uncomp

theorem callTail_rel (n : Nat) (s s' : St) (h : Rel n s s') :
    Same2 n (callTail s) (callTail s') ∨ (Div2 n (Stv1 n) (callTail s) ∧ Div2 n (Stv1 n) (callTail s')) := by
  have hr := lzmaRun_rel n s s' h
  obtain ⟨v, b, b', rfl, rfl, hag⟩ := h
  unfold callTail
  show Same2 n (lzmaFinish (lzmaRun (St.withInp v b)) v.dp.limit v.hist.size v.uncomp)
      (lzmaFinish (lzmaRun (St.withInp v b')) v.dp.limit v.hist.size v.uncomp) ∨ _
  rcases hr with hs | ⟨h1, h2⟩
  · exact Or.inl (lzmaFinish_same n _ _ _ _ _ hs)
  · exact Or.inr ⟨lzmaFinish_div n _ _ _ _ h1, lzmaFinish_div n _ _ _ _ h2⟩

theorem callTail_mono (s : St) : s.inPos ≤ (callTail s).2.inPos := by
  unfold callTail
  rw [lzmaFinish_inPos]
  exact lzmaRun_mono s

/-! ### `lzmaCall` -/

theorem lzmaCall_stuck (s : St) (h : s.pending = .stuck) : lzmaCall s = (.ok, s) := by
  unfold lzmaCall
  rw [if_pos (by rw [h]; rfl)]

theorem lzmaCall_not_stuck (s : St) (h : s.pending ≠ .stuck) :
    lzmaCall s = match rcReadInitN s.initLeft s with
      | .error _ s => (.dataError, s)
      | .ok false s => (.ok, { s with pending := .stuck })
      | .ok true s => callTail s := by
  unfold lzmaCall
  rw [if_neg (by simpa using h)]
  rfl

theorem lzmaCall_mono (s : St) : s.inPos ≤ (lzmaCall s).2.inPos := by
  by_cases h : s.pending = .stuck
  · rw [lzmaCall_stuck s h]; exact Nat.le_refl _
  · rw [lzmaCall_not_stuck s h]
    have hm := rcReadInitN_mono s.initLeft s
    cases hr : rcReadInitN s.initLeft s with
    | error e t => rw [hr] at hm; exact hm
    | ok a t =>
      rw [hr] at hm
      cases a with
      | false => exact hm
      | true => exact Nat.le_trans hm (callTail_mono t)

theorem lzmaCall_starved (n : Nat) (s : St) (h : Stv1 n s) : lzmaCall s = (.ok, s) := lzmaCall_stuck s h.2

theorem lzmaCall_div (n : Nat) (s : St) (h : s.pending ≠ .stuck) (hd : IDiv n (rcReadInitN s.initLeft s)) :
    Div2 n (Stv1 n) (lzmaCall s) := by
  rw [lzmaCall_not_stuck s h]
  cases hr : rcReadInitN s.initLeft s with
  | error e t =>
    rw [hr] at hd
    rcases hd with hd | ⟨t', hd, _⟩ | ⟨t', hd⟩
    · left; exact hd
    · cases hd
    · right; exact ⟨by simp, fun hc => by cases hc⟩
  | ok a t =>
    rw [hr] at hd
    rcases hd with hd | ⟨t', hd, hsz⟩ | ⟨t', hd⟩
    · left
      cases a with
      | false => exact hd
      | true => exact Nat.lt_of_lt_of_le hd (callTail_mono t)
    · cases hd
      right
      exact ⟨by simp, fun _ => ⟨hsz, rfl⟩⟩
    · cases hd

/-- ONE CALL OF `lzma_decode` IS LOCAL IN THE INPUT. -/
theorem lzmaCall_rel (n : Nat) (s s' : St) (h : Rel n s s') :
    Same2 n (lzmaCall s) (lzmaCall s') ∨ (Div2 n (Stv1 n) (lzmaCall s) ∧ Div2 n (Stv1 n) (lzmaCall s')) := by
  have hri := rcReadInitN_rel s.initLeft n s s' h
  obtain ⟨v, b, b', rfl, rfl, hag⟩ := h
  by_cases hst : v.pending = .stuck
  · rw [lzmaCall_stuck _ (show (St.withInp v b).pending = .stuck from hst),
        lzmaCall_stuck _ (show (St.withInp v b').pending = .stuck from hst)]
    exact Or.inl ⟨rfl, v, b, b', rfl, rfl, hag⟩
  · have hst1 : (St.withInp v b).pending ≠ .stuck := hst
    have hst2 : (St.withInp v b').pending ≠ .stuck := hst
    have hil : (St.withInp v b').initLeft = (St.withInp v b).initLeft := rfl
    rcases hri with hs | ⟨h1, h2⟩
    · rw [lzmaCall_not_stuck _ hst1, lzmaCall_not_stuck _ hst2, hil]
      cases hr : rcReadInitN (St.withInp v b).initLeft (St.withInp v b) with
      | error e t =>
        cases hr' : rcReadInitN (St.withInp v b).initLeft (St.withInp v b') with
        | error e' t' =>
          rw [hr, hr'] at hs
          exact Or.inl ⟨rfl, hs.2⟩
        | ok a' t' => rw [hr, hr'] at hs; exact absurd hs id
      | ok a t =>
        cases hr' : rcReadInitN (St.withInp v b).initLeft (St.withInp v b') with
        | error e' t' => rw [hr, hr'] at hs; exact absurd hs id
        | ok a' t' =>
          rw [hr, hr'] at hs
          obtain ⟨rfl, hrel⟩ := hs
          cases a with
          | false =>
            obtain ⟨w, c, c', rfl, rfl, hag'⟩ := hrel
            exact Or.inl ⟨rfl, { w with pending := .stuck }, c, c', rfl, rfl, hag'⟩
          | true => exact callTail_rel n t t' hrel
    · exact Or.inr ⟨lzmaCall_div n _ hst1 h1, lzmaCall_div n _ hst2 (hil ▸ h2)⟩

end XzVerif.Lzma
