/-
  Adaptive probabilities on top of the resolved-operation round trip (`Lemmas/RangeCoderDec.lean`):
  encoder and decoder look up and update the same probability variable at the same time, so the list of resolved
  operations is the same on both sides.
-/
import XzVerif.Lemmas.RangeCoderDec

namespace XzVerif.RangeCoder
open XzVerif.RangeDec XzVerif.RangeEnc

/-- the context of a probability bit exists among `n` probability variables -/
def Op.ctxOk (n : Nat) : Op → Bool
  | .bit ctx _ => decide (ctx < n)
  | .direct _ => true

/-- every probability variable is in range and every context used by `ops` exists -/
def ProbsOk (ps : Probs) (ops : List Op) : Prop :=
  (∀ i, i < ps.size → ProbInv (ps.getD i 0)) ∧ ∀ op ∈ ops, Op.ctxOk ps.size op = true

theorem ProbsOk.ctx_lt {ps : Probs} {ctx : Nat} {b : Bool} {ops : List Op} (h : ProbsOk ps (.bit ctx b :: ops)) :
    ctx < ps.size := by
  have := h.2 (.bit ctx b) (List.mem_cons_self ..)
  simpa [Op.ctxOk] using this

theorem probsOk_tail {ps : Probs} {op : Op} {ops : List Op} (h : ProbsOk ps (op :: ops)) : ProbsOk ps ops :=
  ⟨h.1, fun o ho => h.2 o (List.mem_cons_of_mem _ ho)⟩

theorem getD_set (ps : Array Nat) (i j v d : Nat) :
    (ps.setIfInBounds i v).getD j d = if i = j ∧ i < ps.size then v else ps.getD j d := by
  simp only [Array.getD_eq_getD_getElem?, Array.getElem?_setIfInBounds]
  by_cases h : i = j
  · subst h
    by_cases h2 : i < ps.size
    · simp [h2]
    · simp [h2]
  · simp [h]

theorem probsOk_set {ps : Probs} {ops : List Op} (h : ProbsOk ps ops) (ctx v : Nat) (hv : ProbInv v) :
    ProbsOk (ps.setIfInBounds ctx v) ops := by
  refine ⟨fun i hi => ?_, fun o ho => ?_⟩
  · rw [Array.size_setIfInBounds] at hi
    rw [getD_set]
    by_cases hc : ctx = i ∧ ctx < ps.size
    · rw [if_pos hc]; exact hv
    · rw [if_neg hc]; exact h.1 i hi
  · rw [Array.size_setIfInBounds]; exact h.2 o ho

theorem encOps_resolve : ∀ (ops : List Op) (ps : Probs) (e : Enc),
    encOps ps e ops = ((resolve ps ops).2, encROps e (resolve ps ops).1)
  | [], _, _ => rfl
  | .bit ctx b :: ops, ps, e => by
    have ih := encOps_resolve ops (ps.setIfInBounds ctx (probUpdate (ps.getD ctx 0) b)) (encBit e (ps.getD ctx 0) b)
    simp only [encOps, List.foldl_cons, encOp, resolve, encROps, encROp] at ih ⊢
    exact ih
  | .direct b :: ops, ps, e => by
    have ih := encOps_resolve ops ps (encDirect e b)
    simp only [encOps, List.foldl_cons, encOp, resolve, encROps, encROp] at ih ⊢
    exact ih

theorem resolve_ok : ∀ (ops : List Op) (ps : Probs), ProbsOk ps ops → OpsOk (resolve ps ops).1
  | [], _, _ => trivial
  | .bit ctx b :: ops, ps, h => by
    have hctx : ctx < ps.size := h.ctx_lt
    have hp : ProbInv (ps.getD ctx 0) := h.1 ctx hctx
    simp only [resolve, OpsOk]
    exact ⟨hp, resolve_ok ops _ (probsOk_set (probsOk_tail h) ctx _ (probInv_update hp b))⟩
  | .direct b :: ops, ps, h => by
    simp only [resolve, OpsOk]
    exact resolve_ok ops ps (probsOk_tail h)

theorem resolve_probsOk : ∀ (ops : List Op) (ps : Probs), ProbsOk ps ops → ∀ i, i < (resolve ps ops).2.size → ProbInv ((resolve ps ops).2.getD i 0)
  | [], _, h => h.1
  | .bit ctx b :: ops, ps, h => by
    have hctx : ctx < ps.size := h.ctx_lt
    have hp : ProbInv (ps.getD ctx 0) := h.1 ctx hctx
    simp only [resolve]
    exact resolve_probsOk ops _ (probsOk_set (probsOk_tail h) ctx _ (probInv_update hp b))
  | .direct b :: ops, ps, h => by
    simp only [resolve]
    exact resolve_probsOk ops ps (probsOk_tail h)

/-- The decoder, asked for the shapes of `ops`, returns their bits, ends with the encoder's probabilities and stays in step. -/
theorem decodeShapes_sync (ops : List Op) : ∀ (ps : Probs) (e : Enc), ProbsOk ps ops → Inv e →
    ∀ (tail : List UInt8) (rc : Rc) (rest : List UInt8), Sync e (resolve ps ops).1 tail rc rest →
    ∃ rc' rest', decodeShapes ps rc rest (ops.map Op.shape) = some (ops.map Op.value, (resolve ps ops).2, rc', rest') ∧
      Sync (encROps e (resolve ps ops).1) [] tail rc' rest' := by
  induction ops with
  | nil => intro ps e _ _ tail rc rest hs; exact ⟨rc, rest, rfl, hs⟩
  | cons op ops ih =>
    intro ps e hok hI tail rc rest hs
    cases op with
    | bit ctx b =>
      have hctx : ctx < ps.size := hok.ctx_lt
      have hp : ProbInv (ps.getD ctx 0) := hok.1 ctx hctx
      have hok' := probsOk_set (probsOk_tail hok) ctx _ (probInv_update hp b)
      simp only [resolve] at hs ⊢
      obtain ⟨rc1, rest1, hd, hs1⟩ := sync_bit hI hp b (resolve_ok ops _ hok') hs
      obtain ⟨rc', rest', hrec, hs'⟩ := ih _ (encBit e (ps.getD ctx 0) b) hok' (encBit_spec hI hp b).1 tail rc1 rest1 hs1
      refine ⟨rc', rest', ?_, hs'⟩
      simp only [List.map_cons, Op.shape, Op.value, decodeShapes, hd, hrec]
      cases b <;> rfl
    | direct b =>
      have hok' := probsOk_tail hok
      simp only [resolve] at hs ⊢
      obtain ⟨rc1, rest1, rc2, hn, hd, hs1⟩ := sync_direct hI b (resolve_ok ops _ hok') hs
      obtain ⟨rc', rest', hrec, hs'⟩ := ih ps (encDirect e b) hok' (encDirect_spec hI b).1 tail rc2 rest1 hs1
      refine ⟨rc', rest', ?_, hs'⟩
      simp only [List.map_cons, Op.shape, Op.value, decodeShapes, hn, hd, hrec]
      cases b <;> rfl

end XzVerif.RangeCoder
