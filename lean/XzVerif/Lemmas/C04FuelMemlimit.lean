/-
  C04 (termination / totality), part 4: fuel of the memory-limit decoder state machines of Model/Memlimit.lean
  (property C09): `retryLoop` (one unit per accepted `lzma_memlimit_set` token; callers supply `sets.length + 2`),
  `streamBody` / `streams` (single-threaded .xz decoder run; one unit per Block / per Stream; `inp.length + 2`) and the
  threaded twins `mtBlockInitLoop`, `mtStreamBody`, `mtStreams`.  Same form as Lemmas/C04FuelXz.lean.  The out-of-fuel
  code 11 (LZMA_PROG_ERROR) can also be produced by an `attempt` (a header decoder's PROG_ERROR), so only the
  fuel-independence form is stated.
  Core Lean only.
-/
import XzVerif.Model.Memlimit
import XzVerif.Lemmas.C04FuelIndex

namespace XzVerif.Container
open XzVerif.Vli

theorem indexDecodeRecords_rest_le : ∀ (fuel count : Nat) (a : IndexAcc) (b : List UInt8)
    (rs : List IndexRecord) (a' : IndexAcc) (r3 : List UInt8),
    indexDecodeRecords fuel count a b = .ok (rs, a', r3) → r3.length ≤ b.length
  | _, 0, a, b, rs, a', r3, h => by
    simp only [indexDecodeRecords, Except.ok.injEq, Prod.mk.injEq] at h
    rw [h.2.2]; exact Nat.le_refl _
  | 0, count + 1, a, b, rs, a', r3, h => by simp [indexDecodeRecords] at h
  | f + 1, count + 1, a, b, rs, a', r3, h => by
    simp only [indexDecodeRecords] at h
    split at h
    · cases h
    · rename_i u r1 h1
      split at h
      · cases h
      · split at h
        · cases h
        · rename_i c r2 h2
          split at h
          · cases h
          · split at h
            · cases h
            · rename_i rs' a'' r3' hrec
              cases h
              have := indexDecodeRecords_rest_le f count _ r2 _ _ _ hrec
              have l1 := vliDecode_rest_lt _ _ _ h1
              have l2 := vliDecode_rest_lt _ _ _ h2
              omega

/-- `indexDecode` returns a proper suffix -/
theorem indexDecode_rest_le (b : List UInt8) (rs : List IndexRecord) (rest : List UInt8)
    (h : indexDecode b = .ok (rs, rest)) : rest.length ≤ b.length := by
  unfold indexDecode at h
  split at h
  · cases h
  · rename_i ind r0
    split at h
    · cases h
    · split at h
      · cases h
      · rename_i count r1 h1
        split at h
        · cases h
        · rename_i rs' a r2 hr
          have l1 := vliDecode_rest_lt _ _ _ h1
          have l2 := indexDecodeRecords_rest_le _ _ _ _ _ _ _ hr
          simp only at h
          split at h
          · cases h
          · split at h
            · cases h
            · split at h
              · cases h
              · cases h
                simp only [List.length_drop, List.length_cons]
                omega

end XzVerif.Container

namespace XzVerif.Memlimit
open XzVerif

/-! ### the retry loops -/

/-- an accepted token is removed from the list together with the rejected ones before it -/
theorem trySets_some (mu : Nat) : ∀ (limit : Nat) (sets : List SetTok) (evs : List (Nat × Nat × Nat)) (l : Nat)
    (rest : List SetTok), trySets mu limit sets = (evs, some l, rest) → rest.length < sets.length
  | _, [], _, _, _, h => by simp [trySets] at h
  | limit, t :: ts, evs, l, rest, h => by
    simp only [trySets] at h
    split at h
    · cases h; simp
    · generalize hq : trySets mu limit ts = q at h
      obtain ⟨ev, res, rem⟩ := q
      simp only [Prod.mk.injEq] at h
      obtain ⟨_, h2, h3⟩ := h
      subst h2; subst h3
      have := trySets_some mu limit ts ev l rem hq
      simp only [List.length_cons]; omega

theorem handleMemlimit_true (r r2 : Run) (h : handleMemlimit r = (r2, true)) : r2.sets.length < r.sets.length := by
  unfold handleMemlimit at h
  simp only at h
  generalize hq : trySets r.core.memusage r.core.memlimit
    (r.emit (.mem r.core.memusage r.core.memlimit r.core.heap.live r.core.heap.peak)).sets = q at h
  obtain ⟨evs, res, rest⟩ := q
  cases res with
  | none => simp at h
  | some l =>
    simp only [Prod.mk.injEq, and_true] at h
    subst h
    exact trySets_some _ _ _ _ _ _ hq

theorem retryLoop_fuel (attempt : Core → InitResult × Core) : ∀ (fuel : Nat) (r : Run), r.sets.length < fuel →
    ∀ k, retryLoop attempt (fuel + k) r = retryLoop attempt fuel r := by
  intro fuel
  induction fuel with
  | zero => intro _ h; omega
  | succ f ih =>
    intro r h k
    rw [show f + 1 + k = (f + k) + 1 by omega]
    simp only [retryLoop]
    split
    · rfl
    · generalize hq : handleMemlimit { r with core := (attempt r.core).2 } = q
      obtain ⟨r2, ok⟩ := q
      cases ok with
      | false => rfl
      | true =>
        have := handleMemlimit_true _ _ hq
        simp only [↓reduceIte]
        exact ih r2 (by simp only at this; omega) k

/-- all callers (`streamBody`, the .lzma/.lz runs, `runIndex`) supply `sets.length + 2` -/
theorem retryLoop_supplies_enough (attempt : Core → InitResult × Core) (r : Run) (k : Nat) :
    retryLoop attempt (r.sets.length + 2 + k) r = retryLoop attempt (r.sets.length + 2) r :=
  retryLoop_fuel attempt _ r (by omega) k

theorem mtHandleMemlimit_true (r r2 : MtRun) (h : mtHandleMemlimit r = (r2, true)) :
    r2.sets.length < r.sets.length := by
  unfold mtHandleMemlimit at h
  simp only at h
  generalize hq : trySets r.core.memusage r.core.memlimitStop
    (r.emit (.memMt r.core.memusage r.core.memlimitStop)).sets = q at h
  obtain ⟨evs, res, rest⟩ := q
  cases res with
  | none => simp at h
  | some l =>
    simp only [Prod.mk.injEq, and_true] at h
    subst h
    exact trySets_some _ _ _ _ _ _ hq

theorem mtBlockInitLoop_fuel (b : Memusage.Build) (m check : Nat) (cs us : Option Nat) : ∀ (fuel : Nat) (r : MtRun),
    r.sets.length < fuel → ∀ k, mtBlockInitLoop b m check cs us (fuel + k) r = mtBlockInitLoop b m check cs us fuel r := by
  intro fuel
  induction fuel with
  | zero => intro _ h; omega
  | succ f ih =>
    intro r h k
    rw [show f + 1 + k = (f + k) + 1 by omega]
    simp only [mtBlockInitLoop]
    split
    · generalize hq : mtHandleMemlimit r = q
      obtain ⟨r2, ok⟩ := q
      cases ok with
      | false => rfl
      | true =>
        have := mtHandleMemlimit_true _ _ hq
        simp only [↓reduceIte]
        exact ih r2 (by omega) k
    · rfl

/-! ### Blocks of one Stream -/

/-- `streamBody` returns a suffix of its input as the unread rest -/
theorem streamBody_rest_le (b : Memusage.Build) (check : Nat) : ∀ (fuel : Nat) (r : Run) (inp : List UInt8),
    (streamBody b check fuel r inp).2.2.length ≤ inp.length := by
  intro fuel
  induction fuel with
  | zero => intro r inp; exact Nat.le_refl _
  | succ f ih =>
    intro r inp
    simp only [streamBody]
    repeat' split
    all_goals first
      | exact Nat.le_refl _
      | (simp only [List.length_nil]; exact Nat.zero_le _)
      | (simp only [List.length_drop]; exact Nat.sub_le _ _)
      | (have := Container.indexDecode_rest_le _ _ _ (by assumption); simp only [List.length_drop]; omega)
      | (refine Nat.le_trans (ih _ _) ?_; simp only [List.length_drop]; omega)

theorem streamBody_fuel (b : Memusage.Build) (check : Nat) : ∀ (fuel : Nat) (r : Run) (inp : List UInt8),
    inp.length < fuel → ∀ k, streamBody b check (fuel + k) r inp = streamBody b check fuel r inp := by
  intro fuel
  induction fuel with
  | zero => intro _ _ h; omega
  | succ f ih =>
    intro r inp h k
    rw [show f + 1 + k = (f + k) + 1 by omega]
    simp only [streamBody]
    repeat' split
    all_goals first
      | rfl
      | (apply ih; simp only [List.length_drop, List.length_cons] at *; omega)

/-- `streams` supplies `inp.length + 2` for the `inp.length - 12` bytes after the Stream Header -/
theorem streamBody_supplies_enough (b : Memusage.Build) (check : Nat) (r : Run) (inp : List UInt8) (k : Nat) :
    streamBody b check (inp.length + 2 + k) r (inp.drop 12) = streamBody b check (inp.length + 2) r (inp.drop 12) :=
  streamBody_fuel b check _ r _ (by simp only [List.length_drop]; omega) k

theorem mtStreamBody_rest_le (b : Memusage.Build) (check : Nat) : ∀ (fuel : Nat) (r : MtRun) (inp : List UInt8),
    (mtStreamBody b check fuel r inp).2.2.length ≤ inp.length := by
  intro fuel
  induction fuel with
  | zero => intro r inp; exact Nat.le_refl _
  | succ f ih =>
    intro r inp
    simp only [mtStreamBody]
    repeat' split
    all_goals first
      | exact Nat.le_refl _
      | (simp only [List.length_nil]; exact Nat.zero_le _)
      | (simp only [List.length_drop]; exact Nat.sub_le _ _)
      | (have := Container.indexDecode_rest_le _ _ _ (by assumption); simp only [List.length_drop]; omega)
      | (refine Nat.le_trans (ih _ _) ?_; simp only [List.length_drop]; omega)

theorem mtStreamBody_fuel (b : Memusage.Build) (check : Nat) : ∀ (fuel : Nat) (r : MtRun) (inp : List UInt8),
    inp.length < fuel → ∀ k, mtStreamBody b check (fuel + k) r inp = mtStreamBody b check fuel r inp := by
  intro fuel
  induction fuel with
  | zero => intro _ _ h; omega
  | succ f ih =>
    intro r inp h k
    rw [show f + 1 + k = (f + k) + 1 by omega]
    simp only [mtStreamBody]
    repeat' split
    all_goals first
      | rfl
      | (apply ih; simp only [List.length_drop, List.length_cons] at *; omega)

theorem mtStreamBody_supplies_enough (b : Memusage.Build) (check : Nat) (r : MtRun) (inp : List UInt8) (k : Nat) :
    mtStreamBody b check (inp.length + 2 + k) r (inp.drop 12) = mtStreamBody b check (inp.length + 2) r (inp.drop 12) :=
  mtStreamBody_fuel b check _ r _ (by simp only [List.length_drop]; omega) k

/-! ### Streams -/

theorem streams_fuel (b : Memusage.Build) (fl : Flags) : ∀ (fuel : Nat) (first : Bool) (r : Run) (inp : List UInt8),
    inp.length < fuel → ∀ k, streams b fl (fuel + k) first r inp = streams b fl fuel first r inp := by
  intro fuel
  induction fuel with
  | zero => intro _ _ _ h; omega
  | succ f ih =>
    intro first r inp h k
    rw [show f + 1 + k = (f + k) + 1 by omega]
    simp only [streams]
    split
    · rfl
    · split
      · rfl
      · rename_i sf _
        generalize hr1 : (if fl.tellNoCheck = true ∧ sf.check = 0 then
            { r with consumed := r.consumed + 12 }.emit (.chk 2)
          else if fl.tellUnsupported = true ∧ (!checkSupported sf.check) = true then
            { r with consumed := r.consumed + 12 }.emit (.chk 3)
          else if fl.tellAny = true then { r with consumed := r.consumed + 12 }.emit (.chk 4)
          else { r with consumed := r.consumed + 12 }) = r1
        have hrest := streamBody_rest_le b sf.check (inp.length + 2) r1 (inp.drop 12)
        generalize streamBody b sf.check (inp.length + 2) r1 (inp.drop 12) = q at hrest
        obtain ⟨code, r2, rest⟩ := q
        simp only at hrest ⊢
        repeat' split
        all_goals first
          | rfl
          | (apply ih; simp only [List.length_drop] at *; omega)

/-- `runXz` supplies `inp.length + 2` -/
theorem streams_supplies_enough (b : Memusage.Build) (fl : Flags) (r : Run) (inp : List UInt8) (k : Nat) :
    streams b fl (inp.length + 2 + k) true r inp = streams b fl (inp.length + 2) true r inp :=
  streams_fuel b fl _ true r inp (by omega) k

theorem mtStreams_fuel (b : Memusage.Build) (fl : Flags) : ∀ (fuel : Nat) (first : Bool) (r : MtRun) (inp : List UInt8),
    inp.length < fuel → ∀ k, mtStreams b fl (fuel + k) first r inp = mtStreams b fl fuel first r inp := by
  intro fuel
  induction fuel with
  | zero => intro _ _ _ h; omega
  | succ f ih =>
    intro first r inp h k
    rw [show f + 1 + k = (f + k) + 1 by omega]
    simp only [mtStreams]
    split
    · rfl
    · split
      · rfl
      · rename_i sf _
        generalize hr1 : (if fl.tellNoCheck = true ∧ sf.check = 0 then r.emit (.chk 2)
          else if fl.tellUnsupported = true ∧ (!checkSupported sf.check) = true then r.emit (.chk 3)
          else if fl.tellAny = true then r.emit (.chk 4) else r) = r1
        have hrest := mtStreamBody_rest_le b sf.check (inp.length + 2) r1 (inp.drop 12)
        generalize mtStreamBody b sf.check (inp.length + 2) r1 (inp.drop 12) = q at hrest
        obtain ⟨code, r2, rest⟩ := q
        simp only at hrest ⊢
        repeat' split
        all_goals first
          | rfl
          | (apply ih; simp only [List.length_drop] at *; omega)

/-- `runXzMt` supplies `inp.length + 2` -/
theorem mtStreams_supplies_enough (b : Memusage.Build) (fl : Flags) (r : MtRun) (inp : List UInt8) (k : Nat) :
    mtStreams b fl (inp.length + 2 + k) true r inp = mtStreams b fl (inp.length + 2) true r inp :=
  mtStreams_fuel b fl _ true r inp (by omega) k

end XzVerif.Memlimit
