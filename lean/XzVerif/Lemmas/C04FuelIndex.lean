/-
  C04 (termination / totality), part 2: fuel of the Index / VLI / file-info decoder models is never exhausted
  (see Lemmas/C04FuelXz.lean for the form of the statements).

  This file: Model/Vli.lean + Model/IndexSpec.lean (`vliSizeAux`, `vliSizeGo`: the `lzma_vli_size` loop),
  Model/Container.lean (`indexDecodeRecords`, `indexDecode`), Model/FileInfo.lean (`streamLoop`, `fileInfo`),
  Model/IndexSpec.lean / IndexImpl.lean iterator loops (`nextStreamFrom`).
  Core Lean only.
-/
import XzVerif.Model.Container
import XzVerif.Model.FileInfo

/-! ### Model/Vli.lean -/

namespace XzVerif.Vli

/-- `vliDecodeAux` (structural on its input) consumes at least one byte when it succeeds. -/
theorem vliDecodeAux_rest_lt : ∀ (b : List UInt8) (pos v : Nat) (r : List UInt8),
    vliDecodeAux pos b = some (v, r) → r.length < b.length
  | [], _, _, _, h => by simp [vliDecodeAux] at h
  | x :: t, pos, v, r, h => by
    unfold vliDecodeAux at h
    split at h
    · split at h
      · cases h
      · cases h; simp
    · split at h
      · cases h
      · split at h
        · cases h
        · rename_i v' r' hrec
          cases h
          have := vliDecodeAux_rest_lt t (pos + 1) v' r hrec
          simp only [List.length_cons]; omega

theorem vliDecode_rest_lt (b : List UInt8) (v : Nat) (r : List UInt8) (h : vliDecode b = some (v, r)) :
    r.length < b.length := vliDecodeAux_rest_lt b 0 v r h

/-- `vliSizeAux` (fuel = continuation bytes still allowed): enough fuel for every `v < 128^(fuel+1)`. -/
theorem vliSizeAux_fuel : ∀ (fuel v : Nat), v < 128 ^ (fuel + 1) →
    ∀ k, vliSizeAux (fuel + k) v = vliSizeAux fuel v
  | 0, v, h, k => by
    have hv : v < 128 := by simpa using h
    cases k with
    | zero => rfl
    | succ k => simp [vliSizeAux, hv]
  | f + 1, v, h, k => by
    rw [show f + 1 + k = (f + k) + 1 by omega]
    simp only [vliSizeAux]
    split
    · rfl
    · rw [vliSizeAux_fuel f (v / 128) (by rw [Nat.pow_succ] at h; exact Nat.div_lt_of_lt_mul (by omega)) k]

/-- `vliSize` supplies 8 units of fuel after checking `v ≤ VLI_MAX = 2^63 - 1 < 128^9`. -/
theorem vliSize_fuel (v k : Nat) : (if v > VLI_MAX then 0 else vliSizeAux (8 + k) v) = vliSize v := by
  unfold vliSize
  split
  · rfl
  · rw [vliSizeAux_fuel 8 v (by unfold VLI_MAX at *; omega) k]

end XzVerif.Vli

/-! ### Model/Container.lean: `indexDecodeRecords` (fuel = length of the input, supplied by `indexDecode`) -/

namespace XzVerif.Container
open XzVerif.Vli

/-- Every Record takes at least two bytes (two successful `vliDecode`s), so `b.length` units of fuel suffice.
    (The out-of-fuel value is `.error .dataError`, which an exhausted INPUT produces as well, so only the
    fuel-independence form makes sense here.) -/
theorem indexDecodeRecords_fuel : ∀ (fuel count : Nat) (a : IndexAcc) (b : List UInt8), b.length ≤ fuel →
    ∀ k, indexDecodeRecords (fuel + k) count a b = indexDecodeRecords fuel count a b
  | _, 0, a, b, _, k => by simp [indexDecodeRecords]
  | 0, count + 1, a, b, h, k => by
    have hb : b = [] := List.eq_nil_of_length_eq_zero (by omega)
    subst hb
    cases k with
    | zero => rfl
    | succ k => simp [indexDecodeRecords, vliDecode, vliDecodeAux]
  | f + 1, count + 1, a, b, h, k => by
    rw [show f + 1 + k = (f + k) + 1 by omega]
    simp only [indexDecodeRecords]
    split
    · rfl
    · rename_i u r1 h1
      split
      · rfl
      · split
        · rfl
        · rename_i c r2 h2
          split
          · rfl
          · have l1 := vliDecode_rest_lt _ _ _ h1
            have l2 := vliDecode_rest_lt _ _ _ h2
            rw [indexDecodeRecords_fuel f count _ r2 (by omega) k]

end XzVerif.Container

namespace XzVerif.Container
open XzVerif.Vli

/-- `indexDecode` supplies `r1.length` (the bytes after the Number of Records field): any larger fuel gives the
    same Records. -/
theorem indexDecode_supplies_enough (count : Nat) (a : IndexAcc) (r1 : List UInt8) (k : Nat) :
    indexDecodeRecords (r1.length + k) count a r1 = indexDecodeRecords r1.length count a r1 :=
  indexDecodeRecords_fuel r1.length count a r1 (Nat.le_refl _) k

end XzVerif.Container

namespace XzVerif.Index

/-! ### Model/IndexSpec.lean: the `lzma_vli_size` loop -/

/-- `vliSizeGo` (`do { vli >>= 7; ++i; } while (vli != 0)`): `fuel + 1` iterations suffice for `v < 128^(fuel+1)`. -/
theorem vliSizeGo_fuel : ∀ (fuel v i : Nat), v < 128 ^ (fuel + 1) →
    ∀ k, vliSizeGo (fuel + 1 + k) v i = vliSizeGo (fuel + 1) v i
  | 0, v, i, h, k => by
    have hv : v / 128 = 0 := Nat.div_eq_of_lt (by simpa using h)
    rw [show 0 + 1 + k = k + 1 by omega]
    simp [vliSizeGo, hv]
  | f + 1, v, i, h, k => by
    rw [show f + 1 + 1 + k = (f + 1 + k) + 1 by omega]
    simp only [vliSizeGo]
    split
    · rfl
    · exact vliSizeGo_fuel f (v / 128) (i + 1)
        (by rw [Nat.pow_succ] at h; exact Nat.div_lt_of_lt_mul (by omega)) k

/-- `vliSize` supplies 10 units of fuel after checking `v ≤ VLI_MAX < 128^10`. -/
theorem vliSize_fuel (v k : Nat) : (if v > VLI_MAX then 0 else vliSizeGo (10 + k) v 0) = vliSize v := by
  unfold vliSize
  split
  · rfl
  · exact vliSizeGo_fuel 9 v 0 (by unfold VLI_MAX at *; omega) k

/-! ### Model/FileInfo.lean: `streamLoop` (fuel `file.size + 2` supplied by `fileInfo`)

Every iteration that continues (`StepRes.next`) either has decoded a Stream Footer (the target position moves back by
at least 12 bytes) or has seen a window of zeros only (the target moves back by the window size, which is ≥ 12 after a
`reverse_seek`; after a window that was left over from the previous Stream it may be 0, but then the next iteration
starts with a seek).  So `target + [no seek pending]` strictly decreases. -/

/-- the termination measure of `streamLoop` -/
def fiMeasure (needSeek : Bool) (st : FI) : Nat := st.target + (if needSeek then 0 else 1)

theorem reverseSeek_ok {st st' : FI} (h : reverseSeek st = .ok st') :
    st'.target = st.target ∧ 12 ≤ st'.tempSize ∧ st'.tempSize + 12 ≤ st.target := by
  unfold reverseSeek at h
  split at h
  · cases h
  · injection h with h
    subst h
    unfold STREAM_HEADER_SIZE TEMP_SIZE at *
    refine ⟨rfl, ?_, ?_⟩ <;> simp only <;> split <;> omega

theorem padPhase_again {file : Array UInt8} {ns : Bool} {st st1 : FI} (h : padPhase file ns st = .again st1) :
    st1.target ≤ st.target ∧ (ns = true → st1.target < st.target) := by
  unfold padPhase at h
  split at h
  · cases h
  · rename_i st0 h0
    simp only at h
    split at h
    · rename_i hnp
      injection h with h
      subst h
      simp only
      cases ns with
      | false =>
        simp only [Bool.false_eq_true, ↓reduceIte] at h0
        injection h0 with h0; subst h0
        exact ⟨Nat.sub_le _ _, fun h => by cases h⟩
      | true =>
        simp only [↓reduceIte] at h0
        obtain ⟨e1, e2, e3⟩ := reverseSeek_ok h0
        rw [hnp, e1]
        constructor
        · omega
        · intro _; omega
    · split at h
      · cases h
      · split at h <;> cases h

theorem padPhase_footer {file : Array UInt8} {ns : Bool} {st st3 : FI} (h : padPhase file ns st = .footer st3) :
    st3.target ≤ st.target := by
  unfold padPhase at h
  split at h
  · cases h
  · rename_i st0 h0
    have h00 : st0.target = st.target := by
      cases ns with
      | false => simp only [Bool.false_eq_true, ↓reduceIte] at h0; injection h0 with h0; subst h0; rfl
      | true => simp only [↓reduceIte] at h0; exact (reverseSeek_ok h0).1
    simp only at h
    split at h
    · cases h
    · split at h
      · cases h
      · split at h
        · cases h
        · rename_i st3' h3
          injection h with h
          subst h
          split at h3
          · rw [(reverseSeek_ok h3).1]; simp only; omega
          · injection h3 with h3; subst h3; simp only; omega

theorem footerPhase_ok {file : Array UInt8} {st3 st6 : FI} {fc bsz : Nat}
    (h : footerPhase file st3 = .ok (fc, bsz, st6)) : st6.target + 12 ≤ st3.target := by
  unfold footerPhase at h
  simp only at h
  split at h
  · cases h
  · split at h
    · cases h
    · rename_i hlt
      injection h with h
      injection h with _ h
      injection h with _ h
      subst h
      unfold STREAM_HEADER_SIZE at *
      split <;> simp only <;> omega

theorem headerPhase_ok {file : Array UInt8} {fc bsz hc : Nat} {st6 st11 : FI} {this : Impl.Index}
    (h : headerPhase file fc st6 bsz this = .ok (hc, st11)) : st11.target ≤ st6.target := by
  unfold headerPhase at h
  simp only at h
  split at h
  · cases h
  · split at h
    · injection h with h; injection h with _ h; subst h; simp only; omega
    · split at h
      · cases h
      · rename_i st9 h9
        split at h
        · cases h
        · injection h with h; injection h with _ h; subst h
          simp only
          have : st9.target = st6.target - (this.totalSize + STREAM_HEADER_SIZE) + STREAM_HEADER_SIZE := by
            split at h9
            · injection h9 with h9; subst h9; rfl
            · rw [(reverseSeek_ok h9).1]
          rw [this]; omega

/-- one iteration of `streamLoop` that continues decreases the measure -/
theorem streamStep_next {file : Array UInt8} {ml fc : Nat} {ns ns' : Bool} {st st' : FI}
    (h : streamStep file ml fc ns st = .next ns' st') : fiMeasure ns' st' < fiMeasure ns st := by
  unfold streamStep at h
  split at h
  · cases h
  · rename_i st1 hp
    injection h with h1 h2
    subst h1; subst h2
    have := padPhase_again hp
    unfold fiMeasure
    cases ns with
    | false => simp only [Bool.false_eq_true, ↓reduceIte]; omega
    | true => simp only [↓reduceIte]; have := this.2 rfl; omega
  · rename_i st3 hp
    have h3 := padPhase_footer hp
    split at h
    · cases h
    · rename_i fc' bsz st6 hf
      have h6 := footerPhase_ok hf
      split at h
      · cases h
      · split at h
        · cases h
        · rename_i hc st11 hh
          have h11 := headerPhase_ok hh
          split at h
          · cases h
          · split at h
            · cases h
            · injection h with h1 h2
              subst h2
              unfold fiMeasure
              simp only
              split <;> split <;> omega

theorem streamLoop_fuel (file : Array UInt8) (ml fc : Nat) :
    ∀ (fuel : Nat) (ns : Bool) (st : FI), fiMeasure ns st < fuel →
      ∀ k, streamLoop file ml fc (fuel + k) ns st = streamLoop file ml fc fuel ns st := by
  intro fuel
  induction fuel with
  | zero => intro _ _ h; omega
  | succ f ih =>
    intro ns st h k
    rw [show f + 1 + k = (f + k) + 1 by omega]
    simp only [streamLoop]
    split
    · rfl
    · rename_i ns' st' hs
      have := streamStep_next hs
      exact ih ns' st' (by omega) k

/-- `fileInfo` supplies `file.size + 2` for the initial state (`target = file.size`, seek pending): every larger
    amount of fuel gives the same result, for every file and memory limit. -/
theorem fileInfo_supplies_enough (file : Array UInt8) (ml fc : Nat) (k : Nat) :
    streamLoop file ml fc (file.size + 2 + k) true
        { target := file.size, tempStart := 0, tempPos := 0, tempSize := 0, streamPadding := 0, combined := none }
      = streamLoop file ml fc (file.size + 2) true
        { target := file.size, tempStart := 0, tempPos := 0, tempSize := 0, streamPadding := 0, combined := none } :=
  streamLoop_fuel file ml fc (file.size + 2) true _ (by unfold fiMeasure; simp only [↓reduceIte]; omega) k

end XzVerif.Index
