/-
  LZMA2-style chunk round trip: a range-coded segment WITHOUT end marker, decoded by size (as `lzma2_decode` does with
  the chunk's uncompressed size), starting from ARBITRARY shared probabilities / state / window (chunks without state
  reset continue with the adapted probabilities) and ending with the same probabilities, state and window on both sides.
-/
import XzVerif.Lemmas.LzmaRoundtrip

namespace XzVerif.LzmaSym
open XzVerif.RangeDec XzVerif.RangeEnc XzVerif.RangeCoder XzVerif.Lzma XzVerif.LzmaEnc XzVerif.LzmaSymDec XzVerif.LzmaSpec

/-- decode symbols until exactly `remaining` bytes have been produced -/
def decBytes (p : Props) (dictSize : Nat) : Nat → Nat → Nat → SymSt → List UInt8 → Prog (Nat × SymSt × List UInt8)
  | 0, _, _, _, _ => .fail
  | fuel + 1, remaining, pos, s, rb =>
    if remaining = 0 then .ret (pos, s, rb)
    else
      (decodeSym p s pos (prevByte rb) (matchByte rb s.rep0)).bind fun r =>
        if isEopm r.1 || remaining < r.1.len then .fail
        else
          match applySym dictSize rb s r.1 with
          | none => .fail
          | some rb' => decBytes p dictSize fuel (remaining - r.1.len) (pos + r.1.len) r.2 rb'

def symsLen : List Sym → Nat
  | [] => 0
  | s :: r => s.len + symsLen r

theorem sym_len_pos (sym : Sym) (hv : ValidSym sym) : 0 < sym.len := by
  cases sym with
  | lit b => simp [Sym.len]
  | mtch d l => simp only [Sym.len]; exact Nat.lt_of_lt_of_le (by norm_num) hv.1
  | rep i l => simp only [Sym.len]; exact Nat.lt_of_lt_of_le (by norm_num) hv.2.1
  | shortrep => simp [Sym.len]

theorem decBytes_ops (p : Props) (dictSize : Nat) (hd : dictSize ≤ 4294967295) :
    ∀ (syms : List Sym) (fuel pos : Nat) (s : SymSt) (rb : List UInt8) (ops : List Op) (pos' : Nat) (s' : SymSt)
      (rb' : List UInt8) (rest : List Op),
      encSyms p dictSize syms pos s rb = some (ops, pos', s', rb') → syms.length < fuel →
      (decBytes p dictSize fuel (symsLen syms) pos s rb).runOps (ops ++ rest) = some ((pos', s', rb'), rest)
  | [], fuel, pos, s, rb, ops, pos', s', rb', rest, h, hf => by
    simp only [encSyms, Option.some.injEq, Prod.mk.injEq] at h
    obtain ⟨rfl, rfl, rfl, rfl⟩ := h
    obtain ⟨f, rfl⟩ : ∃ f, fuel = f + 1 := ⟨fuel - 1, by simp at hf; omega⟩
    simp [decBytes, symsLen, Prog.runOps]
  | sym :: syms, fuel, pos, s, rb, ops, pos', s', rb', rest, h, hf => by
    obtain ⟨f, rfl⟩ : ∃ f, fuel = f + 1 := ⟨fuel - 1, by simp at hf; omega⟩
    simp only [encSyms] at h
    split at h
    · cases h
    · rename_i rb1 happ
      split at h
      · cases h
      · rename_i ops1 fin hrec
        simp only [Option.some.injEq, Prod.mk.injEq] at h
        obtain ⟨rfl, rfl⟩ := h
        obtain ⟨hv, he⟩ := applySym_valid hd happ
        have hpos := sym_len_pos sym hv
        have hne : ¬ (sym.len + symsLen syms = 0) := by omega
        have hnl : ¬ (sym.len + symsLen syms < sym.len) := by omega
        simp only [decBytes, symsLen, hne, if_false, List.append_assoc]
        rw [runOps_bind_of _ (decodeSym_ops p s pos _ _ sym hv _)]
        simp only [he, hnl, Bool.false_or, decide_false, Bool.false_eq_true, if_false, happ, Nat.add_sub_cancel_left]
        exact decBytes_ops p dictSize hd syms f (pos + sym.len) _ rb1 ops1 pos' s' rb' rest hrec (by simp at hf; omega)

/-- probabilities of the right size, all within `[31, 2017]` -/
def PsOk (p : Props) (ps : Probs) : Prop := ps.size = probsSize p.lc p.lp ∧ ∀ i, i < ps.size → ProbInv (ps.getD i 0)

theorem resolve_size : ∀ (ops : List Op) (ps : Probs), (resolve ps ops).2.size = ps.size
  | [], _ => rfl
  | .bit ctx b :: ops, ps => by simp only [resolve]; rw [resolve_size ops]; simp
  | .direct b :: ops, ps => by simp only [resolve]; exact resolve_size ops ps

/-- One chunk: `rc_reset`, the symbols' operations, `rc_flush` — decoded by `rc_read_init`, symbols by size, `rc_normalize` +
    `rc_is_finished`. Both sides end with the same probabilities (again `PsOk`), position, state and window. -/
theorem lzma_chunk_roundtrip (p : Props) (hp : PropsOk p) (dictSize : Nat) (hd : dictSize ≤ 4294967295)
    (ps : Probs) (hps : PsOk p ps) (syms : List Sym) (pos : Nat) (s : SymSt) (hs : s.state < 12) (rb rb' : List UInt8)
    (hexp : lzExpand dictSize syms s rb = some rb') :
    ∃ ops pos' s', encSyms p dictSize syms pos s rb = some (ops, pos', s', rb') ∧ s'.state < 12 ∧
      PsOk p (encOps ps Enc.init ops).1 ∧
      ((encFlush (encOps ps Enc.init ops).2).out).head? = some 0 ∧
      ∀ tail, ∃ rc rest rc' rest' rc'',
        readInit ((encFlush (encOps ps Enc.init ops).2).out ++ tail) = .ok rc rest ∧
        (decBytes p dictSize (syms.length + 1) (symsLen syms) pos s rb).runRc ps rc rest
          = some ((pos', s', rb'), (encOps ps Enc.init ops).1, rc', rest') ∧
        normalizeL rc' rest' = some (rc'', tail) ∧ rc''.code = 0 := by
  obtain ⟨ops, pos', s', henc, hs', hb⟩ := encSyms_of_expand p hp dictSize hd syms pos s rb rb' hs hexp
  have hok : ProbsOk ps ops := ⟨hps.2, by rw [hps.1]; exact hb⟩
  have hreplay := decBytes_ops p dictSize hd syms (syms.length + 1) pos s rb ops pos' s' rb' [] henc (by omega)
  rw [List.append_nil] at hreplay
  have hres := encOps_resolve ops ps Enc.init
  have hrok := resolve_ok _ _ hok
  have hbytes : (encFlush (encOps ps Enc.init ops).2).out = (finish Enc.init (resolve ps ops).1).out := by
    simp only [hres, finish]
  refine ⟨ops, pos', s', henc, hs', ?_, ?_, ?_⟩
  · rw [hres]
    exact ⟨by rw [resolve_size]; exact hps.1, resolve_probsOk ops ps hok⟩
  · obtain ⟨_, _, _, _, hhead⟩ := sync_init hrok []
    rw [hbytes]; exact hhead
  · intro tail
    obtain ⟨rc, rest, hinit, hsync, _⟩ := sync_init hrok tail
    obtain ⟨consumed, ps', e', rc', rest', hcons, hencops, hrun, _, hI', hs2⟩ :=
      prog_sync _ _ [] _ ps Enc.init tail rc rest hreplay hok inv_init hsync
    simp only [resolve] at hs2
    obtain ⟨rc'', hnorm, hcode⟩ := sync_end hI' hs2
    have hc : consumed = ops := by simpa using hcons.symm
    subst hc
    refine ⟨rc, rest, rc', rest', rc'', by rw [hbytes]; exact hinit, ?_, hnorm, hcode⟩
    rw [hencops]; exact hrun

end XzVerif.LzmaSym
