/-
  Final equivalence: when a fatal value starts its way out of stream_decode_mt (without fail-fast), the delivered bytes and
  that value are exactly the single-threaded decoder's output and status.
-/
import XzVerif.Lemmas.MtDecErr2

namespace XzVerif.MtDec

theorem ErrInv.assign {s s' : State} (h : ErrInv s) (hc : CtlInv s) (hs : step s .assign = some s') : ErrInv s' := by
  simp only [step] at hs
  split at hs
  case h_2 => cases hs
  rename_i t hpc hthr
  injection hs with hs; subst hs
  have hseq : s.seq = .thrInit := hc.initSeq (by simp [hpc])
  refine ⟨?_, h.e2, ?_, h.e4⟩
  · intro hne
    obtain ⟨o, ho, hf, hr⟩ := h.e1 hne
    exact ⟨o, List.mem_append_left _ ho, hf, hr⟩
  · intro r hp
    have := (h.e3 r hp).1
    rw [hseq] at this; cases this

theorem ErrInv.enablePartial {s s' : State} (h : ErrInv s) (hc : CtlInv s) (hs : step s .enablePartial = some s') :
    ErrInv s' := by
  simp only [step] at hs
  split at hs
  case isFalse => cases hs
  rename_i hpc
  have hpc : s.pc = .init5 := by simpa using hpc
  injection hs with hs; subst hs
  have hseq : s.seq = .thrInit := hc.initSeq (by simp [hpc])
  obtain ⟨f, q, _⟩ := enablePartialHead_spec s
  have hp := enablePartialHead_pend s
  refine ⟨?_, ?_, ?_, ?_⟩
  · intro hne
    have hne' : s.threadError ≠ OK := by rw [← f.threadError]; exact hne
    exact (HasBad.qsame (h.e1 hne') q)
  · intro hx
    show (enablePartialHead s).threadError ≠ OK
    rw [f.threadError]; exact h.e2 (hp ▸ hx)
  · intro r hx
    have := (h.e3 r (hp ▸ hx)).1
    rw [hseq] at this; cases this
  · intro hx; cases hx

/-- The error invariant is preserved by every step that does not end in an exit state. -/
theorem errInv_step {s s' : State} {l : Label} (hI : Inv s) (hE : ErrInv s) (hs : step s l = some s')
    (hx' : exitCode s' = none) : ErrInv s' := by
  cases hw : l.worker? with
  | some i => exact hE.worker hI.1 (by simp [hw]) hs
  | none =>
    cases hsim : l.errSimple with
    | true => exact hE.mainSimple hI.2 hw hsim hs
    | false =>
      cases l <;> simp only [Label.errSimple, reduceCtorEq] at hsim
      case assign => exact hE.assign hI.2 hs
      case enablePartial => exact hE.enablePartial hI.2 hs
      case rowIter c =>
        have hret' : s'.returned = none := by
          unfold exitCode at hx'
          split at hx'
          · cases hx'
          · assumption
        -- which state is s'?
        have key : ∀ k w, rowKOf s.pc = some k → s' = rowIterate s k w → ErrInv s' := by
          intro k w hk e
          by_cases hok : (readLoop (s.queue.length + 1) s).2 = OK
          · rw [e]; exact hE.rowIterate hI.1 k w hok
          · exfalso
            rcases rowIterate_spec hI k w hk with ⟨r, hb, hp, _⟩ | ⟨_, _, _, _, _, _⟩
            · rw [← e] at hb hp
              have := hb.exit hp hret'
              rw [hx'] at this; cases this
            · -- the Inv branch is only taken when the loop result is OK
              have : (rowIterate s k w).pc = .rowDone k (readLoop (s.queue.length + 1) s).2 false := by
                unfold MtDec.rowIterate
                dsimp only
                rw [if_pos (by simpa using hok)]
              obtain ⟨_, _, _, dbad⟩ := readLoop_spec (s.queue.length + 1) hI.1
              have hb := dbad hok
              have hpc' : s'.pc = .rowDone k (readLoop (s.queue.length + 1) s).2 false := by rw [e]; exact this
              have hfat : fatal (readLoop (s.queue.length + 1) s).2 = true := by simp [fatal, hb.nok.1, hb.nok.2]
              have : exitCode s' = some (readLoop (s.queue.length + 1) s).2 := by simp [exitCode, hret', hpc', hfat]
              rw [hx'] at this; cases this
        simp only [step] at hs
        split at hs
        · rename_i k w hpc
          injection hs with hs
          exact key k w (by rw [hpc]; rfl) hs.symm
        · rename_i k w hpc
          split at hs
          · injection hs with hs
            exact key k w (by rw [hpc]; rfl) hs.symm
          · cases hs
        · rename_i k w hpc
          injection hs with hs
          exact key k w (by rw [hpc]; rfl) hs.symm
        · cases hs

/-- The cursor item ends the run with verdict `r` after everything before it, and nothing of it, was delivered. -/
theorem final_at_cursor {s : State} (hD : DataInv s) (hq : s.queue = []) (hdz : s.directPos = 0)
    (hcur : s.cur < s.blocks.length) (hdata : (blk s s.cur).data = []) (hbad : (blk s s.cur).ret ≠ END) :
    (s.delivered, (blk s s.cur).ret) = stRun s.blocks := by
  have hhd : hd s = s.cur := hd_of_empty hq
  have hgood : ∀ j, j < s.cur → (s.blocks.getD j default).ret = END := fun j hj => hD.good j (by rw [hhd]; exact hj)
  rw [stRun_bad s.blocks s.cur hcur hgood hbad, hD.deliv, hhd]
  have : partialOut s = [] := by simp [partialOut, hq, hdz]
  rw [this]
  show _ = (outOf s.blocks s.cur ++ (blk s s.cur).data, _)
  rw [hdata]; rfl

theorem exitCode_none_pc {s : State} (hr : s.returned = none)
    (hp : match s.pc with | .rowDone _ r _ => fatal r = false | .stopping _ _ => False | .ret r => fatal r = false | _ => True) :
    exitCode s = none := by
  unfold exitCode
  rw [hr]
  revert hp
  cases s.pc <;> simp

/-- Entering an exit state from a state satisfying the invariants, without fail-fast: the single-threaded result. -/
theorem final_entry {s s' : State} {l : Label} {r : Ret} (hI : Inv s) (hE : ErrInv s) (hx : exitCode s = none)
    (hff : s.cfg.failFast = false) (hs : step s l = some s') (hx' : exitCode s' = some r) :
    (s'.delivered, r) = stRun s.blocks := by
  have hret : s.returned = none := by
    unfold exitCode at hx
    split at hx
    · cases hx
    · assumption
  obtain ⟨c1, c2, c3, c4, c5, c6, c6a, c6b, c7, c8, c9, c10⟩ := hI.2
  cases hw : l.worker? with
  | some i =>
    have := (worker_exit (workerShape hw hs)).1
    rw [this, hx] at hx'; cases hx'
  | none =>
    cases l <;> simp only [Label.worker?, reduceCtorEq] at hw
    case rowIter c =>
      rcases rowIter_spec hI c hs with ⟨r', k, hb, hp, h1, h2, _⟩ | ⟨_, h1, _, _, h4, hk⟩
      · have := hb.exit hp (h1.trans hret)
        rw [this] at hx'; injection hx' with e; subst e
        rw [← h2]; exact hb.final
      · exfalso
        have hr' : s'.returned = none := h1.trans hret
        unfold exitCode at hx'
        rw [hr'] at hx'
        simp only at hx'
        split at hx'
        · rename_i k r' c' hpc
          split at hx'
          · rename_i hfat
            have := h4 k r' c' hpc hfat
            rw [hff] at this; cases this
          · cases hx'
        · rename_i i r' hpc; rw [hpc] at hk; simp [rowKOf] at hk
        · rename_i r' hpc; rw [hpc] at hk; simp [rowKOf] at hk
        · cases hx'
    case hdrFatal =>
      simp only [step] at hs
      split at hs
      case isFalse => cases hs
      rename_i hg
      simp only [Bool.and_eq_true, decide_eq_true_eq, List.isEmpty_iff] at hg
      obtain ⟨⟨⟨⟨hpc, hseq⟩, hcur⟩, hq⟩, hk⟩ := hg
      cases hs
      have hwf := blk_wf hI.1 s.cur
      have hfin := final_at_cursor hI.1 hq (c3 (by simp [hseq])) hcur (hwf.2.2.2.2.1 hk).2 (hwf.2.2.2.2.1 hk).1
      have : r = (blk s s.cur).ret := by
        simp only [exitCode, hret] at hx'
        split at hx'
        · injection hx' with e; exact e.symm
        · cases hx'
      rw [this]; exact hfin
    case rowOk =>
      simp only [step] at hs
      split at hs
      case h_6 =>
        rename_i cs hpc
        have hseq : s.seq = .error := c5 .drainErr (by rw [hpc]; rfl)
        split at hs
        · cases hs
          simp [exitCode, hret, fatal, OK] at hx'
        · rename_i hq
          have hq : s.queue = [] := by simpa using hq
          split at hs
          · rename_i r' hp
            cases hs
            obtain ⟨_, hcur, hk, hr'⟩ := hE.e3 r' hp
            have hwf := blk_wf hI.1 s.cur
            have hfin := final_at_cursor hI.1 hq (c3 (by simp [hseq])) hcur (hwf.2.2.2.2.1 hk).2 (hwf.2.2.2.2.1 hk).1
            have : r = r' := by
              simp only [exitCode, hret] at hx'
              split at hx'
              · injection hx' with e; exact e.symm
              · cases hx'
            rw [this, hr']; exact hfin
          · rename_i hnc
            exfalso
            have hne := hE.e4 hseq
            cases hp : s.pend with
            | none => exact hne hp
            | code r' => exact hnc r' hp
            | flag =>
              obtain ⟨o, ho, _⟩ := hE.e1 (hE.e2 hp)
              rw [hq] at ho; cases ho
      all_goals (repeat' split at hs)
      all_goals first | (cases hs; done) | skip
      all_goals (cases hs; simp_all [exitCode, fatal, OK, TIMED_OUT])
    case directStep n d =>
      simp only [step] at hs
      split at hs
      case isFalse => cases hs
      rename_i hg
      simp only [Bool.and_eq_true, decide_eq_true_eq] at hg
      obtain ⟨hpc, hseq⟩ := hg
      have hq : s.queue = [] := c4 (Or.inl hseq)
      have hcur : s.cur < s.blocks.length := c1 (by simp [hseq])
      split at hs
      case isFalse => cases hs
      rename_i hg2
      simp only [Bool.and_eq_true, decide_eq_true_eq] at hg2
      have hD1 := hI.1.directAdv hq n hg2.2
      split at hs
      · split at hs
        case isFalse => cases hs
        rename_i hlen
        split at hs
        · cases hs; simp [exitCode, hret, hpc] at hx'
        · rename_i hbad
          cases hs
          have : r = (blk s s.cur).ret := by
            simp only [exitCode, hret] at hx'
            split at hx'
            · injection hx' with e; exact e.symm
            · cases hx'
          rw [this]
          have hhd : hd s = s.cur := hd_of_empty hq
          have hgood : ∀ j, j < s.cur → (s.blocks.getD j default).ret = END :=
            fun j hj => hI.1.good j (by rw [hhd]; exact hj)
          rw [stRun_bad s.blocks s.cur hcur hgood hbad]
          have hd1 := hD1.deliv
          have e2 : partialOut (directAdv s n) = (blk s s.cur).data := by
            simp only [partialOut, directAdv, hq]
            show ((blk s s.cur).data).take (s.directPos + n) = _
            rw [hlen]; exact List.take_length
          have e3 : hd (directAdv s n) = s.cur := hhd
          rw [e2, e3] at hd1
          show ((directAdv s n).delivered, _) = _
          rw [hd1]; rfl
      · cases hs; simp [exitCode, hret, fatal, OK] at hx'
    case indexStep g =>
      simp only [step] at hs
      split at hs
      · cases hs; simp_all [exitCode]
      · split at hs
        case isFalse => cases hs
        rename_i hg
        simp only [Bool.and_eq_true, decide_eq_true_eq] at hg
        obtain ⟨hpc, hseq⟩ := hg
        have hq : s.queue = [] := c4 (Or.inr hseq)
        have hcur : s.cur < s.blocks.length := c1 (by simp [hseq])
        have hdz : s.directPos = 0 := c3 (by simp [hseq])
        have hk : (blk s s.cur).kind = .sync := c2 (Or.inr hseq)
        have hdata : (blk s s.cur).data = [] := (blk_wf hI.1 s.cur).2.2.2.2.2.1 hk
        split at hs
        · cases hs; simp [exitCode, hret, fatal, OK] at hx'
        · split at hs
          · rename_i hend
            split at hs
            · rename_i hlast
              cases hs
              have : r = END := by
                simp only [exitCode, hret] at hx'
                split at hx'
                · injection hx' with e; exact e.symm
                · cases hx'
              rw [this]
              have hhd : hd s = s.cur := hd_of_empty hq
              have hgood : ∀ j, j < s.blocks.length → (s.blocks.getD j default).ret = END := by
                intro j hj
                by_cases e : j < s.cur
                · exact hI.1.good j (by rw [hhd]; exact e)
                · have : j = s.cur := by omega
                  subst this; exact hend
              rw [stRun_all_good s.blocks hgood, ← hlast, outOf_succ s.blocks s.cur hcur]
              show (s.delivered, END) = _
              rw [hI.1.deliv, hhd]
              have : partialOut s = [] := by simp [partialOut, hq, hdz]
              rw [this]
              show _ = (outOf s.blocks s.cur ++ (blk s s.cur).data, END)
              rw [hdata]
            · cases hs; simp [exitCode, hret, hpc] at hx'
          · rename_i hbad
            cases hs
            have : r = (blk s s.cur).ret := by
              simp only [exitCode, hret] at hx'
              split at hx'
              · injection hx' with e; exact e.symm
              · cases hx'
            rw [this]
            have hfin := final_at_cursor hI.1 hq hdz hcur hdata hbad
            exact hfin
    case enablePartial =>
      simp only [step] at hs
      split at hs
      · cases hs
        have f := (enablePartialHead_spec s).1
        simp [exitCode, f.returned, hret] at hx'
      · cases hs
    all_goals (simp only [step] at hs)
    all_goals (repeat' split at hs)
    all_goals first | (cases hs; done) | skip
    all_goals (cases hs)
    all_goals (first
      | (exfalso; simp_all [exitCode, fatal, OK, TIMED_OUT]; done)
      | (exfalso; simp [exitCode, hret] at hx'; done))

/-- Global invariant, second layer: error bookkeeping in non-exit states, single-threaded result in exit states. -/
structure GInv2 (cfg : Cfg) (blocks : List Block) (s : State) : Prop where
  g : GInv cfg blocks s
  err : exitCode s = none → ErrInv s
  fin : cfg.failFast = false → ∀ r, exitCode s = some r → (s.delivered, r) = stRun blocks

theorem GInv2.init (cfg : Cfg) (blocks : List Block) (hwf : ∀ b ∈ blocks, b.WF) : GInv2 cfg blocks (init cfg blocks) :=
  ⟨GInv.init cfg blocks hwf, fun _ => ErrInv.init cfg blocks, fun _ r hx => by simp [exitCode, MtDec.init] at hx⟩

theorem GInv2.step {cfg : Cfg} {blocks : List Block} {s s' : State} {l : Label} (h : GInv2 cfg blocks s)
    (hs : step s l = some s') : GInv2 cfg blocks s' := by
  have g' := h.g.step hs
  cases he : exitCode s with
  | some r =>
    have hst : exitCode s' = some r ∧ s'.outRev = s.outRev := by
      cases hw : l.worker? with
      | some i => have := worker_exit (workerShape hw hs); exact ⟨this.1.trans he, this.2.1⟩
      | none => have := main_exit hw he h.g.retPc h.g.stopFatal hs; exact ⟨this.1, this.2.1⟩
    refine ⟨g', (fun hx => by rw [hst.1] at hx; cases hx), ?_⟩
    intro hff r' hx
    rw [hst.1] at hx; injection hx with e; subst e
    rw [delivered_of_outRev hst.2]; exact h.fin hff r he
  | none =>
    have hI := h.g.inv he
    have hE := h.err he
    refine ⟨g', fun hx => errInv_step hI hE hs hx, ?_⟩
    intro hff r hx
    have := final_entry hI hE he (by rw [h.g.hcfg]; exact hff) hs hx
    rw [h.g.hblocks] at this; exact this

theorem GInv2.reachable {cfg : Cfg} {blocks : List Block} (hwf : ∀ b ∈ blocks, b.WF) {s : State}
    (h : Reachable cfg blocks s) : GInv2 cfg blocks s := by
  induction h with
  | init => exact GInv2.init cfg blocks hwf
  | step l _ hs ih => exact ih.step hs

end XzVerif.MtDec
