/-
  Lemmas about the whole-buffer .xz container decoder model (Model/XzDecode.lean): what each stage certifies when it
  answers LZMA_STREAM_END.  Used by Props/C05.lean and Props/C03Container.lean.  Kernel proofs, core Lean only.
-/
import XzVerif.Model.XzDecode
import XzVerif.Lemmas.C02Vli
namespace XzVerif.XzDecode
open XzVerif XzVerif.Vli XzVerif.Container

/-! ## padding and byte matching -/

theorem padCheck_streamEnd (k : Nat) (l : List UInt8) (n : Nat) (rest : List UInt8)
    (h : padCheck k l = (.streamEnd, n, rest)) : n = k ∧ l = List.replicate k 0 ++ rest := by
  induction k generalizing l n rest with
  | zero =>
    simp only [padCheck] at h
    simp only [Prod.mk.injEq, true_and] at h
    obtain ⟨h1, h2⟩ := h
    subst h1 h2
    simp
  | succ k ih =>
    cases l with
    | nil => simp [padCheck] at h
    | cons b t =>
      simp only [padCheck] at h
      split at h
      · simp at h
      · rename_i hb
        simp only [Prod.mk.injEq] at h
        obtain ⟨h1, h2, h3⟩ := h
        have hb0 : b = 0 := by simpa using hb
        have := ih t (padCheck k t).2.1 (padCheck k t).2.2 (by rw [← h1])
        obtain ⟨e1, e2⟩ := this
        subst hb0
        constructor
        · omega
        · rw [List.replicate_succ, List.cons_append, ← h3, ← e2]

theorem padCheck_consumed_le (k : Nat) (l : List UInt8) : (padCheck k l).2.1 ≤ l.length ∧ (padCheck k l).2.1 ≤ k := by
  induction k generalizing l with
  | zero => simp [padCheck]
  | succ k ih =>
    cases l with
    | nil => simp [padCheck]
    | cons b t =>
      simp only [padCheck]
      split
      · simp
      · have := ih t
        simp only [List.length_cons]
        omega

theorem matchBytes_streamEnd (e l : List UInt8) (n : Nat) (h : matchBytes e l = (.streamEnd, n)) :
    n = e.length ∧ l.take n = e := by
  induction e generalizing l n with
  | nil =>
    simp only [matchBytes, Prod.mk.injEq, true_and] at h
    subst h
    simp
  | cons x xs ih =>
    cases l with
    | nil => simp [matchBytes] at h
    | cons b t =>
      simp only [matchBytes] at h
      split at h
      · simp at h
      · rename_i hxb
        simp only [Prod.mk.injEq] at h
        obtain ⟨h1, h2⟩ := h
        have hx : x = b := by simpa using hxb
        obtain ⟨e1, e2⟩ := ih t (matchBytes xs t).2 (by rw [← h1])
        subst hx
        constructor
        · simp only [List.length_cons]; omega
        · rw [← h2, List.take_succ_cons, e2]


/-! ## Block decoder -/


/-- The call of the raw decoder that `blockDecode` makes. -/
def payloadCall (E : Env) (check headerSize : Nat) (h : BlockHeader) (inp : List UInt8) (outCap : Nat) : PRes :=
  E.payload h.filters (inp.take (min inp.length (compressedLimit headerSize check h.compressedSize)))
    (min outCap (uncompressedLimit h.uncompressedSize))

/-- Everything `blockDecode … = LZMA_STREAM_END` certifies about the bytes `inp` that follow the Block Header. -/
structure BlockFacts (E : Env) (check : Nat) (ign : Bool) (hs : Nat) (h : BlockHeader) (inp : List UInt8) (outCap : Nat)
    (b : BRes) : Prop where
  payload_end : (payloadCall E check hs h inp outCap).ret = .streamEnd
  out_eq : b.out = (payloadCall E check hs h inp outCap).out
  compressed_eq : b.compressed = (payloadCall E check hs h inp outCap).consumed
  csize_field : ∀ c, h.compressedSize = some c → c = b.compressed
  usize_field : ∀ u, h.uncompressedSize = some u → u = b.out.length
  bytes : inp.drop b.compressed
      = List.replicate (blockPadLen b.compressed) 0
        ++ (inp.drop (b.compressed + blockPadLen b.compressed)).take (if check = 0 then 0 else checkSize check)
        ++ inp.drop b.consumed
  consumed_eq : b.consumed = b.compressed + blockPadLen b.compressed + (if check = 0 then 0 else checkSize check)
  check_len : ((inp.drop (b.compressed + blockPadLen b.compressed)).take (if check = 0 then 0 else checkSize check)).length
      = (if check = 0 then 0 else checkSize check)
  check_ok : check ≠ 0 → ign = false → E.checkSupported check = true →
      (inp.drop (b.compressed + blockPadLen b.compressed)).take (checkSize check) = E.check check b.out

theorem sizeValid_some (n : Nat) (o : Option Nat) (h : sizeValid n o = true) : ∀ c, o = some c → c = n := by
  intro c hc
  subst hc
  simpa [sizeValid] using h

theorem blockDecode_streamEnd (E : Env) (check : Nat) (ign : Bool) (hs : Nat) (h : BlockHeader) (inp : List UInt8)
    (outCap : Nat) (b : BRes) (hdef : blockDecode E check ign hs h inp outCap = b) (hb : b.ret = .streamEnd) :
    BlockFacts E check ign hs h inp outCap b := by
  unfold blockDecode at hdef
  simp only [] at hdef
  have hpc : payloadCall E check hs h inp outCap = E.payload h.filters (List.take (min inp.length (compressedLimit hs check h.compressedSize)) inp)
      (min outCap (uncompressedLimit h.uncompressedSize)) := rfl
  generalize E.payload h.filters (List.take (min inp.length (compressedLimit hs check h.compressedSize)) inp)
      (min outCap (uncompressedLimit h.uncompressedSize)) = r at hdef hpc
  split at hdef
  · split at hdef <;> (subst hdef; simp at hb)
  · rename_i hret
    split at hdef
    · subst hdef; simp at hb
    · rename_i hsz
      have hsz2 : sizeValid r.consumed h.compressedSize = true ∧ sizeValid r.out.length h.uncompressedSize = true := by
        simpa using hsz
      generalize hp : padCheck (blockPadLen r.consumed) (List.drop r.consumed inp) = p at hdef
      obtain ⟨pr, pn, prest⟩ := p
      simp only [] at hdef
      split at hdef
      · -- padding all zero
        obtain ⟨hn, hl⟩ := padCheck_streamEnd _ _ _ _ hp
        subst hn
        split at hdef
        · -- no Check
          rename_i hc0
          subst hdef
          refine ⟨by rw [hpc]; exact hret, by rw [hpc], by rw [hpc], sizeValid_some _ _ hsz2.1, sizeValid_some _ _ hsz2.2, ?_, ?_, ?_, ?_⟩
          · simp only [hc0, if_true, List.take_zero, List.append_nil]
            rw [← List.drop_drop, hl, List.drop_left']
            simp
          · simp [hc0]
          · simp [hc0]
          · intro hc; exact absurd hc0 hc
        · rename_i hc0
          split at hdef
          · subst hdef; simp at hb
          · rename_i hlen
            split at hdef
            · subst hdef; simp at hb
            · rename_i hchk
              subst hdef
              have hd : List.drop (r.consumed + blockPadLen r.consumed) inp = prest := by
                rw [← List.drop_drop, hl, List.drop_left']
                simp
              refine ⟨by rw [hpc]; exact hret, by rw [hpc], by rw [hpc], sizeValid_some _ _ hsz2.1, sizeValid_some _ _ hsz2.2, ?_, ?_, ?_, ?_⟩
              · simp only [hc0, if_false]
                rw [hd, hl, List.append_assoc]
                congr 1
                rw [← List.drop_drop, hd, List.take_append_drop]
              · simp [hc0]
              · simp only [hc0, if_false, hd, List.length_take]
                omega
              · intro _ hign hsup
                rw [hd]
                simp only [hign, hsup, Bool.not_false, Bool.and_self, Bool.true_and, decide_eq_true_eq, ne_eq, Decidable.not_not] at hchk
                exact hchk
      · subst hdef
        rename_i hne
        exact absurd hb (by simpa using hne)
  · subst hdef
    rename_i h1 h2
    exact absurd hb h2


/-! ## Index hash -/


theorem pow128_9 : (128 : Nat) ^ 9 = 9223372036854775808 := by decide

/-- A VLI accepted inside the Index is the canonical encoding of its value. -/
theorem indexVli_ok (l : List UInt8) (v n : Nat) (h : indexVli l = .ok (v, n)) :
    l = vliEncode v ++ l.drop n ∧ (vliEncode v).length = n ∧ n ≤ l.length ∧ v ≤ VLI_MAX := by
  unfold indexVli at h
  simp only [] at h
  generalize hr : vliDecLoop l 0 0 0 = r at h
  obtain ⟨ret, vv, pp, uu⟩ := r
  simp only [] at h
  split at h
  · rename_i hret
    simp only [Except.ok.injEq, Prod.mk.injEq] at h
    obtain ⟨h1, h2⟩ := h
    subst h1 h2
    obtain ⟨hdec, hpos, hle, _⟩ := vliDecLoop_streamEnd l vv pp uu hr
    obtain ⟨hb, _, hlt⟩ := vliDecodeAux_minimal l 0 vv (l.drop uu) (by omega) hdec
    simp only [Nat.sub_zero] at hb hlt
    have henc : vliEncode vv = vliEncodeAux 8 vv := rfl
    refine ⟨by rw [henc]; exact hb, ?_, hle, ?_⟩
    · have := congrArg List.length hb
      rw [List.length_append, List.length_drop] at this
      rw [henc]; omega
    · rw [pow128_9] at hlt
      unfold VLI_MAX; omega
  · simp at h
  · simp at h

theorem take_add_of_drop (all : List UInt8) (used : Nat) (A rest : List UInt8) (h : all.drop used = A ++ rest) :
    all.take (used + A.length) = all.take used ++ A := by
  rw [List.take_add, h, List.take_left']
  rfl

theorem drop_add_of_drop (all : List UInt8) (used : Nat) (A rest : List UInt8) (h : all.drop used = A ++ rest) :
    all.drop (used + A.length) = rest := by
  rw [← List.drop_drop, h, List.drop_left']
  rfl


/-- Number of Index Padding bytes for the Records read so far. -/
def indexPad (records : HashInfo) : Nat := (4 - indexSizeUnpadded (hCount records) (hIndexListSize records) % 4) % 4

theorem le32_length (n : Nat) : (le32 n).length = 4 := rfl

theorem indexFinish_streamEnd (blocks records : HashInfo) (all : List UInt8) (used : Nat) (inp : List UInt8) (ic : Nat)
    (hinp : inp = all.drop used) (h : indexFinish blocks records all used inp = ⟨.streamEnd, ic⟩) :
    blocks = records ∧ ic = used + indexPad records + 4 ∧
    all.take ic = all.take used ++ List.replicate (indexPad records) 0
        ++ le32 (crc32 (all.take used ++ List.replicate (indexPad records) 0)) := by
  unfold indexFinish at h
  split at h
  · simp at h
  · simp only [] at h
    generalize hp : padCheck ((4 - indexSizeUnpadded (hCount records) (hIndexListSize records) % 4) % 4) inp = p at h
    obtain ⟨pr, pn, prest⟩ := p
    simp only [] at h
    split at h
    · obtain ⟨hn, hl⟩ := padCheck_streamEnd _ _ _ _ hp
      subst hn
      split at h
      · simp at h
      · split at h
        · simp at h
        · rename_i hsums
          split at h
          · simp at h
          · rename_i heq
            have heq' : blocks = records := by simpa using heq
            simp only [IRes.mk.injEq] at h
            obtain ⟨h1, h2⟩ := h
            obtain ⟨m2, mt⟩ := matchBytes_streamEnd _ _ (matchBytes _ prest).2 (by rw [← h1])
            rw [le32_length] at m2
            have hd : all.drop used = List.replicate (indexPad records) 0 ++ prest := by rw [← hinp, hl]; rfl
            have ht := take_add_of_drop all used _ _ hd
            have hdr := drop_add_of_drop all used _ _ hd
            rw [List.length_replicate] at ht hdr
            refine ⟨heq', ?_, ?_⟩
            · rw [← h2, m2]; rfl
            · rw [← h2, m2]
              show List.take (used + indexPad records + 4) all = _
              rw [List.take_add, ht, hdr]
              congr 1
              rw [m2] at mt
              rw [mt]
              show le32 (crc32 (List.take (used + indexPad records) all)) = _
              rw [ht]
    · simp only [IRes.mk.injEq] at h
      rename_i hne
      exact absurd h.1 (by simpa using hne)


theorem indexVli_error_ne (l : List UInt8) (r : Ret) (n : Nat) (h : indexVli l = .error (r, n)) : r ≠ .streamEnd := by
  unfold indexVli at h
  simp only [] at h
  split at h
  · simp at h
  · simp only [Except.error.injEq, Prod.mk.injEq] at h
    rw [← h.1]; simp
  · simp only [Except.error.injEq, Prod.mk.injEq] at h
    rw [← h.1]; simp

theorem indexRecordsBytes_cons (r : IndexRecord) (rs : List IndexRecord) :
    indexRecordsBytes (r :: rs) = vliEncode r.unpadded ++ vliEncode r.uncompressed ++ indexRecordsBytes rs := by
  simp [indexRecordsBytes, List.flatMap_cons]

theorem vliEncode_length' (v : Nat) (h : v ≤ VLI_MAX) : (vliEncode v).length = vliSize v := by
  unfold vliEncode vliSize
  have : ¬ (v > VLI_MAX) := by omega
  simp only [this, if_false]
  exact vliEncodeAux_length 8 v

theorem hIndexListSize_cons (r : IndexRecord) (rs : List IndexRecord) :
    hIndexListSize (r :: rs) = vliSize r.unpadded + vliSize r.uncompressed + hIndexListSize rs := by
  simp [hIndexListSize]

theorem indexRecords_streamEnd (blocks : HashInfo) (all : List UInt8) :
    ∀ (remaining : Nat) (records : HashInfo) (used : Nat) (inp : List UInt8) (ic : Nat),
      inp = all.drop used →
      indexRecords blocks all remaining records used inp = ⟨.streamEnd, ic⟩ →
      ∃ more : List IndexRecord, blocks = records ++ more ∧ more.length = remaining ∧
        ic = used + (indexRecordsBytes more).length + indexPad blocks + 4 ∧
        (indexRecordsBytes more).length = hIndexListSize more ∧
        all.take ic = all.take used ++ indexRecordsBytes more ++ List.replicate (indexPad blocks) 0
          ++ le32 (crc32 (all.take used ++ indexRecordsBytes more ++ List.replicate (indexPad blocks) 0)) := by
  intro remaining
  induction remaining with
  | zero =>
    intro records used inp ic hinp h
    simp only [indexRecords] at h
    obtain ⟨heq, hic, htake⟩ := indexFinish_streamEnd blocks records all used inp ic hinp h
    subst heq
    refine ⟨[], by simp, rfl, ?_, ?_, ?_⟩
    · simp [indexRecordsBytes, hic]
    · simp [indexRecordsBytes, hIndexListSize]
    · simpa [indexRecordsBytes] using htake
  | succ remaining ih =>
    intro records used inp ic hinp h
    simp only [indexRecords] at h
    by_cases he : inp.isEmpty = true
    · rw [if_pos he] at h; simp at h
    rw [if_neg he] at h
    cases hv1 : indexVli inp with
    | error e =>
      obtain ⟨r, n⟩ := e
      rw [hv1] at h
      simp only [IRes.mk.injEq] at h
      exact absurd h.1 (indexVli_error_ne _ _ _ hv1)
    | ok p =>
      obtain ⟨u, n1⟩ := p
      rw [hv1] at h
      simp only [] at h
      by_cases hr : u < UNPADDED_SIZE_MIN ∨ u > UNPADDED_SIZE_MAX
      · rw [if_pos hr] at h; simp at h
      rw [if_neg hr] at h
      by_cases he2 : (List.drop n1 inp).isEmpty = true
      · rw [if_pos he2] at h; simp at h
      rw [if_neg he2] at h
      cases hv2 : indexVli (List.drop n1 inp) with
      | error e =>
        obtain ⟨r, n⟩ := e
        rw [hv2] at h
        simp only [IRes.mk.injEq] at h
        exact absurd h.1 (indexVli_error_ne _ _ _ hv2)
      | ok p =>
        obtain ⟨c, n2⟩ := p
        rw [hv2] at h
        simp only [] at h
        split at h
        · simp at h
        · obtain ⟨e1, l1, le1, m1⟩ := indexVli_ok _ _ _ hv1
          obtain ⟨e2, l2, le2, m2⟩ := indexVli_ok _ _ _ hv2
          have hd : all.drop used = (vliEncode u ++ vliEncode c) ++ (inp.drop n1).drop n2 := by
            rw [← hinp, List.append_assoc, ← e2, ← e1]
          have ht := take_add_of_drop all used _ _ hd
          have hdr := drop_add_of_drop all used _ _ hd
          rw [List.length_append, l1, l2, ← Nat.add_assoc] at ht hdr
          obtain ⟨more, hb, hlen, hic, hls, htake⟩ := ih (records ++ [⟨u, c⟩]) (used + n1 + n2) ((inp.drop n1).drop n2) ic hdr.symm h
          refine ⟨⟨u, c⟩ :: more, by rw [hb]; simp, by simp [hlen], ?_, ?_, ?_⟩
          · rw [indexRecordsBytes_cons, hic]
            simp only [List.length_append, l1, l2]
            omega
          · rw [indexRecordsBytes_cons, hIndexListSize_cons]
            simp only [List.length_append, hls, vliEncode_length' u m1, vliEncode_length' c m2]
          · rw [htake, ht, indexRecordsBytes_cons]
            simp only [List.append_assoc]


theorem indexPad_eq (blocks : HashInfo) : indexPad blocks = indexPaddingSize blocks.length (indexListSize blocks) := rfl

/-- An Index field accepted after the Blocks `blocks` is, byte for byte, the canonical encoding of their size pairs
    (Index Indicator, Number of Records, the Records in order, zero Index Padding, CRC32), and its length is the value
    `lzma_index_hash_size` computes from the Blocks. -/
theorem indexHashDecode_streamEnd (blocks : HashInfo) (inp : List UInt8) (ic : Nat)
    (h : indexHashDecode blocks inp = ⟨.streamEnd, ic⟩) :
    inp.take ic = indexEncode blocks ∧ ic = indexHashSize blocks ∧ ic ≤ inp.length := by
  unfold indexHashDecode at h
  cases inp with
  | nil => simp at h
  | cons ind r0 =>
    simp only [] at h
    by_cases hind : ind.toNat ≠ INDEX_INDICATOR
    · rw [if_pos hind] at h; simp at h
    rw [if_neg hind] at h
    have hind0 : ind = 0 := by
      have : ind.toNat = 0 := by simpa [INDEX_INDICATOR] using hind
      exact UInt8.toNat_inj.mp (by simpa using this)
    by_cases he : r0.isEmpty = true
    · rw [if_pos he] at h; simp at h
    rw [if_neg he] at h
    cases hv : indexVli r0 with
    | error e =>
      obtain ⟨r, n⟩ := e
      rw [hv] at h
      simp only [IRes.mk.injEq] at h
      exact absurd h.1 (indexVli_error_ne _ _ _ hv)
    | ok p =>
      obtain ⟨count, n⟩ := p
      rw [hv] at h
      simp only [] at h
      by_cases hc : count ≠ hCount blocks
      · rw [if_pos hc] at h; simp at h
      rw [if_neg hc] at h
      have hc' : count = blocks.length := by simpa [hCount] using hc
      obtain ⟨e1, l1, le1, m1⟩ := indexVli_ok _ _ _ hv
      have hdrop : List.drop n r0 = List.drop (1 + n) (ind :: r0) := by rw [Nat.add_comm]; rfl
      obtain ⟨more, hb, hlen, hic, hls, htake⟩ := indexRecords_streamEnd blocks (ind :: r0) count [] (1 + n) (r0.drop n) ic hdrop h
      have hmore : blocks = more := by simpa using hb
      subst hmore
      have ht1 : List.take (1 + n) (ind :: r0) = 0 :: vliEncode blocks.length := by
        rw [Nat.add_comm, List.take_succ_cons, hind0, ← hc']
        congr 1
        conv => lhs; rw [e1]
        rw [← l1, List.take_left']
        rfl
      rw [ht1] at htake
      refine ⟨?_, ?_, ?_⟩
      · rw [htake]
        unfold indexEncode
        simp only [INDEX_INDICATOR, indexPad_eq, List.cons_append, List.append_assoc]
        rfl
      · rw [hic, hls]
        unfold indexHashSize indexSize indexSizeUnpadded indexPad indexSizeUnpadded hCount ceil4
        rw [← hc', ← vliEncode_length' count m1, l1]
        omega
      · have hl := congrArg List.length htake
        rw [List.length_take] at hl
        simp only [List.length_append, List.length_cons, List.length_replicate, le32_length, l1, ← hc'] at hl
        simp only [List.length_cons] at hl ⊢
        omega


end XzVerif.XzDecode
