/-
  One call of `lzma_decode` (Model/Lzma.lean `lzmaCall`): what it can change (`Wr`), that output bytes and dictionary
  position advance together and never beyond the limit, that the input cursor stays inside the input, and that the loop
  fuel `limit − pos + 2` is never exhausted.
-/
import XzVerif.Lemmas.C03Frame

namespace XzVerif.Lzma
open XzVerif.RangeDec XzVerif.LzDict

/-- What a decoding call may change: input cursor forward within the input; history and dictionary position grow
    together, never past the limit; `limit`, `size`, `need_reset`, the LZMA2 layer and the options are untouched. -/
structure Wr (s s' : St) : Prop where
  inp : s'.inp = s.inp
  pos_mono : s.inPos ≤ s'.inPos
  pos_le : s.inPos ≤ s.inp.size → s'.inPos ≤ s'.inp.size
  outBase : s'.outBase = s.outBase
  l2 : s'.l2 = s.l2
  limit : s'.dp.limit = s.dp.limit
  size : s'.dp.size = s.dp.size
  needReset : s'.dp.needReset = s.dp.needReset
  dpos_mono : s.dp.pos ≤ s'.dp.pos
  hist_eq : s'.hist.size + s.dp.pos = s.hist.size + s'.dp.pos
  in_limit : s.dp.pos ≤ s.dp.limit → s'.dp.pos ≤ s'.dp.limit

theorem Wr.refl (s : St) : Wr s s :=
  ⟨rfl, Nat.le_refl _, id, rfl, rfl, rfl, rfl, rfl, Nat.le_refl _, rfl, id⟩

theorem Wr.trans {a b c : St} (h1 : Wr a b) (h2 : Wr b c) : Wr a c where
  inp := h2.inp.trans h1.inp
  pos_mono := Nat.le_trans h1.pos_mono h2.pos_mono
  pos_le := fun h => h2.pos_le (h1.inp ▸ h1.pos_le h)
  outBase := h2.outBase.trans h1.outBase
  l2 := h2.l2.trans h1.l2
  limit := h2.limit.trans h1.limit
  size := h2.size.trans h1.size
  needReset := h2.needReset.trans h1.needReset
  dpos_mono := Nat.le_trans h1.dpos_mono h2.dpos_mono
  hist_eq := by have := h1.hist_eq; have := h2.hist_eq; omega
  in_limit := fun h => h2.in_limit (h1.in_limit h)

theorem Fr.toWr {s s' : St} (h : Fr s s') : Wr s s' where
  inp := h.inp
  pos_mono := h.pos_mono
  pos_le := h.pos_le
  outBase := h.outBase
  l2 := h.l2
  limit := by rw [h.dp]
  size := by rw [h.dp]
  needReset := by rw [h.dp]
  dpos_mono := by rw [h.dp]; exact Nat.le_refl _
  hist_eq := by rw [h.dp, h.hist]
  in_limit := by rw [h.dp]; exact id

theorem copyBytes_size : ∀ n d (h : ByteArray), (St.copyBytes n d h).size = h.size + n
  | 0, _, _ => rfl
  | n + 1, d, h => by
    unfold St.copyBytes
    simp only []
    rw [copyBytes_size n d _, ByteArray.size_push]
    omega

theorem wr_put (s : St) (b : UInt8) (h : s.dp.pos ≠ s.dp.limit) : Wr s (s.put b) := by
  unfold St.put DictPos.advance
  constructor
  · rfl
  · exact Nat.le_refl _
  · exact id
  · rfl
  · rfl
  · rfl
  · rfl
  · rfl
  · simp only []; omega
  · simp only [ByteArray.size_push]; omega
  · intro hl; simp only []; omega

theorem wr_repeatN (s : St) (left : Nat) (h : left ≤ s.dp.limit - s.dp.pos) : Wr s (s.repeatN left) := by
  unfold St.repeatN DictPos.advance
  constructor
  · rfl
  · exact Nat.le_refl _
  · exact id
  · rfl
  · rfl
  · rfl
  · rfl
  · rfl
  · simp only []; omega
  · simp only [copyBytes_size]; omega
  · intro hl; simp only []; omega

/-- the output step: relation, progress when it completes, never `Exit.fuel` -/
theorem doWrite_spec (p : Pending) (s : St) :
    Wr s (resSt (doWrite p s))
    ∧ (∀ s', doWrite p s = .ok () s' → IsWrite p → s.dp.pos < s'.dp.pos)
    ∧ (∀ s', doWrite p s ≠ .error .fuel s') := by
  unfold doWrite
  cases p with
  | none =>
    refine ⟨Wr.refl s, ?_, ?_⟩
    · intro s' _ hw; cases hw
    · intro s' e; cases e
  | stuck =>
    refine ⟨Wr.refl s, ?_, ?_⟩
    · intro s' _ hw; cases hw
    · intro s' e; cases e
  | litWrite sym =>
    simp only []
    by_cases hl : s.dp.pos = s.dp.limit
    · simp only [hl, beq_self_eq_true, if_true]
      refine ⟨Wr.refl s, ?_, ?_⟩
      · intro s' e; cases e
      · intro s' e; injection e with h1 _; cases h1
    · have hb : (s.dp.pos == s.dp.limit) = false := by simpa using hl
      simp only [hb]
      refine ⟨wr_put s _ hl, ?_, ?_⟩
      · intro s' e _
        injection e with _ h2
        rw [← h2]; unfold St.put DictPos.advance; simp only []; omega
      · intro s' e; cases e
  | shortRep =>
    simp only []
    by_cases hl : s.dp.pos = s.dp.limit
    · simp only [hl, beq_self_eq_true, if_true]
      refine ⟨Wr.refl s, ?_, ?_⟩
      · intro s' e; cases e
      · intro s' e; injection e with h1 _; cases h1
    · have hb : (s.dp.pos == s.dp.limit) = false := by simpa using hl
      simp only [hb]
      refine ⟨wr_put s _ hl, ?_, ?_⟩
      · intro s' e _
        injection e with _ h2
        rw [← h2]; unfold St.put DictPos.advance; simp only []; omega
      · intro s' e; cases e
  | copy len =>
    simp only []
    have hleft : s.dp.repeatLeft len ≤ s.dp.limit - s.dp.pos := by
      unfold DictPos.repeatLeft DictPos.avail; exact Nat.min_le_left _ _
    have hleft2 : s.dp.repeatLeft len ≤ len := by
      unfold DictPos.repeatLeft; exact Nat.min_le_right _ _
    by_cases hz : len - s.dp.repeatLeft len = 0
    · have hb : (len - s.dp.repeatLeft len != 0) = false := by simp [hz]
      simp only [hb]
      refine ⟨wr_repeatN s _ hleft, ?_, ?_⟩
      · intro s' e hw
        injection e with _ h2
        have hw' : 2 ≤ len := hw
        rw [← h2]; unfold St.repeatN DictPos.advance; simp only []; omega
      · intro s' e; cases e
    · have hb : (len - s.dp.repeatLeft len != 0) = true := by simp [hz]
      simp only [hb, if_true]
      refine ⟨wr_repeatN s _ hleft, ?_, ?_⟩
      · intro s' e; cases e
      · intro s' e; injection e with h1 _; cases h1


/-- one loop iteration: relation, strict progress of the dictionary position when it completes, never `Exit.fuel` -/
theorem symStep_spec (ev mf : Bool) (s : St) :
    Wr s (resSt (symStep ev mf s))
    ∧ (∀ a s', symStep ev mf s = .ok a s' → s.dp.pos < s'.dp.pos)
    ∧ (∀ s', symStep ev mf s ≠ .error .fuel s') := by
  have hp := sat_symPrelude ev mf s
  show Wr s (resSt (EStateM.bind (symPrelude ev mf) _ s)) ∧ (∀ a s', EStateM.bind (symPrelude ev mf) _ s = .ok a s' → _)
    ∧ (∀ s', EStateM.bind (symPrelude ev mf) _ s ≠ .error .fuel s')
  unfold EStateM.bind
  cases h1 : symPrelude ev mf s with
  | error e s1 =>
    rw [h1] at hp
    refine ⟨hp.1.toWr, ?_, ?_⟩
    · intro a s' e'; cases e'
    · intro s' e'; exact hp.2.2 s' (by simpa using e')
  | ok ev' s1 =>
    rw [h1] at hp
    have hd := sat_decodeSymbol ev' s1
    show Wr s (resSt (EStateM.bind (decodeSymbol ev') _ s1)) ∧ (∀ a s', EStateM.bind (decodeSymbol ev') _ s1 = .ok a s' → _)
      ∧ (∀ s', EStateM.bind (decodeSymbol ev') _ s1 ≠ .error .fuel s')
    unfold EStateM.bind
    cases h2 : decodeSymbol ev' s1 with
    | error e s2 =>
      rw [h2] at hd
      refine ⟨(hp.1.trans hd.1).toWr, ?_, ?_⟩
      · intro a s' e'; cases e'
      · intro s' e'; exact hd.2.2 s' (by simpa using e')
    | ok act s2 =>
      rw [h2] at hd
      have hact : IsWrite act := hd.2.1 act s2 rfl
      have hw := doWrite_spec act s2
      have hfr : Fr s s2 := hp.1.trans hd.1
      show Wr s (resSt (EStateM.bind (doWrite act) _ s2)) ∧ (∀ a s', EStateM.bind (doWrite act) _ s2 = .ok a s' → _)
        ∧ (∀ s', EStateM.bind (doWrite act) _ s2 ≠ .error .fuel s')
      unfold EStateM.bind
      cases h3 : doWrite act s2 with
      | error e s3 =>
        rw [h3] at hw
        refine ⟨hfr.toWr.trans hw.1, ?_, ?_⟩
        · intro a s' e'; cases e'
        · intro s' e'; exact hw.2.2 s' (by simpa using e')
      | ok u s3 =>
        rw [h3] at hw
        have hprog := hw.2.1 s3 rfl hact
        refine ⟨hfr.toWr.trans hw.1, ?_, ?_⟩
        · intro a s' e'
          have : (EStateM.Result.ok ev' s3 : EStateM.Result Exit St Bool) = .ok a s' := e'
          injection this with _ h5
          rw [← h5, ← hfr.dp]; exact hprog
        · intro s' e'
          have : (EStateM.Result.ok ev' s3 : EStateM.Result Exit St Bool) = .error .fuel s' := e'
          cases this

/-- The main loop: relation; it is only left through an exit; with `fuel > limit − pos` that exit is never `Exit.fuel`. -/
theorem symLoop_spec : ∀ (fuel : Nat) (ev mf : Bool) (s : St), s.dp.pos ≤ s.dp.limit →
    Wr s (resSt (symLoop fuel ev mf s))
    ∧ (∀ a s', symLoop fuel ev mf s ≠ .ok a s')
    ∧ (s.dp.limit - s.dp.pos < fuel → ∀ s', symLoop fuel ev mf s ≠ .error .fuel s')
  | 0, ev, mf, s, _ => by
    unfold symLoop
    refine ⟨Wr.refl s, ?_, ?_⟩
    · intro a s' e; cases e
    · intro h; omega
  | fuel + 1, ev, mf, s, hl => by
    unfold symLoop
    have hs := symStep_spec ev mf s
    show Wr s (resSt (EStateM.bind (symStep ev mf) _ s)) ∧ (∀ a s', EStateM.bind (symStep ev mf) _ s ≠ .ok a s')
      ∧ (_ → ∀ s', EStateM.bind (symStep ev mf) _ s ≠ .error .fuel s')
    unfold EStateM.bind
    cases h1 : symStep ev mf s with
    | error e s1 =>
      rw [h1] at hs
      refine ⟨hs.1, ?_, ?_⟩
      · intro a s' e'; cases e'
      · intro _ s' e'; exact hs.2.2 s' (by simpa using e')
    | ok ev' s1 =>
      rw [h1] at hs
      have hprog := hs.2.1 ev' s1 rfl
      have hl1 : s1.dp.pos ≤ s1.dp.limit := hs.1.in_limit hl
      have ih := symLoop_spec fuel ev' mf s1 hl1
      refine ⟨hs.1.trans ih.1, ih.2.1, ?_⟩
      intro hf
      apply ih.2.2
      have hlim : s1.dp.limit = s.dp.limit := hs.1.limit
      omega

theorem fr_rcReadInitN : ∀ n s, Fr s (resSt (rcReadInitN n s))
  | 0, s => Fr.refl s
  | n + 1, s => by
    unfold rcReadInitN
    split
    · dsimp only
      split
      · exact Fr.refl s
      · refine Fr.trans ?_ (fr_rcReadInitN n _)
        constructor
        · rfl
        · simp
        · intro _; simp only []; omega
        · rfl
        · rfl
        · rfl
        · rfl
        · rfl
        · rfl
        · exact ⟨rfl, rfl, rfl⟩
    · exact Fr.refl s

/-- from a run under a clamped limit to the caller's view (limit restored) -/
theorem wr_unclamp (s0 s2 s3 s4 : St) (L : Nat) (hpos : s0.dp.pos ≤ L) (hL : L ≤ s0.dp.limit)
    (h2inp : s2.inp = s0.inp) (h2pos : s2.inPos = s0.inPos) (h2ob : s2.outBase = s0.outBase) (h2l2 : s2.l2 = s0.l2)
    (h2hist : s2.hist = s0.hist) (h2dp : s2.dp = { s0.dp with limit := L })
    (h : Wr s2 s3)
    (h4inp : s4.inp = s3.inp) (h4pos : s4.inPos = s3.inPos) (h4ob : s4.outBase = s3.outBase) (h4l2 : s4.l2 = s3.l2)
    (h4hist : s4.hist = s3.hist) (h4dp : s4.dp = { s3.dp with limit := s0.dp.limit }) : Wr s0 s4 := by
  have a1 := h.inp; have a2 := h.pos_mono; have a3 := h.pos_le; have a4 := h.outBase; have a5 := h.l2
  have a6 := h.limit; have a7 := h.size; have a8 := h.needReset; have a9 := h.dpos_mono; have a10 := h.hist_eq
  have a11 := h.in_limit
  rw [h2dp] at a6 a7 a8 a9 a10 a11
  simp only [] at a6 a7 a8 a9 a10 a11
  constructor
  · rw [h4inp, a1, h2inp]
  · rw [h4pos, ← h2pos]; exact a2
  · intro hh; rw [h4pos, h4inp]; exact a3 (by rw [h2pos, h2inp]; exact hh)
  · rw [h4ob, a4, h2ob]
  · rw [h4l2, a5, h2l2]
  · rw [h4dp]
  · rw [h4dp]; exact a7
  · rw [h4dp]; exact a8
  · rw [h4dp]; exact a9
  · rw [h4dp, h4hist]; simp only []; rw [h2hist] at a10; exact a10
  · intro _; rw [h4dp]; simp only []; have := a11 hpos; omega

theorem clampedLimit_bounds (s : St) (h : s.dp.pos ≤ s.dp.limit) :
    s.dp.pos ≤ clampedLimit s ∧ clampedLimit s ≤ s.dp.limit := by
  unfold clampedLimit
  split
  · split <;> omega
  · omega

/-- the main part of a call, seen under the clamped limit: relation and no `Exit.fuel`, never a normal return -/
theorem lzmaRun_spec (s : St) (h : s.dp.pos ≤ s.dp.limit) :
    Wr { s with dp := { s.dp with limit := clampedLimit s }, pending := .none } (resSt (lzmaRun s))
    ∧ (∀ a s', lzmaRun s ≠ .ok a s') ∧ (∀ s', lzmaRun s ≠ .error .fuel s') := by
  have hc := clampedLimit_bounds s h
  unfold lzmaRun
  simp only []
  generalize hs1 : ({ s with dp := { s.dp with limit := clampedLimit s }, pending := .none } : St) = s1
  have hs1pos : s1.dp.pos ≤ s1.dp.limit := by rw [← hs1]; exact hc.1
  have hw := doWrite_spec s.pending s1
  show Wr s1 (resSt (EStateM.bind (doWrite s.pending) _ s1)) ∧ (∀ a s', EStateM.bind (doWrite s.pending) _ s1 ≠ .ok a s')
    ∧ (∀ s', EStateM.bind (doWrite s.pending) _ s1 ≠ .error .fuel s')
  unfold EStateM.bind
  cases h1 : doWrite s.pending s1 with
  | error e s2 =>
    rw [h1] at hw
    refine ⟨hw.1, ?_, ?_⟩
    · intro a s' e'; cases e'
    · intro s' e'; exact hw.2.2 s' (by simpa using e')
  | ok u s2 =>
    rw [h1] at hw
    have hw1 : Wr s1 s2 := hw.1
    have hl2 : s2.dp.pos ≤ s2.dp.limit := hw1.in_limit hs1pos
    have e1 : s1.dp.limit = clampedLimit s := by rw [← hs1]
    have e2 : s1.dp.pos = s.dp.pos := by rw [← hs1]
    have hloop := symLoop_spec (clampedLimit s - s.dp.pos + 2) (s.uncomp.isNone || s.eopmValid) (mightFinish s) s2 hl2
    simp only []
    refine ⟨hw1.trans hloop.1, hloop.2.1, ?_⟩
    apply hloop.2.2
    have := hw1.limit; have := hw1.dpos_mono
    omega

theorem lzmaFinish_ret (r : EStateM.Result Exit St Unit) (cl st : Nat) (u : Option Nat)
    (hok : ∀ a s', r ≠ .ok a s') (hfuel : ∀ s', r ≠ .error .fuel s') : (lzmaFinish r cl st u).1 ≠ .progError := by
  unfold lzmaFinish
  simp only []
  have hr : exitRet r ≠ .progError := by
    cases r with
    | ok a s' => exact absurd rfl (hok a s')
    | error e s' =>
      cases e with
      | fuel => exact absurd rfl (hfuel s')
      | needInput => simp [exitRet]
      | dataError => simp [exitRet]
      | streamEnd => simp [exitRet]
      | outFull p => simp [exitRet]
  have : ∀ c : Bool, (if c = true then Ret.dataError else exitRet r) ≠ .progError := by
    intro c; cases c <;> simp [hr]
  exact this _

theorem lzmaFinish_state (r : EStateM.Result Exit St Unit) (cl st : Nat) (u : Option Nat) :
    (lzmaFinish r cl st u).2.inp = (resSt r).inp ∧ (lzmaFinish r cl st u).2.inPos = (resSt r).inPos
    ∧ (lzmaFinish r cl st u).2.outBase = (resSt r).outBase ∧ (lzmaFinish r cl st u).2.l2 = (resSt r).l2
    ∧ (lzmaFinish r cl st u).2.hist = (resSt r).hist
    ∧ (lzmaFinish r cl st u).2.dp = { (resSt r).dp with limit := cl } := by
  unfold lzmaFinish
  exact ⟨rfl, rfl, rfl, rfl, rfl, rfl⟩

/-- One call of `lzma_decode`: the input cursor only moves forward and stays inside the input; output bytes and dictionary
    position advance together and stay within the caller's limit, which is restored; `need_reset` and the LZMA2 layer are
    untouched; the return code is never LZMA_PROG_ERROR (the loop fuel suffices). -/
theorem lzmaCall_spec (s : St) (h : s.dp.pos ≤ s.dp.limit) :
    Wr s (lzmaCall s).2 ∧ (lzmaCall s).1 ≠ .progError := by
  unfold lzmaCall
  split
  · exact ⟨Wr.refl s, by simp⟩
  · have hfr := fr_rcReadInitN s.initLeft s
    unfold rcReadInit
    cases hri : rcReadInitN s.initLeft s with
    | error e s0 =>
      rw [hri] at hfr
      simp only []
      exact ⟨hfr.toWr, by simp⟩
    | ok b s0 =>
      rw [hri] at hfr
      have hfr0 : Fr s s0 := hfr
      cases b with
      | false =>
        simp only []
        refine ⟨hfr0.toWr.trans ?_, by simp⟩
        exact ⟨rfl, Nat.le_refl _, id, rfl, rfl, rfl, rfl, rfl, Nat.le_refl _, rfl, id⟩
      | true =>
        simp only []
        have h0 : s0.dp.pos ≤ s0.dp.limit := by rw [hfr0.dp]; exact h
        have hrun := lzmaRun_spec s0 h0
        have hc := clampedLimit_bounds s0 h0
        have hst := lzmaFinish_state (lzmaRun s0) s0.dp.limit s0.hist.size s0.uncomp
        refine ⟨hfr0.toWr.trans ?_, lzmaFinish_ret _ _ _ _ hrun.2.1 hrun.2.2⟩
        exact wr_unclamp s0 { s0 with dp := { s0.dp with limit := clampedLimit s0 }, pending := .none }
          (resSt (lzmaRun s0)) _ (clampedLimit s0) hc.1 hc.2 rfl rfl rfl rfl rfl rfl hrun.1
          hst.1 hst.2.1 hst.2.2.1 hst.2.2.2.1 hst.2.2.2.2.1 hst.2.2.2.2.2

end XzVerif.Lzma
