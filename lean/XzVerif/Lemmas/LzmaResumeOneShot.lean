/-
  The resumable LZMA1/LZMA2 decoder model (`Model/LzmaResume.lean`) given the COMPLETE input in its first call is the one-shot
  model (`Model/Lzma.lean`, `Model/Lzma2.lean`): same return code, same output, same number of consumed input bytes
  (`callR_eq_oneshot_lzma2_nowrap`, `callR_eq_oneshot_lzma1_nowrap`; corollaries for the public `lzma2Decode` / `lzmaDecode`).

  RESTRICTION (no dictionary wrap): `min preset.length (roundDictSize dictSize) + outCap < roundDictSize dictSize` — the preset
  dictionary plus the whole output allowance do not fill the window. Then `decode_buffer` never repeats its loop after a call
  of the inner coder that ran out of input (it repeats only after a dictionary reset request, which comes from a fresh state), so
  the two models are only ever compared from states where the one-shot decoder is not yet `Pending.stuck`. Without the
  restriction the models can differ as MODELS: after a wrap the resumable model re-decodes the interrupted symbol with the new
  dictionary position, the one-shot model stays stuck.

  Proof: simulation `Fresh` (same `St`, no saved resume point, not stuck) / `EqP` (same `St` up to `pending`):
  `lzmaCall_sim` (one `lzma_decode` call), `lzma2Loop_sim` (`lzma2_decode`), `dB_sim` (`decode_buffer` under `NW`), `top_sim`.
  Core Lean only.
-/
import XzVerif.Lemmas.LzmaResumeCall
import XzVerif.Lemmas.LzmaCausalLz

namespace XzVerif.LzmaR.OneShot
open XzVerif.RangeDec XzVerif.LzDict XzVerif.Lzma XzVerif.Lzma2

/-- the two states agree in every member except possibly `pending` -/
def EqP (a b : St) : Prop := a = { b with pending := a.pending }

theorem EqP.refl (a : St) : EqP a a := rfl

/-- the resumable state is the one-shot state, no resume point is saved, and the one-shot decoder is not stuck -/
def Fresh (r : RSt) (s : St) : Prop := r.s = s ∧ r.sym0 = none ∧ s.pending ≠ .stuck

/-! ### the saved resume point exists only after "input ran out" -/

theorem symBodyR_snd (ev : Bool) (t0 : St) :
    (symBodyR ev t0).2 = none ∨ ∃ t, (symBodyR ev t0).1 = .error .needInput t := by
  unfold symBodyR
  cases h1 : rcNormalize t0 with
  | error e t => left; rfl
  | ok u t =>
    simp only []
    cases h2 : decodeSymbol ev t0 with
    | error e t2 =>
      cases e
      · right; exact ⟨_, rfl⟩
      all_goals (left; rfl)
    | ok act t2 =>
      simp only []
      cases doWrite act t2 <;> (left; rfl)

theorem symStepR_snd (ev mf : Bool) (s : St) :
    (symStepR ev mf s).2 = none ∨ ∃ t, (symStepR ev mf s).1 = .error .needInput t := by
  unfold symStepR
  cases symPrelude ev mf s with
  | error e t => left; rfl
  | ok ev' t => exact symBodyR_snd ev' t

theorem symLoopR_snd : ∀ (fuel : Nat) (ev mf : Bool) (s : St),
    (symLoopR fuel ev mf s).2 = none ∨ ∃ t, (symLoopR fuel ev mf s).1 = .error .needInput t
  | 0, _, _, _ => Or.inl rfl
  | fuel + 1, ev, mf, s => by
    unfold symLoopR
    have h := symStepR_snd ev mf s
    rcases hR : symStepR ev mf s with ⟨r, k⟩
    rw [hR] at h
    cases r with
    | ok ev' t => exact symLoopR_snd fuel ev' mf t
    | error e t => simpa using h

theorem lzmaRunR_none_snd (s : St) :
    (lzmaRunR s none).2 = none ∨ ∃ t, (lzmaRunR s none).1 = .error .needInput t := by
  unfold lzmaRunR
  simp only []
  cases doWrite s.pending { s with dp := { s.dp with limit := clampedLimit s }, pending := .none } with
  | error e t => left; rfl
  | ok u t => exact symLoopR_snd _ _ _ t

/-! ### `lzmaFinish` -/

theorem lzmaFinish_end (x : EStateM.Result Exit St Unit) (L st : Nat) (u : Option Nat)
    (h : (lzmaFinish x L st u).1 = .streamEnd) : (lzmaFinish x L st u).2.pending = .none := by
  have key : ∀ (ret : Ret) (p : Pending), ret = .streamEnd →
      (if (ret == .streamEnd) = true then Pending.none else p) = .none := by
    intro ret p h; subst h; rfl
  unfold lzmaFinish at h ⊢
  exact key _ _ h

/-! ### layer 1: one `lzma_decode` call from a fresh state -/

theorem unstick_of_ne (s : St) (h : s.pending ≠ .stuck) : unstick s = s := by
  unfold unstick
  rw [if_neg (by simpa using h)]

theorem eqP_unstick (s : St) : EqP (unstick s) s := unstick_eq s

theorem lzmaCall_sim (r : RSt) (s : St) (h : Fresh r s) :
    (lzmaCallR r).1 = (lzmaCall s).1 ∧ EqP (lzmaCallR r).2.s (lzmaCall s).2
    ∧ ((lzmaCall s).2.pending ≠ .stuck → (lzmaCallR r).2.s = (lzmaCall s).2 ∧ (lzmaCallR r).2.sym0 = none)
    ∧ ((lzmaCall s).1 = .streamEnd → (lzmaCall s).2.pending ≠ .stuck) := by
  obtain ⟨rs, k, ov⟩ := r
  obtain ⟨h1, h2, h3⟩ := h
  simp only [] at h1 h2
  subst h1; subst h2
  unfold lzmaCallR lzmaCall
  rw [if_neg (by simpa using h3)]
  simp only []
  cases hri : rcReadInit rs with
  | error e s0 =>
    exact ⟨rfl, rfl, fun _ => ⟨rfl, rfl⟩, fun h => by cases h⟩
  | ok b s0 =>
    cases b with
    | false =>
      exact ⟨rfl, rfl, fun h => absurd rfl h, fun h => by cases h⟩
    | true =>
      simp only []
      have hsnd := lzmaRunR_none_snd s0
      rw [lzmaRunR_none_fst] at hsnd ⊢
      have hend := lzmaFinish_end (lzmaRun s0) s0.dp.limit s0.hist.size s0.uncomp
      refine ⟨rfl, eqP_unstick _, ?_, ?_⟩
      · intro hns
        refine ⟨unstick_of_ne _ hns, ?_⟩
        rcases hsnd with h | ⟨t, ht⟩
        · exact h
        · rw [ht] at hns
          exact absurd (Lzma.lzmaFinish_needInput t _ _ _).2.1 hns
      · intro he
        rw [hend he]
        simp

/-! ### layer 2: `lzma2_decode`

  The loop of `lzma2LoopR` as the iteration of a step (the same decomposition as in Lemmas/LzmaResumeL2.lean, repeated here under
  other names so that this file can be imported together with either Lemmas/LzmaResumeL2.lean or Lemmas/LzmaResumeLz.lean). -/

inductive StepS where
  | done (x : Ret × RSt)
  | next (r : RSt)

def liftS (r : RSt) : Step → StepS
  | .done x => .done (x.1, { r with s := x.2 })
  | .next s => .next { r with s := s }

def l2LzmaS (inStart : Nat) (x : Ret × RSt) : StepS :=
  if x.2.s.inPos - inStart > x.2.s.l2.compressedSize then .done (.dataError, { x.2 with overrun := true })
  else
    let r := x.2.map fun s => setL2 s fun l => { l with compressedSize := l.compressedSize - (x.2.s.inPos - inStart) }
    if x.1 != .streamEnd then .done (x.1, r)
    else if r.s.l2.compressedSize != 0 then .done (.dataError, r)
    else .next (r.map fun s => setL2 s fun l => { l with seq := .control })

def l2StepS (r : RSt) : StepS :=
  if !(r.s.inPos < r.s.inp.size || r.s.l2.seq == .lzma) then .done (.ok, r)
  else
    match r.s.l2.seq with
    | .lzma => l2LzmaS r.s.inPos (lzmaCallR r)
    | .copy => liftS r (l2Copy r.s)
    | q => liftS r (l2Byte q r.s (curByte r.s))

def runStepS (k : RSt → Ret × RSt) : StepS → Ret × RSt
  | .done x => x
  | .next r => k r

theorem runStepS_ite (k : RSt → Ret × RSt) (c : Prop) [Decidable c] (a b : StepS) :
    runStepS k (if c then a else b) = if c then runStepS k a else runStepS k b := by
  split <;> rfl

theorem liftS_ite (r : RSt) (c : Prop) [Decidable c] (a b : Step) :
    liftS r (if c then a else b) = if c then liftS r a else liftS r b := by
  split <;> rfl

theorem lzma2LoopR_succS (f : Nat) (r : RSt) : lzma2LoopR (f + 1) r = runStepS (lzma2LoopR f) (l2StepS r) := by
  rw [lzma2LoopR]
  unfold l2StepS
  by_cases hg : (!(r.s.inPos < r.s.inp.size || r.s.l2.seq == .lzma)) = true
  · simp only []
    rw [if_pos hg, if_pos hg]; rfl
  · simp only []
    rw [if_neg hg, if_neg hg]
    simp only [curByte]
    generalize (if hlt : r.s.inPos < r.s.inp.size then r.s.inp[r.s.inPos] else 0).toNat = byte
    cases hq : r.s.l2.seq with
    | control =>
      simp only [l2Byte, l2Control, liftS_ite, runStepS_ite]
      rfl
    | uncompressed1 => rfl
    | uncompressed2 => rfl
    | compressed0 => rfl
    | compressed1 => rfl
    | properties =>
      simp only [l2Byte]
      cases propsDecode byte <;> rfl
    | lzma =>
      simp only [l2LzmaS, runStepS_ite]
      rfl
    | copy =>
      simp only [l2Copy, liftS_ite, runStepS_ite]
      rfl

theorem l2StepS_lzma (r : RSt) (hq : r.s.l2.seq = .lzma) : l2StepS r = l2LzmaS r.s.inPos (lzmaCallR r) := by
  unfold l2StepS; simp [hq]

theorem controlApply_dp (s : St) (a : ControlAction) : (controlApply s a).dp = s.dp := by
  unfold controlApply
  simp only []
  split
  · split <;> rfl
  · rfl

/-- result of a `code` call from related fresh states (`s` = the one-shot state before the call) -/
def SimOut (s : St) (x : Ret × RSt) (y : Ret × St) : Prop :=
  x.1 = y.1 ∧ EqP x.2.s y.2 ∧ ((y.2.pending = .stuck ∧ y.2.dp.needReset = s.dp.needReset) ∨ Fresh x.2 y.2)

structure After (s : St) (x : RSt) (y : St) : Prop where
  eqp : EqP x.s y
  fr : y.pending ≠ .stuck → x.s = y ∧ x.sym0 = none
  nr : y.dp.needReset = s.dp.needReset

theorem EqP.setL2 {a b : St} (h : EqP a b) (g : L2 → L2) : EqP (setL2 a g) (setL2 b g) :=
  congrArg (fun t => Lzma2.setL2 t g) h

theorem After.setL2 {s : St} {x : RSt} {y : St} (h : After s x y) (g : L2 → L2) :
    After s (x.map fun t => Lzma2.setL2 t g) (Lzma2.setL2 y g) :=
  ⟨h.eqp.setL2 g, fun hp => ⟨congrArg (fun t => Lzma2.setL2 t g) (h.fr hp).1, (h.fr hp).2⟩, h.nr⟩

theorem After.overrun {s : St} {x : RSt} {y : St} (h : After s x y) : After s { x with overrun := true } y :=
  ⟨h.eqp, h.fr, h.nr⟩

theorem After.out {s : St} {x : RSt} {y : St} (h : After s x y) (ret : Ret) : SimOut s (ret, x) (ret, y) := by
  refine ⟨rfl, h.eqp, ?_⟩
  by_cases hp : y.pending = .stuck
  · exact Or.inl ⟨hp, h.nr⟩
  · exact Or.inr ⟨(h.fr hp).1, (h.fr hp).2, hp⟩

theorem After.fresh {s : St} {x : RSt} {y : St} (h : After s x y) (hp : y.pending ≠ .stuck) : Fresh x y :=
  ⟨(h.fr hp).1, (h.fr hp).2, hp⟩

theorem l2Lzma_sim (s : St) (i : Nat) (x : Ret × RSt) (y : Ret × St) (hret : x.1 = y.1) (ha : After s x.2 y.2)
    (hend : y.1 = .streamEnd → y.2.pending ≠ .stuck) :
    match l2LzmaS i x, l2Lzma i y with
    | StepS.done X, Step.done Y => SimOut s X Y
    | StepS.next r1, Step.next s1 => Fresh r1 s1 ∧ s1.dp = y.2.dp
    | _, _ => False := by
  obtain ⟨ret, X⟩ := x
  obtain ⟨ret', Y⟩ := y
  simp only [] at hret
  subst hret
  obtain ⟨xs, k, ov⟩ := X
  have heq : xs = { Y with pending := xs.pending } := ha.eqp
  generalize xs.pending = p at heq
  subst heq
  unfold l2LzmaS l2Lzma
  simp only []
  by_cases c1 : Y.inPos - i > Y.l2.compressedSize
  · rw [if_pos c1, if_pos c1]
    exact ha.overrun.out _
  · rw [if_neg c1, if_neg c1]
    by_cases c2 : (ret != .streamEnd) = true
    · rw [if_pos c2, if_pos c2]
      exact (ha.setL2 _).out _
    · rw [if_neg c2, if_neg c2]
      have hre : ret = .streamEnd := by simpa using c2
      by_cases c3 : (Y.l2.compressedSize - (Y.inPos - i) != 0) = true
      · rw [if_pos (by exact c3), if_pos (by exact c3)]
        exact (ha.setL2 _).out _
      · rw [if_neg (by exact c3), if_neg (by exact c3)]
        exact ⟨((ha.setL2 _).setL2 _).fresh (hend hre), rfl⟩

/-- what a step of `lzma2_decode` outside SEQ_LZMA keeps -/
def Keep (s s1 : St) : Prop :=
  (s.pending ≠ .stuck → s1.pending ≠ .stuck) ∧ s1.dp.needReset = s.dp.needReset
  ∧ (s.dp.pos ≤ s.dp.limit → s1.dp.pos ≤ s1.dp.limit)

def StepKeep (s : St) : Step → Prop
  | .done x => s.pending ≠ .stuck → x.2.pending ≠ .stuck
  | .next s1 => Keep s s1

theorem controlApply_pending (s : St) (a : ControlAction) :
    (controlApply s a).pending = s.pending ∨ (controlApply s a).pending = .none := by
  unfold controlApply
  simp only []
  split
  · split
    · right; rfl
    · left; rfl
  · left; rfl

theorem l2Byte_keep (q : L2Seq) (s : St) (byte : Nat) : StepKeep s (l2Byte q s byte) := by
  cases q with
  | control =>
    simp only [l2Byte, l2Control]
    split
    · exact id
    · split
      · exact id
      · generalize controlStep byte s.l2.needProperties s.l2.needDictionaryReset = a
        have hp := controlApply_pending { s with inPos := s.inPos + 1 } a
        have hp' : s.pending ≠ .stuck → (controlApply { s with inPos := s.inPos + 1 } a).pending ≠ .stuck := by
          intro hs
          rcases hp with h | h
          · rw [h]; exact hs
          · rw [h]; simp
        have hdp : (controlApply { s with inPos := s.inPos + 1 } a).dp = s.dp := controlApply_dp _ a
        split
        · exact hp'
        · exact ⟨hp', by rw [hdp], by rw [hdp]; exact id⟩
  | uncompressed1 => exact ⟨id, rfl, id⟩
  | uncompressed2 => exact ⟨id, rfl, id⟩
  | compressed0 => exact ⟨id, rfl, id⟩
  | compressed1 => exact ⟨id, rfl, id⟩
  | properties =>
    simp only [l2Byte]
    cases propsDecode byte with
    | none => exact id
    | some p => exact ⟨fun _ => by simp [St.resetLzma], rfl, id⟩
  | lzma => exact ⟨id, rfl, id⟩
  | copy => exact ⟨id, rfl, id⟩

theorem l2Copy_keep (s : St) : StepKeep s (l2Copy s) := by
  unfold l2Copy
  simp only []
  split
  · exact id
  · refine ⟨id, rfl, ?_⟩
    intro h
    show (dictWrite s s.l2.compressedSize).2.dp.pos ≤ (dictWrite s s.l2.compressedSize).2.dp.limit
    unfold dictWrite DictPos.advance DictPos.avail
    simp only []
    have h2 : min (min (s.inp.size - s.inPos) s.l2.compressedSize) (s.dp.limit - s.dp.pos) ≤ s.dp.limit - s.dp.pos :=
      Nat.min_le_right _ _
    omega

theorem l2Step_keep (s : St) (hq : s.l2.seq ≠ .lzma) : StepKeep s (l2Step s) := by
  unfold l2Step
  split
  · exact id
  · cases h : s.l2.seq with
    | lzma => exact absurd h hq
    | copy => exact l2Copy_keep s
    | _ => exact l2Byte_keep _ s _

theorem l2StepS_lift (r : RSt) (hq : r.s.l2.seq ≠ .lzma) : l2StepS r = liftS r (l2Step r.s) := by
  unfold l2StepS l2Step
  by_cases hg : (!(r.s.inPos < r.s.inp.size || r.s.l2.seq == .lzma)) = true
  · rw [if_pos hg, if_pos hg]; rfl
  · rw [if_neg hg, if_neg hg]
    cases h : r.s.l2.seq with
    | lzma => exact absurd h hq
    | _ => rfl

theorem l2Step_lzma (s : St) (hq : s.l2.seq = .lzma) : l2Step s = l2Lzma s.inPos (lzmaCall s) := by
  unfold l2Step; simp [hq]

theorem SimOut.mono {s s1 : St} {X : Ret × RSt} {Y : Ret × St} (h : SimOut s1 X Y)
    (hnr : s1.dp.needReset = s.dp.needReset) : SimOut s X Y :=
  ⟨h.1, h.2.1, h.2.2.imp (fun a => ⟨a.1, a.2.trans hnr⟩) id⟩

theorem lzma2Loop_sim : ∀ (fuel : Nat) (r : RSt) (s : St), Fresh r s → s.dp.pos ≤ s.dp.limit →
    SimOut s (lzma2LoopR fuel r) (lzma2Loop fuel s)
  | 0, r, s, h, _ => ⟨rfl, by show EqP r.s s; rw [h.1]; exact EqP.refl _, Or.inr h⟩
  | f + 1, r, s, h, hl => by
    rw [lzma2LoopR_succS, lzma2Loop_succ]
    by_cases hq : s.l2.seq = .lzma
    · have hqr : r.s.l2.seq = .lzma := by rw [h.1]; exact hq
      rw [l2StepS_lzma r hqr, l2Step_lzma s hq]
      have hc := lzmaCall_sim r s h
      have hw := (lzmaCall_spec s hl).1
      have hi : r.s.inPos = s.inPos := by rw [h.1]
      rw [hi]
      have ha : After s (lzmaCallR r).2 (lzmaCall s).2 := ⟨hc.2.1, hc.2.2.1, hw.needReset⟩
      have hm := l2Lzma_sim s s.inPos (lzmaCallR r) (lzmaCall s) hc.1 ha hc.2.2.2
      have hlim' := hw.in_limit hl
      have hnr := hw.needReset
      generalize lzmaCall s = y at hm hlim' hnr
      generalize lzmaCallR r = x at hm
      cases hx : l2LzmaS s.inPos x <;> cases hy : l2Lzma s.inPos y <;> rw [hx, hy] at hm
      · exact hm
      · exact hm.elim
      · exact hm.elim
      · obtain ⟨hf, hdp⟩ := hm
        exact (lzma2Loop_sim f _ _ hf (by rw [hdp]; exact hlim')).mono (by rw [hdp]; exact hnr)
    · have hqr : r.s.l2.seq ≠ .lzma := by rw [h.1]; exact hq
      rw [l2StepS_lift r hqr, h.1]
      have hk := l2Step_keep s hq
      cases hst : l2Step s with
      | done x => rw [hst] at hk; exact ⟨rfl, EqP.refl _, Or.inr ⟨rfl, h.2.1, hk h.2.2⟩⟩
      | next s1 =>
        rw [hst] at hk
        exact (lzma2Loop_sim f { r with s := s1 } s1 ⟨rfl, h.2.1, hk.1 h.2.2⟩ (hk.2.2 hl)).mono hk.2.1

theorem lzma2Call_sim (r : RSt) (s : St) (h : Fresh r s) (hl : s.dp.pos ≤ s.dp.limit) :
    SimOut s (lzma2CallR r) (lzma2Call s) := by
  unfold lzma2CallR lzma2Call
  rw [h.1]
  exact lzma2Loop_sim _ r s h hl

theorem lzmaCall_simOut (r : RSt) (s : St) (h : Fresh r s) (hl : s.dp.pos ≤ s.dp.limit) :
    SimOut s (lzmaCallR r) (lzmaCall s) := by
  have hc := lzmaCall_sim r s h
  have hw := (lzmaCall_spec s hl).1
  have ha : After s (lzmaCallR r).2 (lzmaCall s).2 := ⟨hc.2.1, hc.2.2.1, hw.needReset⟩
  have := ha.out (lzmaCall s).1
  exact ⟨hc.1, this.2.1, this.2.2⟩

/-! ### layer 3: `decode_buffer` while the dictionary window does not fill -/

/-- the one-shot state between `code` calls; `N` = total output allowance: the window is not filled by `N` bytes -/
structure NW (N : Nat) (s : St) : Prop where
  inPos : s.inPos ≤ s.inp.size
  base : s.outBase ≤ s.hist.size
  prod : s.produced ≤ N
  noReset : s.dp.needReset = false
  pos_ge : LZ_DICT_INIT_POS ≤ s.dp.pos
  noWrap : s.dp.pos + (N - s.produced) < s.dp.size

theorem dbPrep_noWrap (N : Nat) (s : St) (h : s.dp.pos + (N - s.produced) < s.dp.size) :
    dbPrep N s = { s with dp := { s.dp with limit := s.dp.pos + (N - s.produced) } } := by
  have hne : (s.dp.pos == s.dp.size) = false := by
    simp only [beq_eq_false_iff_ne, ne_eq]; omega
  have hmin : min (N - s.produced) (s.dp.size - s.dp.pos) = N - s.produced := Nat.min_eq_left (by omega)
  unfold dbPrep DictPos.wrap DictPos.setLimit
  simp only [hne, Bool.false_eq_true, if_false]
  rw [hmin]

/-- the part of one iteration of `decodeBufferR` after `code` (as `tailR` of Lemmas/LzmaResumeLz.lean, not imported here) -/
def tailS (code : RSt → Ret × RSt) (f N : Nat) (c : Ret × RSt) : Ret × RSt :=
  if c.2.s.dp.needReset then
    if c.1 != .ok || (c.2.map fun s => { s with dp := s.dp.reset }).s.produced == N then
      (c.1, c.2.map fun s => { s with dp := s.dp.reset })
    else decodeBufferR code f N (c.2.map fun s => { s with dp := s.dp.reset })
  else
    if c.1 != .ok || c.2.s.produced == N || decide (c.2.s.dp.pos < c.2.s.dp.size) then (c.1, c.2)
    else decodeBufferR code f N c.2

theorem dB_succS (code : RSt → Ret × RSt) (f N : Nat) (r : RSt) :
    decodeBufferR code (f + 1) N r = tailS code f N (code (r.map fun s => dbPrep N s)) := rfl

theorem dB_sim {codeR : RSt → Ret × RSt} {code : St → Ret × St}
    (hs : ∀ r s, Fresh r s → s.dp.pos ≤ s.dp.limit → SimOut s (codeR r) (code s))
    (hcr : ∀ s, s.inPos ≤ s.inp.size → s.dp.pos ≤ s.dp.limit → Cr s (code s).2) (N : Nat) :
    ∀ (fuel : Nat) (r : RSt) (s : St), Fresh r s → NW N s →
      (decodeBufferR codeR fuel N r).1 = (decodeBuffer code fuel N s).1
      ∧ EqP (decodeBufferR codeR fuel N r).2.s (decodeBuffer code fuel N s).2
  | 0, r, s, h, _ => ⟨rfl, by show EqP r.s s; rw [h.1]; exact EqP.refl _⟩
  | f + 1, r, s, h, hn => by
    rw [dB_succS, decodeBuffer_succ]
    have hfr1 : Fresh (r.map fun s => dbPrep N s) (dbPrep N s) := by
      refine ⟨?_, h.2.1, h.2.2⟩
      show dbPrep N r.s = dbPrep N s
      rw [h.1]
    have hprep := dbPrep_noWrap N s hn.noWrap
    generalize hs1 : dbPrep N s = s1 at hfr1 hprep
    generalize (r.map fun s => dbPrep N s) = r1 at hfr1
    have a1 : s1.inp = s.inp := by rw [hprep]
    have a2 : s1.inPos = s.inPos := by rw [hprep]
    have a3 : s1.hist = s.hist := by rw [hprep]
    have a4 : s1.outBase = s.outBase := by rw [hprep]
    have a5 : s1.dp.pos = s.dp.pos := by rw [hprep]
    have a6 : s1.dp.limit = s.dp.pos + (N - s.produced) := by rw [hprep]
    have a7 : s1.dp.size = s.dp.size := by rw [hprep]
    have a8 : s1.dp.needReset = false := by rw [hprep]; exact hn.noReset
    have hin1 : s1.inPos ≤ s1.inp.size := by rw [a1, a2]; exact hn.inPos
    have hl1 : s1.dp.pos ≤ s1.dp.limit := by rw [a5, a6]; omega
    have hso := hs r1 s1 hfr1 hl1
    have hc := hcr s1 hin1 hl1
    generalize code s1 = y at hso hc
    generalize codeR r1 = x at hso
    obtain ⟨ret, s2⟩ := y
    obtain ⟨ret', X⟩ := x
    obtain ⟨hret, heq, hdis⟩ := hso
    simp only [] at hret heq hdis hc
    subst hret
    have c1 := hc.inp; have c2 := hc.pos_le hin1; have c3 := hc.outBase; have c4 := hc.limit
    have c5 := hc.size; have c6 := hc.dpos_mono; have c7 := hc.hist_eq; have c8 := hc.in_limit hl1
    rw [a3, a5] at c7
    rw [a4] at c3
    rw [a5] at c6
    rw [a6] at c4
    rw [a7] at c5
    have b1 := hn.base; have b2 := hn.prod; have b3 := hn.pos_ge; have b4 := hn.noWrap
    have e1 : s.produced = s.hist.size - s.outBase := rfl
    have e2 : s2.produced = s2.hist.size - s2.outBase := rfl
    simp only [LZ_DICT_INIT_POS] at b3
    obtain ⟨xs, k, ov⟩ := X
    by_cases hr : s2.dp.needReset = true
    · -- the coder asked for a dictionary reset: it is not stuck
      have hfr2 : Fresh ⟨xs, k, ov⟩ s2 := by
        rcases hdis with ⟨_, h2⟩ | h2
        · rw [a8, hr] at h2; cases h2
        · exact h2
      obtain ⟨q1, q2, q3⟩ := hfr2
      simp only [] at q1 q2
      subst q1; subst q2
      unfold tailS dbPost
      simp only [hr, if_true]
      by_cases cnd : (ret' != .ok || ({ xs with dp := xs.dp.reset } : St).produced == N) = true
      · rw [if_pos (by exact cnd), if_pos (by exact cnd)]
        exact ⟨rfl, EqP.refl _⟩
      · rw [if_neg (by exact cnd), if_neg (by exact cnd)]
        refine dB_sim hs hcr N f _ _ ⟨rfl, rfl, q3⟩ ⟨c2, ?_, ?_, rfl, Nat.le_refl _, ?_⟩
        · show xs.outBase ≤ xs.hist.size; omega
        · show xs.hist.size - xs.outBase ≤ N; omega
        · show LZ_DICT_INIT_POS + (N - (xs.hist.size - xs.outBase)) < xs.dp.size
          simp only [LZ_DICT_INIT_POS]; omega
    · have hr' : s2.dp.needReset = false := by
        cases hh : s2.dp.needReset
        · rfl
        · exact absurd hh hr
      have heq' : xs = { s2 with pending := xs.pending } := heq
      generalize xs.pending = p at heq'
      subst heq'
      have hlt : s2.dp.pos < s2.dp.size := by omega
      unfold tailS dbPost
      simp only [hr']
      have cnd : (ret' != .ok || s2.produced == N || decide (s2.dp.pos < s2.dp.size)) = true := by simp [hlt]
      simp only [Bool.false_eq_true, if_false]
      rw [if_pos (by exact cnd), if_pos (by exact cnd)]
      exact ⟨rfl, rfl⟩

/-! ### top level -/

theorem nw_init (s : St) (dictSize presetLen N : Nat) (hdp : s.dp = DictPos.init dictSize presetLen) (hin : s.inPos = 0)
    (hbase : s.outBase = s.hist.size) (hM : min presetLen (roundDictSize dictSize) + N < roundDictSize dictSize) :
    NW N s := by
  have hp : s.produced = 0 := by
    show s.hist.size - s.outBase = 0
    omega
  refine ⟨by rw [hin]; exact Nat.zero_le _, by omega, by omega, by rw [hdp]; rfl, ?_, ?_⟩
  · rw [hdp]; unfold DictPos.init; simp only [LZ_DICT_INIT_POS]; omega
  · rw [hp, hdp]; unfold DictPos.init allocSize
    simp only [LZ_DICT_INIT_POS, LZ_DICT_REPEAT_MAX]
    omega

theorem top_sim {codeR : RSt → Ret × RSt} {code : St → Ret × St}
    (hs : ∀ r s, Fresh r s → s.dp.pos ≤ s.dp.limit → SimOut s (codeR r) (code s))
    (hcr : ∀ s, s.inPos ≤ s.inp.size → s.dp.pos ≤ s.dp.limit → Cr s (code s).2)
    (s0 : St) (outCap : Nat) (hns : s0.pending ≠ .stuck) (hnw : NW outCap s0) (hp : s0.produced = 0) :
    (decodeBufferR codeR (decodeBufferFuel s0 outCap) outCap { s := s0 }).1
        = (decodeBuffer code (decodeBufferFuel s0 (s0.produced + outCap)) (s0.produced + outCap) s0).1
    ∧ histFrom (decodeBufferR codeR (decodeBufferFuel s0 outCap) outCap { s := s0 }).2.s.hist
          (decodeBufferR codeR (decodeBufferFuel s0 outCap) outCap { s := s0 }).2.s.outBase
        = histFrom (decodeBuffer code (decodeBufferFuel s0 (s0.produced + outCap)) (s0.produced + outCap) s0).2.hist
          (decodeBuffer code (decodeBufferFuel s0 (s0.produced + outCap)) (s0.produced + outCap) s0).2.outBase
    ∧ (decodeBufferR codeR (decodeBufferFuel s0 outCap) outCap { s := s0 }).2.s.inPos
        = (decodeBuffer code (decodeBufferFuel s0 (s0.produced + outCap)) (s0.produced + outCap) s0).2.inPos := by
  rw [hp, Nat.zero_add]
  have h := dB_sim hs hcr outCap (decodeBufferFuel s0 outCap) { s := s0 } s0 ⟨rfl, rfl, hns⟩ hnw
  refine ⟨h.1, ?_, ?_⟩
  · rw [h.2]
  · rw [h.2]

theorem initLzma2_produced (dictSize : Nat) (preset : List UInt8) (b : ByteArray) :
    (Lzma2.initLzma2 dictSize preset b).produced = 0 := by
  show (ByteArray.mk (presetTail dictSize preset).toArray).size - (presetTail dictSize preset).length = 0
  rw [byteArray_mk_size]; omega

theorem initLzma1_produced (props : Props) (dictSize : Nat) (u : Option Nat) (a : Bool) (preset : List UInt8) (b : ByteArray) :
    (St.initLzma1 props dictSize u a preset b).produced = 0 := by
  show (ByteArray.mk (presetTail dictSize preset).toArray).size - (presetTail dictSize preset).length = 0
  rw [byteArray_mk_size]; omega

end XzVerif.LzmaR.OneShot

namespace XzVerif.LzmaR
open XzVerif.RangeDec XzVerif.LzDict XzVerif.Lzma XzVerif.Lzma2 XzVerif.LzmaR.OneShot

/-- **LZMA2: the resumable model given the complete input in one call is the one-shot model** (return code, output, consumed
    input), provided the preset dictionary plus the output allowance do not fill the dictionary window. -/
theorem callR_eq_oneshot_lzma2_nowrap (dictSize : Nat) (preset input : List UInt8) (outCap : Nat)
    (hnw : min preset.length (roundDictSize dictSize) + outCap < roundDictSize dictSize) :
    let x := callR .lzma2 (toBuf input) outCap (initLzma2R dictSize preset)
    let y := (Coder.initLzma2 dictSize preset (toBuf input)).code outCap
    x.1 = y.1 ∧ x.2.output = y.2.output ∧ x.2.s.inPos = y.2.consumed := by
  intro x y
  have ey : y = _ := Coder.code_lzma2 (Lzma2.initLzma2 dictSize preset (toBuf input)) outCap
  have h := top_sim lzma2Call_sim (fun s hi hl => lzma2Call_spec s hi hl)
    (Lzma2.initLzma2 dictSize preset (toBuf input)) outCap (by simp [Lzma2.initLzma2])
    (nw_init _ dictSize preset.length outCap rfl rfl (by
      show (presetTail dictSize preset).length = (ByteArray.mk (presetTail dictSize preset).toArray).size
      rw [byteArray_mk_size]) hnw)
    (initLzma2_produced _ _ _)
  rw [ey]
  exact h

/-- **LZMA1**, same statement. -/
theorem callR_eq_oneshot_lzma1_nowrap (props : Props) (dictSize : Nat) (uncomp : Option Nat) (allowEopm : Bool)
    (preset input : List UInt8) (outCap : Nat)
    (hnw : min preset.length (roundDictSize dictSize) + outCap < roundDictSize dictSize) :
    let x := callR .lzma1 (toBuf input) outCap (initLzma1R props dictSize uncomp allowEopm preset)
    let y := (Coder.initLzma1 props dictSize uncomp allowEopm preset (toBuf input)).code outCap
    x.1 = y.1 ∧ x.2.output = y.2.output ∧ x.2.s.inPos = y.2.consumed := by
  intro x y
  have ey : y = _ :=
    Coder.code_lzma1 (St.initLzma1 props dictSize uncomp (allowEopm || uncomp.isNone) preset (toBuf input)) outCap
  have h := top_sim lzmaCall_simOut (fun s _ hl => (lzmaCall_spec s hl).1.toCr)
    (St.initLzma1 props dictSize uncomp (allowEopm || uncomp.isNone) preset (toBuf input)) outCap
    (by simp [St.initLzma1, St.resetLzma])
    (nw_init _ dictSize preset.length outCap rfl rfl (by
      show (presetTail dictSize preset).length = (ByteArray.mk (presetTail dictSize preset).toArray).size
      rw [byteArray_mk_size]) hnw)
    (initLzma1_produced _ _ _ _ _ _)
  rw [ey]
  exact h

/-- `lzma2Decode` (the public one-shot API) computed by the resumable model -/
theorem lzma2Decode_eq_callR_nowrap (dictSize : Nat) (preset input : List UInt8) (outCap : Nat)
    (hnw : min preset.length (roundDictSize dictSize) + outCap < roundDictSize dictSize) :
    lzma2Decode dictSize input preset outCap =
      { ret := (callR .lzma2 (toBuf input) outCap (initLzma2R dictSize preset)).1,
        out := (callR .lzma2 (toBuf input) outCap (initLzma2R dictSize preset)).2.output,
        consumed := (callR .lzma2 (toBuf input) outCap (initLzma2R dictSize preset)).2.s.inPos } := by
  have h := callR_eq_oneshot_lzma2_nowrap dictSize preset input outCap hnw
  simp only [] at h
  rw [h.1, h.2.1, h.2.2]
  rfl

/-- `lzmaDecode` (the public one-shot API) computed by the resumable model -/
theorem lzmaDecode_eq_callR_nowrap (props : Props) (dictSize : Nat) (uncomp : Option Nat) (allowEopm : Bool)
    (preset input : List UInt8) (outCap : Nat)
    (hnw : min preset.length (roundDictSize dictSize) + outCap < roundDictSize dictSize) :
    lzmaDecode props dictSize uncomp allowEopm input preset outCap =
      { ret := (callR .lzma1 (toBuf input) outCap (initLzma1R props dictSize uncomp allowEopm preset)).1,
        out := (callR .lzma1 (toBuf input) outCap (initLzma1R props dictSize uncomp allowEopm preset)).2.output,
        consumed := (callR .lzma1 (toBuf input) outCap (initLzma1R props dictSize uncomp allowEopm preset)).2.s.inPos } := by
  have h := callR_eq_oneshot_lzma1_nowrap props dictSize uncomp allowEopm preset input outCap hnw
  simp only [] at h
  have ey := Coder.code_lzma1 (St.initLzma1 props dictSize uncomp (allowEopm || uncomp.isNone) preset (toBuf input)) outCap
  rw [initLzma1_produced, Nat.zero_add] at ey
  rw [h.1, h.2.1, h.2.2]
  show _ = DecResult.mk _ _ _
  rw [show Coder.initLzma1 props dictSize uncomp allowEopm preset (toBuf input)
        = ⟨.lzma1, St.initLzma1 props dictSize uncomp (allowEopm || uncomp.isNone) preset (toBuf input)⟩ from rfl, ey]
  rfl

end XzVerif.LzmaR
