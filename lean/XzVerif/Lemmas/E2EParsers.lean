/-
  C01 end-to-end, acceptance of concrete parsers, part 4: two parsers that keep their contract on EVERY input.
  `ParserOk parser`: for every dictionary size ≥ 1 and every buffer the trace is `TraceOk` (literals and normal matches, each
  valid where it is met).  Then the chunker accepts it (`lzma2Encode_total`), so `E2E.Accepts` holds for every supported
  chain and every input.  Instances: `literalParser`, `runParser` (emits matches).
-/
import XzVerif.Lemmas.E2EAccept3
import XzVerif.Lemmas.E2EPayload

namespace XzVerif.E2E
open XzVerif XzVerif.Container XzVerif.XzEncEnv XzVerif.LzmaEnc XzVerif.Lzma2Enc XzVerif.LzmaExec

/-- the contract of a stateless parser, on every input -/
def ParserOk (parser : Parser) : Prop := ∀ (p : Lzma.Props) (d : Nat) (buf : ByteArray), 1 ≤ d → TraceOk d buf (parser p d buf)

theorem preEnc_isSome (o : FilterOpts) (h : preInitOk o = true) : ∃ f, preEnc o = some f := by
  cases o with
  | delta dist => exact ⟨_, rfl⟩
  | bcj id off =>
    simp only [preInitOk, Bool.and_eq_true] at h
    obtain ⟨fid, hfid⟩ := Option.isSome_iff_exists.mp h.1.1
    exact ⟨fun buf => (Simple.filterCode fid true Bcj.X86State.init (BitVec.ofNat 32 off) buf).1,
      by simp only [preEnc, hfid, Option.map_some]⟩
  | lzma1 _ _ _ _ _ => cases h
  | lzma2 _ => cases h
  | other _ => cases h

theorem applyPre_isSome : ∀ (pre : List FilterOpts), pre.all preInitOk = true → ∀ x, ∃ y, applyPre pre x = some y
  | [], _, x => ⟨x, rfl⟩
  | o :: os, h, x => by
    simp only [List.all_cons, Bool.and_eq_true] at h
    obtain ⟨f, hf⟩ := preEnc_isSome o h.1
    obtain ⟨y, hy⟩ := applyPre_isSome os h.2 (f x)
    exact ⟨y, by simp only [applyPre, hf]; exact hy⟩

/-- **A stateless parser that keeps its contract is accepted on every input of every supported chain.** -/
theorem accepts_of_parserOk (p : Lzma.Props) (parser : Parser) (hp : ParserOk parser) (fs : List FilterOpts)
    (hfs : xzChain p fs = true) (x : List UInt8) : Accepts p parser fs x := by
  obtain ⟨n, pre, d, -, rfl, -, hd, hpre⟩ := xzChain_inv p fs hfs
  obtain ⟨y, hy⟩ := applyPre_isSome pre hpre x
  have hd1 : 1 ≤ d := by have := (dictOk_bounds d hd).1; omega
  obtain ⟨res, hres⟩ := lzma2Encode_total p d (toBuf y) (parser p d (toBuf y)) (hp p d (toBuf y) hd1)
  unfold Accepts
  rw [rawEncode_append, hy]
  simp only [lastEnc, hres, Option.isSome_some]

/-! ## the literal parser -/

def litRec (i : Nat) : TraceRec := { kind := 0, back := 4294967295, len := 1, pos := (i + 1) % 4294967296, ra := 0 }

theorem walk_literals (d : Nat) (buf : ByteArray) : ∀ (m k : Nat), k + 1 + m = buf.size →
    WalkL d buf ((List.range' k m).map litRec) (k + 1)
  | 0, k, h => by simp only [List.range'_zero, List.map_nil, WalkL]; omega
  | m + 1, k, h => by
    simp only [List.range'_succ, List.map_cons, WalkL]
    refine ⟨⟨rfl, rfl, rfl, Nat.le_refl _, by show k + 1 + 1 ≤ buf.size; omega, Or.inl ⟨rfl, rfl⟩⟩, ?_⟩
    exact walk_literals d buf m (k + 1) (by omega)

theorem literalParser_ok : ParserOk literalParser := by
  intro p d buf _
  by_cases h0 : buf.size = 0
  · left
    exact ⟨h0, by simp [literalParser, h0]⟩
  · right
    refine ⟨by omega, ?_⟩
    have := walk_literals d buf (buf.size - 1) 0 (by omega)
    have e : litRec = fun i => ({ kind := 0, back := 4294967295, len := 1, pos := (i + 1) % 4294967296, ra := 0 } : TraceRec) := rfl
    rw [e] at this
    simpa [literalParser, List.range_eq_range'] using this

/-! ## the run parser -/

theorem runLen_spec (buf : ByteArray) : ∀ (cap i : Nat), i ≤ buf.size →
    runLen buf cap i ≤ cap ∧ i + runLen buf cap i ≤ buf.size ∧ matchesAt buf i 0 (runLen buf cap i) = true
  | 0, i, h => ⟨Nat.le_refl _, by simp only [runLen]; omega, rfl⟩
  | cap + 1, i, h => by
    simp only [runLen]
    split
    · rename_i hc
      simp only [Bool.and_eq_true, decide_eq_true_eq] at hc
      obtain ⟨h1, h2, h3⟩ := runLen_spec buf cap (i + 1) (by omega)
      refine ⟨by omega, by omega, ?_⟩
      simp only [matchesAt, Nat.sub_zero, hc.2, h3, Bool.and_self]
    · exact ⟨Nat.zero_le _, by omega, rfl⟩

theorem walk_runs (d : Nat) (hd : 1 ≤ d) (buf : ByteArray) : ∀ (fuel o : Nat), 1 ≤ o → o ≤ buf.size → buf.size - o ≤ fuel →
    WalkL d buf (runRecs buf fuel o) o
  | 0, o, _, h2, h3 => by simp only [runRecs, WalkL]; omega
  | fuel + 1, o, h1, h2, h3 => by
    simp only [runRecs]
    by_cases hge : o ≥ buf.size
    · rw [if_pos hge]; simp only [WalkL]; omega
    rw [if_neg hge]
    obtain ⟨r1, r2, r3⟩ := runLen_spec buf 273 o h2
    by_cases hn : runLen buf 273 o ≥ 2
    · rw [if_pos hn]
      simp only [WalkL]
      refine ⟨⟨rfl, rfl, rfl, by show 1 ≤ runLen buf 273 o; omega, r2, Or.inr ⟨by show 4 ≤ 4; omega, by show 4 < 4294967295; omega, hn, r1,
        by show 4 - 4 < o; omega, by show 4 - 4 < d; omega, r3⟩⟩, ?_⟩
      exact walk_runs d hd buf fuel _ (by omega) r2 (by omega)
    · rw [if_neg hn]
      simp only [WalkL]
      refine ⟨⟨rfl, rfl, rfl, Nat.le_refl _, by show o + 1 ≤ buf.size; omega, Or.inl ⟨rfl, rfl⟩⟩, ?_⟩
      exact walk_runs d hd buf fuel _ (by omega) (by omega) (by omega)

theorem runParser_ok : ParserOk runParser := by
  intro p d buf hd
  by_cases h0 : buf.size = 0
  · left
    refine ⟨h0, ?_⟩
    simp only [runParser, h0, runRecs, List.size_toArray, List.length_nil]
  · right
    refine ⟨by omega, ?_⟩
    have := walk_runs d hd buf buf.size 1 (Nat.le_refl _) (by omega) (by omega)
    simpa [runParser] using this

end XzVerif.E2E
