/-
  Causality of the LZMA decoder model, part 3b: `lzma2_decode` is local in the input (`lzma2Loop_rel`, `lzma2Call_rel`).
-/
import XzVerif.Lemmas.LzmaCausalL2

namespace XzVerif.Lzma2
open XzVerif.RangeDec XzVerif.LzDict XzVerif.Lzma

/-! ### SEQ_COPY -/

theorem appendSlice_agree (n : Nat) (b b' : ByteArray) (hag : Agree n b b') :
    ∀ k off (h : ByteArray), off + k ≤ n → appendSlice b k off h = appendSlice b' k off h
  | 0, _, _, _ => rfl
  | k + 1, off, h, hle => by
    unfold appendSlice
    have hb : off < b.size := by have := hag.le; omega
    have hb' : off < b'.size := by have := hag.le'; omega
    rw [dif_pos hb, dif_pos hb', hag.eq off hb hb' (by omega)]
    exact appendSlice_agree n b b' hag k (off + 1) _ (by omega)

/-- SEQ_COPY given the number of bytes copied and the new history -/
def l2CopyWith (v : St) (cnt : Nat) (h : ByteArray) : Step :=
  let s1 := setL2 { v with hist := h, inPos := v.inPos + cnt, dp := v.dp.advance cnt } fun l =>
    { l with compressedSize := l.compressedSize - cnt }
  if s1.l2.compressedSize != 0 then .done (.ok, s1) else .next (setL2 s1 fun l => { l with seq := .control })

theorem l2Copy_withInp (v : St) (b : ByteArray) :
    l2Copy (St.withInp v b) =
      (l2CopyWith v (copyCount (St.withInp v b)) (appendSlice b (copyCount (St.withInp v b)) v.inPos v.hist)).mapInp b := by
  unfold l2Copy l2CopyWith
  show (if (v.l2.compressedSize - copyCount (St.withInp v b) != 0) = true then _ else _) =
    Step.mapInp b (if (v.l2.compressedSize - copyCount (St.withInp v b) != 0) = true then _ else _)
  split <;> rfl

theorem copyCount_eq (n : Nat) (v : St) (b : ByteArray) (hle : n ≤ b.size)
    (hp : v.inPos + min v.l2.compressedSize v.dp.avail ≤ n) :
    copyCount (St.withInp v b) = min v.l2.compressedSize v.dp.avail := by
  show min (min (b.size - v.inPos) v.l2.compressedSize) v.dp.avail = _
  omega

theorem copyCount_ge (n : Nat) (v : St) (b : ByteArray) (hle : n ≤ b.size)
    (hp : ¬ v.inPos + min v.l2.compressedSize v.dp.avail ≤ n) :
    n ≤ (St.withInp v b).inPos + copyCount (St.withInp v b) := by
  show n ≤ v.inPos + min (min (b.size - v.inPos) v.l2.compressedSize) v.dp.avail
  omega

theorem l2Copy_lock (n : Nat) (v : St) (b b' : ByteArray) (hag : Agree n b b')
    (hp : v.inPos + min v.l2.compressedSize v.dp.avail ≤ n) :
    SSame n (l2Copy (St.withInp v b)) (l2Copy (St.withInp v b')) := by
  rw [l2Copy_withInp, l2Copy_withInp, copyCount_eq n v b hag.le hp, copyCount_eq n v b' hag.le' hp,
    appendSlice_agree n b b' hag _ _ _ hp]
  exact SSame.of_mapInp n _ b b' hag

/-! ### SEQ_LZMA -/

theorem l2Lzma_div (n i : Nat) (r : Ret × St) (h : Div2 n (Stv1 n) r) : SDiv n (K2 n) (l2Lzma i r) := by
  rcases h with h | ⟨hne, hok⟩
  · apply SDiv.of_pos
    rw [l2Lzma_pos]
    exact h
  · unfold l2Lzma
    split
    · exact Or.inr ⟨by simp, fun hc => by cases hc⟩
    · simp only []
      split
      · refine Or.inr ⟨hne, fun hk => ?_⟩
        have hs := hok hk
        exact ⟨hs.1, fun _ => hs.2⟩
      · next hse =>
        have : r.1 = .streamEnd := by simpa using hse
        exact absurd this hne

/-! ### one iteration -/

theorem curByte_agree (n : Nat) (v : St) (b b' : ByteArray) (hag : Agree n b b') (hn : v.inPos < n) :
    curByte (St.withInp v b) = curByte (St.withInp v b') := by
  have hb : v.inPos < b.size := Nat.lt_of_lt_of_le hn hag.le
  have hb' : v.inPos < b'.size := Nat.lt_of_lt_of_le hn hag.le'
  show (if hlt : v.inPos < b.size then b[v.inPos] else 0).toNat = (if hlt : v.inPos < b'.size then b'[v.inPos] else 0).toNat
  rw [dif_pos hb, dif_pos hb', hag.eq v.inPos hb hb' hn]

theorem l2Step_rel (n : Nat) (s s' : St) (h : Rel n s s') :
    SSame n (l2Step s) (l2Step s') ∨ (SDiv n (K2 n) (l2Step s) ∧ SDiv n (K2 n) (l2Step s')) := by
  obtain ⟨v, b, b', rfl, rfl, hag⟩ := h
  by_cases hq : v.l2.seq = .lzma
  · rw [l2Step_lzma (St.withInp v b) hq, l2Step_lzma (St.withInp v b') hq]
    rcases lzmaCall_rel n _ _ ⟨v, b, b', rfl, rfl, hag⟩ with hs | ⟨h1, h2⟩
    · left
      generalize lzmaCall (St.withInp v b) = r at hs ⊢
      generalize lzmaCall (St.withInp v b') = r' at hs ⊢
      obtain ⟨ret, t⟩ := r
      obtain ⟨ret', t'⟩ := r'
      obtain ⟨hret, w, c, c', hw, hw', hag'⟩ := hs
      have hret' : ret = ret' := hret
      have hw1 : t = St.withInp w c := hw
      have hw2 : t' = St.withInp w c' := hw'
      subst hret' hw1 hw2
      show SSame n (l2Lzma v.inPos (ret, St.withInp w c)) (l2Lzma v.inPos (ret, St.withInp w c'))
      rw [l2Lzma_withInp, l2Lzma_withInp]
      exact SSame.of_mapInp n _ c c' hag'
    · exact Or.inr ⟨l2Lzma_div n _ _ h1, l2Lzma_div n _ _ h2⟩
  · have hq1 : (St.withInp v b).l2.seq ≠ .lzma := hq
    have hq2 : (St.withInp v b').l2.seq ≠ .lzma := hq
    by_cases hn : v.inPos < n
    · have hb : (St.withInp v b).inPos < (St.withInp v b).inp.size := Nat.lt_of_lt_of_le hn hag.le
      have hb' : (St.withInp v b').inPos < (St.withInp v b').inp.size := Nat.lt_of_lt_of_le hn hag.le'
      by_cases hc : v.l2.seq = .copy
      · rw [l2Step_copy (St.withInp v b) hc hb, l2Step_copy (St.withInp v b') hc hb']
        by_cases hlock : v.inPos + min v.l2.compressedSize v.dp.avail ≤ n
        · exact Or.inl (l2Copy_lock n v b b' hag hlock)
        · exact Or.inr ⟨k2_copy n _ hc (copyCount_ge n v b hag.le hlock), k2_copy n _ hc (copyCount_ge n v b' hag.le' hlock)⟩
      · have hc1 : (St.withInp v b).l2.seq ≠ .copy := hc
        have hc2 : (St.withInp v b').l2.seq ≠ .copy := hc
        rw [l2Step_byte _ hq1 hc1 hb, l2Step_byte _ hq2 hc2 hb', curByte_agree n v b b' hag hn]
        left
        show SSame n (l2Byte v.l2.seq (St.withInp v b) _) (l2Byte v.l2.seq (St.withInp v b') _)
        rw [l2Byte_withInp, l2Byte_withInp]
        exact SSame.of_mapInp n _ b b' hag
    · have k1 : K2 n (St.withInp v b) := ⟨by show n ≤ v.inPos; omega, fun hl => absurd hl hq⟩
      have k2 : K2 n (St.withInp v b') := ⟨by show n ≤ v.inPos; omega, fun hl => absurd hl hq⟩
      exact Or.inr ⟨k2_step n _ k1, k2_step n _ k2⟩

/-! ### the loop -/

theorem sdiv_run (n f : Nat) (st : Step) (h : SDiv n (K2 n) st) : Div2 n (K2 n) (runStep (lzma2Loop f) st) := by
  cases st with
  | done r => exact h
  | next s1 => exact k2_loop n f s1 h

/-- `lzma2_decode` IS LOCAL IN THE INPUT (whatever the two loop fuels are). -/
theorem lzma2Loop_rel (n : Nat) : ∀ (f f' : Nat) (s s' : St), Rel n s s' → Out2 n (K2 n) (lzma2Loop f s) (lzma2Loop f' s')
  | 0, _, s, s', _ => Or.inr (Or.inr (Or.inl (by unfold lzma2Loop; rfl)))
  | _ + 1, 0, s, s', _ => Or.inr (Or.inr (Or.inr (by unfold lzma2Loop; rfl)))
  | f + 1, f' + 1, s, s', h => by
    rw [lzma2Loop_succ, lzma2Loop_succ]
    rcases l2Step_rel n s s' h with hs | ⟨h1, h2⟩
    · cases h1 : l2Step s with
      | done r =>
        cases h2 : l2Step s' with
        | done r' => rw [h1, h2] at hs; exact Or.inl hs
        | next t' => rw [h1, h2] at hs; exact absurd hs id
      | next t =>
        cases h2 : l2Step s' with
        | done r' => rw [h1, h2] at hs; exact absurd hs id
        | next t' => rw [h1, h2] at hs; exact lzma2Loop_rel n f f' t t' hs
    · exact Or.inr (Or.inl ⟨sdiv_run n f _ h1, sdiv_run n f' _ h2⟩)

theorem lzma2Call_rel (n : Nat) (s s' : St) (h : Rel n s s') : Out2 n (K2 n) (lzma2Call s) (lzma2Call s') :=
  lzma2Loop_rel n _ _ s s' h

theorem lzma2Call_mono (s : St) : s.inPos ≤ (lzma2Call s).2.inPos := lzma2Loop_mono _ s

theorem lzma2Call_k2 (n : Nat) (s : St) (h : K2 n s) : Div2 n (K2 n) (lzma2Call s) := k2_loop n _ s (Or.inr h)

end XzVerif.Lzma2
