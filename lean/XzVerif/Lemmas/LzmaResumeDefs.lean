/-
  Slicing independence of the resumable LZMA1/LZMA2 decoder model (`Model/LzmaResume.lean`), shared definitions:
  views of a decoder state under (input so far, dictionary limit), equality of call results up to those two per-call
  members, and the layer interfaces ("absorption": a call with more resources equals the call with fewer resources
  followed — if that one returned LZMA_OK — by a call with the larger resources).
-/
import XzVerif.Model.LzmaResume
import XzVerif.Lemmas.LzmaCausal
import XzVerif.Lemmas.C03Call
import XzVerif.Lemmas.C03Coder

namespace XzVerif.LzmaR
open XzVerif.RangeDec XzVerif.LzDict XzVerif.Lzma XzVerif.Lzma2

/-- the decoder state as one call sees it: input so far `b`, `dict.limit = L` -/
def RSt.view (r : RSt) (b : ByteArray) (L : Nat) : RSt :=
  { r with s := { r.s with inp := b, dp := { r.s.dp with limit := L } } }

/-- forget the two per-call members -/
def RSt.norm (r : RSt) : RSt := r.view ByteArray.empty 0

/-- same return code, same state up to (`inp`, `dp.limit`) -/
def Same (x y : Ret × RSt) : Prop := x.1 = y.1 ∧ x.2.norm = y.2.norm

/-- … or both are the chunk-overrun LZMA_DATA_ERROR of `lzma2_decode` (ghost flag) -/
def Eqv (x y : Ret × RSt) : Prop :=
  Same x y ∨ (x.1 = .dataError ∧ y.1 = .dataError ∧ x.2.overrun = true ∧ y.2.overrun = true)

theorem Same.refl (x : Ret × RSt) : Same x x := ⟨rfl, rfl⟩
theorem Same.symm {x y : Ret × RSt} (h : Same x y) : Same y x := ⟨h.1.symm, h.2.symm⟩
theorem Same.trans {x y z : Ret × RSt} (h1 : Same x y) (h2 : Same y z) : Same x z := ⟨h1.1.trans h2.1, h1.2.trans h2.2⟩
theorem Eqv.refl (x : Ret × RSt) : Eqv x x := Or.inl (Same.refl x)
theorem Eqv.symm {x y : Ret × RSt} (h : Eqv x y) : Eqv y x := by
  rcases h with h | ⟨a, b, c, d⟩
  · exact Or.inl h.symm
  · exact Or.inr ⟨b, a, d, c⟩

theorem RSt.view_view (r : RSt) (b b' : ByteArray) (L L' : Nat) : (r.view b L).view b' L' = r.view b' L' := rfl
theorem RSt.norm_view (r : RSt) (b : ByteArray) (L : Nat) : (r.view b L).norm = r.norm := rfl
theorem RSt.view_congr {r r' : RSt} (h : r.norm = r'.norm) (b : ByteArray) (L : Nat) : r.view b L = r'.view b L := by
  have := congrArg (fun x : RSt => x.view b L) h
  simpa [RSt.norm, RSt.view_view] using this

/-- The saved mid-symbol resume point is consistent with the state ("replay invariant"): `rc_read_init` is over, the saved input
    position is not ahead of the current one, and decoding the interrupted symbol again from the saved members over ANY input that
    agrees with the bytes consumed so far reads at least up to the current input position. (Holds trivially when `sym0 = none`;
    established by every `lzmaCallR` that stops inside a symbol, because that call consumed all of its input.) -/
def SymPre (r : RSt) : Prop := ∀ k, r.sym0 = some k →
  r.s.initLeft = 0 ∧ k.inPos ≤ r.s.inPos ∧
  ∀ (L : Nat) (b : ByteArray), Agree r.s.inPos r.s.inp b →
    r.s.inPos ≤ (resSt (decodeSymbol (r.s.uncomp.isNone || r.s.eopmValid)
      (k.restore { r.s with inp := b, dp := { r.s.dp with limit := L }, pending := .none }))).inPos

/-- precondition of one `lzma_decode` call under the view `(b, L)` -/
structure Pre1 (r : RSt) (b : ByteArray) (L : Nat) : Prop where
  inPos : r.s.inPos ≤ b.size
  pos : r.s.dp.pos ≤ L
  /-- the new input continues the consumed bytes -/
  agree : Agree r.s.inPos r.s.inp b
  sym : SymPre r
  /-- not "known uncompressed size AND end marker allowed" (LZMA2 chunks, LZMA1 with unknown size, LZMA1 with known size
      without LZMA_LZMA1EXT_ALLOW_EOPM are all covered; `.lzma` files with known size are not) -/
  eopm : r.s.allowEopm = false ∨ r.s.uncomp = none

/-- **LZMA1 call level.** `lzma_decode` with input `b'` and limit `L'` = `lzma_decode` with a prefix `b` of the input and a
    smaller limit `L`, followed (if that returned LZMA_OK) by `lzma_decode` with `b'`, `L'` on the resulting coder. -/
def L1Absorb : Prop :=
  ∀ (r : RSt) (b b' : ByteArray) (L L' : Nat), Pre1 r b L → Agree b.size b b' → L ≤ L' →
    Same (lzmaCallR (r.view b' L'))
      (if (lzmaCallR (r.view b L)).1 = .ok then lzmaCallR ((lzmaCallR (r.view b L)).2.view b' L') else lzmaCallR (r.view b L))

/-- what one `lzma_decode` call may change (as `Lzma.lzmaCall_spec` for the one-shot model) -/
def L1Spec : Prop :=
  ∀ (r : RSt), SymPre r → r.s.inPos ≤ r.s.inp.size → r.s.dp.pos ≤ r.s.dp.limit →
    SymPre (lzmaCallR r).2 ∧ Wr r.s (lzmaCallR r).2.s ∧ (lzmaCallR r).1 ≠ .progError ∧ (lzmaCallR r).2.overrun = r.overrun
    ∧ (lzmaCallR r).2.s.allowEopm = r.s.allowEopm ∧ ((lzmaCallR r).2.s.uncomp = none ↔ r.s.uncomp = none)
    ∧ (lzmaCallR r).2.s.dp.hasWrapped = r.s.dp.hasWrapped
    ∧ (r.s.dp.hasWrapped = false → r.s.dp.full + LZ_DICT_INIT_POS = r.s.dp.pos →
        (lzmaCallR r).2.s.dp.full + LZ_DICT_INIT_POS = (lzmaCallR r).2.s.dp.pos)

/-- Interface of a `code` function of the LZ layer (`lzmaCallR`, `lzma2CallR`) for `decodeBufferR`:
    `P r` = invariant of the coder between `code` calls that does not depend on (`inp`, `dp.limit`). -/
structure CodeAbsorb (P : RSt → Prop) (code : RSt → Ret × RSt) : Prop where
  /-- frame -/
  spec : ∀ r, P r → r.s.dp.needReset = false → r.s.inPos ≤ r.s.inp.size → r.s.dp.pos ≤ r.s.dp.limit →
    Cr r.s (code r).2.s ∧ (code r).1 ≠ .progError ∧ P (code r).2
    ∧ ((code r).2.s.dp.needReset = true → r.s.dp.needReset = true ∨ r.s.inPos < (code r).2.s.inPos)
    ∧ (code r).2.s.dp.hasWrapped = r.s.dp.hasWrapped
    ∧ (r.s.dp.hasWrapped = false → r.s.dp.full + LZ_DICT_INIT_POS = r.s.dp.pos →
        (code r).2.s.dp.full + LZ_DICT_INIT_POS = (code r).2.s.dp.pos)
  /-- `P` survives a new input that continues the consumed bytes and a new `dict.limit` -/
  frame_view : ∀ r b L, P r → Agree r.s.inPos r.s.inp b → P (r.view b L)
  /-- … and the dictionary reset of the LZ layer (`lz_decoder_reset` after `need_reset`) -/
  frame_reset : ∀ r, P r → r.s.dp.needReset = true → P (r.map fun s => { s with dp := s.dp.reset })
  /-- the call with fewer resources ended with something other than LZMA_OK: so does the call with more -/
  stop : ∀ r b b' L L', P r → Agree r.s.inPos r.s.inp b → r.s.inPos ≤ b.size → r.s.dp.pos ≤ L → Agree b.size b b' → L ≤ L' → r.s.dp.needReset = false →
    (code (r.view b L)).1 ≠ .ok → Eqv (code (r.view b' L')) (code (r.view b L))
  /-- it returned LZMA_OK to let the LZ layer reset the dictionary: the call with more resources stops at the same place -/
  yield : ∀ r b b' L L', P r → Agree r.s.inPos r.s.inp b → r.s.inPos ≤ b.size → r.s.dp.pos ≤ L → Agree b.size b b' → L ≤ L' → r.s.dp.needReset = false →
    (code (r.view b L)).1 = .ok → (code (r.view b L)).2.s.dp.needReset = true → Same (code (r.view b' L')) (code (r.view b L))
  /-- it returned LZMA_OK for lack of input or output space: the call with more resources = continuing with more resources -/
  resume : ∀ r b b' L L', P r → Agree r.s.inPos r.s.inp b → r.s.inPos ≤ b.size → r.s.dp.pos ≤ L → Agree b.size b b' → L ≤ L' → r.s.dp.needReset = false →
    (code (r.view b L)).1 = .ok → (code (r.view b L)).2.s.dp.needReset = false →
    Eqv (code (r.view b' L')) (code ((code (r.view b L)).2.view b' L'))

end XzVerif.LzmaR
