/-
  The history of the resumable LZMA1/LZMA2 decoder model is append-only along every call (`HistExt`), `outBase` never changes,
  hence the output after a call = the output before it ++ the bytes the call wrote (`output_append`), and the output of a sliced
  run = the concatenation of the per-call outputs (`runSlicedX_output`, `runSlicedR_output`).
  Core Lean only.
-/
import XzVerif.Lemmas.LzmaResumeCall
import XzVerif.Model.LzmaResumeRun

namespace XzVerif.LzmaR
open XzVerif.RangeDec XzVerif.LzDict XzVerif.Lzma XzVerif.Lzma2

/-- the history of `t` extends the history of `s` -/
def HistExt (s t : St) : Prop := ∃ l : List UInt8, t.hist.data.toList = s.hist.data.toList ++ l

theorem HistExt.refl (s : St) : HistExt s s := ⟨[], by simp⟩
theorem HistExt.trans {a b c : St} (h1 : HistExt a b) (h2 : HistExt b c) : HistExt a c := by
  obtain ⟨l1, e1⟩ := h1
  obtain ⟨l2, e2⟩ := h2
  exact ⟨l1 ++ l2, by rw [e2, e1, List.append_assoc]⟩

theorem HistExt.size_le {s t : St} (h : HistExt s t) : s.hist.size ≤ t.hist.size := by
  obtain ⟨l, e⟩ := h
  have := congrArg List.length e
  simp only [List.length_append, Array.length_toList] at this
  show s.hist.data.size ≤ t.hist.data.size
  omega

namespace Hist

/-- append-only history and unchanged `outBase` -/
structure Hx (s t : St) : Prop where
  ext : HistExt s t
  outBase : t.outBase = s.outBase

theorem Hx.refl (s : St) : Hx s s := ⟨HistExt.refl s, rfl⟩
theorem Hx.trans {a b c : St} (h1 : Hx a b) (h2 : Hx b c) : Hx a c :=
  ⟨h1.ext.trans h2.ext, h2.outBase.trans h1.outBase⟩
theorem Hx.of_eq {s t : St} (h : t.hist = s.hist) (o : t.outBase = s.outBase) : Hx s t :=
  ⟨⟨[], by rw [h]; simp⟩, o⟩
theorem Hx.ofFr {s t : St} (h : Fr s t) : Hx s t := Hx.of_eq h.hist h.outBase

theorem push_toList (h : ByteArray) (b : UInt8) : (h.push b).data.toList = h.data.toList ++ [b] := by
  show (h.data.push b).toList = _
  simp

theorem copyBytes_ext : ∀ (n d : Nat) (h : ByteArray), ∃ l, (St.copyBytes n d h).data.toList = h.data.toList ++ l
  | 0, _, h => ⟨[], by simp [St.copyBytes]⟩
  | n + 1, d, h => by
    unfold St.copyBytes
    simp only []
    obtain ⟨l, e⟩ := copyBytes_ext n d (h.push (if d < h.size then h.get! (h.size - 1 - d) else 0))
    exact ⟨_ :: l, by rw [e, push_toList, List.append_assoc]; rfl⟩

theorem appendSlice_ext (src : ByteArray) : ∀ (n off : Nat) (h : ByteArray),
    ∃ l, (appendSlice src n off h).data.toList = h.data.toList ++ l
  | 0, _, h => ⟨[], by simp [appendSlice]⟩
  | n + 1, off, h => by
    unfold appendSlice
    obtain ⟨l, e⟩ := appendSlice_ext src n (off + 1) (h.push (if hlt : off < src.size then src[off] else 0))
    exact ⟨_ :: l, by rw [e, push_toList, List.append_assoc]; rfl⟩

theorem hx_put (s : St) (b : UInt8) : Hx s (s.put b) := ⟨⟨[b], push_toList _ _⟩, rfl⟩
theorem hx_repeatN (s : St) (n : Nat) : Hx s (s.repeatN n) := ⟨copyBytes_ext n s.rep0 s.hist, rfl⟩

theorem hx_doWrite (p : Pending) (s : St) : Hx s (resSt (doWrite p s)) := by
  cases p with
  | none => exact Hx.refl s
  | stuck => exact Hx.refl s
  | litWrite sym =>
    have h : doWrite (.litWrite sym) s = (if s.dp.pos == s.dp.limit then EStateM.Result.error (Exit.outFull (.litWrite sym)) s
               else .ok () (s.put (UInt8.ofNat sym))) := rfl
    cases hb : (s.dp.pos == s.dp.limit) <;> (rw [hb] at h; rw [h])
    · exact hx_put _ _
    · exact Hx.refl s
  | shortRep =>
    have h : doWrite .shortRep s = (if s.dp.pos == s.dp.limit then EStateM.Result.error (Exit.outFull .shortRep) s
               else .ok () (s.put (s.dictGet s.rep0))) := rfl
    cases hb : (s.dp.pos == s.dp.limit) <;> (rw [hb] at h; rw [h])
    · exact hx_put _ _
    · exact Hx.refl s
  | copy len =>
    have h : doWrite (.copy len) s = (if len - min (s.dp.limit - s.dp.pos) len != 0
               then EStateM.Result.error (Exit.outFull (.copy (len - min (s.dp.limit - s.dp.pos) len))) (s.repeatN (min (s.dp.limit - s.dp.pos) len))
               else .ok () (s.repeatN (min (s.dp.limit - s.dp.pos) len))) := rfl
    cases hb : (len - min (s.dp.limit - s.dp.pos) len != 0) <;> (rw [hb] at h; rw [h])
    · exact hx_repeatN _ _
    · exact hx_repeatN _ _

theorem hx_symStep (ev mf : Bool) (s : St) : Hx s (resSt (symStep ev mf s)) := by
  have hp := sat_symPrelude ev mf s
  show Hx s (resSt (EStateM.bind (symPrelude ev mf) _ s))
  unfold EStateM.bind
  cases h1 : symPrelude ev mf s with
  | error e s1 => rw [h1] at hp; exact Hx.ofFr hp.1
  | ok ev' s1 =>
    rw [h1] at hp
    have hd := sat_decodeSymbol ev' s1
    show Hx s (resSt (EStateM.bind (decodeSymbol ev') _ s1))
    unfold EStateM.bind
    cases h2 : decodeSymbol ev' s1 with
    | error e s2 => rw [h2] at hd; exact Hx.ofFr (hp.1.trans hd.1)
    | ok act s2 =>
      rw [h2] at hd
      have hw := hx_doWrite act s2
      have hfr : Fr s s2 := hp.1.trans hd.1
      show Hx s (resSt (EStateM.bind (doWrite act) _ s2))
      unfold EStateM.bind
      cases h3 : doWrite act s2 with
      | error e s3 => rw [h3] at hw; exact (Hx.ofFr hfr).trans hw
      | ok u s3 => rw [h3] at hw; exact (Hx.ofFr hfr).trans hw

theorem hx_symLoop : ∀ (fuel : Nat) (ev mf : Bool) (s : St), Hx s (resSt (symLoop fuel ev mf s))
  | 0, ev, mf, s => Hx.refl s
  | fuel + 1, ev, mf, s => by
    unfold symLoop
    have hs := hx_symStep ev mf s
    show Hx s (resSt (EStateM.bind (symStep ev mf) _ s))
    unfold EStateM.bind
    cases h1 : symStep ev mf s with
    | error e s1 => rw [h1] at hs; exact hs
    | ok ev' s1 => rw [h1] at hs; exact hs.trans (hx_symLoop fuel ev' mf s1)

theorem hx_lzmaRunR (s : St) (sym0 : Option SymSnap) : Hx s (resSt (lzmaRunR s sym0).1) := by
  unfold lzmaRunR
  simp only []
  have h1 : Hx s { s with dp := { s.dp with limit := clampedLimit s }, pending := .none } := Hx.of_eq rfl rfl
  generalize ({ s with dp := { s.dp with limit := clampedLimit s }, pending := .none } : St) = s1 at h1
  cases sym0 with
  | none =>
    simp only []
    have hw := hx_doWrite s.pending s1
    cases h2 : doWrite s.pending s1 with
    | error e t => rw [h2] at hw; exact h1.trans hw
    | ok x t =>
      rw [h2] at hw
      simp only []
      rw [symLoopR_fst]
      exact (h1.trans hw).trans (hx_symLoop _ _ _ t)
  | some k =>
    simp only []
    have h0 : Hx s (k.restore s1) := h1.trans (Hx.of_eq rfl rfl)
    have hd := sat_decodeSymbol (s.uncomp.isNone || s.eopmValid) (k.restore s1)
    cases h3 : decodeSymbol (s.uncomp.isNone || s.eopmValid) (k.restore s1) with
    | error e t =>
      rw [h3] at hd
      have : Hx s t := h0.trans (Hx.ofFr hd.1)
      cases e <;> exact this
    | ok act t =>
      rw [h3] at hd
      have ht : Hx s t := h0.trans (Hx.ofFr hd.1)
      simp only []
      have hw := hx_doWrite act t
      cases h4 : doWrite act t with
      | error e u => rw [h4] at hw; exact ht.trans hw
      | ok x u =>
        rw [h4] at hw
        simp only []
        rw [symLoopR_fst]
        exact (ht.trans hw).trans (hx_symLoop _ _ _ u)

theorem hx_lzmaCallR (r : RSt) : Hx r.s (lzmaCallR r).2.s := by
  have hfr := fr_rcReadInitN r.s.initLeft r.s
  unfold lzmaCallR
  cases hri : rcReadInit r.s with
  | error e s0 =>
    have : rcReadInitN r.s.initLeft r.s = .error e s0 := hri
    rw [this] at hfr; exact Hx.ofFr hfr
  | ok bb s0 =>
    have hfr0 : Fr r.s s0 := by
      have : rcReadInitN r.s.initLeft r.s = .ok bb s0 := hri
      rw [this] at hfr; exact hfr
    cases bb with
    | false => exact Hx.ofFr hfr0
    | true =>
      have hrun := hx_lzmaRunR s0 r.sym0
      have hst := lzmaFinish_state (lzmaRunR s0 r.sym0).1 s0.dp.limit s0.hist.size s0.uncomp
      have hu := unstick_eq (lzmaFinish (lzmaRunR s0 r.sym0).1 s0.dp.limit s0.hist.size s0.uncomp).2
      show Hx r.s (unstick (lzmaFinish (lzmaRunR s0 r.sym0).1 s0.dp.limit s0.hist.size s0.uncomp).2)
      refine ((Hx.ofFr hfr0).trans hrun).trans (Hx.of_eq ?_ ?_)
      · rw [hu]; exact hst.2.2.2.2.1
      · rw [hu]; exact hst.2.2.1

/-! ### LZMA2 -/

theorem hx_dictWrite (s : St) (left : Nat) : Hx s (dictWrite s left).2 :=
  ⟨appendSlice_ext _ _ _ _, rfl⟩

theorem hx_controlApply (s : St) (a : ControlAction) : Hx s (controlApply s a) := by
  unfold controlApply
  simp only []
  split
  · split
    · exact Hx.of_eq rfl rfl
    · exact Hx.of_eq rfl rfl
  · exact Hx.of_eq rfl rfl

theorem hx_lzma2LoopR : ∀ (fuel : Nat) (r : RSt), Hx r.s (lzma2LoopR fuel r).2.s
  | 0, r => by unfold lzma2LoopR; exact Hx.refl _
  | fuel + 1, r => by
    unfold lzma2LoopR
    simp only []
    split
    · exact Hx.refl _
    · have cont : ∀ r1 : RSt, Hx r.s r1.s → Hx r.s (lzma2LoopR fuel r1).2.s :=
        fun r1 h1 => h1.trans (hx_lzma2LoopR fuel r1)
      generalize (if hlt : r.s.inPos < r.s.inp.size then r.s.inp[r.s.inPos] else 0) = b8
      have c1 : Hx r.s { r.s with inPos := r.s.inPos + 1 } := Hx.of_eq rfl rfl
      split
      · -- control
        split
        · exact c1
        · split
          · exact c1
          · have c2 := fun a => c1.trans (hx_controlApply { r.s with inPos := r.s.inPos + 1 } a)
            split
            · exact (c2 _).trans (Hx.of_eq rfl rfl)
            · exact cont _ (c2 _)
      · exact cont _ (Hx.of_eq rfl rfl)
      · exact cont _ (Hx.of_eq rfl rfl)
      · exact cont _ (Hx.of_eq rfl rfl)
      · exact cont _ (Hx.of_eq rfl rfl)
      · split
        · exact c1
        · exact cont _ (Hx.of_eq rfl rfl)
      · -- SEQ_LZMA
        have hcall := hx_lzmaCallR r
        generalize lzmaCallR r = res at hcall
        obtain ⟨ret, r1⟩ := res
        have hcall' : Hx r.s r1.s := hcall
        simp only []
        split
        · exact hcall'
        · split
          · exact hcall'.trans (Hx.of_eq rfl rfl)
          · split
            · exact hcall'.trans (Hx.of_eq rfl rfl)
            · exact cont _ (hcall'.trans (Hx.of_eq rfl rfl))
      · -- SEQ_COPY
        have hw := hx_dictWrite r.s r.s.l2.compressedSize
        generalize dictWrite r.s r.s.l2.compressedSize = res at hw
        obtain ⟨n, s1⟩ := res
        have hw' : Hx r.s s1 := hw
        simp only []
        split
        · exact hw'.trans (Hx.of_eq rfl rfl)
        · exact cont _ (hw'.trans (Hx.of_eq rfl rfl))

theorem hx_lzma2CallR (r : RSt) : Hx r.s (lzma2CallR r).2.s := hx_lzma2LoopR _ r

/-! ### LZ layer -/

theorem hx_decodeBufferR (code : RSt → Ret × RSt) (hcode : ∀ r, Hx r.s (code r).2.s) :
    ∀ (fuel outSize : Nat) (r : RSt), Hx r.s (decodeBufferR code fuel outSize r).2.s
  | 0, _, r => by unfold decodeBufferR; exact Hx.refl _
  | fuel + 1, outSize, r => by
    unfold decodeBufferR
    simp only []
    have h0 : Hx r.s (r.map fun s => { s with dp := (s.dp.wrap).setLimit (outSize - s.produced) }).s := Hx.of_eq rfl rfl
    generalize (r.map fun s => { s with dp := (s.dp.wrap).setLimit (outSize - s.produced) }) = r0 at h0
    have hc := hcode r0
    generalize code r0 = res at hc
    obtain ⟨ret, r1⟩ := res
    have h1 : Hx r.s r1.s := h0.trans hc
    simp only []
    split
    · have h2 : Hx r.s (r1.map fun s => { s with dp := s.dp.reset }).s := h1.trans (Hx.of_eq rfl rfl)
      split
      · exact h2
      · exact h2.trans (hx_decodeBufferR code hcode fuel outSize _)
    · split
      · exact h1
      · exact h1.trans (hx_decodeBufferR code hcode fuel outSize _)

theorem hx_codeOf (kind : Kind) (r : RSt) : Hx r.s (codeOf kind r).2.s := by
  cases kind with
  | lzma1 => exact hx_lzmaCallR r
  | lzma2 => exact hx_lzma2CallR r

theorem hx_callR (kind : Kind) (buf : ByteArray) (outSize : Nat) (r : RSt) : Hx r.s (callR kind buf outSize r).2.s := by
  unfold callR
  simp only []
  have h0 : Hx r.s (r.withInp buf).s := Hx.of_eq rfl rfl
  exact h0.trans (hx_decodeBufferR (codeOf kind) (hx_codeOf kind) _ _ _)

end Hist

open Hist

theorem lzmaCallR_histExt (r : RSt) : HistExt r.s (lzmaCallR r).2.s := (hx_lzmaCallR r).ext
theorem lzmaCallR_outBase (r : RSt) : (lzmaCallR r).2.s.outBase = r.s.outBase := (hx_lzmaCallR r).outBase
theorem lzma2CallR_histExt (r : RSt) : HistExt r.s (lzma2CallR r).2.s := (hx_lzma2CallR r).ext
theorem lzma2CallR_outBase (r : RSt) : (lzma2CallR r).2.s.outBase = r.s.outBase := (hx_lzma2CallR r).outBase
theorem decodeBufferR_histExt (code : RSt → Ret × RSt) (hcode : ∀ r, HistExt r.s (code r).2.s)
    (hbase : ∀ r, (code r).2.s.outBase = r.s.outBase) (fuel outSize : Nat) (r : RSt) :
    HistExt r.s (decodeBufferR code fuel outSize r).2.s :=
  (hx_decodeBufferR code (fun r => ⟨hcode r, hbase r⟩) fuel outSize r).ext
theorem callR_histExt (kind : Kind) (buf : ByteArray) (outSize : Nat) (r : RSt) :
    HistExt r.s (callR kind buf outSize r).2.s := (hx_callR kind buf outSize r).ext
theorem callR_outBase (kind : Kind) (buf : ByteArray) (outSize : Nat) (r : RSt) :
    (callR kind buf outSize r).2.s.outBase = r.s.outBase := (hx_callR kind buf outSize r).outBase

/-! ### output of a call -/

/-- the bytes a call wrote (`old` = coder before the call, `new` = after) -/
def newOut (old new : RSt) : List UInt8 := histFrom new.s.hist old.s.hist.size

theorem output_append (old new : RSt) (h : HistExt old.s new.s) (hb : new.s.outBase = old.s.outBase)
    (hle : old.s.outBase ≤ old.s.hist.size) : new.output = old.output ++ newOut old new := by
  obtain ⟨l, e⟩ := h
  unfold RSt.output newOut histFrom
  have hsz : old.s.hist.size = old.s.hist.data.toList.length := by
    show old.s.hist.data.size = _; simp
  rw [hb, e, hsz]
  rw [hsz] at hle
  rw [List.drop_append_of_le_length hle, List.drop_left]


/-- `outBase ≤ hist.size` is kept by anything that only extends the history -/
theorem outBase_le_of_ext {old new : St} (h : HistExt old new) (hb : new.outBase = old.outBase)
    (hle : old.outBase ≤ old.hist.size) : new.outBase ≤ new.hist.size := by
  have := h.size_le
  omega

/-! ### sliced runs: the output is the concatenation of the per-call outputs -/

/-- the outputs of the calls executed by `runSlicedX`, in order -/
def outsX (kind : Kind) (input : List UInt8) : List (Nat × Nat) → XRun → List (List UInt8)
  | [], _ => []
  | (inLen, cap) :: sl, x =>
    if x.ret ≠ .ok then []
    else newOut x.r (runPieceX kind input x inLen cap).r :: outsX kind input sl (runPieceX kind input x inLen cap)

theorem runPieceX_histExt (kind : Kind) (input : List UInt8) (x : XRun) (inLen cap : Nat) :
    HistExt x.r.s (runPieceX kind input x inLen cap).r.s := callR_histExt _ _ _ _
theorem runPieceX_outBase (kind : Kind) (input : List UInt8) (x : XRun) (inLen cap : Nat) :
    (runPieceX kind input x inLen cap).r.s.outBase = x.r.s.outBase := callR_outBase _ _ _ _

theorem runSlicedX_output (kind : Kind) (input : List UInt8) : ∀ (sl : List (Nat × Nat)) (x : XRun),
    x.r.s.outBase ≤ x.r.s.hist.size →
    (runSlicedX kind input sl x).r.output = x.r.output ++ (outsX kind input sl x).flatten
  | [], x, _ => by simp [runSlicedX, outsX]
  | (inLen, cap) :: sl, x, hle => by
    unfold runSlicedX outsX
    by_cases hr : x.ret ≠ .ok
    · rw [if_pos hr, if_pos hr]; simp
    · rw [if_neg hr, if_neg hr]
      have he := runPieceX_histExt kind input x inLen cap
      have hb := runPieceX_outBase kind input x inLen cap
      rw [runSlicedX_output kind input sl _ (outBase_le_of_ext he hb hle), output_append _ _ he hb hle,
        List.flatten_cons, List.append_assoc]

/-- `outBase ≤ hist.size` along an exact-window run -/
theorem runSlicedX_outBase_le (kind : Kind) (input : List UInt8) : ∀ (sl : List (Nat × Nat)) (x : XRun),
    x.r.s.outBase ≤ x.r.s.hist.size →
    (runSlicedX kind input sl x).r.s.outBase ≤ (runSlicedX kind input sl x).r.s.hist.size
  | [], x, h => h
  | (inLen, cap) :: sl, x, hle => by
    unfold runSlicedX
    by_cases hr : x.ret ≠ .ok
    · rw [if_pos hr]; exact hle
    · rw [if_neg hr]
      exact runSlicedX_outBase_le kind input sl _
        (outBase_le_of_ext (runPieceX_histExt kind input x inLen cap) (runPieceX_outBase kind input x inLen cap) hle)

/-- the outputs of the calls executed by `runSlicedR`, in order -/
def outsR (kind : Kind) (input : List UInt8) : List (Nat × Nat) → SRun → List (List UInt8)
  | [], _ => []
  | (k, cap) :: sl, x =>
    if x.ret ≠ .ok then []
    else newOut x.r (runPieceR kind input x k cap).r :: outsR kind input sl (runPieceR kind input x k cap)

theorem runPieceR_histExt (kind : Kind) (input : List UInt8) (x : SRun) (k cap : Nat) :
    HistExt x.r.s (runPieceR kind input x k cap).r.s := callR_histExt _ _ _ _
theorem runPieceR_outBase (kind : Kind) (input : List UInt8) (x : SRun) (k cap : Nat) :
    (runPieceR kind input x k cap).r.s.outBase = x.r.s.outBase := callR_outBase _ _ _ _

theorem runSlicedR_output (kind : Kind) (input : List UInt8) : ∀ (sl : List (Nat × Nat)) (x : SRun),
    x.r.s.outBase ≤ x.r.s.hist.size →
    (runSlicedR kind input sl x).r.output = x.r.output ++ (outsR kind input sl x).flatten
  | [], x, _ => by simp [runSlicedR, outsR]
  | (k, cap) :: sl, x, hle => by
    unfold runSlicedR outsR
    by_cases hr : x.ret ≠ .ok
    · rw [if_pos hr, if_pos hr]; simp
    · rw [if_neg hr, if_neg hr]
      have he := runPieceR_histExt kind input x k cap
      have hb := runPieceR_outBase kind input x k cap
      rw [runSlicedR_output kind input sl _ (outBase_le_of_ext he hb hle), output_append _ _ he hb hle,
        List.flatten_cons, List.append_assoc]

theorem runSlicedR_outBase_le (kind : Kind) (input : List UInt8) : ∀ (sl : List (Nat × Nat)) (x : SRun),
    x.r.s.outBase ≤ x.r.s.hist.size →
    (runSlicedR kind input sl x).r.s.outBase ≤ (runSlicedR kind input sl x).r.s.hist.size
  | [], x, h => h
  | (k, cap) :: sl, x, hle => by
    unfold runSlicedR
    by_cases hr : x.ret ≠ .ok
    · rw [if_pos hr]; exact hle
    · rw [if_neg hr]
      exact runSlicedR_outBase_le kind input sl _
        (outBase_le_of_ext (runPieceR_histExt kind input x k cap) (runPieceR_outBase kind input x k cap) hle)

end XzVerif.LzmaR
