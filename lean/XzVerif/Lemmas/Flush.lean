/-
  Helper lemmas for C12 (Props/C12.lean): the LZMA2 chunk decoder reads back what the LZMA2 encoder model writes.
  Core Lean only.
-/
import XzVerif.Model.Flush
set_option linter.unusedSimpArgs false
set_option linter.unusedVariables false
namespace XzVerif.Flush
variable {σ : Type}

theorem byte_toNat (k : Nat) : (byte k).toNat = k % 256 := by simp [byte]

theorem Props.byte_lt (p : Props) (h : p.valid = true) : p.byte < 256 := by
  obtain ⟨lc, lp, pb⟩ := p
  simp [Props.valid] at h
  simp only [Props.byte]; omega

theorem split3 (m : Nat) : m / 65536 * 65536 + m / 256 % 256 * 256 + m % 256 = m := by
  have h1 : m / 65536 = m / 256 / 256 := by rw [Nat.div_div_eq_div_mul]
  rw [h1]
  omega

theorem parse_lzmaHeader (np ns nd : Bool) (opt : Props) (n cs : Nat) (rest : Bytes)
    (hn : 1 ≤ n ∧ n ≤ 2097152) (hc : 1 ≤ cs ∧ cs ≤ 65536) (hv : opt.valid = true) :
    parseChunkHeader (lzmaHeader np ns nd opt n cs ++ rest)
      = some (⟨lzmaControl np ns nd + (n - 1) / 65536, n, cs, if np then some opt.byte else none⟩, rest) := by
  have hb := Props.byte_lt opt hv
  obtain ⟨m, rfl⟩ : ∃ m, n = m + 1 := ⟨n - 1, by omega⟩
  obtain ⟨k, rfl⟩ : ∃ k, cs = k + 1 := ⟨cs - 1, by omega⟩
  simp only [lzmaHeader, Nat.add_sub_cancel]
  have c : k / 256 % 256 * 256 + k % 256 = k := by omega
  have pb : opt.byte % 256 = opt.byte := by omega
  have hq : m / 65536 < 32 := by omega
  have u := split3 m
  generalize m / 65536 = q at *
  have a1 : (128 + q) % 256 = 128 + q := by omega
  have a2 : (160 + q) % 256 = 160 + q := by omega
  have a3 : (192 + q) % 256 = 192 + q := by omega
  have a4 : (224 + q) % 256 = 224 + q := by omega
  have b1 : (128 + q) % 32 = q := by omega
  have b2 : (160 + q) % 32 = q := by omega
  have b3 : (192 + q) % 32 = q := by omega
  have b4 : (224 + q) % 32 = q := by omega
  have c1 : 128 ≤ 128 + q := by omega
  have c2 : 128 ≤ 160 + q := by omega
  have c3 : 128 ≤ 192 + q := by omega
  have c4 : 128 ≤ 224 + q := by omega
  have d1 : ¬ 192 ≤ 128 + q := by omega
  have d2 : ¬ 192 ≤ 160 + q := by omega
  have d3 : 192 ≤ 192 + q := by omega
  have d4 : 192 ≤ 224 + q := by omega
  have e1 : ¬ 128 + q = 0 := by omega
  have e2 : ¬ 160 + q = 0 := by omega
  have e3 : ¬ 192 + q = 0 := by omega
  have e4 : ¬ 224 + q = 0 := by omega
  cases np <;> cases ns <;> cases nd <;>
    simp [lzmaControl, parseChunkHeader, byte_toNat, a1, a2, a3, a4, b1, b2, b3, b4, u, c, pb,
      c1, c2, c3, c4, d1, d2, d3, d4, e1, e2, e3, e4]

theorem parse_storedHeader (nd : Bool) (n : Nat) (rest : Bytes) (hn : 1 ≤ n ∧ n ≤ 65536) :
    parseChunkHeader (storedHeader nd n ++ rest) = some (⟨storedControl nd, n, n, none⟩, rest) := by
  obtain ⟨m, rfl⟩ : ∃ m, n = m + 1 := ⟨n - 1, by omega⟩
  simp only [storedHeader, Nat.add_sub_cancel]
  have c : m / 256 % 256 * 256 + m % 256 = m := by omega
  cases nd <;> simp [storedControl, parseChunkHeader, byte_toNat, c]

/-! ### Reading whole chunks -/

/-- `Decodes C d inp d' rest`: from decoder state `d` (at SEQ_CONTROL), reading whole chunks off the front of `inp`
    leaves `rest` unread and the decoder in state `d'` (again at SEQ_CONTROL). -/
inductive Decodes (C : Codec σ) : Dec σ → Bytes → Dec σ → Bytes → Prop
  | refl (d : Dec σ) (inp : Bytes) : Decodes C d inp d inp
  | step {d : Dec σ} {inp : Bytes} {d1 : Dec σ} {r1 : Bytes} {d2 : Dec σ} {rest : Bytes} :
      d.ended = false → d.chunk C inp = some (d1, r1) → Decodes C d1 r1 d2 rest → Decodes C d inp d2 rest

theorem Decodes.trans {C : Codec σ} {a : Dec σ} {x : Bytes} {b : Dec σ} {y : Bytes} {c : Dec σ} {z : Bytes}
    (h1 : Decodes C a x b y) (h2 : Decodes C b y c z) : Decodes C a x c z := by
  induction h1 with
  | refl => exact h2
  | step he hc _ ih => exact .step he hc (ih h2)

/-- The encoder state `l` and the state `d` of a decoder that has read everything the encoder has written agree. -/
structure Agree (C : Codec σ) (l : L2 σ) (d : Dec σ) : Prop where
  out : d.out = l.hist
  notEnded : d.ended = false
  dict : d.needDictReset = l.needDictReset
  first : l.needDictReset = true → l.hist = [] ∧ l.needProps = true
  props : l.needProps = false → d.needProps = false ∧ d.props = l.opt
  st : l.needProps = false → l.needStateReset = false → d.st = l.st
  fresh : l.needProps = true → l.needStateReset = false → l.st = C.reset l.opt
  valid : l.opt.valid = true
  reach : l.needStateReset = false → C.Reach l.opt l.st

theorem Agree.init (C : Codec σ) (p : Props) (hp : p.valid = true) : Agree C (L2.init C p) (Dec.init C) := by
  refine ⟨?_, ?_, ?_, ?_, ?_, ?_, ?_, ?_, ?_⟩ <;> try simp [L2.init, Dec.init, hp]
  exact Codec.Reach.reset p hp

/-! ### One chunk -/

theorem apply_lzma (C : Codec σ) (d : Dec σ) (ctl n : Nat) (pbyte : Option Nat) (payload tail : Bytes)
    (p : Props) (st : σ) (data : Bytes) (st' : σ)
    (hctl : 128 ≤ ctl)
    (hreset : ctl < 224 → d.needDictReset = false) (hout : 224 ≤ ctl → d.out = [])
    (hsel : d.select C ⟨ctl, n, payload.length, pbyte⟩ (if ctl ≥ 224 then true else d.needProps) = some (p, st))
    (hdec : C.dec p st d.out payload n = some (data, st')) :
    Dec.apply C d ⟨ctl, n, payload.length, pbyte⟩ (payload ++ tail)
      = some ({ d with needProps := false, needDictReset := false, props := p, st := st', out := d.out ++ data }, tail) := by
  have h0 : ¬ ctl = 0 := by omega
  have h1 : ¬ ctl = 1 := by omega
  unfold Dec.apply
  by_cases hbig : 224 ≤ ctl
  · have ho := hout hbig
    simp [h0, h1, hbig, ho] at hsel ⊢
    simp [hsel, hctl, ho] at hdec ⊢
    simp [hdec]
  · have hr := hreset (by omega)
    simp [h0, h1, hbig, hr] at hsel ⊢
    simp [hsel, hctl, hdec]

theorem apply_stored (C : Codec σ) (d : Dec σ) (nd : Bool) (data tail : Bytes)
    (hreset : nd = false → d.needDictReset = false) (hout : nd = true → d.out = []) :
    Dec.apply C d ⟨storedControl nd, data.length, data.length, none⟩ (data ++ tail)
      = some ({ d with needProps := if nd then true else d.needProps, needDictReset := false, out := d.out ++ data }, tail) := by
  unfold Dec.apply
  cases nd
  · have hr := hreset rfl
    simp [storedControl, hr]
  · have ho := hout rfl
    simp [storedControl, ho]

theorem Props.ofByte_byte (p : Props) (h : p.valid = true) : Props.ofByte p.byte = some p := by
  obtain ⟨lc, lp, pb⟩ := p
  simp [Props.valid] at h
  simp only [Props.ofByte, Props.byte]
  have : ¬ ((pb * 5 + lp) * 9 + lc > (4 * 5 + 4) * 9 + 8) := by omega
  simp only [this, if_false]
  have h1 : ((pb * 5 + lp) * 9 + lc) / (9*5) = pb := by omega
  have h2 : ((pb * 5 + lp) * 9 + lc) % 45 / 9 = lp := by omega
  have h3 : ((pb * 5 + lp) * 9 + lc) % 9 = lc := by omega
  simp [h1, h2, h3]
  omega

theorem emit_step {C : Codec σ} (hC : C.Sound) {l : L2 σ} {d : Dec σ} (ha : Agree C l d) {fl : Bool} {ch : Choice} {st1 : σ}
    (hch : C.choose fl l.opt (l.startState C) l.hist l.unenc = some (ch, st1)) (tail : Bytes) :
    ∃ d', d.chunk C ((l.emit (l.startState C) ch st1).2 ++ tail) = some (d', tail)
        ∧ Agree C (l.emit (l.startState C) ch st1).1 d' := by
  obtain ⟨h1, h2, h3, h4, h5⟩ := hC.wf _ _ _ _ _ _ _ hch
  obtain ⟨aout, aend, adict, afirst, aprops, ast, afresh, avalid, areach⟩ := ha
  -- the state the chunk is started from can occur, hence so can the state it leaves behind
  have hreach0 : C.Reach l.opt (l.startState C) := by
    unfold L2.startState
    cases hns : l.needStateReset
    · simpa using areach hns
    · simpa using Codec.Reach.reset l.opt avalid
  have hreach1 : C.Reach l.opt st1 := Codec.Reach.step hreach0 hch
  by_cases hz : ch.isLzma = true
  · have hinv := hC.inv _ _ _ _ _ _ _ hch hz
    obtain ⟨hp1, hp2⟩ := h4 hz
    simp only [L2.emit, hz, if_true]
    rw [List.append_assoc]
    unfold Dec.chunk
    rw [parse_lzmaHeader _ _ _ _ _ _ _ ⟨h1, h3⟩ ⟨hp1, hp2⟩ avalid]
    simp only
    have hq : (ch.n - 1) / 65536 < 32 := by unfold LZMA2_UNCOMPRESSED_MAX at h3; omega
    generalize (ch.n - 1) / 65536 = q at *
    have hbyte := Props.ofByte_byte l.opt avalid
    rw [← aout] at hinv
    rcases hnp : l.needProps with _ | _
    · -- no new properties: control 0x80 or 0xA0
      obtain ⟨dp1, dp2⟩ := aprops hnp
      have hnd : l.needDictReset = false := by
        cases h : l.needDictReset
        · rfl
        · have := (afirst h).2; rw [hnp] at this; cases this
      rcases hns : l.needStateReset with _ | _
      · have hst := ast hnp hns
        simp only [L2.startState, hns] at hinv
        refine ⟨_, apply_lzma C d _ _ _ _ _ l.opt l.st _ st1 (by simp [lzmaControl]) (by intro; rw [adict, hnd])
          (by simp [lzmaControl, hnd]; omega) ?_ (by simpa using hinv), ?_⟩
        · simp [Dec.select, lzmaControl, dp1, dp2, hst]; omega
        · refine ⟨?_, ?_, ?_, ?_, ?_, ?_, ?_, ?_, ?_⟩ <;> first | (intro _; exact hreach1) | simp [aout, aend, avalid]
      · simp only [L2.startState, hns] at hinv
        refine ⟨_, apply_lzma C d _ _ _ _ _ l.opt (C.reset l.opt) _ st1 (by simp [lzmaControl]; omega) (by intro; rw [adict, hnd])
          (by simp [lzmaControl, hnd]; omega) ?_ (by simpa using hinv), ?_⟩
        · simp [Dec.select, lzmaControl, dp1, dp2]; omega
        · refine ⟨?_, ?_, ?_, ?_, ?_, ?_, ?_, ?_, ?_⟩ <;> first | (intro _; exact hreach1) | simp [aout, aend, avalid]
    · -- new properties: control 0xC0 or 0xE0; the decoder resets the state, the encoder has a fresh or reset one
      have hst0 : l.startState C = C.reset l.opt := by
        unfold L2.startState
        cases hns : l.needStateReset
        · simp [afresh hnp hns]
        · simp
      rw [hst0] at hinv
      refine ⟨_, apply_lzma C d _ _ _ _ _ l.opt (C.reset l.opt) _ st1 (by simp [lzmaControl]; split <;> omega) ?_ ?_ ?_ hinv, ?_⟩
      · intro hlt
        cases hnd : l.needDictReset
        · rw [adict, hnd]
        · simp [lzmaControl, hnd] at hlt; omega
      · intro hge
        cases hnd : l.needDictReset
        · simp [lzmaControl, hnd] at hge; omega
        · rw [aout]; exact (afirst hnd).1
      · simp [Dec.select, hbyte]
      · refine ⟨?_, ?_, ?_, ?_, ?_, ?_, ?_, ?_, ?_⟩ <;> first | (intro _; exact hreach1) | simp [aout, aend, avalid]
  · -- stored chunk
    have hz' : ch.isLzma = false := by simpa using hz
    have hn := h5 hz'
    simp only [L2.emit, hz', Bool.false_eq_true, if_false]
    rw [List.append_assoc]
    unfold Dec.chunk
    have hlen : (List.take ch.n l.unenc).length = ch.n := by simp [List.length_take]; omega
    rw [parse_storedHeader _ _ _ ⟨h1, hn⟩]
    simp only
    have := apply_stored C d l.needDictReset (List.take ch.n l.unenc) tail (by intro h; rw [adict, h])
      (by intro h; rw [aout]; exact (afirst h).1)
    rw [hlen] at this
    refine ⟨_, this, ?_⟩
    constructor
    · simp [aout]
    · simp [aend]
    · simp
    · simp
    · intro hnp; simp at hnp
      have hnd : l.needDictReset = false := by
        cases h : l.needDictReset
        · rfl
        · have := (afirst h).2; rw [hnp] at this; cases this
      simp [hnd, aprops hnp]
    · intro _ h; simp at h
    · intro _ h; simp at h
    · exact avalid
    · intro h; simp at h


/-! ### The chunk loop -/

theorem emit_fields {l : L2 σ} (st0 : σ) (ch : Choice) (st1 : σ) :
    (l.emit st0 ch st1).1.opt = l.opt ∧
    (l.emit st0 ch st1).1.hist = l.hist ++ l.unenc.take ch.n ∧
    (l.emit st0 ch st1).1.unenc = l.unenc.drop ch.n := by
  unfold L2.emit; split <;> simp

/-- closeChunks: the decoder follows, nothing is lost, options stay. -/
theorem closeChunks_spec {C : Codec σ} (hC : C.Sound) (fl : Bool) :
    ∀ (fuel : Nat) (l : L2 σ) (d : Dec σ), Agree C l d → ∀ tail : Bytes,
      ∃ d', Decodes C d ((L2.closeChunks C fl fuel l).2 ++ tail) d' tail
          ∧ Agree C (L2.closeChunks C fl fuel l).1 d'
          ∧ (L2.closeChunks C fl fuel l).1.hist ++ (L2.closeChunks C fl fuel l).1.unenc = l.hist ++ l.unenc
          ∧ (L2.closeChunks C fl fuel l).1.opt = l.opt := by
  intro fuel
  induction fuel with
  | zero => intro l d ha tail; exact ⟨d, by simpa [L2.closeChunks] using Decodes.refl d tail, by simpa [L2.closeChunks] using ha, by simp [L2.closeChunks], by simp [L2.closeChunks]⟩
  | succ fuel ih =>
    intro l d ha tail
    unfold L2.closeChunks
    by_cases he : l.unenc.isEmpty = true
    · simp only [he, if_true]
      exact ⟨d, by simpa using Decodes.refl d tail, ha, by simp, by simp⟩
    · simp only [he]
      cases hch : C.choose fl l.opt (l.startState C) l.hist l.unenc with
      | none => simp only [Bool.false_eq_true, if_false]; exact ⟨d, by simpa using Decodes.refl d tail, ha, by simp, by simp⟩
      | some pr =>
        obtain ⟨ch, st1⟩ := pr
        have hwf := hC.wf _ _ _ _ _ _ _ hch
        have hn0 : ¬ ch.n = 0 := by omega
        simp only [Bool.false_eq_true, if_false, hn0]
        obtain ⟨d1, hd1, ha1⟩ := emit_step hC ha hch ((L2.closeChunks C fl fuel (l.emit (l.startState C) ch st1).1).2 ++ tail)
        obtain ⟨d2, hd2, ha2, hh2, ho2⟩ := ih _ d1 ha1 tail
        obtain ⟨f1, f2, f3⟩ := emit_fields (l := l) (l.startState C) ch st1
        refine ⟨d2, ?_, ha2, ?_, ?_⟩
        · rw [List.append_assoc]
          exact Decodes.step ha.notEnded hd1 hd2
        · rw [hh2, f2, f3, List.append_assoc, List.take_append_drop]
        · rw [ho2, f1]

/-- When flushing with enough fuel nothing stays unencoded. -/
theorem closeChunks_flush_empty {C : Codec σ} (hC : C.Sound) :
    ∀ (fuel : Nat) (l : L2 σ) (d : Dec σ), Agree C l d → l.unenc.length < fuel → (L2.closeChunks C true fuel l).1.unenc = [] := by
  intro fuel
  induction fuel with
  | zero => intro l d _ h; omega
  | succ fuel ih =>
    intro l d ha h
    unfold L2.closeChunks
    by_cases he : l.unenc.isEmpty = true
    · simp only [he, if_true]; simpa using he
    · simp only [he]
      have hne : l.unenc ≠ [] := by simpa using he
      have hreach0 : C.Reach l.opt (l.startState C) := by
        unfold L2.startState
        cases hns : l.needStateReset
        · simpa using ha.reach hns
        · simpa using Codec.Reach.reset l.opt ha.valid
      cases hch : C.choose true l.opt (l.startState C) l.hist l.unenc with
      | none => exact absurd hch (hC.live _ _ _ _ hreach0 hne)
      | some pr =>
        obtain ⟨ch, st1⟩ := pr
        have hwf := hC.wf _ _ _ _ _ _ _ hch
        have hn0 : ¬ ch.n = 0 := by omega
        simp only [Bool.false_eq_true, if_false, hn0]
        obtain ⟨f1, f2, f3⟩ := emit_fields (l := l) (l.startState C) ch st1
        obtain ⟨d1, _, ha1⟩ := emit_step hC ha hch []
        apply ih _ d1 ha1
        rw [f3, List.length_drop]; omega


/-! ### One operation -/

theorem chunk_endMarker (C : Codec σ) (d : Dec σ) (tail : Bytes) :
    d.chunk C (0 :: tail) = some ({ d with ended := true }, tail) := by
  simp [Dec.chunk, parseChunkHeader, Dec.apply]

theorem Agree.withUnenc {C : Codec σ} {l : L2 σ} {d : Dec σ} (ha : Agree C l d) (u : Bytes) :
    Agree C { l with unenc := u } d := by
  obtain ⟨a1, a2, a3, a4, a5, a6, a7, a8, a9⟩ := ha
  exact ⟨a1, a2, a3, a4, a5, a6, a7, a8, a9⟩

/-- One operation of the LZMA2 encoder. -/
theorem l2_code_spec {C : Codec σ} (hC : C.Sound) (l : L2 σ) (d : Dec σ) (ha : Agree C l d) (inp : Bytes) (a : Action) (tail : Bytes) :
    (l.code C inp a).1.hist ++ (l.code C inp a).1.unenc = l.hist ++ l.unenc ++ inp ∧
    (l.code C inp a).1.opt = l.opt ∧
    (a = .run → (l.code C inp a).2.2 = .ok) ∧
    (a ≠ .run → (l.code C inp a).2.2 = .streamEnd ∧ (l.code C inp a).1.unenc = []) ∧
    (a ≠ .finish → ∃ d', Decodes C d ((l.code C inp a).2.1 ++ tail) d' tail ∧ Agree C (l.code C inp a).1 d') ∧
    (a = .finish → ∃ d', Decodes C d ((l.code C inp a).2.1 ++ tail) d' tail ∧ d'.ended = true
        ∧ d'.out = (l.code C inp a).1.hist) := by
  have ha0 := ha.withUnenc (l.unenc ++ inp)
  generalize hl0 : ({ l with unenc := l.unenc ++ inp } : L2 σ) = l0 at ha0
  have hu0 : l0.unenc = l.unenc ++ inp := by rw [← hl0]
  have hh0 : l0.hist = l.hist := by rw [← hl0]
  have ho0 : l0.opt = l.opt := by rw [← hl0]
  have hcode : l.code C inp a =
      (if !(L2.closeChunks C (lzFlushing a true) (l0.unenc.length + 1) l0).1.unenc.isEmpty then
        ((L2.closeChunks C (lzFlushing a true) (l0.unenc.length + 1) l0).1, (L2.closeChunks C (lzFlushing a true) (l0.unenc.length + 1) l0).2,
          if a == .run then .ok else .progError)
       else ((L2.closeChunks C (lzFlushing a true) (l0.unenc.length + 1) l0).1,
          (if (lzma2SeqInitNoInput a).2 then (L2.closeChunks C (lzFlushing a true) (l0.unenc.length + 1) l0).2 ++ [0]
            else (L2.closeChunks C (lzFlushing a true) (l0.unenc.length + 1) l0).2), (lzma2SeqInitNoInput a).1)) := by
    unfold L2.code; rw [hl0]
  rw [hcode]
  have hfu : l0.unenc.length < l0.unenc.length + 1 := by omega
  generalize l0.unenc.length + 1 = fuel at hfu ⊢
  cases a
  case run =>
    obtain ⟨d', hd, ha', hh, ho⟩ := closeChunks_spec hC (lzFlushing .run true) fuel l0 d ha0 tail
    rw [hh0, hu0, ← List.append_assoc] at hh
    split <;> simp [lzma2SeqInitNoInput, ho, ho0] <;> exact ⟨by simpa using hh, d', hd, ha'⟩
  all_goals
    have hemp := closeChunks_flush_empty hC fuel l0 d ha0 hfu
    simp only [lzFlushing, Bool.and_true, (by decide : (Action.syncFlush != Action.run) = true),
      (by decide : (Action.fullFlush != Action.run) = true), (by decide : (Action.fullBarrier != Action.run) = true),
      (by decide : (Action.finish != Action.run) = true)] at hemp ⊢
  case syncFlush =>
    obtain ⟨d', hd, ha', hh, ho⟩ := closeChunks_spec hC true fuel l0 d ha0 tail
    rw [hh0, hu0, ← List.append_assoc] at hh
    simp [hemp, lzma2SeqInitNoInput, hh, ho, ho0] at hh ⊢
    exact ⟨hh, d', hd, ha'⟩
  case fullFlush =>
    obtain ⟨d', hd, ha', hh, ho⟩ := closeChunks_spec hC true fuel l0 d ha0 tail
    rw [hh0, hu0, ← List.append_assoc] at hh
    simp [hemp, lzma2SeqInitNoInput, hh, ho, ho0] at hh ⊢
    exact ⟨hh, d', hd, ha'⟩
  case fullBarrier =>
    obtain ⟨d', hd, ha', hh, ho⟩ := closeChunks_spec hC true fuel l0 d ha0 tail
    rw [hh0, hu0, ← List.append_assoc] at hh
    simp [hemp, lzma2SeqInitNoInput, hh, ho, ho0] at hh ⊢
    exact ⟨hh, d', hd, ha'⟩
  case finish =>
    obtain ⟨d', hd, ha', hh, ho⟩ := closeChunks_spec hC true fuel l0 d ha0 ([0] ++ tail)
    rw [hh0, hu0, ← List.append_assoc] at hh
    simp [hemp, lzma2SeqInitNoInput, hh, ho, ho0] at hh ⊢
    refine ⟨hh, { d' with ended := true }, ?_, rfl, ha'.out⟩
    exact hd.trans (Decodes.step ha'.notEnded (chunk_endMarker C d' tail) (Decodes.refl _ _))


theorem optionsUpdate_agree {C : Codec σ} {l : L2 σ} {d : Dec σ} (ha : Agree C l d) (p : Props) :
    Agree C (l.optionsUpdate p).1 d ∧ (l.optionsUpdate p).1.hist = l.hist ∧ (l.optionsUpdate p).1.unenc = l.unenc := by
  unfold L2.optionsUpdate
  by_cases h1 : l.atSeqInit = true
  · by_cases h2 : l.opt = p
    · simp [h1, h2]; subst h2; exact ha
    · by_cases h3 : p.valid = true
      · simp [h1, h2, h3]
        obtain ⟨a1, a2, a3, a4, a5, a6, a7, a8, a9⟩ := ha
        exact ⟨a1, a2, a3, fun h => ⟨(a4 h).1, rfl⟩, by simp, by simp, by simp, h3, by simp⟩
      · simp [h1, h2, h3]; exact ha
  · simp [h1]; exact ha

/-- a refused option change leaves the LZMA2 encoder exactly as it was -/
theorem optionsUpdate_refused {l : L2 σ} (p : Props) (h : (l.optionsUpdate p).2 ≠ .ok) : (l.optionsUpdate p).1 = l := by
  unfold L2.optionsUpdate at h ⊢
  by_cases h1 : l.atSeqInit = true
  · by_cases h2 : l.opt = p
    · simp [h1, h2] at h
    · by_cases h3 : p.valid = true
      · simp [h1, h2, h3] at h
      · simp [h1, h2, h3]
  · simp [h1]

/-- an accepted option change happens at a chunk boundary and schedules new properties plus a state reset -/
theorem optionsUpdate_ok {l : L2 σ} (p : Props) (h : (l.optionsUpdate p).2 = .ok) :
    l.unenc = [] ∧ (l.optionsUpdate p).1.opt = p ∧
    (l.opt ≠ p → p.valid = true ∧ (l.optionsUpdate p).1.needProps = true ∧ (l.optionsUpdate p).1.needStateReset = true) := by
  unfold L2.optionsUpdate at h ⊢
  by_cases h1 : l.atSeqInit = true
  · have hu : l.unenc = [] := by simpa [L2.atSeqInit] using h1
    by_cases h2 : l.opt = p
    · simp [h1, h2, hu]
    · by_cases h3 : p.valid = true
      · simp [h1, h2, h3, hu]
      · simp [h1, h2, h3] at h
  · simp [h1] at h

end XzVerif.Flush
