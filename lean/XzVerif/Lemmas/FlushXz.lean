/-
  C12 — the .xz RENDERING of the flush model (Model/Flush.lean: `Fmt`, `Seg`, `render`, `DoneBlock`) linked to the real container
  decoder model (`XzDecode.xzDecode XzEnv.stdEnv`) and to the declarative grammar (`DBlock`, `DValidXz` of Lemmas/XzGrammar.lean).

  `stdFmt check` renders Stream Header / Block Header / Index / Stream Footer with the encoders of Model/Container.lean
  (`streamHeaderEncode`, `blockHeaderEncodeWith`, `indexEncode`, `streamFooterEncode`).  Scope: chains of ONE LZMA2 filter (delta/BCJ
  are the identity on data in the flush model, so only LZMA2-only chains correspond to real streams); every Block may have its own
  dictionary size (lzma_filters_update between Blocks).  The LZMA2 payload facts come in as the hypothesis `BlockFacts` (stated for
  the executable decoder `Lzma2.lzma2Decode`); everything container-side is proved here from the C02 / C01-end-to-end lemmas
  (`goodBlock_of_header`, `stream_assembled_decodes`, `xzDecode_sound_decl`).

    Theorem A  `doneBlock_good`, `doneBlock_dblock`         a closed Block is a truthful Block / a `DBlock`
    Theorem B  `finished_stream_valid` (Index limits: `indexAppendAll … = .ok`), `finished_stream_valid_small` (numeric bounds)
  Kernel proofs, core Lean only.
-/
import XzVerif.Lemmas.FlushStream
import XzVerif.Lemmas.E2EContainer
import XzVerif.Lemmas.E2EPayload
import XzVerif.Lemmas.XzComplete
import XzVerif.Lemmas.XzStd

namespace XzVerif.FlushXz
open XzVerif XzVerif.Vli XzVerif.Container XzVerif.XzDecode XzVerif.XzEncode

/-! ## 1. the rendering -/

/-- the `lzma_filter` options the container encoders get for a filter of the flush model -/
def optsOf (f : Flush.Filter) : FilterOpts :=
  match f.kind with
  | .lzma2 => .lzma2 f.dict
  | .lzma1 => .lzma1 f.id f.props.lc f.props.lp f.props.pb f.dict
  | .delta => .delta f.dist
  | .bcj => .bcj f.id f.start

/-- an Index Record of the flush model (Unpadded Size, Uncompressed Size) as a `Container.IndexRecord` -/
def recOf (r : Nat × Nat) : IndexRecord := ⟨r.1, r.2⟩

/-- the bytes an encoder wrote, nothing if it failed -/
def orNil : Res (List UInt8) → List UInt8
  | .ok b => b
  | .error _ => []

/-- The container fields as liblzma writes them (models of Model/Container.lean); `check` is the Stream's Check ID (it is stored
    in `lzma_block.check` when a Block Header is encoded).  Block Header: `lzma_block_header_size` of the flush model, then
    `lzma_block_header_encode` with that size. -/
def stdFmt (check : Nat) : Flush.Fmt where
  streamHeader c := orNil (streamHeaderEncode { check := c })
  blockHeader fs cs us :=
    match Flush.blockHeaderSize fs cs us with
    | .error _ => []
    | .ok hs => orNil (blockHeaderEncodeWith 0 hs check cs us (fs.map optsOf))
  index recs := indexEncode (recs.map recOf)
  streamFooter c recs :=
    orNil (streamFooterEncode { check := c } (indexSize (recs.map recOf).length (indexListSize (recs.map recOf))))

theorem optsOf_lzma2 (f : Flush.Filter) (hid : f.id = Flush.ID_LZMA2) : optsOf f = .lzma2 f.dict := by
  unfold optsOf Flush.Filter.kind
  rw [hid]
  rfl

theorem flush_headerSize_lzma2 (f : Flush.Filter) (hid : f.id = Flush.ID_LZMA2) :
    Flush.blockHeaderSize [f] none none = .ok 12 := by
  have hk : f.kind = .lzma2 := by unfold Flush.Filter.kind; rw [hid]; rfl
  have hfs : f.flagsSize = .ok 3 := by
    unfold Flush.Filter.flagsSize Flush.Filter.propsSize
    rw [hk, hid]
    rfl
  unfold Flush.blockHeaderSize
  simp only [Flush.flagsSizeSum, hfs]
  rfl

theorem memOk_dict (f : Flush.Filter) (hid : f.id = Flush.ID_LZMA2) (hm : f.memOk = true) :
    f.props.valid = true ∧ 4096 ≤ f.dict ∧ f.dict ≤ 1610612736 := by
  have hk : f.kind = .lzma2 := by unfold Flush.Filter.kind; rw [hid]; rfl
  unfold Flush.Filter.memOk at hm
  rw [hk] at hm
  simp only [Bool.and_eq_true, Flush.DICT_MIN, Flush.DICT_ENC_MAX] at hm
  exact ⟨hm.1.1, of_decide_eq_true hm.1.2, of_decide_eq_true hm.2⟩

theorem header_lzma2_ok (check d : Nat) (hc : check ≤ 15) :
    ∃ hdr, blockHeaderEncodeWith 0 12 check none none [.lzma2 d] = .ok hdr := by
  have hu : blockUnpaddedSize 0 12 check none = VLI_UNKNOWN := by
    unfold blockUnpaddedSize
    rw [if_neg]
    simp only [BLOCK_HEADER_SIZE_MIN, BLOCK_HEADER_SIZE_MAX, CHECK_ID_MAX, vliIsValid]
    simp
    omega
  unfold blockHeaderEncodeWith
  rw [hu]
  simp [VLI_UNKNOWN, vliIsValid, encOptVli, headerEncodeFilters, filterFlagsEncodeOpts, FilterOpts.id, FILTER_LZMA2,
    FILTER_RESERVED_START, FILTERS_MAX, propsSize, propsEncode, vliEncodeSingle, VLI_MAX, vliEncode, vliEncodeAux]

/-- the Block Header the decoder reads back for the chain `[LZMA2 d]` without size fields -/
def lzma2Header (d : Nat) : BlockHeader :=
  { compressedSize := none, uncompressedSize := none, filters := [⟨FILTER_LZMA2, [UInt8.ofNat (lzma2DictEncode d)]⟩] }

/-- The 12-byte Block Header of a `[LZMA2 d]` chain without size fields: what `lzma_block_header_encode` writes, what
    `lzma_block_header_decode` reads back (with anything behind it), and the dictionary size `s` the stored byte declares. -/
theorem header_lzma2_spec (check d : Nat) (hc : check ≤ 15) (hd : d < 4294967296) :
    ∃ hdr s, blockHeaderEncodeWith 0 12 check none none [.lzma2 d] = .ok hdr ∧ hdr.length = 12 ∧
      (∀ t, blockHeaderDecode check (hdr ++ t) = .ok (lzma2Header d)) ∧
      FilterMatches (.lzma2 d) ⟨FILTER_LZMA2, [UInt8.ofNat (lzma2DictEncode d)]⟩ ∧
      propsDecode FILTER_LZMA2 [UInt8.ofNat (lzma2DictEncode d)] = .ok (.lzma2 s) ∧ max d 4096 ≤ s ∧ s ≤ 4294967295 := by
  obtain ⟨hdr, hh⟩ := header_lzma2_ok check d hc
  have hw : ∀ o ∈ [FilterOpts.lzma2 d], o.wf := by
    intro o ho
    simp only [List.mem_singleton] at ho
    subst ho
    exact hd
  have hrt := fun t => blockHeader_roundtrip 0 12 check none none [.lzma2 d] hdr t hw hh
  obtain ⟨hlen, -, -, -, -, raws, hfa, -⟩ := hrt []
  have hraws : ∀ raws', Forall2 FilterMatches [.lzma2 d] raws' →
      raws' = [⟨FILTER_LZMA2, [UInt8.ofNat (lzma2DictEncode d)]⟩] := by
    intro raws' hfa'
    cases hfa' with
    | cons hm hrest =>
      cases hrest
      obtain ⟨h1, h2, -⟩ := hm
      rename_i r
      cases r with
      | mk id props =>
        simp only [FilterOpts.id, propsEncode, Except.ok.injEq] at h1 h2
        rw [h1, ← h2]
  have hfm : FilterMatches (.lzma2 d) ⟨FILTER_LZMA2, [UInt8.ofNat (lzma2DictEncode d)]⟩ := by
    have := hraws raws hfa
    subst this
    cases hfa with
    | cons hm _ => exact hm
  obtain ⟨-, -, o', ho', s, hs1, hs2, hs3⟩ := hfm
  subst hs1
  refine ⟨hdr, s, hh, hlen, ?_, ⟨rfl, rfl, _, ho', s, rfl, hs2, hs3⟩, ho', hs2, by unfold UINT32_MAX at hs3; exact hs3⟩
  intro t
  obtain ⟨-, -, -, -, -, raws', hfa', hdec'⟩ := hrt t
  rw [hdec', hraws raws' hfa']
  rfl

/-- Deliverable 1 in one statement: for a chain `[f]`, `f` LZMA2 with acceptable options, the flush model's header size is 12,
    `stdFmt` renders the header as the 12 bytes `lzma_block_header_encode` writes, these decode to `lzma2Header f.dict`, and the
    dictionary size the decoder derives is `s` with `f.dict ≤ s ≤ 2^32 − 1`. -/
theorem stdFmt_blockHeader_lzma2 (check : Nat) (hc : check ≤ 15) (f : Flush.Filter) (hid : f.id = Flush.ID_LZMA2)
    (hm : f.memOk = true) :
    ∃ hdr s, Flush.blockHeaderSize [f] none none = .ok 12 ∧
      blockHeaderEncodeWith 0 12 check none none [.lzma2 f.dict] = .ok hdr ∧
      (stdFmt check).blockHeader [f] none none = hdr ∧ hdr.length = 12 ∧
      (∀ t, blockHeaderDecode check (hdr ++ t) = .ok (lzma2Header f.dict)) ∧
      propsDecode FILTER_LZMA2 [UInt8.ofNat (lzma2DictEncode f.dict)] = .ok (.lzma2 s) ∧ f.dict ≤ s ∧ s ≤ 4294967295 := by
  obtain ⟨-, hd1, hd2⟩ := memOk_dict f hid hm
  obtain ⟨hdr, s, hh, hlen, hdec, -, hp, hs1, hs2⟩ := header_lzma2_spec check f.dict hc (by omega)
  refine ⟨hdr, s, flush_headerSize_lzma2 f hid, hh, ?_, hlen, hdec, hp, by omega, hs2⟩
  show (match Flush.blockHeaderSize [f] none none with
    | .error _ => []
    | .ok hs => orNil (blockHeaderEncodeWith 0 hs check none none ([f].map optsOf))) = hdr
  rw [flush_headerSize_lzma2 f hid]
  simp only [List.map_cons, List.map_nil, optsOf_lzma2 f hid, hh]
  rfl

theorem flush_checkSize_eq (c : Nat) (h : c ≤ 15) : Flush.checkSize c = Container.checkSize c := by
  unfold Flush.checkSize Container.checkSize Flush.checkSizes Container.checkSizes CHECK_ID_MAX
  rw [if_neg (by omega)]

theorem compressedSizeMax_eq : Flush.COMPRESSED_SIZE_MAX = Container.COMPRESSED_SIZE_MAX := by decide

theorem check_len (check : Nat) (hsup : checkIsSupported check = true) (x : List UInt8) :
    (XzEnv.check check x).length = Container.checkSize check :=
  stdCheck_len (fun _ => .ok) (fun _ y => y) check x hsup

theorem check_zero (x : List UInt8) : XzEnv.check 0 x = [] := by
  have := check_len 0 (by decide) x
  exact List.eq_nil_of_length_eq_zero (by rw [this]; rfl)

theorem checkField_eq (check : Nat) (x : List UInt8) :
    (if check = 0 then [] else XzEnv.check check x) = XzEnv.check check x := by
  by_cases h : check = 0
  · rw [if_pos h, h, check_zero]
  · rw [if_neg h]

/-- `Flush.blockTail` with the real Check function is Block Padding followed by the Check field the decoder expects. -/
theorem blockTail_std {σ : Type} (E : Flush.Env σ) (hck : ∀ id d, E.checkBytes id d = XzEnv.check id d)
    (check n : Nat) (data : List UInt8) :
    Flush.blockTail E check n data = List.replicate (blockPadLen n) 0 ++ (if check = 0 then [] else XzEnv.check check data) := by
  unfold Flush.blockTail blockPadLen
  rw [hck]

/-! ## 2. the payload of an LZMA2-only Block -/

/-- Whatever Filter Flags the header stores for `[LZMA2 d]` (dictionary size rounded up to `s`), the raw decoder of `stdEnv`
    run on `comp ++ anything` is `lzma2Decode s comp`. -/
theorem payload_lzma2 (d : Nat) (comp x : List UInt8)
    (hdec : ∀ s cap, d ≤ s → s ≤ 4294967295 → x.length ≤ cap →
      Lzma2.lzma2Decode s comp [] cap = { ret := .streamEnd, out := x, consumed := comp.length })
    (raws : List Container.Filter) (hr : Forall2 FilterMatches [.lzma2 d] raws) (t : List UInt8) (c : Nat) (hc : x.length ≤ c) :
    XzEnv.stdEnv.payload raws (comp ++ t) c = ⟨.streamEnd, x, comp.length⟩ := by
  obtain ⟨s, hm, hds, hs⟩ := E2E.mapM_decode [] raws d hr rfl
  have hch := E2E.chainOf_std Delta.decodeAll raws [] s [] hm rfl rfl
  show XzEnv.payloadWith Delta.decodeAll raws (comp ++ t) c = _
  rw [XzEnv.payloadWith_eq, hch]
  simp only []
  rw [E2E.rawDecode_stream [] s comp x t c (hdec s c hds (by unfold UINT32_MAX at hs; exact hs) hc)]
  rfl

/-! ## 3. the per-Block interface -/

/-- What the flush model knows about a finished Block, in terms of the executable LZMA2 decoder. -/
structure BlockFacts (check : Nat) (b : Flush.DoneBlock) (rec : Nat × Nat) : Prop where
  chain : ∃ f, b.chain = [f] ∧ f.id = Flush.ID_LZMA2 ∧ f.memOk = true
  shape : ∃ comp, b.body = comp ++ List.replicate ((4 - comp.length % 4) % 4) 0 ++ (if check = 0 then [] else XzEnv.check check b.data)
      ∧ rec = (12 + comp.length + Flush.checkSize check, b.data.length)
      ∧ 1 ≤ comp.length ∧ comp.length ≤ Flush.COMPRESSED_SIZE_MAX ∧ b.data.length ≤ Vli.VLI_MAX
      ∧ ∀ s cap, (∀ f ∈ b.chain, f.dict ≤ s) → s ≤ 4294967295 → b.data.length ≤ cap →
          Lzma2.lzma2Decode s comp [] cap = { ret := .streamEnd, out := b.data, consumed := comp.length }
  nonempty : b.data ≠ []

/-- `BlockFacts` from the decoding fact for EVERY dictionary size from 4 KiB up (stronger than needed). -/
theorem BlockFacts.of_all_dicts {check : Nat} {b : Flush.DoneBlock} {rec : Nat × Nat}
    (chain : ∃ f, b.chain = [f] ∧ f.id = Flush.ID_LZMA2 ∧ f.memOk = true)
    (shape : ∃ comp, b.body = comp ++ List.replicate ((4 - comp.length % 4) % 4) 0 ++ (if check = 0 then [] else XzEnv.check check b.data)
      ∧ rec = (12 + comp.length + Flush.checkSize check, b.data.length)
      ∧ 1 ≤ comp.length ∧ comp.length ≤ Flush.COMPRESSED_SIZE_MAX ∧ b.data.length ≤ Vli.VLI_MAX
      ∧ ∀ s cap, 4096 ≤ s → s ≤ 4294967295 → b.data.length ≤ cap →
          Lzma2.lzma2Decode s comp [] cap = { ret := .streamEnd, out := b.data, consumed := comp.length })
    (nonempty : b.data ≠ []) : BlockFacts check b rec := by
  obtain ⟨f, hc, hid, hm⟩ := chain
  obtain ⟨comp, h1, h2, h3, h4, h5, h6⟩ := shape
  refine ⟨⟨f, hc, hid, hm⟩, ⟨comp, h1, h2, h3, h4, h5, ?_⟩, nonempty⟩
  intro s cap hs
  have := (memOk_dict f hid hm).2.1
  have hfs := hs f (by rw [hc]; simp)
  exact h6 s cap (by omega)

/-! ## 4. Theorem A: a finished Block is a Block of the grammar -/

/-- The pieces of a finished Block. -/
theorem BlockFacts.unpack {check : Nat} (hsup : checkIsSupported check = true) {b : Flush.DoneBlock} {rec : Nat × Nat}
    (h : BlockFacts check b rec) :
    ∃ (f : Flush.Filter) (hdr comp : List UInt8),
      b.chain = [f] ∧ f.id = Flush.ID_LZMA2 ∧ 4096 ≤ f.dict ∧ f.dict ≤ 1610612736 ∧
      (stdFmt check).blockHeader b.chain none none = hdr ∧
      blockHeaderEncodeWith 0 12 check none none [.lzma2 f.dict] = .ok hdr ∧
      b.body = comp ++ blockPadding comp.length ++ XzEnv.check check b.data ∧
      rec = (blockUnpaddedSize 0 12 check (some comp.length), b.data.length) ∧
      rec.1 = comp.length + 12 + Container.checkSize check ∧
      1 ≤ comp.length ∧ comp.length ≤ Container.COMPRESSED_SIZE_MAX ∧ b.data.length ≤ VLI_MAX ∧
      (∀ s cap, f.dict ≤ s → s ≤ 4294967295 → b.data.length ≤ cap →
          Lzma2.lzma2Decode s comp [] cap = { ret := .streamEnd, out := b.data, consumed := comp.length }) := by
  obtain ⟨⟨f, hc, hid, hm⟩, ⟨comp, hbody, hrec, hc1, hcmax, hdl, hdec⟩, _⟩ := h
  have hc15 := checkIsSupported_le check hsup
  obtain ⟨-, hd1, hd2⟩ := memOk_dict f hid hm
  obtain ⟨hdr, hh⟩ := header_lzma2_ok check f.dict hc15
  have hfmt : (stdFmt check).blockHeader b.chain none none = hdr := by
    show (match Flush.blockHeaderSize b.chain none none with
      | .error _ => []
      | .ok hs => orNil (blockHeaderEncodeWith 0 hs check none none (b.chain.map optsOf))) = hdr
    rw [hc, flush_headerSize_lzma2 f hid]
    simp only [List.map_cons, List.map_nil, optsOf_lzma2 f hid, hh]
    rfl
  rw [compressedSizeMax_eq] at hcmax
  have hcs64 := (checkSize_facts check (by omega)).2
  have hcm := consts_eval.1
  have hu : blockUnpaddedSize 0 12 check (some comp.length) = comp.length + 12 + Container.checkSize check := by
    unfold blockUnpaddedSize
    rw [if_neg]
    · simp only []
      rw [if_neg]
      unfold UNPADDED_SIZE_MAX
      omega
    · simp only [BLOCK_HEADER_SIZE_MIN, BLOCK_HEADER_SIZE_MAX, CHECK_ID_MAX, vliIsValid, VLI_MAX]
      simp
      refine ⟨decide_eq_true (by omega), ?_, hc15⟩
      intro h0
      rw [h0] at hc1
      simp at hc1
  refine ⟨f, hdr, comp, hc, hid, hd1, hd2, hfmt, hh, ?_, ?_, ?_, hc1, hcmax, hdl, ?_⟩
  · rw [hbody, checkField_eq]; rfl
  · rw [hrec, hu, flush_checkSize_eq check hc15]
    congr 1
    omega
  · rw [hrec, flush_checkSize_eq check hc15]
    simp only []
    omega
  · intro s cap hs
    exact hdec s cap (by intro g hg; rw [hc] at hg; simp only [List.mem_singleton] at hg; subst hg; exact hs)

/-- **Theorem A.**  Every Block the Stream encoder model has closed (LZMA_FULL_FLUSH / LZMA_FULL_BARRIER / LZMA_FINISH), rendered
    with `stdFmt`, is a truthful Block for the container decoder over the executable LZMA2 decoder. -/
theorem doneBlock_good (check : Nat) (hsup : checkIsSupported check = true) (b : Flush.DoneBlock) (rec : Nat × Nat)
    (h : BlockFacts check b rec) :
    GoodBlock XzEnv.stdEnv check b.data ((stdFmt check).blockHeader b.chain none none ++ b.body) rec.1 := by
  obtain ⟨f, hdr, comp, hc, hid, hd1, hd2, hfmt, hh, hbody, hrec, -, hc1, hcmax, hdl, hdec⟩ := h.unpack hsup
  have hw : ∀ o ∈ [FilterOpts.lzma2 f.dict], o.wf := by
    intro o ho
    simp only [List.mem_singleton] at ho
    subst ho
    show f.dict < 4294967296
    omega
  have := goodBlock_of_header XzEnv.stdEnv check 12 none none [.lzma2 f.dict] hdr comp b.data (XzEnv.check check b.data) 1
    hw hh (by rfl) (Or.inl rfl) (Or.inl rfl)
    (fun raws hr t c hcap => payload_lzma2 f.dict comp b.data hdec raws hr t c hcap) hcmax hdl rfl (check_len check hsup _)
  rw [hfmt, hbody, hrec]
  simpa [List.append_assoc] using this

/-- **Theorem A, field by field** (the declarative Block `DBlock` of Lemmas/XzGrammar.lean): the 12 header bytes decode (with
    anything behind them) to a Block Header without size fields whose only Filter Flags entry is LZMA2 with the dictionary-size
    byte of `f.dict`, which declares `s ≥ f.dict`; the chain is valid; behind the header come Compressed Data `comp` that the
    payload decoder maps to exactly `b.data` (for every output allowance that holds the data), `blockPadLen |comp|` zero bytes,
    and the Check of `b.data`; the Index Record is (Unpadded Size, Uncompressed Size) of this Block. -/
theorem doneBlock_dblock (check : Nat) (hsup : checkIsSupported check = true) (b : Flush.DoneBlock) (rec : Nat × Nat)
    (h : BlockFacts check b rec) :
    ∃ (f : Flush.Filter) (hdr comp : List UInt8) (s : Nat),
      b.chain = [f] ∧ (stdFmt check).blockHeader b.chain none none = hdr ∧ hdr.length = 12 ∧
      (∀ t, blockHeaderDecode check (hdr ++ t) = .ok (lzma2Header f.dict)) ∧
      propsDecode FILTER_LZMA2 [UInt8.ofNat (lzma2DictEncode f.dict)] = .ok (.lzma2 s) ∧ f.dict ≤ s ∧ s ≤ 4294967295 ∧
      validateChain ((lzma2Header f.dict).filters.map (·.id)) = .ok 1 ∧
      b.body = comp ++ List.replicate (blockPadLen comp.length) 0 ++ (if check = 0 then [] else XzEnv.check check b.data) ∧
      rec = (comp.length + 12 + Container.checkSize check, b.data.length) ∧
      ∀ (cap : Nat) (ign : Bool), b.data.length ≤ cap →
        DBlock XzEnv.stdEnv check ign (lzma2Header f.dict) cap comp b.data
          (List.replicate (blockPadLen comp.length) 0) (if check = 0 then [] else XzEnv.check check b.data) := by
  obtain ⟨f, hdr, comp, hc, hid, hd1, hd2, hfmt, hh, hbody, hrec, hrec1, hc1, hcmax, hdl, hdec⟩ := h.unpack hsup
  obtain ⟨hdr', s, hh', hlen, hdecs, hfm, ho', hs2, hs3⟩ := header_lzma2_spec check f.dict (checkIsSupported_le check hsup) (by omega)
  have hhdr : hdr' = hdr := by rw [hh] at hh'; exact (Except.ok.inj hh').symm
  subst hhdr
  have hpayload := payload_lzma2 f.dict comp b.data hdec _ (Forall2.cons (R := FilterMatches) hfm Forall2.nil)
  refine ⟨f, hdr', comp, s, hc, hfmt, hlen, hdecs, ho', by omega, hs3, by rfl, ?_, ?_, ?_⟩
  · rw [hbody, checkField_eq]; rfl
  · rw [← hrec1]
    rw [hrec]
  · intro cap ign hcap
    refine ⟨?_, (by intro x hx; cases hx), (by intro u hu; cases hu), rfl, ?_, ?_⟩
    · have := hpayload [] (outAllowance cap (lzma2Header f.dict)) (by
          unfold outAllowance lzma2Header uncompressedLimit
          simp only []
          exact Nat.le_min.mpr ⟨hcap, hdl⟩)
      rw [List.append_nil] at this
      exact this
    · by_cases h0 : check = 0
      · rw [if_pos h0, if_pos h0]; rfl
      · rw [if_neg h0, if_neg h0]; exact check_len check hsup _
    · intro h0 _ _
      rw [if_neg h0]
      rfl

/-! ## 5. Theorem B: a finished Stream -/

theorem indexAppend_bsize (a a' : IndexAcc) (u c : Nat) (h : indexAppend a u c = .ok a') :
    indexSize a'.count a'.listSize ≤ BACKWARD_SIZE_MAX := by
  unfold indexAppend at h
  by_cases g1 : u < UNPADDED_SIZE_MIN ∨ u > UNPADDED_SIZE_MAX ∨ c > VLI_MAX
  · rw [if_pos g1] at h; simp at h
  rw [if_neg g1] at h
  simp only at h
  by_cases g2 : a.uncompressedSum + c > VLI_MAX
  · rw [if_pos g2] at h; simp at h
  rw [if_neg g2] at h
  by_cases g3 : ceil4 a.unpaddedSum + u > UNPADDED_SIZE_MAX
  · rw [if_pos g3] at h; simp at h
  rw [if_neg g3] at h
  by_cases g4 : indexFileSize 0 (ceil4 a.unpaddedSum + u) (a.count + 1) (a.listSize + (vliSize u + vliSize c)) 0 = none
  · rw [if_pos g4] at h; simp at h
  rw [if_neg g4] at h
  by_cases g5 : indexSize (a.count + 1) (a.listSize + (vliSize u + vliSize c)) > BACKWARD_SIZE_MAX
  · rw [if_pos g5] at h; simp at h
  rw [if_neg g5] at h
  simp only [Except.ok.injEq] at h
  subst h
  simp only []
  omega

theorem indexAppendAll_bsize : ∀ (rs : List IndexRecord) (a a' : IndexAcc), indexAppendAll rs a = .ok a' → rs ≠ [] →
    indexSize a'.count a'.listSize ≤ BACKWARD_SIZE_MAX := by
  intro rs
  induction rs with
  | nil => intro _ _ _ h; exact absurd rfl h
  | cons r rs ih =>
    intro a a' h _
    simp only [indexAppendAll] at h
    cases h1 : indexAppend a r.unpadded r.uncompressed with
    | error e => simp [h1] at h
    | ok a1 =>
      simp only [h1] at h
      by_cases hn : rs = []
      · subst hn
        simp only [indexAppendAll, Except.ok.injEq] at h
        subst h
        exact indexAppend_bsize _ _ _ _ h1
      · exact ih a1 a' h hn

/-- `lzma_index_append` accepted every Record, so the Index size fits the Backward Size field. -/
theorem footer_ok (check : Nat) (hc : check ≤ 15) (rs : List IndexRecord) (acc : IndexAcc)
    (hall : indexAppendAll rs {} = .ok acc) :
    ∃ ftr, streamFooterEncode { check := check } (indexSize rs.length (indexListSize rs)) = .ok ftr := by
  have hb : indexSize rs.length (indexListSize rs) ≤ BACKWARD_SIZE_MAX := by
    by_cases hn : rs = []
    · subst hn; decide
    · have := indexAppendAll_bsize rs {} acc hall hn
      obtain ⟨h1, h2⟩ := indexAppendAll_counts rs {} acc hall
      rw [h1, h2] at this
      simpa using this
  have hv : isBackwardSizeValid (indexSize rs.length (indexListSize rs)) = true := by
    unfold isBackwardSizeValid
    have : indexSize rs.length (indexListSize rs) % 4 = 0 ∧ 4 ≤ indexSize rs.length (indexListSize rs) := by
      unfold indexSize ceil4 indexSizeUnpadded
      omega
    unfold BACKWARD_SIZE_MIN
    exact decide_eq_true ⟨this.2, hb, this.1⟩
  unfold streamFooterEncode streamFlagsBytes
  simp only []
  rw [if_neg (by simp), hv]
  simp only [Bool.not_true, Bool.false_eq_true, if_false]
  rw [if_neg (by unfold CHECK_ID_MAX; omega)]
  exact ⟨_, rfl⟩

theorem header_ok (check : Nat) (hc : check ≤ 15) : ∃ hb, streamHeaderEncode { check := check } = .ok hb := by
  unfold streamHeaderEncode streamFlagsBytes
  simp only []
  rw [if_neg (by simp), if_neg (by unfold CHECK_ID_MAX; omega)]
  exact ⟨_, rfl⟩

/-- The finished Blocks with their Records form a list of truthful Blocks. -/
theorem blockList_of_done (check : Nat) (hsup : checkIsSupported check = true) :
    ∀ (done : List Flush.DoneBlock) (recs : List (Nat × Nat)), recs.length = done.length →
      (∀ (i : Nat) b r, done[i]? = some b → recs[i]? = some r → BlockFacts check b r) →
      ∃ bl : BlockList, bl.bytes = Flush.doneBytes (stdFmt check) done ∧ bl.data = Flush.doneData done ∧
        bl.recs = recs.map recOf ∧ ∀ q ∈ bl, GoodBlock XzEnv.stdEnv check q.1 q.2.1 q.2.2 := by
  intro done
  induction done with
  | nil =>
    intro recs hl _
    have : recs = [] := List.eq_nil_of_length_eq_zero (by simpa using hl)
    subst this
    exact ⟨[], rfl, rfl, rfl, by intro q hq; simp at hq⟩
  | cons b done ih =>
    intro recs hl hf
    cases recs with
    | nil => simp at hl
    | cons r recs =>
      have hb : BlockFacts check b r := hf 0 b r rfl rfl
      obtain ⟨bl, e1, e2, e3, e4⟩ := ih recs (by simpa using hl) (fun i b' r' h1 h2 => hf (i + 1) b' r' (by simpa using h1) (by simpa using h2))
      have hr2 : r.2 = b.data.length := by
        obtain ⟨comp, -, hrec, -⟩ := hb.shape
        rw [hrec]
      refine ⟨(b.data, (stdFmt check).blockHeader b.chain none none ++ b.body, r.1) :: bl, ?_, ?_, ?_, ?_⟩
      · rw [BlockList.bytes_cons, e1]; simp [Flush.doneBytes]
      · rw [BlockList.data_cons, e2]; simp [Flush.doneData]
      · rw [BlockList.recs_cons, e3, List.map_cons, ← hr2]; rfl
      · intro q hq
        rcases List.mem_cons.mp hq with hq | hq
        · subst hq; exact doneBlock_good check hsup b r hb
        · exact e4 q hq

/-- **Theorem B.**  The bytes of a finished Stream — Stream Header, the closed Blocks, Index, Stream Footer, rendered with
    `stdFmt` — are accepted by the container decoder over the executable LZMA2 decoder, for every decoder flag combination and
    every output space that holds the data; the output is the concatenation of the Blocks' data, every byte is consumed; and the
    bytes are an instance of the declarative grammar.  Size hypothesis: `lzma_index_append` (model `indexAppendAll`) accepted
    every Record — stream_encoder.c returns its error code otherwise, which the flush model does not represent.
    `done = []` (LZMA_FINISH without input: header, empty Index, footer) is included. -/
theorem finished_stream_valid (check : Nat) (hsup : checkIsSupported check = true)
    (done : List Flush.DoneBlock) (recs : List (Nat × Nat)) (hlen : recs.length = done.length)
    (hfacts : ∀ (i : Nat) b r, done[i]? = some b → recs[i]? = some r → BlockFacts check b r)
    (acc : IndexAcc) (hidx : indexAppendAll (recs.map recOf) {} = .ok acc)
    (fl : Flags) (cap : Nat) (hcap : (Flush.doneData done).length ≤ cap) (out : List UInt8)
    (hout : out = (stdFmt check).streamHeader check ++ Flush.doneBytes (stdFmt check) done ++ (stdFmt check).index recs
              ++ (stdFmt check).streamFooter check recs) :
    xzDecode XzEnv.stdEnv fl out cap
      = { ret := .streamEnd, out := Flush.doneData done, consumed := out.length,
          events := headerEvents XzEnv.stdEnv fl check }
    ∧ DValidXz XzEnv.stdEnv fl out cap (Flush.doneData done) out.length := by
  have hc15 := checkIsSupported_le check hsup
  obtain ⟨bl, e1, e2, e3, e4⟩ := blockList_of_done check hsup done recs hlen hfacts
  obtain ⟨hb, hhdr⟩ := header_ok check hc15
  obtain ⟨ftr, hftr⟩ := footer_ok check hc15 (recs.map recOf) acc hidx
  have htail : streamTail check bl.recs = .ok (indexEncode bl.recs ++ ftr) := by
    unfold streamTail
    rw [e3, hftr]
  have hap : AppendsOk [] bl.recs := by
    rw [e3]; exact appendsOk_of_appendAll _ [] {} acc accOf_nil hidx
  have hdecode := stream_assembled_decodes XzEnv.stdEnv fl check hb _ bl acc cap hhdr e4 hap (by rw [e3]; exact hidx) htail
    (by rw [e2]; exact hcap)
  have hbytes : out = hb ++ bl.bytes ++ (indexEncode bl.recs ++ ftr) := by
    rw [hout, e1, e3]
    have h1 : (stdFmt check).streamHeader check = hb := by
      show orNil (streamHeaderEncode { check := check }) = hb
      rw [hhdr]; rfl
    have h2 : (stdFmt check).index recs = indexEncode (recs.map recOf) := rfl
    have h3 : (stdFmt check).streamFooter check recs = ftr := by
      show orNil (streamFooterEncode { check := check } (indexSize (recs.map recOf).length (indexListSize (recs.map recOf)))) = ftr
      rw [hftr]; rfl
    rw [h1, h2, h3]
    simp only [List.append_assoc]
  rw [← hbytes, e2] at hdecode
  refine ⟨hdecode, ?_⟩
  have := xzDecode_sound_decl XzEnv.stdEnv XzEnv.payloadLocal_std XzEnv.payloadBounded_std fl out cap (by rw [hdecode])
  rw [hdecode] at this
  exact this

/-! ## 6. a purely numeric sufficient condition for the Index limits -/

theorem indexAppendAll_of_small : ∀ (rs : List IndexRecord) (a : IndexAcc) (k U C : Nat),
    a.count = k → a.listSize ≤ 18 * k → a.unpaddedSum ≤ U + 3 * k → a.uncompressedSum ≤ C →
    k + rs.length ≤ 536870912 →
    U + (rs.map (·.unpadded)).sum ≤ 4611686018427387904 → C + (rs.map (·.uncompressed)).sum ≤ 4611686018427387904 →
    (∀ r ∈ rs, 5 ≤ r.unpadded) →
    ∃ a', indexAppendAll rs a = .ok a' := by
  intro rs
  induction rs with
  | nil => intro a _ _ _ _ _ _ _ _ _ _ _; exact ⟨a, rfl⟩
  | cons r rs ih =>
    intro a k U C hk hl hu hc hn hU hC hmin
    simp only [List.map_cons, List.sum_cons, List.length_cons] at hn hU hC
    have h5 := hmin r (List.mem_cons_self ..)
    have hv1 := vliSize_le r.unpadded
    have hv2 := vliSize_le r.uncompressed
    have hv3 := vliSize_le (a.count + 1)
    have hce : ceil4 a.unpaddedSum ≤ a.unpaddedSum + 3 := by unfold ceil4; omega
    have hidx : indexSize (a.count + 1) (a.listSize + (vliSize r.unpadded + vliSize r.uncompressed)) ≤ 18 * (k + 1) + 17 := by
      unfold indexSize indexSizeUnpadded ceil4
      omega
    have hstep : ∃ a1, indexAppend a r.unpadded r.uncompressed = .ok a1 ∧ a1.count = k + 1 ∧ a1.listSize ≤ 18 * (k + 1) ∧
        a1.unpaddedSum ≤ (U + r.unpadded) + 3 * (k + 1) ∧ a1.uncompressedSum ≤ C + r.uncompressed := by
      unfold indexAppend
      rw [if_neg (by unfold UNPADDED_SIZE_MIN UNPADDED_SIZE_MAX VLI_MAX; omega)]
      simp only []
      rw [if_neg (by unfold VLI_MAX; omega), if_neg (by unfold UNPADDED_SIZE_MAX; omega)]
      rw [if_neg, if_neg (by unfold BACKWARD_SIZE_MAX; omega)]
      · exact ⟨_, rfl, by simp only []; omega, by simp only []; omega, by simp only []; omega, by simp only []; omega⟩
      · unfold indexFileSize STREAM_HEADER_SIZE
        have hce2 : ceil4 (ceil4 a.unpaddedSum + r.unpadded) ≤ ceil4 a.unpaddedSum + r.unpadded + 3 := by unfold ceil4; omega
        simp only [Nat.zero_add, Nat.add_zero]
        rw [if_neg (by unfold VLI_MAX; omega), if_neg (by unfold VLI_MAX; omega)]
        simp
    obtain ⟨a1, h1, i1, i2, i3, i4⟩ := hstep
    simp only [indexAppendAll, h1]
    exact ih a1 (k + 1) (U + r.unpadded) (C + r.uncompressed) i1 i2 i3 i4 (by omega) (by omega) (by omega)
      (fun q hq => hmin q (List.mem_cons_of_mem _ hq))

/-- **Theorem B with a numeric size hypothesis**: at most 2^29 Blocks, Unpadded Sizes and Uncompressed Sizes adding up to at
    most 2^62 each — then `lzma_index_append` accepts every Record. -/
theorem finished_stream_valid_small (check : Nat) (hsup : checkIsSupported check = true)
    (done : List Flush.DoneBlock) (recs : List (Nat × Nat)) (hlen : recs.length = done.length)
    (hfacts : ∀ (i : Nat) b r, done[i]? = some b → recs[i]? = some r → BlockFacts check b r)
    (hn : recs.length ≤ 536870912) (hU : (recs.map (·.1)).sum ≤ 4611686018427387904)
    (hC : (recs.map (·.2)).sum ≤ 4611686018427387904)
    (fl : Flags) (cap : Nat) (hcap : (Flush.doneData done).length ≤ cap) (out : List UInt8)
    (hout : out = (stdFmt check).streamHeader check ++ Flush.doneBytes (stdFmt check) done ++ (stdFmt check).index recs
              ++ (stdFmt check).streamFooter check recs) :
    xzDecode XzEnv.stdEnv fl out cap
      = { ret := .streamEnd, out := Flush.doneData done, consumed := out.length,
          events := headerEvents XzEnv.stdEnv fl check }
    ∧ DValidXz XzEnv.stdEnv fl out cap (Flush.doneData done) out.length := by
  have hmin : ∀ q ∈ recs.map recOf, 5 ≤ q.unpadded := by
    intro q hq
    obtain ⟨r, hr, hqr⟩ := List.mem_map.mp hq
    obtain ⟨i, hi, hri⟩ := List.mem_iff_getElem.mp hr
    have hi' : i < done.length := by omega
    have hb := hfacts i done[i] r (List.getElem?_eq_getElem hi') (by rw [List.getElem?_eq_getElem hi, hri])
    obtain ⟨f, hdr, comp, _, _, _, _, _, _, _, _, hrec1, _⟩ := hb.unpack hsup
    rw [← hqr]
    show 5 ≤ r.1
    omega
  obtain ⟨acc, hidx⟩ := indexAppendAll_of_small (recs.map recOf) {} 0 0 0 rfl (by simp) (by simp) (by simp)
    (by simpa using hn)
    (by simpa [recOf, Function.comp_def] using hU) (by simpa [recOf, Function.comp_def] using hC) hmin
  exact finished_stream_valid check hsup done recs hlen hfacts acc hidx fl cap hcap out hout

end XzVerif.FlushXz
