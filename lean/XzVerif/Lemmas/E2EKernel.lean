/-
  C01 end-to-end, step 7 (for the non-vacuity examples): a KERNEL-EVALUABLE way to establish that the executable LZMA2
  chunker accepts a concrete trace.

  `Lzma2Enc.lzma2Encode` / `encodeChunk` / `nextMarker` use `while` loops, i.e. `Lean.Loop.forIn`, which is defined through
  a fixpoint the kernel cannot run, so `decide +kernel` gets stuck on them.  Here the same loop BODIES are run by a
  structurally recursive driver with explicit fuel (`runN`); whenever the bounded run finishes, the `while` loop returns
  the same state (`loop_of_runN`, from the unfolding equation `Loop.forIn_eq_of_monadTail`).  Hence
      `lzma2EncodeK p d buf base tr = some out  →  ∃ res, lzma2Encode p d buf base tr = .ok res ∧ res.out = out`
  and the left-hand side is a closed term the kernel evaluates.  (One direction only: this is a proof device for
  examples, not a second model.)
-/
import XzVerif.Lemmas.Lzma2EncExec

namespace XzVerif.LzmaExec
open XzVerif.RangeDec XzVerif.RangeEnc XzVerif.Lzma XzVerif.LzmaEnc XzVerif.Lzma2Enc

/-- at most `n` iterations of a loop body; `none` = error or not finished -/
def runN {β ε : Type} (f : Unit → β → Except ε (ForInStep β)) : Nat → β → Option β
  | 0, _ => none
  | n + 1, b =>
    match f () b with
    | .error _ => none
    | .ok (.done b') => some b'
    | .ok (.yield b') => runN f n b'

/-- If the bounded run of a body `fK` finishes, and `f` does whatever `fK` does when `fK` succeeds, then the `while`
    loop over `f` returns the same state. -/
theorem loop_of_runN {β ε : Type} (f fK : Unit → β → Except ε (ForInStep β))
    (hK : ∀ b r, fK () b = .ok r → f () b = .ok r) :
    ∀ (n : Nat) (b r : β), runN fK n b = some r → forIn Lean.Loop.mk b f = .ok r := by
  intro n
  induction n with
  | zero => intro b r h; cases h
  | succ n ih =>
    intro b r h
    show Lean.Loop.forIn Lean.Loop.mk b f = .ok r
    rw [Lean.Loop.forIn_eq_of_monadTail]
    simp only [runN] at h
    cases hf : fK () b with
    | error e => rw [hf] at h; cases h
    | ok st =>
      rw [hf] at h
      rw [hK b st hf]
      cases st with
      | done b' =>
        simp only [Option.some.injEq] at h
        subst h
        rfl
      | yield b' =>
        simp only [bind, Except.bind]
        exact ih b' r h

/-! ## `nextMarker` -/

def nextMarkerK (tr : Array TraceRec) : Nat → Nat → Nat
  | 0, j => j
  | n + 1, j => if (decide (j < tr.size) && tr[j]!.kind != 2) = true then nextMarkerK tr n (j + 1) else j

theorem nextMarker_loop (tr : Array TraceRec) : ∀ (n j : Nat), tr.size - j ≤ n →
    (forIn (m := Id) Lean.Loop.mk j fun (_ : Unit) (s : Nat) =>
        if (decide (s < tr.size) && tr[s]!.kind != 2) = true then pure (ForInStep.yield (s + 1)) else pure (ForInStep.done s))
      = (pure (nextMarkerK tr n j) : Id Nat) := by
  intro n
  induction n with
  | zero =>
    intro j hj
    show Lean.Loop.forIn Lean.Loop.mk j _ = _
    rw [Lean.Loop.forIn_eq_of_monadTail]
    have hc : (decide (j < tr.size) && tr[j]!.kind != 2) = false := by
      have : ¬ j < tr.size := by omega
      simp [this]
    simp only [hc, Bool.false_eq_true, if_false, nextMarkerK]
    rfl
  | succ n ih =>
    intro j hj
    show Lean.Loop.forIn Lean.Loop.mk j _ = _
    rw [Lean.Loop.forIn_eq_of_monadTail]
    by_cases hc : (decide (j < tr.size) && tr[j]!.kind != 2) = true
    · simp only [hc, if_true, nextMarkerK]
      have hlt : j < tr.size := by
        simp only [Bool.and_eq_true, decide_eq_true_eq] at hc; exact hc.1
      exact ih (j + 1) (by omega)
    · simp only [hc, nextMarkerK]
      rfl

theorem nextMarker_eq (tr : Array TraceRec) (i : Nat) : nextMarker tr i = nextMarkerK tr (tr.size - i) i := by
  unfold nextMarker
  have := nextMarker_loop tr (tr.size - i) i (Nat.le_refl _)
  simp only [] at this ⊢
  rw [this]
  rfl

/-! ## `encodeChunk` -/

/-- `encodeChunk` with its symbol loop run by `runN` (`trace.size + 2` iterations always suffice: the loop has its own
    fuel `trace.size + 1`). -/
def encodeChunkK (dictSize : Nat) (buf : ByteArray) (base : Nat) (tr : Array TraceRec) (segEnd : Nat) (c : L2Enc)
    (off ti : Nat) : Option (List UInt8 × Nat × Nat × L2Enc × Nat) :=
  if (!c.initialized) = true then
    match runN (chunkBody dictSize buf base tr segEnd c.lz.props off) (tr.size + 2)
        (({ (chunkE0 c).encode (initOps (buf.get! (base + off))) with
              uncompSize := ((chunkE0 c).encode (initOps (buf.get! (base + off)))).uncompSize + 1 },
          off + 1, ti, 1, 0, tr.size + 1) : ChunkLoopSt) with
    | none => none
    | some s => (chunkTail buf base c off true s).toOption
  else
    match runN (chunkBody dictSize buf base tr segEnd c.lz.props off) (tr.size + 2)
        ((chunkE0 c, off, ti, 0, 0, tr.size + 1) : ChunkLoopSt) with
    | none => none
    | some s => (chunkTail buf base c off c.initialized s).toOption

theorem toOption_some {ε α : Type} (x : Except ε α) (r : α) (h : x.toOption = some r) : x = .ok r := by
  cases x with
  | error e => cases h
  | ok a => simp only [Except.toOption, Option.some.injEq] at h; rw [h]

theorem encodeChunk_of_K (dictSize : Nat) (buf : ByteArray) (base : Nat) (tr : Array TraceRec) (segEnd : Nat) (c : L2Enc)
    (off ti : Nat) (r : List UInt8 × Nat × Nat × L2Enc × Nat)
    (h : encodeChunkK dictSize buf base tr segEnd c off ti = some r) :
    encodeChunk dictSize buf base tr segEnd c off ti = .ok r := by
  rw [encodeChunk_eq]
  unfold encodeChunkK at h
  split at h
  · rename_i hi
    rw [if_pos hi]
    split at h
    · cases h
    · rename_i s hs
      rw [loop_of_runN _ _ (fun _ _ h => h) _ _ s hs]
      exact toOption_some _ _ h
  · rename_i hi
    rw [if_neg hi]
    split at h
    · cases h
    · rename_i s hs
      rw [loop_of_runN _ _ (fun _ _ h => h) _ _ s hs]
      exact toOption_some _ _ h

/-! ## `lzma2Encode` -/

/-- the body of the chunk loop of `lzma2Encode`, over `nextMarkerK` and `encodeChunkK` (error texts dropped) -/
def l2BodyK (dictSize : Nat) (buf : ByteArray) (base : Nat) (tr : Array TraceRec) (_ : Unit) (s : L2LoopSt) :
    Except String (ForInStep L2LoopSt) :=
  if s.2.2.2.2.2 > 0 then
    let segEnd := nextMarkerK tr (tr.size - s.2.2.2.1) s.2.2.2.1
    let lim := if segEnd < tr.size then tr[segEnd]!.pos else buf.size - base
    if s.2.2.1 > lim then .error ""
    else if (s.2.2.1 == lim) = true then
      if (s.2.2.2.1 != segEnd) = true then .error ""
      else if segEnd < tr.size then
        .ok (ForInStep.yield (s.1, s.2.1, s.2.2.1, segEnd + 1, s.2.2.2.2.1, s.2.2.2.2.2 - 1))
      else .ok (ForInStep.done (s.1, s.2.1, s.2.2.1, s.2.2.2.1, s.2.2.2.2.1, s.2.2.2.2.2 - 1))
    else
      match encodeChunkK dictSize buf base tr segEnd s.1 s.2.2.1 s.2.2.2.1 with
      | none => .error ""
      | some x =>
        if x.2.1 > lim then .error ""
        else .ok (ForInStep.yield (x.2.2.2.1, s.2.1.push x.1, x.2.1, x.2.2.1, s.2.2.2.2.1 + x.2.2.2.2, s.2.2.2.2.2 - 1))
  else .ok (ForInStep.done (s.1, s.2.1, s.2.2.1, s.2.2.2.1, s.2.2.2.2.1, s.2.2.2.2.2))

/-- `lzma2Encode` run by `runN`: the bytes of the stream, or `none`. -/
def lzma2EncodeK (p : Props) (dictSize : Nat) (buf : ByteArray) (base : Nat) (tr : Array TraceRec) : Option (List UInt8) :=
  match runN (l2BodyK dictSize buf base tr) (buf.size - base + tr.size + 3)
      ((L2Enc.new p (decide (base > 0)), #[], 0, 0, 0, buf.size - base + tr.size + 2) : L2LoopSt) with
  | none => none
  | some s => if (s.2.2.1 != buf.size - base) = true then none else some (s.2.1.toList.flatten ++ [0])

/-- **The kernel-evaluable acceptance test is sound.** -/
theorem lzma2Encode_of_K (p : Props) (dictSize : Nat) (buf : ByteArray) (base : Nat) (tr : Array TraceRec) (out : List UInt8)
    (h : lzma2EncodeK p dictSize buf base tr = some out) :
    ∃ res, lzma2Encode p dictSize buf base tr = .ok res ∧ res.out = out := by
  unfold lzma2EncodeK at h
  split at h
  · cases h
  · rename_i s hs
    split at h
    · cases h
    · rename_i hcov
      simp only [Option.some.injEq] at h
      unfold lzma2Encode
      simp only [except_throw_bind]
      rw [loop_of_runN _ (l2BodyK dictSize buf base tr) ?_ _ _ s hs]
      · simp only [bind, Except.bind]
        rw [if_neg hcov]
        exact ⟨_, rfl, h⟩
      · intro b r hb
        simp only [nextMarker_eq]
        unfold l2BodyK at hb
        simp only [] at hb
        by_cases hfuel : b.2.2.2.2.2 > 0
        · rw [if_pos hfuel] at hb ⊢
          generalize nextMarkerK tr (tr.size - b.2.2.2.1) b.2.2.2.1 = segEnd at hb ⊢
          generalize (if segEnd < tr.size then tr[segEnd]!.pos else buf.size - base) = lim at hb ⊢
          by_cases h1 : b.2.2.1 > lim
          · rw [if_pos h1] at hb; cases hb
          rw [if_neg h1] at hb ⊢
          by_cases h2 : (b.2.2.1 == lim) = true
          · rw [if_pos h2] at hb ⊢
            by_cases h3 : (b.2.2.2.1 != segEnd) = true
            · rw [if_pos h3] at hb; cases hb
            rw [if_neg h3] at hb ⊢
            exact hb
          · rw [if_neg h2] at hb ⊢
            cases hck : encodeChunkK dictSize buf base tr segEnd b.1 b.2.2.1 b.2.2.2.1 with
            | none => rw [hck] at hb; cases hb
            | some x =>
              rw [hck] at hb
              rw [encodeChunk_of_K _ _ _ _ _ _ _ _ x hck]
              simp only [bind, Except.bind]
              simp only [] at hb
              by_cases h5 : x.2.1 > lim
              · rw [if_pos h5] at hb; cases hb
              · rw [if_neg h5] at hb ⊢
                exact hb
        · rw [if_neg hfuel] at hb ⊢
          exact hb

end XzVerif.LzmaExec
