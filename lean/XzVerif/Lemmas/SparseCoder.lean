/-
  Helper lemmas for C18: the loop of coder_normal() and the exit status. Core Lean only.
-/
import XzVerif.Model.Sparse

namespace XzVerif.Sparse



/-- Bytes handed to `io_write` = the buffer so far + what the library produced until the call that ended the loop. -/
theorem coderNormal_writes (cfg : Cfg) (at_ tr : Bool) (steps : List Step) :
    ∀ buf : List UInt8, libFinal steps ≠ none →
      (coderNormal cfg at_ tr steps buf).writes.flatten = buf ++ libOutput steps := by
  induction steps with
  | nil => intro buf h; simp [libFinal] at h
  | cons st rest ih =>
    intro buf h
    unfold coderNormal
    simp only [libOutput, libFinal] at h ⊢
    by_cases hfull : buf.length + st.out.length = cfg.bufSize
    · by_cases hok : st.ret = .ok
      · have hs : st.ret.stops = false := by simp [Ret.stops, hok]
        simp only [hs] at h
        simp [Ret.stops, hok, hfull, ih [] (by simpa using h)]
      · by_cases hw : st.ret = .unsupportedCheck
        · have hs : st.ret.stops = false := by simp [Ret.stops, hw]
          simp only [hs] at h
          simp [Ret.stops, hw, hfull, ih [] (by simpa using h)]
        · have hs : st.ret.stops = true := by simp [Ret.stops, hok, hw]
          by_cases he : st.ret = .streamEnd <;> by_cases ht : (at_ || !tr) = true <;> simp [Ret.stops, hok, hw, hfull, he, ht]
    · by_cases hok : st.ret = .ok
      · have hs : st.ret.stops = false := by simp [Ret.stops, hok]
        simp only [hs] at h
        simp [Ret.stops, hok, hfull, ih (buf ++ st.out) (by simpa using h)]
      · by_cases hw : st.ret = .unsupportedCheck
        · have hs : st.ret.stops = false := by simp [Ret.stops, hw]
          simp only [hs] at h
          simp [Ret.stops, hw, hfull, ih (buf ++ st.out) (by simpa using h)]
        · have hs : st.ret.stops = true := by simp [Ret.stops, hok, hw]
          by_cases he : st.ret = .streamEnd <;> by_cases ht : (at_ || !tr) = true <;> simp [Ret.stops, hok, hw, hfull, he, ht]



/-- The tool's verdict on a finished library run. -/
def libSuccess (at_ tr : Bool) (steps : List Step) : Bool :=
  libFinal steps == some .streamEnd && (at_ || !tr)

theorem coderNormal_success (cfg : Cfg) (at_ tr : Bool) (steps : List Step) :
    ∀ buf : List UInt8, (coderNormal cfg at_ tr steps buf).success = libSuccess at_ tr steps := by
  induction steps with
  | nil => intro buf; simp [coderNormal, libSuccess, libFinal]
  | cons st rest ih =>
    intro buf
    unfold coderNormal
    simp only [libSuccess, libFinal] at ih ⊢
    by_cases hok : st.ret = .ok
    · simp [Ret.stops, hok, ih]
    · by_cases hw : st.ret = .unsupportedCheck
      · simp [Ret.stops, hw, ih]
      · have hs : st.ret.stops = true := by simp [Ret.stops, hok, hw]
        by_cases he : st.ret = .streamEnd <;> by_cases ht : (at_ || !tr) = true <;>
          simp [Ret.stops, hok, hw, he, ht]
        all_goals (first | (simpa using ht) | skip)

/-- Messages of `coder_normal`: one warning per LZMA_UNSUPPORTED_CHECK, then one error unless the run succeeded
    (or was cut short by `user_abort`). -/
theorem coderNormal_msgs (cfg : Cfg) (at_ tr : Bool) (steps : List Step) :
    ∀ buf : List UInt8, (coderNormal cfg at_ tr steps buf).msgs =
      List.replicate (libWarnings steps) Msg.warning ++
        (if libFinal steps = none ∨ libSuccess at_ tr steps = true then [] else [Msg.error]) := by
  induction steps with
  | nil => intro buf; simp [coderNormal, libWarnings, libFinal]
  | cons st rest ih =>
    intro buf
    unfold coderNormal
    simp only [libSuccess, libFinal, libWarnings] at ih ⊢
    by_cases hok : st.ret = .ok
    · simp [Ret.stops, hok, ih]
    · by_cases hw : st.ret = .unsupportedCheck
      · simp [Ret.stops, hw, ih, Nat.add_comm 1 (libWarnings rest), List.replicate_succ]
      · have hs : st.ret.stops = true := by simp [Ret.stops, hok, hw]
        by_cases he : st.ret = .streamEnd <;> by_cases ht : (at_ || !tr) = true <;>
          simp [Ret.stops, hok, hw, he, ht]
        all_goals (first | (simpa using ht) | skip)



/-- Every `io_write` argument is a full buffer, except that the last one may be shorter (or empty). -/
def fullThenLast (B : Nat) : List (List UInt8) → Prop
  | [] => True
  | [w] => w.length ≤ B
  | w :: rest => w.length = B ∧ fullThenLast B rest

theorem fullThenLast_cons {B : Nat} {w : List UInt8} {rest : List (List UInt8)} (hw : w.length = B)
    (hr : fullThenLast B rest) : fullThenLast B (w :: rest) := by
  cases rest with
  | nil => simp [fullThenLast, hw]
  | cons a as => exact ⟨hw, hr⟩

theorem coderNormal_sizes (cfg : Cfg) (at_ tr : Bool) (steps : List Step) :
    ∀ buf : List UInt8, stepsFit cfg steps buf.length = true →
      fullThenLast cfg.bufSize (coderNormal cfg at_ tr steps buf).writes := by
  induction steps with
  | nil => intro buf _; simp [coderNormal, fullThenLast]
  | cons st rest ih =>
    intro buf hfit
    unfold coderNormal
    simp only [stepsFit, Bool.and_eq_true, decide_eq_true_eq] at hfit
    obtain ⟨hle, hrest⟩ := hfit
    by_cases hfull : buf.length + st.out.length = cfg.bufSize
    · have hl : (buf ++ st.out).length = cfg.bufSize := by simpa using hfull
      have ih0 := ih [] (by simpa [hfull] using hrest)
      by_cases hok : st.ret = .ok
      · simp [hok, hfull]; exact fullThenLast_cons hl ih0
      · by_cases hw : st.ret = .unsupportedCheck
        · simp [hw, hfull]; exact fullThenLast_cons hl ih0
        · by_cases he : st.ret = .streamEnd <;> by_cases ht : (at_ || !tr) = true <;>
            simp [hok, hw, hfull, he, ht, fullThenLast]
    · have ih1 := ih (buf ++ st.out) (by simpa [hfull] using hrest)
      by_cases hok : st.ret = .ok
      · simpa [hok, hfull] using ih1
      · by_cases hw : st.ret = .unsupportedCheck
        · simpa [hw, hfull] using ih1
        · by_cases he : st.ret = .streamEnd <;> by_cases ht : (at_ || !tr) = true <;>
            simp [hok, hw, hfull, he, ht, fullThenLast] <;> omega

/-- Even when the loop is left early, what was written is a prefix of what the library produced. -/
theorem coderNormal_prefix (cfg : Cfg) (at_ tr : Bool) (steps : List Step) :
    ∀ buf : List UInt8, ∃ rest, (coderNormal cfg at_ tr steps buf).writes.flatten ++ rest = buf ++ libOutput steps := by
  induction steps with
  | nil => intro buf; exact ⟨buf, by simp [coderNormal, libOutput]⟩
  | cons st rest ih =>
    intro buf
    unfold coderNormal
    simp only [libOutput]
    by_cases hfull : buf.length + st.out.length = cfg.bufSize
    · obtain ⟨r, hr⟩ := ih []
      by_cases hok : st.ret = .ok
      · exact ⟨r, by simp [Ret.stops, hok, hfull, hr]⟩
      · by_cases hw : st.ret = .unsupportedCheck
        · exact ⟨r, by simp [Ret.stops, hw, hfull, hr]⟩
        · refine ⟨[], ?_⟩
          by_cases he : st.ret = .streamEnd <;> by_cases ht : (at_ || !tr) = true <;>
            simp [Ret.stops, hok, hw, hfull, he, ht]
    · obtain ⟨r, hr⟩ := ih (buf ++ st.out)
      by_cases hok : st.ret = .ok
      · exact ⟨r, by simp [Ret.stops, hok, hfull, hr]⟩
      · by_cases hw : st.ret = .unsupportedCheck
        · exact ⟨r, by simp [Ret.stops, hw, hfull, hr]⟩
        · refine ⟨[], ?_⟩
          by_cases he : st.ret = .streamEnd <;> by_cases ht : (at_ || !tr) = true <;>
            simp [Ret.stops, hok, hw, hfull, he, ht]


theorem foldl_setExit (msgs : List Msg) : ∀ e : Exit,
    msgs.foldl (fun e m => setExit e m.exit) e =
      if e = .error ∨ Msg.error ∈ msgs then .error else if Msg.warning ∈ msgs then .warning else e := by
  induction msgs with
  | nil => intro e; cases e <;> simp
  | cons m ms ih =>
    intro e
    simp only [List.foldl_cons, ih]
    cases e <;> cases m <;> simp [setExit, Msg.exit]

theorem exitOfMsgs_eq (msgs : List Msg) :
    exitOfMsgs msgs = if Msg.error ∈ msgs then .error else if Msg.warning ∈ msgs then .warning else .success := by
  simp [exitOfMsgs, foldl_setExit]

theorem xzdecRun_spec (lz : Bool) (files : List (List UInt8 × Ret × Bool)) :
    ((xzdecRun lz files).2 = 0 ↔ ∀ f ∈ files, xzdecFileOk lz f.2.1 f.2.2 = true) ∧
    ((xzdecRun lz files).2 = 0 ∨ (xzdecRun lz files).2 = 1) ∧
    ((xzdecRun lz files).2 = 0 → (xzdecRun lz files).1 = (files.map (·.1)).flatten) := by
  induction files with
  | nil => simp [xzdecRun]
  | cons f fs ih =>
    obtain ⟨o, r, t⟩ := f
    unfold xzdecRun
    by_cases hok : xzdecFileOk lz r t = true
    · simp only [hok, if_true]
      obtain ⟨i1, i2, i3⟩ := ih
      refine ⟨?_, i2, ?_⟩
      · simp [i1, hok]
      · intro h; simp [i3 h]
    · simp [hok]


theorem xzFile_msgs (cfg : Cfg) (o : Opts) (fi : FileIn) (out : Dest) :
    (xzFile cfg o fi out).msgs =
      if fi.fmtKnown = false then
        (if o.mode = .decompress ∧ o.toStdout = true ∧ o.force = true then [] else [Msg.error])
      else
        List.replicate fi.initWarn Msg.warning ++
          (if fi.initRet = .ok ∨ fi.initRet = .streamEnd then
            (coderNormal cfg fi.allowTrailing fi.trailing fi.steps []).msgs else [Msg.error]) := by
  unfold xzFile
  cases hk : fi.fmtKnown with
  | false =>
    cases hm : o.mode <;> cases hs : o.toStdout <;> cases hfo : o.force <;> simp [coderPassthru]
  | true =>
    by_cases h1 : fi.initRet = .ok
    · cases hm : o.mode <;> cases hs : o.toStdout <;> simp [h1]
    · by_cases h2 : fi.initRet = .streamEnd
      · cases hm : o.mode <;> cases hs : o.toStdout <;> simp [h2]
      · simp [h1, h2]


/-- Full `B`-byte pieces of `l`, then the remainder (shorter than `B`, possibly empty). -/
def splitFull (B : Nat) (l : List UInt8) : List (List UInt8) :=
  if _h : 0 < B ∧ B ≤ l.length then l.take B :: splitFull B (l.drop B) else [l]
termination_by l.length
decreasing_by simp; omega

theorem splitFull_short {B : Nat} {l : List UInt8} (h : l.length < B) : splitFull B l = [l] := by
  rw [splitFull]; simp; omega

theorem splitFull_cons {B : Nat} (hB : 0 < B) {a : List UInt8} (ha : a.length = B) (l : List UInt8) :
    splitFull B (a ++ l) = a :: splitFull B l := by
  rw [splitFull]
  have : 0 < B ∧ B ≤ (a ++ l).length := ⟨hB, by simp; omega⟩
  simp only [this, and_self, dif_pos]
  subst ha
  simp

/-- The `io_write` sequence of `coder_normal` depends only on the bytes the library produced, not on how many
    `lzma_code` calls it took: full buffers, then the remainder with the final return value. -/
theorem coderNormal_writes_split (cfg : Cfg) (hB : 0 < cfg.bufSize) (at_ tr : Bool) (steps : List Step) :
    ∀ buf : List UInt8, buf.length < cfg.bufSize → stepsFit cfg steps buf.length = true → libFinal steps ≠ none →
      (coderNormal cfg at_ tr steps buf).writes = splitFull cfg.bufSize (buf ++ libOutput steps) := by
  induction steps with
  | nil => intro buf _ _ h; simp [libFinal] at h
  | cons st rest ih =>
    intro buf hlt hfit hfin
    unfold coderNormal
    simp only [stepsFit, Bool.and_eq_true, decide_eq_true_eq] at hfit
    obtain ⟨hle, hrest⟩ := hfit
    simp only [libOutput, libFinal] at hfin ⊢
    by_cases hfull : buf.length + st.out.length = cfg.bufSize
    · have hl : (buf ++ st.out).length = cfg.bufSize := by simpa using hfull
      by_cases hok : st.ret = .ok
      · have ih0 := ih [] (by simpa using hB) (by simpa [hfull] using hrest) (by simpa [Ret.stops, hok] using hfin)
        simp only [List.nil_append] at ih0
        simp [Ret.stops, hok, hfull, ih0]
        rw [← List.append_assoc, splitFull_cons hB hl]
      · by_cases hw : st.ret = .unsupportedCheck
        · have ih0 := ih [] (by simpa using hB) (by simpa [hfull] using hrest) (by simpa [Ret.stops, hw] using hfin)
          simp only [List.nil_append] at ih0
          simp [Ret.stops, hw, hfull, ih0]
          rw [← List.append_assoc, splitFull_cons hB hl]
        · have hsp : splitFull cfg.bufSize (buf ++ st.out) = [buf ++ st.out, []] := by
            have := splitFull_cons hB hl []
            simp at this
            rw [this, splitFull_short (by simpa using hB)]
          by_cases he : st.ret = .streamEnd <;> by_cases ht : (at_ || !tr) = true <;>
            simp [Ret.stops, hok, hw, hfull, he, ht, hsp]
    · have hlt' : (buf ++ st.out).length < cfg.bufSize := by simp; omega
      by_cases hok : st.ret = .ok
      · have ih1 := ih (buf ++ st.out) hlt' (by simpa [hfull] using hrest) (by simpa [Ret.stops, hok] using hfin)
        simp [Ret.stops, hok, hfull, ih1]
      · by_cases hw : st.ret = .unsupportedCheck
        · have ih1 := ih (buf ++ st.out) hlt' (by simpa [hfull] using hrest) (by simpa [Ret.stops, hw] using hfin)
          simp [Ret.stops, hw, hfull, ih1]
        · have hsp := splitFull_short hlt'
          by_cases he : st.ret = .streamEnd <;> by_cases ht : (at_ || !tr) = true <;>
            simp [Ret.stops, hok, hw, hfull, he, ht, hsp]


end XzVerif.Sparse
