/-
  Helper lemmas for C18: the loop of coder_normal() and the exit status. Core Lean only.
-/
import XzVerif.Model.Sparse

namespace XzVerif.Sparse



/-- Bytes handed to `io_write` = the buffer so far + what the library produced until the call that ended the loop. -/
theorem coderNormal_writes (cfg : Cfg) (at_ tr : Bool) (steps : List Step) :
    ∀ buf : List UInt8, libFinal steps ≠ none →
      (coderNormal cfg at_ tr steps buf).writes.flatten = buf ++ libOutput steps := by
  induction steps with
  | nil => intro buf h; simp [libFinal] at h
  | cons st rest ih =>
    intro buf h
    unfold coderNormal
    simp only [libOutput, libFinal] at h ⊢
    by_cases hfull : buf.length + st.out.length = cfg.bufSize
    · by_cases hok : st.ret = .ok
      · have hs : st.ret.stops = false := by simp [Ret.stops, hok]
        simp only [hs] at h
        simp [Ret.stops, hok, hfull, ih [] (by simpa using h)]
      · by_cases hw : st.ret = .unsupportedCheck
        · have hs : st.ret.stops = false := by simp [Ret.stops, hw]
          simp only [hs] at h
          simp [Ret.stops, hw, hfull, ih [] (by simpa using h)]
        · have hs : st.ret.stops = true := by simp [Ret.stops, hok, hw]
          by_cases he : st.ret = .streamEnd <;> by_cases ht : (at_ || !tr) = true <;> simp [Ret.stops, hok, hw, hfull, he, ht]
    · by_cases hok : st.ret = .ok
      · have hs : st.ret.stops = false := by simp [Ret.stops, hok]
        simp only [hs] at h
        simp [Ret.stops, hok, hfull, ih (buf ++ st.out) (by simpa using h)]
      · by_cases hw : st.ret = .unsupportedCheck
        · have hs : st.ret.stops = false := by simp [Ret.stops, hw]
          simp only [hs] at h
          simp [Ret.stops, hw, hfull, ih (buf ++ st.out) (by simpa using h)]
        · have hs : st.ret.stops = true := by simp [Ret.stops, hok, hw]
          by_cases he : st.ret = .streamEnd <;> by_cases ht : (at_ || !tr) = true <;> simp [Ret.stops, hok, hw, hfull, he, ht]



/-- The tool's verdict on a finished library run. -/
def libSuccess (at_ tr : Bool) (steps : List Step) : Bool :=
  libFinal steps == some .streamEnd && (at_ || !tr)

theorem coderNormal_success (cfg : Cfg) (at_ tr : Bool) (steps : List Step) :
    ∀ buf : List UInt8, (coderNormal cfg at_ tr steps buf).success = libSuccess at_ tr steps := by
  induction steps with
  | nil => intro buf; simp [coderNormal, libSuccess, libFinal]
  | cons st rest ih =>
    intro buf
    unfold coderNormal
    simp only [libSuccess, libFinal] at ih ⊢
    by_cases hok : st.ret = .ok
    · simp [Ret.stops, hok, ih]
    · by_cases hw : st.ret = .unsupportedCheck
      · simp [Ret.stops, hw, ih]
      · have hs : st.ret.stops = true := by simp [Ret.stops, hok, hw]
        by_cases he : st.ret = .streamEnd <;> by_cases ht : (at_ || !tr) = true <;>
          simp [Ret.stops, hok, hw, he, ht]
        all_goals (first | (simpa using ht) | skip)

/-- Messages of `coder_normal`: one warning per LZMA_UNSUPPORTED_CHECK, then one error unless the run succeeded
    (or was cut short by `user_abort`). -/
theorem coderNormal_msgs (cfg : Cfg) (at_ tr : Bool) (steps : List Step) :
    ∀ buf : List UInt8, (coderNormal cfg at_ tr steps buf).msgs =
      List.replicate (libWarnings steps) Msg.warning ++
        (if libFinal steps = none ∨ libSuccess at_ tr steps = true then [] else [Msg.error]) := by
  induction steps with
  | nil => intro buf; simp [coderNormal, libWarnings, libFinal]
  | cons st rest ih =>
    intro buf
    unfold coderNormal
    simp only [libSuccess, libFinal, libWarnings] at ih ⊢
    by_cases hok : st.ret = .ok
    · simp [Ret.stops, hok, ih]
    · by_cases hw : st.ret = .unsupportedCheck
      · simp [Ret.stops, hw, ih, Nat.add_comm 1 (libWarnings rest), List.replicate_succ]
      · have hs : st.ret.stops = true := by simp [Ret.stops, hok, hw]
        by_cases he : st.ret = .streamEnd <;> by_cases ht : (at_ || !tr) = true <;>
          simp [Ret.stops, hok, hw, he, ht]
        all_goals (first | (simpa using ht) | skip)



/-- Every `io_write` argument is a full buffer, except that the last one may be shorter (or empty). -/
def fullThenLast (B : Nat) : List (List UInt8) → Prop
  | [] => True
  | [w] => w.length ≤ B
  | w :: rest => w.length = B ∧ fullThenLast B rest

theorem fullThenLast_cons {B : Nat} {w : List UInt8} {rest : List (List UInt8)} (hw : w.length = B)
    (hr : fullThenLast B rest) : fullThenLast B (w :: rest) := by
  cases rest with
  | nil => simp [fullThenLast, hw]
  | cons a as => exact ⟨hw, hr⟩

theorem coderNormal_sizes (cfg : Cfg) (at_ tr : Bool) (steps : List Step) :
    ∀ buf : List UInt8, stepsFit cfg steps buf.length = true →
      fullThenLast cfg.bufSize (coderNormal cfg at_ tr steps buf).writes := by
  induction steps with
  | nil => intro buf _; simp [coderNormal, fullThenLast]
  | cons st rest ih =>
    intro buf hfit
    unfold coderNormal
    simp only [stepsFit, Bool.and_eq_true, decide_eq_true_eq] at hfit
    obtain ⟨hle, hrest⟩ := hfit
    by_cases hfull : buf.length + st.out.length = cfg.bufSize
    · have hl : (buf ++ st.out).length = cfg.bufSize := by simpa using hfull
      have ih0 := ih [] (by simpa [hfull] using hrest)
      by_cases hok : st.ret = .ok
      · simp [hok, hfull]; exact fullThenLast_cons hl ih0
      · by_cases hw : st.ret = .unsupportedCheck
        · simp [hw, hfull]; exact fullThenLast_cons hl ih0
        · by_cases he : st.ret = .streamEnd <;> by_cases ht : (at_ || !tr) = true <;>
            simp [hok, hw, hfull, he, ht, fullThenLast]
    · have ih1 := ih (buf ++ st.out) (by simpa [hfull] using hrest)
      by_cases hok : st.ret = .ok
      · simpa [hok, hfull] using ih1
      · by_cases hw : st.ret = .unsupportedCheck
        · simpa [hw, hfull] using ih1
        · by_cases he : st.ret = .streamEnd <;> by_cases ht : (at_ || !tr) = true <;>
            simp [hok, hw, hfull, he, ht, fullThenLast] <;> omega

/-- Even when the loop is left early, what was written is a prefix of what the library produced. -/
theorem coderNormal_prefix (cfg : Cfg) (at_ tr : Bool) (steps : List Step) :
    ∀ buf : List UInt8, ∃ rest, (coderNormal cfg at_ tr steps buf).writes.flatten ++ rest = buf ++ libOutput steps := by
  induction steps with
  | nil => intro buf; exact ⟨buf, by simp [coderNormal, libOutput]⟩
  | cons st rest ih =>
    intro buf
    unfold coderNormal
    simp only [libOutput]
    by_cases hfull : buf.length + st.out.length = cfg.bufSize
    · obtain ⟨r, hr⟩ := ih []
      by_cases hok : st.ret = .ok
      · exact ⟨r, by simp [Ret.stops, hok, hfull, hr]⟩
      · by_cases hw : st.ret = .unsupportedCheck
        · exact ⟨r, by simp [Ret.stops, hw, hfull, hr]⟩
        · refine ⟨[], ?_⟩
          by_cases he : st.ret = .streamEnd <;> by_cases ht : (at_ || !tr) = true <;>
            simp [Ret.stops, hok, hw, hfull, he, ht]
    · obtain ⟨r, hr⟩ := ih (buf ++ st.out)
      by_cases hok : st.ret = .ok
      · exact ⟨r, by simp [Ret.stops, hok, hfull, hr]⟩
      · by_cases hw : st.ret = .unsupportedCheck
        · exact ⟨r, by simp [Ret.stops, hw, hfull, hr]⟩
        · refine ⟨[], ?_⟩
          by_cases he : st.ret = .streamEnd <;> by_cases ht : (at_ || !tr) = true <;>
            simp [Ret.stops, hok, hw, hfull, he, ht]


theorem foldl_setExit (msgs : List Msg) : ∀ e : Exit,
    msgs.foldl (fun e m => setExit e m.exit) e =
      if e = .error ∨ Msg.error ∈ msgs then .error else if Msg.warning ∈ msgs then .warning else e := by
  induction msgs with
  | nil => intro e; cases e <;> simp
  | cons m ms ih =>
    intro e
    simp only [List.foldl_cons, ih]
    cases e <;> cases m <;> simp [setExit, Msg.exit]

theorem exitOfMsgs_eq (msgs : List Msg) :
    exitOfMsgs msgs = if Msg.error ∈ msgs then .error else if Msg.warning ∈ msgs then .warning else .success := by
  simp [exitOfMsgs, foldl_setExit]

theorem xzdecRun_spec (lz : Bool) (files : List (List UInt8 × Ret × Bool)) :
    ((xzdecRun lz files).2 = 0 ↔ ∀ f ∈ files, xzdecFileOk lz f.2.1 f.2.2 = true) ∧
    ((xzdecRun lz files).2 = 0 ∨ (xzdecRun lz files).2 = 1) ∧
    ((xzdecRun lz files).2 = 0 → (xzdecRun lz files).1 = (files.map (·.1)).flatten) := by
  induction files with
  | nil => simp [xzdecRun]
  | cons f fs ih =>
    obtain ⟨o, r, t⟩ := f
    unfold xzdecRun
    by_cases hok : xzdecFileOk lz r t = true
    · simp only [hok, if_true]
      obtain ⟨i1, i2, i3⟩ := ih
      refine ⟨?_, i2, ?_⟩
      · simp [i1, hok]
      · intro h; simp [i3 h]
    · simp [hok]


theorem xzFile_msgs (cfg : Cfg) (o : Opts) (fi : FileIn) (out : Dest) :
    (xzFile cfg o fi out).msgs =
      if fi.fmtKnown = false then
        (if o.mode = .decompress ∧ o.toStdout = true ∧ o.force = true then [] else [Msg.error])
      else
        List.replicate fi.initWarn Msg.warning ++
          (if fi.initRet = .ok ∨ fi.initRet = .streamEnd then
            (coderNormal cfg (allowOf o fi) fi.trailing fi.steps []).msgs else [Msg.error]) := by
  unfold xzFile xzFileWith
  cases hk : fi.fmtKnown with
  | false =>
    cases hm : o.mode <;> cases hs : o.toStdout <;> cases hfo : o.force <;> simp [coderPassthru]
  | true =>
    by_cases h1 : fi.initRet = .ok
    · cases hm : o.mode <;> cases hs : o.toStdout <;> simp [h1]
    · by_cases h2 : fi.initRet = .streamEnd
      · cases hm : o.mode <;> cases hs : o.toStdout <;> simp [h2]
      · simp [h1, h2]


/-- Full `B`-byte pieces of `l`, then the remainder (shorter than `B`, possibly empty). -/
def splitFull (B : Nat) (l : List UInt8) : List (List UInt8) :=
  if _h : 0 < B ∧ B ≤ l.length then l.take B :: splitFull B (l.drop B) else [l]
termination_by l.length
decreasing_by simp; omega

theorem splitFull_short {B : Nat} {l : List UInt8} (h : l.length < B) : splitFull B l = [l] := by
  rw [splitFull]; simp; omega

theorem splitFull_cons {B : Nat} (hB : 0 < B) {a : List UInt8} (ha : a.length = B) (l : List UInt8) :
    splitFull B (a ++ l) = a :: splitFull B l := by
  rw [splitFull]
  have : 0 < B ∧ B ≤ (a ++ l).length := ⟨hB, by simp; omega⟩
  simp only [this, and_self, dif_pos]
  subst ha
  simp

/-- The `io_write` sequence of `coder_normal` depends only on the bytes the library produced, not on how many
    `lzma_code` calls it took: full buffers, then the remainder with the final return value. -/
theorem coderNormal_writes_split (cfg : Cfg) (hB : 0 < cfg.bufSize) (at_ tr : Bool) (steps : List Step) :
    ∀ buf : List UInt8, buf.length < cfg.bufSize → stepsFit cfg steps buf.length = true → libFinal steps ≠ none →
      (coderNormal cfg at_ tr steps buf).writes = splitFull cfg.bufSize (buf ++ libOutput steps) := by
  induction steps with
  | nil => intro buf _ _ h; simp [libFinal] at h
  | cons st rest ih =>
    intro buf hlt hfit hfin
    unfold coderNormal
    simp only [stepsFit, Bool.and_eq_true, decide_eq_true_eq] at hfit
    obtain ⟨hle, hrest⟩ := hfit
    simp only [libOutput, libFinal] at hfin ⊢
    by_cases hfull : buf.length + st.out.length = cfg.bufSize
    · have hl : (buf ++ st.out).length = cfg.bufSize := by simpa using hfull
      by_cases hok : st.ret = .ok
      · have ih0 := ih [] (by simpa using hB) (by simpa [hfull] using hrest) (by simpa [Ret.stops, hok] using hfin)
        simp only [List.nil_append] at ih0
        simp [Ret.stops, hok, hfull, ih0]
        rw [← List.append_assoc, splitFull_cons hB hl]
      · by_cases hw : st.ret = .unsupportedCheck
        · have ih0 := ih [] (by simpa using hB) (by simpa [hfull] using hrest) (by simpa [Ret.stops, hw] using hfin)
          simp only [List.nil_append] at ih0
          simp [Ret.stops, hw, hfull, ih0]
          rw [← List.append_assoc, splitFull_cons hB hl]
        · have hsp : splitFull cfg.bufSize (buf ++ st.out) = [buf ++ st.out, []] := by
            have := splitFull_cons hB hl []
            simp at this
            rw [this, splitFull_short (by simpa using hB)]
          by_cases he : st.ret = .streamEnd <;> by_cases ht : (at_ || !tr) = true <;>
            simp [Ret.stops, hok, hw, hfull, he, ht, hsp]
    · have hlt' : (buf ++ st.out).length < cfg.bufSize := by simp; omega
      by_cases hok : st.ret = .ok
      · have ih1 := ih (buf ++ st.out) hlt' (by simpa [hfull] using hrest) (by simpa [Ret.stops, hok] using hfin)
        simp [Ret.stops, hok, hfull, ih1]
      · by_cases hw : st.ret = .unsupportedCheck
        · have ih1 := ih (buf ++ st.out) hlt' (by simpa [hfull] using hrest) (by simpa [Ret.stops, hw] using hfin)
          simp [Ret.stops, hw, hfull, ih1]
        · have hsp := splitFull_short hlt'
          by_cases he : st.ret = .streamEnd <;> by_cases ht : (at_ || !tr) = true <;>
            simp [Ret.stops, hok, hw, hfull, he, ht, hsp]


def okSteps (cs : List (List UInt8)) : List Step := cs.map (fun c => { out := c, ret := .ok })

theorem chunksAux_spec (B : Nat) (hB : 0 < B) (ret : Ret) (hr : ret.stops = true) (cfg : Cfg) (hc : cfg.bufSize = B) :
    ∀ (fuel : Nat) (l : List UInt8), l.length < fuel →
      (chunksAux B fuel l).flatten = l ∧
      libOutput (okSteps (chunksAux B fuel l) ++ [{ out := [], ret := ret }]) = l ∧
      libFinal (okSteps (chunksAux B fuel l) ++ [{ out := [], ret := ret }]) = some ret ∧
      libWarnings (okSteps (chunksAux B fuel l) ++ [{ out := [], ret := ret }]) = 0 ∧
      stepsFit cfg (okSteps (chunksAux B fuel l) ++ [{ out := [], ret := ret }]) 0 = true := by
  have hok : Ret.ok.stops = false := rfl
  intro fuel
  induction fuel with
  | zero => intro l h; omega
  | succ n ih =>
    intro l h
    unfold chunksAux
    cases l with
    | nil => simp [okSteps, libOutput, libFinal, libWarnings, stepsFit, hr]
    | cons x xs =>
      simp only [List.isEmpty_cons, Bool.false_eq_true, if_false]
      by_cases hlen : B ≤ (x :: xs).length
      · have hd : ((x :: xs).drop B).length < n := by simp at h ⊢; omega
        obtain ⟨i1, i2, i3, i4, i5⟩ := ih _ hd
        have htl : ((x :: xs).take B).length = B := by simp at hlen ⊢; omega
        refine ⟨?_, ?_, ?_, ?_, ?_⟩
        · simp only [List.flatten_cons, i1, List.take_append_drop]
        · simp only [okSteps, List.map_cons, List.cons_append, libOutput, Ret.stops] at i2 ⊢
          simp [i2]
        · simp only [okSteps, List.map_cons, List.cons_append, libFinal, Ret.stops] at i3 ⊢
          simpa using i3
        · simp only [okSteps, List.map_cons, List.cons_append, libWarnings, Ret.stops] at i4 ⊢
          simpa using i4
        · simp only [okSteps, List.map_cons, List.cons_append, stepsFit] at i5 ⊢
          simp [htl, hc, i5]
      · have hlt : (x :: xs).length < B := by omega
        have htake : (x :: xs).take B = x :: xs := List.take_of_length_le (by omega)
        have hdrop : (x :: xs).drop B = [] := List.drop_of_length_le (by omega)
        have hnil : chunksAux B n [] = [] := by
          cases n with
          | zero => rfl
          | succ m => simp [chunksAux]
        rw [htake, hdrop, hnil]
        refine ⟨by simp, ?_, ?_, ?_, ?_⟩
        · simp [okSteps, libOutput, hr, hok]
        · simp [okSteps, libFinal, hr, hok]
        · simp [okSteps, libWarnings, hr, hok]
        · simp only [okSteps, List.map_cons, List.map_nil, List.cons_append, List.nil_append, stepsFit]
          simp at hlt
          have hne : ¬ xs.length + 1 = B := by omega
          simp [hc, hne]
          omega

theorem warn_prefix (cfg : Cfg) (hB : 0 < cfg.bufSize) (S : List Step) : ∀ w : Nat,
    libOutput (List.replicate w { out := [], ret := .unsupportedCheck } ++ S) = libOutput S ∧
    libFinal (List.replicate w { out := [], ret := .unsupportedCheck } ++ S) = libFinal S ∧
    libWarnings (List.replicate w { out := [], ret := .unsupportedCheck } ++ S) = w + libWarnings S ∧
    stepsFit cfg (List.replicate w { out := [], ret := .unsupportedCheck } ++ S) 0 = stepsFit cfg S 0 := by
  have hu : Ret.unsupportedCheck.stops = false := rfl
  have hne : ¬ (0 = cfg.bufSize) := by omega
  intro w
  induction w with
  | zero => simp
  | succ n ih =>
    obtain ⟨i1, i2, i3, i4⟩ := ih
    simp only [List.replicate_succ, List.cons_append, libOutput, libFinal, libWarnings, stepsFit, hu]
    simp [i1, i2, i3, i4, hne]
    omega

/-- The call sequence the model driver feeds to `coderNormal` is a legitimate one for the given library result. -/
theorem canonicalSteps_spec (cfg : Cfg) (hB : 0 < cfg.bufSize) (w : Nat) (out : List UInt8) (ret : Ret)
    (hr : ret.stops = true) :
    libOutput (canonicalSteps cfg w out ret) = out ∧ libFinal (canonicalSteps cfg w out ret) = some ret ∧
    libWarnings (canonicalSteps cfg w out ret) = w ∧ stepsFit cfg (canonicalSteps cfg w out ret) 0 = true := by
  obtain ⟨_, c2, c3, c4, c5⟩ := chunksAux_spec cfg.bufSize hB ret hr cfg rfl (out.length + 1) out (by omega)
  have hcs : canonicalSteps cfg w out ret =
      List.replicate w { out := [], ret := .unsupportedCheck } ++
        (okSteps (chunksAux cfg.bufSize (out.length + 1) out) ++ [{ out := [], ret := ret }]) := by
    simp [canonicalSteps, chunks, okSteps]
  obtain ⟨p1, p2, p3, p4⟩ := warn_prefix cfg hB
    (okSteps (chunksAux cfg.bufSize (out.length + 1) out) ++ [{ out := [], ret := ret }]) w
  rw [hcs, p1, p2, p3, p4, c2, c3, c4, c5]
  simp


end XzVerif.Sparse
