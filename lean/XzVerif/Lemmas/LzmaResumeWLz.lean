/-
  Slicing independence of the resumable LZMA decoder model ACROSS dictionary wraps, LZ layer, part 2: absorption for `decodeBufferR`
  without the no-wrap restriction of Lemmas/LzmaResumeLz.lean. New case: the call with fewer resources stops (or loops) with the
  window full (`pos == size`) while the call with more resources goes on with a zero-room `code` call at the end of the window; the
  interface `CodeWrap` (Lemmas/LzmaResumeWrapDefs.lean) says that such a call commutes with the wrap (`wrap_step`).
  ASSUMES `CodeAbsorb P code`, `CodeWrap P code`. Results are up to a pending wrap (`SameW`/`EqvW`). Core Lean only.
-/
import XzVerif.Lemmas.LzmaResumeWBase

namespace XzVerif.LzmaR
open XzVerif.RangeDec XzVerif.LzDict XzVerif.Lzma XzVerif.Lzma2

theorem wrap_idem {q : RSt} (hs : 2 * LZ_DICT_REPEAT_MAX < q.s.dp.size) : q.wrap.wrap = q.wrap := by
  by_cases hp : q.s.dp.pos = q.s.dp.size
  · apply wrap_of_ne
    rw [wrap_dp, dwrap_of_eq hp]
    simp only [LZ_DICT_REPEAT_MAX] at hs ⊢
    omega
  · rw [wrap_of_ne hp, wrap_of_ne hp]

theorem post_wrap_stop {N : Nat} {c : Ret × RSt} (hs : 2 * LZ_DICT_REPEAT_MAX < c.2.s.dp.size) :
    SameW (post N (c.1, c.2.wrap)).1 (post N c).1 := by
  have hnr : c.2.wrap.s.dp.needReset = c.2.s.dp.needReset := dwrap_needReset _
  by_cases hr : c.2.s.dp.needReset = true
  · rw [post_fst_reset hr, post_fst_reset (c := (c.1, c.2.wrap)) (hnr.trans hr)]
    show SameW (c.1, rst c.2.wrap) (c.1, rst c.2)
    rw [rst_wrap]
    exact SameW.refl _
  · have hr' := bool_false_of_ne_true hr
    rw [post_fst_noreset hr', post_fst_noreset (c := (c.1, c.2.wrap)) (hnr.trans hr')]
    refine ⟨rfl, ?_⟩
    show c.2.wrap.wrap.norm = c.2.wrap.norm
    rw [wrap_idem hs]

theorem lim0_full {N : Nat} {x : RSt} (hp : x.s.dp.pos = x.s.dp.size) :
    lim0 N x.wrap = LZ_DICT_REPEAT_MAX + min (N - x.s.produced) (x.s.dp.size - LZ_DICT_REPEAT_MAX) := by
  unfold lim0
  rw [wrap_dp, dwrap_of_eq hp]
  rfl

/-- **The wrap picture.** `x` is at the end of the window; `cY` is (equivalent to) the zero-room `code` call on `x` with input `b'`.
    Post-processing `cY` and continuing = a fresh run of the LZ layer from `x` (which wraps first). -/
theorem wrap_step {P : RSt → Prop} {code : RSt → Ret × RSt} (hc : CodeAbsorb P code) (hw : CodeWrap P code) {N' : Nat}
    {b' : ByteArray} {x : RSt} (hx : CInv P x b') (hpos : x.s.dp.pos = x.s.dp.size) (hprod : x.s.produced < N')
    {cY : Ret × RSt} (hE : Eqv cY (code (x.view b' x.s.dp.size))) (hinp : cY.2.s.inp = b') (hlim : cY.2.s.dp.limit = x.s.dp.size)
    (fY fD : Nat)
    (hY : (if (post N' cY).2 then decodeBufferR code fY N' (post N' cY).1.2 else (post N' cY).1).1 ≠ .progError)
    (hD : (decodeBufferR code fD N' (x.withInp b')).1 ≠ .progError) :
    EqvW (if (post N' cY).2 then decodeBufferR code fY N' (post N' cY).1.2 else (post N' cY).1)
      (decodeBufferR code fD N' (x.withInp b')) := by
  cases fD with
  | zero => exact absurd rfl hD
  | succ fD =>
  rw [dB_succ code fD N' (x.withInp b'), prep_w] at hD ⊢
  obtain ⟨hxw, xwlt⟩ := cinv_wrap hw hx
  have hsz := hx.size_ge
  have hL2 := lim0_full (N := N') hpos
  have hL2a : LZ_DICT_REPEAT_MAX ≤ lim0 N' x.wrap := by rw [hL2]; exact Nat.le_add_right _ _
  have hL2b : lim0 N' x.wrap ≤ x.s.dp.size := by
    rw [hL2]; have := Nat.min_le_right (N' - x.s.produced) (x.s.dp.size - LZ_DICT_REPEAT_MAX)
    simp only [LZ_DICT_REPEAT_MAX] at hsz this ⊢; omega
  have hxws : x.wrap.s.dp.size = x.s.dp.size := by rw [wrap_dp, dwrap_size]
  have cfW := code_facts hc hw hx (Nat.le_of_eq hpos) (Nat.le_refl _)
  have cfD := code_facts hc hw hxw (L := lim0 N' x.wrap) (Nat.le_add_right _ _) (by rw [hxws]; exact hL2b)
  have hstop := hw.stop x b' (lim0 N' x.wrap) hx.p hx.align hx.full hx.agree hx.inPos hx.noReset hpos hL2a hL2b
  have hyield := hw.yield x b' (lim0 N' x.wrap) hx.p hx.align hx.full hx.agree hx.inPos hx.noReset hpos hL2a hL2b
  have hresume := hw.resume x b' (lim0 N' x.wrap) hx.p hx.align hx.full hx.agree hx.inPos hx.noReset hpos hL2a hL2b
  generalize lim0 N' x.wrap = L2 at *
  generalize code (x.view b' x.s.dp.size) = w at *
  generalize code (x.wrap.view b' L2) = d at *
  have hwsz : 2 * LZ_DICT_REPEAT_MAX < w.2.s.dp.size := by rw [cfW.size]; exact hsz
  rcases hE with hS | hO
  · have ecy : cY = w := by
      refine Prod.ext hS.1 ?_
      calc cY.2 = cY.2.view b' x.s.dp.size := (view_self hinp hlim).symm
        _ = w.2.view b' x.s.dp.size := RSt.view_congr hS.2 _ _
        _ = w.2 := view_self cfW.inp cfW.limit
    subst ecy
    by_cases hwok : cY.1 = .ok
    · by_cases hwr : cY.2.s.dp.needReset = true
      · -- reset request at the end of the window
        have hy := hyield hwok hwr
        have hdr : d.2.s.dp.needReset = true :=
          (norm_needReset hy.2).trans ((dwrap_needReset _).trans hwr)
        have hdp : d.2.s.produced = cY.2.s.produced := norm_produced (q' := cY.2.wrap) hy.2
        have hn3 : (rst d.2).norm = (rst cY.2).norm := by
          have := norm_map_reset hy.2
          rw [rst_wrap] at this
          exact this
        have hdok : d.1 = .ok := hy.1
        have hfl : (post N' d).2 = (post N' cY).2 := by
          rw [post_reset hdr, post_reset hwr, hdok, hwok, hdp]
        rw [hfl] at hD ⊢
        rw [post_fst_reset hdr] at hD ⊢
        rw [post_fst_reset hwr] at hY ⊢
        cases hb : (post N' cY).2
        · simp only [Bool.false_eq_true, if_false]
          exact Or.inl ⟨hwok.trans hdok.symm, (normW_of_norm hn3).symm⟩
        · simp only [hb, if_true] at hY hD ⊢
          have hv : (rst cY.2).view (rst cY.2).s.inp 0 = (rst d.2).view (rst d.2).s.inp 0 := by
            have i1 : (rst cY.2).s.inp = b' := cfW.inp
            have i2 : (rst d.2).s.inp = b' := cfD.inp
            rw [i1, i2]
            exact (RSt.view_congr hn3 b' 0).symm
          rw [fuel_agree_congr code N' fY fD hv hY hD]
          exact EqvW.refl _
      · -- no room, no reset: both sides wrap and go on
        have hwr' := bool_false_of_ne_true hwr
        have hres := hresume hwok hwr'
        have cw := cfW.cinv hwr'
        have g1 := cfW.pos_mono; have g2 := cfW.pos_le; have g3 := cfW.size; have g4 := cfW.hist; have g5 := cfW.outBase
        have g6 := hx.base
        have hwpos : cY.2.s.dp.pos = cY.2.s.dp.size := by omega
        have e1 : x.s.produced = x.s.hist.size - x.s.outBase := rfl
        have e2 : cY.2.s.produced = cY.2.s.hist.size - cY.2.s.outBase := rfl
        have hwprod : cY.2.s.produced = x.s.produced := by omega
        have hfl : (post N' cY).2 = true :=
          (post_flag_noreset hwr').mpr ⟨hwok, by omega, by omega⟩
        rw [post_fst_noreset hwr'] at hY ⊢
        simp only [hfl, if_true] at hY ⊢
        cases fY with
        | zero => exact absurd rfl hY
        | succ fY =>
        rw [← withInp_self cfW.inp] at hY ⊢
        have hlw : lim0 N' cY.2.wrap = L2 := by
          rw [lim0_full hwpos, hwprod, g3]; exact hL2.symm
        rw [dB_succ code fY N' (cY.2.withInp b'), prep_w, hlw] at hY ⊢
        obtain ⟨cww, _⟩ := cinv_wrap hw cw
        have cfE := code_facts hc hw cww (L := L2) (by rw [← hlw]; exact Nat.le_add_right _ _)
          (by rw [wrap_dp, dwrap_size, g3]; exact hL2b)
        generalize code (cY.2.wrap.view b' L2) = e at *
        rcases hres with hS2 | hO2
        · have ede : d = e := by
            refine Prod.ext hS2.1 ?_
            calc d.2 = d.2.view b' L2 := (view_self cfD.inp cfD.limit).symm
              _ = e.2.view b' L2 := RSt.view_congr hS2.2 _ _
              _ = e.2 := view_self cfE.inp cfE.limit
          subst ede
          cases hb : (post N' d).2
          · simp only [Bool.false_eq_true, if_false]
            exact EqvW.refl _
          · simp only [hb, if_true] at hY hD ⊢
            rw [fuel_agree code N' fY fD _ hY hD]
            exact EqvW.refl _
        · obtain ⟨q1, q2, q3⟩ := post_eqv_stop (N1 := N') (N2 := N') (Or.inr hO2) (by rw [hO2.2.1]; decide)
          simp only [q1, q2, Bool.false_eq_true, if_false]
          exact q3.symm.toW
    · -- the zero-room call ended
      have hs := hstop hwok
      obtain ⟨q1, _, q3⟩ := post_eqv_stop (N1 := N') (N2 := N') hs hwok
      have q4 := (post_notok (N := N') hwok).1
      simp only [q1, q4, Bool.false_eq_true, if_false]
      exact (q3.toW.trans (Or.inl (post_wrap_stop hwsz))).symm
  · -- chunk overrun on both sides
    have hwne : w.1 ≠ .ok := by rw [hO.2.1]; decide
    have hcne : cY.1 ≠ .ok := by rw [hO.1]; decide
    have hs := hstop hwne
    have hdne : d.1 ≠ .ok := by
      rcases hs with h | h
      · rw [h.1]; exact hwne
      · rw [h.1]; decide
    have hdo : d.2.overrun = true := by
      rcases hs with h | h
      · have : d.2.overrun = w.2.wrap.overrun := norm_overrun h.2
        rw [this]; exact hO.2.2.2
      · exact h.2.2.1
    have hdd : d.1 = .dataError := by
      rcases hs with h | h
      · rw [h.1]; exact hO.2.1
      · exact h.1
    have p1 := post_notok (N := N') hcne
    have p2 := post_notok (N := N') hdne
    simp only [p1.1, p2.1, Bool.false_eq_true, if_false]
    exact Or.inr ⟨by rw [p1.2.1]; exact hO.1, by rw [p2.2.1]; exact hdd, by rw [p1.2.2]; exact hO.2.2.1, by rw [p2.2.2]; exact hdo⟩


/-- **Absorption for the LZ layer across wraps**, any sufficient fuels. -/
theorem absorb_w_aux {P : RSt → Prop} {code : RSt → Ret × RSt} (hc : CodeAbsorb P code) (hw : CodeWrap P code) {N N' : Nat}
    {b b' : ByteArray} (hNN : N ≤ N') (hag : Agree b.size b b') :
    ∀ (fX fY fZ : Nat) (r : RSt), InvW P r b N →
      (decodeBufferR code fX N (r.withInp b)).1 ≠ .progError →
      (decodeBufferR code fY N' (r.withInp b')).1 ≠ .progError →
      ((decodeBufferR code fX N (r.withInp b)).1 = .ok →
        (decodeBufferR code fZ N' ((decodeBufferR code fX N (r.withInp b)).2.withInp b')).1 ≠ .progError) →
      ((decodeBufferR code fX N (r.withInp b)).1 = .ok → (decodeBufferR code fX N (r.withInp b)).2.s.produced < N') →
      EqvW (decodeBufferR code fY N' (r.withInp b'))
        (if (decodeBufferR code fX N (r.withInp b)).1 = .ok
          then decodeBufferR code fZ N' ((decodeBufferR code fX N (r.withInp b)).2.withInp b')
          else decodeBufferR code fX N (r.withInp b))
  | 0, _, _, r, _, hX, _, _, _ => absurd rfl hX
  | fX + 1, fY, fZ, r, hi, hX, hY, hZ, hfree => by
    cases fY with
    | zero => exact absurd rfl hY
    | succ fY =>
    have hi' : InvW P r b' N' := hi.mono hag hNN
    have stX := iter_w hc hw hi
    have stY := iter_w hc hw hi'
    have hLL : lim0 N r.wrap ≤ lim0 N' r.wrap := by unfold lim0; omega
    have hstop := hc.stop r.wrap b b' _ _ stX.cq.p stX.cq.agree stX.cq.inPos stX.lim_ge hag hLL stX.cq.noReset
    have hyield := hc.yield r.wrap b b' _ _ stX.cq.p stX.cq.agree stX.cq.inPos stX.lim_ge hag hLL stX.cq.noReset
    have hresume := hc.resume r.wrap b b' _ _ stX.cq.p stX.cq.agree stX.cq.inPos stX.lim_ge hag hLL stX.cq.noReset
    rw [dB_succ code fX N (r.withInp b), prep_w] at hX hZ hfree ⊢
    rw [dB_succ code fY N' (r.withInp b'), prep_w] at hY ⊢
    generalize code (r.wrap.view b (lim0 N r.wrap)) = cX at *
    generalize code (r.wrap.view b' (lim0 N' r.wrap)) = cY at *
    by_cases hok : cX.1 = .ok
    · by_cases hr : cX.2.s.dp.needReset = true
      · -- the coder asked for a dictionary reset
        have hy := hyield hok hr
        have hrY : cY.2.s.dp.needReset = true := (norm_needReset hy.2).trans hr
        have hpe : cY.2.s.produced = cX.2.s.produced := norm_produced hy.2
        have hpX := post_reset (N := N) hr
        have hpY := post_reset (N := N') hrY
        have hn3 := norm_map_reset hy.2
        have i1 : (rst cX.2).s.inp = b := stX.cf.inp
        have i2 : (rst cY.2).s.inp = b' := stY.cf.inp
        have i3 : InvW P (rst cX.2) b N := ⟨stX.cf.cinvR hr, stX.prod⟩
        have i4 : cX.2.s.produced ≤ N := stX.prod
        rw [hpX] at hX hZ hfree ⊢
        rw [hpY] at hY ⊢
        simp only [hok, hy.1.trans hok, hpe, bne_self_eq_false, Bool.false_or] at hX hY hZ hfree ⊢
        have hv : (rst cY.2).view (rst cY.2).s.inp 0
            = ((rst cX.2).withInp b').view ((rst cX.2).withInp b').s.inp 0 := by
          rw [i2]
          exact RSt.view_congr hn3 b' 0
        by_cases hpN : cX.2.s.produced = N
        · have f1 : (cX.2.s.produced == N) = true := by simpa using hpN
          simp only [f1, Bool.not_true, Bool.false_eq_true, if_false, if_true, forall_const] at hX hZ hfree ⊢
          have hfr : cX.2.s.produced < N' := hfree
          have f2 : (cX.2.s.produced == N') = false := by
            simp only [beq_eq_false_iff_ne, ne_eq]; omega
          simp only [f2, Bool.not_false, if_true] at hY ⊢
          rw [fuel_agree_congr code N' fY fZ hv hY hZ]
          exact EqvW.refl _
        · have f1 : (cX.2.s.produced == N) = false := by simpa using hpN
          have f2 : (cX.2.s.produced == N') = false := by
            simp only [beq_eq_false_iff_ne, ne_eq]; omega
          simp only [f1, Bool.not_false, if_true] at hX hZ hfree ⊢
          simp only [f2, Bool.not_false, if_true] at hY ⊢
          cases fY with
          | zero => exact absurd rfl hY
          | succ fY =>
          rw [dB_congr code fY N' hv] at hY ⊢
          rw [← withInp_self i1] at hX hZ hfree ⊢
          exact absorb_w_aux hc hw hNN hag fX (fY + 1) fZ (rst cX.2) i3 hX hY hZ hfree
      · -- LZMA_OK without a reset request
        have hr' := bool_false_of_ne_true hr
        have hres := hresume hok hr'
        have cx : CInv P cX.2 b := stX.cf.cinv hr'
        have cx' : CInv P cX.2 b' := cx.mono hag
        have hp1 : (post N cX).1 = cX := post_fst_noreset hr'
        have g1 := stX.cf.pos_mono; have g2 := stX.cf.pos_le; have g3 := stX.cf.size; have g4 := stX.cf.hist
        have g5 := stX.cf.outBase; have g6 := stX.cq.base; have g7 := stX.lim_le; have g8 := stY.lim_le
        have e1 : r.wrap.s.produced = r.wrap.s.hist.size - r.wrap.s.outBase := rfl
        have e2 : cX.2.s.produced = cX.2.s.hist.size - cX.2.s.outBase := rfl
        have hxp : cX.2.s.produced ≤ N := stX.prod
        by_cases hps : cX.2.s.dp.pos < cX.2.s.dp.size
        · -- the window is not full: as without wrap
          have hfl : (post N cX).2 = false := by
            apply bool_false_of_ne_true
            intro h
            exact ((post_flag_noreset hr').mp h).2.2 hps
          simp only [hfl, Bool.false_eq_true, if_false, hp1, hok, if_true, forall_const] at hX hZ hfree ⊢
          cases fZ with
          | zero => exact absurd rfl hZ
          | succ fZ =>
          have hlz : lim0 N' cX.2.wrap = lim0 N' r.wrap := by
            rw [wrap_of_ne (Nat.ne_of_lt hps)]
            have hl := stX.lim_ge
            unfold lim0 at g2 g7 hl ⊢
            omega
          rw [dB_succ code fZ N' (cX.2.withInp b'), prep_w, hlz, wrap_of_ne (Nat.ne_of_lt hps)] at hZ ⊢
          have cfZ := code_facts hc hw cx' (L := lim0 N' r.wrap) (by have := stY.lim_ge; unfold lim0 at g2 this ⊢; omega)
            (by rw [g3]; exact g8)
          generalize code (cX.2.view b' (lim0 N' r.wrap)) = cZ at *
          rcases hres with hS | hO
          · have e : cY = cZ := by
              refine Prod.ext hS.1 ?_
              calc cY.2 = cY.2.view b' (lim0 N' r.wrap) := (view_self stY.cf.inp stY.cf.limit).symm
                _ = cZ.2.view b' (lim0 N' r.wrap) := RSt.view_congr hS.2 _ _
                _ = cZ.2 := view_self cfZ.inp cfZ.limit
            subst e
            cases hb : (post N' cY).2
            · simp only [Bool.false_eq_true, if_false]
              exact EqvW.refl _
            · simp only [hb, if_true] at hY hZ ⊢
              rw [fuel_agree code N' fY fZ _ hY hZ]
              exact EqvW.refl _
          · obtain ⟨q1, q2, q3⟩ := post_eqv_stop (N1 := N') (N2 := N') (Or.inr hO) (by rw [hO.2.1]; decide)
            simp only [q1, q2, Bool.false_eq_true, if_false]
            exact q3.toW
        · -- the window is full: the more generous call went on with no room; the other one wraps first
          have hpos : cX.2.s.dp.pos = cX.2.s.dp.size := by omega
          have hLs : lim0 N' r.wrap = cX.2.s.dp.size := by omega
          rw [hLs] at hres
          have hinp := stY.cf.inp
          have hlim : cY.2.s.dp.limit = cX.2.s.dp.size := stY.cf.limit.trans hLs
          by_cases hpN : cX.2.s.produced = N
          · have hfl : (post N cX).2 = false := by
              apply bool_false_of_ne_true
              intro h
              exact ((post_flag_noreset hr').mp h).2.1 hpN
            simp only [hfl, Bool.false_eq_true, if_false, hp1, hok, if_true, forall_const] at hX hZ hfree ⊢
            have hfr : cX.2.s.produced < N' := hfree
            exact wrap_step hc hw cx' hpos hfr hres hinp hlim fY fZ hY hZ
          · have hfl : (post N cX).2 = true := (post_flag_noreset hr').mpr ⟨hok, hpN, hps⟩
            simp only [hfl, if_true, hp1] at hX hZ hfree ⊢
            have hfr : cX.2.s.produced < N' := by omega
            have ix : InvW P cX.2 b N := ⟨cx, hxp⟩
            have ix' : InvW P cX.2 b' N' := ix.mono hag hNN
            have hD := (dB_noProg_w hc hw (nuW cX.2 b' N' + 1) cX.2 ix' (Nat.lt_succ_self _)).1
            have hWS := wrap_step hc hw cx' hpos hfr hres hinp hlim fY (nuW cX.2 b' N' + 1) hY hD
            rw [← withInp_self stX.cf.inp] at hX hZ hfree ⊢
            exact hWS.trans (absorb_w_aux hc hw hNN hag fX (nuW cX.2 b' N' + 1) fZ cX.2 ix hX hD hZ hfree)
    · -- final answer of the coder
      have hs := hstop hok
      obtain ⟨q1, q2, q3⟩ := post_eqv_stop (N1 := N') (N2 := N) hs hok
      have hne : (post N cX).1.1 ≠ .ok := by rw [stX.pret]; exact hok
      simp only [q1, q2, Bool.false_eq_true, if_false, hne]
      exact q3.toW


/-- **Absorption for the LZ layer (`decode_buffer`), dictionary wraps included.** As `absorb` (Lemmas/LzmaResumeLz.lean), up to a
    pending wrap (`EqvW`). -/
theorem absorb_w {P : RSt → Prop} {code : RSt → Ret × RSt} (hc : CodeAbsorb P code) (hw : CodeWrap P code) {N N' : Nat}
    {b b' : ByteArray} (hNN : N ≤ N') (hag : Agree b.size b b') (r : RSt) (hi : InvW P r b N) (fX fY fZ : Nat)
    (hfX : nuW r b N < fX) (hfY : nuW r b' N' < fY)
    (hfZ : nuW (decodeBufferR code fX N (r.withInp b)).2 b' N' < fZ)
    (hfree : (decodeBufferR code fX N (r.withInp b)).1 = .ok → (decodeBufferR code fX N (r.withInp b)).2.s.produced < N') :
    EqvW (decodeBufferR code fY N' (r.withInp b'))
        (if (decodeBufferR code fX N (r.withInp b)).1 = .ok
          then decodeBufferR code fZ N' ((decodeBufferR code fX N (r.withInp b)).2.withInp b')
          else decodeBufferR code fX N (r.withInp b))
    ∧ (decodeBufferR code fX N (r.withInp b)).1 ≠ .progError
    ∧ (decodeBufferR code fY N' (r.withInp b')).1 ≠ .progError
    ∧ InvW P (decodeBufferR code fX N (r.withInp b)).2 b N
    ∧ (decodeBufferR code fX N (r.withInp b)).2.s.inp = b := by
  have bX := dB_noProg_w hc hw fX r hi hfX
  have bY := dB_noProg_w hc hw fY r (hi.mono hag hNN) hfY
  have bZ := dB_noProg_w hc hw fZ _ (bX.2.1.mono hag hNN) hfZ
  exact ⟨absorb_w_aux hc hw hNN hag fX fY fZ r hi bX.1 bY.1 (fun _ => bZ.1) hfree, bX.1, bY.1, bX.2.1, bX.2.2⟩

end XzVerif.LzmaR
