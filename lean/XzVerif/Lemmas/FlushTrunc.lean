/-
  C01 / C06, LZMA2 decoder side: the executable decoder `Lzma2.lzma2Decode` on a valid chunk sequence WITHOUT the end
  marker (what the encoder has emitted after LZMA_SYNC_FLUSH / LZMA_FULL_FLUSH): every byte of the chunks is produced, all
  the input is consumed, and the decoder stops with LZMA_OK (it waits for more input at SEQ_CONTROL).

  The step lemmas of Lzma2ExecRun / Lzma2ExecStream are generic in the bytes that follow a chunk; this file redoes the
  composition lemmas (`Paused`, `Res2`, `Ready`, `run_boundary`, `run_ready`, `db2_run`) for a remainder that consists of
  chunks only.  Part 1: `lzma2_decode` level.
-/
import XzVerif.Lemmas.Lzma2ExecTop
import XzVerif.Lemmas.C03Coder

namespace XzVerif.LzmaExec
open XzVerif.RangeDec XzVerif.RangeEnc XzVerif.RangeCoder XzVerif.LzDict XzVerif.Lzma XzVerif.LzmaEnc XzVerif.LzmaSymDec
open XzVerif.LzmaSym XzVerif.LzmaSpec XzVerif.Lzma2Enc XzVerif.Lzma2

/-- `lzma2_decode` at SEQ_CONTROL without input: `while (*in_pos < in_size || …)` is not entered, LZMA_OK -/
theorem loop_starve (f : Nat) (s : St) (hge : s.inp.size ≤ s.inPos) (hseq : s.l2.seq = .control) :
    lzma2Loop (f + 1) s = (.ok, s) := by
  have hn : ¬ s.inPos < s.inp.size := by omega
  rw [lzma2Loop, if_pos (by simp [hseq, hn])]

theorem in_nil_ge {s : St} (h : In s []) : s.inp.size ≤ s.inPos := by
  rcases in_length h with h1 | ⟨_, h1⟩
  · simp only [List.length_nil] at h1; omega
  · exact h1

/-- paused inside a chunk (dictionary full), with the chunks that follow (and nothing after them) -/
def PausedT (p : Props) (dictSize : Nat) (buf : ByteArray) (base : Nat) (CF : L2Cfg) (s : St) : Prop :=
  ∃ n C' bytes', Chunks p dictSize buf base C' bytes' CF ∧ Cfg2 p C' ∧
    (LRdy p dictSize buf base s s n C' bytes' ∨ URdy p dictSize buf base s n C' bytes')

/-- the outcome of `lzma2_decode` run on `sRun` (`s0` = the state the call started from): LZMA_OK either at the boundary
    after the last chunk with the input used up, or paused inside a chunk -/
def Res2T (p : Props) (dictSize : Nat) (buf : ByteArray) (base : Nat) (CF : L2Cfg) (f : Nat) (s0 sRun : St) : Prop :=
  (∃ sF, lzma2Loop f sRun = (.ok, sF) ∧ BSt p dictSize buf base CF sF ∧ In sF [] ∧ Keep2 s0 sF) ∨
  (∃ s', lzma2Loop f sRun = (.ok, s') ∧ PausedT p dictSize buf base CF s' ∧ Keep2 s0 s' ∧ s'.dp.pos = s0.dp.limit)

theorem Res2T.of_eq {p : Props} {dictSize : Nat} {buf : ByteArray} {base : Nat} {CF : L2Cfg} {f f' : Nat}
    {s0 s1 sRun sRun' : St} (h : Res2T p dictSize buf base CF f' s1 sRun') (heq : lzma2Loop f sRun = lzma2Loop f' sRun')
    (hk : Keep2 s0 s1) : Res2T p dictSize buf base CF f s0 sRun := by
  rcases h with ⟨sF, hr, hb, hi, hk2⟩ | ⟨s', hr, hpa, hk2, hpos⟩
  · exact Or.inl ⟨sF, by rw [heq]; exact hr, hb, hi, hk.trans hk2⟩
  · exact Or.inr ⟨s', by rw [heq]; exact hr, hpa, hk.trans hk2, by rw [hpos, hk.limit]⟩

/-- finishing the current LZMA chunk, then whatever the continuation `k` proves from the next boundary -/
theorem lrdy_thenT (p : Props) (hp : PropsOk p) (dictSize : Nat) (hd : dictSize ≤ 4294967295) (buf : ByteArray) (base : Nat)
    (CF : L2Cfg) (t t' : St) (n : Nat) (C' : L2Cfg) (bytes' : List UInt8)
    (h : LRdy p dictSize buf base t t' n C' bytes') (hch : Chunks p dictSize buf base C' bytes' CF)
    (hc2 : Cfg2 p C') (f : Nat)
    (k : ∀ sB, BSt p dictSize buf base C' sB → In sB bytes' → Res2T p dictSize buf base CF f sB sB) :
    Res2T p dictSize buf base CF (f + 1) t' t := by
  rcases lrdy_step p hp dictSize hd buf base t t' n C' _ h f with ⟨_, sB, hrun, hb, hin, hk2, _⟩ | ⟨_, s2, hrun, hl2, hpos, hk2⟩
  · exact (k sB hb hin).of_eq hrun hk2
  · exact Or.inr ⟨s2, hrun, ⟨_, C', bytes', hch, hc2, Or.inl hl2⟩, hk2, hpos⟩

theorem urdy_thenT (p : Props) (dictSize : Nat) (buf : ByteArray) (base : Nat)
    (CF : L2Cfg) (t : St) (n : Nat) (C' : L2Cfg) (bytes' : List UInt8)
    (h : URdy p dictSize buf base t n C' bytes') (hch : Chunks p dictSize buf base C' bytes' CF)
    (hc2 : Cfg2 p C') (f : Nat)
    (k : ∀ sB, BSt p dictSize buf base C' sB → In sB bytes' → Res2T p dictSize buf base CF f sB sB) :
    Res2T p dictSize buf base CF (f + 1) t t := by
  rcases urdy_step p dictSize buf base t n C' _ h hc2 f with ⟨_, sB, hrun, hb, hin, hk2, _⟩ | ⟨_, s2, hrun, hu2, hpos, hk2⟩
  · exact (k sB hb hin).of_eq hrun hk2
  · exact Or.inr ⟨s2, hrun, ⟨_, C', bytes', hch, hc2, Or.inr hu2⟩, hk2, hpos⟩

/-- from a chunk boundary over the remaining chunks, the input ending with the last of them -/
theorem run_boundaryT (p : Props) (hp : PropsOk p) (dictSize : Nat) (hd : dictSize ≤ 4294967295) (buf : ByteArray) (base : Nat)
    (CF : L2Cfg) {C : L2Cfg} {bytes : List UInt8} (hch : Chunks p dictSize buf base C bytes CF) :
    ∀ (s : St) (f : Nat), BSt p dictSize buf base C s → In s bytes → bytes.length + 2 ≤ f →
      Res2T p dictSize buf base CF f s s := by
  induction hch with
  | nil C =>
    intro s f hb hin hf
    obtain ⟨f', rfl⟩ : ∃ f', f = f' + 1 := ⟨f - 1, by omega⟩
    exact Or.inl ⟨s, loop_starve f' s (in_nil_ge hin) hb.seq, hb, hin, Keep2.refl s⟩
  | @cons C C1 C2 b bs hc hrest ih =>
    intro s f hb hin hf
    obtain ⟨hc21, _⟩ := cfg2_after hc
    cases hc with
    | lzma syms ops encPos' st' usize henc hlen hu1 hu2 hoff hcs =>
      have hc5 : 5 ≤ (encFlush (encOps (C.ps0 p) Enc.init ops).2).out.length :=
        flush_len5 (outOk2_encOps ops _ _ outOk2_init).2
      have hblen : 10 ≤ (headerLzma C.needProps C.needStateReset C.needDictReset usize
          (encFlush (encOps (C.ps0 p) Enc.init ops).2).out.length p ++ (encFlush (encOps (C.ps0 p) Enc.init ops).2).out).length := by
        simp only [headerLzma, List.length_append, List.length_cons]; omega
      have hhl : (headerLzma C.needProps C.needStateReset C.needDictReset usize
          (encFlush (encOps (C.ps0 p) Enc.init ops).2).out.length p).length = 5 + (if C.needProps = true then 1 else 0) := by
        simp only [headerLzma, List.length_append, List.length_cons, List.length_nil]; split <;> rfl
      simp only [List.length_append] at hf hblen
      -- fuel: control byte, the other header bytes, the SEQ_LZMA iteration
      obtain ⟨f3, rfl⟩ : ∃ f3, f = ((f3 + 1) + (4 + if C.needProps = true then 1 else 0)) + 1 :=
        ⟨f - 1 - (4 + if C.needProps = true then 1 else 0) - 1, by split <;> omega⟩
      have hf3 : bs.length + 2 ≤ f3 := by
        rw [hhl] at hf hblen
        split at hf <;> split at hblen <;> omega
      obtain ⟨t, hrun1, hact, hdp1, hh1, hob1, hinp1, hpos1⟩ := ctlL_step p hp dictSize buf base C s syms ops encPos' st' usize
        bs hb henc hlen hu1 hu2 hoff hcs hin _
      obtain ⟨t5, t5', hrun2, hlr, hdp5, hh5, hob5, hinp5, hpos5⟩ :=
        sizesL p hp dictSize hd buf base t C syms ops encPos' st' usize bs hact (f3 + 1)
      have hres := lrdy_thenT p hp dictSize hd buf base C2 t5 t5' usize _ bs hlr hrest hc21 f3
        (fun sB hbB hinB => ih sB f3 hbB hinB hf3)
      have hk : Keep2 s t5' := keep2_of_eq (by rw [hdp5, hdp1]) (by rw [hh5, hh1]) (by rw [hob5, hob1]) (by rw [hinp5, hinp1])
        (by omega)
      exact hres.of_eq (by rw [hrun1, hrun2]) hk
    | uncomp usize encPos' st' ps' hu1 hu2 hoff =>
      have hsl := sliceList_length buf (base + C.off) usize hoff
      simp only [List.length_append, headerUncompressed, List.length_cons, List.length_nil, hsl] at hf
      obtain ⟨f3, rfl⟩ : ∃ f3, f = ((f3 + 1) + 2) + 1 := ⟨f - 4, by omega⟩
      have hf3 : bs.length + 2 ≤ f3 := by omega
      obtain ⟨t, hrun1, hact, hdp1, hh1, hob1, hinp1, hpos1⟩ := ctlU_step p dictSize buf base C s usize bs hb hu1 hu2
        hoff hin _
      obtain ⟨t2, hrun2, hur, hdp2, hh2, hob2, hinp2, hpos2⟩ := sizesU p dictSize buf base t C usize bs hact encPos'
        st' ps' (f3 + 1)
      have hres := urdy_thenT p dictSize buf base C2 t2 usize _ bs hur hrest hc21 f3
        (fun sB hbB hinB => ih sB f3 hbB hinB hf3)
      have hk : Keep2 s t2 := keep2_of_eq (by rw [hdp2, hdp1]) (by rw [hh2, hh1]) (by rw [hob2, hob1]) (by rw [hinp2, hinp1])
        (by omega)
      exact hres.of_eq (by rw [hrun1, hrun2]) hk

/-! ### states a `decode_buffer` iteration can start from -/

inductive ReadyT (p : Props) (dictSize : Nat) (buf : ByteArray) (base : Nat) (CF : L2Cfg) : St → Prop
  | boundary {C : L2Cfg} {bytes : List UInt8} {s : St} : BSt p dictSize buf base C s → Chunks p dictSize buf base C bytes CF →
      In s bytes → ReadyT p dictSize buf base CF s
  | paused {s : St} : PausedT p dictSize buf base CF s → ReadyT p dictSize buf base CF s
  | afterU {t : St} {C : L2Cfg} {usize encPos' : Nat} {st' : SymSt} {ps' : Probs} {bytes' : List UInt8} :
      AfterCtlU p dictSize buf base t C usize bytes' →
      Chunks p dictSize buf base (cfgAfterU C usize encPos' st' ps') bytes' CF → ReadyT p dictSize buf base CF t
  | afterL {t : St} {C : L2Cfg} {syms : List Sym} {ops : List Op} {encPos' : Nat} {st' : SymSt} {usize : Nat}
      {bytes' : List UInt8} : AfterCtlL p dictSize buf base t C syms ops encPos' st' usize bytes' →
      Chunks p dictSize buf base (cfgAfterL p C ops encPos' st' usize) bytes' CF → ReadyT p dictSize buf base CF t

/-- `lzma2_decode` from any such state, with the fuel `lzma2Call` provides -/
theorem run_readyT (p : Props) (hp : PropsOk p) (dictSize : Nat) (hd : dictSize ≤ 4294967295) (buf : ByteArray) (base : Nat)
    (CF : L2Cfg) (s : St) (h : ReadyT p dictSize buf base CF s) :
    Res2T p dictSize buf base CF (2 * (s.inp.size - s.inPos) + 4) s s := by
  cases h with
  | @boundary C bytes _ hb hch hin =>
    have hlen : bytes.length ≤ s.inp.size - s.inPos := by
      rcases in_length hin with h1 | ⟨h1, _⟩
      · omega
      · rw [h1]; exact Nat.zero_le _
    exact run_boundaryT p hp dictSize hd buf base CF hch s _ hb hin (by omega)
  | paused hpa =>
    obtain ⟨n, C', bytes', hch, hc2, hl | hu⟩ := hpa
    · have hcs := hl.cs
      obtain ⟨f, hf⟩ : ∃ f, 2 * (s.inp.size - s.inPos) + 4 = f + 1 := ⟨_, rfl⟩
      rw [hf]
      exact lrdy_thenT p hp dictSize hd buf base CF s s n C' bytes' hl hch hc2 f
        (fun sB hbB hinB => run_boundaryT p hp dictSize hd buf base CF hch sB f hbB hinB (by omega))
    · have hsl := sliceList_length buf (base + (C'.off - n)) n (by have := hu.le; have := hu.off; omega)
      have hnpos := hu.npos
      have hlen := in_len hu.inp (by
        intro h0
        have h1 := congrArg List.length h0
        simp only [List.length_append, List.length_nil, hsl] at h1
        omega)
      simp only [List.length_append, hsl] at hlen
      obtain ⟨f, hf⟩ : ∃ f, 2 * (s.inp.size - s.inPos) + 4 = f + 1 := ⟨_, rfl⟩
      rw [hf]
      exact urdy_thenT p dictSize buf base CF s n C' bytes' hu hch hc2 f
        (fun sB hbB hinB => run_boundaryT p hp dictSize hd buf base CF hch sB f hbB hinB (by omega))
  | @afterU t C usize encPos' st' ps' bytes' hact hch =>
    have hlen := in_len hact.inp (by simp)
    simp only [List.length_append, List.length_cons] at hlen
    obtain ⟨f, hf⟩ : ∃ f, 2 * (s.inp.size - s.inPos) + 4 = (f + 1) + 2 := ⟨2 * (s.inp.size - s.inPos) + 1, by omega⟩
    rw [hf]
    obtain ⟨t2, hrun2, hur, hdp2, hh2, hob2, hinp2, hpos2⟩ := sizesU p dictSize buf base s C usize bytes' hact encPos'
      st' ps' (f + 1)
    have hc2 : Cfg2 p (cfgAfterU C usize encPos' st' ps') := fun _ h2 => by cases h2
    have hres := urdy_thenT p dictSize buf base CF t2 usize _ bytes' hur hch hc2 f
      (fun sB hbB hinB => run_boundaryT p hp dictSize hd buf base CF hch sB f hbB hinB (by omega))
    exact hres.of_eq hrun2 (keep2_of_eq hdp2 hh2 hob2 hinp2 (by omega))
  | @afterL t C syms ops encPos' st' usize bytes' hact hch =>
    have hlen := in_len hact.inp (by simp)
    simp only [List.length_append, List.length_cons] at hlen
    obtain ⟨f, hf⟩ : ∃ f, 2 * (s.inp.size - s.inPos) + 4 = (f + 1) + (4 + if C.needProps = true then 1 else 0) :=
      ⟨2 * (s.inp.size - s.inPos) + 4 - 1 - (4 + if C.needProps = true then 1 else 0), by split <;> omega⟩
    have hfb : bytes'.length + 2 ≤ f := by split at hf <;> omega
    rw [hf]
    obtain ⟨t5, t5', hrun2, hlr, hdp5, hh5, hob5, hinp5, hpos5⟩ :=
      sizesL p hp dictSize hd buf base s C syms ops encPos' st' usize bytes' hact (f + 1)
    have hc2 : Cfg2 p (cfgAfterL p C ops encPos' st' usize) := fun h1 => by cases h1
    have hres := lrdy_thenT p hp dictSize hd buf base CF t5 t5' usize _ bytes' hlr hch hc2 f
      (fun sB hbB hinB => run_boundaryT p hp dictSize hd buf base CF hch sB f hbB hinB hfb)
    exact hres.of_eq hrun2 (keep2_of_eq hdp5 hh5 hob5 hinp5 hpos5)

/-! ### the top of the `decode_buffer` loop keeps every kind of ready state -/

theorem readyT_relimit {p : Props} {dictSize : Nat} {buf : ByteArray} {base : Nat} {CF : L2Cfg} {s : St}
    (h : ReadyT p dictSize buf base CF s) (avail : Nat) : ReadyT p dictSize buf base CF (relimit s avail) := by
  cases h with
  | boundary hb hch hin => exact ReadyT.boundary (bst_relimit hb avail) hch hin
  | paused hpa =>
    obtain ⟨n, C', bytes', hch, hc2, hl | hu⟩ := hpa
    · exact ReadyT.paused ⟨n, C', bytes', hch, hc2, Or.inl (lrdy_relimit hl avail)⟩
    · exact ReadyT.paused ⟨n, C', bytes', hch, hc2, Or.inr (urdy_relimit hu avail)⟩
  | afterU hact hch => exact ReadyT.afterU (afterU_relimit hact avail) hch
  | afterL hact hch => exact ReadyT.afterL (afterL_relimit hact avail) hch

/-- facts every ready state provides -/
theorem readyT_facts {p : Props} {dictSize : Nat} {buf : ByteArray} {base : Nat} {CF : L2Cfg} {s : St}
    (h : ReadyT p dictSize buf base CF s) :
    (∃ rb, Win s rb dictSize) ∧ s.dp.needReset = false ∧ s.hist.size ≤ s.outBase + CF.off := by
  cases h with
  | boundary hb hch hin =>
    have := chunks_off_le hch
    exact ⟨⟨_, hb.win⟩, hb.nr, by rw [hb.prod]; omega⟩
  | paused hpa =>
    obtain ⟨n, C', bytes', hch, hc2, hl | hu⟩ := hpa
    · obtain ⟨k, psF, hcs, _⟩ := hl.ex
      obtain ⟨_, _, _, _, _, _, _, _, _, _, hsim, _⟩ := hcs.work
      have := chunks_off_le hch
      have := hl.prod
      exact ⟨⟨_, hsim.win⟩, hl.nr, by omega⟩
    · have := chunks_off_le hch
      have := hu.prod
      exact ⟨⟨_, hu.win⟩, hu.nr, by omega⟩
  | afterU hact hch =>
    have h1 := chunks_off_le hch
    simp only [cfgAfterU] at h1
    exact ⟨⟨_, hact.win⟩, hact.nr, by rw [hact.prod]; omega⟩
  | afterL hact hch =>
    have h1 := chunks_off_le hch
    simp only [cfgAfterL] at h1
    exact ⟨⟨_, hact.win⟩, hact.nr, by rw [hact.prod]; omega⟩

/-- paused states have output left -/
theorem pausedT_facts {p : Props} {dictSize : Nat} {buf : ByteArray} {base : Nat} {CF : L2Cfg} {s : St}
    (h : PausedT p dictSize buf base CF s) : s.hist.size < s.outBase + CF.off := by
  obtain ⟨n, C', bytes', hch, hc2, hl | hu⟩ := h
  · have := chunks_off_le hch
    have := hl.prod
    have := hl.npos
    omega
  · have := chunks_off_le hch
    have := hu.prod
    have := hu.npos
    omega

/-! ### `decode_buffer` -/

/-- `decode_buffer` at the boundary after the last chunk with the input used up: one (more) call of `lzma2_decode`, which
    returns LZMA_OK at once; the dictionary position is below the dictionary size after the wrap, so `decode_buffer` returns -/
theorem db2_final (p : Props) (dictSize : Nat) (buf : ByteArray) (base : Nat) (CF : L2Cfg) (outSize : Nat) (f : Nat) (s : St)
    (hb : BSt p dictSize buf base CF s) (hin : In s []) (hcap : s.produced < outSize) :
    decodeBuffer lzma2Call (f + 1) outSize s = (.ok, relimit s (outSize - s.produced)) := by
  obtain ⟨_, _, _, _, hlt, _, hnr1⟩ := win_relimit hb.win (outSize - s.produced)
  have hb1 := bst_relimit hb (outSize - s.produced)
  rw [decodeBuffer_succ]
  generalize hs1 : relimit s (outSize - s.produced) = s1 at *
  have hh1 : s1.hist = s.hist := by rw [← hs1]; rfl
  have hob1 : s1.outBase = s.outBase := by rw [← hs1]; rfl
  have hin1 : In s1 [] := by
    show s1.inp.data.toList.drop s1.inPos = []
    rw [← hs1]; exact hin
  obtain ⟨f1, hf1⟩ : ∃ f1, 2 * (s1.inp.size - s1.inPos) + 4 = f1 + 1 := ⟨_, rfl⟩
  rw [lzma2Call_eq, hf1, loop_starve f1 s1 (in_nil_ge hin1) hb1.seq]
  have hnr : s1.dp.needReset = false := hb1.nr
  have hne : (s1.produced == outSize) = false := by
    simp only [St.produced, hh1, hob1, beq_eq_false_iff_ne, ne_eq]
    simp only [St.produced] at hcap
    omega
  simp only [hnr, Bool.false_eq_true, if_false, show (Ret.ok != Ret.ok) = false from rfl, hne, Bool.false_or,
    decide_eq_true_eq, if_pos hlt]

/-- `decode_buffer` around `lzma2_decode`, from any ready state, the input ending with the last chunk: LZMA_OK after
    everything was produced -/
theorem db2_runT (p : Props) (hp : PropsOk p) (dictSize : Nat) (hd : dictSize ≤ 4294967295) (buf : ByteArray) (base : Nat)
    (CF : L2Cfg) (outSize : Nat) :
    ∀ (n fuel : Nat) (s : St), ReadyT p dictSize buf base CF s → s.outBase + CF.off - s.hist.size = n →
      s.outBase ≤ s.hist.size → CF.off < outSize → n + 1 < fuel →
      ∃ sF, decodeBuffer lzma2Call fuel outSize s = (.ok, sF) ∧ Win sF (win buf (base + CF.off)) dictSize ∧
        sF.hist.size = sF.outBase + CF.off ∧ In sF [] ∧ sF.outBase = s.outBase ∧ sF.inp = s.inp := by
  intro n
  induction n using Nat.strong_induction_on with
  | _ n ih =>
    intro fuel s hr hn hob hcap hfuel
    obtain ⟨f, rfl⟩ : ∃ f, fuel = f + 1 := ⟨fuel - 1, by omega⟩
    obtain ⟨⟨rb, hwin⟩, hnr, hle⟩ := readyT_facts hr
    obtain ⟨_, _, _, hroom, hlt, hsz, hnr1⟩ := win_relimit hwin (outSize - s.produced)
    have hr1 := readyT_relimit hr (outSize - s.produced)
    rw [decodeBuffer_succ]
    generalize hs1 : relimit s (outSize - s.produced) = s1 at *
    have hh1 : s1.hist = s.hist := by rw [← hs1]; rfl
    have hob1 : s1.outBase = s.outBase := by rw [← hs1]; rfl
    have hinp1 : s1.inp = s.inp := by rw [← hs1]; rfl
    rcases run_readyT p hp dictSize hd buf base CF s1 hr1 with ⟨sF, hrun, hbF, hiF, hkF⟩ | ⟨s', hrun, hpa, hk, hpos⟩
    · rw [lzma2Call_eq, hrun]
      have hnrF : sF.dp.needReset = false := hbF.nr
      have hobF : sF.outBase = s.outBase := by rw [hkF.outBase, hob1]
      have hinpF : sF.inp = s.inp := by rw [hkF.inp, hinp1]
      have hprodF : sF.produced = CF.off := by
        have := hbF.prod
        simp only [St.produced]; omega
      have hne : (sF.produced == outSize) = false := by
        rw [hprodF]; simp only [beq_eq_false_iff_ne, ne_eq]; omega
      by_cases hposlt : sF.dp.pos < sF.dp.size
      · simp only [hnrF, Bool.false_eq_true, if_false, show (Ret.ok != Ret.ok) = false from rfl, hne, Bool.false_or,
          decide_eq_true_eq, if_pos hposlt]
        exact ⟨sF, rfl, hbF.win, hbF.prod, hiF, hobF, hinpF⟩
      · simp only [hnrF, Bool.false_eq_true, if_false, show (Ret.ok != Ret.ok) = false from rfl, hne, Bool.false_or,
          decide_eq_true_eq, if_neg hposlt]
        -- the dictionary is full exactly at the end of the data: `decode_buffer` wraps and calls `lzma2_decode` once more
        obtain ⟨f', rfl⟩ : ∃ f', f = f' + 1 := ⟨f - 1, by omega⟩
        rw [db2_final p dictSize buf base CF outSize f' sF hbF hiF (by rw [hprodF]; exact hcap)]
        obtain ⟨hw2, _⟩ := win_relimit hbF.win (outSize - sF.produced)
        exact ⟨_, rfl, hw2, hbF.prod, hiF, hobF, hinpF⟩
    · rw [lzma2Call_eq, hrun]
      have hnr' : s'.dp.needReset = false := by rw [hk.needReset, hnr1]; exact hnr
      have hlt' := pausedT_facts hpa
      have hob' : s'.outBase = s.outBase := by rw [hk.outBase, hob1]
      have hgrow := hk.grow
      rw [hh1] at hgrow
      have hne : (s'.produced == outSize) = false := by
        simp only [St.produced, beq_eq_false_iff_ne, ne_eq]; omega
      -- the pause is because the dictionary (not the output space) is full
      have hhp := hk.histpos
      rw [hh1] at hhp
      have hposlt : ¬ s'.dp.pos < s'.dp.size := by
        rw [hpos, hk.size]
        intro hlt2
        have hlim : s1.dp.limit - s1.dp.pos = outSize - s.produced := by omega
        simp only [St.produced] at hlim
        omega
      simp only [hnr', Bool.false_eq_true, if_false, show (Ret.ok != Ret.ok) = false from rfl, hne, Bool.false_or,
        decide_eq_true_eq, hposlt]
      have hsize' : s1.dp.pos < s'.dp.pos := by
        have : s'.dp.pos = s1.dp.size := by have := hk.size; omega
        omega
      obtain ⟨sF, hrunF, hwF, hpF, hiF, hobF, hinpF⟩ := ih (s'.outBase + CF.off - s'.hist.size) (by omega) f s'
        (ReadyT.paused hpa) rfl (by omega) hcap (by omega)
      exact ⟨sF, hrunF, hwF, hpF, hiF, by rw [hobF, hob'], by rw [hinpF, hk.inp, hinp1]⟩

/-! ### the whole decoder -/

/-- The executable LZMA2 decoder on a valid chunk sequence WITHOUT end marker (the input stops at a chunk boundary, as after
    LZMA_SYNC_FLUSH), with the `base` bytes before the data as preset dictionary: all the data of the chunks comes out, every
    input byte is consumed, and the return value is LZMA_OK (the decoder waits for the next control byte).
    No side condition on `bytes` (for `bytes = []` the decoder returns at once with empty output). -/
theorem lzma2Decode_of_chunks_trunc_base (p : Props) (hp : PropsOk p) (dictSize : Nat) (hd : dictSize ≤ 4294967295)
    (buf : ByteArray) (base : Nat) (hbase : base ≤ buf.size) (bytes : List UInt8) (CF : L2Cfg)
    (hch : Chunks p dictSize buf base (cfg0 p base) bytes CF) (hoff : CF.off = buf.size - base) (outCap : Nat)
    (hcap : buf.size - base < outCap) :
    lzma2Decode dictSize bytes ((hl buf).take base) outCap =
      { ret := .ok, out := (hl buf).drop base, consumed := bytes.length } := by
  obtain ⟨c0off, c0pos, c0st, c0ps, c0np, c0sr, c0dr⟩ := cfg0_fields p base
  generalize hpreset : (hl buf).take base = preset
  have hplen : preset.length = base := by rw [← hpreset]; simp [hl_length]; omega
  unfold lzma2Decode Coder.code Coder.initLzma2
  simp only []
  generalize hs0 : initLzma2 dictSize preset (ByteArray.mk bytes.toArray) = s0
  have hinp : s0.inp.data.toList = bytes := by rw [← hs0]; simp [initLzma2]
  have hf0 : s0.l2.seq = .control ∧ s0.l2.needProperties = true ∧ s0.l2.needDictionaryReset = preset.isEmpty ∧
      s0.initLeft = 5 ∧ s0.range = UINT32_MAX ∧ s0.code = 0 ∧ s0.pending = Pending.none ∧ s0.inPos = 0 ∧
      s0.dp = DictPos.init dictSize preset.length ∧ hl s0.hist = presetTail dictSize preset ∧
      s0.outBase = (presetTail dictSize preset).length := by
    rw [← hs0]
    refine ⟨rfl, rfl, rfl, rfl, rfl, rfl, rfl, rfl, rfl, ?_, rfl⟩
    simp [initLzma2, hl]
  obtain ⟨hseq0, hnp0, hndr0, hil0, hrg0, hcd0, hpd0, hip0, hdp0, hhl0, hob0⟩ := hf0
  have hwin0 : Win s0 (win buf base) dictSize := by
    have : win buf base = preset.reverse := by rw [← hpreset]; rfl
    rw [this]; exact win_init dictSize preset s0 hhl0 hdp0
  have hprod0 : s0.hist.size = s0.outBase + 0 := by rw [← hl_length, hhl0, hob0]; rfl
  have hin0 : In s0 bytes := by
    show s0.inp.data.toList.drop s0.inPos = _
    rw [hip0, hinp]; simp
  have hproduced0 : s0.produced = 0 := by simp only [St.produced]; omega
  have hsize0 : s0.inp.size = bytes.length := by
    rw [← ByteArray.size_data, ← Array.length_toList, hinp]
  rw [hproduced0, Nat.zero_add]
  obtain ⟨fu, hfu⟩ : ∃ fu, decodeBufferFuel s0 outCap = fu + 2 := ⟨(s0.inp.size - s0.inPos) + (outCap - s0.produced) + 2, by
    simp only [decodeBufferFuel]⟩
  have hfuel : buf.size - base + 1 < fu + 1 := by
    have : decodeBufferFuel s0 outCap = (s0.inp.size - s0.inPos) + (outCap - s0.produced) + 4 := rfl
    rw [hproduced0] at this
    omega
  -- the cursor never leaves the input (coder law of `decode_buffer`)
  have hlaw := (decodeBuffer_spec lzma2Call (fun s hi hl => lzma2Call_spec s hi hl) (decodeBufferFuel s0 outCap) outCap s0
    ⟨by rw [hip0]; exact Nat.zero_le _, by omega, by omega⟩).1.inp_ok
  rw [hfu] at hlaw ⊢
  -- the claim, once `decode_buffer` has been run
  suffices hmain : ∃ sF, decodeBuffer lzma2Call (fu + 2) outCap s0 = (.ok, sF) ∧
      Win sF (win buf (base + CF.off)) dictSize ∧ sF.hist.size = sF.outBase + CF.off ∧ In sF [] ∧ sF.outBase = s0.outBase ∧
      sF.inp = s0.inp by
    obtain ⟨sF, hrun, hwF, hpF, hiF, hobF, hinpF⟩ := hmain
    rw [hrun] at hlaw ⊢
    have hleF : sF.inPos ≤ sF.inp.size := hlaw
    have hout : histFrom sF.hist sF.outBase = (hl buf).drop base := by
      obtain ⟨extra, hpre⟩ := hwF.pre
      show (hl sF.hist).drop sF.outBase = _
      have hfull : base + CF.off = buf.size := by omega
      rw [hfull, win_full] at hpre
      have hsplit : (hl buf).reverse = ((hl buf).drop base).reverse ++ ((hl buf).take base).reverse := by
        rw [← List.reverse_append, List.take_append_drop]
      rw [hsplit] at hpre
      have hdl : ((hl buf).drop base).length = CF.off := by simp [hl_length]; omega
      have htl : (presetTail dictSize preset).length ≤ ((hl buf).take base).length := by
        rw [hpreset]; simp only [presetTail, List.length_drop]; omega
      exact out_of_win (hl sF.hist) extra _ _ sF.outBase (by rw [hobF, hob0]; exact htl) hpre
        (by rw [hl_length, hpF, hdl])
    have hcons : sF.inPos = bytes.length := by
      have := in_nil_ge hiF
      rw [hinpF] at this hleF
      omega
    simp only [Coder.output, Coder.consumed]
    rw [hout, hcons]
  by_cases hb0 : base = 0
  · -- no preset dictionary: the first control byte resets the dictionary
    subst hb0
    have hpe : preset = [] := List.eq_nil_of_length_eq_zero hplen
    have hndr0' : s0.l2.needDictionaryReset = true := by rw [hndr0, hpe]; rfl
    have hc0dr : (cfg0 p 0).needDictReset = true := by rw [c0dr]; rfl
    have hhist0 : s0.hist.size = 0 := by
      rw [← hl_length, hhl0, hpe]; simp [presetTail]
    have hob00 : s0.outBase = 0 := by rw [hob0, hpe]; simp [presetTail]
    have hdp00 : s0.dp = DictPos.init dictSize 0 := by rw [hdp0, hpe]; rfl
    obtain ⟨hm, hge, hal⟩ := allocSize_mod dictSize
    -- the first iteration
    rw [decodeBuffer_succ]
    generalize hs1 : relimit s0 (outCap - s0.produced) = s1
    have hs1f : s1.l2 = s0.l2 ∧ s1.inp = s0.inp ∧ s1.inPos = s0.inPos ∧ s1.hist = s0.hist ∧ s1.outBase = s0.outBase ∧
        s1.initLeft = 5 ∧ s1.range = UINT32_MAX ∧ s1.code = 0 ∧ s1.pending = Pending.none ∧
        s1.dp.pos = 576 ∧ s1.dp.full = 0 ∧ s1.dp.hasWrapped = false ∧ s1.dp.size = allocSize dictSize ∧
        576 ≤ s1.dp.limit ∧ s1.dp.limit ≤ s1.dp.size := by
      rw [← hs1]
      refine ⟨rfl, rfl, rfl, rfl, rfl, hil0, hrg0, hcd0, hpd0, ?_, ?_, ?_, ?_, ?_, ?_⟩
      all_goals simp only [relimit, hdp00, DictPos.init, DictPos.wrap, DictPos.setLimit, LZ_DICT_INIT_POS,
        Nat.zero_min, Nat.add_zero]
      all_goals (have : ((576 : Nat) == allocSize dictSize) = false := by simp; omega)
      all_goals simp only [this, Bool.false_eq_true, if_false]
      all_goals omega
    obtain ⟨h1l2, h1inp, h1ip, h1h, h1ob, h1il, h1rg, h1cd, h1pd, h1pos, h1full, h1wr, h1sz, h1lim, h1lim2⟩ := hs1f
    have hin1 : In s1 bytes := by
      show s1.inp.data.toList.drop s1.inPos = _; rw [h1inp, h1ip]; exact hin0
    -- the window of a state with empty history at the initial dictionary position
    have hwin_empty : ∀ t : St, t.hist = s1.hist → t.dp.pos = 576 → t.dp.full = 0 → t.dp.hasWrapped = false →
        t.dp.size = allocSize dictSize → 576 ≤ t.dp.limit → t.dp.limit ≤ t.dp.size → Win t (win buf (0 + 0)) dictSize := by
      intro t e1 e2 e3 e4 e5 e6 e7
      have hw0 : win buf (0 + 0) = [] := by simp [win]
      rw [hw0]
      have hts : t.hist.size = 0 := by rw [e1, h1h]; exact hhist0
      have hhl : hl t.hist = [] := List.eq_nil_of_length_eq_zero (by rw [hl_length]; exact hts)
      refine ⟨⟨[], by rw [hhl]; rfl⟩, by omega, Or.inl (by simp), e5, ?_, ?_, by omega, e7⟩
      · intro _; simp only [LZ_DICT_INIT_POS]; omega
      · intro h; rw [e4] at h; cases h
    have key : ∀ t : St, t.outBase = s0.outBase → t.inp = s0.inp → ReadyT p dictSize buf 0 CF t →
        t.outBase + CF.off - t.hist.size = buf.size - 0 → t.outBase ≤ t.hist.size →
        ∃ sF, decodeBuffer lzma2Call (fu + 1) outCap t = (.ok, sF) ∧ Win sF (win buf (0 + CF.off)) dictSize ∧
          sF.hist.size = sF.outBase + CF.off ∧ In sF [] ∧ sF.outBase = s0.outBase ∧ sF.inp = s0.inp := by
      intro t e1 e2 hr hn hob
      obtain ⟨sF, a, b', c, d, e, g⟩ := db2_runT p hp dictSize hd buf 0 CF outCap (buf.size - 0) (fu + 1) t hr hn hob
        (by omega) hfuel
      exact ⟨sF, a, b', c, d, by rw [e, e1], by rw [g, e2]⟩
    have hnotfull : (s1.hist.size - s1.outBase == outCap) = false := by
      simp only [h1h, h1ob, hhist0, hob00]; simp; omega
    cases hch with
    | nil =>
      -- no chunk at all: the decoder returns at once
      rw [lzma2Call_eq]
      obtain ⟨f1, hf1⟩ : ∃ f1, 2 * (s1.inp.size - s1.inPos) + 4 = f1 + 1 := ⟨_, rfl⟩
      rw [hf1, loop_starve f1 s1 (in_nil_ge hin1) (by rw [h1l2]; exact hseq0)]
      have hnr1 : s1.dp.needReset = false := by rw [← hs1]; simp only [relimit, DictPos.setLimit, DictPos.wrap]; split <;> (rw [hdp00]; rfl)
      have hlt1 : s1.dp.pos < s1.dp.size := by rw [h1pos, h1sz]; omega
      simp only [hnr1, Bool.false_eq_true, if_false, show (Ret.ok != Ret.ok) = false from rfl, St.produced, hnotfull, Bool.false_or,
        decide_eq_true_eq, if_pos hlt1]
      refine ⟨_, rfl, ?_, ?_, hin1, h1ob, h1inp⟩
      · rw [c0off]
        exact hwin_empty s1 rfl h1pos h1full h1wr h1sz h1lim h1lim2
      · rw [h1h, h1ob, c0off, hhist0, hob00]
    | @cons _ C1 _ b bs hc hrest =>
      have hin1' : In s1 (b ++ bs) := hin1
      -- the state after the dictionary reset requested by the first control byte
      cases hc with
      | lzma syms ops encPos' st' usize henc hlen hu1 hu2 hoffc hcs =>
        simp only [LZMA2_UNCOMPRESSED_MAX] at hu2
        have hx : (usize - 1) / 65536 < 32 := by omega
        simp only [headerLzma, c0np, hc0dr, if_true, List.cons_append, List.nil_append] at hin1'
        obtain ⟨hlt, hbyte, hdrop⟩ := curByte_of_drop hin1'
        have hcb : curByte s1 = (if true = true then (if true = true then 0x80 + 3 * 32 else 0x80 + 2 * 32)
            else (if (cfg0 p 0).needStateReset = true then 0x80 + 32 else 0x80)) + (usize - 1) / 65536 := by
          rw [hbyte, ofNat_toNat_of_lt]
          · simp
          · simp; omega
        rw [lzma2Call_eq]
        obtain ⟨f1, hf1⟩ : ∃ f1, 2 * (s1.inp.size - s1.inPos) + 4 = f1 + 1 := ⟨_, rfl⟩
        rw [hf1, loop_control f1 s1 hlt (by rw [h1l2]; exact hseq0), hcb, h1l2, hnp0, hndr0',
          ctl_lzma true (cfg0 p 0).needStateReset true _ hx (fun _ => rfl)]
        simp only [Bool.false_eq_true, if_false, if_true, controlApply, Bool.not_true, Bool.false_and]
        simp only [setL2, St.produced, hnotfull, show (Ret.ok != Ret.ok) = false from rfl, Bool.false_or, Bool.false_eq_true,
          if_false]
        -- now a ready state: after the control byte of the first LZMA chunk
        refine key _ h1ob h1inp
          (ReadyT.afterL (C := cfg0 p 0) (syms := syms) (ops := ops) (encPos' := encPos') (st' := st') (usize := usize)
            (bytes' := bs) ?_ hrest) ?_ ?_
        · refine ⟨rfl, rfl, (by rw [if_pos c0np]), rfl, rfl, (fun h => by rw [c0np] at h; cases h), ?_, ?_, rfl, ?_, henc, hlen, hu1,
            (by simp only [LZMA2_UNCOMPRESSED_MAX]; exact hu2), hoffc, hcs, ?_⟩
          · intro _
            simp only [L2Cfg.st0, L2Cfg.ps0, c0sr, Bool.false_eq_true, if_false, c0st, c0ps, and_self]
          · rw [c0off]
            exact hwin_empty _ rfl rfl rfl rfl h1sz h1lim h1lim2
          · show s1.hist.size = s1.outBase + (cfg0 p 0).off
            rw [h1h, h1ob, c0off, hhist0, hob00]
          · simp only [c0np, if_true]
            exact hdrop
        · show s1.outBase + CF.off - s1.hist.size = buf.size - 0
          rw [h1h, h1ob, hhist0, hob00, hoff]; omega
        · show s1.outBase ≤ s1.hist.size
          rw [h1h, h1ob, hhist0, hob00]
      | uncomp usize encPos' st' ps' hu1 hu2 hoffc =>
        simp only [headerUncompressed, hc0dr, if_true, List.cons_append, List.nil_append] at hin1'
        obtain ⟨hlt, hbyte, hdrop⟩ := curByte_of_drop hin1'
        have hcb : curByte s1 = if true = true then 1 else 2 := by rw [hbyte]; rfl
        rw [lzma2Call_eq]
        obtain ⟨f1, hf1⟩ : ∃ f1, 2 * (s1.inp.size - s1.inPos) + 4 = f1 + 1 := ⟨_, rfl⟩
        rw [hf1, loop_control f1 s1 hlt (by rw [h1l2]; exact hseq0), hcb, h1l2, hnp0, hndr0', ctl_uncomp]
        simp only [Bool.false_eq_true, if_false, if_true, controlApply]
        simp only [setL2, St.produced, hnotfull, show (Ret.ok != Ret.ok) = false from rfl, Bool.false_or, Bool.false_eq_true,
          if_false]
        refine key _ h1ob h1inp
          (ReadyT.afterU (C := cfg0 p 0) (usize := usize) (encPos' := encPos') (st' := st') (ps' := ps') (bytes' := bs) ?_ hrest)
          ?_ ?_
        · refine ⟨rfl, rfl, c0np.symm, rfl, (fun h => by rw [c0np] at h; cases h), h1il, h1rg, h1cd, h1pd, ?_, rfl, ?_, ?_, hu1, hu2,
            hoffc⟩
          · rw [c0off]
            exact hwin_empty _ rfl rfl rfl rfl h1sz h1lim h1lim2
          · show s1.hist.size = s1.outBase + (cfg0 p 0).off
            rw [h1h, h1ob, c0off, hhist0, hob00]
          · exact hdrop
        · show s1.outBase + CF.off - s1.hist.size = buf.size - 0
          rw [h1h, h1ob, hhist0, hob00, hoff]; omega
        · show s1.outBase ≤ s1.hist.size
          rw [h1h, h1ob, hhist0, hob00]
  · -- preset dictionary: no dictionary reset; the initial state is a chunk boundary
    have hbpos : base > 0 := by omega
    have hc0dr : (cfg0 p base).needDictReset = false := by rw [c0dr]; simp [hbpos]
    have hpne : preset.isEmpty = false := by
      cases preset with
      | nil => simp at hplen; omega
      | cons _ _ => rfl
    have hb : BSt p dictSize buf base (cfg0 p base) s0 :=
      ⟨hseq0, hnp0.trans c0np.symm, (by rw [hndr0, hpne]), hc0dr, (fun h => by rw [c0np] at h; cases h), hil0, hrg0, hcd0, hpd0,
        (by rw [c0off]; exact hwin0), (fun h => by rw [c0np] at h; cases h), (by rw [hdp0]; rfl), (fun _ _ => ⟨c0st, c0ps⟩),
        (by rw [c0off]; omega), (by rw [c0off]; exact hprod0)⟩
    exact db2_runT p hp dictSize hd buf base CF outCap (buf.size - base) (fu + 2) s0
      (ReadyT.boundary hb hch hin0) (by rw [hprod0, hoff]; omega) (by omega) (by omega) (by omega)

/-- The executable LZMA2 decoder on a valid chunk sequence WITHOUT end marker and without preset dictionary (the output of
    the LZMA2 encoder up to a LZMA_SYNC_FLUSH): the decoder produces ALL the data of the chunks, consumes all the input and
    returns LZMA_OK (`lzma2_decode` is at SEQ_CONTROL and wants the next control byte).  No side condition on `bytes`. -/
theorem lzma2Decode_of_chunks_trunc (p : Props) (hp : PropsOk p) (dictSize : Nat) (hd : dictSize ≤ 4294967295) (buf : ByteArray)
    (bytes : List UInt8) (CF : L2Cfg)
    (hch : Chunks p dictSize buf 0 (cfg0 p 0) bytes CF) (hoff : CF.off = buf.size) (outCap : Nat)
    (hcap : buf.size < outCap) :
    lzma2Decode dictSize bytes [] outCap = { ret := .ok, out := hl buf, consumed := bytes.length } := by
  have := lzma2Decode_of_chunks_trunc_base p hp dictSize hd buf 0 (Nat.zero_le _) bytes CF hch (by omega) outCap (by omega)
  simpa using this

end XzVerif.LzmaExec
