/-
  C04 (termination / totality): the explicit `fuel` of the container decoder models is never exhausted.

  Every function below recurses on a `fuel : Nat` argument and has a `| 0, … => <out-of-fuel value>` branch.  The
  theorems say that from the fuel their top-level caller supplies UPWARD the result does not depend on the fuel
  (`f (fuel + k) … = f fuel …` for all `k`), for ALL inputs and all parameters (`Env`, `Payload`, `One`, flags).
  Since the recursion depth on a given input is finite, this is exactly "the out-of-fuel branch never determines the
  result": the `.progError` the models return there is not observable.  (The direct form `ret ≠ .progError` is false
  in general: the abstract payload decoders may themselves return `.progError`.)

  This file: Model/XzDecode.lean (`blocksLoop`, `xzLoop`, `streamOne`, `xzCall`, `xzDecode`, `xzBufferDecode`),
  Model/XzConcat.lean (`xzLoop`, `xzDecode`), Model/Lzip.lean (`lzipLoop`, `lzipDecode`).
  Core Lean only.
-/
import XzVerif.Model.XzDecode
import XzVerif.Model.XzConcat
import XzVerif.Model.Lzip

namespace XzVerif.XzDecode
open XzVerif XzVerif.Vli XzVerif.Container

/-! ### Model/XzDecode.lean -/

/-- `blocksLoop`: one unit of fuel per Block; a Block consumes its header (`hs ≥ 4` bytes, all present). -/
theorem blocksLoop_fuel (E : Env) (fl : Flags) (hdr : StreamFlags) :
    ∀ (fuel : Nat) (blocks : HashInfo) (inp : List UInt8) (outCap : Nat), inp.length < fuel →
      ∀ k, blocksLoop E fl hdr (fuel + k) blocks inp outCap = blocksLoop E fl hdr fuel blocks inp outCap := by
  intro fuel
  induction fuel with
  | zero => intro _ _ _ h; omega
  | succ f ih =>
    intro blocks inp outCap h k
    rw [show f + 1 + k = (f + k) + 1 by omega]
    cases inp with
    | nil => rfl
    | cons b0 t =>
      simp only [blocksLoop]
      split
      · rfl
      · split
        · rfl
        · split
          · rfl
          · split
            · rfl
            · split
              · rfl
              · split
                · rfl
                · rename_i hlen _ _ _ _ _ _ _ _
                  rw [ih]
                  simp only [List.length_drop, List.length_cons] at *
                  omega

/-- `streamOne` calls `blocksLoop` with `inp.length + 1` units of fuel for an input of `inp.length - 12` bytes: any
    larger amount gives the same Stream result. -/
theorem streamOne_fuel (E : Env) (fl : Flags) (first : Bool) (inp : List UInt8) (outCap : Nat) (k : Nat) :
    streamOne E fl first inp outCap =
      if inp.length < STREAM_HEADER_SIZE then { ret := .ok, out := [], consumed := inp.length }
      else
        match streamHeaderDecode (inp.take STREAM_HEADER_SIZE) with
        | .error e =>
          { ret := if e = .formatError ∧ !first then .dataError else e, out := [], consumed := STREAM_HEADER_SIZE }
        | .ok hdr =>
          let r := blocksLoop E fl hdr (inp.length + 1 + k) [] (inp.drop STREAM_HEADER_SIZE) outCap
          { ret := r.ret, out := r.out, consumed := STREAM_HEADER_SIZE + r.consumed,
            events := headerEvents E fl hdr.check } := by
  have hf : ∀ hdr, blocksLoop E fl hdr (inp.length + 1 + k) [] (inp.drop STREAM_HEADER_SIZE) outCap
      = blocksLoop E fl hdr (inp.length + 1) [] (inp.drop STREAM_HEADER_SIZE) outCap :=
    fun hdr => blocksLoop_fuel E fl hdr (inp.length + 1) _ _ _ (by simp only [List.length_drop]; omega) k
  simp only [hf]
  rfl

/-- A Stream that ends with `.streamEnd` has consumed at least its 12-byte Stream Header, which was present. -/
theorem streamOne_streamEnd_consumed (E : Env) (fl : Flags) (first : Bool) (inp : List UInt8) (outCap : Nat)
    (h : (streamOne E fl first inp outCap).ret = .streamEnd) :
    STREAM_HEADER_SIZE ≤ (streamOne E fl first inp outCap).consumed ∧ STREAM_HEADER_SIZE ≤ inp.length := by
  unfold streamOne at h ⊢
  split
  · rename_i hl; rw [if_pos hl] at h; cases h
  · rename_i hl
    rw [if_neg hl] at h
    refine ⟨?_, by omega⟩
    split
    · rename_i e he; rw [he] at h; simp only at h; split at h <;> simp_all
    · simp only; omega

/-- `xzLoop`: one unit of fuel per Stream; a Stream that lets the loop continue consumed ≥ 12 bytes. -/
theorem xzLoop_fuel (E : Env) (fl : Flags) :
    ∀ (fuel : Nat) (first : Bool) (inp : List UInt8) (outCap : Nat), inp.length < fuel →
      ∀ k, xzLoop E fl (fuel + k) first inp outCap = xzLoop E fl fuel first inp outCap := by
  intro fuel
  induction fuel with
  | zero => intro _ _ _ h; omega
  | succ f ih =>
    intro first inp outCap h k
    rw [show f + 1 + k = (f + k) + 1 by omega]
    simp only [xzLoop]
    split
    · rfl
    · rename_i hse
      have hc := streamOne_streamEnd_consumed E fl first inp outCap (by simpa using hse)
      split
      · rfl
      · split
        · rfl
        · rw [ih]
          simp only [List.length_drop]
          unfold STREAM_HEADER_SIZE at hc
          omega

/-- `xzCall` supplies `inp.length + 1`: every larger amount of fuel gives the same result. -/
theorem xzCall_fuel (E : Env) (fl : Flags) (inp : List UInt8) (outCap : Nat) (k : Nat) :
    xzLoop E fl (inp.length + 1 + k) true inp outCap = xzCall E fl inp outCap :=
  xzLoop_fuel E fl (inp.length + 1) true inp outCap (by omega) k

/-- `xzDecode` (= `lzma_stream_decoder` + `lzma_code`) computed with any fuel ≥ `inp.length + 1`. -/
theorem xzDecode_fuel (E : Env) (fl : Flags) (inp : List UInt8) (outCap : Nat) (k : Nat) :
    (let r := xzLoop E fl (inp.length + 1 + k) true inp outCap
     if r.ret = .ok then { r with ret := .bufError } else r) = xzDecode E fl inp outCap := by
  simp only [xzCall_fuel]; rfl

/-- `xzBufferDecode` (= `lzma_stream_buffer_decode`) computed with any fuel ≥ `inp.length + 1`. -/
theorem xzBufferDecode_fuel (E : Env) (flags : Nat) (inp : List UInt8) (outCap : Nat) (k : Nat) :
    (if (Flags.ofNat flags).tellAnyCheck then ({ ret := .progError, out := [], consumed := 0 } : DRes)
     else if flags ≥ SUPPORTED_FLAGS_MASK then { ret := .optionsError, out := [], consumed := 0 }
     else
       let r := xzLoop E (Flags.ofNat flags) (inp.length + 1 + k) true inp outCap
       match r.events with
       | e :: _ => { ret := e, out := [], consumed := 0 }
       | [] =>
         if r.ret = .streamEnd then { ret := .ok, out := r.out, consumed := r.consumed }
         else if r.ret = .ok then
           { ret := if r.consumed = inp.length then .dataError else .bufError, out := [], consumed := 0 }
         else { ret := r.ret, out := [], consumed := 0 }) = xzBufferDecode E flags inp outCap := by
  simp only [xzCall_fuel]; rfl

end XzVerif.XzDecode

/-! ### Model/XzConcat.lean

`One` ("decode exactly one Stream") is a parameter.  A parameter that claims LZMA_STREAM_END without consuming anything
would make the C loop spin as well, so the hypothesis `hX` (a finished Stream has consumed at least one byte; a real
Stream has ≥ 32) is part of the statement.  `streamOne_isOne` discharges it for the Stream decoder of Model/XzDecode.lean. -/

namespace XzVerif.XzConcat
open XzVerif.Alone

/-- a finished Stream has consumed at least one byte -/
def Progress (X1 : One) : Prop := ∀ inp, (X1 inp).ret = .streamEnd → 0 < (X1 inp).consumed ∧ 0 < inp.length

theorem xzLoop_fuel (X1 : One) (hX : Progress X1) (cfg : Cfg) :
    ∀ (fuel : Nat) (first : Bool) (inp : List UInt8), inp.length < fuel →
      ∀ k, xzLoop X1 cfg (fuel + k) first inp = xzLoop X1 cfg fuel first inp := by
  intro fuel
  induction fuel with
  | zero => intro _ _ h; omega
  | succ f ih =>
    intro first inp h k
    rw [show f + 1 + k = (f + k) + 1 by omega]
    simp only [xzLoop]
    split
    · rfl
    · split
      · rfl
      · rename_i hr
        have hr := Classical.not_not.mp hr
        have hc := hX inp hr
        have hrec : ∀ z, xzLoop X1 cfg (f + k) false ((inp.drop (X1 inp).consumed).drop z)
            = xzLoop X1 cfg f false ((inp.drop (X1 inp).consumed).drop z) :=
          fun z => ih _ _ (by simp only [List.length_drop]; omega) k
        simp only [hrec]

/-- `xzDecode` supplies `inp.length + 1`: every larger amount of fuel gives the same result. -/
theorem xzDecode_fuel (X1 : One) (hX : Progress X1) (cfg : Cfg) (inp : List UInt8) (k : Nat) :
    xzLoop X1 cfg (inp.length + 1 + k) true inp = xzDecode X1 cfg inp :=
  xzLoop_fuel X1 hX cfg (inp.length + 1) true inp (by omega) k

/-- The hypothesis holds for the single-Stream decoder of Model/XzDecode.lean, for every `Env`, flags and `outCap`. -/
theorem streamOne_progress (E : XzDecode.Env) (fl : XzDecode.Flags) (first : Bool) (outCap : Nat) :
    Progress (fun inp => XzDecode.streamOne E fl first inp outCap) := by
  intro inp h
  have := XzDecode.streamOne_streamEnd_consumed E fl first inp outCap h
  unfold Container.STREAM_HEADER_SIZE at this
  exact ⟨Nat.lt_of_lt_of_le (by decide) this.1, Nat.lt_of_lt_of_le (by decide) this.2⟩

end XzVerif.XzConcat

/-! ### Model/Lzip.lean -/

namespace XzVerif.Lzip
open XzVerif.Alone

/-- a member that lets the loop continue (`.next`) consumed its 6-byte header and 12/20-byte footer -/
theorem lzipMember_next (P : Payload) (cfg : Cfg) (first : Bool) (inp : List UInt8) (o : List UInt8) (c : Nat)
    (ev : List Ret) (h : lzipMember P cfg first inp = .next o c ev) : 18 ≤ c ∧ inp ≠ [] := by
  unfold lzipMember at h
  split at h
  · cases h
  · cases h
  · rename_i r0 hid
    refine ⟨?_, by rintro rfl; simp [idString, magic] at hid⟩
    unfold memberHeader at h
    repeat (first
      | (injection h with _ hc _; subst hc; unfold footerSize; split <;> omega)
      | cases h
      | split at h
      | unfold memberBody at h
      | unfold memberFooter at h
      | simp only at h)

theorem lzipLoop_fuel (P : Payload) (cfg : Cfg) :
    ∀ (fuel : Nat) (first : Bool) (inp : List UInt8), inp.length < fuel →
      ∀ k, lzipLoop P cfg (fuel + k) first inp = lzipLoop P cfg fuel first inp := by
  intro fuel
  induction fuel with
  | zero => intro _ _ h; omega
  | succ f ih =>
    intro first inp h k
    rw [show f + 1 + k = (f + k) + 1 by omega]
    simp only [lzipLoop]
    split
    · rfl
    · rename_i o c ev hm
      have hc := lzipMember_next P cfg first inp o c ev hm
      have : 0 < inp.length := List.length_pos_iff.mpr hc.2
      rw [ih]
      simp only [List.length_drop]
      omega

/-- `lzipDecode` supplies `inp.length + 1`: every larger amount of fuel gives the same result. -/
theorem lzipDecode_fuel (P : Payload) (cfg : Cfg) (inp : List UInt8) (k : Nat) :
    lzipLoop P cfg (inp.length + 1 + k) true inp = lzipDecode P cfg inp :=
  lzipLoop_fuel P cfg (inp.length + 1) true inp (by omega) k

end XzVerif.Lzip
