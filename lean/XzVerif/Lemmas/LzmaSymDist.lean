/-
  Symbol-level round trip, part 3: match length and match distance (distance slot, reverse bittree footer, direct bits +
  align), incl. the arithmetic of `get_dist_slot`: for 4 ≤ dist < 2^32, slot = 2·⌊log2 dist⌋ + next bit, and
  dist = ((2 | slot&1) << (slot/2 − 1)) + reduced with reduced < 2^(slot/2 − 1).
-/
import XzVerif.Lemmas.LzmaSymLit

namespace XzVerif.LzmaSym
open XzVerif.RangeDec XzVerif.RangeEnc XzVerif.Lzma XzVerif.LzmaEnc XzVerif.LzmaSymDec

/-! ### length -/

theorem pLen_ops (lenBase posState len : Nat) (h2 : 2 ≤ len) (h273 : len ≤ 273) (rest : List Op) :
    (pLen lenBase posState).runOps (lengthOps lenBase posState len ++ rest) = some (len, rest) := by
  unfold pLen lengthOps
  simp only [MATCH_LEN_MIN, LEN_LOW_SYMBOLS, LEN_MID_SYMBOLS, LEN_LOW_BITS, LEN_MID_BITS, LEN_HIGH_BITS]
  by_cases hlow : len - 2 < 8
  · simp only [hlow, if_true, List.cons_append, Prog.runOps, Bool.not_false]
    rw [runOps_bind_of _ (pBittree_ops _ 3 (len - 2) 1 rest)]
    simp only [Prog.runOps]
    congr 2
    have : (len - 2) % 2 ^ 3 = len - 2 := Nat.mod_eq_of_lt (by simpa using hlow)
    rw [this]; omega
  · simp only [hlow, if_false]
    by_cases hmid : len - 2 - 8 < 8
    · simp only [hmid, if_true, List.cons_append, Prog.runOps, Bool.not_true, Bool.not_false, Bool.false_eq_true, if_false]
      rw [runOps_bind_of _ (pBittree_ops _ 3 (len - 2 - 8) 1 rest)]
      simp only [Prog.runOps]
      congr 2
      have : (len - 2 - 8) % 2 ^ 3 = len - 2 - 8 := Nat.mod_eq_of_lt (by simpa using hmid)
      rw [this]; omega
    · simp only [hmid, if_false, List.cons_append, Prog.runOps, Bool.not_true, Bool.false_eq_true, if_false]
      rw [runOps_bind_of _ (pBittree_ops _ 8 (len - 2 - 8 - 8) 1 rest)]
      simp only [Prog.runOps]
      have : (len - 2 - 8 - 8) % 2 ^ 8 = len - 2 - 8 - 8 := Nat.mod_eq_of_lt (by norm_num; omega)
      rw [this]
      have : 2 + 8 + 8 + (2 ^ 8 * 1 + (len - 2 - 8 - 8) - 256) = len := by norm_num; omega
      rw [this]
      simp

/-! ### get_dist_slot -/

theorem or_two (b : Nat) (h : b < 2) : 2 ||| b = 2 + b := by
  have : b = 0 ∨ b = 1 := by omega
  rcases this with rfl | rfl <;> rfl

/-- the structure of a distance ≥ 4 around its distance slot -/
theorem distSlot_spec (dist : Nat) (h4 : 4 ≤ dist) (h32 : dist < 4294967296) :
    ∃ i bit, 2 ≤ i ∧ i ≤ 31 ∧ bit < 2 ∧ getDistSlot dist = 2 * i + bit ∧
      (2 + bit) * 2 ^ (i - 1) ≤ dist ∧ dist - (2 + bit) * 2 ^ (i - 1) < 2 ^ (i - 1) := by
  have hne : dist ≠ 0 := by omega
  have hlo := Nat.log2_self_le hne
  have hhi := Nat.lt_log2_self (n := dist)
  generalize hi : Nat.log2 dist = i at hlo hhi
  have hi2 : 2 ≤ i := by
    by_contra hc
    have : i + 1 ≤ 2 := by omega
    have : 2 ^ (i + 1) ≤ 2 ^ 2 := Nat.pow_le_pow_right (by norm_num) this
    omega
  have hi31 : i ≤ 31 := by
    by_contra hc
    have : 32 ≤ i := by omega
    have : 2 ^ 32 ≤ 2 ^ i := Nat.pow_le_pow_right (by norm_num) this
    omega
  obtain ⟨j, rfl⟩ : ∃ j, i = j + 1 := ⟨i - 1, by omega⟩
  have hP : 0 < 2 ^ j := Nat.pow_pos (by norm_num)
  have e1 : 2 ^ (j + 1) = 2 * 2 ^ j := by rw [pow_succ]; ring
  have e2 : 2 ^ (j + 1 + 1) = 4 * 2 ^ j := by rw [pow_succ, pow_succ]; ring
  rw [e1] at hlo
  rw [e2] at hhi
  have hq2 : 2 ≤ dist / 2 ^ j := (Nat.le_div_iff_mul_le hP).mpr hlo
  have hq4 : dist / 2 ^ j < 4 := (Nat.div_lt_iff_lt_mul hP).mpr hhi
  have hdm := Nat.div_mul_le_self dist (2 ^ j)
  have hds := Nat.lt_mul_div_succ dist hP
  refine ⟨j + 1, (dist / 2 ^ j) % 2, hi2, hi31, Nat.mod_lt _ (by norm_num), ?_, ?_, ?_⟩
  · unfold getDistSlot
    have : ¬ dist < 4 := by omega
    simp only [this, if_false, LzmaEnc.log2, hi, Nat.add_sub_cancel, shr_and_one]
  · simp only [Nat.add_sub_cancel]
    generalize dist / 2 ^ j = q at *
    have : q = 2 ∨ q = 3 := by omega
    rcases this with rfl | rfl <;> simp at * <;> omega
  · simp only [Nat.add_sub_cancel]
    generalize dist / 2 ^ j = q at *
    have : q = 2 ∨ q = 3 := by omega
    rcases this with rfl | rfl <;> simp at * <;> omega

/-! ### distance -/

theorem pDist_ops (dist len : Nat) (h32 : dist < 4294967296) (rest : List Op) :
    (pDist len).runOps (distOps dist len ++ rest) = some (dist, rest) := by
  unfold pDist distOps
  simp only [DIST_SLOT_BITS, DIST_MODEL_START, DIST_MODEL_END, ALIGN_BITS, ALIGN_MASK]
  by_cases h4 : dist < 4
  · have hs : getDistSlot dist = dist := by simp [getDistSlot, h4]
    have hlt : ¬ (4 ≤ dist) := by omega
    simp only [hs, ge_iff_le, hlt, if_false]
    rw [runOps_bind_of _ (pBittree_ops _ 6 dist 1 rest)]
    have hm : dist % 2 ^ 6 = dist := Nat.mod_eq_of_lt (by norm_num; omega)
    simp only [hm]
    have : 2 ^ 6 * 1 + dist - 64 = dist := by norm_num
    simp only [this, h4, if_true, Prog.runOps]
  · obtain ⟨i, bit, hi2, hi31, hbit, hslot, hle, hlt⟩ := distSlot_spec dist (by omega) h32
    have hge : 4 ≤ 2 * i + bit := by omega
    have hs64 : (2 * i + bit) % 2 ^ 6 = 2 * i + bit := Nat.mod_eq_of_lt (by norm_num; omega)
    have hfb : (2 * i + bit) >>> 1 - 1 = i - 1 := by simp only [Nat.shiftRight_eq_div_pow]; omega
    have hfb' : (2 * i + bit) / 2 - 1 = i - 1 := by omega
    have hb1 : (2 * i + bit) &&& 1 = bit := by rw [Nat.and_one_is_mod]; omega
    have hb2 : (2 * i + bit) % 2 = bit := by omega
    have hbase : (2 ||| bit) <<< (i - 1) = (2 + bit) * 2 ^ (i - 1) := by rw [or_two _ hbit, Nat.shiftLeft_eq]
    simp only [hslot, ge_iff_le, hge, if_true, hfb, hb1, hbase]
    generalize hB : (2 + bit) * 2 ^ (i - 1) = B at *
    generalize hR : dist - B = R at *
    have hdist : B + R = dist := by omega
    by_cases h14 : 2 * i + bit < 14
    · simp only [h14, if_true]
      rw [List.append_assoc, runOps_bind_of _ (pBittree_ops _ 6 _ 1 _)]
      simp only [hs64]
      have : 2 ^ 6 * 1 + (2 * i + bit) - 64 = 2 * i + bit := by norm_num
      simp only [this, hfb', hb2, hB]
      have hn4 : ¬ (2 * i + bit < 4) := by omega
      simp only [hn4, if_false, h14, if_true]
      rw [pBittreeRev_ops]
      have : R % 2 ^ (i - 1) = R := Nat.mod_eq_of_lt hlt
      simp only [this, pow_zero, Nat.mul_one, hdist]
    · simp only [h14, if_false]
      rw [List.append_assoc, List.append_assoc, runOps_bind_of _ (pBittree_ops _ 6 _ 1 _)]
      simp only [hs64]
      have : 2 ^ 6 * 1 + (2 * i + bit) - 64 = 2 * i + bit := by norm_num
      simp only [this, hfb', hb2, hB]
      have hn4 : ¬ (2 * i + bit < 4) := by omega
      simp only [hn4, if_false, h14]
      rw [runOps_bind_of _ (pDirectBits_ops _ _ 0 _), pBittreeRev_ops]
      -- R = (R / 16) * 16 + R % 16 with R / 16 < 2^(i-1-4)
      have hi5 : 5 ≤ i - 1 := by omega
      obtain ⟨k, hk⟩ : ∃ k, i - 1 = k + 4 := ⟨i - 1 - 4, by omega⟩
      have hRk : R / 16 < 2 ^ k := by
        rw [hk, pow_add] at hlt
        have : R < 2 ^ k * 16 := by norm_num at hlt ⊢; exact hlt
        exact (Nat.div_lt_iff_lt_mul (by norm_num)).mpr this
      have hk' : i - 1 - 4 = k := by omega
      have hsh : R >>> 4 = R / 16 := by simp [Nat.shiftRight_eq_div_pow]
      have hand : R &&& 15 = R % 16 := by
        have := Nat.and_two_pow_sub_one_eq_mod R 4
        simpa using this
      simp only [hk', hsh, hand, Nat.mul_zero, Nat.zero_add, Nat.mod_eq_of_lt hRk, pow_zero, Nat.mul_one]
      congr 2
      have : R % 16 % 2 ^ 4 = R % 16 := by norm_num
      rw [this]; omega

end XzVerif.LzmaSym
