/-
  C09: the threaded coders.
    * `lzma_stream_encoder_mt`: everything that can be allocated at the same time (Model/Memusage.lean
      `streamEncoderMtAllocs`) is at most `lzma_stream_encoder_mt_memusage()` (+ the Index Record groups after the
      first, which grow with the number of Blocks and are not part of the estimate).
    * `lzma_stream_decoder_mt`, direct mode: SEQ_BLOCK_DIRECT_INIT gives back the cached output buffers and the worker
      threads before it sets up the single-threaded decoder, so that a Block whose chain fits `memlimit_stop` is
      decoded with at most `memlimit_stop` bytes live.
  Core Lean only.
-/
import XzVerif.Lemmas.MemlimitPeak

set_option linter.unusedSimpArgs false

namespace XzVerif.Memusage

/-! ## Threaded encoder -/

theorem sum_replicate (n x : Nat) : (List.replicate n x).sum = n * x := by
  induction n with
  | zero => simp
  | succ n ih => simp only [List.replicate_succ, List.sum_cons, ih, Nat.succ_mul]; omega

theorem sum_flatten_replicate (n : Nat) (l : List Nat) : (List.replicate n l).flatten.sum = n * l.sum := by
  induction n with
  | zero => simp
  | succ n ih => simp only [List.replicate_succ, List.flatten_cons, List.sum_append, ih, Nat.succ_mul]; omega

theorem copiedOptions_le (b : Build) : ∀ fs : List Filter, (copiedOptions b fs).sum ≤ fs.length * b.optMax := by
  intro fs
  induction fs with
  | nil => simp [copiedOptions]
  | cons f rest ih =>
    have h1 : b.szOptionsLzma ≤ b.optMax := by simp only [Build.optMax]; omega
    have h2 : b.szOptionsBcj ≤ b.optMax := by simp only [Build.optMax]; omega
    have h3 : b.szOptionsDelta ≤ b.optMax := by simp only [Build.optMax]; omega
    simp only [List.length_cons, Nat.succ_mul]
    cases f with
    | lzma1 o => simp only [copiedOptions, List.sum_cons]; omega
    | lzma2 o => simp only [copiedOptions, List.sum_cons]; omega
    | bcj id s => cases s <;> simp only [copiedOptions, List.sum_cons] <;> omega
    | delta d => cases d <;> simp only [copiedOptions, List.sum_cons] <;> omega
    | other id => simp only [copiedOptions]; omega

/-- What `lzma_raw_encoder_init` requests is covered by `lzma_raw_encoder_memusage()` up to the lzma_memcmplen slack
    (for chains whose LZMA2 dictionary is at least 60 KiB, see C09.encoder_estimate_counterexample). -/
theorem rawEncoderInit_le (b : Build) (hb : b.Ok) (fs : List Filter) (m : Nat) (hm : rawEncoderMemusage b fs = some m)
    (hd : ∀ f ∈ fs, lzma2DictBigEnough f) :
    (rawEncoderInit b fs).2.sum + MEMUSAGE_BASE ≤ m + 4 * b.memcmplenExtra ∧ fs.length ≤ 4 := by
  unfold rawEncoderMemusage rawCoderMemusage at hm
  split at hm
  · rename_i hok
    cases hs : sumOpt (fs.map (filterEncMemusage b)) with
    | none => simp [hs] at hm
    | some total =>
      simp only [hs, Option.some.injEq] at hm
      have hlen := chainOk_length hok
      simp only [FILTERS_MAX] at hlen
      have hs' : sumOpt (fs.reverse.map (filterEncMemusage b)) = some total := by
        rw [List.map_reverse, sumOpt_reverse]; exact hs
      have h1 := rawEncInitTrace_le b hb.bcj fs.reverse total hs' (fun f hf => hd f (List.mem_reverse.mp hf))
      have : b.memcmplenExtra * fs.reverse.length ≤ 4 * b.memcmplenExtra := by
        simp only [List.length_reverse]
        rw [Nat.mul_comm]
        exact Nat.mul_le_mul_right _ hlen
      refine ⟨?_, hlen⟩
      unfold rawEncoderInit
      split
      · simp; omega
      · split
        · simp; omega
        · omega
  · cases hm

/-- The allocation-level bound for `lzma_stream_encoder_mt`: for every thread count, every `options->block_size`
    (0 = automatic) and every chain. `g` = number of Index Record groups after `nblocks` Blocks. -/
theorem mtEnc_alloc_le (b : Build) (hb : b.Ok) (threads blockSizeOpt : Nat) (fs : List Filter) (nblocks est : Nat)
    (al : List Nat) (hest : streamEncoderMtMemusage b threads blockSizeOpt fs = some est)
    (hal : streamEncoderMtAllocs b threads blockSizeOpt fs nblocks = some al)
    (hd : ∀ f ∈ fs, lzma2DictBigEnough f) :
    b.szInternal + al.sum ≤ est + ((nblocks + INDEX_GROUP_SIZE - 1) / INDEX_GROUP_SIZE - 1)
      * (b.szIndexGroup + INDEX_GROUP_SIZE * b.szIndexRecord) := by
  unfold streamEncoderMtMemusage at hest
  unfold streamEncoderMtAllocs at hal
  cases hgo : mtGetOptions threads blockSizeOpt fs with
  | none => simp [hgo] at hest
  | some p =>
    obtain ⟨bs, ob⟩ := p
    simp only [hgo] at hest hal
    cases hfm : rawEncoderMemusage b fs with
    | none => simp [hfm] at hest
    | some fm =>
      simp only [hfm] at hest
      cases hoq : outqMemusage b ob threads with
      | none => simp [hoq] at hest
      | some oq =>
        simp only [hoq] at hest
        have hoqv : oq = 2 * threads * outbufMemusage b ob := by
          simp only [outqMemusage] at hoq
          split at hoq
          · cases hoq
          · exact (Option.some.inj hoq).symm
        split at hest
        · cases hest
        split at hest
        · cases hest
        split at hest
        · cases hest
        simp only [Option.some.injEq] at hest hal
        subst hest; subst hal
        obtain ⟨hraw, hlen⟩ := rawEncoderInit_le b hb fs fm hfm hd
        have hco := copiedOptions_le b fs
        have hco4 : fs.length * b.optMax ≤ 4 * b.optMax := Nat.mul_le_mul_right _ hlen
        have hmain := hb.mtEncMain
        have hwork := hb.mtEncWorker
        -- one worker
        have hw : (mtEncWorkerAllocs b bs fs).sum ≤ bs + fm := by
          simp only [mtEncWorkerAllocs, List.sum_cons, List.sum_append]
          omega
        have hws : threads * (mtEncWorkerAllocs b bs fs).sum ≤ threads * bs + fm * threads := by
          have := Nat.mul_le_mul_left threads hw
          rw [Nat.mul_add, Nat.mul_comm threads fm] at this
          exact this
        have hg : ∀ g G : Nat, g * G ≤ G + (g - 1) * G := by
          intro g G
          cases g with
          | zero => simp
          | succ k => simp only [Nat.succ_mul, Nat.add_sub_cancel]; omega
        have hgg := hg ((nblocks + INDEX_GROUP_SIZE - 1) / INDEX_GROUP_SIZE) (b.szIndexGroup + INDEX_GROUP_SIZE * b.szIndexRecord)
        simp only [streamEncoderMtInitAllocs, indexGroupAllocs, List.sum_append, List.sum_cons, List.sum_nil,
          sum_flatten_replicate, sum_replicate, List.cons_append, List.nil_append]
        rw [hoqv]
        generalize threads * (mtEncWorkerAllocs b bs fs).sum = W at hws ⊢
        generalize (nblocks + INDEX_GROUP_SIZE - 1) / INDEX_GROUP_SIZE * (b.szIndexGroup + INDEX_GROUP_SIZE * b.szIndexRecord) = GG at hgg ⊢
        generalize ((nblocks + INDEX_GROUP_SIZE - 1) / INDEX_GROUP_SIZE - 1) * (b.szIndexGroup + INDEX_GROUP_SIZE * b.szIndexRecord) = G1 at hgg ⊢
        generalize 2 * threads * outbufMemusage b ob = OQ
        generalize threads * bs = TB at hws ⊢
        generalize fm * threads = FT at hws ⊢
        generalize threads * b.szWorkerEnc = TW
        omega

end XzVerif.Memusage

namespace XzVerif.Memlimit
open XzVerif.Memusage

/-! ## Threaded decoder: SEQ_BLOCK_DIRECT_INIT -/

/-- Accounting of the threaded decoder's heap: the fixed structs (`base` = lzma_internal + coder + Index hash), the
    direct-mode Block decoder and its chain, the cached output buffers, what the workers hold, and the options of the
    Block Header just decoded. -/
structure MtAcc (b : Build) (base opt : Nat) (mm : MtMem) : Prop where
  chain : ∃ fs0, mm.chain = fs0.map (nodeOf b) ∧ NoOther fs0 ∧ LzLast fs0
  live : mm.heap.live = base + (if mm.blockAlloc then b.szBlockDecoder else 0) + chainBytes mm.chain
          + mm.cache + mm.thr + opt
  noBlock : mm.blockAlloc = false → mm.chain = []

theorem scriptPeak_free_cons (l n : Nat) (ops : List Op) : scriptPeak l (Op.free n :: ops) = scriptPeak (l - n) ops := rfl
theorem scriptLive_free_cons (l n : Nat) (ops : List Op) : scriptLive l (Op.free n :: ops) = scriptLive (l - n) ops := rfl

/-- SEQ_BLOCK_DIRECT_INIT for a Block whose chain estimate `m` is within `stop` (= memlimit_stop; SEQ_BLOCK_INIT lets
    only such Blocks through, C09.mt_threading_limit), from ANY state of the threaded decoder (any amount of cached
    output buffers and worker memory):
      * afterwards only the fixed structs and the single-threaded decoder are live, at most `stop` bytes;
      * every allocation of the step was made with at most max(LZMA_MEMUSAGE_BASE, stop) bytes live — the cached
        buffers and the workers are released first. -/
theorem mtDirectInit_le_stop (b : Build) (hb : b.Ok) (mm : MtMem) (opt : Nat) (fs : List Filter) (m stop : Nat)
    (hm : rawDecoderMemusage b fs = some m) (hstop : m ≤ stop) (hopt : opt ≤ 4 * b.optMax)
    (hacc : MtAcc b (b.szInternal + b.szStreamDecoderMt + b.szIndexHash) opt mm)
    (hroom : b.szInternal + b.szStreamDecoderMt + b.szIndexHash + b.szBlockDecoder + 4 * b.optMax + chainBytes mm.chain
              ≤ max MEMUSAGE_BASE stop) :
    MtAcc b (b.szInternal + b.szStreamDecoderMt + b.szIndexHash) 0 (mtDirectInit b mm opt fs).2
    ∧ (mtDirectInit b mm opt fs).2.cache = 0 ∧ (mtDirectInit b mm opt fs).2.thr = 0
    ∧ (mtDirectInit b mm opt fs).2.heap.live ≤ max MEMUSAGE_BASE stop
    ∧ (mtDirectInit b mm opt fs).2.heap.peak ≤ max mm.heap.peak (max MEMUSAGE_BASE stop)
    ∧ b.szInternal + b.szStreamDecoderMt + b.szIndexHash + b.szBlockDecoder + 4 * b.optMax
        + chainBytes (mtDirectInit b mm opt fs).2.chain ≤ max MEMUSAGE_BASE stop := by
  obtain ⟨hchain, hlive, hnob⟩ := hacc
  have hx := hb.xzDecMt
  generalize hbase : b.szInternal + b.szStreamDecoderMt + b.szIndexHash = base at *
  -- the same step seen as SEQ_BLOCK_INIT of a single-threaded decoder whose heap starts after the two frees
  let h0 : Heap := { live := mm.heap.live - mm.cache - mm.thr, peak := 0, reqs := [] }
  let c1 : Core := { memlimit := stop, memusage := 0, heap := h0, blockAlloc := mm.blockAlloc, chain := mm.chain }
  have hnot : ¬ m > stop := by omega
  have hbi : blockInit b c1 opt fs
      = (.done (blockInitScript b mm.blockAlloc mm.chain fs).1,
         { c1 with memusage := m, heap := (h0.apply (blockInitScript b mm.blockAlloc mm.chain fs).2.1).free opt,
                   blockAlloc := true, chain := (blockInitScript b mm.blockAlloc mm.chain fs).2.2 }) := by
    simp only [blockInit, hm, hnot, ↓reduceIte, c1]
  have hinv := (blockInit_inv b hb base 0 (by omega) c1 opt fs _ _ hopt hchain
    (by show mm.heap.live - mm.cache - mm.thr
            = base + (if mm.blockAlloc then b.szBlockDecoder else 0) + chainBytes mm.chain + opt
        rw [hlive]; omega) hnob
    (by show (0 : Nat) ≤ _; omega) (by show base + _ + _ + chainBytes mm.chain ≤ max MEMUSAGE_BASE stop + 0; omega) hbi).1
  have ichain := hinv.chain
  have ilive := hinv.live
  have ipeak := hinv.peak
  have iroom := hinv.room
  clear hinv hbi
  have ichain : ∃ fs0, (blockInitScript b mm.blockAlloc mm.chain fs).2.2 = fs0.map (nodeOf b) ∧ NoOther fs0 ∧ LzLast fs0 := ichain
  have ilive : ((h0.apply (blockInitScript b mm.blockAlloc mm.chain fs).2.1).free opt).live
      = base + b.szBlockDecoder + chainBytes (blockInitScript b mm.blockAlloc mm.chain fs).2.2 := ilive
  have ipeak : ((h0.apply (blockInitScript b mm.blockAlloc mm.chain fs).2.1).free opt).peak ≤ max MEMUSAGE_BASE stop + 0 := ipeak
  have iroom : base + b.szBlockDecoder + 4 * b.optMax + chainBytes (blockInitScript b mm.blockAlloc mm.chain fs).2.2
      ≤ max MEMUSAGE_BASE stop + 0 := iroom
  -- relate the two heaps
  have hlv : (mtDirectInit b mm opt fs).2.heap.live
      = ((h0.apply (blockInitScript b mm.blockAlloc mm.chain fs).2.1).free opt).live := by
    simp only [mtDirectInit, mtDirectInitScript, apply_live_eq, free_live, scriptLive_free_cons, scriptLive_append,
      scriptLive]
    rfl
  have hpk : (mtDirectInit b mm opt fs).2.heap.peak
      = max mm.heap.peak ((h0.apply (blockInitScript b mm.blockAlloc mm.chain fs).2.1).free opt).peak := by
    simp only [mtDirectInit, mtDirectInitScript, apply_peak_eq, free_peak, scriptPeak_free_cons, scriptPeak_append,
      scriptPeak]
    simp only [Nat.max_zero, Nat.zero_max]
    rfl
  have hch : (mtDirectInit b mm opt fs).2.chain = (blockInitScript b mm.blockAlloc mm.chain fs).2.2 := rfl
  have hba : (mtDirectInit b mm opt fs).2.blockAlloc = true := rfl
  have hca : (mtDirectInit b mm opt fs).2.cache = 0 := rfl
  have hth : (mtDirectInit b mm opt fs).2.thr = 0 := rfl
  refine ⟨⟨by rw [hch]; exact ichain, ?_, by rw [hba]; intro h; cases h⟩, hca, hth, ?_, ?_, ?_⟩
  · rw [hlv, ilive, hch, hba, hca, hth]; simp
  · rw [hlv, ilive]; omega
  · rw [hpk]; omega
  · rw [hch]; omega

/-- SEQ_BLOCK_INIT choosing threaded mode keeps the accounting (the direct-mode decoder is freed, the workers and the
    output queue get what the run model books for them). -/
theorem mtThreadedEnter_acc (b : Build) (base opt : Nat) (mm : MtMem) (threads memNextIn m outbuf : Nat)
    (hacc : MtAcc b base opt mm) : MtAcc b base 0 (mtThreadedEnter b mm threads memNextIn m outbuf opt) := by
  obtain ⟨_, hlive, _⟩ := hacc
  refine ⟨⟨[], rfl, (fun _ h => by cases h), trivial⟩, ?_, fun _ => rfl⟩
  simp only [mtThreadedEnter, allocs_live, free_live, List.sum_cons, List.sum_nil, chainBytes_nil, Bool.false_eq_true,
    ↓reduceIte]
  rw [hlive]
  generalize (if mm.blockAlloc = true then b.szBlockDecoder else 0) = blk
  generalize (if mm.thr = 0 then threads * b.szWorkerDec + memNextIn + m else mm.thr) = t
  omega

end XzVerif.Memlimit
