/-
  ARM-Thumb filter: list-level lemmas (round trip, length, chunk stability) on top of the byte-level facts in
  Lemmas/BitWordsBcj.lean.  Kernel proofs only in this file.
-/
import XzVerif.Lemmas.BitWordsBcj
namespace XzVerif.Bcj
open XzVerif.BitWords

/-! equations of `thumbGo` in projection form -/

theorem thumbGo_conv (e : Bool) (pc : BitVec 32) (b0 b1 b2 b3 : UInt8) (rest : List UInt8) (h : thumbCond b1 b3 = true) :
    thumbGo e pc (b0 :: b1 :: b2 :: b3 :: rest) =
      ((thumbConv e pc b0 b1 b2 b3).1 :: (thumbConv e pc b0 b1 b2 b3).2.1 :: (thumbConv e pc b0 b1 b2 b3).2.2.1
          :: (thumbConv e pc b0 b1 b2 b3).2.2.2 :: (thumbGo e (pc + 4#32) rest).1,
       (thumbGo e (pc + 4#32) rest).2 + 4) := by
  rw [thumbGo, if_pos h]

theorem thumbGo_skip (e : Bool) (pc : BitVec 32) (b0 b1 b2 b3 : UInt8) (rest : List UInt8) (h : thumbCond b1 b3 = false) :
    thumbGo e pc (b0 :: b1 :: b2 :: b3 :: rest) =
      (b0 :: b1 :: (thumbGo e (pc + 2#32) (b2 :: b3 :: rest)).1, (thumbGo e (pc + 2#32) (b2 :: b3 :: rest)).2 + 2) := by
  rw [thumbGo, if_neg (by simp [h])]

theorem thumbGo_short (e : Bool) (pc : BitVec 32) (l : List UInt8) (h : l.length < 4) : thumbGo e pc l = (l, 0) := by
  match l, h with
  | [], _ => rfl
  | [_], _ => rfl
  | [_, _], _ => rfl
  | [_, _, _], _ => rfl

theorem thumbGo_length (e : Bool) : ∀ (n : Nat) (l : List UInt8) (pc : BitVec 32), l.length ≤ n → (thumbGo e pc l).1.length = l.length := by
  intro n
  induction n with
  | zero => intro l pc h; rw [thumbGo_short e pc l (by omega)]
  | succ k ih =>
    intro l pc h
    match l with
    | [] | [_] | [_, _] | [_, _, _] => rw [thumbGo_short e pc _ (by simp)]
    | b0 :: b1 :: b2 :: b3 :: rest =>
      by_cases hc : thumbCond b1 b3 = true
      · rw [thumbGo_conv e pc b0 b1 b2 b3 rest hc]
        simp only [List.length_cons] at h ⊢
        rw [ih rest _ (by omega)]
      · have hc' : thumbCond b1 b3 = false := by simpa using hc
        rw [thumbGo_skip e pc b0 b1 b2 b3 rest hc']
        simp only [List.length_cons] at h ⊢
        rw [ih (b2 :: b3 :: rest) _ (by simp only [List.length_cons]; omega)]
        simp

/-- The first two output bytes exist and the class bits of the second one are those of the input. -/
theorem thumbGo_head (e : Bool) (pc : BitVec 32) (x y : UInt8) (t : List UInt8) :
    ∃ x' y' t', (thumbGo e pc (x :: y :: t)).1 = x' :: y' :: t' ∧ ∀ z, thumbCond z y' = thumbCond z y := by
  match t with
  | [] => exact ⟨x, y, [], by rw [thumbGo_short _ _ _ (by simp)], fun _ => rfl⟩
  | [a] => exact ⟨x, y, [a], by rw [thumbGo_short _ _ _ (by simp)], fun _ => rfl⟩
  | a :: b :: rest =>
    by_cases hc : thumbCond y b = true
    · rw [thumbGo_conv e pc x y a b rest hc]
      exact ⟨_, _, _, rfl, fun z => thumb_conv_keeps_b1 e pc x y a b z hc⟩
    · have hc' : thumbCond y b = false := by simpa using hc
      rw [thumbGo_skip e pc x y a b rest hc']
      exact ⟨_, _, _, rfl, fun _ => rfl⟩

theorem thumbGo_roundtrip : ∀ (n : Nat) (l : List UInt8) (pc : BitVec 32), l.length ≤ n → pc &&& 1#32 = 0#32 →
    thumbGo false pc (thumbGo true pc l).1 = (l, (thumbGo true pc l).2) := by
  intro n
  induction n with
  | zero => intro l pc h _; rw [thumbGo_short true pc l (by omega)]; exact thumbGo_short false pc l (by omega)
  | succ k ih =>
    intro l pc h hpc
    match l with
    | [] | [_] | [_, _] | [_, _, _] => rw [thumbGo_short true pc _ (by simp)]; exact thumbGo_short false pc _ (by simp)
    | b0 :: b1 :: b2 :: b3 :: rest =>
      simp only [List.length_cons] at h
      by_cases hc : thumbCond b1 b3 = true
      · rw [thumbGo_conv true pc b0 b1 b2 b3 rest hc]
        simp only
        rw [thumbGo_conv false pc _ _ _ _ _ (thumb_conv_class true pc b0 b1 b2 b3), thumb_dec_enc pc b0 b1 b2 b3 hc hpc,
          ih rest (pc + 4#32) (by omega) (even_add4 pc hpc)]
      · have hc' : thumbCond b1 b3 = false := by simpa using hc
        rw [thumbGo_skip true pc b0 b1 b2 b3 rest hc']
        simp only
        obtain ⟨c2, c3, t', ht, hcls⟩ := thumbGo_head true (pc + 2#32) b2 b3 rest
        have hc2 : thumbCond b1 c3 = false := by rw [hcls b1]; exact hc'
        have ih' := ih (b2 :: b3 :: rest) (pc + 2#32) (by simp only [List.length_cons]; omega) (even_add2 pc hpc)
        rw [ht] at ih' ⊢
        rw [thumbGo_skip false pc b0 b1 c2 c3 t' hc2, ih']

theorem thumbGo_chunk_short (e : Bool) (a b : List UInt8) (pc : BitVec 32) (h : a.length < 4) :
    thumbGo e pc (a ++ b) =
      ((thumbGo e pc a).1.take (thumbGo e pc a).2
          ++ (thumbGo e (pc + BitVec.ofNat 32 (thumbGo e pc a).2) ((thumbGo e pc a).1.drop (thumbGo e pc a).2 ++ b)).1,
       (thumbGo e pc a).2 + (thumbGo e (pc + BitVec.ofNat 32 (thumbGo e pc a).2) ((thumbGo e pc a).1.drop (thumbGo e pc a).2 ++ b)).2) := by
  rw [thumbGo_short e pc a h]
  simp

/-- Chunk stability: a call on `a ++ b` = a call on `a`, then a call at `now_pos + processed` on (unprocessed tail of `a`) ++ `b`. -/
theorem thumbGo_chunk (e : Bool) : ∀ (n : Nat) (a b : List UInt8) (pc : BitVec 32), a.length ≤ n →
    thumbGo e pc (a ++ b) =
      ((thumbGo e pc a).1.take (thumbGo e pc a).2
          ++ (thumbGo e (pc + BitVec.ofNat 32 (thumbGo e pc a).2) ((thumbGo e pc a).1.drop (thumbGo e pc a).2 ++ b)).1,
       (thumbGo e pc a).2 + (thumbGo e (pc + BitVec.ofNat 32 (thumbGo e pc a).2) ((thumbGo e pc a).1.drop (thumbGo e pc a).2 ++ b)).2) := by
  intro n
  induction n with
  | zero =>
    intro a b pc h
    exact thumbGo_chunk_short e a b pc (by omega)
  | succ k ih =>
    intro a b pc h
    match a with
    | [] | [_] | [_, _] | [_, _, _] => exact thumbGo_chunk_short e _ b pc (by simp)
    | b0 :: b1 :: b2 :: b3 :: rest =>
      simp only [List.length_cons] at h
      by_cases hc : thumbCond b1 b3 = true
      · rw [thumbGo_conv e pc b0 b1 b2 b3 rest hc]
        simp only [List.cons_append]
        rw [thumbGo_conv e pc b0 b1 b2 b3 (rest ++ b) hc, ih rest b (pc + 4#32) (by omega)]
        have e4 : pc + BitVec.ofNat 32 ((thumbGo e (pc + 4#32) rest).2 + 4)
            = pc + 4#32 + BitVec.ofNat 32 (thumbGo e (pc + 4#32) rest).2 := by
          rw [BitVec.ofNat_add, BitVec.add_assoc, BitVec.add_comm (BitVec.ofNat 32 _)]
        rw [e4]
        simp only [List.take_succ_cons, List.drop_succ_cons, List.cons_append]
        congr 1
        omega
      · have hc' : thumbCond b1 b3 = false := by simpa using hc
        rw [thumbGo_skip e pc b0 b1 b2 b3 rest hc']
        simp only [List.cons_append]
        rw [thumbGo_skip e pc b0 b1 b2 b3 (rest ++ b) hc']
        have := ih (b2 :: b3 :: rest) b (pc + 2#32) (by simp only [List.length_cons]; omega)
        simp only [List.cons_append] at this
        rw [this]
        have e2 : pc + BitVec.ofNat 32 ((thumbGo e (pc + 2#32) (b2 :: b3 :: rest)).2 + 2)
            = pc + 2#32 + BitVec.ofNat 32 (thumbGo e (pc + 2#32) (b2 :: b3 :: rest)).2 := by
          rw [BitVec.ofNat_add, BitVec.add_assoc, BitVec.add_comm (BitVec.ofNat 32 _)]
        rw [e2]
        simp only [List.take_succ_cons, List.drop_succ_cons, List.cons_append]
        congr 1
        omega

end XzVerif.Bcj
