/-
  The LZ layer (`decode_buffer`) around the checked LZMA1 call, and the LZMA1 coder interface: from the state that
  `lzma_lz_decoder_init` + `lzma_decoder_init` produce for VALID lc/lp/pb (what `lzma_decoder_init` / the .lzma and .lz
  header decoders check before they get here), every call of the checked `code` equals the executable `code` — no array
  access is out of bounds — for as long as the coder has not returned LZMA_STREAM_END (after which `lzma_code` never
  calls it again).
-/
import XzVerif.Lemmas.C04CheckedCall
import XzVerif.Lemmas.C03RepsStream

namespace XzVerif.Lzma2
open XzVerif.RangeDec XzVerif.LzDict XzVerif.Lzma

/-- the access invariant of an LZMA1 coder state between calls of `decode_buffer`'s inner coder -/
structure Acc1 (s : St) : Prop where
  noReset : s.dp.needReset = false
  inv : s.pending = .stuck ∨ (ProbsOk s ∧ HistOk s ∧ RepsOk s ∧ PendOk s ∧ PosW s.dp)

theorem acc1_of_accSt {s : St} (h : AccSt s) (hn : s.dp.needReset = false) : Acc1 s := by
  refine ⟨hn, ?_⟩
  rcases h with h | ⟨hl, hp⟩
  · exact Or.inl h
  · exact Or.inr ⟨hl.probs, hl.hist, hl.reps, hp, posW_of_posInv hl.pos⟩

/-- the top of the `decode_buffer` loop (wrap + limit computation) turns the between-calls invariant into the invariant
    `lzma_decode` starts from -/
theorem accSt_of_acc1 {s : St} (h : Acc1 s) (n : Nat) : AccSt ({ s with dp := (s.dp.wrap).setLimit n } : St) := by
  have hk := wrap_setLimit_keeps s.dp n
  rcases h.inv with hst | ⟨hp, hh, hr, hpd, hw⟩
  · exact Or.inl hst
  · right
    refine ⟨⟨hp.congr rfl rfl rfl rfl rfl, ?_, repsOk_congr hr hk.1 rfl rfl rfl rfl rfl, posInv_of_posW hw n⟩, ?_⟩
    · show ((s.dp.wrap).setLimit n).full ≤ s.hist.size
      rw [hk.1]; exact hh
    · refine ⟨fun hu => ?_, hpd.2⟩
      show s.rep0 < ((s.dp.wrap).setLimit n).full
      rw [hk.1]; exact hpd.1 hu

theorem decodeBuffer_acc1 : ∀ (fuel outSize : Nat) (s : St), Acc1 s →
    decodeBufferC lzmaCallC fuel outSize s = some (decodeBuffer lzmaCall fuel outSize s)
    ∧ ((decodeBuffer lzmaCall fuel outSize s).1 ≠ .streamEnd → Acc1 (decodeBuffer lzmaCall fuel outSize s).2)
  | 0, outSize, s, h => ⟨rfl, fun _ => h⟩
  | fuel + 1, outSize, s, h => by
    unfold decodeBufferC decodeBuffer
    simp only []
    have hacc := accSt_of_acc1 h (outSize - s.produced)
    have hb := setLimit_wrap_bounds s.dp (outSize - s.produced)
    have hk := wrap_setLimit_keeps s.dp (outSize - s.produced)
    generalize hs1 : ({ s with dp := (s.dp.wrap).setLimit (outSize - s.produced) } : St) = s1 at hacc
    have e_dp : s1.dp = (s.dp.wrap).setLimit (outSize - s.produced) := by rw [← hs1]
    have hlim1 : s1.dp.pos ≤ s1.dp.limit := by rw [e_dp]; exact hb.1
    have hnr1 : s1.dp.needReset = false := by rw [e_dp, hk.2]; exact h.noReset
    have hc := lzmaCall_acc s1 hacc
    have hwr := (lzmaCall_spec s1 hlim1).1
    rw [hc.1]
    generalize hr : lzmaCall s1 = r at hc hwr
    obtain ⟨ret, s2⟩ := r
    have hnr2 : s2.dp.needReset = false := (hwr.needReset).trans hnr1
    have acc2 : ret ≠ .streamEnd → Acc1 s2 := fun hne => acc1_of_accSt (hc.2.1 hne) hnr2
    simp only [hnr2, Bool.false_eq_true, if_false]
    split
    · exact ⟨rfl, acc2⟩
    · next hcont =>
      have hok : ret = .ok := by
        cases ret <;> simp_all
      exact decodeBuffer_acc1 fuel outSize s2 (acc2 (by rw [hok]; decide))

/-- an LZMA1 coder between calls -/
def Coder.Acc1 (c : Coder) : Prop := c.kind = .lzma1 ∧ Lzma2.Acc1 c.s

theorem presetTail_length (dictSize : Nat) (preset : List UInt8) :
    (presetTail dictSize preset).length = min preset.length (roundDictSize dictSize) := by
  unfold presetTail
  rw [List.length_drop]
  omega

theorem probsOk_reset (s : St) (p : Props) (hv : p.valid = true) : ProbsOk (s.resetLzma p) := by
  unfold Props.valid at hv
  simp only [Bool.and_eq_true, decide_eq_true_eq, LZMA_LCLP_MAX, LZMA_PB_MAX] at hv
  refine ⟨?_, hv.1.2, hv.2, by show 0 < 12; decide⟩
  show (Array.replicate (probsSize p.lc p.lp) PROB_INIT).size = probsSize p.lc p.lp
  exact Array.size_replicate

theorem Coder.acc1_init (props : Props) (hv : props.valid = true) (d : Nat) (u : Option Nat) (a : Bool)
    (preset : List UInt8) (input : ByteArray) : (Coder.initLzma1 props d u a preset input).Acc1 := by
  refine ⟨rfl, rfl, Or.inr ⟨probsOk_reset _ props hv, ?_, repsOk_reset _ props, ?_, posW_of_posInv (posInv_init d preset.length)⟩⟩
  · show (DictPos.init d preset.length).full ≤ (ByteArray.mk (presetTail d preset).toArray).size
    rw [byteArray_mk_size, presetTail_length]
    exact Nat.le_refl _
  · exact ⟨fun hu => (by cases hu), trivial⟩

/-- ONE CALL of the LZMA1 coder's `code` from a state satisfying the access invariant: the checked call is the executable
    call, and the invariant holds afterwards unless LZMA_STREAM_END was returned -/
theorem Coder.code_acc1 (c : Coder) (outCap : Nat) (h : c.Acc1) :
    c.codeC outCap = some (c.code outCap) ∧ ((c.code outCap).1 ≠ .streamEnd → (c.code outCap).2.Acc1) := by
  obtain ⟨hk, hs⟩ := h
  have hd := decodeBuffer_acc1 (decodeBufferFuel c.s (c.s.produced + outCap)) (c.s.produced + outCap) c.s hs
  unfold Coder.codeC Coder.code
  simp only [hk]
  rw [hd.1]
  exact ⟨rfl, fun hne => ⟨rfl, hd.2 hne⟩⟩

end XzVerif.Lzma2
