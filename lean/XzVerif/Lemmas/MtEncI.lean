/-
  C08 helper lemmas, part I: where Blocks are cut. Blocks are closed only when they hold block_size bytes or at an offset at
  which a FULL_FLUSH / FULL_BARRIER / FINISH request took effect, and every such offset is a Block boundary. Together with
  the uniqueness lemma at the end this makes the list of Block sizes a function of (block_size, flush offsets, total input):
  it does not depend on the number of threads or on the schedule.
-/
import XzVerif.Lemmas.MtEncH

namespace XzVerif.MtEnc

abbrev Shape := List (Bool × Nat)

def doneShape (d : List Blk) : Shape := d.map fun b => (true, b.data.length)
def allShape (s : St) : Shape := doneShape s.done ++ shape s.outq
def total (sh : Shape) : Nat := (sh.map (·.2)).sum

def cutsOk (bs : Nat) (F : List Nat) : Shape → Nat → Prop
  | [], _ => True
  | (c, l) :: r, off => l ≤ bs ∧ (c = true → 0 < l ∧ (l < bs → off + l ∈ F)) ∧ cutsOk bs F r (off + l)

/-- Offsets at which a Block boundary lies: 0 and the end of every Block of the closed prefix. -/
def closedEnds : Shape → Nat → List Nat
  | [], off => [off]
  | (c, l) :: r, off => if c then off :: closedEnds r (off + l) else [off]

theorem cutsOk_mono {bs : Nat} {F F' : List Nat} (h : ∀ f ∈ F, f ∈ F') : ∀ (sh : Shape) (off : Nat), cutsOk bs F sh off → cutsOk bs F' sh off
  | [], _, _ => trivial
  | (c, l) :: r, off, ⟨h1, h2, h3⟩ => ⟨h1, fun hc => ⟨(h2 hc).1, fun hl => h _ ((h2 hc).2 hl)⟩, cutsOk_mono h r _ h3⟩

theorem total_append (a b : Shape) : total (a ++ b) = total a + total b := by simp [total]

theorem cutsOk_append {bs : Nat} {F : List Nat} : ∀ (a b : Shape) (off : Nat),
    cutsOk bs F (a ++ b) off ↔ cutsOk bs F a off ∧ cutsOk bs F b (off + total a)
  | [], b, off => by simp [cutsOk, total]
  | (c, l) :: r, b, off => by
    simp only [List.cons_append, cutsOk, cutsOk_append r b (off + l), total, List.map_cons, List.sum_cons]
    constructor
    · rintro ⟨h1, h2, h3, h4⟩; exact ⟨⟨h1, h2, h3⟩, by rw [← Nat.add_assoc]; exact h4⟩
    · rintro ⟨⟨h1, h2, h3⟩, h4⟩; exact ⟨h1, h2, h3, by rw [← Nat.add_assoc] at h4; exact h4⟩

def allClosed (sh : Shape) : Prop := ∀ x ∈ sh, x.1 = true

theorem closedEnds_append_closed : ∀ (a b : Shape) (off : Nat), allClosed a →
    closedEnds (a ++ b) off = (closedEnds a off).dropLast ++ closedEnds b (off + total a)
  | [], b, off, _ => by simp [closedEnds, total]
  | (c, l) :: r, b, off, h => by
    have hc : c = true := h (c, l) List.mem_cons_self
    have hr : allClosed r := fun x hx => h x (List.mem_cons_of_mem _ hx)
    subst hc
    simp only [List.cons_append, closedEnds, if_true, closedEnds_append_closed r b (off + l) hr, total, List.map_cons, List.sum_cons]
    have hne : closedEnds r (off + l) ≠ [] := by cases r with | nil => simp [closedEnds] | cons x _ => obtain ⟨c', l'⟩ := x; simp only [closedEnds]; split <;> simp
    rw [List.dropLast_cons_of_ne_nil hne, List.cons_append, Nat.add_assoc]

theorem closedEnds_last (a : Shape) (off : Nat) (h : allClosed a) : (closedEnds a off).getLast? = some (off + total a) := by
  induction a generalizing off with
  | nil => simp [closedEnds, total]
  | cons x r ih =>
    obtain ⟨c, l⟩ := x
    have hc : c = true := h (c, l) List.mem_cons_self
    subst hc
    have hr : allClosed r := fun x hx => h x (List.mem_cons_of_mem _ hx)
    simp only [closedEnds, if_true, total, List.map_cons, List.sum_cons]
    have := ih (off + l) hr
    have hne : closedEnds r (off + l) ≠ [] := by intro hn; rw [hn] at this; simp at this
    rw [List.getLast?_cons_of_ne hne] at *
    simp only [total] at this; rw [this, Nat.add_assoc]
where
  List.getLast?_cons_of_ne {α : Type} {a : α} {l : List α} (h : l ≠ []) : (a :: l).getLast? = l.getLast? := by
    cases l with
    | nil => exact absurd rfl h
    | cons b l => simp [List.getLast?_cons_cons]

theorem mem_closedEnds_total (a : Shape) (off : Nat) (h : allClosed a) : off + total a ∈ closedEnds a off :=
  List.mem_of_getLast? (closedEnds_last a off h)

theorem doneShape_closed (d : List Blk) : allClosed (doneShape d) := by
  intro x hx; simp [doneShape] at hx; obtain ⟨_, _, rfl⟩ := hx; rfl


structure InvK (s : St) : Prop where
  cuts : cutsOk s.cfg.bs s.flushPts (allShape s) 0
  flush : ∀ f ∈ s.flushPts, f ∈ closedEnds (allShape s) 0

theorem total_doneShape (d : List Blk) : total (doneShape d) = doneIn d := by
  simp [total, doneShape, doneIn, List.map_map, Function.comp_def]

theorem total_shape (q : List Entry) : total (shape q) = doneIn (blks q) := by
  simp [total, shape, doneIn, blks, List.map_map, Function.comp_def, Entry.blk]

theorem len_total {P : Params} {s : St} (hC : InvC P s) : s.consumed.length = total (allShape s) := by
  rw [hC.cons, List.length_append, datas_length, datas_length, allShape, total_append, total_doneShape, total_shape]

theorem InvK_frame {s t : St} (h : InvK s) (h1 : t.cfg.bs = s.cfg.bs) (h2 : t.flushPts = s.flushPts) (h3 : allShape t = allShape s) : InvK t :=
  ⟨by rw [h1, h2, h3]; exact h.cuts, by rw [h2, h3]; exact h.flush⟩

theorem InvK_wframe {s s' : St} (h : InvK s) (f : WFrame s s') : InvK s' :=
  InvK_frame h (by rw [f.cfg]) f.flushPts (by unfold allShape; rw [f.done, f.shape])

theorem InvK_ret {s : St} (r : Ret) (h : InvK s) : InvK (ret s r) := by
  refine InvK_frame h ?_ ?_ ?_
  · unfold ret; split <;> rfl
  · unfold ret; split <;> rfl
  · unfold allShape; rw [ret_shape]; congr 1; unfold ret; split <;> rfl

theorem dropLast_append_last {α : Type} {l : List α} {a : α} (h : l.getLast? = some a) : l.dropLast ++ [a] = l := by
  induction l with
  | nil => simp at h
  | cons x r ih =>
    cases r with
    | nil => simp at h; subst h; rfl
    | cons y r' =>
      rw [List.getLast?_cons_cons] at h
      simp only [List.dropLast_cons_cons, List.cons_append, ih h]

/-- Appending a fresh open Block after a closed prefix changes no Block boundary. -/
theorem closedEnds_open (a : Shape) (l : Nat) (h : allClosed a) : closedEnds (a ++ [(false, l)]) 0 = closedEnds a 0 := by
  rw [closedEnds_append_closed a _ 0 h]
  simp only [closedEnds, Bool.false_eq_true, if_false]
  have := closedEnds_last a 0 h
  exact dropLast_append_last this

theorem closedEnds_closedLast (a : Shape) (l : Nat) (h : allClosed a) :
    closedEnds (a ++ [(true, l)]) 0 = closedEnds a 0 ++ [total a + l] := by
  rw [closedEnds_append_closed a _ 0 h]
  simp only [closedEnds, if_true, Nat.zero_add]
  have := closedEnds_last a 0 h
  rw [← dropLast_append_last this]
  simp

theorem InvK_init (P : Params) (c : Cfg) (m : MPc) : InvK { (initSt c P) with mpc := m } :=
  ⟨by simp [initSt, allShape, doneShape, shape, cutsOk], by intro f hf; simp [initSt] at hf⟩


theorem shape_cons (e : Entry) (r : List Entry) : shape (e :: r) = (e.closed, e.data.length) :: shape r := rfl

theorem InvK_mRead {P : Params} {s s' : St} (h : InvK s) (hA : InvA P s) (hs : mRead P s = some s') : InvK s' := by
  unfold mRead at hs
  split at hs
  · split at hs
    · cases hs; exact InvK_ret _ h
    · split at hs
      · cases hs; exact InvK_frame h rfl rfl rfl
      · rename_i e rest hcons
        split at hs
        · cases hs; exact InvK_frame h rfl rfl rfl
        · rename_i hfin
          have hfin' : e.finished = true := by simpa using hfin
          have hecl : e.closed = true := ((hA e (by rw [hcons]; exact List.mem_cons_self)).fin hfin').1
          dsimp only at hs
          split at hs
          · cases hs; exact InvK_frame h rfl rfl rfl
          · cases hs
            refine InvK_frame h rfl rfl ?_
            simp only [allShape, doneShape, hcons, shape_cons, hecl, List.map_append, List.map_cons, List.map_nil, List.append_assoc,
              List.cons_append, List.nil_append, Entry.blk]
  · cases hs

theorem allShape_closed {s : St} (hB : InvB s) (ht : s.thr = false) : allClosed (allShape s) := by
  intro x hx
  simp only [allShape, List.mem_append] at hx
  rcases hx with hx | hx
  · exact doneShape_closed _ x hx
  · exact hB.allClosed ht x hx

theorem InvK_mEncIn {P : Params} {s s' : St} (h : InvK s) (hB : InvB s) (hC : InvC P s) (hs : mEncIn s = some s') : InvK s' := by
  unfold mEncIn at hs
  split at hs
  · rename_i hg
    split at hs; · cases hs; exact InvK_frame h rfl rfl rfl
    rename_i hlc
    split at hs
    · rename_i hnt
      have hthr : s.thr = false := by simpa using hnt
      have hcl := allShape_closed hB hthr
      split at hs; · cases hs; exact InvK_frame h rfl rfl rfl
      have newE : ∀ (t : St) (ne : Entry), ne.closed = false → ne.data = [] → t.outq = s.outq ++ [ne] → t.done = s.done →
          t.cfg = s.cfg → t.flushPts = s.flushPts → InvK t := by
        intro t ne h1 h2 h3 h4 h5 h6
        have hsh : allShape t = allShape s ++ [(false, 0)] := by
          simp only [allShape, h3, h4, shape_append, h1, h2, List.length_nil, List.append_assoc]
        refine ⟨?_, ?_⟩
        · rw [h5, h6, hsh, cutsOk_append]
          exact ⟨h.cuts, by simp [cutsOk]⟩
        · rw [h6, hsh, closedEnds_open _ _ hcl]; exact h.flush
      split at hs
      · cases hs; exact newE _ _ rfl rfl rfl rfl rfl rfl
      · split at hs
        · cases hs; exact newE _ _ rfl rfl rfl rfl rfl rfl
        · cases hs; exact InvK_frame h rfl rfl rfl
    · rename_i hnt
      have hthr : s.thr = true := by simpa using hnt
      split at hs; · cases hs
      rename_i e hl
      have hqe := eq_dropLast_append hl
      have hopen := InvB_hopen hB hthr e hl
      obtain ⟨x, hx1, hx2, hx3⟩ := hB.open_ hthr
      rw [shape_getLast? hl] at hx1
      cases hx1
      simp only at hx3
      dsimp only at hs
      have frameS0 : ∀ t : St, t.outq = s.outq → t.done = s.done → t.cfg = s.cfg → t.flushPts = s.flushPts → InvK t :=
        fun t a b c d => InvK_frame h (by rw [c]) d (by unfold allShape; rw [a, b])
      split at hs
      · cases hs; exact InvK_ret _ (frameS0 _ rfl rfl rfl rfl)
      · split at hs
        · cases hs; exact InvK_ret _ (frameS0 _ rfl rfl rfl rfl)
        · cases hs
          -- A0 = everything before the open Block (all closed)
          let A0 : Shape := doneShape s.done ++ shape s.outq.dropLast
          have hA : allShape s = A0 ++ [(false, e.data.length)] := by
            show doneShape s.done ++ shape s.outq = _
            conv => lhs; rw [hqe]
            rw [shape_append, hopen, List.append_assoc]
          have hA0 : allClosed A0 := by
            intro y hy
            simp only [A0, List.mem_append] at hy
            rcases hy with hy | hy
            · exact doneShape_closed _ y hy
            · rw [shape_dropLast] at hy; exact hB.abl y hy
          have hlen := len_total hC
          rw [hA, total_append] at hlen
          rw [show total [(false, e.data.length)] = e.data.length from by simp [total]] at hlen
          have hcuts := h.cuts
          rw [hA, cutsOk_append] at hcuts
          generalize hk : min s.inp.length (s.cfg.bs - e.data.length) = k at *
          generalize hflush : ((List.drop k s.inp).isEmpty && decide (s.act ≠ Action.run)) = flush at *
          generalize hfin : (decide ((e.data ++ List.take k s.inp).length = s.cfg.bs) || flush) = fin at *
          have hlk : (e.data ++ List.take k s.inp).length = e.data.length + k := by
            simp only [List.length_append, List.length_take]; omega
          have hle : e.data.length + k ≤ s.cfg.bs := by have := hcuts.2.1; omega
          have hpos : fin = true → 0 < e.data.length + k := by
            intro _
            by_cases hz : e.data.length = 0
            · rcases hx3 hz with ⟨_, a⟩ | a | a
              · have : 0 < s.inp.length := List.length_pos_iff.mpr a
                have := hB.bsPos
                omega
              · rw [hg] at a; cases a
              · rw [hg] at a; cases a
            · omega
          have hA' : ∀ (x : Entry), x.closed = fin → x.data = e.data ++ List.take k s.inp →
              doneShape s.done ++ shape (s.outq.dropLast ++ [x]) = A0 ++ [(fin, e.data.length + k)] := by
            intro x h1 h2
            rw [shape_append, h1, h2, hlk, List.append_assoc]
          refine ⟨?_, ?_⟩
          · show cutsOk s.cfg.bs _ (doneShape s.done ++ shape _) 0
            rw [hA' _ rfl rfl, cutsOk_append]
            dsimp only
            have hmono : ∀ f ∈ s.flushPts, f ∈ (if flush = true then s.flushPts ++ [s.consumed.length + k] else s.flushPts) := by
              intro f hf; split
              · exact List.mem_append_left _ hf
              · exact hf
            refine ⟨cutsOk_mono hmono _ _ hcuts.1, ?_⟩
            simp only [cutsOk, and_true, Nat.zero_add]
            refine ⟨hle, fun hf => ⟨hpos hf, fun hlt => ?_⟩⟩
            have hfl : flush = true := by
              cases hfv : flush with
              | true => rfl
              | false =>
                rw [hfv] at hfin
                simp only [Bool.or_false, decide_eq_true_eq] at hfin
                rw [← hfin] at hf
                simp only [decide_eq_true_eq] at hf
                omega
            simp only [hfl, if_true]
            apply List.mem_append_right
            simp; omega
          · show ∀ f ∈ (if flush = true then s.flushPts ++ [s.consumed.length + k] else s.flushPts), f ∈ closedEnds (doneShape s.done ++ shape _) 0
            rw [hA' _ rfl rfl]
            have hold : ∀ f ∈ s.flushPts, f ∈ closedEnds (A0 ++ [(fin, e.data.length + k)]) 0 := by
              intro f hf
              have := h.flush f hf
              rw [hA, closedEnds_open _ _ hA0] at this
              cases hfv : fin with
              | false => rw [closedEnds_open _ _ hA0]; exact this
              | true => rw [closedEnds_closedLast _ _ hA0]; exact List.mem_append_left _ this
            intro f hf
            split at hf
            · rename_i hfl
              simp only [List.mem_append, List.mem_singleton] at hf
              rcases hf with hf | rfl
              · exact hold f hf
              · have hf1 : fin = true := by rw [← hfin, hfl]; simp
                rw [hf1, closedEnds_closedLast _ _ hA0]
                apply List.mem_append_right
                simp; omega
            · exact hold f hf
  · cases hs


theorem InvK_noteFlush {P : Params} {s : St} (h : InvK s) (hC : InvC P s) (hcl : allClosed (allShape s)) : InvK (noteFlush s) := by
  refine ⟨?_, ?_⟩
  · exact cutsOk_mono (fun f hf => List.mem_append_left _ hf) _ _ h.cuts
  · intro f hf
    simp only [noteFlush, List.mem_append, List.mem_singleton] at hf
    rcases hf with hf | rfl
    · exact h.flush f hf
    · have := mem_closedEnds_total (allShape s) 0 hcl
      rw [Nat.zero_add, ← len_total hC] at this
      exact this

theorem InvK_mAfterIn {P : Params} {s s' : St} (h : InvK s) (hB : InvB s) (hC : InvC P s) (hM : InvM s)
    (hs : mAfterIn P s = some s') : InvK s' := by
  unfold mAfterIn at hs
  split at hs
  · rename_i hg
    have hth := hM.aThr hg
    have closedOfEmpty : s.outq = [] → allClosed (allShape s) := by
      intro hn x hx
      simp only [allShape, hn, shape, List.map_nil, List.append_nil] at hx
      exact doneShape_closed _ x hx
    split at hs; · cases hs; exact InvK_ret _ h
    split at hs
    · rename_i h2
      cases hs
      have hthr : s.thr = false := by
        rcases hth with a | a
        · exact a
        · rw [h2.2] at a; cases a.2
      exact InvK_ret _ (InvK_noteFlush h hC (allShape_closed hB hthr))
    split at hs
    · rename_i h3
      cases hs
      have := InvK_noteFlush h hC (closedOfEmpty (by simpa using h3.2.1))
      exact InvK_frame this rfl rfl rfl
    split at hs
    · rename_i h4
      cases hs
      exact InvK_ret _ (InvK_noteFlush h hC (closedOfEmpty (by simpa using h4.2.1)))
    split at hs; · cases hs; exact InvK_ret _ h
    cases hs; exact InvK_frame h rfl rfl rfl
  · cases hs

theorem InvK_step {P : Params} {s s' : St} {e : Ev} (h : InvK s) (hA : InvA P s) (hB : InvB s) (hC : InvC P s) (hM : InvM s)
    (hs : step P s e = some s') : InvK s' := by
  cases e with
  | call inp cap act =>
    simp only [step, mCall] at hs
    split at hs
    · cases hs; exact InvK_frame h rfl rfl rfl
    · cases hs
  | mHdr =>
    simp only [step, mHdr] at hs
    split at hs
    · split at hs <;> cases hs
      · exact InvK_ret _ (InvK_frame h rfl rfl rfl)
      · exact InvK_frame h rfl rfl rfl
    · cases hs
  | mRead => exact InvK_mRead h hA hs
  | mEncIn => exact InvK_mEncIn h hB hC hs
  | mAfterIn => exact InvK_mAfterIn h hB hC hM hs
  | mTail =>
    simp only [step, mTail] at hs
    split at hs
    · split at hs <;> cases hs <;> exact InvK_ret _ (InvK_frame h rfl rfl rfl)
    · cases hs
  | mGetThreadErr r =>
    simp only [step, mGetThreadErr] at hs
    split at hs
    · cases hs; exact InvK_ret _ h
    · cases hs
  | mWake =>
    simp only [step, mWake] at hs
    split at hs
    · split at hs <;> cases hs <;> exact InvK_frame h rfl rfl rfl
    · cases hs
  | mTimeout =>
    simp only [step, mTimeout] at hs
    split at hs
    · cases hs; exact InvK_ret _ h
    · cases hs
  | mSpurious =>
    simp only [step, mSpurious] at hs
    split at hs
    · cases hs; exact InvK_frame h rfl rfl rfl
    · cases hs
  | update c =>
    simp only [step, mUpdate] at hs
    split at hs
    · split at hs <;> cases hs <;> exact InvK_frame h rfl rfl rfl
    · cases hs
  | reinit c =>
    simp only [step] at hs
    split at hs
    · simp only [mEnd] at hs
      split at hs
      · cases hs; exact InvK_frame h rfl rfl rfl
      · cases hs
    · cases hs
  | lzmaEnd =>
    simp only [step, mEnd] at hs
    split at hs
    · cases hs; exact InvK_frame h rfl rfl rfl
    · cases hs
  | mExitOne i => exact InvK_wframe h (mExitOne_frame hs)
  | mExitIdle => exact InvK_wframe h (mExitIdle_frame hs)
  | mJoin =>
    simp only [step, mJoin] at hs
    split at hs
    · split at hs <;> cases hs
      · exact InvK_init P _ _
      · exact InvK_init P _ .out
    · cases hs
  | wTop i o0 => exact InvK_wframe h (wTop_frame hs)
  | wEnc i full newOut => exact InvK_wframe h (wEnc_frame hs)
  | wEncErr i r => exact InvK_wframe h (wEncErr_frame hs)
  | wFb i => exact InvK_wframe h (wFb_frame hs)
  | wMarkIdle i => exact InvK_wframe h (wMarkIdle_frame hs)
  | wTail i => exact InvK_wframe h (wTail_frame hs)
  | wSpurious i => exact InvK_wframe h (wSpurious_frame hs)
  | wExitIdle => exact InvK_wframe h (wExitIdle_frame hs)

-- ---------------------------------------------------------------------------------------------------------------------
-- uniqueness: block_size, the flush offsets and the total input determine the Block sizes
-- ---------------------------------------------------------------------------------------------------------------------

/-- Block sizes (all Blocks closed) that respect `cutsOk` and have every flush offset on a boundary. -/
def GoodCuts (bs : Nat) (F : List Nat) (ls : List Nat) (off : Nat) : Prop :=
  cutsOk bs F (ls.map fun l => (true, l)) off ∧ ∀ f ∈ F, off ≤ f → f ≤ off + ls.sum → f ∈ closedEnds (ls.map fun l => (true, l)) off

theorem closedEnds_head (sh : Shape) (off : Nat) : ∃ r, closedEnds sh off = off :: r := by
  cases sh with
  | nil => exact ⟨[], rfl⟩
  | cons x r => obtain ⟨c, l⟩ := x; simp only [closedEnds]; split <;> exact ⟨_, rfl⟩

theorem closedEnds_ge : ∀ (ls : List Nat) (off : Nat), (∀ l ∈ ls, 0 < l) → ∀ f ∈ closedEnds (ls.map fun l => (true, l)) off, off ≤ f
  | [], off, _, f, hf => by simp [closedEnds] at hf; omega
  | l :: r, off, hp, f, hf => by
    simp only [List.map_cons, closedEnds, if_true, List.mem_cons] at hf
    rcases hf with rfl | hf
    · exact Nat.le_refl _
    · have := closedEnds_ge r (off + l) (fun x hx => hp x (List.mem_cons_of_mem _ hx)) f hf; omega

theorem cuts_unique (bs : Nat) (F : List Nat) : ∀ (a b : List Nat) (off : Nat), a.sum = b.sum → GoodCuts bs F a off → GoodCuts bs F b off → a = b
  | [], [], _, _, _, _ => rfl
  | [], l :: r, off, hs, _, hb => by
    have := hb.1; simp only [List.map_cons, cutsOk] at this
    have := (this.2.1 trivial).1; simp at hs; omega
  | l :: r, [], off, hs, ha, _ => by
    have := ha.1; simp only [List.map_cons, cutsOk] at this
    have := (this.2.1 trivial).1; simp at hs; omega
  | l :: r, m :: q, off, hs, ha, hb => by
    have ha1 := ha.1; have hb1 := hb.1
    simp only [List.map_cons, cutsOk] at ha1 hb1
    have hl := ha1.2.1 trivial; have hm := hb1.2.1 trivial
    have posA : ∀ x ∈ r, 0 < x := by
      intro x hx
      have : ∀ (ls : List Nat) (o : Nat), cutsOk bs F (ls.map fun l => (true, l)) o → ∀ y ∈ ls, 0 < y := by
        intro ls; induction ls with
        | nil => intro _ _ y hy; cases hy
        | cons z zs ih =>
          intro o hc y hy
          simp only [List.map_cons, cutsOk] at hc
          rcases List.mem_cons.mp hy with rfl | hy
          · exact (hc.2.1 trivial).1
          · exact ih _ hc.2.2 y hy
      exact this r _ ha1.2.2 x hx
    have posB : ∀ x ∈ q, 0 < x := by
      intro x hx
      have : ∀ (ls : List Nat) (o : Nat), cutsOk bs F (ls.map fun l => (true, l)) o → ∀ y ∈ ls, 0 < y := by
        intro ls; induction ls with
        | nil => intro _ _ y hy; cases hy
        | cons z zs ih =>
          intro o hc y hy
          simp only [List.map_cons, cutsOk] at hc
          rcases List.mem_cons.mp hy with rfl | hy
          · exact (hc.2.1 trivial).1
          · exact ih _ hc.2.2 y hy
      exact this q _ hb1.2.2 x hx
    simp only [List.sum_cons] at hs
    have hlm : l = m := by
      apply Classical.byContradiction; intro hne
      rcases Nat.lt_or_gt_of_ne hne with hlt | hgt
      · -- l < m <= bs: off + l is a flush offset, hence a boundary of the second list, but it lies strictly inside its first Block
        have hf := hl.2 (by omega)
        have := hb.2 _ hf (by omega) (by simp only [List.sum_cons]; omega)
        simp only [List.map_cons, closedEnds, if_true, List.mem_cons] at this
        rcases this with h0 | h0
        · omega
        · have := closedEnds_ge q (off + m) posB _ h0; omega
      · have hf := hm.2 (by omega)
        have := ha.2 _ hf (by omega) (by simp only [List.sum_cons]; omega)
        simp only [List.map_cons, closedEnds, if_true, List.mem_cons] at this
        rcases this with h0 | h0
        · omega
        · have := closedEnds_ge r (off + l) posA _ h0; omega
    subst hlm
    congr 1
    refine cuts_unique bs F r q (off + l) (by omega) ⟨ha1.2.2, ?_⟩ ⟨hb1.2.2, ?_⟩
    · intro f hf h1 h2
      have := ha.2 f hf (by omega) (by simp only [List.sum_cons]; omega)
      simp only [List.map_cons, closedEnds, if_true, List.mem_cons] at this
      rcases this with h0 | h0
      · obtain ⟨t, ht⟩ := closedEnds_head (r.map fun l => (true, l)) (off + l)
        rw [ht]; have : f = off + l := by omega
        rw [this]; exact List.mem_cons_self
      · exact h0
    · intro f hf h1 h2
      have := hb.2 f hf (by omega) (by simp only [List.sum_cons]; omega)
      simp only [List.map_cons, closedEnds, if_true, List.mem_cons] at this
      rcases this with h0 | h0
      · obtain ⟨t, ht⟩ := closedEnds_head (q.map fun l => (true, l)) (off + l)
        rw [ht]; have : f = off + l := by omega
        rw [this]; exact List.mem_cons_self
      · exact h0

theorem flatten_eq_of_lengths : ∀ (a b : List Bytes), a.flatten = b.flatten → a.map List.length = b.map List.length → a = b
  | [], [], _, _ => rfl
  | [], _ :: _, _, h => by simp at h
  | _ :: _, [], _, h => by simp at h
  | x :: xs, y :: ys, hf, hl => by
    simp only [List.map_cons, List.cons.injEq] at hl
    simp only [List.flatten_cons] at hf
    have hxy : x = y := by
      have := congrArg (List.take x.length) hf
      rw [List.take_left' rfl, hl.1, List.take_left' rfl] at this
      exact this
    subst hxy
    rw [flatten_eq_of_lengths xs ys (List.append_cancel_left hf) hl.2]


theorem reachable_run {P : Params} {c : Cfg} {s s' : St} (evs : List Ev) (hr : Reachable P c s) (h : run P s evs = some s') :
    Reachable P c s' := by
  induction evs generalizing s with
  | nil => simp [run] at h; exact h ▸ hr
  | cons e es ih =>
    simp only [run] at h
    cases hs : step P s e with
    | none => simp [hs] at h
    | some s1 => simp [hs] at h; exact ih (Reachable.step e hr hs) h


end XzVerif.MtEnc
