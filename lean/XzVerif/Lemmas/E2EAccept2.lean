/-
  C01 end-to-end, acceptance of concrete parsers, part 2: one LZMA2 chunk.
  `WalkL`: a trace whose records are literals and normal matches (no rep symbols: their validity would depend on the
  chunker's state resets), each correct at the data offset it is met at, `mf->read_ahead = 0`, covering the data.
  For such a trace `encodeChunk` never fails: every per-record check passes (`checkSym_recOk`), and the chunk-size rule of
  `lzma_lzma_encode` keeps the sizes inside the limits `lzma2_encode` asserts (`chunkTail_total`).
-/
import XzVerif.Lemmas.E2EAccept1

namespace XzVerif.LzmaExec
open XzVerif.RangeDec XzVerif.RangeEnc XzVerif.RangeCoder XzVerif.Lzma XzVerif.LzmaEnc XzVerif.Lzma2Enc

/-- A trace record that is valid at data offset `o` whatever the rep registers are: a literal, or a normal match
    (`back ≥ REPS`) that copies the true bytes from inside the dictionary; `pos` is the offset (mod 2^32), no read-ahead. -/
def RecOk (d : Nat) (buf : ByteArray) (o : Nat) (r : TraceRec) : Prop :=
  r.kind = 0 ∧ r.ra = 0 ∧ r.pos = o % 4294967296 ∧ 1 ≤ r.len ∧ o + r.len ≤ buf.size ∧
  ((r.back = 4294967295 ∧ r.len = 1) ∨
   (4 ≤ r.back ∧ r.back < 4294967295 ∧ 2 ≤ r.len ∧ r.len ≤ 273 ∧ r.back - 4 < o ∧ r.back - 4 < d ∧
      matchesAt buf o (r.back - 4) r.len = true))

/-- the records from data offset `o` on are valid one after the other and end exactly at the end of the data -/
def WalkL (d : Nat) (buf : ByteArray) : List TraceRec → Nat → Prop
  | [], o => o = buf.size
  | r :: rs, o => RecOk d buf o r ∧ WalkL d buf rs (o + r.len)

theorem WalkL_le {d : Nat} {buf : ByteArray} : ∀ {l : List TraceRec} {o : Nat}, WalkL d buf l o → o ≤ buf.size
  | [], _, h => Nat.le_of_eq h
  | r :: rs, o, h => by
    have := h.1.2.2.2.2.1
    omega

theorem WalkL_lt {d : Nat} {buf : ByteArray} {l : List TraceRec} {o : Nat} (h : WalkL d buf l o) (hne : l ≠ []) :
    o < buf.size := by
  cases l with
  | nil => exact absurd rfl hne
  | cons r rs =>
    have h1 := h.1.2.2.2.1
    have h2 := h.1.2.2.2.2.1
    omega

theorem WalkL_kind {d : Nat} {buf : ByteArray} : ∀ {l : List TraceRec} {o : Nat}, WalkL d buf l o → ∀ r ∈ l, r.kind = 0
  | [], _, _, r, hr => by cases hr
  | r0 :: rs, o, h, r, hr => by
    rcases List.mem_cons.mp hr with rfl | hr
    · exact h.1.1
    · exact WalkL_kind h.2 r hr

theorem drop_cons_get (tr : Array TraceRec) (i : Nat) (h : i < tr.size) :
    tr.toList.drop i = tr[i]! :: tr.toList.drop (i + 1) := by
  have h' : i < tr.toList.length := by simpa using h
  rw [List.drop_eq_getElem_cons h']
  congr 1
  simp [getElem!_pos, h]

/-- `checkSym` accepts a valid record, and the symbol is a literal or a normal match with a 32-bit distance -/
theorem checkSym_recOk (d : Nat) (buf : ByteArray) (o : Nat) (st : SymSt) (r : TraceRec) (h : RecOk d buf o r) :
    ∃ sym prev mb, checkSym d buf 0 o st r.back r.len = .ok (sym, prev, mb) ∧
      ((∃ b, sym = .lit b) ∨ (∃ dd l, sym = .mtch dd l ∧ dd < 4294967296)) := by
  obtain ⟨_, _, _, hl1, hle, hcase⟩ := h
  unfold checkSym
  simp only [Nat.zero_add]
  rw [if_neg (by omega)]
  rcases hcase with ⟨hb, hl⟩ | ⟨hb4, hbm, hl2, hl273, hdo, hdd, hm⟩
  · rw [hb, hl]
    simp only [UINT32_MAX, beq_self_eq_true, if_true, bne_self_eq_false, Bool.false_eq_true, if_false]
    exact ⟨_, _, _, rfl, Or.inl ⟨_, rfl⟩⟩
  · have e1 : (r.back == UINT32_MAX) = false := by simp [UINT32_MAX]; omega
    have e2 : ¬ r.back < REPS := by simp only [REPS]; omega
    have e3 : (r.back == 0) = false := by simp; omega
    simp only [e1, Bool.false_eq_true, if_false, e2, e3]
    have e4 : (decide (2 ≤ r.len) && decide (r.len ≤ MATCH_LEN_MAX)) = true := by simp [MATCH_LEN_MAX, hl2, hl273]
    have e5 : decide (r.back - REPS < o) = true := by simp [REPS, hdo]
    have e6 : decide (r.back - REPS < d) = true := by simp [REPS, hdd]
    have e7 : matchesAt buf o (r.back - REPS) r.len = true := hm
    simp only [e4, e5, e6, e7, Bool.not_true, Bool.false_eq_true, if_false]
    refine ⟨_, _, _, rfl, Or.inr ⟨r.back - REPS, r.len, ?_, by simp only [REPS]; omega⟩⟩
    simp only [Sym.ofBackLen, e1, Bool.false_eq_true, if_false, e2]

/-! ## the symbol loop of `encodeChunk` -/

/-- invariant of the symbol loop (trace `tr` without markers, chunk started at data offset `off`), for chunk-closing limits `lim` -/
structure CJ (lim : ChunkLimits) (d : Nat) (buf : ByteArray) (tr : Array TraceRec) (off : Nat) (s : ChunkLoopSt) : Prop where
  walk : WalkL d buf (tr.toList.drop s.2.2.1) s.2.1
  pos : s.1.uncompSize = s.2.1
  ra : s.2.2.2.2.1 = 0
  ok : OutOk2 s.1.rc
  tb : T s.1.rc ≤ lim.compLimit + 55
  usz : s.2.1 - off ≤ lim.target
  ge : off ≤ s.2.1
  idx : s.2.2.1 ≤ tr.size
  prog : off < s.2.1 ∨ (s.1.rc = Enc.init ∧ s.2.1 = off ∧ s.2.2.1 < tr.size ∧ 0 < s.2.2.2.2.2)

theorem chunkFull_init : chunkFull 0 Enc.init = false := by decide

theorem chunkFullL_init (lim : ChunkLimits) (hlim : lim.Ok) : chunkFullL lim 0 Enc.init = false := by
  obtain ⟨h1, _, h3, _⟩ := hlim
  simp only [MATCH_LEN_MAX] at h1
  simp only [chunkFullL, Enc.init, Enc.pending, MATCH_LEN_MAX, Bool.or_eq_false_iff, decide_eq_false_iff_not]
  refine ⟨by omega, ?_⟩
  exact decide_eq_false (by omega)

set_option maxRecDepth 4000 in
theorem chunkBodyL_total (lim : ChunkLimits) (hlim : lim.Ok) (p : Props) (d : Nat) (buf : ByteArray) (tr : Array TraceRec) (off : Nat) (s : ChunkLoopSt)
    (h : CJ lim d buf tr off s) :
    (∃ s', chunkBodyL lim d buf 0 tr tr.size p off () s = .ok (.yield s') ∧ CJ lim d buf tr off s' ∧ s'.2.2.2.2.2 < s.2.2.2.2.2) ∨
    (∃ s', chunkBodyL lim d buf 0 tr tr.size p off () s = .ok (.done s') ∧ CJ lim d buf tr off s' ∧ off < s'.2.1) := by
  obtain ⟨hl1, hl2, hl3, hl4⟩ := hlim
  simp only [MATCH_LEN_MAX, LZMA2_UNCOMPRESSED_MAX, LZMA2_CHUNK_MAX] at hl1 hl2 hl4
  unfold chunkBodyL
  by_cases hfuel : s.2.2.2.2.2 > 0
  · rw [if_pos hfuel]
    by_cases hfull : chunkFullL lim (s.2.1 - off) s.1.rc = true
    · rw [if_pos hfull]
      right
      refine ⟨_, rfl, ⟨h.walk, h.pos, h.ra, h.ok, h.tb, h.usz, h.ge, h.idx, ?_⟩, ?_⟩
      · rcases h.prog with hp | ⟨hrc, ho, _, _⟩
        · exact Or.inl hp
        · rw [hrc, ho, Nat.sub_self, chunkFullL_init lim ⟨hl1, hl2, hl3, hl4⟩] at hfull; cases hfull
      · rcases h.prog with hp | ⟨hrc, ho, _, _⟩
        · exact hp
        · rw [hrc, ho, Nat.sub_self, chunkFullL_init lim ⟨hl1, hl2, hl3, hl4⟩] at hfull; cases hfull
    rw [if_neg hfull]
    by_cases hseg : s.2.2.1 ≥ tr.size
    · rw [if_pos hseg]
      right
      have hp : off < s.2.1 := by
        rcases h.prog with hp | ⟨_, _, hi, _⟩
        · exact hp
        · omega
      exact ⟨_, rfl, ⟨h.walk, h.pos, h.ra, h.ok, h.tb, h.usz, h.ge, h.idx, Or.inl hp⟩, hp⟩
    rw [if_neg hseg]
    have hi : s.2.2.1 < tr.size := by omega
    have hw := h.walk
    rw [drop_cons_get tr _ hi] at hw
    obtain ⟨hrec, hrest⟩ := hw
    have ⟨hk, hra, hpos, hl1, hle, _⟩ := hrec
    rw [if_neg (by rw [hk]; simp)]
    rw [if_neg (by rw [hpos, h.pos]; simp)]
    obtain ⟨sym, prev, mb, hck, hsym⟩ := checkSym_recOk d buf s.2.1 s.1.st _ hrec
    rw [hck]
    simp only [bind, Except.bind, pure, Except.pure]
    left
    refine ⟨_, rfl, ?_, by show s.2.2.2.2.2 - 1 < s.2.2.2.2.2; omega⟩
    -- the chunk was not full before this symbol
    have hnf : ¬ (s.2.1 - off ≥ lim.target - MATCH_LEN_MAX) ∧
        ¬ (s.1.rc.outTotal + s.1.rc.pending ≥ lim.compLimit) := by
      unfold chunkFullL at hfull
      simp only [Bool.or_eq_true, decide_eq_true_eq, not_or] at hfull
      exact hfull
    rw [total_pending h.ok] at hnf
    simp only [MATCH_LEN_MAX] at hnf
    have hlen := symOps_length p s.1.st s.1.uncompSize prev mb sym hsym
    have hrcnew : ∀ ops : List Op, (s.1.encode ops).rc = (encOps s.1.probs s.1.rc ops).2 := fun _ => rfl
    obtain ⟨hT, _⟩ := T_encOps (symOps p s.1.st s.1.uncompSize prev mb sym).1 s.1.probs s.1.rc h.ok.2
    have hl273 : tr[s.2.2.1]!.len ≤ 273 := by
      rcases hrec.2.2.2.2.2 with ⟨_, hl⟩ | ⟨_, _, _, hl, _⟩
      · omega
      · exact hl
    refine ⟨hrest, ?_, hra, ?_, ?_, ?_, ?_, ?_, Or.inl ?_⟩
    · show (s.1.encode _).uncompSize + _ = _
      rw [encode_uncomp, h.pos]
    · show OutOk2 (s.1.encode _).rc
      rw [hrcnew]; exact outOk2_encOps _ _ _ h.ok
    · show T (s.1.encode _).rc ≤ lim.compLimit + 55
      rw [hrcnew]; omega
    · show s.2.1 + _ - off ≤ lim.target
      omega
    · show off ≤ s.2.1 + _
      have := h.ge; omega
    · show s.2.2.1 + 1 ≤ tr.size
      omega
    · show off < s.2.1 + _
      have := h.ge; omega
  · rw [if_neg hfuel]
    right
    have hp : off < s.2.1 := by
      rcases h.prog with hp | ⟨_, _, _, hf⟩
      · exact hp
      · omega
    exact ⟨_, rfl, ⟨h.walk, h.pos, h.ra, h.ok, h.tb, h.usz, h.ge, h.idx, Or.inl hp⟩, hp⟩

/-! ## after the loop -/

/-- what a finished chunk leaves behind -/
structure ChunkRes (d : Nat) (buf : ByteArray) (tr : Array TraceRec) (off : Nat)
    (x : List UInt8 × Nat × Nat × L2Enc × Nat) : Prop where
  walk : WalkL d buf (tr.toList.drop x.2.2.1) x.2.1
  pos : x.2.2.2.1.lz.uncompSize = x.2.1
  rc : x.2.2.2.1.lz.rc = Enc.init
  ini : x.2.2.2.1.initialized = true
  idx : x.2.2.1 ≤ tr.size
  adv : off < x.2.1

theorem chunkTail_total (lim : ChunkLimits) (hlim : lim.Ok) (d : Nat) (buf : ByteArray) (tr : Array TraceRec) (c : L2Enc) (off : Nat)
    (s : ChunkLoopSt) (h : CJ lim d buf tr off s) (hadv : off < s.2.1) :
    ∃ x, chunkTail buf 0 c off true s = .ok x ∧ ChunkRes d buf tr off x := by
  have hsz := WalkL_le h.walk
  have hcs : s.1.flush.2.1 = (encFlush s.1.rc).outTotal := rfl
  have hfl := flush_le h.ok
  have htb := h.tb
  have hra := h.ra
  have hge := h.ge
  have husz := h.usz
  obtain ⟨hl1, hl2, hl3, hl4⟩ := hlim
  simp only [MATCH_LEN_MAX, LZMA2_UNCOMPRESSED_MAX, LZMA2_CHUNK_MAX] at hl1 hl2 hl4
  unfold chunkTail
  by_cases hu : s.1.flush.2.1 ≥ s.2.1 - off
  · rw [if_pos hu, hra]
    rw [if_neg (by omega)]
    rw [if_neg (by simp [LZMA2_CHUNK_MAX]; omega)]
    refine ⟨_, rfl, ?_⟩
    have e : off + (s.2.1 - off + 0) = s.2.1 := by omega
    exact ⟨by show WalkL d buf _ (off + (s.2.1 - off + 0)); rw [e]; exact h.walk,
      by show s.1.uncompSize = off + (s.2.1 - off + 0); rw [e]; exact h.pos, rfl, rfl, h.idx,
      by show off < off + (s.2.1 - off + 0); omega⟩
  · rw [if_neg hu]
    rw [if_neg (by simp [LZMA2_CHUNK_MAX, LZMA2_UNCOMPRESSED_MAX]; omega)]
    exact ⟨_, rfl, h.walk, h.pos, rfl, rfl, h.idx, hadv⟩

end XzVerif.LzmaExec
