/-
  Slicing independence of the resumable LZMA decoder model (`Model/LzmaResume.lean`), LZ layer: `decodeBufferR` absorbs a
  call with fewer resources (shorter input prefix, smaller output allowance) into the call with more — ASSUMING the interface
  `CodeAbsorb P code` of the inner coder (Lemmas/LzmaResumeDefs.lean; proved elsewhere for `lzmaCallR`/`lzma2CallR`) and
  RESTRICTED to runs in which the dictionary window never fills (`Inv.noWrap`: `DictPos.wrap` is the identity in every iteration).
  The fuel of `decodeBufferR` is shown irrelevant (`fuel_mono`, `dB_noProg`). Core Lean only.
-/
import XzVerif.Lemmas.LzmaResumeDefs

namespace XzVerif.LzmaR
open XzVerif.RangeDec XzVerif.LzDict XzVerif.Lzma XzVerif.Lzma2

/-! ### one iteration of `decodeBufferR` -/

/-- wrap step and limit computation at the top of the `decode_buffer` loop -/
def prep (N : Nat) (r : RSt) : RSt := r.map fun s => { s with dp := (s.dp.wrap).setLimit (N - s.produced) }

/-- `lz_decoder_reset` -/
def rst (q : RSt) : RSt := q.map fun s => { s with dp := s.dp.reset }

/-- what `decode_buffer` does after `code` returned: the reset, and whether the loop goes on -/
def post (N : Nat) (c : Ret × RSt) : (Ret × RSt) × Bool :=
  if c.2.s.dp.needReset then
    ((c.1, rst c.2), !(c.1 != .ok || c.2.s.produced == N))
  else
    (c, !(c.1 != .ok || c.2.s.produced == N || decide (c.2.s.dp.pos < c.2.s.dp.size)))

theorem dB_zero (code : RSt → Ret × RSt) (N : Nat) (r : RSt) : decodeBufferR code 0 N r = (.progError, r) := rfl

/-- the part of one iteration after `code` -/
def tailR (code : RSt → Ret × RSt) (f N : Nat) (c : Ret × RSt) : Ret × RSt :=
  if c.2.s.dp.needReset then
    if c.1 != .ok || (rst c.2).s.produced == N then (c.1, rst c.2)
    else decodeBufferR code f N (rst c.2)
  else
    if c.1 != .ok || c.2.s.produced == N || decide (c.2.s.dp.pos < c.2.s.dp.size) then (c.1, c.2)
    else decodeBufferR code f N c.2

theorem dB_succ0 (code : RSt → Ret × RSt) (f N : Nat) (r : RSt) :
    decodeBufferR code (f + 1) N r = tailR code f N (code (prep N r)) := rfl

theorem dB_succ (code : RSt → Ret × RSt) (f N : Nat) (r : RSt) :
    decodeBufferR code (f + 1) N r =
      if (post N (code (prep N r))).2 then decodeBufferR code f N (post N (code (prep N r))).1.2
      else (post N (code (prep N r))).1 := by
  rw [dB_succ0]
  generalize code (prep N r) = c
  obtain ⟨ret, r2⟩ := c
  unfold post tailR
  simp only []
  by_cases h : r2.s.dp.needReset = true
  · simp only [h, if_true]
    have : (rst r2).s.produced = r2.s.produced := rfl
    rw [this]
    cases hb : (ret != .ok || r2.s.produced == N) <;> simp
  · simp only [h]
    cases hb : (ret != .ok || r2.s.produced == N || decide (r2.s.dp.pos < r2.s.dp.size)) <;> simp

theorem post_reset {N : Nat} {c : Ret × RSt} (h : c.2.s.dp.needReset = true) :
    post N c = ((c.1, rst c.2), !(c.1 != .ok || c.2.s.produced == N)) := by
  unfold post; simp only [h, if_true]

theorem post_noreset {N : Nat} {c : Ret × RSt} (h : c.2.s.dp.needReset = false) :
    post N c = (c, !(c.1 != .ok || c.2.s.produced == N || decide (c.2.s.dp.pos < c.2.s.dp.size))) := by
  unfold post; simp [h]

/-- the result of `post` when `code` did not answer LZMA_OK: the loop ends -/
theorem post_notok {N : Nat} {c : Ret × RSt} (h : c.1 ≠ .ok) : (post N c).2 = false ∧ (post N c).1.1 = c.1 ∧ (post N c).1.2.overrun = c.2.overrun := by
  unfold post
  split <;> simp [h, RSt.map, rst]

theorem prep_view0 (N : Nat) (r : RSt) : prep N r = prep N (r.view r.s.inp 0) := by
  unfold prep RSt.map RSt.view DictPos.wrap DictPos.setLimit
  simp only []
  split <;> rfl

/-- `decodeBufferR` ignores the incoming `dict.limit` -/
theorem dB_congr (code : RSt → Ret × RSt) (f N : Nat) {r r' : RSt} (h : r.view r.s.inp 0 = r'.view r'.s.inp 0) :
    decodeBufferR code (f + 1) N r = decodeBufferR code (f + 1) N r' := by
  rw [dB_succ, dB_succ, prep_view0 N r, prep_view0 N r', h]

/-- more fuel does not change a run that did not run out of fuel -/
theorem fuel_mono (code : RSt → Ret × RSt) (N : Nat) : ∀ (f k : Nat) (r : RSt),
    (decodeBufferR code f N r).1 ≠ .progError → decodeBufferR code (f + k) N r = decodeBufferR code f N r
  | 0, k, r, h => absurd rfl h
  | f + 1, k, r, h => by
    have e : f + 1 + k = (f + k) + 1 := by omega
    rw [e, dB_succ, dB_succ]
    rw [dB_succ] at h
    cases hb : (post N (code (prep N r))).2
    · simp
    · simp only [hb, if_true] at h ⊢
      exact fuel_mono code N f k _ h

theorem fuel_agree (code : RSt → Ret × RSt) (N : Nat) (f f' : Nat) (r : RSt)
    (h : (decodeBufferR code f N r).1 ≠ .progError) (h' : (decodeBufferR code f' N r).1 ≠ .progError) :
    decodeBufferR code f N r = decodeBufferR code f' N r := by
  rcases Nat.le_total f f' with hle | hle
  · obtain ⟨k, rfl⟩ := Nat.exists_eq_add_of_le hle
    exact (fuel_mono code N f k r h).symm
  · obtain ⟨k, rfl⟩ := Nat.exists_eq_add_of_le hle
    exact fuel_mono code N f' k r h'

theorem fuel_agree_congr (code : RSt → Ret × RSt) (N : Nat) (f f' : Nat) {r r' : RSt}
    (hv : r.view r.s.inp 0 = r'.view r'.s.inp 0)
    (h : (decodeBufferR code f N r).1 ≠ .progError) (h' : (decodeBufferR code f' N r').1 ≠ .progError) :
    decodeBufferR code f N r = decodeBufferR code f' N r' := by
  cases f with
  | zero => exact absurd rfl h
  | succ f =>
    rw [dB_congr code f N hv] at h ⊢
    exact fuel_agree code N _ _ r' h h'


/-! ### the invariant of the LZ layer between `code` calls, without dictionary wrap -/

/-- `M` = a bound on the total output room ever granted: the window never fills (`NoWrap`), so `DictPos.wrap` is the identity. -/
structure Inv (P : RSt → Prop) (M : Nat) (r : RSt) (b : ByteArray) (N : Nat) : Prop where
  p : P r
  inPos : r.s.inPos ≤ b.size
  base : r.s.outBase ≤ r.s.hist.size
  prod : r.s.produced ≤ N
  noReset : r.s.dp.needReset = false
  pos_ge : LZ_DICT_INIT_POS ≤ r.s.dp.pos
  noWrap : r.s.dp.pos + (M - r.s.produced) < r.s.dp.size
  /-- the state's own (stale) input buffer agrees with the call's buffer on the consumed bytes -/
  agree : Agree r.s.inPos r.s.inp b

theorem agree_trans_le {n m : Nat} {a b c : ByteArray} (h1 : Agree n a b) (h2 : Agree m b c) (hnm : n ≤ m) : Agree n a c :=
  ⟨h1.le, Nat.le_trans hnm h2.le', fun i h h' hi => by
    have hb : i < b.size := Nat.lt_of_lt_of_le hi h1.le'
    rw [h1.eq i h hb hi, h2.eq i hb h' (Nat.lt_of_lt_of_le hi hnm)]⟩

theorem agree_self {n : Nat} {b : ByteArray} (h : n ≤ b.size) : Agree n b b := ⟨h, h, fun _ _ _ _ => rfl⟩

theorem Inv.mono {P : RSt → Prop} {M N N' : Nat} {r : RSt} {b b' : ByteArray} (h : Inv P M r b N) (hb : Agree b.size b b')
    (hN : N ≤ N') : Inv P M r b' N' :=
  ⟨h.p, Nat.le_trans h.inPos hb.le', h.base, Nat.le_trans h.prod hN, h.noReset, h.pos_ge, h.noWrap,
    agree_trans_le h.agree hb h.inPos⟩

theorem prep_noWrap (N : Nat) (r : RSt) (b : ByteArray) (h : r.s.dp.pos + (N - r.s.produced) < r.s.dp.size) :
    prep N (r.withInp b) = r.view b (r.s.dp.pos + (N - r.s.produced)) := by
  have hne : (r.s.dp.pos == r.s.dp.size) = false := by
    simp only [beq_eq_false_iff_ne, ne_eq]; omega
  have hmin : min (N - r.s.produced) (r.s.dp.size - r.s.dp.pos) = N - r.s.produced := Nat.min_eq_left (by omega)
  unfold prep RSt.map RSt.withInp RSt.view DictPos.wrap DictPos.setLimit
  simp only [hne, Bool.false_eq_true, if_false]
  have hp : ∀ (s : St) (b : ByteArray), ({ s with inp := b } : St).produced = s.produced := fun _ _ => rfl
  rw [hp, hmin]

/-- what one iteration of the LZ loop does to a state satisfying `Inv` -/
structure StepOk (P : RSt → Prop) (M : Nat) (r : RSt) (b : ByteArray) (N : Nat) (c : Ret × RSt) : Prop where
  inp : c.2.s.inp = b
  limit : c.2.s.dp.limit = r.s.dp.pos + (N - r.s.produced)
  ret : c.1 ≠ .progError
  p : P c.2
  inPos : c.2.s.inPos ≤ b.size
  inv : Inv P M (post N c).1.2 b N
  pinp : (post N c).1.2.s.inp = b
  pret : (post N c).1.1 = c.1
  cont : (post N c).2 = true → c.1 = .ok ∧ c.2.s.dp.needReset = true ∧ r.s.inPos < (post N c).1.2.s.inPos
    ∧ (post N c).1.2.s.produced < N
  shift : ∀ N', N ≤ N' → c.2.s.dp.pos + (N' - c.2.s.produced) = r.s.dp.pos + (N' - r.s.produced)

theorem step_ok {P : RSt → Prop} {code : RSt → Ret × RSt} (hc : CodeAbsorb P code) {M N : Nat} {r : RSt} {b : ByteArray}
    (hi : Inv P M r b N) (hN : N ≤ M) : StepOk P M r b N (code (r.view b (r.s.dp.pos + (N - r.s.produced)))) := by
  have hp1 : P (r.view b (r.s.dp.pos + (N - r.s.produced))) := hc.frame_view r b _ hi.p hi.agree
  have sp := hc.spec _ hp1 hi.noReset hi.inPos (Nat.le_add_right _ _)
  generalize code (r.view b (r.s.dp.pos + (N - r.s.produced))) = c at sp ⊢
  obtain ⟨ret, r2⟩ := c
  obtain ⟨hcr, hret, hp2, hrs, _, _⟩ := sp
  have a1 : r2.s.inp = b := hcr.inp
  have a2 : r.s.inPos ≤ r2.s.inPos := hcr.pos_mono
  have a3 : r2.s.inPos ≤ r2.s.inp.size := hcr.pos_le hi.inPos
  have a4 : r2.s.outBase = r.s.outBase := hcr.outBase
  have a5 : r2.s.dp.limit = r.s.dp.pos + (N - r.s.produced) := hcr.limit
  have a6 : r2.s.dp.size = r.s.dp.size := hcr.size
  have a7 : r.s.dp.pos ≤ r2.s.dp.pos := hcr.dpos_mono
  have a8 : r2.s.hist.size + r.s.dp.pos = r.s.hist.size + r2.s.dp.pos := hcr.hist_eq
  have a9 : r2.s.dp.pos ≤ r2.s.dp.limit := hcr.in_limit (Nat.le_add_right _ _)
  have hrs' : r2.s.dp.needReset = true → r.s.dp.needReset = true ∨ r.s.inPos < r2.s.inPos := hrs
  rw [a1] at a3
  have hag2 : Agree r2.s.inPos r2.s.inp b := by rw [a1]; exact agree_self a3
  have b1 := hi.base; have b2 := hi.prod; have b3 := hi.pos_ge; have b4 := hi.noWrap
  have e1 : r.s.produced = r.s.hist.size - r.s.outBase := rfl
  have e2 : r2.s.produced = r2.s.hist.size - r2.s.outBase := rfl
  simp only [LZ_DICT_INIT_POS] at b3
  have hsh : ∀ N', N ≤ N' → r2.s.dp.pos + (N' - r2.s.produced) = r.s.dp.pos + (N' - r.s.produced) := by
    intro N' hN'; omega
  by_cases hr : r2.s.dp.needReset = true
  · have hpost := post_reset (N := N) (c := (ret, r2)) hr
    have e3 : (rst r2).s.produced = r2.s.produced := rfl
    have hlt : r.s.inPos < r2.s.inPos := by
      rcases hrs' hr with h | h
      · rw [hi.noReset] at h; cases h
      · exact h
    refine ⟨a1, a5, hret, hp2, a3, ?_, ?_, ?_, ?_, hsh⟩
    · rw [hpost]
      refine ⟨hc.frame_reset r2 hp2 hr, a3, ?_, ?_, rfl, Nat.le_refl _, ?_, hag2⟩
      · show r2.s.outBase ≤ r2.s.hist.size; omega
      · rw [e3]; omega
      · rw [e3]; show LZ_DICT_INIT_POS + _ < r2.s.dp.size
        simp only [LZ_DICT_INIT_POS]; omega
    · rw [hpost]; exact a1
    · rw [hpost]
    · rw [hpost]
      intro hcont
      simp only [Bool.not_eq_true', Bool.or_eq_false_iff, bne_eq_false_iff_eq, beq_eq_false_iff_ne, ne_eq] at hcont
      refine ⟨hcont.1, hr, hlt, ?_⟩
      rw [e3]; have := hcont.2; omega
  · have hr' : r2.s.dp.needReset = false := by
      cases h : r2.s.dp.needReset
      · rfl
      · exact absurd h hr
    have hpost := post_noreset (N := N) (c := (ret, r2)) hr'
    have hlt : r2.s.dp.pos < r2.s.dp.size := by omega
    refine ⟨a1, a5, hret, hp2, a3, ?_, ?_, ?_, ?_, hsh⟩
    · rw [hpost]
      have i1 : r2.s.outBase ≤ r2.s.hist.size := by omega
      have i2 : r2.s.produced ≤ N := by omega
      have i3 : LZ_DICT_INIT_POS ≤ r2.s.dp.pos := by simp only [LZ_DICT_INIT_POS]; omega
      have i4 : r2.s.dp.pos + (M - r2.s.produced) < r2.s.dp.size := by omega
      exact ⟨hp2, a3, i1, i2, hr', i3, i4, hag2⟩
    · rw [hpost]; exact a1
    · rw [hpost]
    · rw [hpost]
      intro hcont
      simp [hlt] at hcont


theorem withInp_self {q : RSt} {b : ByteArray} (h : q.s.inp = b) : q.withInp b = q := by
  subst h; rfl

/-- the fuel is never exhausted (under `Inv` the loop only repeats after a dictionary reset, which consumed input);
    the invariant holds again for the result -/
theorem dB_noProg {P : RSt → Prop} {code : RSt → Ret × RSt} (hc : CodeAbsorb P code) {M N : Nat} {b : ByteArray} (hN : N ≤ M) :
    ∀ (f : Nat) (r : RSt), Inv P M r b N → b.size - r.s.inPos < f →
      (decodeBufferR code f N (r.withInp b)).1 ≠ .progError
      ∧ Inv P M (decodeBufferR code f N (r.withInp b)).2 b N
      ∧ (decodeBufferR code f N (r.withInp b)).2.s.inp = b
  | 0, r, _, hf => by omega
  | f + 1, r, hi, hf => by
    have hnw : r.s.dp.pos + (N - r.s.produced) < r.s.dp.size := by have := hi.noWrap; omega
    rw [dB_succ, prep_noWrap N r b hnw]
    have st := step_ok hc hi hN
    generalize code (r.view b (r.s.dp.pos + (N - r.s.produced))) = c at st
    cases hb : (post N c).2
    · simp only [Bool.false_eq_true, if_false]
      exact ⟨by rw [st.pret]; exact st.ret, st.inv, st.pinp⟩
    · simp only [if_true]
      rw [← withInp_self st.pinp]
      have h4 := (st.cont hb).2.2.1
      have h5 := st.inv.inPos
      exact dB_noProg hc hN f _ st.inv (by omega)


theorem view_self {q : RSt} {b : ByteArray} {L : Nat} (h : q.s.inp = b) (hl : q.s.dp.limit = L) : q.view b L = q := by
  subst h; subst hl; rfl

theorem norm_map_reset {q q' : RSt} (h : q.norm = q'.norm) :
    (rst q).norm = (rst q').norm := by
  have t : (rst q.norm).norm = (rst q'.norm).norm :=
    congrArg (fun r : RSt => (rst r).norm) h
  exact t

theorem norm_needReset {q q' : RSt} (h : q.norm = q'.norm) : q.s.dp.needReset = q'.s.dp.needReset := by
  have t : q.norm.s.dp.needReset = q'.norm.s.dp.needReset := congrArg (fun r : RSt => r.s.dp.needReset) h
  exact t

theorem norm_produced {q q' : RSt} (h : q.norm = q'.norm) : q.s.produced = q'.s.produced := by
  have t : q.norm.s.produced = q'.norm.s.produced := congrArg (fun r : RSt => r.s.produced) h
  exact t

theorem norm_inPos {q q' : RSt} (h : q.norm = q'.norm) : q.s.inPos = q'.s.inPos := by
  have t : q.norm.s.inPos = q'.norm.s.inPos := congrArg (fun r : RSt => r.s.inPos) h
  exact t

theorem norm_overrun {q q' : RSt} (h : q.norm = q'.norm) : q.overrun = q'.overrun := by
  have t : q.norm.overrun = q'.norm.overrun := congrArg (fun r : RSt => r.overrun) h
  exact t

theorem norm_output {q q' : RSt} (h : q.norm = q'.norm) : q.output = q'.output := by
  have t : q.norm.output = q'.norm.output := congrArg (fun r : RSt => r.output) h
  exact t

/-- both `code` results are final (not LZMA_OK) and equivalent: so are the results of the LZ layer -/
theorem post_eqv_stop {N1 N2 : Nat} {c c' : Ret × RSt} (h : Eqv c c') (hne : c'.1 ≠ .ok) :
    (post N1 c).2 = false ∧ (post N2 c').2 = false ∧ Eqv (post N1 c).1 (post N2 c').1 := by
  have hne1 : c.1 ≠ .ok := by
    rcases h with h | h
    · rw [h.1]; exact hne
    · rw [h.1]; decide
  have p1 := post_notok (N := N1) hne1
  have p2 := post_notok (N := N2) hne
  refine ⟨p1.1, p2.1, ?_⟩
  rcases h with ⟨h1, h2⟩ | ⟨h1, h2, h3, h4⟩
  · left
    have hnr : c.2.s.dp.needReset = c'.2.s.dp.needReset := norm_needReset h2
    by_cases hr : c'.2.s.dp.needReset = true
    · rw [post_reset hr, post_reset (hnr.trans hr)]
      exact ⟨h1, norm_map_reset h2⟩
    · have hr' : c'.2.s.dp.needReset = false := by
        cases h : c'.2.s.dp.needReset
        · rfl
        · exact absurd h hr
      rw [post_noreset hr', post_noreset (hnr.trans hr')]
      exact ⟨h1, h2⟩
  · right
    exact ⟨by rw [p1.2.1]; exact h1, by rw [p2.2.1]; exact h2, by rw [p1.2.2]; exact h3, by rw [p2.2.2]; exact h4⟩

/-- **Absorption for the LZ layer**, any sufficient fuels. -/
theorem absorb_aux {P : RSt → Prop} {code : RSt → Ret × RSt} (hc : CodeAbsorb P code) {M N N' : Nat} {b b' : ByteArray}
    (hNN : N ≤ N') (hNM : N' ≤ M) (hag : Agree b.size b b') :
    ∀ (fX fY fZ : Nat) (r : RSt), Inv P M r b N →
      (decodeBufferR code fX N (r.withInp b)).1 ≠ .progError →
      (decodeBufferR code fY N' (r.withInp b')).1 ≠ .progError →
      ((decodeBufferR code fX N (r.withInp b)).1 = .ok →
        (decodeBufferR code fZ N' ((decodeBufferR code fX N (r.withInp b)).2.withInp b')).1 ≠ .progError) →
      ((decodeBufferR code fX N (r.withInp b)).1 = .ok → (decodeBufferR code fX N (r.withInp b)).2.s.produced < N') →
      Eqv (decodeBufferR code fY N' (r.withInp b'))
        (if (decodeBufferR code fX N (r.withInp b)).1 = .ok
          then decodeBufferR code fZ N' ((decodeBufferR code fX N (r.withInp b)).2.withInp b')
          else decodeBufferR code fX N (r.withInp b))
  | 0, _, _, r, _, hX, _, _, _ => absurd rfl hX
  | fX + 1, fY, fZ, r, hi, hX, hY, hZ, hfree => by
    cases fY with
    | zero => exact absurd rfl hY
    | succ fY =>
    have hi' : Inv P M r b' N' := hi.mono hag hNN
    have hnw : r.s.dp.pos + (N - r.s.produced) < r.s.dp.size := by have := hi.noWrap; omega
    have hnw' : r.s.dp.pos + (N' - r.s.produced) < r.s.dp.size := by have := hi.noWrap; omega
    have hLL : r.s.dp.pos + (N - r.s.produced) ≤ r.s.dp.pos + (N' - r.s.produced) := by omega
    have stX := step_ok hc hi (Nat.le_trans hNN hNM)
    have stY := step_ok hc hi' hNM
    have hstop := hc.stop r b b' _ _ hi.p hi.agree hi.inPos (Nat.le_add_right _ (N - r.s.produced)) hag hLL hi.noReset
    have hyield := hc.yield r b b' _ _ hi.p hi.agree hi.inPos (Nat.le_add_right _ (N - r.s.produced)) hag hLL hi.noReset
    have hresume := hc.resume r b b' _ _ hi.p hi.agree hi.inPos (Nat.le_add_right _ (N - r.s.produced)) hag hLL hi.noReset
    rw [dB_succ code fX N (r.withInp b), prep_noWrap N r b hnw] at hX hZ hfree ⊢
    rw [dB_succ code fY N' (r.withInp b'), prep_noWrap N' r b' hnw'] at hY ⊢
    generalize code (r.view b (r.s.dp.pos + (N - r.s.produced))) = cX at *
    generalize code (r.view b' (r.s.dp.pos + (N' - r.s.produced))) = cY at *
    by_cases hok : cX.1 = .ok
    · by_cases hr : cX.2.s.dp.needReset = true
      · -- the coder asked for a dictionary reset
        have hy := hyield hok hr
        have hrY : cY.2.s.dp.needReset = true := (norm_needReset hy.2).trans hr
        have hpe : cY.2.s.produced = cX.2.s.produced := norm_produced hy.2
        have hpX := post_reset (N := N) hr
        have hpY := post_reset (N := N') hrY
        have hn3 := norm_map_reset hy.2
        have i1 : (rst cX.2).s.inp = b := by have := stX.pinp; rw [hpX] at this; exact this
        have i2 : (rst cY.2).s.inp = b' := by have := stY.pinp; rw [hpY] at this; exact this
        have i3 : Inv P M (rst cX.2) b N := by have := stX.inv; rw [hpX] at this; exact this
        have i4 : cX.2.s.produced ≤ N := i3.prod
        rw [hpX] at hX hZ hfree ⊢
        rw [hpY] at hY ⊢
        simp only [hok, hy.1.trans hok, hpe, bne_self_eq_false, Bool.false_or] at hX hY hZ hfree ⊢
        by_cases hpN : cX.2.s.produced = N
        · have f1 : (cX.2.s.produced == N) = true := by simpa using hpN
          simp only [f1, Bool.not_true, Bool.false_eq_true, if_false, if_true, forall_const] at hX hZ hfree ⊢
          have hfr : cX.2.s.produced < N' := hfree
          have f2 : (cX.2.s.produced == N') = false := by
            simp only [beq_eq_false_iff_ne, ne_eq]; omega
          simp only [f2, Bool.not_false, if_true] at hY ⊢
          left
          have hv : (rst cY.2).view (rst cY.2).s.inp 0
              = ((rst cX.2).withInp b').view
                  ((rst cX.2).withInp b').s.inp 0 := by
            rw [i2]
            exact RSt.view_congr hn3 b' 0
          rw [fuel_agree_congr code N' fY fZ hv hY hZ]
          exact Same.refl _
        · have f1 : (cX.2.s.produced == N) = false := by simpa using hpN
          have f2 : (cX.2.s.produced == N') = false := by
            simp only [beq_eq_false_iff_ne, ne_eq]; omega
          simp only [f1, Bool.not_false, if_true] at hX hZ hfree ⊢
          simp only [f2, Bool.not_false, if_true] at hY ⊢
          cases fY with
          | zero => exact absurd rfl hY
          | succ fY =>
          have hv : (rst cY.2).view (rst cY.2).s.inp 0
              = ((rst cX.2).withInp b').view
                  ((rst cX.2).withInp b').s.inp 0 := by
            rw [i2]
            exact RSt.view_congr hn3 b' 0
          rw [dB_congr code fY N' hv] at hY ⊢
          rw [← withInp_self i1] at hX hZ hfree ⊢
          exact absorb_aux hc hNN hNM hag fX (fY + 1) fZ (rst cX.2) i3 hX hY hZ hfree
      · -- LZMA_OK for lack of input or output room
        have hr' : cX.2.s.dp.needReset = false := by
          cases h : cX.2.s.dp.needReset
          · rfl
          · exact absurd h hr
        have hres := hresume hok hr'
        have hfl : (post N cX).2 = false := by
          cases hb : (post N cX).2
          · rfl
          · have := (stX.cont hb).2.1; rw [hr'] at this; cases this
        have hp1 : (post N cX).1 = cX := by rw [post_noreset hr']
        have i3 := stX.inv
        rw [hp1] at i3
        simp only [hfl, Bool.false_eq_true, if_false, hp1, hok, if_true, forall_const] at hX hZ hfree ⊢
        have hshift := stX.shift N' hNN
        have iZ : Inv P M cX.2 b' N' := i3.mono hag hNN
        have hnwZ : cX.2.s.dp.pos + (N' - cX.2.s.produced) < cX.2.s.dp.size := by have := iZ.noWrap; omega
        have stZ := step_ok hc iZ hNM
        cases fZ with
        | zero => exact absurd rfl hZ
        | succ fZ =>
        rw [dB_succ code fZ N' (cX.2.withInp b'), prep_noWrap N' cX.2 b' hnwZ] at hZ ⊢
        have l2 := stZ.limit
        rw [hshift] at hZ stZ l2 ⊢
        generalize code (cX.2.view b' (r.s.dp.pos + (N' - r.s.produced))) = cZ at *
        rcases hres with hS | hO
        · have e : cY = cZ := by
            refine Prod.ext hS.1 ?_
            calc cY.2 = cY.2.view b' (r.s.dp.pos + (N' - r.s.produced)) := (view_self stY.inp stY.limit).symm
              _ = cZ.2.view b' (r.s.dp.pos + (N' - r.s.produced)) := RSt.view_congr hS.2 _ _
              _ = cZ.2 := view_self stZ.inp l2
          subst e
          cases hb : (post N' cY).2
          · simp only [Bool.false_eq_true, if_false]
            exact Eqv.refl _
          · simp only [hb, if_true] at hY hZ ⊢
            rw [fuel_agree code N' fY fZ _ hY hZ]
            exact Eqv.refl _
        · obtain ⟨q1, q2, q3⟩ := post_eqv_stop (N1 := N') (N2 := N') (Or.inr hO) (by rw [hO.2.1]; decide)
          simp only [q1, q2, Bool.false_eq_true, if_false]
          exact q3
    · -- final answer of the coder
      have hs := hstop hok
      obtain ⟨q1, q2, q3⟩ := post_eqv_stop (N1 := N') (N2 := N) hs hok
      have hne : (post N cX).1.1 ≠ .ok := by rw [stX.pret]; exact hok
      simp only [q1, q2, Bool.false_eq_true, if_false, hne]
      exact q3


theorem Eqv.trans {x y z : Ret × RSt} (h1 : Eqv x y) (h2 : Eqv y z) : Eqv x z := by
  rcases h1 with h1 | ⟨a1, a2, a3, a4⟩
  · rcases h2 with h2 | ⟨b1, b2, b3, b4⟩
    · exact Or.inl (h1.trans h2)
    · exact Or.inr ⟨h1.1.trans b1, b2, (norm_overrun h1.2).trans b3, b4⟩
  · rcases h2 with h2 | ⟨b1, b2, b3, b4⟩
    · exact Or.inr ⟨a1, h2.1.symm.trans a2, a3, (norm_overrun h2.2).symm.trans a4⟩
    · exact Or.inr ⟨a1, b2, a3, b4⟩

/-- **Absorption for the LZ layer (`decode_buffer`) without dictionary wrap.** `X` = the call with input `b` and output
    allowance `N`; `Y` = the call with more input `b'` and allowance `N' ≥ N`; `Z` = the call with `b'`, `N'` after `X`.
    If `X` answered LZMA_OK and left the next call at least one byte of output room, `Y` equals `Z`; if `X` ended, `Y` equals `X`.
    The fuels are never exhausted, and the invariant holds for the state after `X`. -/
theorem absorb {P : RSt → Prop} {code : RSt → Ret × RSt} (hc : CodeAbsorb P code) {M N N' : Nat} {b b' : ByteArray}
    (hNN : N ≤ N') (hNM : N' ≤ M) (hag : Agree b.size b b') (r : RSt) (hi : Inv P M r b N) (fX fY fZ : Nat)
    (hfX : b.size - r.s.inPos < fX) (hfY : b'.size - r.s.inPos < fY)
    (hfZ : b'.size - (decodeBufferR code fX N (r.withInp b)).2.s.inPos < fZ)
    (hfree : (decodeBufferR code fX N (r.withInp b)).1 = .ok → (decodeBufferR code fX N (r.withInp b)).2.s.produced < N') :
    Eqv (decodeBufferR code fY N' (r.withInp b'))
        (if (decodeBufferR code fX N (r.withInp b)).1 = .ok
          then decodeBufferR code fZ N' ((decodeBufferR code fX N (r.withInp b)).2.withInp b')
          else decodeBufferR code fX N (r.withInp b))
    ∧ (decodeBufferR code fX N (r.withInp b)).1 ≠ .progError
    ∧ (decodeBufferR code fY N' (r.withInp b')).1 ≠ .progError
    ∧ Inv P M (decodeBufferR code fX N (r.withInp b)).2 b' N' := by
  have bX := dB_noProg hc (Nat.le_trans hNN hNM) fX r hi hfX
  have bY := dB_noProg hc hNM fY r (hi.mono hag hNN) hfY
  have iX := bX.2.1.mono hag hNN
  have bZ := dB_noProg hc hNM fZ _ iX hfZ
  exact ⟨absorb_aux hc hNN hNM hag fX fY fZ r hi bX.1 bY.1 (fun _ => bZ.1) hfree, bX.1, bY.1, iX⟩

end XzVerif.LzmaR
