/-
  Deadlock freedom of the threaded-decoder model: in every reachable state in which the handle has not been freed, some
  transition other than a spurious wake-up or the expiry of the timed wait is enabled.
-/
import XzVerif.Lemmas.MtDecProgress

namespace XzVerif.MtDec

def Label.privSimple : Label → Bool
  | .rowIter _ | .assign | .enablePartial | .stopOne | .endSet | .endJoin | .getThread | .startThr | .tell => false
  | _ => true

theorem PrivInv.mainSimple {s s' : State} {l : Label} (h : PrivInv s) (hl : l.worker? = none)
    (hsimple : l.privSimple = true) (hs : step s l = some s') : PrivInv s' := by
  cases l <;> simp only [Label.worker?, reduceCtorEq] at hl <;> simp only [Label.privSimple, reduceCtorEq] at hsimple <;>
    simp only [step] at hs
  all_goals (repeat' split at hs)
  all_goals first | (cases hs; done) | skip
  all_goals (cases hs; exact h.same rfl (fun _ => WSame.refl _) rfl)

/-- The remaining main labels. `hT`/`hF`: facts from CtlInv at pc = init3 / pc = tell (non-exit states). -/
theorem PrivInv.mainOther {s s' : State} {l : Label} (h : PrivInv s) (hT : s.pc = .init3 → ∃ t, ThrIdle s t false)
    (hF : ∀ f n, s.pc = .tell f n → ∃ t, s.thr = some t ∧ (getW s t).inFilled ≤ f)
    (hl : l.worker? = none) (hsimple : l.privSimple = false) (hs : step s l = some s') : PrivInv s' := by
  cases l <;> simp only [Label.worker?, reduceCtorEq] at hl <;> simp only [Label.privSimple, reduceCtorEq] at hsimple <;>
    simp only [step] at hs
  case rowIter c =>
    have key : ∀ k w, PrivInv (rowIterate s k w) := by
      intro k w
      obtain ⟨core, _⟩ := rowIterate_core s k w
      -- workers after the read loop differ from the old ones in pu/woken only
      have hf : ∀ fuel, ∀ s0 : State, (readLoop fuel s0).1.workers.length = s0.workers.length ∧
          (∀ j, WSame (getW s0 j) (getW (readLoop fuel s0).1 j)) ∧ (readLoop fuel s0).1.blocks = s0.blocks := by
        intro fuel
        induction fuel with
        | zero => intro s0; exact ⟨rfl, fun _ => WSame.refl _, rfl⟩
        | succ fuel ih =>
          intro s0
          simp only [readLoop]
          have ew := outqRead_workers s0
          have eb : (outqRead s0).1.blocks = s0.blocks := by
            rw [outqRead_eq]; split
            · rfl
            · split <;> rfl
          have eg : ∀ j, getW (outqRead s0).1 j = getW s0 j := fun j => by simp [getW, ew]
          split
          · obtain ⟨f, _⟩ := enablePartialHead_spec (outqRead s0).1
            obtain ⟨a, b, c⟩ := ih (enablePartialHead (outqRead s0).1)
            refine ⟨by rw [a, f.wlen, ew], fun j => ?_, by rw [c, f.blocks, eb]⟩
            have := (f.wsame j).trans (b j)
            rw [eg] at this; exact this
          · exact ⟨by rw [ew], fun j => by rw [eg]; exact WSame.refl _, eb⟩
      obtain ⟨a, b, c⟩ := hf (s.queue.length + 1) s
      have eg : ∀ j, getW (rowIterate s k w) j = getW (readLoop (s.queue.length + 1) s).1 j := fun j => by simp [getW, core.workers]
      exact h.same (by rw [core.workers, a]) (fun j => by rw [eg]; exact b j) (by rw [core.blocks, c])
    split at hs
    · cases hs; exact key _ _
    · split at hs
      · cases hs; exact key _ _
      · cases hs
    · cases hs; exact key _ _
    · cases hs
  case enablePartial =>
    split at hs
    · cases hs
      obtain ⟨f, _⟩ := enablePartialHead_spec s
      exact h.same f.wlen f.wsame f.blocks
    · cases hs
  case stopOne =>
    split at hs
    case h_2 => cases hs
    split at hs
    · rename_i hi
      cases hs
      have hp := h _ hi
      exact h.setW _ _ rfl rfl (fun _ => hp)
    · cases hs; exact h.same rfl (fun _ => WSame.refl _) rfl
  case endSet =>
    split at hs
    case h_2 => cases hs
    split at hs
    · rename_i hi
      cases hs
      have hp := h _ hi
      exact h.setW _ _ rfl rfl (fun _ => hp)
    · cases hs; exact h.same rfl (fun _ => WSame.refl _) rfl
  case endJoin =>
    split at hs
    case h_2 => cases hs
    rename_i i k hpc
    split at hs
    · split at hs
      · cases hs; exact h.same rfl (fun _ => WSame.refl _) rfl
      · cases hs
    · cases k <;> (cases hs; intro j hj; simp at hj)
  case startThr =>
    split at hs
    case h_2 => cases hs
    rename_i t hpc hthr
    cases hs
    intro j hj
    simp only [setW_workers_length] at hj
    have : PrivInv (MtDec.setW s t (signalW { getW s t with st := .run })) :=
      h.setW t _ rfl rfl (fun ht => h t ht)
    exact this j (by simpa using hj)
  case getThread =>
    split at hs
    case isFalse => cases hs
    split at hs
    · cases hs; exact h.same rfl (fun _ => WSame.refl _) rfl
    · split at hs
      case isFalse => cases hs
      cases hs
      intro j hj
      have hj' : j < s.workers.length + 1 := by simpa using hj
      by_cases e : j < s.workers.length
      · have : getW { s with workers := s.workers ++ [{}], thr := some s.workers.length, pc := MPc.init3 } j = getW s j := by
          simp [getW, List.getD, List.getElem?_append_left e]
        rw [this]; exact h j e
      · have : j = s.workers.length := by omega
        subst this
        have : getW { s with workers := s.workers ++ [{}], thr := some s.workers.length, pc := MPc.init3 } s.workers.length = {} := by
          simp [getW, List.getD]
        rw [this]
        exact ⟨Nat.le_refl _, Nat.zero_le _, Nat.zero_le _, fun _ _ hp => by cases hp⟩
  case tell =>
    split at hs
    case h_2 => cases hs
    rename_i f n t hpc hthr
    cases hs
    obtain ⟨t', ht1, hlo⟩ := hF f n hpc
    have : t' = t := by rw [hthr] at ht1; injection ht1 with e; exact e.symm
    subst this
    have hset : PrivInv (MtDec.setW s t' (signalW { getW s t' with inFilled := f })) := by
      refine h.setW t' _ rfl rfl (fun ht => ?_)
      have hp := h t' ht
      refine ⟨Nat.le_trans hp.1 hlo, hp.2.1, hp.2.2.1, fun l p hp' => ?_⟩
      have := hp.2.2.2 l p hp'
      exact ⟨this.1, Nat.le_trans this.2 hlo⟩
    intro j hj
    exact hset j (by simpa using hj)
  case assign =>
    split at hs
    case h_2 => cases hs
    rename_i t hpc hthr
    cases hs
    obtain ⟨t', ht1, ht2, ht3, _⟩ := hT hpc
    have : t' = t := by rw [hthr] at ht1; injection ht1 with e; exact e.symm
    subst this
    have hset : PrivInv (MtDec.setW s t' { getW s t' with blk := s.cur, inAlloc := true, inSize := (blk s s.cur).inSize, hasOut := true, inFilled := 0, inPos := 0, outPos := 0, pu := .disabled }) := by
      refine h.setW t' _ rfl rfl (fun _ => ⟨Nat.le_refl _, Nat.zero_le _, Nat.zero_le _, fun l p hp' => ?_⟩)
      have hp'' : (getW s t').pc = .decode l p := hp'
      rw [hp''] at ht3; cases ht3
    intro j hj
    have := hset j (by simpa using hj)
    exact this

theorem PrivInv.reachable {cfg : Cfg} {blocks : List Block} (hwf : ∀ b ∈ blocks, b.WF) {s : State}
    (h : Reachable cfg blocks s) : PrivInv s := by
  induction h with
  | init => exact PrivInv.init cfg blocks
  | @step s s' l hr hs ih =>
    have g := GInv.reachable hwf hr
    cases hw : l.worker? with
    | some i => exact ih.worker (by simp [hw]) hs
    | none =>
      cases hsim : l.privSimple with
      | true => exact ih.mainSimple hw hsim hs
      | false =>
        -- at pc = init3 / tell no fatal value is on its way out, so the control invariant is available
        have hret : ∀ {p : MPc}, s.pc = p → (p = .init3 ∨ ∃ f n, p = .tell f n) → exitCode s = none := by
          intro p hp hq
          have hr' : s.returned = none := by
            cases hrr : s.returned with
            | none => rfl
            | some r =>
              exfalso
              rcases g.retPc r hrr with e | e | ⟨i, e | e⟩ <;>
                (rw [hp] at e; rcases hq with rfl | ⟨f, n, rfl⟩ <;> cases e)
          rcases hq with rfl | ⟨f, n, rfl⟩ <;> simp [exitCode, hr', hp]
        refine ih.mainOther ?_ ?_ hw hsim hs
        · intro hpc
          exact (g.inv (hret hpc (Or.inl rfl))).2.init3 hpc
        · intro f n hpc
          obtain ⟨_, t, ht, hlo, _⟩ := (g.inv (hret hpc (Or.inr ⟨f, n, rfl⟩))).2.tell f n hpc
          exact ⟨t, ht, hlo⟩

end XzVerif.MtDec
