import XzVerif.Lemmas.XzIoQ4Def

namespace XzVerif.XzIo
variable {α : Type}
set_option linter.unusedSimpArgs false

theorem q4_exec_readPoll {c : Cfg α} {de : Bool} {s : St α} (hf : c.o.force = false) (hpc : s.pc = .readPoll) (h : Q4 c de s) :
    Q4 c de (exec c s) := by
  obtain ⟨h1, h2, h3, h4, h5, h6⟩ := h
  have u1 : ∀ s : St α, (continueLoop c s).pc ≠ .unlinkForce := fun s e => by simpa [hf] using continueLoop_unlinkForce c s e
  have u2 : ∀ s : St α, (afterWrite c s).pc ≠ .unlinkForce := fun s e => by simpa [hf] using afterWrite_unlinkForce c s e
  have u3 := openDestErr_unlinkForce c
  unfold exec; simp only [hpc]
  repeat' split
  all_goals
    refine ⟨?_, ?_, ?_, ?_, ?_, ?_⟩ <;>
    simp_all [emit, msgWarn, msgError, FS.unlinkDstName, FS.unlinkSrcName, FS.unlinkIno, inoOwn, inoPre, inoSrc]
theorem q4_exec_write {c : Cfg α} {de : Bool} {s : St α} (hf : c.o.force = false) (hpc : s.pc = .write) (h : Q4 c de s) :
    Q4 c de (exec c s) := by
  obtain ⟨h1, h2, h3, h4, h5, h6⟩ := h
  have u1 : ∀ s : St α, (continueLoop c s).pc ≠ .unlinkForce := fun s e => by simpa [hf] using continueLoop_unlinkForce c s e
  have u2 : ∀ s : St α, (afterWrite c s).pc ≠ .unlinkForce := fun s e => by simpa [hf] using afterWrite_unlinkForce c s e
  have u3 := openDestErr_unlinkForce c
  unfold exec; simp only [hpc]
  repeat' split
  all_goals
    refine ⟨?_, ?_, ?_, ?_, ?_, ?_⟩ <;>
    simp_all [emit, msgWarn, msgError, FS.unlinkDstName, FS.unlinkSrcName, FS.unlinkIno, inoOwn, inoPre, inoSrc]
theorem q4_exec_writePoll {c : Cfg α} {de : Bool} {s : St α} (hf : c.o.force = false) (hpc : s.pc = .writePoll) (h : Q4 c de s) :
    Q4 c de (exec c s) := by
  obtain ⟨h1, h2, h3, h4, h5, h6⟩ := h
  have u1 : ∀ s : St α, (continueLoop c s).pc ≠ .unlinkForce := fun s e => by simpa [hf] using continueLoop_unlinkForce c s e
  have u2 : ∀ s : St α, (afterWrite c s).pc ≠ .unlinkForce := fun s e => by simpa [hf] using afterWrite_unlinkForce c s e
  have u3 := openDestErr_unlinkForce c
  unfold exec; simp only [hpc]
  repeat' split
  all_goals
    refine ⟨?_, ?_, ?_, ?_, ?_, ?_⟩ <;>
    simp_all [emit, msgWarn, msgError, FS.unlinkDstName, FS.unlinkSrcName, FS.unlinkIno, inoOwn, inoPre, inoSrc]
theorem q4_exec_seekHole {c : Cfg α} {de : Bool} {s : St α} (hf : c.o.force = false) (hpc : s.pc = .seekHole) (h : Q4 c de s) :
    Q4 c de (exec c s) := by
  obtain ⟨h1, h2, h3, h4, h5, h6⟩ := h
  have u1 : ∀ s : St α, (continueLoop c s).pc ≠ .unlinkForce := fun s e => by simpa [hf] using continueLoop_unlinkForce c s e
  have u2 : ∀ s : St α, (afterWrite c s).pc ≠ .unlinkForce := fun s e => by simpa [hf] using afterWrite_unlinkForce c s e
  have u3 := openDestErr_unlinkForce c
  unfold exec; simp only [hpc]
  repeat' split
  all_goals
    refine ⟨?_, ?_, ?_, ?_, ?_, ?_⟩ <;>
    simp_all [emit, msgWarn, msgError, FS.unlinkDstName, FS.unlinkSrcName, FS.unlinkIno, inoOwn, inoPre, inoSrc]
theorem q4_exec_fixPos {c : Cfg α} {de : Bool} {s : St α} (hf : c.o.force = false) (hpc : s.pc = .fixPos) (h : Q4 c de s) :
    Q4 c de (exec c s) := by
  obtain ⟨h1, h2, h3, h4, h5, h6⟩ := h
  have u1 : ∀ s : St α, (continueLoop c s).pc ≠ .unlinkForce := fun s e => by simpa [hf] using continueLoop_unlinkForce c s e
  have u2 : ∀ s : St α, (afterWrite c s).pc ≠ .unlinkForce := fun s e => by simpa [hf] using afterWrite_unlinkForce c s e
  have u3 := openDestErr_unlinkForce c
  unfold exec; simp only [hpc]
  repeat' split
  all_goals
    refine ⟨?_, ?_, ?_, ?_, ?_, ?_⟩ <;>
    simp_all [emit, msgWarn, msgError, FS.unlinkDstName, FS.unlinkSrcName, FS.unlinkIno, inoOwn, inoPre, inoSrc]
theorem q4_exec_tailSeek {c : Cfg α} {de : Bool} {s : St α} (hf : c.o.force = false) (hpc : s.pc = .tailSeek) (h : Q4 c de s) :
    Q4 c de (exec c s) := by
  obtain ⟨h1, h2, h3, h4, h5, h6⟩ := h
  have u1 : ∀ s : St α, (continueLoop c s).pc ≠ .unlinkForce := fun s e => by simpa [hf] using continueLoop_unlinkForce c s e
  have u2 : ∀ s : St α, (afterWrite c s).pc ≠ .unlinkForce := fun s e => by simpa [hf] using afterWrite_unlinkForce c s e
  have u3 := openDestErr_unlinkForce c
  unfold exec; simp only [hpc]
  repeat' split
  all_goals
    refine ⟨?_, ?_, ?_, ?_, ?_, ?_⟩ <;>
    simp_all [emit, msgWarn, msgError, FS.unlinkDstName, FS.unlinkSrcName, FS.unlinkIno, inoOwn, inoPre, inoSrc]
theorem q4_exec_fchownUid {c : Cfg α} {de : Bool} {s : St α} (hf : c.o.force = false) (hpc : s.pc = .fchownUid) (h : Q4 c de s) :
    Q4 c de (exec c s) := by
  obtain ⟨h1, h2, h3, h4, h5, h6⟩ := h
  have u1 : ∀ s : St α, (continueLoop c s).pc ≠ .unlinkForce := fun s e => by simpa [hf] using continueLoop_unlinkForce c s e
  have u2 : ∀ s : St α, (afterWrite c s).pc ≠ .unlinkForce := fun s e => by simpa [hf] using afterWrite_unlinkForce c s e
  have u3 := openDestErr_unlinkForce c
  unfold exec; simp only [hpc]
  repeat' split
  all_goals
    refine ⟨?_, ?_, ?_, ?_, ?_, ?_⟩ <;>
    simp_all [emit, msgWarn, msgError, FS.unlinkDstName, FS.unlinkSrcName, FS.unlinkIno, inoOwn, inoPre, inoSrc]
theorem q4_exec_fchownGid {c : Cfg α} {de : Bool} {s : St α} (hf : c.o.force = false) (hpc : s.pc = .fchownGid) (h : Q4 c de s) :
    Q4 c de (exec c s) := by
  obtain ⟨h1, h2, h3, h4, h5, h6⟩ := h
  have u1 : ∀ s : St α, (continueLoop c s).pc ≠ .unlinkForce := fun s e => by simpa [hf] using continueLoop_unlinkForce c s e
  have u2 : ∀ s : St α, (afterWrite c s).pc ≠ .unlinkForce := fun s e => by simpa [hf] using afterWrite_unlinkForce c s e
  have u3 := openDestErr_unlinkForce c
  unfold exec; simp only [hpc]
  repeat' split
  all_goals
    refine ⟨?_, ?_, ?_, ?_, ?_, ?_⟩ <;>
    simp_all [emit, msgWarn, msgError, FS.unlinkDstName, FS.unlinkSrcName, FS.unlinkIno, inoOwn, inoPre, inoSrc]
theorem q4_exec_fchmod {c : Cfg α} {de : Bool} {s : St α} (hf : c.o.force = false) (hpc : s.pc = .fchmod) (h : Q4 c de s) :
    Q4 c de (exec c s) := by
  obtain ⟨h1, h2, h3, h4, h5, h6⟩ := h
  have u1 : ∀ s : St α, (continueLoop c s).pc ≠ .unlinkForce := fun s e => by simpa [hf] using continueLoop_unlinkForce c s e
  have u2 : ∀ s : St α, (afterWrite c s).pc ≠ .unlinkForce := fun s e => by simpa [hf] using afterWrite_unlinkForce c s e
  have u3 := openDestErr_unlinkForce c
  unfold exec; simp only [hpc]
  repeat' split
  all_goals
    refine ⟨?_, ?_, ?_, ?_, ?_, ?_⟩ <;>
    simp_all [emit, msgWarn, msgError, FS.unlinkDstName, FS.unlinkSrcName, FS.unlinkIno, inoOwn, inoPre, inoSrc]
theorem q4_exec_futimens {c : Cfg α} {de : Bool} {s : St α} (hf : c.o.force = false) (hpc : s.pc = .futimens) (h : Q4 c de s) :
    Q4 c de (exec c s) := by
  obtain ⟨h1, h2, h3, h4, h5, h6⟩ := h
  have u1 : ∀ s : St α, (continueLoop c s).pc ≠ .unlinkForce := fun s e => by simpa [hf] using continueLoop_unlinkForce c s e
  have u2 : ∀ s : St α, (afterWrite c s).pc ≠ .unlinkForce := fun s e => by simpa [hf] using afterWrite_unlinkForce c s e
  have u3 := openDestErr_unlinkForce c
  unfold exec; simp only [hpc]
  repeat' split
  all_goals
    refine ⟨?_, ?_, ?_, ?_, ?_, ?_⟩ <;>
    simp_all [emit, msgWarn, msgError, FS.unlinkDstName, FS.unlinkSrcName, FS.unlinkIno, inoOwn, inoPre, inoSrc]

end XzVerif.XzIo
