/-
  Quantifier-free facts about the x86 BCJ filter (mask shifting, the inner loop), discharged by `bv_decide`.
  Namespace `XzVerif.BitWords` (see Lemmas/BitWordsBcj.lean for the policy).
-/
import Std.Tactic.BVDecide
import XzVerif.Model.BcjX86
namespace XzVerif.BitWords
open XzVerif.Bcj

/-- one iteration of `prev_mask &= 0x77; prev_mask <<= 1` -/
def shift1 (m : BitVec 32) : BitVec 32 := (m &&& 0x77#32) <<< 1

theorem idx_of_2 : maskToBitNumber.getD (2#32 >>> 1).toNat 0 = 1 := by decide
theorem idx_of_4 : maskToBitNumber.getD (4#32 >>> 1).toNat 0 = 2 := by decide
theorem idx_of_8 : maskToBitNumber.getD (8#32 >>> 1).toNat 0 = 3 := by decide

/-- four shifts clear any mask (so `offset == 5` and `offset > 5` are equivalent) -/
theorem shift1_4 (m : BitVec 32) : shift1 (shift1 (shift1 (shift1 m))) = 0#32 := by
  unfold shift1; bv_decide

/-- a convertible candidate has `prev_mask ∈ {0,2,4,8}` provided bit 0 is clear (it is after any shift) -/
theorem convertible_mask (m : BitVec 32) (h0 : m &&& 1#32 = 0#32) (h : (m >>> 1) ≤ 4#32 ∧ (m >>> 1) ≠ 3#32) :
    m = 0#32 ∨ m = 2#32 ∨ m = 4#32 ∨ m = 8#32 := by
  bv_decide

theorem shift1_bits (m : BitVec 32) :
    (shift1 m).getLsbD 0 = false ∧ (shift1 m).getLsbD 1 = m.getLsbD 0 ∧ (shift1 m).getLsbD 2 = m.getLsbD 1
    ∧ (shift1 m).getLsbD 3 = m.getLsbD 2 ∧ (shift1 m).getLsbD 4 = false ∧ (shift1 m).getLsbD 5 = m.getLsbD 4
    ∧ (shift1 m).getLsbD 6 = m.getLsbD 5 ∧ (shift1 m).getLsbD 7 = m.getLsbD 6 := by
  unfold shift1; bv_decide

theorem or_bits (m : BitVec 32) :
    (m ||| 1#32).getLsbD 0 = true ∧ (m ||| 1#32 ||| 0x10#32).getLsbD 0 = true
    ∧ (m ||| 1#32).getLsbD 4 = m.getLsbD 4 ∧ (m ||| 1#32 ||| 0x10#32).getLsbD 4 = true
    ∧ (m ||| 1#32).getLsbD 1 = m.getLsbD 1 ∧ (m ||| 1#32 ||| 0x10#32).getLsbD 1 = m.getLsbD 1
    ∧ (m ||| 1#32).getLsbD 2 = m.getLsbD 2 ∧ (m ||| 1#32 ||| 0x10#32).getLsbD 2 = m.getLsbD 2
    ∧ (m ||| 1#32).getLsbD 5 = m.getLsbD 5 ∧ (m ||| 1#32 ||| 0x10#32).getLsbD 5 = m.getLsbD 5
    ∧ (m ||| 1#32).getLsbD 6 = m.getLsbD 6 ∧ (m ||| 1#32 ||| 0x10#32).getLsbD 6 = m.getLsbD 6 := by
  bv_decide

theorem bit0_and (m : BitVec 32) (h : m.getLsbD 0 = false) : m &&& 1#32 = 0#32 := by bv_decide

theorem sub_succ (pc pp : BitVec 32) : pc + 1#32 - pp = (pc - pp) + 1#32 := by bv_decide
theorem add1_sub (pc : BitVec 32) : pc + 1#32 - pc = 1#32 := by bv_decide
theorem add5_sub (pc : BitVec 32) : pc + 5#32 - pc = 5#32 := by bv_decide
theorem add_sub_comm (a b c : BitVec 32) : a + b - c = (a - c) + b := by bv_decide
theorem add_sub_sub5 (a b : BitVec 32) : a + b - (a - 5#32) = 5#32 + b := by bv_decide
theorem sub_sub5 (pc : BitVec 32) : pc - (pc - 5#32) = 5#32 := by bv_decide

/-- The conversion of one operand: the decoder gives back the original bytes, the stored byte 4 is 00/FF again, and the byte
    that an earlier rejected candidate looked at (non-MS by the mask invariant) is still non-MS after the conversion. -/
theorem x86_conv_dec_enc (pc5 mask : BitVec 32) (b1 b2 b3 b4 : UInt8)
    (hm : mask = 0#32 ∨ mask = 2#32 ∨ mask = 4#32 ∨ mask = 8#32) (h4 : test86 b4 = true)
    (h3 : mask = 2#32 → test86 b3 = false) (h2 : mask = 4#32 → test86 b2 = false) (h1 : mask = 8#32 → test86 b1 = false) :
    x86Conv false pc5 mask (x86Conv true pc5 mask b1 b2 b3 b4).1 (x86Conv true pc5 mask b1 b2 b3 b4).2.1
        (x86Conv true pc5 mask b1 b2 b3 b4).2.2.1 (x86Conv true pc5 mask b1 b2 b3 b4).2.2.2 = (b1, b2, b3, b4)
    ∧ test86 (x86Conv true pc5 mask b1 b2 b3 b4).2.2.2 = true
    ∧ (mask = 2#32 → test86 (x86Conv true pc5 mask b1 b2 b3 b4).2.2.1 = false)
    ∧ (mask = 4#32 → test86 (x86Conv true pc5 mask b1 b2 b3 b4).2.1 = false)
    ∧ (mask = 8#32 → test86 (x86Conv true pc5 mask b1 b2 b3 b4).1 = false) := by
  rcases hm with rfl | rfl | rfl | rfl
  · simp only [x86Conv, x86Loop, x86Fuel, x86Store, x86Src, test86, u32, u8, Prod.mk.injEq, if_true] at *
    bv_decide
  · have h3 := h3 rfl
    simp only [x86Conv, x86Loop, x86Fuel, idx_of_2, x86Store, x86Src, test86, u32, u8, Prod.mk.injEq] at *
    bv_decide
  · have h2 := h2 rfl
    simp only [x86Conv, x86Loop, x86Fuel, idx_of_4, x86Store, x86Src, test86, u32, u8, Prod.mk.injEq] at *
    bv_decide
  · have h1 := h1 rfl
    simp only [x86Conv, x86Loop, x86Fuel, idx_of_8, x86Store, x86Src, test86, u32, u8, Prod.mk.injEq] at *
    bv_decide

/-- Inner-loop termination: if the byte the loop inspects is non-MS in `src` (mask invariant), the second iteration always
    breaks; more fuel does not change the result. Low `L = 32 - 8i` bits: `dest2 = ~src`, so the inspected byte of `dest2` is the
    complement of a non-MS byte. -/
theorem x86_loop_two (e : Bool) (pc5 mask src : BitVec 32) (fuel : Nat)
    (hm : mask = 0#32 ∨ mask = 2#32 ∨ mask = 4#32 ∨ mask = 8#32)
    (h3 : mask = 2#32 → test86 (u8 (src >>> 16)) = false) (h2 : mask = 4#32 → test86 (u8 (src >>> 8)) = false)
    (h1 : mask = 8#32 → test86 (u8 src) = false) :
    x86Loop e pc5 mask (fuel + 2) src = x86Loop e pc5 mask 2 src := by
  rcases hm with rfl | rfl | rfl | rfl
  · simp [x86Loop]
  · have h3 := h3 rfl
    cases fuel with
    | zero => rfl
    | succ f =>
      cases e <;>
      · simp only [x86Loop, idx_of_2, test86, u8, if_true, if_false, Bool.false_eq_true] at *
        bv_decide
  · have h2 := h2 rfl
    cases fuel with
    | zero => rfl
    | succ f =>
      cases e <;>
      · simp only [x86Loop, idx_of_4, test86, u8, if_true, if_false, Bool.false_eq_true] at *
        bv_decide
  · have h1 := h1 rfl
    cases fuel with
    | zero => rfl
    | succ f =>
      cases e <;>
      · simp only [x86Loop, idx_of_8, test86, u8, if_true, if_false, Bool.false_eq_true] at *
        bv_decide

end XzVerif.BitWords
