/-
  C16 helper material: the declarative specifications the property theorems are stated against
  (`ValidLzmaAlone`, `ValidMemberAt`, `TailOk`, `ValidFrom`, `PickyPass`, `Causal` …) and the lemmas behind them.
  The property theorems themselves are in Props/C16.lean.
-/
import XzVerif.Model.Alone
import XzVerif.Model.Lzip
import XzVerif.Model.XzConcat
import XzVerif.Model.Auto
import XzVerif.Lemmas.BitWordsC16

namespace XzVerif.C16L

/-! ### .lzma -/
section
open XzVerif XzVerif.Alone

/-- Declarative validity of a .lzma file (doc/lzma-file-format.txt + the XZ Utils additions), relative to the payload decoder's
    verdict: 13-byte header = properties byte, 32-bit LE dictionary size, 64-bit LE uncompressed size (all ones = unknown);
    then an LZMA1 stream that the payload decoder (initialised with those values, end marker allowed) ends after `n - 13` bytes
    with output `out`. `picky` adds the plausibility test used by auto-detection. -/
def ValidLzmaAlone (P : Payload) (cfg : Cfg) (inp out : List UInt8) (n : Nat) : Prop :=
  ∃ lc lp pb,
    13 ≤ inp.length ∧
    lclppbDecode (inp.headD 0).toNat = some (lc, lp, pb) ∧
    (cfg.picky = true → pickyDictOk (leNat ((inp.drop 1).take 4)) = true ∧ pickySizeOk (leNat ((inp.drop 5).take 8)) = true) ∧
    cfg.memK + leNat ((inp.drop 1).take 4) ≤ effMemlimit cfg.memlimit ∧
    P (aloneOpts lc lp pb (leNat ((inp.drop 1).take 4)) (leNat ((inp.drop 5).take 8))) (inp.drop 13)
      = { ret := .streamEnd, out := out, consumed := n - 13 } ∧
    13 ≤ n

end

/-! ### the picky dictionary-size test -/
section
open XzVerif XzVerif.Alone

/-- the dictionary sizes the picky test accepts besides UINT32_MAX, as a formula -/
def pickyFixedNat : List Nat :=
  0 :: ((List.range 32).map fun n => 2 ^ n) ++ ((List.range 31).map fun n => 2 ^ (n + 1) + 2 ^ n)

theorem pickyFixedLit_eq : BitWords.pickyFixedLit.map BitVec.toNat = pickyFixedNat := by decide

theorem pickyDictOk_iff (ds : Nat) (h : ds < 2 ^ 32) :
    pickyDictOk ds = true ↔ ds = UINT32_MAX ∨ ds ∈ pickyFixedNat := by
  unfold pickyDictOk
  have e : ((pickyRoundBV (BitVec.ofNat 32 ds)).toNat == ds) = (pickyRoundBV (BitVec.ofNat 32 ds) == BitVec.ofNat 32 ds) := by
    rw [Bool.eq_iff_iff]
    simp only [beq_iff_eq]
    constructor
    · intro h1
      apply BitVec.eq_of_toNat_eq
      simp [h1, Nat.mod_eq_of_lt h]
    · intro h1
      rw [h1]; simp [Nat.mod_eq_of_lt h]
  rw [e, BitWords.picky_round_fixed, ← pickyFixedLit_eq]
  simp only [Bool.or_eq_true, beq_iff_eq, List.any_eq_true, List.mem_map]
  constructor
  · rintro (h1 | ⟨c, hc, h2⟩)
    · exact Or.inl h1
    · exact Or.inr ⟨c, hc, by rw [← h2]; simp [Nat.mod_eq_of_lt h]⟩
  · rintro (h1 | ⟨c, hc, h2⟩)
    · exact Or.inl h1
    · refine Or.inr ⟨c, hc, ?_⟩
      apply BitVec.eq_of_toNat_eq
      simp [h2, Nat.mod_eq_of_lt h]

end

/-! ### .lz: one member -/
section
open XzVerif XzVerif.Alone XzVerif.Lzip

theorem idString_matched_gen (ms t r : List UInt8) (k : Nat) :
    idString ms t k = .matched r ↔ t = ms ++ r := by
  induction ms generalizing t k with
  | nil => simp [idString, eq_comm]
  | cons m ms ih =>
    cases t with
    | nil => simp [idString]
    | cons b bs =>
      by_cases hb : b = m
      · simp [idString, hb, ih]
      · simp [idString, hb]

theorem idString_exhausted_gen (ms t : List UInt8) (k n : Nat) :
    idString ms t k = .exhausted n ↔ t.length < ms.length ∧ t = ms.take t.length ∧ n = k + t.length := by
  induction ms generalizing t k with
  | nil => simp [idString]
  | cons m ms ih =>
    cases t with
    | nil => simp [idString, eq_comm]
    | cons b bs =>
      by_cases hb : b = m
      · simp [idString, hb, ih]; omega
      · simp [idString, hb]

theorem idString_mismatch_gen (ms t : List UInt8) (k n : Nat) :
    idString ms t k = .mismatch n ↔
      ∃ j, n = k + j ∧ j < ms.length ∧ j < t.length ∧ t.take j = ms.take j ∧ t[j]? ≠ ms[j]? := by
  induction ms generalizing t k with
  | nil => simp [idString]
  | cons m ms ih =>
    cases t with
    | nil => simp [idString]
    | cons b bs =>
      by_cases hb : b = m
      · simp only [idString, hb, if_true, ih]
        constructor
        · rintro ⟨j, h1, h2, h3, h4, h5⟩
          exact ⟨j + 1, by omega, by simp; omega, by simp; omega, by simp [h4], by simpa using h5⟩
        · rintro ⟨j, h1, h2, h3, h4, h5⟩
          cases j with
          | zero => simp at h5
          | succ j =>
            refine ⟨j, by omega, by simp at h2; omega, by simp at h3; omega, ?_, by simpa using h5⟩
            simpa using h4
      · simp only [idString, hb, if_false]
        constructor
        · intro h
          cases h
          exact ⟨0, by omega, by simp, by simp, by simp, by simp [hb]⟩
        · rintro ⟨j, h1, h2, h3, h4, h5⟩
          cases j with
          | zero => simp at h1; rw [h1]
          | succ j => simp at h4; exact absurd h4.1 hb

def tellEv (cfg : Lzip.Cfg) : List Ret := if cfg.tellAnyCheck then [.getCheck] else []

/-- The footer after a payload that ended with verdict `r` is valid. -/
def FooterOk (cfg : Lzip.Cfg) (v : Nat) (r : PRes) (r3 : List UInt8) : Prop :=
  footerSize v ≤ r3.length ∧
  (cfg.ignoreCheck = false → crc32 r.out = leNat (r3.take 4)) ∧
  r.out.length = leNat ((r3.drop 4).take 8) ∧
  (v > 0 → 6 + r.consumed + footerSize v = leNat ((r3.drop 12).take 8))

theorem memberFooter_cases (cfg : Lzip.Cfg) (ev : List Ret) (v : Nat) (r : PRes) (r3 : List UInt8) (L : Nat) :
    (FooterOk cfg v r r3 ∧
      memberFooter cfg ev v r r3 L =
        if cfg.concatenated then .next r.out (6 + r.consumed + footerSize v) ev
        else .done { ret := .streamEnd, out := r.out, consumed := 6 + r.consumed + footerSize v, events := ev })
    ∨ (¬ FooterOk cfg v r r3 ∧ ∃ d, memberFooter cfg ev v r r3 L = .done d ∧ d.ret ≠ .streamEnd) := by
  unfold memberFooter FooterOk
  simp only []
  by_cases h1 : r3.length < footerSize v
  · right
    simp only [h1, if_true]
    exact ⟨by omega, _, rfl, by simp⟩
  · simp only [h1, if_false]
    by_cases h2 : (!cfg.ignoreCheck && crc32 r.out != leNat (r3.take 4)) = true
    · right
      simp only [h2, if_true]
      refine ⟨?_, _, rfl, by simp⟩
      simp only [Bool.and_eq_true, Bool.not_eq_true', bne_iff_ne, ne_eq] at h2
      intro h; exact h2.2 (h.2.1 h2.1)
    · simp only [h2, Bool.false_eq_true, if_false]
      by_cases h3 : (r.out.length != leNat ((r3.drop 4).take 8)) = true
      · right
        simp only [h3, if_true]
        refine ⟨?_, _, rfl, by simp⟩
        simp only [bne_iff_ne, ne_eq] at h3
        intro h; exact h3 h.2.2.1
      · simp only [h3, Bool.false_eq_true, if_false]
        by_cases h4 : (decide (v > 0) && 6 + r.consumed + footerSize v != leNat ((r3.drop 12).take 8)) = true
        · right
          simp only [h4, if_true]
          refine ⟨?_, _, rfl, by simp⟩
          simp only [Bool.and_eq_true, decide_eq_true_eq, bne_iff_ne, ne_eq] at h4
          intro h; exact h4.2 (h.2.2.2 h4.1)
        · left
          simp only [h4, Bool.false_eq_true, if_false]
          refine ⟨⟨by omega, ?_, ?_, ?_⟩, ?_⟩
          · intro hi
            simp only [hi, Bool.not_false, Bool.true_and, bne_iff_ne, ne_eq, Decidable.not_not] at h2
            simpa using h2
          · simpa using h3
          · intro hv
            simp only [hv, decide_true, Bool.true_and] at h4
            simpa using h4
          · cases cfg.concatenated <;> simp

/-- What a valid member yields: `.next` under LZMA_CONCATENATED, a final LZMA_STREAM_END otherwise. -/
def accepted (cfg : Lzip.Cfg) (out : List UInt8) (n : Nat) : MRes :=
  if cfg.concatenated then .next out n (tellEv cfg)
  else .done { ret := .streamEnd, out := out, consumed := n, events := tellEv cfg }

/-- `.done` with a code other than LZMA_STREAM_END -/
def Rejected (m : MRes) : Prop := ∃ d, m = .done d ∧ d.ret ≠ .streamEnd

def BodyOk (P : Payload) (cfg : Lzip.Cfg) (v : Nat) (c : UInt8) (r2 : List UInt8) (out : List UInt8) (n : Nat) : Prop :=
  ∃ ds, dictSizeOfCode c.toNat = some ds ∧ cfg.memK + ds ≤ effMemlimit cfg.memlimit ∧
    (P (lzipOpts ds) r2).ret = .streamEnd ∧ (P (lzipOpts ds) r2).out = out ∧
    FooterOk cfg v (P (lzipOpts ds) r2) (r2.drop (P (lzipOpts ds) r2).consumed) ∧
    n = 6 + (P (lzipOpts ds) r2).consumed + footerSize v

theorem memberBody_cases (P : Payload) (cfg : Lzip.Cfg) (v : Nat) (c : UInt8) (r2 : List UInt8) (L : Nat) :
    (∃ out n, BodyOk P cfg v c r2 out n ∧ memberBody P cfg (tellEv cfg) v c r2 L = accepted cfg out n)
    ∨ ((∀ out n, ¬ BodyOk P cfg v c r2 out n) ∧ Rejected (memberBody P cfg (tellEv cfg) v c r2 L)) := by
  unfold memberBody BodyOk Rejected
  cases hd : dictSizeOfCode c.toNat with
  | none => right; simp
  | some ds =>
    simp only []
    by_cases hm : cfg.memK + ds > effMemlimit cfg.memlimit
    · right
      simp only [hm, if_true]
      refine ⟨?_, _, rfl, by simp⟩
      rintro out n ⟨ds', h1, h2, _⟩
      cases h1; omega
    · simp only [hm, if_false]
      by_cases hr : (P (lzipOpts ds) r2).ret = .streamEnd
      · simp only [hr, ne_eq, not_true_eq_false, if_false]
        rcases memberFooter_cases cfg (tellEv cfg) v (P (lzipOpts ds) r2) (r2.drop (P (lzipOpts ds) r2).consumed) L with ⟨hf, he⟩ | ⟨hf, he⟩
        · left
          refine ⟨_, _, ⟨ds, rfl, by omega, hr, rfl, hf, rfl⟩, ?_⟩
          rw [he]; rfl
        · right
          refine ⟨?_, he⟩
          rintro out n ⟨ds', h1, _, _, _, h5, _⟩
          cases h1; exact hf h5
      · right
        simp only [hr, ne_eq, not_false_eq_true, if_true]
        refine ⟨?_, _, rfl, hr⟩
        rintro out n ⟨ds', h1, _, h3, _⟩
        cases h1; exact hr h3

/-- Declarative validity of one .lz member at the front of `inp`, relative to the payload decoder's verdict:
    "LZIP", version 0 or 1, a legal dictionary size byte, memory limit respected, an LZMA1 stream (lc3/lp0/pb2, end marker)
    that the payload decoder ends after `c` bytes with output `out`, then the footer: CRC32 of the output (unless
    LZMA_IGNORE_CHECK), data size, and for version 1 the member size; `n` = member size. -/
def ValidMemberAt (P : Payload) (cfg : Lzip.Cfg) (inp out : List UInt8) (n : Nat) : Prop :=
  ∃ v c r2, inp = magic ++ v :: c :: r2 ∧ v.toNat ≤ 1 ∧ BodyOk P cfg v.toNat c r2 out n

theorem memberHeader_cases (P : Payload) (cfg : Lzip.Cfg) (r0 : List UInt8) (L : Nat) :
    (∃ out n, ValidMemberAt P cfg (magic ++ r0) out n ∧ memberHeader P cfg r0 L = accepted cfg out n)
    ∨ ((∀ out n, ¬ ValidMemberAt P cfg (magic ++ r0) out n) ∧ Rejected (memberHeader P cfg r0 L)) := by
  unfold memberHeader ValidMemberAt
  match r0 with
  | [] => right; simp [Rejected, needMore]
  | [v] =>
    right
    by_cases hv : v.toNat > 1 <;> simp [hv, Rejected, fail]
  | v :: c :: r2 =>
    by_cases hv : v.toNat > 1
    · right
      simp only [hv, if_true]
      refine ⟨?_, _, rfl, by simp [fail]⟩
      rintro out n ⟨v', c', r2', h1, h2, _⟩
      simp only [List.append_cancel_left_eq, List.cons.injEq] at h1
      obtain ⟨rfl, rfl, rfl⟩ := h1
      omega
    · simp only [hv, if_false]
      rcases memberBody_cases P cfg v.toNat c r2 L with ⟨out, n, hb, he⟩ | ⟨hb, he⟩
      · left
        exact ⟨out, n, ⟨v, c, r2, rfl, by omega, hb⟩, he⟩
      · right
        refine ⟨?_, he⟩
        rintro out n ⟨v', c', r2', h1, h2, h3⟩
        simp only [List.append_cancel_left_eq, List.cons.injEq] at h1
        obtain ⟨rfl, rfl, rfl⟩ := h1
        exact hb out n h3

/-- Trailing-data rule (only after at least one member, only under LZMA_CONCATENATED): `j` bytes of the tail `t` are consumed.
    Either the input ends inside (or right before) the magic and the action is LZMA_FINISH - the 0-3 bytes read are discarded -
    or `j ≤ 3` bytes match the magic and byte `j` differs: that byte and everything after it is left unread. -/
def TailOk (cfg : Lzip.Cfg) (t : List UInt8) (j : Nat) : Prop :=
  (cfg.finish = true ∧ t.length < 4 ∧ t = magic.take t.length ∧ j = t.length)
  ∨ (j < 4 ∧ j < t.length ∧ t.take j = magic.take j ∧ t[j]? ≠ magic[j]?)

theorem magic_length : magic.length = 4 := rfl

/-- which `idString` outcome a tail satisfying `TailOk` produces -/
theorem tailOk_idString (cfg : Lzip.Cfg) (t : List UInt8) (j : Nat) (h : TailOk cfg t j) :
    (idString magic t 0 = .exhausted j ∧ cfg.finish = true) ∨ idString magic t 0 = .mismatch j := by
  rcases h with ht | ht
  · exact Or.inl ⟨(idString_exhausted_gen magic t 0 j).2 ⟨by simpa [magic_length] using ht.2.1, ht.2.2.1, by simpa using ht.2.2.2⟩, ht.1⟩
  · exact Or.inr ((idString_mismatch_gen magic t 0 j).2 ⟨j, by simp, by simpa [magic_length] using ht.1, ht.2.1, ht.2.2.1, ht.2.2.2⟩)

theorem lzipMember_cases (P : Payload) (cfg : Lzip.Cfg) (first : Bool) (inp : List UInt8) :
    (∃ out n, ValidMemberAt P cfg inp out n ∧ lzipMember P cfg first inp = accepted cfg out n)
    ∨ ((∀ out n, ¬ ValidMemberAt P cfg inp out n) ∧
        ∃ d, lzipMember P cfg first inp = .done d ∧
          (d.ret = .streamEnd → first = false ∧ TailOk cfg inp d.consumed ∧ d.out = [] ∧ d.events = []) ∧
          (∀ j, first = false → TailOk cfg inp j → d.ret = .streamEnd ∧ d.consumed = j)) := by
  unfold lzipMember
  cases hid : idString magic inp 0 with
  | matched r0 =>
    simp only []
    have hinp := (idString_matched_gen magic inp r0 0).1 hid
    subst hinp
    rcases memberHeader_cases P cfg r0 (magic ++ r0).length with h | ⟨hn, d, hd, hr⟩
    · exact Or.inl h
    · right
      refine ⟨hn, d, hd, fun h => absurd h hr, ?_⟩
      intro j _ ht
      rcases tailOk_idString cfg _ j ht with h | h <;> rw [hid] at h
      · cases h.1
      · cases h
  | exhausted n =>
    right
    simp only []
    have hex := (idString_exhausted_gen magic inp 0 n).1 hid
    refine ⟨?_, _, rfl, ?_, ?_⟩
    · rintro out m ⟨v, c, r2, h1, _⟩
      have := (idString_matched_gen magic inp (v :: c :: r2) 0).2 h1
      rw [hid] at this; cases this
    · intro h
      simp only [] at h
      cases first <;> cases hf : cfg.finish <;> simp [hf] at h
      exact ⟨rfl, Or.inl ⟨hf, by simpa [magic_length] using hex.1, hex.2.1, by simpa using hex.2.2⟩, rfl, rfl⟩
    · intro j hfirst ht
      subst hfirst
      rcases tailOk_idString cfg _ j ht with h | h <;> rw [hid] at h
      · obtain ⟨h1, h2⟩ := h
        cases h1
        simp [h2]
      · cases h
  | mismatch n =>
    right
    simp only []
    obtain ⟨j, hj0, hj1, hj2, hj3, hj4⟩ := (idString_mismatch_gen magic inp 0 n).1 hid
    have hjn : j = n := by omega
    subst hjn
    refine ⟨?_, _, rfl, ?_, ?_⟩
    · rintro out m ⟨v, c, r2, h1, _⟩
      have := (idString_matched_gen magic inp (v :: c :: r2) 0).2 h1
      rw [hid] at this; cases this
    · intro h
      simp only [] at h
      cases first <;> simp at h
      exact ⟨rfl, Or.inr ⟨by simpa [magic_length] using hj1, hj2, hj3, hj4⟩, rfl, rfl⟩
    · intro j' hfirst ht
      subst hfirst
      rcases tailOk_idString cfg _ j' ht with h | h <;> rw [hid] at h
      · cases h.1
      · cases h; simp

theorem validMember_bounds {P : Payload} {cfg : Lzip.Cfg} {inp out : List UInt8} {n : Nat}
    (h : ValidMemberAt P cfg inp out n) : 18 ≤ n ∧ n ≤ inp.length := by
  obtain ⟨v, c, r2, rfl, hv, ds, _, _, _, _, hf, rfl⟩ := h
  obtain ⟨hf1, _⟩ := hf
  simp only [List.length_drop] at hf1
  have : 12 ≤ footerSize v.toNat := by unfold footerSize; split <;> omega
  simp only [List.length_append, magic_length, List.length_cons]
  omega

theorem validMember_unique {P : Payload} {cfg : Lzip.Cfg} {inp out out' : List UInt8} {n n' : Nat}
    (h : ValidMemberAt P cfg inp out n) (h' : ValidMemberAt P cfg inp out' n') : out = out' ∧ n = n' := by
  obtain ⟨v, c, r2, rfl, _, ds, hd, _, _, ho, _, rfl⟩ := h
  obtain ⟨v', c', r2', he, _, ds', hd', _, _, ho', _, rfl⟩ := h'
  simp only [List.append_cancel_left_eq, List.cons.injEq] at he
  obtain ⟨rfl, rfl, rfl⟩ := he
  rw [hd] at hd'
  cases hd'
  exact ⟨ho.symm.trans ho', rfl⟩

/-- Declarative validity of a .lz file decoded with LZMA_CONCATENATED: one or more valid members, then a tail obeying the
    trailing-data rule. The Boolean is `first_member`: a tail alone is acceptable only after at least one member. -/
inductive ValidFrom (P : Payload) (cfg : Lzip.Cfg) : Bool → List UInt8 → List UInt8 → Nat → Prop
  | tail {t : List UInt8} {j : Nat} : TailOk cfg t j → ValidFrom P cfg false t [] j
  | member {first : Bool} {inp o o' : List UInt8} {m n' : Nat} :
      ValidMemberAt P cfg inp o m → ValidFrom P cfg false (inp.drop m) o' n' → ValidFrom P cfg first inp (o ++ o') (m + n')

theorem lzipLoop_accepts_iff (P : Payload) (cfg : Lzip.Cfg) (hc : cfg.concatenated = true) :
    ∀ (f : Nat) (first : Bool) (inp out : List UInt8) (n : Nat), inp.length < f →
      (((lzipLoop P cfg f first inp).ret = .streamEnd ∧ (lzipLoop P cfg f first inp).out = out ∧
        (lzipLoop P cfg f first inp).consumed = n) ↔ ValidFrom P cfg first inp out n) := by
  intro f
  induction f with
  | zero => intro _ _ _ _ h; omega
  | succ f ih =>
    intro first inp out n hlen
    unfold lzipLoop
    rcases lzipMember_cases P cfg first inp with ⟨o1, m, hv, he⟩ | ⟨hn, d, he, h1, h2⟩
    · have hb := validMember_bounds hv
      have hlen' : (inp.drop m).length < f := by simp only [List.length_drop]; omega
      rw [he]
      simp only [accepted, hc, if_true, prepend]
      constructor
      · rintro ⟨hr, ho, hn⟩
        have := (ih false (inp.drop m) _ _ hlen').1 ⟨hr, rfl, rfl⟩
        rw [← ho, ← hn]
        exact ValidFrom.member hv this
      · intro h
        cases h with
        | tail ht =>
          exfalso
          obtain ⟨v, c, r2, h1, _⟩ := hv
          have hm := (idString_matched_gen magic inp (v :: c :: r2) 0).2 h1
          rcases tailOk_idString cfg _ _ ht with h | h <;> rw [hm] at h
          · cases h.1
          · cases h
        | member hv' hrest =>
          obtain ⟨rfl, rfl⟩ := validMember_unique hv hv'
          obtain ⟨hr, ho, hn⟩ := (ih false (inp.drop m) _ _ hlen').2 hrest
          exact ⟨hr, by rw [ho], by rw [hn]⟩
    · rw [he]
      simp only []
      constructor
      · rintro ⟨hr, ho, hn⟩
        obtain ⟨rfl, ht, ho', _⟩ := h1 hr
        rw [← ho, ← hn, ho']
        exact ValidFrom.tail ht
      · intro h
        cases h with
        | tail ht =>
          obtain ⟨hr, hcn⟩ := h2 _ rfl ht
          obtain ⟨_, _, ho', _⟩ := h1 hr
          exact ⟨hr, ho', hcn⟩
        | member hv' _ => exact absurd hv' (hn _ _)



end

/-! ### .xz: Stream Padding and concatenation -/
section
open XzVerif XzVerif.Alone XzVerif.XzConcat

theorem dres_eta (r : DRes) : { r with ret := r.ret } = r := by cases r; rfl

/-- Without LZMA_CONCATENATED the Stream decoder is the single-Stream decoder: it stops right after the first Stream Footer. -/
theorem xz_single (X1 : One) (cfg : XzConcat.Cfg) (inp : List UInt8) (h : cfg.concatenated = false) :
    xzDecode X1 cfg inp = X1 inp := by
  unfold xzDecode xzLoop
  simp only [h, Bool.not_true, Bool.and_false, Bool.false_eq_true, if_false, Bool.not_false, if_true]
  split <;> rfl

theorem leadingZeros_zeros (z : Nat) (t : List UInt8) :
    leadingZeros (List.replicate z 0 ++ t) = z + leadingZeros t := by
  induction z with
  | zero => simp
  | succ z ih => simp [List.replicate_succ, leadingZeros, ih]; omega

theorem padding_at_end (cfg : XzConcat.Cfg) (z : Nat) :
    padding cfg (List.replicate z 0) =
      .inl { ret := if !cfg.finish then .ok else if z % 4 = 0 then .streamEnd else .dataError, out := [], consumed := z } := by
  have h := leadingZeros_zeros z []
  simp only [List.append_nil, leadingZeros, Nat.add_zero] at h
  unfold padding
  simp only [h]
  have : List.drop z (List.replicate z (0 : UInt8)) = [] := by simp
  rw [this]

theorem padding_before_byte (cfg : XzConcat.Cfg) (z : Nat) (b : UInt8) (t : List UInt8) (hb : b ≠ 0) :
    padding cfg (List.replicate z 0 ++ b :: t) =
      if z % 4 ≠ 0 then .inl { ret := .dataError, out := [], consumed := z + 1 } else .inr z := by
  have h := leadingZeros_zeros z (b :: t)
  simp only [leadingZeros, hb, if_false, Nat.add_zero] at h
  unfold padding
  simp only [h]
  have : List.drop z (List.replicate z (0 : UInt8) ++ b :: t) = b :: t := by
    rw [List.drop_append_of_le_length (by simp)]; simp
  rw [this]

theorem padding_ret_of_not_finish (cfg : XzConcat.Cfg) (hf : cfg.finish = false) (t : List UInt8) (p : DRes)
    (h : padding cfg t = .inl p) : p.ret ≠ .streamEnd := by
  unfold padding at h
  simp only [hf] at h
  split at h
  · cases h; simp
  · split at h
    · cases h; simp
    · cases h

theorem xzLoop_succ (X1 : One) (cfg : XzConcat.Cfg) (f : Nat) (first : Bool) (inp : List UInt8) :
    xzLoop X1 cfg (f + 1) first inp =
      (let r := X1 inp
       let ret1 := if r.ret = .formatError && !first then Ret.dataError else r.ret
       if ret1 ≠ .streamEnd then { r with ret := ret1 }
       else if !cfg.concatenated then r
       else
         let t := inp.drop r.consumed
         match padding cfg t with
         | .inl p => prepend r p
         | .inr z => prepend { r with consumed := r.consumed + z } (xzLoop X1 cfg f false (t.drop z))) := rfl

/-- With LZMA_CONCATENATED, LZMA_STREAM_END is only ever returned under LZMA_FINISH. -/
theorem xzLoop_needs_finish (X1 : One) (cfg : XzConcat.Cfg) (hc : cfg.concatenated = true) (hf : cfg.finish = false) :
    ∀ (f : Nat) (first : Bool) (inp : List UInt8), (xzLoop X1 cfg f first inp).ret ≠ .streamEnd := by
  intro f
  induction f with
  | zero => intro _ _; simp [xzLoop, fail]
  | succ f ih =>
    intro first inp
    unfold xzLoop
    generalize X1 inp = r
    simp only []
    by_cases h1 : (if (decide (r.ret = .formatError) && !first) = true then Ret.dataError else r.ret) ≠ .streamEnd
    · rw [if_pos h1]; exact h1
    · rw [if_neg h1]
      simp only [hc, Bool.not_true, Bool.false_eq_true, if_false]
      cases hp : padding cfg (List.drop r.consumed inp) with
      | inl p => exact padding_ret_of_not_finish cfg hf _ p hp
      | inr z => exact ih _ _

/-- Header Magic Bytes: wrong in the first Stream is LZMA_FORMAT_ERROR, wrong in a later Stream is LZMA_DATA_ERROR. -/
theorem xzLoop_bad_magic (X1 : One) (cfg : XzConcat.Cfg) (f : Nat) (first : Bool) (inp : List UInt8)
    (h : (X1 inp).ret = .formatError) :
    (xzLoop X1 cfg (f + 1) first inp).ret = if first then .formatError else .dataError := by
  unfold xzLoop
  cases first <;> simp [h]

/-- One step of the concatenation machine: a Stream `s`, `z` zero bytes, then `rest` which is empty or starts with a non-zero byte. -/
theorem xzLoop_step (X1 : One) (cfg : XzConcat.Cfg) (hc : cfg.concatenated = true) (f : Nat) (first : Bool)
    (s rest : List UInt8) (z : Nat) (hs : (X1 (s ++ (List.replicate z 0 ++ rest))).ret = .streamEnd)
    (hn : (X1 (s ++ (List.replicate z 0 ++ rest))).consumed = s.length)
    (hrest : ∀ b t, rest = b :: t → b ≠ 0) :
    xzLoop X1 cfg (f + 1) first (s ++ (List.replicate z 0 ++ rest)) =
      match rest with
      | [] => prepend (X1 (s ++ (List.replicate z 0 ++ rest)))
                { ret := if !cfg.finish then .ok else if z % 4 = 0 then .streamEnd else .dataError, out := [], consumed := z }
      | _ :: _ =>
        if z % 4 ≠ 0 then prepend (X1 (s ++ (List.replicate z 0 ++ rest))) { ret := .dataError, out := [], consumed := z + 1 }
        else prepend { X1 (s ++ (List.replicate z 0 ++ rest)) with consumed := s.length + z } (xzLoop X1 cfg f false rest) := by
  rw [xzLoop_succ]
  generalize hr : X1 (s ++ (List.replicate z 0 ++ rest)) = r at hs hn ⊢
  simp only [hs, hn, hc]
  simp only [Bool.not_true, Bool.false_eq_true, if_false, List.drop_left', ne_eq, not_true_eq_false, reduceCtorEq, decide_false, Bool.false_and]
  cases rest with
  | nil =>
    simp only [List.append_nil, padding_at_end]
  | cons b t =>
    have hb := hrest b t rfl
    simp only [padding_before_byte cfg z b t hb]
    by_cases hz : z % 4 ≠ 0
    · rw [if_pos hz, if_pos hz]
    · rw [if_neg hz, if_neg hz]
      simp only []
      rw [List.drop_append_of_le_length (by simp)]
      simp


end

/-! ### auto-detection: the picky test -/
section
open XzVerif XzVerif.Alone XzVerif.Auto

/-- The header bytes that are present pass the plausibility ("picky") test of alone_decoder.c. -/
def PickyPass (inp : List UInt8) : Prop :=
  (5 ≤ inp.length → pickyDictOk (leNat ((inp.drop 1).take 4)) = true) ∧
  (13 ≤ inp.length → pickySizeOk (leNat ((inp.drop 5).take 8)) = true)

/-- the first byte is not a valid lc/lp/pb byte -/
def BadProps (inp : List UInt8) : Prop := ∃ b r, inp = b :: r ∧ lclppbDecode b.toNat = none

theorem alone_picky_of_pass (P : Payload) (ml mk : Nat) (inp : List UInt8) (h : PickyPass inp) :
    aloneDecode P { picky := true, memlimit := ml, memK := mk } inp
      = aloneDecode P { picky := false, memlimit := ml, memK := mk } inp := by
  obtain ⟨h1, h2⟩ := h
  cases inp with
  | nil => rfl
  | cons p r1 =>
    simp only [aloneDecode]
    cases lclppbDecode p.toNat with
    | none => rfl
    | some t =>
      simp only []
      by_cases h4 : r1.length < 4
      · simp only [h4, if_true]
      · simp only [h4, if_false]
        have hd : pickyDictOk (leNat (r1.take 4)) = true := by
          have := h1 (by simp only [List.length_cons]; omega)
          simpa using this
        simp only [hd, Bool.not_true, Bool.and_false, Bool.false_eq_true, if_false]
        by_cases h8 : (r1.drop 4).length < 8
        · simp only [h8, if_true]
        · simp only [h8, if_false]
          have hs : pickySizeOk (leNat ((r1.drop 4).take 8)) = true := by
            have := h2 (by simp only [List.length_cons]; simp only [List.length_drop] at h8; omega)
            simpa using this
          simp only [hs, Bool.not_true, Bool.and_false, Bool.false_eq_true, if_false]

theorem alone_format_error_iff (P : Payload) (hP : ∀ o r, (P o r).ret ≠ .formatError) (ml mk : Nat) (picky : Bool) (inp : List UInt8) :
    (aloneDecode P { picky := picky, memlimit := ml, memK := mk } inp).ret = .formatError
      ↔ BadProps inp ∨ (picky = true ∧ ¬ PickyPass inp) := by
  unfold BadProps PickyPass
  cases inp with
  | nil => simp [aloneDecode, needMore]
  | cons p r1 =>
    simp only [aloneDecode, List.cons.injEq, List.drop_succ_cons, List.drop_zero, List.length_cons]
    cases hl : lclppbDecode p.toNat with
    | none => simp [fail, hl]
    | some t =>
      have nb : ¬ ∃ b r, (p = b ∧ r1 = r) ∧ lclppbDecode b.toNat = none := by
        rintro ⟨b, r, ⟨rfl, rfl⟩, h⟩; rw [hl] at h; cases h
      simp only [nb, false_or]
      by_cases h4 : r1.length < 4
      · simp only [h4, if_true, needMore]
        constructor
        · intro h; cases h
        · rintro ⟨_, h⟩; exact absurd ⟨fun _ => by omega, fun _ => by omega⟩ h
      · simp only [h4, if_false]
        by_cases hpd : (picky && !pickyDictOk (leNat (r1.take 4))) = true
        · simp only [hpd, if_true, fail, true_iff]
          simp only [Bool.and_eq_true, Bool.not_eq_true'] at hpd
          refine ⟨hpd.1, fun h => ?_⟩
          have := h.1 (by omega)
          rw [hpd.2] at this; cases this
        · simp only [hpd, Bool.false_eq_true, if_false]
          by_cases h8 : (r1.drop 4).length < 8
          · simp only [h8, if_true, needMore]
            constructor
            · intro h; cases h
            · rintro ⟨hp, h⟩
              exfalso; apply h
              refine ⟨fun _ => ?_, fun _ => by simp only [List.length_drop] at h8; omega⟩
              simp only [hp, Bool.true_and, Bool.not_eq_true', Bool.not_eq_false] at hpd
              exact hpd
          · simp only [h8, if_false]
            by_cases hps : (picky && !pickySizeOk (leNat ((r1.drop 4).take 8))) = true
            · simp only [hps, if_true, fail, true_iff]
              simp only [Bool.and_eq_true, Bool.not_eq_true'] at hps
              refine ⟨hps.1, fun h => ?_⟩
              have := h.2 (by simp only [List.length_drop] at h8; omega)
              rw [hps.2] at this; cases this
            · simp only [hps, Bool.false_eq_true, if_false]
              have hpass : picky = true → (pickyDictOk (leNat (r1.take 4)) = true ∧ pickySizeOk (leNat ((r1.drop 4).take 8)) = true) := by
                intro hp
                simp only [hp, Bool.true_and, Bool.not_eq_true', Bool.not_eq_false] at hpd hps
                exact ⟨hpd, hps⟩
              split
              · constructor
                · intro h; cases h
                · rintro ⟨hp, h⟩; exact absurd ⟨fun _ => (hpass hp).1, fun _ => (hpass hp).2⟩ h
              · constructor
                · intro h; exact absurd h (hP _ _)
                · rintro ⟨hp, h⟩; exact absurd ⟨fun _ => (hpass hp).1, fun _ => (hpass hp).2⟩ h

end

/-! ### decoding stops at the end of the first stream -/
section
open XzVerif XzVerif.Alone XzVerif.Lzip

/-- The payload decoder is causal: once it has reported the end of the stream on an input, bytes appended after that
    input do not change its verdict (it never looks past the end of the stream). -/
def Causal (P : Payload) : Prop := ∀ o s t, (P o s).ret = .streamEnd → P o (s ++ t) = P o s

theorem alone_stops (P : Payload) (hP : Causal P) (cfg : Alone.Cfg) (s t : List UInt8)
    (h : (aloneDecode P cfg s).ret = .streamEnd) : aloneDecode P cfg (s ++ t) = aloneDecode P cfg s := by
  cases s with
  | nil => simp [aloneDecode, needMore] at h
  | cons p r1 =>
    simp only [aloneDecode, List.cons_append] at h ⊢
    cases hl : lclppbDecode p.toNat with
    | none => rfl
    | some tt =>
      obtain ⟨lc, lp, pb⟩ := tt
      simp only [hl] at h
      simp only []
      by_cases h4 : r1.length < 4
      · rw [if_pos h4] at h; simp [needMore] at h
      · have h4' : ¬ (r1 ++ t).length < 4 := by simp only [List.length_append]; omega
        simp only [h4, if_false] at h
        simp only [h4, h4', if_false]
        have e4 : (r1 ++ t).take 4 = r1.take 4 := List.take_append_of_le_length (by omega)
        have ed : (r1 ++ t).drop 4 = r1.drop 4 ++ t := List.drop_append_of_le_length (by omega)
        rw [e4, ed]
        by_cases hpd : (cfg.picky && !pickyDictOk (leNat (r1.take 4))) = true
        · rw [if_pos hpd] at h; simp [fail] at h
        · simp only [hpd, Bool.false_eq_true, if_false] at h ⊢
          by_cases h8 : (r1.drop 4).length < 8
          · rw [if_pos h8] at h; simp [needMore] at h
          · have h8' : ¬ (r1.drop 4 ++ t).length < 8 := by simp only [List.length_append]; omega
            simp only [h8, if_false] at h
            simp only [h8, h8', if_false]
            have e8 : (r1.drop 4 ++ t).take 8 = (r1.drop 4).take 8 := List.take_append_of_le_length (by omega)
            have ed8 : (r1.drop 4 ++ t).drop 8 = (r1.drop 4).drop 8 ++ t := List.drop_append_of_le_length (by omega)
            rw [e8, ed8]
            by_cases hps : (cfg.picky && !pickySizeOk (leNat ((r1.drop 4).take 8))) = true
            · rw [if_pos hps] at h; simp [fail] at h
            · simp only [hps, Bool.false_eq_true, if_false] at h ⊢
              by_cases hm : cfg.memK + leNat (r1.take 4) > effMemlimit cfg.memlimit
              · rw [if_pos hm] at h; simp at h
              · simp only [hm, if_false] at h ⊢
                rw [hP _ _ t h]

end
section
open XzVerif XzVerif.Alone XzVerif.Lzip


theorem footerOk_append (cfg : Lzip.Cfg) (v : Nat) (hv : v ≤ 1) (r : PRes) (r3 t : List UInt8) (h : FooterOk cfg v r r3) :
    FooterOk cfg v r (r3 ++ t) := by
  obtain ⟨h1, h2, h3, h4⟩ := h
  have h12 : 12 ≤ footerSize v := by unfold footerSize; split <;> omega
  have e4 : (r3 ++ t).take 4 = r3.take 4 := List.take_append_of_le_length (by omega)
  have e8 : ((r3 ++ t).drop 4).take 8 = (r3.drop 4).take 8 := by
    rw [List.drop_append_of_le_length (by omega)]
    exact List.take_append_of_le_length (by simp only [List.length_drop]; omega)
  refine ⟨by simp only [List.length_append]; omega, by rw [e4]; exact h2, by rw [e8]; exact h3, ?_⟩
  intro hv0
  have hv1 : v = 1 := by omega
  subst hv1
  have h20 : 20 ≤ r3.length := by simpa [footerSize] using h1
  have e12 : ((r3 ++ t).drop 12).take 8 = (r3.drop 12).take 8 := by
    rw [List.drop_append_of_le_length (by omega)]
    exact List.take_append_of_le_length (by simp only [List.length_drop]; omega)
  rw [e12]; exact h4 hv0

theorem validMember_append (P : Payload) (hP : Causal P) (cfg : Lzip.Cfg) (s t out : List UInt8) (n : Nat)
    (h : ValidMemberAt P cfg s out n) : ValidMemberAt P cfg (s ++ t) out n := by
  obtain ⟨v, c, r2, rfl, hv, ds, hd, hm, hr, ho, hf, hn⟩ := h
  refine ⟨v, c, r2 ++ t, by simp, hv, ds, hd, hm, ?_, ?_, ?_, ?_⟩
  · rw [hP _ _ t hr]; exact hr
  · rw [hP _ _ t hr]; exact ho
  · rw [hP _ _ t hr]
    have hc : (P (lzipOpts ds) r2).consumed ≤ r2.length := by
      have := hf.1
      simp only [List.length_drop] at this
      have h12 : 12 ≤ footerSize v.toNat := by unfold footerSize; split <;> omega
      omega
    rw [List.drop_append_of_le_length hc]
    exact footerOk_append cfg _ hv _ _ t hf
  · rw [hP _ _ t hr]; exact hn

/-- single-member decoding (no LZMA_CONCATENATED) in terms of `lzipMember` -/
theorem lzipDecode_single (P : Payload) (cfg : Lzip.Cfg) (hc : cfg.concatenated = false) (inp : List UInt8) :
    (∃ out n, ValidMemberAt P cfg inp out n ∧
        lzipDecode P cfg inp = { ret := .streamEnd, out := out, consumed := n, events := tellEv cfg })
    ∨ ((∀ out n, ¬ ValidMemberAt P cfg inp out n) ∧ (lzipDecode P cfg inp).ret ≠ .streamEnd) := by
  unfold lzipDecode lzipLoop
  rcases lzipMember_cases P cfg true inp with ⟨o, m, hv, he⟩ | ⟨hn, d, he, h1, _⟩
  · left
    refine ⟨o, m, hv, ?_⟩
    rw [he]; simp [accepted, hc]
  · right
    refine ⟨hn, ?_⟩
    rw [he]
    intro h
    have := (h1 h).1
    cases this

theorem lzip_stops (P : Payload) (hP : Causal P) (cfg : Lzip.Cfg) (hc : cfg.concatenated = false) (s t : List UInt8)
    (h : (lzipDecode P cfg s).ret = .streamEnd) : lzipDecode P cfg (s ++ t) = lzipDecode P cfg s := by
  rcases lzipDecode_single P cfg hc s with ⟨o, m, hv, he⟩ | ⟨_, hne⟩
  · have hv' := validMember_append P hP cfg s t o m hv
    rcases lzipDecode_single P cfg hc (s ++ t) with ⟨o', m', hv2, he2⟩ | ⟨hn, _⟩
    · obtain ⟨rfl, rfl⟩ := validMember_unique hv' hv2
      rw [he, he2]
    · exact absurd hv' (hn _ _)
  · exact absurd h hne

end

end XzVerif.C16L
